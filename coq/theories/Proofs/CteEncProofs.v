(* Proofs about the CTE encoder model (Model/CteEnc.v) for property C23:
   the text depends only on the data, not on how arrays are delivered. *)
From CE Require Import Model.CteEnc.
From Coq Require Import ZifyN ZifyNat ZifyBool Lia.
Open Scope N_scope.

(* ------------------------------------------------------------------ *)
(** * States up to what cannot be observed

   [erase] forgets the array engine (it is re-initialised by every begin op
   before it is read) and forgets Column while [dirty] (it is re-set by the next
   line feed, and reading it earlier sets [bad]). *)

Definition erase (s : est) : est :=
  {| rout := rout s; col := if dirty s then 0%Z else col s; ind := ind s; stack := stack s; cho := cho s;
     en := eng0; dirty := dirty s; bad := bad s |}.

Definition R (a b : est) : Prop := erase a = erase b.

Lemma R_refl a : R a a. Proof. reflexivity. Qed.
Lemma R_sym a b : R a b -> R b a. Proof. unfold R; congruence. Qed.
Lemma R_trans a b c : R a b -> R b c -> R a c. Proof. unfold R; congruence. Qed.

Lemma R_fields a b :
  R a b -> rout a = rout b /\ ind a = ind b /\ stack a = stack b /\ cho a = cho b /\ dirty a = dirty b /\ bad a = bad b /\
           (dirty a = false -> col a = col b).
Proof.
  destruct a as [r1 c1 i1 st1 ch1 e1 d1 b1], b as [r2 c2 i2 st2 ch2 e2 d2 b2]; unfold R, erase; cbn; intro H.
  injection H; clear H; intros; subst. repeat split; auto. intros ->. assumption.
Qed.

Lemma R_bad a b : R a b -> bad a = bad b.
Proof. intro H; apply R_fields in H; tauto. Qed.
Lemma R_rout a b : R a b -> rout a = rout b.
Proof. intro H; apply R_fields in H; tauto. Qed.

(* one-directional simulation up to [R], void once [bad] *)
Definition okO (o1 o2 : option est) : Prop :=
  match o1 with
  | None => True
  | Some a => bad a = true \/ exists b, o2 = Some b /\ R a b
  end.
Definition goodO (f : est -> option est) : Prop := forall a b, R a b -> okO (f a) (f b).
Definition goodT (f : est -> est) : Prop := forall a b, R a b -> bad (f a) = true \/ R (f a) (f b).
Definition monoO (f : est -> option est) : Prop := forall s s', bad s = true -> f s = Some s' -> bad s' = true.
Definition monoT (f : est -> est) : Prop := forall s, bad s = true -> bad (f s) = true.

Lemma goodO_T f : goodT f -> goodO (fun s => Some (f s)).
Proof.
  intros H a b HR. cbn. destruct (H a b HR) as [Hb|Hr]; [left; exact Hb | right; eexists; split; [reflexivity | exact Hr]].
Qed.

Lemma monoO_T f : monoT f -> monoO (fun s => Some (f s)).
Proof. intros H s s' Hb [= <-]. apply H, Hb. Qed.

Lemma good_bind f g : goodO f -> goodO g -> monoO g -> goodO (fun s => bind (f s) g).
Proof.
  intros Hf Hg Mg a b HR. specialize (Hf a b HR). unfold okO in *.
  destruct (f a) as [a'|] eqn:Ea; cbn; [|exact I].
  destruct (g a') as [a''|] eqn:Eg; [|exact I].
  destruct Hf as [Hb|[b' [Eb HR']]].
  - left. eapply Mg; eauto.
  - rewrite Eb; cbn. specialize (Hg a' b' HR'). rewrite Eg in Hg. exact Hg.
Qed.

Lemma mono_bind f g : monoO f -> monoO g -> monoO (fun s => bind (f s) g).
Proof.
  intros Mf Mg s s' Hb E. destruct (f s) as [m|] eqn:Ef; cbn in E; [|discriminate].
  eapply Mg; [eapply Mf; eauto | exact E].
Qed.

Lemma goodT_comp f g : goodT f -> goodT g -> monoT g -> goodT (fun s => g (f s)).
Proof.
  intros Hf Hg Mg a b HR. destruct (Hf a b HR) as [Hb|Hr]; [left; apply Mg, Hb | apply Hg, Hr].
Qed.

Lemma monoT_comp f g : monoT f -> monoT g -> monoT (fun s => g (f s)).
Proof. intros Mf Mg s Hb. apply Mg, Mf, Hb. Qed.

(* a choice that depends on erased-invariant data only *)
Lemma good_dep {A} (p : est -> A) (F : A -> est -> option est) :
  (forall a b, R a b -> p a = p b) -> (forall x, goodO (F x)) -> goodO (fun s => F (p s) s).
Proof. intros Hp HF a b HR. rewrite (Hp a b HR). apply HF, HR. Qed.

Lemma goodT_dep {A} (p : est -> A) (F : A -> est -> est) :
  (forall a b, R a b -> p a = p b) -> (forall x, goodT (F x)) -> goodT (fun s => F (p s) s).
Proof. intros Hp HF a b HR. rewrite (Hp a b HR). apply HF, HR. Qed.

Lemma mono_dep {A} (p : est -> A) (F : A -> est -> option est) :
  (forall x, monoO (F x)) -> monoO (fun s => F (p s) s).
Proof. intros HF s s' Hb E. eapply HF; eauto. Qed.

Lemma monoT_dep {A} (p : est -> A) (F : A -> est -> est) :
  (forall x, monoT (F x)) -> monoT (fun s => F (p s) s).
Proof. intros HF s Hb. apply HF, Hb. Qed.

Lemma inv_stack a b : R a b -> stack a = stack b. Proof. intro H; apply R_fields in H; tauto. Qed.
Lemma inv_ind a b : R a b -> ind a = ind b. Proof. intro H; apply R_fields in H; tauto. Qed.
Lemma inv_cho a b : R a b -> cho a = cho b. Proof. intro H; apply R_fields in H; tauto. Qed.
Lemma inv_dirty a b : R a b -> dirty a = dirty b. Proof. intro H; apply R_fields in H; tauto. Qed.

(* ---- primitives: congruences for [R] that leave [bad] alone ---- *)

Definition cong (f : est -> est) : Prop := (forall a b, R a b -> R (f a) (f b)) /\ (forall s, bad (f s) = bad s).

Lemma cong_goodT f : cong f -> goodT f.
Proof. intros [H _] a b HR. right. apply H, HR. Qed.
Lemma cong_monoT f : cong f -> monoT f.
Proof. intros [_ H] s Hb. rewrite H. exact Hb. Qed.
Lemma cong_comp f g : cong f -> cong g -> cong (fun s => g (f s)).
Proof. intros [Hf Bf] [Hg Bg]. split; [intros a b HR; apply Hg, Hf, HR | intro s; rewrite Bg, Bf; reflexivity]. Qed.
Lemma cong_id : cong (fun s => s).
Proof. split; auto. Qed.
Lemma cong_dep {A} (p : est -> A) (F : A -> est -> est) :
  (forall a b, R a b -> p a = p b) -> (forall x, cong (F x)) -> cong (fun s => F (p s) s).
Proof.
  intros Hp HF. split.
  - intros a b HR. rewrite (Hp a b HR). apply HF, HR.
  - intro s. apply HF.
Qed.

Ltac Rdestruct H :=
  unfold R, erase in H; cbn in H; injection H; clear H; intros; subst;
  repeat match goal with d : bool |- _ => destruct d end; cbn in *; subst.

Ltac prim :=
  split;
  [ intros [r1 c1 i1 st1 ch1 e1 d1 b1] [r2 c2 i2 st2 ch2 e2 d2 b2] H;
    Rdestruct H; unfold R, erase; cbn; try discriminate; reflexivity
  | intros []; reflexivity ].

Lemma cong_emit_cd bs d : cong (emit_cd bs d). Proof. prim. Qed.
Lemma cong_emit_nolf bs : cong (emit_nolf bs). Proof. apply cong_emit_cd. Qed.
Lemma cong_emit_raw bs : cong (emit_raw bs). Proof. apply cong_emit_cd. Qed.
Lemma cong_emit_setcol bs c : cong (emit_setcol bs c). Proof. prim. Qed.
Lemma cong_emit_lf : cong emit_lf. Proof. apply cong_emit_setcol. Qed.
Lemma cong_emit_plf bs : cong (emit_plf bs).
Proof. unfold emit_plf. destruct (plf_col bs); [apply cong_emit_setcol | apply cong_emit_raw]. Qed.
Lemma cong_emit_rune lf r : cong (emit_rune lf r).
Proof. unfold emit_rune. destruct (lf && (r =? 10)); [apply cong_emit_setcol | apply cong_emit_nolf]. Qed.
Lemma cong_set_stack st : cong (set_stack st). Proof. prim. Qed.
Lemma cong_set_ind i : cong (set_ind i). Proof. prim. Qed.
Lemma cong_set_cho b : cong (set_cho b). Proof. prim. Qed.
Lemma cong_set_en e : cong (set_en e). Proof. prim. Qed.
Lemma cong_set_dirty : cong set_dirty. Proof. prim. Qed.
Lemma cong_upd_en f : cong (upd_en f).
Proof.
  split.
  - intros [r1 c1 i1 st1 ch1 e1 d1 b1] [r2 c2 i2 st2 ch2 e2 d2 b2] H.
    Rdestruct H; unfold R, erase; cbn; try discriminate; reflexivity.
  - intros []; reflexivity.
Qed.
Lemma cong_push d : cong (push d).
Proof. unfold push. apply (cong_dep stack (fun st => set_stack (d :: st))); [apply inv_stack | intro; apply cong_set_stack]. Qed.
Lemma cong_note_read : (forall a b, R a b -> R (note_read a) (note_read b)).
Proof.
  intros [r1 c1 i1 st1 ch1 e1 d1 b1] [r2 c2 i2 st2 ch2 e2 d2 b2] H.
  Rdestruct H; unfold R, erase; cbn; try discriminate; reflexivity.
Qed.

Lemma cong_newline_indent : cong newline_indent.
Proof.
  unfold newline_indent.
  apply (cong_dep ind (fun i s => emit_nolf (spaces i) (emit_lf s))); [apply inv_ind|].
  intro i. apply (cong_comp emit_lf (emit_nolf (spaces i))); [apply cong_emit_lf | apply cong_emit_nolf].
Qed.

Lemma cong_fold {A} (F : est -> A -> est) (l : list A) :
  (forall x, cong (fun s => F s x)) -> cong (fun s => fold_left F l s).
Proof.
  intro H. induction l as [|x l IH]; cbn; [apply cong_id|].
  apply (cong_comp (fun s => F s x) (fun s => fold_left F l s)); [apply H | exact IH].
Qed.

Lemma cong_write_quoted lf v : cong (write_quoted lf v).
Proof.
  unfold write_quoted. destruct v as [|b v]; [apply cong_emit_nolf|].
  destruct (forallb rune_safe (runes (b :: v))).
  - apply (cong_comp (fun s => (if lf then emit_plf (b :: v) else emit_nolf (b :: v)) (emit_nolf [34] s)) (emit_nolf [34])); [|apply cong_emit_nolf].
    apply (cong_comp (emit_nolf [34]) (if lf then emit_plf (b :: v) else emit_nolf (b :: v))); [apply cong_emit_nolf|].
    destruct lf; [apply cong_emit_plf | apply cong_emit_nolf].
  - apply (cong_comp (fun s => fold_left _ (runes (b :: v)) (emit_nolf [34] s)) (emit_nolf [34])); [|apply cong_emit_nolf].
    apply (cong_comp (emit_nolf [34]) (fun s => fold_left _ (runes (b :: v)) s)); [apply cong_emit_nolf|].
    apply cong_fold. intro r. destruct (rune_safe r); [apply cong_emit_rune | apply cong_emit_nolf].
Qed.

(* ---- the two Column readers ---- *)

Lemma bad_note_read s : bad (note_read s) = bad s || dirty s. Proof. destruct s; reflexivity. Qed.

Lemma good_indent_if_origin : goodT indent_if_origin.
Proof.
  intros a b HR. unfold indent_if_origin.
  destruct (dirty a) eqn:Ed.
  - left. assert (Hb : bad (note_read a) = true) by (rewrite bad_note_read, Ed; apply orb_true_r).
    destruct (at_origin (note_read a)); [|exact Hb].
    destruct (cong_emit_nolf sp4) as [_ ->]. exact Hb.
  - right. pose proof (R_fields _ _ HR) as (_ & Hi & _ & _ & _ & _ & Hc). specialize (Hc Ed).
    assert (Ha : at_origin (note_read a) = at_origin (note_read b)).
    { unfold at_origin. destruct a, b; cbn in *. rewrite Hc, Hi. reflexivity. }
    rewrite Ha. pose proof (cong_note_read _ _ HR) as HR'.
    destruct (at_origin (note_read b)); [apply cong_emit_nolf, HR' | exact HR'].
Qed.

Lemma mono_note_read : monoT note_read.
Proof. intros s Hb. rewrite bad_note_read, Hb. reflexivity. Qed.

Lemma mono_indent_if_origin : monoT indent_if_origin.
Proof.
  intros s Hb. unfold indent_if_origin. pose proof (mono_note_read s Hb) as H.
  destruct (at_origin (note_read s)); [|exact H]. destruct (cong_emit_nolf sp4) as [_ ->]. exact H.
Qed.

Lemma good_return_to_origin : goodT return_to_origin.
Proof.
  intros a b HR. unfold return_to_origin.
  destruct (dirty a) eqn:Ed.
  - left. assert (Hb : bad (note_read a) = true) by (rewrite bad_note_read, Ed; apply orb_true_r).
    destruct (at_origin (note_read a)); [exact Hb|].
    destruct (cong_emit_nolf (spaces (ind (note_read a) - 4))) as [_ ->].
    destruct cong_emit_lf as [_ ->]. exact Hb.
  - right. pose proof (R_fields _ _ HR) as (_ & Hi & _ & _ & _ & _ & Hc). specialize (Hc Ed).
    assert (Ha : at_origin (note_read a) = at_origin (note_read b)).
    { unfold at_origin. destruct a, b; cbn in *. rewrite Hc, Hi. reflexivity. }
    rewrite Ha. pose proof (cong_note_read _ _ HR) as HR'.
    destruct (at_origin (note_read b)); [exact HR'|].
    assert (Hi' : ind (note_read a) = ind (note_read b)) by (destruct a, b; exact Hi).
    rewrite Hi'. apply cong_emit_nolf, cong_emit_lf, HR'.
Qed.

Lemma mono_return_to_origin : monoT return_to_origin.
Proof.
  intros s Hb. unfold return_to_origin. pose proof (mono_note_read s Hb) as H.
  destruct (at_origin (note_read s)); [exact H|].
  destruct (cong_emit_nolf (spaces (ind (note_read s) - 4))) as [_ ->].
  destruct cong_emit_lf as [_ ->]. exact H.
Qed.

(* ------------------------------------------------------------------ *)
(** * Decorators and plain events respect [R] *)

Lemma good_none : goodO (fun _ => None). Proof. intros a b _. exact I. Qed.
Lemma mono_none : monoO (fun _ => None). Proof. intros s s' _ [=]. Qed.
Lemma good_cong f : cong f -> goodO (fun s => Some (f s)).
Proof. intro H. apply goodO_T, cong_goodT, H. Qed.
Lemma mono_cong f : cong f -> monoO (fun s => Some (f s)).
Proof. intro H. apply monoO_T, cong_monoT, H. Qed.

Lemma okO_T f a b : goodT f -> R a b -> okO (Some (f a)) (Some (f b)).
Proof. intros H HR. exact (goodO_T f H a b HR). Qed.
Lemma okO_cong f a b : cong f -> R a b -> okO (Some (f a)) (Some (f b)).
Proof. intros H HR. apply (okO_T f); [apply cong_goodT, H | exact HR]. Qed.
Lemma okO_id a b : R a b -> okO (Some a) (Some b).
Proof. apply (okO_cong (fun s => s) a b cong_id). Qed.

Lemma good_before_value : goodO before_value.
Proof.
  intros a b HR. unfold before_value. rewrite (inv_stack _ _ HR). destruct (stack b) as [|d st]; [exact I|].
  destruct d; first [apply okO_id, HR | apply (okO_cong newline_indent), HR; apply cong_newline_indent
                    | apply (okO_T indent_if_origin), HR; apply good_indent_if_origin].
Qed.
Lemma mono_before_value : monoO before_value.
Proof.
  intros s s' Hb E. unfold before_value in E. destruct (stack s) as [|d st]; [discriminate|]. injection E as <-.
  destruct d; first [exact Hb | apply (cong_monoT _ cong_newline_indent), Hb | apply mono_indent_if_origin, Hb].
Qed.

Lemma good_before_comment : goodO before_comment.
Proof.
  intros a b HR. unfold before_comment. rewrite (inv_stack _ _ HR). destruct (stack b) as [|d st]; [exact I|].
  destruct d; first [apply okO_id, HR | apply (okO_cong newline_indent), HR; apply cong_newline_indent].
Qed.
Lemma mono_before_comment : monoO before_comment.
Proof.
  intros s s' Hb E. unfold before_comment in E. destruct (stack s) as [|d st]; [discriminate|]. injection E as <-.
  destruct d; first [exact Hb | apply (cong_monoT _ cong_newline_indent), Hb].
Qed.

Lemma good_after_comment : goodO after_comment.
Proof.
  intros a b HR. unfold after_comment. rewrite (inv_stack _ _ HR). destruct (stack b) as [|d st]; [exact I|].
  destruct d;
    first [ apply (okO_cong (fun s => set_cho true s)), HR; apply cong_set_cho
          | apply (okO_cong (fun s => set_cho true (newline_indent s))), HR;
            apply (cong_comp newline_indent (set_cho true)); [apply cong_newline_indent | apply cong_set_cho]
          | apply (okO_T (fun s => set_cho true (return_to_origin s))), HR;
            apply (goodT_comp return_to_origin (set_cho true));
            [apply good_return_to_origin | apply cong_goodT, cong_set_cho | apply cong_monoT, cong_set_cho] ].
Qed.
Lemma mono_after_comment : monoO after_comment.
Proof.
  intros s s' Hb E. unfold after_comment in E. destruct (stack s) as [|d st]; [discriminate|]. injection E as <-.
  destruct (cong_set_cho true) as [_ Hc]. rewrite Hc.
  destruct d; first [exact Hb | apply (cong_monoT _ cong_newline_indent), Hb | apply mono_return_to_origin, Hb].
Qed.

Lemma cong_after_value_body st (sep : bool) :
  cong (fun s => set_cho true (set_stack st (if sep then emit_nolf [32; 61; 32] s else s))).
Proof.
  apply (cong_comp _ (set_cho true)); [|apply cong_set_cho].
  apply (cong_comp _ (set_stack st)); [|apply cong_set_stack].
  destruct sep; [apply cong_emit_nolf | apply cong_id].
Qed.

Lemma good_after_value : goodO after_value.
Proof.
  intros a b HR. unfold after_value. rewrite (inv_stack _ _ HR).
  destruct (after_stack (stack b)) as [[st' sep]|]; [|exact I].
  apply (okO_cong _ a b (cong_after_value_body st' sep) HR).
Qed.
Lemma mono_after_value : monoO after_value.
Proof.
  intros s s' Hb E. unfold after_value in E.
  destruct (after_stack (stack s)) as [[st' sep]|]; [|discriminate]. injection E as <-.
  apply (cong_monoT _ (cong_after_value_body st' sep)), Hb.
Qed.

Lemma good_unstack : goodO unstack.
Proof.
  intros a b HR. unfold unstack. rewrite (inv_stack _ _ HR). destruct (stack b) as [|d [|d' st]]; try exact I.
  apply (okO_cong _ a b (cong_set_stack (d' :: st)) HR).
Qed.
Lemma mono_unstack : monoO unstack.
Proof.
  intros s s' Hb E. unfold unstack in E. destruct (stack s) as [|d [|d' st]]; try discriminate. injection E as <-.
  apply (cong_monoT _ (cong_set_stack (d' :: st))), Hb.
Qed.

Lemma good_unindent : goodO unindent.
Proof.
  intros a b HR. unfold unindent. rewrite (inv_ind _ _ HR). destruct (ind b <? 4); [exact I|].
  apply (okO_cong _ a b (cong_set_ind (ind b - 4)) HR).
Qed.
Lemma mono_unindent : monoO unindent.
Proof.
  intros s s' Hb E. unfold unindent in E. destruct (ind s <? 4); [discriminate|]. injection E as <-.
  apply (cong_monoT _ (cong_set_ind (ind s - 4))), Hb.
Qed.

Lemma cong_nl_if_cho : cong (fun s => if cho s then newline_indent s else s).
Proof.
  apply (cong_dep cho (fun (c : bool) s => if c then newline_indent s else s)); [apply inv_cho|].
  intros []; [apply cong_newline_indent | apply cong_id].
Qed.

Lemma good_close_tail closer : goodO (fun s => bind (unstack (emit_nolf [closer] (if cho s then newline_indent s else s))) after_value).
Proof.
  apply (good_bind (fun s => unstack (emit_nolf [closer] (if cho s then newline_indent s else s))) after_value);
    [| apply good_after_value | apply mono_after_value].
  intros a b HR. apply good_unstack. apply cong_emit_nolf. apply cong_nl_if_cho. exact HR.
Qed.
Lemma mono_close_tail closer : monoO (fun s => bind (unstack (emit_nolf [closer] (if cho s then newline_indent s else s))) after_value).
Proof.
  apply (mono_bind (fun s => unstack (emit_nolf [closer] (if cho s then newline_indent s else s))) after_value); [|apply mono_after_value].
  intros s s' Hb E. eapply mono_unstack; [|exact E].
  destruct (cong_emit_nolf [closer]) as [_ ->]. destruct cong_nl_if_cho as [_ H]. rewrite (H s). exact Hb.
Qed.

Lemma good_close_container closer : goodO (close_container closer).
Proof. unfold close_container. apply good_bind; [apply good_unindent | apply good_close_tail | apply mono_close_tail]. Qed.
Lemma mono_close_container closer : monoO (close_container closer).
Proof. unfold close_container. apply mono_bind; [apply mono_unindent | apply mono_close_tail]. Qed.

Lemma good_rt_tail : goodO (fun s => bind (unstack (emit_nolf [62] (if cho s then newline_indent s else s))) (fun s => Some (newline_indent s))).
Proof.
  apply (good_bind (fun s => unstack (emit_nolf [62] (if cho s then newline_indent s else s))) (fun s => Some (newline_indent s)));
    [| apply good_cong, cong_newline_indent | apply mono_cong, cong_newline_indent].
  intros a b HR. apply good_unstack. apply cong_emit_nolf. apply cong_nl_if_cho. exact HR.
Qed.
Lemma mono_rt_tail : monoO (fun s => bind (unstack (emit_nolf [62] (if cho s then newline_indent s else s))) (fun s => Some (newline_indent s))).
Proof.
  apply (mono_bind (fun s => unstack (emit_nolf [62] (if cho s then newline_indent s else s))) (fun s => Some (newline_indent s)));
    [|apply mono_cong, cong_newline_indent].
  intros s s' Hb E. eapply mono_unstack; [|exact E].
  destruct (cong_emit_nolf [62]) as [_ ->]. destruct cong_nl_if_cho as [_ H]. rewrite (H s). exact Hb.
Qed.

Lemma good_end_container : goodO end_container.
Proof.
  intros a b HR. unfold end_container. rewrite (inv_stack _ _ HR). destruct (stack b) as [|d st]; [exact I|].
  destruct d; first [exact I | apply okO_id, HR | apply good_close_container, HR | idtac].
  apply (good_bind unindent _ good_unindent good_rt_tail mono_rt_tail a b HR).
Qed.
Lemma mono_end_container : monoO end_container.
Proof.
  intros s s' Hb E. unfold end_container in E. destruct (stack s) as [|d st]; [discriminate|].
  destruct d; first [discriminate E | injection E as <-; exact Hb | eapply mono_close_container; eassumption | idtac].
  eapply (mono_bind unindent _ mono_unindent mono_rt_tail); eassumption.
Qed.

Lemma cong_open_body (reset : bool) opener d :
  cong (fun s => push d (set_ind (ind (if reset then set_cho false s else s) + 4) (emit_nolf opener (if reset then set_cho false s else s)))).
Proof.
  assert (Hi : forall s, ind (if reset then set_cho false s else s) = ind s) by (intros []; destruct reset; reflexivity).
  split.
  - intros a b HR. rewrite !Hi, (inv_ind _ _ HR).
    apply cong_push, cong_set_ind, cong_emit_nolf. destruct reset; [apply cong_set_cho, HR | exact HR].
  - intro s. destruct (cong_push d) as [_ ->]. destruct (cong_set_ind (ind (if reset then set_cho false s else s) + 4)) as [_ ->].
    destruct (cong_emit_nolf opener) as [_ ->]. destruct reset; [destruct (cong_set_cho false) as [_ ->]|]; reflexivity.
Qed.

Lemma good_open_container reset opener d : goodO (open_container reset opener d).
Proof.
  unfold open_container. apply good_bind; [apply good_before_value | apply good_cong, cong_open_body | apply mono_cong, cong_open_body].
Qed.
Lemma mono_open_container reset opener d : monoO (open_container reset opener d).
Proof. unfold open_container. apply mono_bind; [apply mono_before_value | apply mono_cong, cong_open_body]. Qed.

Lemma good_after_emit t d : goodO (fun s => after_value (emit_cd t d s)).
Proof. intros a b HR. apply good_after_value, cong_emit_cd, HR. Qed.
Lemma mono_after_emit t d : monoO (fun s => after_value (emit_cd t d s)).
Proof. intros s s' Hb E. eapply mono_after_value; [|exact E]. destruct (cong_emit_cd t d) as [_ ->]. exact Hb. Qed.

Lemma good_scalar t d : goodO (scalar t d).
Proof. unfold scalar. apply good_bind; [apply good_before_value | apply good_after_emit | apply mono_after_emit]. Qed.
Lemma mono_scalar t d : monoO (scalar t d).
Proof. unfold scalar. apply mono_bind; [apply mono_before_value | apply mono_after_emit]. Qed.

Lemma cong_comment_body (multi : bool) text :
  cong (fun s => let s := emit_nolf (if multi then [47; 42] else [47; 47]) s in
                 if multi then emit_nolf [42; 47] (emit_plf text s) else emit_nolf text s).
Proof.
  cbv zeta. destruct multi.
  - apply (cong_comp (emit_nolf [47; 42]) (fun s => emit_nolf [42; 47] (emit_plf text s))); [apply cong_emit_nolf|].
    apply (cong_comp (emit_plf text) (emit_nolf [42; 47])); [apply cong_emit_plf | apply cong_emit_nolf].
  - apply (cong_comp (emit_nolf [47; 47]) (emit_nolf text)); apply cong_emit_nolf.
Qed.

Lemma good_step_plain c e : plain_event e = true -> goodO (fun s => step c s e).
Proof.
  intro Hp. destruct e; try discriminate Hp; cbn [step];
    try (apply good_scalar); try (apply good_open_container); try (apply (good_cong _ cong_id)).
  - (* EBeginDoc *) apply good_cong.
    apply (cong_comp (fun s => set_stack [DTop] (set_ind 0 s)) (emit_nolf [99])); [|apply cong_emit_nolf].
    apply (cong_comp (set_ind 0) (set_stack [DTop])); [apply cong_set_ind | apply cong_set_stack].
  - (* EVersion *) apply good_cong. apply (cong_comp (emit_raw (dec v)) newline_indent); [apply cong_emit_raw | apply cong_newline_indent].
  - (* EComment *)
    apply good_bind; [apply good_before_comment | |].
    + intros a b HR. apply good_after_comment. exact (proj1 (cong_comment_body multi text) a b HR).
    + intros s s' Hb E. eapply mono_after_comment; [|exact E]. exact (cong_monoT _ (cong_comment_body multi text) s Hb).
  - (* EBool *) destruct b; apply good_scalar.
  - (* EInt *) destruct (0 <=? z)%Z; apply good_scalar.
  - (* EBigInt *) destruct v; apply good_scalar.
  - (* EFloat *) destruct (write_float bits); apply good_scalar.
  - (* EBigFloat *) destruct v as [[neg m ex pr|neg]|]; [| destruct neg; apply good_scalar | apply good_scalar].
    destruct (m =? 0); cbv zeta; apply good_scalar.
  - (* EBigDecimal *) destruct v as [d|]; cbv zeta; apply good_scalar.
  - (* ENan *) destruct signaling; apply good_scalar.
  - (* EUid *) destruct (length b =? 16)%nat; [apply good_scalar | apply good_none].
  - (* EEnd *) apply good_end_container.
  - (* EMarker *)
    apply good_bind; [apply good_before_value | |].
    + apply good_cong. apply (cong_comp (emit_nolf (38 :: id ++ [58])) (push DConcat)); [apply cong_emit_nolf | apply cong_push].
    + apply mono_cong. apply (cong_comp (emit_nolf (38 :: id ++ [58])) (push DConcat)); [apply cong_emit_nolf | apply cong_push].
Qed.

(* ------------------------------------------------------------------ *)
(** * [bad] is sticky: every event *)

Lemma bad_emit_cd bs d s : bad (emit_cd bs d s) = bad s. Proof. apply cong_emit_cd. Qed.
Lemma bad_emit_nolf bs s : bad (emit_nolf bs s) = bad s. Proof. apply cong_emit_nolf. Qed.
Lemma bad_emit_raw bs s : bad (emit_raw bs s) = bad s. Proof. apply cong_emit_raw. Qed.
Lemma bad_upd_en f s : bad (upd_en f s) = bad s. Proof. apply cong_upd_en. Qed.
Lemma bad_push d s : bad (push d s) = bad s. Proof. apply cong_push. Qed.
Lemma bad_set_dirty s : bad (set_dirty s) = bad s. Proof. apply cong_set_dirty. Qed.
Lemma bad_write_quoted lf v s : bad (write_quoted lf v s) = bad s. Proof. apply cong_write_quoted. Qed.

Lemma bad_space_if_hw s : bad (space_if_hw s) = bad s.
Proof. unfold space_if_hw. rewrite bad_upd_en. destruct (ehw (en s)); [apply bad_emit_nolf | reflexivity]. Qed.

Lemma mono_outer s s' :
  bad s = true ->
  match eouter (en s) with ONone => Some s | OAfter => after_value s | OUnstackAfter => bind (unstack s) after_value end = Some s' ->
  bad s' = true.
Proof.
  intros Hb E. destruct (eouter (en s)).
  - injection E as <-. exact Hb.
  - eapply mono_after_value; eauto.
  - eapply (mono_bind unstack after_value mono_unstack mono_after_value); eauto.
Qed.

Lemma mono_end_array : monoO end_array.
Proof.
  intros s s' Hb E. unfold end_array in E.
  destruct (ecomp (en s)) as [| |lf]; cbn [bind] in E; [discriminate| |].
  - eapply mono_outer; [|exact E]. rewrite bad_emit_nolf; exact Hb.
  - eapply mono_outer; [|exact E]. rewrite bad_write_quoted; exact Hb.
Qed.

Lemma mono_begin_chunk n more : monoO (begin_chunk n more).
Proof.
  intros s s' Hb E. unfold begin_chunk in E.
  destruct ((n =? 0) && negb more).
  - eapply mono_end_array; [|exact E]. rewrite bad_upd_en. exact Hb.
  - injection E as <-. rewrite bad_upd_en. exact Hb.
Qed.

Lemma mono_finish_if_done : monoO finish_if_done.
Proof.
  intros s s' Hb E. unfold finish_if_done in E.
  destruct ((erem (en s) =? 0) && negb (emore (en s))); [eapply mono_end_array; eauto | injection E as <-; exact Hb].
Qed.

Lemma mono_emit_elems c k es : monoO (emit_elems c k es).
Proof.
  induction es as [|e r IH]; intros s s' Hb E; cbn in E; [injection E as <-; exact Hb|].
  destruct (num_elem c k e) as [[t d]|]; [|discriminate].
  eapply IH; [|exact E]. rewrite bad_emit_cd, bad_space_if_hw. exact Hb.
Qed.

Lemma mono_add_elems c d : monoO (add_elems c d).
Proof.
  intros s s' Hb E. unfold add_elems in E. destruct (ek (en s)); try discriminate.
  - injection E as <-. rewrite bad_upd_en. exact Hb.
  - destruct d; injection E as <-; [exact Hb | rewrite bad_emit_raw, bad_space_if_hw; exact Hb].
  - eapply mono_emit_elems; eauto.
Qed.

(* AddArrayData, unfolded into named pieces *)
Definition tail_of (c : ccfg) (w : nat) (d : bytes) (s : est) : option est :=
  bind (add_elems c d s) (fun s =>
  finish_if_done (upd_en (fun e => set_erem (wrap64 (Z.of_N (erem e) - Z.of_nat (length d / w))) e) s)).

Definition split_tail_of (c : ccfg) (w : nat) (d : bytes) (s : est) : option est :=
  let rc := N.to_nat (N.land (N.of_nat (length d)) (N.of_nat w - 1)) in
  if (rc =? 0)%nat then tail_of c w d s
  else tail_of c w (firstn (length d - rc) d)
                 (upd_en (fun e => set_eleft (eleft e ++ skipn (length d - rc) d) e) s).

Definition add_data_bytes (c : ccfg) (w : nat) (d : bytes) (s : est) : option est :=
  if (1 <? w)%nat then
    let lo := eleft (en s) in
    match lo with
    | [] => split_tail_of c w d s
    | _ =>
        if (w <? length lo)%nat then None else
        let fill := (w - length lo)%nat in
        if (length d <? fill)%nat then Some (upd_en (set_eleft (lo ++ d)) s)
        else bind (add_elems c (lo ++ firstn fill d) s) (fun s =>
             split_tail_of c w (skipn fill d)
               (upd_en (fun e => set_eleft [] (set_erem (wrap64 (Z.of_N (erem e) - 1)) e)) s))
    end
  else tail_of c w d s.

Lemma add_data_unfold c d s :
  add_data c d s =
  match ek (en s) with
  | KNil => None
  | KBit => let (o, r') := bool_data (erem (en s)) d in finish_if_done (upd_en (set_erem r') (emit_nolf o s))
  | k => add_data_bytes c (ak_width k) d s
  end.
Proof. unfold add_data. destruct (ek (en s)); reflexivity. Qed.

Lemma mono_tail_of c w d : monoO (tail_of c w d).
Proof.
  unfold tail_of. apply mono_bind; [apply mono_add_elems|].
  intros s s' Hb E. eapply mono_finish_if_done; [|exact E]. rewrite bad_upd_en. exact Hb.
Qed.

Lemma mono_split_tail_of c w d : monoO (split_tail_of c w d).
Proof.
  intros s s' Hb E. unfold split_tail_of in E. cbv zeta in E.
  destruct (_ =? 0)%nat; [eapply mono_tail_of; eauto|]. eapply mono_tail_of; [|exact E]. rewrite bad_upd_en. exact Hb.
Qed.

Lemma mono_add_data_bytes c w d : monoO (add_data_bytes c w d).
Proof.
  intros s s' Hb E. unfold add_data_bytes in E.
  destruct (1 <? w)%nat; [|eapply mono_tail_of; eauto].
  cbv zeta in E. destruct (eleft (en s)) as [|l0 lo]; [eapply mono_split_tail_of; eauto|].
  destruct (w <? length (l0 :: lo))%nat; [discriminate|].
  destruct (length d <? w - length (l0 :: lo))%nat.
  - injection E as <-. rewrite bad_upd_en. exact Hb.
  - destruct (add_elems c _ s) as [m|] eqn:Ea; cbn [bind] in E; [|discriminate].
    eapply mono_split_tail_of; [|exact E]. rewrite bad_upd_en. eapply mono_add_elems; eauto.
Qed.

Lemma mono_add_data c d : monoO (add_data c d).
Proof.
  intros s s' Hb E. rewrite add_data_unfold in E.
  destruct (ek (en s)) eqn:Ek; [discriminate | | | |]; try (eapply mono_add_data_bytes; eauto; fail).
  destruct (bool_data (erem (en s)) d) as [o r'].
  eapply mono_finish_if_done; [|exact E]. rewrite bad_upd_en, bad_emit_nolf. exact Hb.
Qed.

Lemma mono_engine_begin_array c t o : monoO (engine_begin_array c t o).
Proof.
  intros s s' Hb E. unfold engine_begin_array in E.
  repeat match type of E with
         | (if ?x then _ else _) = _ => destruct x
         | match ?x with Some _ => _ | None => _ end = _ => destruct x
         end; try discriminate; injection E as <-;
    repeat first [rewrite bad_emit_nolf | rewrite bad_upd_en]; exact Hb.
Qed.

Lemma mono_ctx_begin_array c t : monoO (ctx_begin_array c t).
Proof.
  intros s s' Hb E. unfold ctx_begin_array in E. destruct (is_string_type t).
  - eapply mono_engine_begin_array; eauto.
  - eapply mono_engine_begin_array; [|exact E]. rewrite bad_push. exact Hb.
Qed.

Lemma mono_bv_then (f : est -> option est) : monoO f -> monoO (fun s => bind (before_value s) f).
Proof. intro H. apply mono_bind; [apply mono_before_value | exact H]. Qed.

Lemma mono_step c e : monoO (fun s => step c s e).
Proof.
  destruct e; cbn [step];
    try (apply mono_scalar); try (apply mono_open_container); try (apply (mono_cong _ cong_id)).
  - apply mono_cong.
    apply (cong_comp (fun s => set_stack [DTop] (set_ind 0 s)) (emit_nolf [99])); [|apply cong_emit_nolf].
    apply (cong_comp (set_ind 0) (set_stack [DTop])); [apply cong_set_ind | apply cong_set_stack].
  - apply mono_cong. apply (cong_comp (emit_raw (dec v)) newline_indent); [apply cong_emit_raw | apply cong_newline_indent].
  - apply mono_bind; [apply mono_before_comment|].
    intros s s' Hb E. eapply mono_after_comment; [|exact E]. exact (cong_monoT _ (cong_comment_body multi text) s Hb).
  - destruct b; apply mono_scalar.
  - destruct (0 <=? z)%Z; apply mono_scalar.
  - destruct v; apply mono_scalar.
  - destruct (write_float bits); apply mono_scalar.
  - destruct v as [[neg m ex pr|neg]|]; [| destruct neg; apply mono_scalar | apply mono_scalar].
    destruct (m =? 0); cbv zeta; apply mono_scalar.
  - destruct v as [d|]; cbv zeta; apply mono_scalar.
  - destruct signaling; apply mono_scalar.
  - destruct (length b =? 16)%nat; [apply mono_scalar | apply mono_none].
  - apply mono_end_container.
  - apply mono_bv_then. apply mono_cong.
    apply (cong_comp (emit_nolf (38 :: id ++ [58])) (push DConcat)); [apply cong_emit_nolf | apply cong_push].
  - (* EArray *)
    apply mono_bv_then. apply mono_bind; [|apply mono_after_value].
    intros s s' Hb E.
    destruct (t =? AT_String); [injection E as <-; rewrite bad_write_quoted; exact Hb|].
    destruct (t =? AT_ResourceID); [injection E as <-; rewrite bad_write_quoted, bad_emit_nolf; exact Hb|].
    destruct (t =? AT_ReferenceRemote); [injection E as <-; rewrite bad_write_quoted, bad_emit_nolf; exact Hb|].
    destruct (engine_begin_array c t ONone s) as [m|] eqn:E1; cbn [bind] in E; [|discriminate].
    destruct (begin_chunk count false m) as [m2|] eqn:E2; cbn [bind] in E; [|discriminate].
    assert (Hm2 : bad m2 = true).
    { eapply mono_begin_chunk; [|exact E2]. eapply mono_engine_begin_array; eauto. }
    destruct (0 <? count); [eapply mono_add_data; eauto | injection E as <-; exact Hm2].
  - (* EStringArray *)
    apply mono_bv_then. apply mono_bind; [|apply mono_after_value].
    intros s s' Hb E.
    destruct (t =? AT_String); [injection E as <-; rewrite bad_write_quoted; exact Hb|].
    destruct (t =? AT_ResourceID); [injection E as <-; rewrite bad_write_quoted, bad_emit_nolf; exact Hb|].
    destruct (t =? AT_ReferenceRemote); [injection E as <-; rewrite bad_write_quoted, bad_emit_nolf; exact Hb|].
    discriminate.
  - (* EMedia *)
    apply mono_bv_then. intros s s' Hb E. eapply mono_after_value; [|exact E].
    rewrite bad_emit_nolf, bad_emit_raw, bad_emit_nolf, bad_set_dirty. exact Hb.
  - (* ECustomBin *)
    apply mono_bv_then. intros s s' Hb E. eapply mono_after_value; [|exact E].
    rewrite bad_emit_nolf, bad_emit_raw, bad_emit_nolf, bad_set_dirty. exact Hb.
  - (* ECustomText *)
    apply mono_bv_then. intros s s' Hb E. eapply mono_after_value; [|exact E].
    rewrite bad_write_quoted, bad_emit_nolf. exact Hb.
  - (* EArrayBegin *) apply mono_bv_then, mono_ctx_begin_array.
  - (* EMediaBegin *)
    apply mono_bv_then. intros s s' Hb [= <-]. rewrite bad_emit_nolf, bad_upd_en, bad_set_dirty, bad_push. exact Hb.
  - (* ECustomBegin *)
    apply mono_bv_then. intros s s' Hb E.
    destruct (t =? AT_CustomBinary); [injection E as <-; rewrite bad_emit_nolf, bad_upd_en, bad_set_dirty, bad_push; exact Hb|].
    destruct (t =? AT_CustomText); [injection E as <-; rewrite bad_emit_nolf, bad_upd_en; exact Hb | discriminate].
  - apply mono_begin_chunk.
  - apply mono_add_data.
Qed.

Lemma run_app c s a b : run c s (a ++ b) = bind (run c s a) (fun m => run c m b).
Proof.
  revert s. induction a as [|e a IH]; intro s; cbn; [reflexivity|].
  destruct (step c s e); cbn; [apply IH | reflexivity].
Qed.

Lemma mono_run c es : monoO (fun s => run c s es).
Proof.
  induction es as [|e es IH]; intros s s' Hb E; cbn in E; [injection E as <-; exact Hb|].
  destruct (step c s e) as [m|] eqn:Es; cbn in E; [|discriminate].
  eapply IH; [|exact E]. eapply mono_step; eauto.
Qed.

Lemma run_bad_false c es s s' : run c s es = Some s' -> bad s' = false -> bad s = false.
Proof.
  intros E Hb. destruct (bad s) eqn:B; [|reflexivity].
  rewrite (mono_run c es s s' B E) in Hb. discriminate.
Qed.

(* ------------------------------------------------------------------ *)
(** * Grouping a byte stream into elements (the carry-over law)

   [grp w L d]: the complete [w]-byte elements of [L ++ d] and the unfinished
   rest, scanning byte by byte.  Splitting the input anywhere gives the same
   elements: [grp_app]. *)

Fixpoint grp (w : nat) (cur : bytes) (d : bytes) : list bytes * bytes :=
  match d with
  | [] => ([], cur)
  | b :: r => if (length (cur ++ [b]) =? w)%nat
              then let (es, l) := grp w [] r in ((cur ++ [b]) :: es, l)
              else grp w (cur ++ [b]) r
  end.

Lemma grp_app w d1 : forall L d2,
  grp w L (d1 ++ d2) = let (e1, l1) := grp w L d1 in let (e2, l2) := grp w l1 d2 in (e1 ++ e2, l2).
Proof.
  induction d1 as [|b d1 IH]; intros L d2; cbn [grp app].
  - destruct (grp w L d2); reflexivity.
  - destruct (length (L ++ [b]) =? w)%nat.
    + rewrite IH. destruct (grp w [] d1) as [e1 l1]. destruct (grp w l1 d2) as [e2 l2]. reflexivity.
    + apply IH.
Qed.

Lemma grp_short w d : forall L, (length L + length d < w)%nat -> grp w L d = ([], L ++ d).
Proof.
  induction d as [|b d IH]; intros L H; cbn [grp].
  - rewrite app_nil_r. reflexivity.
  - cbn [length] in H. assert (E : (length (L ++ [b]) =? w)%nat = false).
    { apply Nat.eqb_neq. rewrite app_length. cbn. lia. }
    rewrite E, IH; [rewrite <- app_assoc; reflexivity | rewrite app_length; cbn; lia].
Qed.

Lemma grp_exact w d : forall L, (length L + length d = w)%nat -> d <> [] -> grp w L d = ([L ++ d], []).
Proof.
  induction d as [|b d IH]; intros L H Hd; [congruence|]. cbn [grp]. cbn [length] in H.
  destruct d as [|b' d].
  - assert (E : (length (L ++ [b]) =? w)%nat = true) by (apply Nat.eqb_eq; rewrite app_length; cbn in *; lia).
    rewrite E. reflexivity.
  - assert (E : (length (L ++ [b]) =? w)%nat = false) by (apply Nat.eqb_neq; rewrite app_length; cbn in *; lia).
    rewrite E, IH; [rewrite <- app_assoc; reflexivity | rewrite app_length; cbn in *; lia | discriminate].
Qed.

(* [j] elements of [w] bytes *)
Fixpoint chop (w j : nat) (d : bytes) : list bytes :=
  match j with O => [] | S j' => firstn w d :: chop w j' (skipn w d) end.

Lemma grp_whole w j : (0 < w)%nat -> forall d, length d = (j * w)%nat -> grp w [] d = (chop w j d, []).
Proof.
  intro Hw. induction j as [|j IH]; intros d H.
  - destruct d; [reflexivity | discriminate].
  - rewrite <- (firstn_skipn w d) at 1. rewrite grp_app.
    assert (Hf : length (firstn w d) = w) by (rewrite firstn_length; lia).
    rewrite (grp_exact w (firstn w d) []); [| cbn; lia | intro E; rewrite E in Hf; cbn in Hf; lia].
    rewrite IH; [reflexivity | rewrite skipn_length; lia].
Qed.

Lemma split_elems_chop w j : (0 < w)%nat -> forall f d, length d = (j * w)%nat -> (j <= f)%nat -> split_elems w f d = chop w j d.
Proof.
  intro Hw. induction j as [|j IH]; intros f d H Hf.
  - destruct d; [destruct f; reflexivity | discriminate].
  - destruct f as [|f]; [lia|]. cbn [split_elems chop].
    destruct d as [|b d]; [cbn in H; lia|].
    f_equal. apply IH; [rewrite skipn_length; lia | lia].
Qed.

Lemma chop_length w j d : length (chop w j d) = j.
Proof. revert d. induction j; intro d; cbn; [reflexivity | rewrite IHj; reflexivity]. Qed.

(* the general shape of one call: whole elements, then a rest shorter than an element *)
Lemma grp_nil_split w (d : bytes) :
  (0 < w)%nat ->
  grp w [] d = (chop w (length d / w) (firstn (length d - length d mod w) d), skipn (length d - length d mod w) d).
Proof.
  intro Hw. set (m := (length d mod w)%nat). set (j := (length d / w)%nat).
  assert (Hd : length d = (j * w + m)%nat) by (unfold j, m; rewrite Nat.mul_comm; apply Nat.div_mod; lia).
  assert (Hm : (m < w)%nat) by (apply Nat.mod_upper_bound; lia).
  rewrite <- (firstn_skipn (length d - m) d) at 1. rewrite grp_app.
  rewrite (grp_whole w j Hw); [|rewrite firstn_length; lia].
  rewrite grp_short; [rewrite app_nil_r; reflexivity | rewrite skipn_length; cbn; lia].
Qed.

Lemma land_mod_pow2 (n w : nat) :
  w = 2%nat \/ w = 4%nat \/ w = 8%nat \/ w = 16%nat ->
  N.to_nat (N.land (N.of_nat n) (N.of_nat w - 1)) = (n mod w)%nat.
Proof.
  intro Hw.
  assert (H : exists k, N.of_nat w - 1 = N.ones k /\ N.of_nat w = 2 ^ k).
  { destruct Hw as [->|[->|[->| ->]]]; [exists 1 | exists 2 | exists 3 | exists 4]; split; reflexivity. }
  destruct H as [k [H1 H2]]. rewrite H1, N.land_ones, <- H2, <- Nat2N.inj_mod, Nat2N.id. reflexivity.
Qed.

(* ------------------------------------------------------------------ *)
(** * The array engine on numeric / UID arrays *)

Definition piece := (bytes * Z)%type.
Definition emit_pieces (ps : list piece) (s : est) : est :=
  fold_left (fun s p => emit_cd (fst p) (snd p) s) ps s.

(* what the addElementsFunc of kind [k] writes for whole elements, [hw] = hasWrittenElements *)
Fixpoint elems_pieces (c : ccfg) (k : nkind) (hw : bool) (es : list bytes) : option (list piece) :=
  match es with
  | [] => Some []
  | e :: r => match num_elem c k e with
              | Some (t, d) => match elems_pieces c k true r with
                               | Some l => Some ((if hw then [([32], 1%Z)] else []) ++ (t, d) :: l)
                               | None => None
                               end
              | None => None
              end
  end.

Definition nonempty {A} (l : list A) : bool := match l with [] => false | _ => true end.

Lemma emit_pieces_app p q s : emit_pieces (p ++ q) s = emit_pieces q (emit_pieces p s).
Proof. apply fold_left_app. Qed.

Lemma emit_pieces_set_en ps : forall e s, emit_pieces ps (set_en e s) = set_en e (emit_pieces ps s).
Proof. induction ps as [|p ps IH]; intros e s; cbn; [reflexivity|]. rewrite <- IH. reflexivity. Qed.

Lemma en_emit_pieces ps : forall s, en (emit_pieces ps s) = en s.
Proof. induction ps as [|p ps IH]; intro s; cbn; [reflexivity|]. rewrite IH. reflexivity. Qed.

Lemma set_en_set_en e e' s : set_en e (set_en e' s) = set_en e s.
Proof. reflexivity. Qed.

Lemma cong_emit_pieces ps : cong (emit_pieces ps).
Proof. unfold emit_pieces. apply cong_fold. intro p. apply cong_emit_cd. Qed.

Lemma elems_pieces_app c k es1 : forall hw es2,
  elems_pieces c k hw (es1 ++ es2) =
  match elems_pieces c k hw es1 with
  | None => None
  | Some p1 => match elems_pieces c k (hw || nonempty es1) es2 with
               | None => None
               | Some p2 => Some (p1 ++ p2)
               end
  end.
Proof.
  induction es1 as [|e es1 IH]; intros hw es2; cbn [app elems_pieces nonempty].
  - rewrite orb_false_r. destruct (elems_pieces c k hw es2); reflexivity.
  - destruct (num_elem c k e) as [[t d]|]; [|reflexivity]. rewrite IH. rewrite orb_true_r. cbn [orb].
    destruct (elems_pieces c k true es1) as [p1|]; [|reflexivity].
    destruct (elems_pieces c k true es2) as [p2|]; [|reflexivity].
    rewrite <- app_assoc. reflexivity.
Qed.

Lemma emit_elems_pieces c k es : forall s,
  emit_elems c k es s =
  match elems_pieces c k (ehw (en s)) es with
  | None => None
  | Some ps => Some (set_en (set_ehw (ehw (en s) || nonempty es) (en s)) (emit_pieces ps s))
  end.
Proof.
  induction es as [|e r IH]; intro s; cbn [emit_elems elems_pieces nonempty].
  - rewrite orb_false_r. destruct s as [? ? ? ? ? [] ? ?]; reflexivity.
  - destruct (num_elem c k e) as [[t d]|]; [|reflexivity]. rewrite IH.
    replace (ehw (en (emit_cd t d (space_if_hw s)))) with true by reflexivity.
    destruct (elems_pieces c k true r) as [l|]; [|reflexivity]. f_equal.
    rewrite emit_pieces_app. cbn [orb]. rewrite orb_true_r.
    destruct s as [ro co io sto cho0 [ek0 er0 hw0 em0 el0 eb0 ec0 eo0] di ba].
    unfold space_if_hw, upd_en. cbn [en ehw].
    destruct hw0; cbn [emit_pieces fold_left fst snd];
      rewrite <- !emit_pieces_set_en; reflexivity.
Qed.

Definition eng_upd (e : eng) (r : N) (hw : bool) (L : bytes) : eng := set_eleft L (set_erem r (set_ehw hw e)).

Lemma nk_width_pos k : (0 < nk_width k)%nat.
Proof. destruct k; cbn; lia. Qed.

Lemma wrap64_sub r j : r < 2 ^ 64 -> N.of_nat j <= r -> wrap64 (Z.of_N r - Z.of_nat j) = r - N.of_nat j.
Proof.
  intros Hr Hj. unfold wrap64. rewrite Z.mod_small; [lia|]. split; [lia|].
  assert (Z.of_N r < 2 ^ 64)%Z by (change (2 ^ 64)%Z with (Z.of_N (2 ^ 64)); lia). lia.
Qed.

Lemma nonempty_chop w j d : nonempty (chop w j d) = (0 <? j)%nat.
Proof. destruct j; reflexivity. Qed.

Lemma tail_of_num c k j D s :
  ek (en s) = KNum k -> length D = (j * nk_width k)%nat -> N.of_nat j <= erem (en s) -> erem (en s) < 2 ^ 64 ->
  tail_of c (nk_width k) D s =
  match elems_pieces c k (ehw (en s)) (chop (nk_width k) j D) with
  | None => None
  | Some ps => finish_if_done (set_en (eng_upd (en s) (erem (en s) - N.of_nat j) (ehw (en s) || (0 <? j)%nat) (eleft (en s)))
                                      (emit_pieces ps s))
  end.
Proof.
  intros Ek HD Hj Hr. pose proof (nk_width_pos k) as Hw.
  unfold tail_of, add_elems. rewrite Ek.
  rewrite (split_elems_chop (nk_width k) j Hw (length D) D HD) by (rewrite HD; nia).
  rewrite emit_elems_pieces.
  destruct (elems_pieces c k (ehw (en s)) (chop (nk_width k) j D)) as [ps|]; [|reflexivity].
  cbn [bind]. rewrite nonempty_chop. f_equal.
  rewrite HD, Nat.div_mul by lia.
  unfold upd_en. cbn [en set_en].
  replace (erem (set_ehw (ehw (en s) || (0 <? j)%nat) (en s))) with (erem (en s)) by (destruct (en s); reflexivity).
  rewrite (wrap64_sub _ _ Hr Hj).
  destruct s as [ro co io sto cho0 [ek0 er0 hw0 em0 el0 eb0 ec0 eo0] di ba]. cbn. reflexivity.
Qed.

Lemma nk_width_pow2 k : (1 < nk_width k)%nat -> nk_width k = 2%nat \/ nk_width k = 4%nat \/ nk_width k = 8%nat \/ nk_width k = 16%nat.
Proof. destruct k; cbn; lia. Qed.

Lemma split_tail_num c k d s E' L' :
  ek (en s) = KNum k -> (1 < nk_width k)%nat -> eleft (en s) = [] ->
  grp (nk_width k) [] d = (E', L') -> N.of_nat (length E') <= erem (en s) -> erem (en s) < 2 ^ 64 ->
  split_tail_of c (nk_width k) d s =
  match elems_pieces c k (ehw (en s)) E' with
  | None => None
  | Some ps => finish_if_done (set_en (eng_upd (en s) (erem (en s) - N.of_nat (length E')) (ehw (en s) || nonempty E') L')
                                      (emit_pieces ps s))
  end.
Proof.
  intros Ek Hw1 El Hg Hj Hr. pose proof (nk_width_pos k) as Hw.
  rewrite (grp_nil_split (nk_width k) d Hw) in Hg. injection Hg as <- <-.
  unfold split_tail_of. cbv zeta. rewrite (land_mod_pow2 (length d) (nk_width k) (nk_width_pow2 k Hw1)).
  set (m := (length d mod nk_width k)%nat). set (j := (length d / nk_width k)%nat).
  assert (Hd : length d = (j * nk_width k + m)%nat) by (unfold j, m; rewrite Nat.mul_comm; apply Nat.div_mod; lia).
  rewrite chop_length in Hj |- *. rewrite nonempty_chop.
  destruct (m =? 0)%nat eqn:Em.
  - apply Nat.eqb_eq in Em. rewrite Em, Nat.sub_0_r, firstn_all, skipn_all.
    rewrite (tail_of_num c k j d s Ek) by (try assumption; lia). rewrite El. reflexivity.
  - set (s' := upd_en _ s).
    assert (Hen : en s' = set_eleft (skipn (length d - m) d) (en s)).
    { unfold s', upd_en. cbn [en set_en]. rewrite El. reflexivity. }
    rewrite (tail_of_num c k j (firstn (length d - m) d) s').
    + rewrite Hen. replace (ehw (set_eleft _ (en s))) with (ehw (en s)) by (destruct (en s); reflexivity).
      replace (erem (set_eleft _ (en s))) with (erem (en s)) by (destruct (en s); reflexivity).
      destruct (elems_pieces c k (ehw (en s)) _) as [ps|]; [|reflexivity]. f_equal.
      unfold s', upd_en. rewrite emit_pieces_set_en, set_en_set_en. f_equal; destruct (en s); reflexivity.
    + rewrite Hen. destruct (en s); exact Ek.
    + rewrite firstn_length. lia.
    + rewrite Hen. destruct (en s); exact Hj.
    + rewrite Hen. destruct (en s); exact Hr.
Qed.

Lemma erem_eng_upd e r h l : erem (eng_upd e r h l) = r. Proof. destruct e; reflexivity. Qed.
Lemma ehw_eng_upd e r h l : ehw (eng_upd e r h l) = h. Proof. destruct e; reflexivity. Qed.
Lemma eleft_eng_upd e r h l : eleft (eng_upd e r h l) = l. Proof. destruct e; reflexivity. Qed.
Lemma emore_eng_upd e r h l : emore (eng_upd e r h l) = emore e. Proof. destruct e; reflexivity. Qed.
Lemma ek_eng_upd e r h l : ek (eng_upd e r h l) = ek e. Proof. destruct e; reflexivity. Qed.
Lemma ebuf_eng_upd e r h l : ebuf (eng_upd e r h l) = ebuf e. Proof. destruct e; reflexivity. Qed.
Lemma ecomp_eng_upd e r h l : ecomp (eng_upd e r h l) = ecomp e. Proof. destruct e; reflexivity. Qed.
Lemma eouter_eng_upd e r h l : eouter (eng_upd e r h l) = eouter e. Proof. destruct e; reflexivity. Qed.
Lemma eng_upd_upd e r h l r' h' l' : eng_upd (eng_upd e r h l) r' h' l' = eng_upd e r' h' l'. Proof. destruct e; reflexivity. Qed.

Lemma eng_upd_same e : eng_upd e (erem e) (ehw e) (eleft e) = e.
Proof. destruct e; reflexivity. Qed.

(* The carry-over lemma: one AddArrayData call on a numeric array writes exactly
   the elements completed by [leftover ++ data] and keeps the unfinished rest. *)
Lemma add_data_num c k d s E' L' :
  ek (en s) = KNum k -> (length (eleft (en s)) < nk_width k)%nat ->
  grp (nk_width k) (eleft (en s)) d = (E', L') ->
  N.of_nat (length E') <= erem (en s) -> erem (en s) < 2 ^ 64 ->
  (L' <> [] -> N.of_nat (length E') < erem (en s)) ->
  add_data c d s =
  match elems_pieces c k (ehw (en s)) E' with
  | None => None
  | Some ps => finish_if_done (set_en (eng_upd (en s) (erem (en s) - N.of_nat (length E')) (ehw (en s) || nonempty E') L')
                                      (emit_pieces ps s))
  end.
Proof.
  intros Ek HL Hg Hj Hr Hpart. pose proof (nk_width_pos k) as Hw.
  rewrite add_data_unfold, Ek. unfold add_data_bytes. cbn [ak_width].
  destruct (1 <? nk_width k)%nat eqn:E1.
  - apply Nat.ltb_lt in E1. cbv zeta.
    destruct (eleft (en s)) as [|l0 lo] eqn:El.
    + apply (split_tail_num c k d s E' L' Ek E1 El Hg Hj Hr).
    + assert (HLne : l0 :: lo <> []) by discriminate. remember (l0 :: lo) as L eqn:HeqL. clear HeqL l0 lo.
      assert (HLd : L <> []) by exact HLne.
      destruct L as [|x0 L0] eqn:EL0; [congruence|]. rewrite <- EL0 in *. clear EL0 x0 L0.
      assert (E2 : (nk_width k <? length L)%nat = false) by (apply Nat.ltb_ge; lia). rewrite E2.
      destruct (length d <? nk_width k - length L)%nat eqn:E3.
      * apply Nat.ltb_lt in E3. rewrite grp_short in Hg by lia. injection Hg as <- <-.
        cbn [elems_pieces length nonempty emit_pieces fold_left]. rewrite N.sub_0_r, orb_false_r.
        unfold finish_if_done. cbn [en set_en].
        rewrite erem_eng_upd.
        assert (Hz : erem (en s) =? 0 = false).
        { apply N.eqb_neq. assert (H : L ++ d <> []) by (destruct L; [congruence | discriminate]). specialize (Hpart H). cbn in Hpart. lia. }
        rewrite Hz. cbn [andb]. reflexivity.
      * apply Nat.ltb_ge in E3. set (fill := (nk_width k - length L)%nat) in *.
        assert (Hf : length (firstn fill d) = fill) by (rewrite firstn_length; lia).
        rewrite <- (firstn_skipn fill d) in Hg. rewrite grp_app in Hg.
        rewrite (grp_exact (nk_width k) (firstn fill d) L) in Hg;
          [| lia | intro Z; rewrite Z in Hf; cbn in Hf; lia].
        destruct (grp (nk_width k) [] (skipn fill d)) as [Eb Lb] eqn:Hg2. injection Hg as <- <-.
        set (e1 := L ++ firstn fill d) in *.
        assert (He1 : length e1 = (1 * nk_width k)%nat) by (unfold e1; rewrite app_length; lia).
        unfold add_elems. rewrite Ek.
        rewrite (split_elems_chop (nk_width k) 1 Hw (length e1) e1 He1) by lia.
        cbn [chop]. rewrite firstn_all2 by lia. rewrite emit_elems_pieces.
        cbn [elems_pieces app length nonempty]. 
        destruct (num_elem c k e1) as [[t dd]|]; [|reflexivity].
        cbn [bind]. rewrite orb_true_r.
        match goal with |- split_tail_of _ _ _ (upd_en _ (set_en _ (emit_pieces ?P s))) = _ => set (p1 := P) end.
        set (s1 := set_en (set_ehw true (en s)) (emit_pieces p1 s)).
        match goal with |- split_tail_of _ _ _ ?S = _ => set (s2 := S) end.
        cbn [length] in Hj, Hpart.
        assert (Hr1 : wrap64 (Z.of_N (erem (en s)) - 1) = erem (en s) - 1).
        { change 1%Z with (Z.of_nat 1). rewrite (wrap64_sub (erem (en s)) 1 Hr); [reflexivity | lia]. }
        assert (Hen2 : en s2 = eng_upd (en s) (erem (en s) - 1) true []).
        { unfold s2, upd_en, s1. cbn [en set_en]. 
          replace (erem (set_ehw true (en s))) with (erem (en s)) by (destruct (en s); reflexivity).
          rewrite Hr1. destruct (en s); reflexivity. }
        rewrite (split_tail_num c k (skipn fill d) s2 Eb Lb).
        -- rewrite Hen2. 
           replace (ehw (eng_upd (en s) (erem (en s) - 1) true [])) with true by (destruct (en s); reflexivity).
           replace (erem (eng_upd (en s) (erem (en s) - 1) true [])) with (erem (en s) - 1) by (destruct (en s); reflexivity).
           destruct (elems_pieces c k true Eb) as [ps2|]; [|reflexivity]. f_equal.
           unfold s2, upd_en, s1. rewrite !emit_pieces_set_en, !set_en_set_en.
           f_equal.
           ++ cbn [orb]. replace (erem (en s) - N.of_nat (S (length Eb))) with (erem (en s) - 1 - N.of_nat (length Eb)) by lia.
              destruct (en s); reflexivity.
           ++ unfold p1. rewrite <- emit_pieces_app, <- app_assoc. reflexivity.
        -- rewrite Hen2. destruct (en s); exact Ek.
        -- exact E1.
        -- rewrite Hen2. destruct (en s); reflexivity.
        -- exact Hg2.
        -- rewrite Hen2. destruct (en s); cbn in *. lia.
        -- rewrite Hen2. destruct (en s); cbn in *. lia.
  - apply Nat.ltb_ge in E1. assert (W1 : nk_width k = 1%nat) by lia.
    assert (El : eleft (en s) = []) by (destruct (eleft (en s)); [reflexivity | cbn in HL; lia]).
    rewrite El in Hg. rewrite (grp_nil_split _ d Hw) in Hg. rewrite W1 in Hg.
    rewrite Nat.mod_1_r, Nat.sub_0_r, Nat.div_1_r, firstn_all, skipn_all in Hg. injection Hg as <- <-.
    rewrite chop_length in Hj |- *. rewrite nonempty_chop.
    rewrite (tail_of_num c k (length d) d s Ek) by (try assumption; lia).
    rewrite W1, El. reflexivity.
Qed.

Lemma grp_lengths w d : (0 < w)%nat -> forall L E L', (length L < w)%nat -> grp w L d = (E, L') ->
  (length L + length d = length E * w + length L')%nat /\ (length L' < w)%nat.
Proof.
  intro Hw. induction d as [|b d IH]; intros L E L' HL Hg; cbn [grp] in Hg.
  - injection Hg as <- <-. cbn. lia.
  - destruct (length (L ++ [b]) =? w)%nat eqn:Eq.
    + apply Nat.eqb_eq in Eq. destruct (grp w [] d) as [es l] eqn:Hg2. injection Hg as <- <-.
      destruct (IH [] es l) as [H1 H2]; [cbn; lia | exact Hg2 |].
      rewrite app_length in Eq. cbn [length] in *. lia.
    + apply Nat.eqb_neq in Eq. rewrite app_length in Eq. cbn [length] in Eq.
      destruct (IH (L ++ [b]) E L') as [H1 H2]; [rewrite app_length; cbn; lia | exact Hg |].
      rewrite app_length in H1. cbn [length] in *. lia.
Qed.

Lemma mul_rem_unique (a b w l : nat) : (0 < w)%nat -> (l < w)%nat -> (a * w + l = b * w)%nat -> l = 0%nat /\ a = b.
Proof.
  intros Hw Hl H.
  assert (E : l = 0%nat).
  { assert (H1 : ((a * w + l) mod w = l)%nat) by (rewrite Nat.add_comm, Nat.mod_add by lia; apply Nat.mod_small; exact Hl).
    rewrite H, Nat.mod_mul in H1 by lia. lia. }
  split; [exact E|]. subst l. rewrite Nat.add_0_r in H. apply Nat.mul_cancel_r in H; lia.
Qed.

Lemma concat_last_pos (l : list bytes) : last l [] <> [] -> (0 < length (concat l))%nat.
Proof.
  induction l as [|a l IH]; cbn [last concat]; [congruence|]. intro H. rewrite app_length.
  destruct l as [|b l]; [destruct a; [congruence | cbn; lia]|]. specialize (IH H). lia.
Qed.

(* the engine while a numeric array is open: kind, leftover, remaining, more *)
Definition num_open (k : nkind) (s : est) (r : N) (m : bool) (L : bytes) : Prop :=
  ek (en s) = KNum k /\ erem (en s) = r /\ emore (en s) = m /\ eleft (en s) = L.

Definition data_events (ds : list bytes) : list event := map EArrayData ds.

(* All data events of one chunk of a numeric array. *)
Lemma run_data_num c k : forall ds s r m L E L',
  num_open k s r m L -> r < 2 ^ 64 -> (length L < nk_width k)%nat ->
  ds <> [] -> last ds [] <> [] ->
  (length L + length (concat ds) = N.to_nat r * nk_width k)%nat ->
  grp (nk_width k) L (concat ds) = (E, L') ->
  run c s (data_events ds) =
  match elems_pieces c k (ehw (en s)) E with
  | None => None
  | Some ps =>
      let s' := set_en (eng_upd (en s) 0 (ehw (en s) || nonempty E) []) (emit_pieces ps s) in
      if m then Some s' else end_array s'
  end.
Proof.
  pose proof (nk_width_pos k) as Hw.
  induction ds as [|d rest IH]; intros s r m L E L' Hop Hr HL Hne Hlast Hlen Hg; [congruence|].
  destruct Hop as (Ek & Er & Em & El).
  cbn [data_events map run]. cbn [step].
  destruct rest as [|d2 rest].
  - (* the last data event of the chunk *)
    cbn [concat] in Hlen, Hg. rewrite app_nil_r in Hlen, Hg. cbn [last] in Hlast.
    destruct (grp_lengths _ d Hw L E L' HL Hg) as [H1 H2].
    assert (HE : length E = N.to_nat r /\ L' = []).
    { destruct (mul_rem_unique (length E) (N.to_nat r) (nk_width k) (length L') Hw H2) as [Z1 Z2]; [lia|].
      split; [exact Z2 | destruct L'; [reflexivity | discriminate Z1]]. }
    destruct HE as [HE ->].
    rewrite (add_data_num c k d s E []); try assumption; try (rewrite El; assumption); try (rewrite Er; lia); [|congruence].
    destruct (elems_pieces c k (ehw (en s)) E) as [ps|]; [|reflexivity].
    cbn [bind run]. rewrite Er, HE, N2Nat.id, N.sub_diag.
    unfold finish_if_done. cbn [en set_en]. rewrite erem_eng_upd, emore_eng_upd, Em. cbn [N.eqb andb].
    destruct m; cbn [negb]; [reflexivity|]. destruct (end_array _); reflexivity.
  - (* more data events follow *)
    remember (d2 :: rest) as rest' eqn:Hr'.
    assert (Hne' : rest' <> []) by (subst rest'; discriminate).
    assert (Hlast' : last rest' [] <> []) by (subst rest'; exact Hlast).
    clear Hr' d2 rest Hlast Hne.
    pose proof (concat_last_pos rest' Hlast') as Hrest.
    cbn [concat] in Hlen, Hg. rewrite app_length in Hlen. rewrite grp_app in Hg.
    destruct (grp (nk_width k) L d) as [E1 L1] eqn:Hg1.
    destruct (grp (nk_width k) L1 (concat rest')) as [E2 L2] eqn:Hg2. injection Hg as <- <-.
    destruct (grp_lengths _ d Hw L E1 L1 HL Hg1) as [H1 H2].
    assert (HE1 : (length E1 < N.to_nat r)%nat).
    { apply (Nat.mul_lt_mono_pos_r (nk_width k)); [exact Hw|]. lia. }
    rewrite (add_data_num c k d s E1 L1 Ek); [| rewrite El; exact HL | rewrite El; exact Hg1 | rewrite Er; lia | rewrite Er; exact Hr | rewrite Er; lia].
    rewrite elems_pieces_app.
    destruct (elems_pieces c k (ehw (en s)) E1) as [ps1|]; [|reflexivity].
    set (s1 := set_en _ (emit_pieces ps1 s)).
    assert (Hen1 : en s1 = eng_upd (en s) (erem (en s) - N.of_nat (length E1)) (ehw (en s) || nonempty E1) L1) by reflexivity.
    unfold finish_if_done. rewrite Hen1, erem_eng_upd, Er.
    assert (Hz : (r - N.of_nat (length E1) =? 0) = false) by (apply N.eqb_neq; lia).
    rewrite Hz. cbn [andb bind].
    change (map EArrayData rest') with (data_events rest').
    rewrite (IH s1 (r - N.of_nat (length E1)) m L1 E2 L2); try assumption.
    + rewrite Hen1, ehw_eng_upd.
      destruct (elems_pieces c k (ehw (en s) || nonempty E1) E2) as [ps2|]; [|reflexivity].
      cbv zeta. rewrite eng_upd_upd.
      replace (ehw (en s) || nonempty E1 || nonempty E2) with (ehw (en s) || nonempty (E1 ++ E2))
        by (destruct E1; cbn [nonempty app]; [rewrite orb_false_r; reflexivity | rewrite !orb_true_r; reflexivity]).
      unfold s1. rewrite emit_pieces_set_en, set_en_set_en, <- emit_pieces_app. reflexivity.
    + unfold num_open. rewrite Hen1, ek_eng_upd, erem_eng_upd, emore_eng_upd, eleft_eng_upd, Er. tauto.
    + lia.
    + rewrite N2Nat.inj_sub, Nat2N.id, Nat.mul_sub_distr_r. lia.
Qed.

(* ------------------------------------------------------------------ *)
(** * The engine on string-like, media / custom-binary and bit arrays *)

Lemma emit_cd_cd b1 d1 b2 d2 s : emit_cd b2 d2 (emit_cd b1 d1 s) = emit_cd (b1 ++ b2) (d1 + d2) s.
Proof.
  destruct s. unfold emit_cd. cbn. f_equal; [|lia].
  rewrite !rev_append_rev, rev_app_distr, app_assoc. reflexivity.
Qed.

Lemma hexbytes_app a b : a <> [] -> b <> [] -> hexbytes (a ++ b) = hexbytes a ++ 32 :: hexbytes b.
Proof.
  intros Ha Hb. induction a as [|x a IH]; [congruence|].
  destruct a as [|y a].
  - cbn [app hexbytes]. destruct b; [congruence|]. reflexivity.
  - change ((x :: y :: a) ++ b) with (x :: (y :: a) ++ b). 
    change (hexbytes (x :: (y :: a) ++ b)) with (hex2 x ++ 32 :: hexbytes ((y :: a) ++ b)).
    rewrite IH by discriminate.
    change (hexbytes (x :: y :: a)) with (hex2 x ++ 32 :: hexbytes (y :: a)).
    rewrite <- app_assoc. reflexivity.
Qed.

Definition open_as (k : akind) (s : est) (r : N) (m : bool) : Prop :=
  ek (en s) = k /\ erem (en s) = r /\ emore (en s) = m.

Definition set_rem0 (e : eng) : eng := set_erem 0 e.

Lemma tail_of_w1 c k d s :
  ek (en s) = k -> ak_width k = 1%nat -> k <> KNil -> k <> KBit -> add_data c d s = tail_of c 1 d s.
Proof.
  intros Ek Hw H1 H2. rewrite add_data_unfold, Ek.
  destruct k; try congruence; unfold add_data_bytes; rewrite Hw; reflexivity.
Qed.

(* string-like arrays: the data is only buffered *)
Lemma run_data_str c : forall ds s r m,
  open_as KStr s r m -> r < 2 ^ 64 -> ds <> [] -> last ds [] <> [] -> length (concat ds) = N.to_nat r ->
  run c s (data_events ds) =
  let s' := set_en (set_ebuf (ebuf (en s) ++ concat ds) (set_rem0 (en s))) s in
  if m then Some s' else end_array s'.
Proof.
  induction ds as [|d rest IH]; intros s r m (Ek & Er & Em) Hr Hne Hlast Hlen; [congruence|].
  cbn [data_events map run step].
  rewrite (tail_of_w1 c KStr d s Ek) by (reflexivity || discriminate).
  unfold tail_of, add_elems. rewrite Ek. cbn [bind]. rewrite Nat.div_1_r.
  set (s1 := upd_en _ (upd_en _ s)).
  assert (Hlen' : (length d + length (concat rest) = N.to_nat r)%nat) by (cbn [concat] in Hlen; rewrite app_length in Hlen; exact Hlen).
  assert (Hen1 : en s1 = set_erem (r - N.of_nat (length d)) (set_ebuf (ebuf (en s) ++ d) (en s))).
  { unfold s1, upd_en. cbn [en set_en].
    replace (erem (set_ebuf (ebuf (en s) ++ d) (en s))) with (erem (en s)) by (destruct (en s); reflexivity).
    rewrite Er, (wrap64_sub r (length d) Hr) by lia. reflexivity. }
  unfold finish_if_done. rewrite Hen1.
  replace (erem (set_erem _ _)) with (r - N.of_nat (length d)) by (destruct (en s); reflexivity).
  replace (emore (set_erem _ (set_ebuf _ (en s)))) with m by (destruct (en s); cbn in *; congruence).
  destruct rest as [|d2 rest].
  - cbn [concat] in *. rewrite app_nil_r in *. cbn [length] in Hlen'.
    assert (Hz : r - N.of_nat (length d) =? 0 = true) by (apply N.eqb_eq; lia). rewrite Hz. cbn [andb run].
    assert (Hs : s1 = set_en (set_ebuf (ebuf (en s) ++ d) (set_rem0 (en s))) s).
    { unfold s1, upd_en. cbn [en set_en]. rewrite set_en_set_en. f_equal.
      replace (erem (set_ebuf (ebuf (en s) ++ d) (en s))) with (erem (en s)) by (destruct (en s); reflexivity).
      rewrite Er, (wrap64_sub r (length d) Hr) by lia.
      replace (r - N.of_nat (length d)) with 0 by lia. destruct (en s); reflexivity. }
    rewrite <- Hs. destruct m; cbn [negb]; [reflexivity | destruct (end_array s1); reflexivity].
  - remember (d2 :: rest) as rest' eqn:Hr'.
    assert (Hne' : rest' <> []) by (subst rest'; discriminate).
    assert (Hlast' : last rest' [] <> []) by (subst rest'; exact Hlast).
    clear Hr' d2 rest Hlast Hne.
    pose proof (concat_last_pos rest' Hlast') as Hrest.
    assert (Hz : r - N.of_nat (length d) =? 0 = false) by (apply N.eqb_neq; lia). rewrite Hz. cbn [andb bind].
    change (map EArrayData rest') with (data_events rest').
    rewrite (IH s1 (r - N.of_nat (length d)) m); try assumption; try lia.
    + cbv zeta. rewrite Hen1. unfold s1, upd_en. rewrite !set_en_set_en.
      cbn [concat]. replace (ebuf (set_erem _ (set_ebuf (ebuf (en s) ++ d) (en s)))) with (ebuf (en s) ++ d) by (destruct (en s); reflexivity).
      rewrite <- app_assoc.
      replace (set_ebuf (ebuf (en s) ++ d ++ concat rest') (set_rem0 (set_erem (r - N.of_nat (length d)) (set_ebuf (ebuf (en s) ++ d) (en s)))))
        with (set_ebuf (ebuf (en s) ++ d ++ concat rest') (set_rem0 (en s))) by (destruct (en s); reflexivity).
      reflexivity.
    + unfold open_as. rewrite Hen1. destruct (en s); cbn in *. repeat split; congruence.
Qed.

Lemma ehw_set_erem x e : ehw (set_erem x e) = ehw e. Proof. destruct e; reflexivity. Qed.
Lemma ehw_set_ehw b e : ehw (set_ehw b e) = b. Proof. destruct e; reflexivity. Qed.

Lemma emit_cd_set_en b d e s : emit_cd b d (set_en e s) = set_en e (emit_cd b d s).
Proof. reflexivity. Qed.

Lemma concat_nonempty (l : list bytes) : l <> [] -> Forall (fun d => d <> []) l -> concat l <> [].
Proof.
  intros Hl HF. destruct l as [|a l]; [congruence|]. inversion HF; subst. cbn. destruct a; [congruence | discriminate].
Qed.

(* Column advance of the data events of one chunk: one per separator, i.e. one per
   non-empty data event after the first element *)
Definition hex_dz (hw : bool) (ds : list bytes) : Z :=
  ((if hw then 1 else 0) + Z.of_nat (length (filter (@nonemptyb N) ds)) - 1)%Z.

Lemma upd_erem_same s r : erem (en s) = r -> upd_en (fun e => set_erem r e) s = s.
Proof. intros <-. destruct s as [? ? ? ? ? [] ? ?]; reflexivity. Qed.

(* media / custom binary: every non-empty data event writes its bytes, separated by one
   space from what was written before; an empty data event writes nothing *)
Lemma run_data_hex c : forall ds s r m,
  open_as KHex s r m -> r < 2 ^ 64 -> ds <> [] -> last ds [] <> [] -> length (concat ds) = N.to_nat r ->
  run c s (data_events ds) =
  let s' := set_en (set_ehw true (set_rem0 (en s)))
                   (emit_cd ((if ehw (en s) then [32] else []) ++ hexbytes (concat ds)) (hex_dz (ehw (en s)) ds) s) in
  if m then Some s' else end_array s'.
Proof.
  induction ds as [|d rest IH]; intros s r m (Ek & Er & Em) Hr Hne Hlast Hlen; [congruence|].
  cbn [data_events map run step].
  rewrite (tail_of_w1 c KHex d s Ek) by (reflexivity || discriminate).
  unfold tail_of, add_elems. rewrite Ek.
  assert (Hlen' : (length d + length (concat rest) = N.to_nat r)%nat) by (cbn [concat] in Hlen; rewrite app_length in Hlen; exact Hlen).
  destruct d as [|b0 d0].
  - (* an empty data event: nothing happens *)
    cbn [bind length]. rewrite Nat.div_1_r.
    assert (Hw0 : wrap64 (Z.of_N (erem (en s)) - Z.of_nat 0) = r) by (rewrite Er, (wrap64_sub r 0 Hr) by lia; lia).
    replace (upd_en (fun e => set_erem (wrap64 (Z.of_N (erem e) - Z.of_nat 0)) e) s) with s
      by (symmetry; unfold upd_en; rewrite Hw0; apply (upd_erem_same s r Er)).
    destruct rest as [|d2 rest]; [cbn [last] in Hlast; congruence|].
    remember (d2 :: rest) as rest' eqn:Hr'.
    assert (Hne' : rest' <> []) by (subst rest'; discriminate).
    assert (Hlast' : last rest' [] <> []) by (subst rest'; exact Hlast).
    clear Hr' d2 rest Hlast Hne.
    pose proof (concat_last_pos rest' Hlast') as Hrest. cbn [length] in Hlen'.
    unfold finish_if_done. rewrite Er.
    assert (Hz : r =? 0 = false) by (apply N.eqb_neq; lia). rewrite Hz. cbn [andb bind].
    change (map EArrayData rest') with (data_events rest').
    rewrite (IH s r m); try assumption; try lia; try (repeat split; assumption); try reflexivity.
  - remember (b0 :: d0) as d eqn:Hdd. assert (Hd : d <> []) by (subst d; discriminate). clear Hdd b0 d0.
    cbn [bind]. rewrite Nat.div_1_r.
    set (pre := if ehw (en s) then [32] else []).
    set (dz0 := if ehw (en s) then 1%Z else 0%Z).
    set (s1 := upd_en _ (emit_raw _ (space_if_hw s))).
    assert (Hs1 : s1 = set_en (set_erem (r - N.of_nat (length d)) (set_ehw true (en s))) (emit_cd (pre ++ hexbytes d) dz0 s)).
    { unfold s1, pre, dz0. clear - Er Hr Hlen'.
      destruct s as [ro co io sto cho0 [ek0 er0 hw0 em0 el0 eb0 ec0 eo0] di ba]. cbn in Er. subst er0.
      unfold upd_en, space_if_hw, upd_en, emit_raw, emit_nolf, emit_cd, set_en. cbn.
      destruct hw0; cbn; rewrite (wrap64_sub r (length d) Hr) by lia; f_equal; lia. }
    assert (Hen1 : en s1 = set_erem (r - N.of_nat (length d)) (set_ehw true (en s))) by (rewrite Hs1; reflexivity).
    unfold finish_if_done. rewrite Hen1.
    replace (erem (set_erem _ _)) with (r - N.of_nat (length d)) by (destruct (en s); reflexivity).
    replace (emore (set_erem _ (set_ehw true (en s)))) with m by (destruct (en s); cbn in *; congruence).
    assert (Hfd : length (filter (@nonemptyb N) (d :: rest)) = S (length (filter (@nonemptyb N) rest))) by (destruct d; [congruence | reflexivity]).
    destruct rest as [|d2 rest].
    + replace (hex_dz (ehw (en s)) [d]) with dz0 by (unfold hex_dz, dz0; rewrite Hfd; cbn [filter length]; destruct (ehw (en s)); lia).
      cbn [concat] in *. rewrite app_nil_r in *. cbn [length] in Hlen'.
      assert (Hz : r - N.of_nat (length d) =? 0 = true) by (apply N.eqb_eq; lia). rewrite Hz. cbn [andb run].
      assert (Hs : s1 = set_en (set_ehw true (set_rem0 (en s))) (emit_cd (pre ++ hexbytes d) dz0 s)).
      { rewrite Hs1. f_equal. replace (r - N.of_nat (length d)) with 0 by lia. destruct (en s); reflexivity. }
      rewrite <- Hs. destruct m; cbn [negb]; [reflexivity | destruct (end_array s1); reflexivity].
    + remember (d2 :: rest) as rest' eqn:Hr'.
      assert (Hne' : rest' <> []) by (subst rest'; discriminate).
      assert (Hlast' : last rest' [] <> []) by (subst rest'; exact Hlast).
      clear Hr' d2 rest Hlast Hne.
      pose proof (concat_last_pos rest' Hlast') as Hrest.
      assert (Hcr : concat rest' <> []) by (destruct (concat rest'); [cbn in Hrest; lia | discriminate]).
      assert (Hz : r - N.of_nat (length d) =? 0 = false) by (apply N.eqb_neq; lia). rewrite Hz. cbn [andb bind].
      change (map EArrayData rest') with (data_events rest').
      assert (Hrun := IH s1 (r - N.of_nat (length d)) m).
      rewrite Hrun; try assumption; try lia;
        [| unfold open_as; rewrite Hen1; destruct (en s); cbn in *; repeat split; congruence].
      replace (hex_dz (ehw (en s)) (d :: rest')) with (dz0 + hex_dz true rest')%Z
        by (unfold hex_dz, dz0; rewrite Hfd; destruct (ehw (en s)); lia).
      cbv zeta. rewrite Hen1.
      rewrite ehw_set_erem, ehw_set_ehw.
      rewrite Hs1, emit_cd_set_en, set_en_set_en, emit_cd_cd.
      cbn [concat]. rewrite (hexbytes_app d (concat rest') Hd Hcr).
      replace (set_ehw true (set_rem0 (set_erem (r - N.of_nat (length d)) (set_ehw true (en s))))) with (set_ehw true (set_rem0 (en s)))
        by (destruct (en s); reflexivity).
      rewrite <- !app_assoc. reflexivity.
Qed.

(* ---- bit arrays ---- *)

Definition bchar (b : bool) : N := if b then 49 else 48.
Definition bits_text (l : list bool) : bytes := map bchar l.

Lemma byte_bits_length b : length (byte_bits b) = 8%nat.
Proof. reflexivity. Qed.

Lemma bytes_bits_length d : length (bytes_bits d) = (8 * length d)%nat.
Proof. induction d as [|b d IH]; [reflexivity|]. unfold bytes_bits in *. cbn [flat_map]. rewrite app_length, IH, byte_bits_length. cbn [length]. lia. Qed.

Lemma bytes_bits_app a b : bytes_bits (a ++ b) = bytes_bits a ++ bytes_bits b.
Proof. unfold bytes_bits. apply flat_map_app. Qed.

Lemma firstn_seq n : forall a m, firstn n (seq a m) = seq a (Nat.min n m).
Proof.
  induction n as [|n IH]; intros a m; [reflexivity|]. destruct m as [|m]; [reflexivity|].
  cbn [seq firstn Nat.min]. rewrite IH. reflexivity.
Qed.

Lemma bits_of_spec b n : (n <= 8)%nat -> bits_of b n = bits_text (firstn n (byte_bits b)).
Proof.
  intro Hn. unfold bits_of, bits_text, byte_bits. rewrite firstn_map, map_map, firstn_seq.
  replace (Nat.min n 8) with n by lia. apply map_ext. intro i. reflexivity.
Qed.

Lemma bool_data_spec d : forall r,
  bool_data r d = (bits_text (firstn (N.to_nat r) (bytes_bits d)), r - N.min r (8 * N.of_nat (length d))).
Proof.
  induction d as [|b d IH]; intro r; cbn [bool_data].
  - cbn. rewrite firstn_nil. f_equal. lia.
  - change (bytes_bits (b :: d)) with (byte_bits b ++ bytes_bits d).
    destruct (8 <=? r) eqn:E8.
    + apply N.leb_le in E8. rewrite IH. f_equal.
      * rewrite firstn_app. rewrite (firstn_all2 (byte_bits b)) by (rewrite byte_bits_length; lia). rewrite byte_bits_length.
        unfold bits_text. rewrite map_app. f_equal; try (apply (bits_of_spec b 8); lia).
        replace (N.to_nat r - 8)%nat with (N.to_nat (r - 8)) by lia. reflexivity.
      * cbn [length]. lia.
    + apply N.leb_gt in E8. destruct (0 <? r) eqn:E0.
      * apply N.ltb_lt in E0. f_equal; [|cbn [length]; lia].
        rewrite firstn_app, byte_bits_length. replace (N.to_nat r - 8)%nat with 0%nat by lia.
        cbn [firstn]. rewrite app_nil_r. apply bits_of_spec. lia.
      * apply N.ltb_ge in E0. assert (r = 0) by lia. subst r. reflexivity.
Qed.

Lemma ceil8_bounds r : r <= 8 * ((r + 7) / 8) /\ 8 * ((r + 7) / 8) <= r + 7.
Proof. pose proof (N.div_mod (r + 7) 8). pose proof (N.mod_lt (r + 7) 8). lia. Qed.

Lemma ceil8_sub r a : 8 * a <= r -> (r - 8 * a + 7) / 8 = (r + 7) / 8 - a.
Proof.
  intro H. pose proof (N.div_mod (r + 7) 8) as D. pose proof (N.mod_lt (r + 7) 8) as M.
  symmetry. apply (N.div_unique _ 8 _ ((r + 7) mod 8)); lia.
Qed.

Lemma emit_nolf_nolf a b s : emit_nolf b (emit_nolf a s) = emit_nolf (a ++ b) s.
Proof. unfold emit_nolf. rewrite emit_cd_cd. f_equal. unfold zlen. rewrite app_length. lia. Qed.

Lemma emit_nolf_set_en b e s : emit_nolf b (set_en e s) = set_en e (emit_nolf b s).
Proof. reflexivity. Qed.

Lemma run_data_bit c : forall ds s r m,
  open_as KBit s r m -> r < 2 ^ 64 -> 0 < r -> ds <> [] -> last ds [] <> [] ->
  length (concat ds) = N.to_nat ((r + 7) / 8) ->
  run c s (data_events ds) =
  let s' := set_en (set_rem0 (en s)) (emit_nolf (bits_text (firstn (N.to_nat r) (bytes_bits (concat ds)))) s) in
  if m then Some s' else end_array s'.
Proof.
  induction ds as [|d rest IH]; intros s r m (Ek & Er & Em) Hr Hpos Hne Hlast Hlen; [congruence|].
  cbn [data_events map run step]. rewrite add_data_unfold, Ek, Er, bool_data_spec.
  pose proof (ceil8_bounds r) as [B1 B2].
  assert (Hlen' : (length d + length (concat rest) = N.to_nat ((r + 7) / 8))%nat) by (cbn [concat] in Hlen; rewrite app_length in Hlen; exact Hlen).
  set (o := bits_text _). set (r' := r - _).
  set (s1 := upd_en (set_erem r') (emit_nolf o s)).
  assert (Hen1 : en s1 = set_erem r' (en s)) by reflexivity.
  unfold finish_if_done. rewrite Hen1.
  replace (erem (set_erem r' (en s))) with r' by (destruct (en s); reflexivity).
  replace (emore (set_erem r' (en s))) with m by (destruct (en s); cbn in *; congruence).
  destruct rest as [|d2 rest].
  - cbn [concat] in *. rewrite app_nil_r in *. cbn [length] in Hlen'.
    assert (Hz : r' =? 0 = true) by (apply N.eqb_eq; unfold r'; lia). rewrite Hz. cbn [andb bind run].
    assert (Hs : s1 = set_en (set_rem0 (en s)) (emit_nolf o s)).
    { unfold s1, upd_en. f_equal. apply N.eqb_eq in Hz. rewrite Hz. reflexivity. }
    change (bits_text (firstn (N.to_nat r) (bytes_bits d))) with o.
    rewrite <- Hs. destruct m; cbn [negb]; [reflexivity | destruct (end_array s1); reflexivity].
  - remember (d2 :: rest) as rest' eqn:Hr'.
    assert (Hne' : rest' <> []) by (subst rest'; discriminate).
    assert (Hlast' : last rest' [] <> []) by (subst rest'; exact Hlast).
    clear Hr' d2 rest Hlast Hne.
    pose proof (concat_last_pos rest' Hlast') as Hrest.
    assert (Hd8 : 8 * N.of_nat (length d) < r) by lia.
    assert (Hr' : r' = r - 8 * N.of_nat (length d)) by (unfold r'; lia).
    assert (Hz : r' =? 0 = false) by (apply N.eqb_neq; lia). rewrite Hz. cbn [andb bind].
    change (map EArrayData rest') with (data_events rest').
    rewrite (IH s1 r' m); try assumption; try lia.
    + cbv zeta. rewrite Hen1. unfold s1, upd_en. rewrite !emit_nolf_set_en, !set_en_set_en.
      replace (set_rem0 (set_erem r' (en s))) with (set_rem0 (en s)) by (destruct (en s); reflexivity).
      rewrite emit_nolf_nolf.
      replace (o ++ bits_text (firstn (N.to_nat r') (bytes_bits (concat rest'))))
        with (bits_text (firstn (N.to_nat r) (bytes_bits (concat (d :: rest'))))); [reflexivity|].
      cbn [concat]. rewrite bytes_bits_app, firstn_app, bytes_bits_length. unfold bits_text. rewrite map_app.
      unfold o, bits_text. f_equal. f_equal. f_equal. lia.
    + unfold open_as. rewrite Hen1. destruct (en s); cbn in *. repeat split; congruence.
Qed.

(* ------------------------------------------------------------------ *)
(** * Chunks *)

Lemma bind_ret {A} (o : option A) : bind o (fun x => Some x) = o.
Proof. destruct o; reflexivity. Qed.

Lemma bind_assoc {A B C} (o : option A) (f : A -> option B) (g : B -> option C) :
  bind (bind o f) g = bind o (fun x => bind (f x) g).
Proof. destruct o; reflexivity. Qed.

Section Chunks.
  Variables (c : ccfg) (k : akind).
  Variable inv : est -> Prop.
  (* the effect of one whole chunk (header and data events) short of ending the array *)
  Variable pstep : est -> chunk -> option est.
  Hypothesis Hchunk : forall s ch, inv s -> chunk_wf k ch ->
    run c s (chunk_events ch) =
    match pstep s ch with None => None | Some s' => if snd (fst ch) then Some s' else end_array s' end.
  Hypothesis Hinv : forall s ch s', inv s -> chunk_wf k ch -> pstep s ch = Some s' -> inv s'.

  Fixpoint psteps (s : est) (cs : list chunk) : option est :=
    match cs with [] => Some s | ch :: r => bind (pstep s ch) (fun s' => psteps s' r) end.

  Lemma run_chunks cs : forall s, inv s -> chunks_wf k cs ->
    run c s (chunks_events cs) = bind (psteps s cs) end_array.
  Proof.
    induction cs as [|ch r IH]; intros s Hi Hwf; [destruct Hwf|].
    cbn [chunks_wf] in Hwf. destruct Hwf as [Hch Hrest].
    unfold chunks_events. cbn [flat_map]. fold (chunks_events r). rewrite run_app, (Hchunk s ch Hi Hch).
    cbn [psteps]. destruct (pstep s ch) as [s'|] eqn:Ep; [|reflexivity]. cbn [bind].
    destruct r as [|ch2 r].
    - rewrite Hrest. cbn [chunks_events flat_map psteps bind run]. apply bind_ret.
    - destruct Hrest as [Hm Hrest]. rewrite Hm. cbn [bind]. apply IH; [eapply Hinv; eauto | exact Hrest].
  Qed.
End Chunks.

Lemma begin_chunk_pos n m s : 0 < n -> begin_chunk n m s = Some (upd_en (fun e => set_emore m (set_erem n e)) s).
Proof. intro H. unfold begin_chunk. assert (E : n =? 0 = false) by (apply N.eqb_neq; lia). rewrite E. reflexivity. Qed.

Lemma begin_chunk_zero m s :
  begin_chunk 0 m s = let s1 := upd_en (fun e => set_emore m (set_erem 0 e)) s in if m then Some s1 else end_array s1.
Proof. unfold begin_chunk. cbn [N.eqb andb]. destruct m; reflexivity. Qed.

Lemma run_chunk_events c n m ds s :
  run c s (chunk_events (n, m, ds)) = bind (begin_chunk n m s) (fun s1 => run c s1 (data_events ds)).
Proof. reflexivity. Qed.

(* ---- numeric ---- *)

Definition inv_num (k : nkind) (s : est) : Prop := ek (en s) = KNum k /\ eleft (en s) = [].

Definition pstep_num (c : ccfg) (k : nkind) (s : est) (ch : chunk) : option est :=
  let E := fst (grp (nk_width k) [] (chunk_payload ch)) in
  match elems_pieces c k (ehw (en s)) E with
  | None => None
  | Some ps => Some (set_en (set_emore (snd (fst ch)) (eng_upd (en s) 0 (ehw (en s) || nonempty E) [])) (emit_pieces ps s))
  end.

Lemma chunk_num c k s ch :
  inv_num k s -> chunk_wf (KNum k) ch ->
  run c s (chunk_events ch) =
  match pstep_num c k s ch with None => None | Some s' => if snd (fst ch) then Some s' else end_array s' end.
Proof.
  intros [Ek El] Hwf. destruct ch as [[n m] ds]. cbn [chunk_wf] in Hwf. destruct Hwf as (Hn & H0 & Hpos).
  rewrite run_chunk_events. unfold pstep_num, chunk_payload. cbn [fst snd].
  destruct (N.eq_dec n 0) as [->|Hnz].
  - rewrite (H0 eq_refl). cbn [concat grp fst elems_pieces nonempty emit_pieces fold_left data_events map].
    rewrite begin_chunk_zero. cbv zeta. rewrite orb_false_r.
    assert (Hs : upd_en (fun e => set_emore m (set_erem 0 e)) s = set_en (set_emore m (eng_upd (en s) 0 (ehw (en s)) [])) s).
    { unfold upd_en. f_equal. destruct (en s); cbn in *; subst; reflexivity. }
    rewrite Hs. destruct m; cbn [bind run]; [reflexivity | apply bind_ret].
  - assert (Hnp : 0 < n) by lia. destruct (Hpos Hnp) as (Hne & Hlast & Hlen). cbn [chunk_bytes ak_width] in Hlen.
    rewrite (begin_chunk_pos n m s Hnp). cbn [bind].
    set (s1 := upd_en _ s).
    assert (Hen1 : en s1 = set_emore m (set_erem n (en s))) by reflexivity.
    destruct (grp (nk_width k) [] (concat ds)) as [E L'] eqn:Hg.
    assert (A1 : num_open k s1 n m []).
    { unfold num_open. rewrite Hen1. destruct (en s); cbn in *. repeat split; congruence. }
    assert (A2 : (length (@nil N) < nk_width k)%nat) by (cbn; apply nk_width_pos).
    assert (A3 : (length (@nil N) + length (concat ds) = N.to_nat n * nk_width k)%nat) by (cbn [length]; lia).
    rewrite (run_data_num c k ds s1 n m [] E L' A1 Hn A2 Hne Hlast A3 Hg).
    rewrite Hen1. replace (ehw (set_emore m (set_erem n (en s)))) with (ehw (en s)) by (destruct (en s); reflexivity).
    cbn [fst]. destruct (elems_pieces c k (ehw (en s)) E) as [ps|]; [|reflexivity].
    cbv zeta. unfold s1, upd_en. rewrite emit_pieces_set_en, set_en_set_en.
    replace (eng_upd (set_emore m (set_erem n (en s))) 0 (ehw (en s) || nonempty E) [])
      with (set_emore m (eng_upd (en s) 0 (ehw (en s) || nonempty E) [])) by (destruct (en s); reflexivity).
    reflexivity.
Qed.

Lemma inv_pstep_num c k s ch s' : inv_num k s -> pstep_num c k s ch = Some s' -> inv_num k s'.
Proof.
  intros [Ek El] H. unfold pstep_num in H. cbv zeta in H.
  destruct (elems_pieces _ _ _ _); [|discriminate]. injection H as <-.
  unfold inv_num. cbn [en set_en]. destruct (en s); cbn in *. split; congruence.
Qed.

Lemma chunks_wf_forall k cs : chunks_wf k cs -> Forall (chunk_wf k) cs.
Proof.
  induction cs as [|ch r IH]; intro H; [constructor|]. cbn [chunks_wf] in H. destruct H as [Hc Hr].
  constructor; [exact Hc|]. destruct r; [constructor | apply IH; tauto].
Qed.

Lemma set_en_en s : set_en (en s) s = s.
Proof. destruct s; reflexivity. Qed.

Lemma payload_len_num k ch : chunk_wf (KNum k) ch -> length (chunk_payload ch) = (N.to_nat (fst (fst ch)) * nk_width k)%nat.
Proof.
  destruct ch as [[n m] ds]. cbn [chunk_wf chunk_payload fst snd]. intros (Hn & H0 & Hpos).
  destruct (N.eq_dec n 0) as [->|Hnz]; [rewrite (H0 eq_refl); reflexivity|].
  destruct Hpos as (_ & _ & Hlen); [lia|]. exact Hlen.
Qed.

Lemma psteps_num c k : forall cs s,
  inv_num k s -> Forall (chunk_wf (KNum k)) cs ->
  match psteps (pstep_num c k) s cs, elems_pieces c k (ehw (en s)) (fst (grp (nk_width k) [] (flat_map chunk_payload cs))) with
  | Some s', Some ps => exists E', s' = set_en E' (emit_pieces ps s) /\ ecomp E' = ecomp (en s) /\ eouter E' = eouter (en s)
  | None, None => True
  | _, _ => False
  end.
Proof.
  pose proof (nk_width_pos k) as Hw.
  induction cs as [|ch r IH]; intros s Hi HF.
  - cbn. exists (en s). rewrite set_en_en. auto.
  - pose proof (Forall_inv HF) as Hch. pose proof (Forall_inv_tail HF) as HF'.
    cbn [psteps flat_map]. rewrite grp_app.
    rewrite (grp_whole (nk_width k) _ Hw _ (payload_len_num k ch Hch)).
    destruct (grp (nk_width k) [] (flat_map chunk_payload r)) as [E2 L2] eqn:Hg2. cbn [fst].
    rewrite elems_pieces_app.
    unfold pstep_num at 1. cbv zeta.
    rewrite (grp_whole (nk_width k) _ Hw _ (payload_len_num k ch Hch)). cbn [fst].
    set (E1 := chop _ _ _).
    destruct (elems_pieces c k (ehw (en s)) E1) as [ps1|] eqn:Ep1; [|exact I]. cbn [bind].
    set (s1 := set_en _ (emit_pieces ps1 s)).
    assert (Hi1 : inv_num k s1).
    { destruct Hi as [Ek El]. unfold inv_num, s1. cbn [en set_en]. destruct (en s); cbn in *. split; congruence. }
    specialize (IH s1 Hi1 HF'). try rewrite Hg2 in IH. cbn [fst] in IH.
    assert (Hhw : ehw (en s1) = ehw (en s) || nonempty E1) by (unfold s1; cbn [en set_en]; destruct (en s); reflexivity).
    rewrite Hhw in IH.
    destruct (psteps (pstep_num c k) s1 r) as [s'|]; destruct (elems_pieces c k (ehw (en s) || nonempty E1) E2) as [ps2|]; try exact IH.
    destruct IH as (E' & -> & Hc & Ho). exists E'. split; [|split].
    + unfold s1. rewrite emit_pieces_set_en, set_en_set_en, <- emit_pieces_app. reflexivity.
    + rewrite Hc. unfold s1. cbn [en set_en]. destruct (en s); reflexivity.
    + rewrite Ho. unfold s1. cbn [en set_en]. destruct (en s); reflexivity.
Qed.

(* ---- string-like ---- *)

Definition inv_kind (k : akind) (s : est) : Prop := ek (en s) = k.

Definition pstep_str (s : est) (ch : chunk) : option est :=
  Some (set_en (set_emore (snd (fst ch)) (set_ebuf (ebuf (en s) ++ chunk_payload ch) (set_rem0 (en s)))) s).

Lemma chunk_str c s ch :
  inv_kind KStr s -> chunk_wf KStr ch ->
  run c s (chunk_events ch) =
  match pstep_str s ch with None => None | Some s' => if snd (fst ch) then Some s' else end_array s' end.
Proof.
  intros Ek Hwf. destruct ch as [[n m] ds]. cbn [chunk_wf] in Hwf. destruct Hwf as (Hn & H0 & Hpos).
  rewrite run_chunk_events. unfold pstep_str, chunk_payload. cbn [fst snd].
  destruct (N.eq_dec n 0) as [->|Hnz].
  - rewrite (H0 eq_refl). cbn [concat data_events map]. rewrite begin_chunk_zero. cbv zeta. rewrite app_nil_r.
    assert (Hs : upd_en (fun e => set_emore m (set_erem 0 e)) s = set_en (set_emore m (set_ebuf (ebuf (en s)) (set_rem0 (en s)))) s).
    { unfold upd_en. f_equal; destruct (en s); reflexivity. }
    rewrite Hs. destruct m; cbn [bind run]; [reflexivity | apply bind_ret].
  - assert (Hnp : 0 < n) by lia. destruct (Hpos Hnp) as (Hne & Hlast & Hlen). cbn [chunk_bytes ak_width] in Hlen.
    rewrite (begin_chunk_pos n m s Hnp). cbn [bind].
    set (s1 := upd_en _ s).
    assert (Hen1 : en s1 = set_emore m (set_erem n (en s))) by reflexivity.
    assert (A1 : open_as KStr s1 n m).
    { unfold open_as. rewrite Hen1. unfold inv_kind in Ek. destruct (en s); cbn in *. repeat split; congruence. }
    rewrite (run_data_str c ds s1 n m A1 Hn Hne Hlast) by lia.
    cbv zeta. rewrite Hen1. unfold s1, upd_en. rewrite set_en_set_en.
    replace (set_ebuf (ebuf (set_emore m (set_erem n (en s))) ++ concat ds) (set_rem0 (set_emore m (set_erem n (en s)))))
      with (set_emore m (set_ebuf (ebuf (en s) ++ concat ds) (set_rem0 (en s)))) by (destruct (en s); reflexivity).
    reflexivity.
Qed.

Lemma psteps_str : forall cs s,
  exists E', psteps pstep_str s cs = Some (set_en E' s) /\ ebuf E' = ebuf (en s) ++ flat_map chunk_payload cs /\
             ecomp E' = ecomp (en s) /\ eouter E' = eouter (en s) /\ ek E' = ek (en s).
Proof.
  induction cs as [|ch r IH]; intro s.
  - exists (en s). cbn. rewrite set_en_en, app_nil_r. auto.
  - cbn [psteps pstep_str bind]. set (s1 := set_en _ s). destruct (IH s1) as (E' & Hp & Hb & Hc & Ho & Hk).
    exists E'. rewrite Hp. unfold s1 in *. cbn [en set_en] in *. rewrite set_en_set_en. split; [reflexivity|].
    cbn [flat_map]. rewrite app_assoc, Hb, Hc, Ho, Hk. destruct (en s); cbn. auto.
Qed.

(* ---- media / custom binary ---- *)

Definition pstep_hex (s : est) (ch : chunk) : option est :=
  let '(n, m, ds) := ch in
  match ds with
  | [] => Some (set_en (set_emore m (set_rem0 (en s))) s)
  | _ => Some (set_en (set_emore m (set_ehw true (set_rem0 (en s))))
                      (emit_cd ((if ehw (en s) then [32] else []) ++ hexbytes (concat ds)) (hex_dz (ehw (en s)) ds) s))
  end.

Lemma chunk_hex c s ch :
  inv_kind KHex s -> chunk_wf KHex ch ->
  run c s (chunk_events ch) =
  match pstep_hex s ch with None => None | Some s' => if snd (fst ch) then Some s' else end_array s' end.
Proof.
  intros Ek Hwf. destruct ch as [[n m] ds]. cbn [chunk_wf] in Hwf. destruct Hwf as (Hn & H0 & Hpos).
  rewrite run_chunk_events. unfold pstep_hex. cbn [fst snd].
  destruct (N.eq_dec n 0) as [->|Hnz].
  - rewrite (H0 eq_refl). cbn [data_events map]. rewrite begin_chunk_zero. cbv zeta.
    assert (Hs : upd_en (fun e => set_emore m (set_erem 0 e)) s = set_en (set_emore m (set_rem0 (en s))) s) by reflexivity.
    rewrite Hs. destruct m; cbn [bind run]; [reflexivity | apply bind_ret].
  - assert (Hnp : 0 < n) by lia. destruct (Hpos Hnp) as (Hne & Hlast & Hlen). cbn [chunk_bytes ak_width] in Hlen.
    rewrite (begin_chunk_pos n m s Hnp). cbn [bind].
    set (s1 := upd_en _ s).
    assert (Hen1 : en s1 = set_emore m (set_erem n (en s))) by reflexivity.
    assert (A1 : open_as KHex s1 n m).
    { unfold open_as. rewrite Hen1. unfold inv_kind in Ek. destruct (en s); cbn in *. repeat split; congruence. }
    rewrite (run_data_hex c ds s1 n m A1 Hn Hne Hlast) by lia.
    cbv zeta. rewrite Hen1. destruct ds as [|d0 ds0]; [congruence|].
    replace (ehw (set_emore m (set_erem n (en s)))) with (ehw (en s)) by (destruct (en s); reflexivity).
    unfold s1, upd_en. rewrite emit_cd_set_en, set_en_set_en.
    replace (set_ehw true (set_rem0 (set_emore m (set_erem n (en s))))) with (set_emore m (set_ehw true (set_rem0 (en s))))
      by (destruct (en s); reflexivity).
    reflexivity.
Qed.

(* ---- bits ---- *)

Definition pstep_bit (s : est) (ch : chunk) : option est :=
  Some (set_en (set_emore (snd (fst ch)) (set_rem0 (en s))) (emit_nolf (bits_text (chunk_bits ch)) s)).

Lemma emit_nolf_nil s : emit_nolf [] s = s.
Proof. destruct s. unfold emit_nolf, emit_cd. cbn. f_equal. lia. Qed.

Lemma chunk_bit c s ch :
  inv_kind KBit s -> chunk_wf KBit ch ->
  run c s (chunk_events ch) =
  match pstep_bit s ch with None => None | Some s' => if snd (fst ch) then Some s' else end_array s' end.
Proof.
  intros Ek Hwf. destruct ch as [[n m] ds]. cbn [chunk_wf] in Hwf. destruct Hwf as (Hn & H0 & Hpos).
  rewrite run_chunk_events. unfold pstep_bit, chunk_bits. cbn [fst snd].
  destruct (N.eq_dec n 0) as [->|Hnz].
  - rewrite (H0 eq_refl). cbn [data_events map concat bytes_bits flat_map firstn N.to_nat bits_text map]. 
    rewrite begin_chunk_zero, emit_nolf_nil. cbv zeta.
    assert (Hs : upd_en (fun e => set_emore m (set_erem 0 e)) s = set_en (set_emore m (set_rem0 (en s))) s) by reflexivity.
    rewrite Hs. destruct m; cbn [bind run]; [reflexivity | apply bind_ret].
  - assert (Hnp : 0 < n) by lia. destruct (Hpos Hnp) as (Hne & Hlast & Hlen). cbn [chunk_bytes] in Hlen.
    rewrite (begin_chunk_pos n m s Hnp). cbn [bind].
    set (s1 := upd_en _ s).
    assert (Hen1 : en s1 = set_emore m (set_erem n (en s))) by reflexivity.
    assert (A1 : open_as KBit s1 n m).
    { unfold open_as. rewrite Hen1. unfold inv_kind in Ek. destruct (en s); cbn in *. repeat split; congruence. }
    rewrite (run_data_bit c ds s1 n m A1 Hn Hnp Hne Hlast Hlen).
    cbv zeta. rewrite Hen1. unfold s1, upd_en. rewrite emit_nolf_set_en, set_en_set_en.
    replace (set_rem0 (set_emore m (set_erem n (en s)))) with (set_emore m (set_rem0 (en s))) by (destruct (en s); reflexivity).
    reflexivity.
Qed.

Lemma psteps_bit : forall cs s,
  exists E', psteps pstep_bit s cs = Some (set_en E' (emit_nolf (bits_text (flat_map chunk_bits cs)) s)) /\
             ecomp E' = ecomp (en s) /\ eouter E' = eouter (en s).
Proof.
  induction cs as [|ch r IH]; intro s.
  - exists (en s). cbn. rewrite emit_nolf_nil, set_en_en. auto.
  - cbn [psteps pstep_bit bind]. set (s1 := set_en _ _). destruct (IH s1) as (E' & Hp & Hc & Ho).
    exists E'. rewrite Hp. unfold s1 in *. cbn [en set_en] in *.
    rewrite emit_nolf_set_en, set_en_set_en, emit_nolf_nolf. split; [|split].
    + cbn [flat_map]. unfold bits_text. rewrite map_app. reflexivity.
    + rewrite Hc. destruct (en s); reflexivity.
    + rewrite Ho. destruct (en s); reflexivity.
Qed.

Lemma inv_pstep_hex s ch s' : inv_kind KHex s -> pstep_hex s ch = Some s' -> inv_kind KHex s'.
Proof.
  unfold inv_kind, pstep_hex. intros Ek H. destruct ch as [[n m] ds].
  destruct ds; injection H as <-; cbn [en set_en]; destruct (en s); exact Ek.
Qed.

Lemma psteps_hex : forall cs s,
  Forall (chunk_wf KHex) cs ->
  let P := flat_map chunk_payload cs in
  exists E' dz,
    psteps pstep_hex s cs =
      Some (set_en E' (emit_cd ((if ehw (en s) && nonempty P then [32] else []) ++ hexbytes P) dz s)) /\
    ecomp E' = ecomp (en s) /\ eouter E' = eouter (en s).
Proof.
  induction cs as [|ch r IH]; intros s HF; cbv zeta.
  - exists (en s), 0%Z. cbn [flat_map nonempty psteps hexbytes]. rewrite andb_false_r. cbn [app].
    replace (emit_cd [] 0 s) with s by (symmetry; apply emit_nolf_nil). rewrite set_en_en. auto.
  - pose proof (Forall_inv HF) as Hch. pose proof (Forall_inv_tail HF) as HF'.
    destruct ch as [[n m] ds]. cbn [psteps pstep_hex flat_map]. unfold chunk_payload at 1 3. cbn [snd].
    destruct ds as [|d0 ds0].
    + cbn [bind concat app]. set (s1 := set_en _ s).
      destruct (IH s1 HF') as (E' & dz & Hp & Hc & Ho). cbv zeta in Hp.
      exists E', dz. rewrite Hp. unfold s1 in *. cbn [en set_en] in *.
      rewrite emit_cd_set_en, set_en_set_en.
      replace (ehw (set_emore m (set_rem0 (en s)))) with (ehw (en s)) by (destruct (en s); reflexivity).
      split; [reflexivity|]. rewrite Hc, Ho. destruct (en s); auto.
    + cbn [bind]. set (ds := d0 :: ds0) in *. set (s1 := set_en _ (emit_cd _ _ s)).
      destruct (IH s1 HF') as (E' & dz & Hp & Hc & Ho). cbv zeta in Hp.
      cbn [chunk_wf] in Hch. destruct Hch as (Hn & H0 & Hpos).
      assert (HP1 : concat ds <> []).
      { destruct (N.eq_dec n 0) as [Hz|Hz]; [specialize (H0 Hz); unfold ds in H0; discriminate|].
        destruct Hpos as (_ & Hl & _); [lia|]. pose proof (concat_last_pos ds Hl) as Hcp.
        destruct (concat ds); [cbn in Hcp; lia | discriminate]. }
      exists E', (hex_dz (ehw (en s)) ds + dz)%Z. rewrite Hp. unfold s1 in *. cbn [en set_en] in *.
      rewrite emit_cd_set_en, set_en_set_en, emit_cd_cd.
      replace (ehw (set_emore m (set_ehw true (set_rem0 (en s))))) with true by (destruct (en s); reflexivity).
      split; [|rewrite Hc, Ho; destruct (en s); auto].
      do 3 f_equal. cbn [andb].
      assert (Hne1 : nonempty (concat ds ++ flat_map chunk_payload r) = true) by (destruct (concat ds); [congruence | reflexivity]).
      rewrite Hne1, andb_true_r.
      destruct (flat_map chunk_payload r) as [|p0 P2] eqn:EP2.
      * cbn [nonempty hexbytes app]. rewrite !app_nil_r. reflexivity.
      * cbn [nonempty]. rewrite (hexbytes_app (concat ds) (p0 :: P2)) by (assumption || discriminate).
        rewrite <- !app_assoc. reflexivity.
Qed.

(* ------------------------------------------------------------------ *)
(** * The canonical effect of an array, and every delivery has it *)

Definition oeq (o1 o2 : option est) : Prop :=
  match o1, o2 with Some a, Some b => R a b | None, None => True | _, _ => False end.
Definition congO (f : est -> option est) : Prop := forall a b, R a b -> oeq (f a) (f b).

Lemma oeq_refl o : oeq o o.
Proof. destruct o; cbn; [apply R_refl | exact I]. Qed.

Lemma oeq_bind o1 o2 g : oeq o1 o2 -> congO g -> oeq (bind o1 g) (bind o2 g).
Proof. intros H Hg. destruct o1, o2; cbn in *; try contradiction; [apply Hg, H | exact I]. Qed.

Lemma congO_after_value : congO after_value.
Proof.
  intros a b HR. unfold after_value. rewrite (inv_stack _ _ HR).
  destruct (after_stack (stack b)) as [[st' sep]|]; cbn; [|exact I].
  apply (proj1 (cong_after_value_body st' sep) a b HR).
Qed.

Lemma congO_unstack : congO unstack.
Proof.
  intros a b HR. unfold unstack. rewrite (inv_stack _ _ HR). destruct (stack b) as [|d [|d' st]]; cbn; try exact I.
  apply (proj1 (cong_set_stack (d' :: st)) a b HR).
Qed.

Lemma R_intro a b :
  rout a = rout b -> col a = col b -> ind a = ind b -> stack a = stack b -> cho a = cho b -> dirty a = dirty b -> bad a = bad b ->
  R a b.
Proof. destruct a, b; cbn; intros; subst; reflexivity. Qed.

Lemma R_intro_dirty a b :
  rout a = rout b -> ind a = ind b -> stack a = stack b -> cho a = cho b -> dirty a = true -> dirty b = true -> bad a = bad b ->
  R a b.
Proof. destruct a, b; cbn; intros; subst; reflexivity. Qed.

Definition pieces_rout (ps : list piece) (r : bytes) : bytes := fold_left (fun r p => rev_append (fst p) r) ps r.
Definition pieces_col (ps : list piece) (c : Z) : Z := fold_left (fun c p => (c + snd p)%Z) ps c.

Lemma emit_pieces_fields ps : forall s,
  rout (emit_pieces ps s) = pieces_rout ps (rout s) /\ col (emit_pieces ps s) = pieces_col ps (col s) /\
  ind (emit_pieces ps s) = ind s /\ stack (emit_pieces ps s) = stack s /\ cho (emit_pieces ps s) = cho s /\
  dirty (emit_pieces ps s) = dirty s /\ bad (emit_pieces ps s) = bad s.
Proof.
  induction ps as [|p ps IH]; intro s; [cbn; repeat split|].
  change (emit_pieces (p :: ps) s) with (emit_pieces ps (emit_cd (fst p) (snd p) s)).
  change (pieces_rout (p :: ps) (rout s)) with (pieces_rout ps (rout (emit_cd (fst p) (snd p) s))).
  change (pieces_col (p :: ps) (col s)) with (pieces_col ps (col (emit_cd (fst p) (snd p) s))).
  destruct (IH (emit_cd (fst p) (snd p) s)) as (H1 & H2 & H3 & H4 & H5 & H6 & H7).
  rewrite H1, H2, H3, H4, H5, H6, H7. repeat split.
Qed.

Lemma before_value_facts s sv : before_value s = Some sv -> stack sv = stack s /\ stack s <> [] /\ en sv = en s.
Proof.
  unfold before_value. destruct (stack s) as [|d st] eqn:Es; [discriminate|]. intros [= <-].
  split; [|split; [discriminate|]].
  - destruct d; try (symmetry; exact Es); unfold newline_indent, indent_if_origin; cbn;
      try (destruct (at_origin (note_read s))); destruct s; cbn in *; congruence.
  - destruct d; try reflexivity; unfold newline_indent, indent_if_origin; cbn;
      try (destruct (at_origin (note_read s))); destruct s; reflexivity.
Qed.

(* the array's text between BeforeValue and AfterValue *)
Definition canon_body (c : ccfg) (h : ahead) (d : adata) (s : est) : option est :=
  match h, d with
  | HArr t, ABits l =>
      if t =? AT_Bit then Some (emit_nolf [93] (emit_nolf (bits_text l) (emit_nolf t_bithdr s))) else None
  | HArr t, ABytes D =>
      if t =? AT_String then Some (write_quoted true D s)
      else if t =? AT_ResourceID then Some (write_quoted false D (emit_nolf [64] s))
      else if t =? AT_ReferenceRemote then Some (write_quoted false D (emit_nolf [36] s))
      else match nkind_of t with
           | Some k =>
               match num_header c k, elems_pieces c k false (fst (grp (nk_width k) [] D)) with
               | Some hd, Some ps => Some (emit_nolf [93] (emit_pieces ps (emit_nolf hd s)))
               | _, _ => None
               end
           | None => None
           end
  | HMedia mt, ABytes D => Some (emit_nolf [93] (emit_raw (hexbytes D) (emit_nolf (64 :: mt ++ [91]) (set_dirty s))))
  | HCustom t ct, ABytes D =>
      if t =? AT_CustomBinary then Some (emit_nolf [93] (emit_raw (hexbytes D) (emit_nolf (64 :: dec ct ++ [91]) (set_dirty s))))
      else if t =? AT_CustomText then Some (write_quoted true D (emit_nolf (64 :: dec ct) s))
      else None
  | _, _ => None
  end.

Definition canon (c : ccfg) (h : ahead) (d : adata) (s : est) : option est :=
  bind (before_value s) (fun s => bind (canon_body c h d s) after_value).

(* canon_body is either a congruence or fails regardless of the state *)
Lemma canon_body_shape c h d : (exists f, cong f /\ forall s, canon_body c h d s = Some (f s)) \/ (forall s, canon_body c h d s = None).
Proof.
  assert (Hhex : forall hd D, cong (fun s => emit_nolf [93] (emit_raw (hexbytes D) (emit_nolf hd (set_dirty s))))).
  { intros hd D. apply (cong_comp (fun s => emit_raw (hexbytes D) (emit_nolf hd (set_dirty s))) (emit_nolf [93])); [|apply cong_emit_nolf].
    apply (cong_comp (fun s => emit_nolf hd (set_dirty s)) (emit_raw (hexbytes D))); [|apply cong_emit_raw].
    apply (cong_comp set_dirty (emit_nolf hd)); [apply cong_set_dirty | apply cong_emit_nolf]. }
  assert (Hq : forall lf D pre, cong (fun s => write_quoted lf D (emit_nolf pre s))).
  { intros. apply (cong_comp (emit_nolf pre) (write_quoted lf D)); [apply cong_emit_nolf | apply cong_write_quoted]. }
  destruct h as [t|mt|t ct], d as [D|l]; cbn [canon_body]; try (right; reflexivity).
  - destruct (t =? AT_String); [left; eexists; split; [apply (cong_write_quoted true D) | reflexivity]|].
    destruct (t =? AT_ResourceID); [left; eexists; split; [apply (Hq false D [64]) | reflexivity]|].
    destruct (t =? AT_ReferenceRemote); [left; eexists; split; [apply (Hq false D [36]) | reflexivity]|].
    destruct (nkind_of t) as [k|]; [|right; reflexivity].
    destruct (num_header c k) as [hd|]; [|right; reflexivity].
    destruct (elems_pieces c k false _) as [ps|]; [|right; reflexivity].
    left. eexists; split; [|reflexivity].
    apply (cong_comp (fun s => emit_pieces ps (emit_nolf hd s)) (emit_nolf [93])); [|apply cong_emit_nolf].
    apply (cong_comp (emit_nolf hd) (emit_pieces ps)); [apply cong_emit_nolf | apply cong_emit_pieces].
  - destruct (t =? AT_Bit); [|right; reflexivity]. left; eexists; split; [|reflexivity].
    apply (cong_comp (fun s => emit_nolf (bits_text l) (emit_nolf t_bithdr s)) (emit_nolf [93])); [|apply cong_emit_nolf].
    apply (cong_comp (emit_nolf t_bithdr) (emit_nolf (bits_text l))); apply cong_emit_nolf.
  - left; eexists; split; [apply (Hhex (64 :: mt ++ [91]) D) | reflexivity].
  - destruct (t =? AT_CustomBinary); [left; eexists; split; [apply (Hhex (64 :: dec ct ++ [91]) D) | reflexivity]|].
    destruct (t =? AT_CustomText); [left; eexists; split; [apply (Hq true D (64 :: dec ct)) | reflexivity] | right; reflexivity].
Qed.

Lemma good_canon c h d : goodO (canon c h d).
Proof.
  unfold canon. apply good_bind; [apply good_before_value | |].
  - destruct (canon_body_shape c h d) as [(f & Hf & E)|E].
    + intros a b HR. rewrite !E. cbn [bind]. apply good_after_value, Hf, HR.
    + intros a b HR. rewrite !E. exact I.
  - destruct (canon_body_shape c h d) as [(f & Hf & E)|E]; intros s s' Hb Es; rewrite E in Es; cbn [bind] in Es; [|discriminate].
    eapply mono_after_value; [|exact Es]. destruct Hf as [_ Hf]. rewrite Hf. exact Hb.
Qed.

Lemma nkind_of_facts t k : nkind_of t = Some k ->
  (t =? AT_Bit) = false /\ (t =? AT_String) = false /\ (t =? AT_ResourceID) = false /\ (t =? AT_ReferenceRemote) = false /\
  is_string_type t = false /\ is_text_type t = false.
Proof.
  intro H. unfold nkind_of in H.
  repeat match type of H with
         | (if ?x then _ else _) = _ =>
             destruct x eqn:?E;
             [match goal with E1 : (t =? _) = true |- _ => apply N.eqb_eq in E1; subst t end; vm_compute; repeat split; reflexivity|]
         end.
  discriminate H.
Qed.

Lemma text_type_cases t : is_text_type t = true -> t = AT_String \/ t = AT_ResourceID \/ t = AT_ReferenceRemote.
Proof.
  unfold is_text_type. intro H. apply orb_true_iff in H. destruct H as [H|H]; [apply orb_true_iff in H; destruct H as [H|H]|];
    apply N.eqb_eq in H; auto.
Qed.

Lemma en_write_quoted lf v s : en (write_quoted lf v s) = en s.
Proof.
  assert (Hf : forall (l : list N) (F : est -> N -> est), (forall s r, en (F s r) = en s) -> forall s, en (fold_left F l s) = en s).
  { induction l as [|r l IH]; intros F HF s0; cbn; [reflexivity|]. rewrite IH by exact HF. apply HF. }
  unfold write_quoted. destruct v as [|b v]; [reflexivity|].
  destruct (forallb rune_safe (runes (b :: v))).
  - destruct lf; cbn; [unfold emit_plf; destruct (plf_col (b :: v)); reflexivity | reflexivity].
  - cbn [en emit_nolf emit_cd]. rewrite Hf; [reflexivity|].
    intros s0 r. destruct (rune_safe r); [unfold emit_rune; destruct (lf && (r =? 10)); reflexivity | reflexivity].
Qed.

Lemma end_array_end_none s : ecomp (en s) = CEnd -> eouter (en s) = ONone -> end_array s = Some (emit_nolf [93] s).
Proof. intros Hc Ho. unfold end_array. rewrite Hc. cbn [bind en emit_nolf emit_cd]. rewrite Ho. reflexivity. Qed.

Lemma end_array_end_unstack s : ecomp (en s) = CEnd -> eouter (en s) = OUnstackAfter ->
  end_array s = bind (unstack (emit_nolf [93] s)) after_value.
Proof. intros Hc Ho. unfold end_array. rewrite Hc. cbn [bind en emit_nolf emit_cd]. rewrite Ho. reflexivity. Qed.

Lemma end_array_quoted_after s lf : ecomp (en s) = CQuoted lf -> eouter (en s) = OAfter ->
  end_array s = after_value (write_quoted lf (ebuf (en s)) s).
Proof. intros Hc Ho. unfold end_array. rewrite Hc. cbn [bind]. rewrite en_write_quoted, Ho. reflexivity. Qed.

Lemma run_single c s e : run c s [e] = step c s e.
Proof. cbn. apply bind_ret. Qed.

Lemma R_set_en e s : R (set_en e s) s.
Proof. destruct s; reflexivity. Qed.

Lemma unstack_pushed d x : stack x <> [] -> unstack (push d x) = Some (set_stack (stack x) (push d x)).
Proof. intro H. unfold unstack, push. cbn. destruct (stack x) as [|d0 st]; [congruence | reflexivity]. Qed.

(* ---- whole-array events ---- *)

Lemma group_media c mt d s : oeq (run c s [EMedia mt d]) (canon c (HMedia mt) (ABytes d) s).
Proof. rewrite run_single. apply oeq_refl. Qed.

Lemma group_custom_bin c ct d s : oeq (run c s [ECustomBin ct d]) (canon c (HCustom AT_CustomBinary ct) (ABytes d) s).
Proof. rewrite run_single. apply oeq_refl. Qed.

Lemma group_custom_text c ct d s : oeq (run c s [ECustomText ct d]) (canon c (HCustom AT_CustomText ct) (ABytes d) s).
Proof. rewrite run_single. apply oeq_refl. Qed.

Lemma group_string_array c t d s : is_text_type t = true -> oeq (run c s [EStringArray t d]) (canon c (HArr t) (ABytes d) s).
Proof.
  intro Ht. rewrite run_single. destruct (text_type_cases t Ht) as [->|[->| ->]]; apply oeq_refl.
Qed.

Lemma group_array_text c t n d s : is_text_type t = true -> oeq (run c s [EArray t n d]) (canon c (HArr t) (ABytes d) s).
Proof.
  intro Ht. rewrite run_single. destruct (text_type_cases t Ht) as [->|[->| ->]]; apply oeq_refl.
Qed.

Lemma bind_ext {A B} (o : option A) (f g : A -> option B) : (forall x, f x = g x) -> bind o f = bind o g.
Proof. intro H. destruct o; cbn; [apply H | reflexivity]. Qed.

(* ---- numeric and UID arrays ---- *)

Lemma engine_begin_num c t k o x : nkind_of t = Some k ->
  engine_begin_array c t o x =
  match num_header c k with
  | Some hd => Some (emit_nolf hd (upd_en (eng_begin (KNum k) CEnd o) x))
  | None => None
  end.
Proof.
  intro Hk. destruct (nkind_of_facts t k Hk) as (H1 & H2 & H3 & H4 & _).
  unfold engine_begin_array. rewrite H1, H2, H3, H4, Hk. reflexivity.
Qed.

(* the chunks of a numeric array, from the state right after its header *)
Lemma num_chunks c k o hd x cs :
  chunks_wf (KNum k) cs ->
  let sB := emit_nolf hd (upd_en (eng_begin (KNum k) CEnd o) x) in
  match elems_pieces c k false (fst (grp (nk_width k) [] (flat_map chunk_payload cs))) with
  | Some ps => exists E', run c sB (chunks_events cs) = end_array (set_en E' (emit_pieces ps sB)) /\ ecomp E' = CEnd /\ eouter E' = o
  | None => run c sB (chunks_events cs) = None
  end.
Proof.
  intros Hwf sB.
  assert (Hi : inv_num k sB) by (unfold inv_num; split; reflexivity).
  rewrite (run_chunks c (KNum k) (inv_num k) (pstep_num c k)
             (fun s ch => chunk_num c k s ch) (fun s ch s' Hs _ Hp => inv_pstep_num c k s ch s' Hs Hp) cs sB Hi Hwf).
  pose proof (psteps_num c k cs sB Hi (chunks_wf_forall _ _ Hwf)) as HP.
  change (ehw (en sB)) with false in HP.
  destruct (psteps (pstep_num c k) sB cs) as [s'|]; destruct (elems_pieces c k false _) as [ps|]; cbv beta iota in HP; try contradiction; cbn [bind].
  - destruct HP as (E' & HE & Hc & Ho). exists E'. rewrite HE. auto.
  - reflexivity.
Qed.

Lemma R_num_result E' ps hd F d sv :
  stack sv <> [] ->
  R (set_stack (stack sv) (emit_nolf [93] (set_en E' (emit_pieces ps (emit_nolf hd (upd_en F (push d sv)))))))
    (emit_nolf [93] (emit_pieces ps (emit_nolf hd sv))).
Proof.
  intro Hs. 
  destruct (emit_pieces_fields ps (emit_nolf hd (upd_en F (push d sv)))) as (A1 & A2 & A3 & A4 & A5 & A6 & A7).
  destruct (emit_pieces_fields ps (emit_nolf hd sv)) as (B1 & B2 & B3 & B4 & B5 & B6 & B7).
  apply R_intro; cbn; rewrite ?A1, ?A2, ?A3, ?A4, ?A5, ?A6, ?A7, ?B1, ?B2, ?B3, ?B4, ?B5, ?B6, ?B7; reflexivity.
Qed.

Lemma R_num_result0 E' ps hd F sv :
  R (emit_nolf [93] (set_en E' (emit_pieces ps (emit_nolf hd (upd_en F sv)))))
    (emit_nolf [93] (emit_pieces ps (emit_nolf hd sv))).
Proof.
  destruct (emit_pieces_fields ps (emit_nolf hd (upd_en F sv))) as (A1 & A2 & A3 & A4 & A5 & A6 & A7).
  destruct (emit_pieces_fields ps (emit_nolf hd sv)) as (B1 & B2 & B3 & B4 & B5 & B6 & B7).
  apply R_intro; cbn; rewrite ?A1, ?A2, ?A3, ?A4, ?A5, ?A6, ?A7, ?B1, ?B2, ?B3, ?B4, ?B5, ?B6, ?B7; reflexivity.
Qed.

Lemma group_num_chunked c t k cs s :
  nkind_of t = Some k -> chunks_wf (KNum k) cs ->
  oeq (run c s (EArrayBegin t :: chunks_events cs)) (canon c (HArr t) (ABytes (flat_map chunk_payload cs)) s).
Proof.
  intros Hk Hwf. destruct (nkind_of_facts t k Hk) as (H1 & H2 & H3 & H4 & H5 & _).
  cbn [run step]. unfold canon, ctx_begin_array. rewrite H5.
  destruct (before_value s) as [sv|] eqn:Ebv; cbn [bind]; [|exact I].
  destruct (before_value_facts s sv Ebv) as (Hst & Hne & _).
  rewrite (engine_begin_num c t k _ _ Hk). cbn [canon_body]. rewrite H2, H3, H4, Hk.
  destruct (num_header c k) as [hd|]; cbn [bind]; [|exact I].
  pose proof (num_chunks c k OUnstackAfter hd (push DNSArray sv) cs Hwf) as HC. cbv zeta in HC.
  destruct (elems_pieces c k false _) as [ps|].
  - destruct HC as (E' & -> & Hc & Ho). cbn [bind].
    rewrite end_array_end_unstack by assumption.
    assert (Hun : unstack (emit_nolf [93] (set_en E' (emit_pieces ps (emit_nolf hd (upd_en (eng_begin (KNum k) CEnd OUnstackAfter) (push DNSArray sv))))))
                  = Some (set_stack (stack sv) (emit_nolf [93] (set_en E' (emit_pieces ps (emit_nolf hd (upd_en (eng_begin (KNum k) CEnd OUnstackAfter) (push DNSArray sv)))))))).
    { unfold unstack. destruct (emit_pieces_fields ps (emit_nolf hd (upd_en (eng_begin (KNum k) CEnd OUnstackAfter) (push DNSArray sv)))) as (_ & _ & _ & A4 & _).
      cbn [stack emit_nolf emit_cd set_en]. rewrite A4. cbn. destruct (stack sv); [congruence | reflexivity]. }
    rewrite Hun. cbn [bind]. apply congO_after_value. rewrite <- Hst in Hne. apply R_num_result. exact Hne.
  - rewrite HC. exact I.
Qed.

Lemma group_num_whole c t k n d s :
  nkind_of t = Some k -> n < 2 ^ 64 -> length d = (N.to_nat n * nk_width k)%nat ->
  oeq (run c s [EArray t n d]) (canon c (HArr t) (ABytes d) s).
Proof.
  intros Hk Hn Hlen. destruct (nkind_of_facts t k Hk) as (H1 & H2 & H3 & H4 & H5 & _).
  rewrite run_single. cbn [step]. unfold canon. rewrite H2, H3, H4.
  destruct (before_value s) as [sv|] eqn:Ebv; cbn [bind]; [|exact I].
  rewrite (engine_begin_num c t k _ _ Hk). cbn [canon_body]. rewrite H2, H3, H4, Hk.
  destruct (num_header c k) as [hd|]; cbn [bind]; [|exact I].
  set (sB := emit_nolf hd (upd_en (eng_begin (KNum k) CEnd ONone) sv)).
  set (ds := if n =? 0 then [] else [d]).
  assert (Hrun : bind (begin_chunk n false sB) (fun s0 => if 0 <? n then add_data c d s0 else Some s0)
                 = run c sB (chunks_events [(n, false, ds)])).
  { unfold chunks_events. cbn [flat_map]. rewrite app_nil_r, run_chunk_events. apply bind_ext. intro x. unfold ds.
    destruct (N.eqb_spec n 0) as [->|Hz]; [reflexivity|].
    assert (E : 0 <? n = true) by (apply N.ltb_lt; lia). rewrite E. cbn. symmetry. apply bind_ret. }
  rewrite Hrun.
  assert (Hwf : chunks_wf (KNum k) [(n, false, ds)]).
  { cbn. repeat split; try assumption; try reflexivity; unfold ds.
    - intros ->. reflexivity.
    - destruct (N.eqb_spec n 0); [lia | discriminate].
    - destruct (N.eqb_spec n 0); [lia|]. cbn. pose proof (nk_width_pos k). destruct d; [cbn in Hlen; nia | discriminate].
    - destruct (N.eqb_spec n 0); [lia|]. cbn. rewrite app_nil_r. exact Hlen. }
  pose proof (num_chunks c k ONone hd sv [(n, false, ds)] Hwf) as HC. cbv zeta in HC. fold sB in HC.
  assert (HD : flat_map chunk_payload [(n, false, ds)] = d).
  { cbn. rewrite app_nil_r. unfold ds. destruct (N.eqb_spec n 0) as [->|]; cbn; [destruct d; [reflexivity | discriminate] | apply app_nil_r]. }
  rewrite HD in HC.
  destruct (elems_pieces c k false _) as [ps|].
  - destruct HC as (E' & -> & Hc & Ho). rewrite end_array_end_none by assumption. cbn [bind].
    apply congO_after_value. apply R_num_result0.
  - rewrite HC. exact I.
Qed.

(* ---- bit arrays ---- *)

Lemma inv_pstep_bit s ch s' : inv_kind KBit s -> pstep_bit s ch = Some s' -> inv_kind KBit s'.
Proof. unfold inv_kind, pstep_bit. intros Ek [= <-]. cbn [en set_en emit_nolf emit_cd]. destruct (en s); exact Ek. Qed.

Lemma bit_chunks c o x cs :
  chunks_wf KBit cs ->
  let sB := emit_nolf t_bithdr (upd_en (eng_begin KBit CEnd o) x) in
  exists E', run c sB (chunks_events cs) = end_array (set_en E' (emit_nolf (bits_text (flat_map chunk_bits cs)) sB)) /\
             ecomp E' = CEnd /\ eouter E' = o.
Proof.
  intros Hwf sB. assert (Hi : inv_kind KBit sB) by reflexivity.
  rewrite (run_chunks c KBit (inv_kind KBit) pstep_bit
             (fun s ch => chunk_bit c s ch) (fun s ch s' Hs _ Hp => inv_pstep_bit s ch s' Hs Hp) cs sB Hi Hwf).
  destruct (psteps_bit cs sB) as (E' & Hp & Hc & Ho). rewrite Hp. cbn [bind]. exists E'. auto.
Qed.

Lemma R_bit_result E' bt F d sv :
  R (set_stack (stack sv) (emit_nolf [93] (set_en E' (emit_nolf bt (emit_nolf t_bithdr (upd_en F (push d sv)))))))
    (emit_nolf [93] (emit_nolf bt (emit_nolf t_bithdr sv))).
Proof. apply R_intro; reflexivity. Qed.

Lemma R_bit_result0 E' bt F sv :
  R (emit_nolf [93] (set_en E' (emit_nolf bt (emit_nolf t_bithdr (upd_en F sv)))))
    (emit_nolf [93] (emit_nolf bt (emit_nolf t_bithdr sv))).
Proof. apply R_intro; reflexivity. Qed.

Lemma group_bit_chunked c cs s :
  chunks_wf KBit cs ->
  oeq (run c s (EArrayBegin AT_Bit :: chunks_events cs)) (canon c (HArr AT_Bit) (ABits (flat_map chunk_bits cs)) s).
Proof.
  intro Hwf. cbn [run step]. unfold canon, ctx_begin_array.
  change (is_string_type AT_Bit) with false. cbv iota.
  destruct (before_value s) as [sv|] eqn:Ebv; cbn [bind]; [|exact I].
  destruct (before_value_facts s sv Ebv) as (Hst & Hne & _).
  change (engine_begin_array c AT_Bit OUnstackAfter (push DNSArray sv))
    with (Some (emit_nolf t_bithdr (upd_en (eng_begin KBit CEnd OUnstackAfter) (push DNSArray sv)))).
  cbn [bind canon_body]. change (AT_Bit =? AT_Bit) with true. cbv iota.
  destruct (bit_chunks c OUnstackAfter (push DNSArray sv) cs Hwf) as (E' & -> & Hc & Ho).
  rewrite end_array_end_unstack by assumption.
  change (unstack (emit_nolf [93] (set_en E' (emit_nolf (bits_text (flat_map chunk_bits cs))
            (emit_nolf t_bithdr (upd_en (eng_begin KBit CEnd OUnstackAfter) (push DNSArray sv)))))))
    with (match stack sv with _ :: _ => Some (set_stack (stack sv) (emit_nolf [93] (set_en E' (emit_nolf (bits_text (flat_map chunk_bits cs))
            (emit_nolf t_bithdr (upd_en (eng_begin KBit CEnd OUnstackAfter) (push DNSArray sv))))))) | [] => None end).
  rewrite Hst. destruct (stack s) as [|d0 st0] eqn:Es; [congruence|]. rewrite <- Hst. cbn [bind].
  apply congO_after_value. apply R_bit_result.
Qed.

Lemma group_bit_whole c n d s :
  n < 2 ^ 64 -> length d = N.to_nat ((n + 7) / 8) ->
  oeq (run c s [EArray AT_Bit n d]) (canon c (HArr AT_Bit) (ABits (firstn (N.to_nat n) (bytes_bits d))) s).
Proof.
  intros Hn Hlen. rewrite run_single. cbn [step]. unfold canon.
  change (AT_Bit =? AT_String) with false. change (AT_Bit =? AT_ResourceID) with false. change (AT_Bit =? AT_ReferenceRemote) with false.
  cbv iota.
  destruct (before_value s) as [sv|] eqn:Ebv; cbn [bind]; [|exact I].
  change (engine_begin_array c AT_Bit ONone sv) with (Some (emit_nolf t_bithdr (upd_en (eng_begin KBit CEnd ONone) sv))).
  cbn [bind canon_body]. change (AT_Bit =? AT_Bit) with true. cbv iota.
  set (sB := emit_nolf t_bithdr (upd_en (eng_begin KBit CEnd ONone) sv)).
  set (ds := if n =? 0 then [] else [d]).
  assert (Hrun : bind (begin_chunk n false sB) (fun s0 => if 0 <? n then add_data c d s0 else Some s0)
                 = run c sB (chunks_events [(n, false, ds)])).
  { unfold chunks_events. cbn [flat_map]. rewrite app_nil_r, run_chunk_events. apply bind_ext. intro x. unfold ds.
    destruct (N.eqb_spec n 0) as [->|Hz]; [reflexivity|].
    assert (E : 0 <? n = true) by (apply N.ltb_lt; lia). rewrite E. cbn. symmetry. apply bind_ret. }
  rewrite Hrun.
  pose proof (ceil8_bounds n) as [B1 B2].
  assert (Hwf : chunks_wf KBit [(n, false, ds)]).
  { cbn. repeat split; try assumption; try reflexivity; unfold ds.
    - intros ->. reflexivity.
    - destruct (N.eqb_spec n 0); [lia | discriminate].
    - destruct (N.eqb_spec n 0); [lia|]. cbn. destruct d; [cbn in Hlen; lia | discriminate].
    - destruct (N.eqb_spec n 0); [lia|]. cbn. rewrite app_nil_r. exact Hlen. }
  destruct (bit_chunks c ONone sv [(n, false, ds)] Hwf) as (E' & HR & Hc & Ho). fold sB in HR. rewrite HR.
  rewrite end_array_end_none by assumption. cbn [bind].
  assert (HD : flat_map chunk_bits [(n, false, ds)] = firstn (N.to_nat n) (bytes_bits d)).
  { cbn. rewrite app_nil_r. unfold ds. destruct (N.eqb_spec n 0) as [->|]; cbn; [reflexivity | rewrite app_nil_r; reflexivity]. }
  rewrite HD. apply congO_after_value. apply R_bit_result0.
Qed.

(* ---- string-like arrays, chunked ---- *)

Lemma inv_pstep_str s ch s' : inv_kind KStr s -> pstep_str s ch = Some s' -> inv_kind KStr s'.
Proof. unfold inv_kind, pstep_str. intros Ek [= <-]. cbn [en set_en]. destruct (en s); exact Ek. Qed.

Lemma str_chunks c sB cs :
  chunks_wf KStr cs -> inv_kind KStr sB ->
  exists E', run c sB (chunks_events cs) = end_array (set_en E' sB) /\
             ebuf E' = ebuf (en sB) ++ flat_map chunk_payload cs /\ ecomp E' = ecomp (en sB) /\ eouter E' = eouter (en sB).
Proof.
  intros Hwf Hi.
  rewrite (run_chunks c KStr (inv_kind KStr) pstep_str
             (fun s ch => chunk_str c s ch) (fun s ch s' Hs _ Hp => inv_pstep_str s ch s' Hs Hp) cs sB Hi Hwf).
  destruct (psteps_str cs sB) as (E' & Hp & Hb & Hc & Ho & _). rewrite Hp. cbn [bind]. exists E'. auto.
Qed.

(* after the header [pre] of a string-like array (possibly empty) *)
Lemma group_str_tail c lf cs sB X D :
  chunks_wf KStr cs -> inv_kind KStr sB -> ebuf (en sB) = [] -> ecomp (en sB) = CQuoted lf -> eouter (en sB) = OAfter ->
  R sB X -> D = flat_map chunk_payload cs ->
  oeq (run c sB (chunks_events cs)) (after_value (write_quoted lf D X)).
Proof.
  intros Hwf Hi Hb Hc Ho HR ->.
  destruct (str_chunks c sB cs Hwf Hi) as (E' & -> & Hb' & Hc' & Ho').
  rewrite (end_array_quoted_after _ lf) by (cbn [en set_en]; congruence).
  cbn [en set_en]. rewrite Hb', Hb. cbn [app].
  apply congO_after_value. apply cong_write_quoted. eapply R_trans; [apply R_set_en | exact HR].
Qed.

Lemma group_text_chunked c t cs s :
  is_text_type t = true -> chunks_wf KStr cs ->
  oeq (run c s (EArrayBegin t :: chunks_events cs)) (canon c (HArr t) (ABytes (flat_map chunk_payload cs)) s).
Proof.
  intros Ht Hwf. cbn [run step]. unfold canon, ctx_begin_array.
  destruct (before_value s) as [sv|] eqn:Ebv; cbn [bind]; [|exact I].
  destruct (text_type_cases t Ht) as [->|[->| ->]].
  - change (is_string_type AT_String) with true. cbv iota.
    change (engine_begin_array c AT_String OAfter sv) with (Some (upd_en (eng_begin KStr (CQuoted true) OAfter) sv)).
    cbn [bind canon_body]. change (AT_String =? AT_String) with true. cbv iota. cbn [bind].
    apply (group_str_tail c true cs); try reflexivity; try assumption; try apply R_set_en.
  - change (is_string_type AT_ResourceID) with true. cbv iota.
    change (engine_begin_array c AT_ResourceID OAfter sv) with (Some (emit_nolf [64] (upd_en (eng_begin KStr (CQuoted false) OAfter) sv))).
    cbn [bind canon_body]. change (AT_ResourceID =? AT_String) with false. change (AT_ResourceID =? AT_ResourceID) with true. cbv iota. cbn [bind].
    apply (group_str_tail c false cs); try reflexivity; try assumption; try (apply R_intro; reflexivity).
  - change (is_string_type AT_ReferenceRemote) with true. cbv iota.
    change (engine_begin_array c AT_ReferenceRemote OAfter sv) with (Some (emit_nolf [36] (upd_en (eng_begin KStr (CQuoted false) OAfter) sv))).
    cbn [bind canon_body]. change (AT_ReferenceRemote =? AT_String) with false. change (AT_ReferenceRemote =? AT_ResourceID) with false.
    change (AT_ReferenceRemote =? AT_ReferenceRemote) with true. cbv iota. cbn [bind].
    apply (group_str_tail c false cs); try reflexivity; try assumption; try (apply R_intro; reflexivity).
Qed.

Lemma group_custom_text_chunked c ct cs s :
  chunks_wf KStr cs ->
  oeq (run c s (ECustomBegin AT_CustomText ct :: chunks_events cs)) (canon c (HCustom AT_CustomText ct) (ABytes (flat_map chunk_payload cs)) s).
Proof.
  intro Hwf. cbn [run step]. unfold canon.
  destruct (before_value s) as [sv|] eqn:Ebv; cbn [bind]; [|exact I].
  change (AT_CustomText =? AT_CustomBinary) with false. change (AT_CustomText =? AT_CustomText) with true. cbv iota.
  cbn [bind canon_body]. change (AT_CustomText =? AT_CustomBinary) with false. change (AT_CustomText =? AT_CustomText) with true. cbv iota. cbn [bind].
  apply (group_str_tail c true cs); try reflexivity; try assumption; try (apply R_intro; reflexivity).
Qed.

(* ---- media and custom binary, chunked ---- *)

Lemma hex_chunks c sB cs :
  chunks_wf KHex cs -> inv_kind KHex sB -> ehw (en sB) = false ->
  exists E' dz, run c sB (chunks_events cs) = end_array (set_en E' (emit_cd (hexbytes (flat_map chunk_payload cs)) dz sB)) /\
                ecomp E' = ecomp (en sB) /\ eouter E' = eouter (en sB).
Proof.
  intros Hwf Hi Hhw.
  rewrite (run_chunks c KHex (inv_kind KHex) pstep_hex
             (fun s ch => chunk_hex c s ch) (fun s ch s' Hs _ Hp => inv_pstep_hex s ch s' Hs Hp) cs sB Hi Hwf).
  destruct (psteps_hex cs sB (chunks_wf_forall _ _ Hwf)) as (E' & dz & Hp & Hc & Ho). cbv zeta in Hp.
  rewrite Hp, Hhw. cbn [andb app bind]. exists E', dz. auto.
Qed.

Lemma group_hex_tail c hdr cs sv :
  chunks_wf KHex cs -> stack sv <> [] ->
  oeq (run c (emit_nolf hdr (upd_en (eng_begin KHex CEnd OUnstackAfter) (set_dirty (push DNSArray sv)))) (chunks_events cs))
      (after_value (emit_nolf [93] (emit_raw (hexbytes (flat_map chunk_payload cs)) (emit_nolf hdr (set_dirty sv))))).
Proof.
  intros Hwf Hne.
  set (sB := emit_nolf hdr _).
  destruct (hex_chunks c sB cs Hwf) as (E' & dz & -> & Hc & Ho); try reflexivity.
  rewrite end_array_end_unstack by (cbn [en set_en]; assumption).
  change (unstack (emit_nolf [93] (set_en E' (emit_cd (hexbytes (flat_map chunk_payload cs)) dz sB))))
    with (match stack sv with _ :: _ => Some (set_stack (stack sv) (emit_nolf [93] (set_en E' (emit_cd (hexbytes (flat_map chunk_payload cs)) dz sB)))) | [] => None end).
  destruct (stack sv) as [|d0 st0] eqn:Es; [congruence|]. rewrite <- Es. cbn [bind].
  apply congO_after_value. apply R_intro_dirty; reflexivity.
Qed.

Lemma group_media_chunked c mt cs s :
  chunks_wf KHex cs ->
  oeq (run c s (EMediaBegin mt :: chunks_events cs)) (canon c (HMedia mt) (ABytes (flat_map chunk_payload cs)) s).
Proof.
  intro Hwf. cbn [run step]. unfold canon.
  destruct (before_value s) as [sv|] eqn:Ebv; cbn [bind]; [|exact I].
  destruct (before_value_facts s sv Ebv) as (Hst & Hne & _). cbn [canon_body bind].
  apply group_hex_tail; [exact Hwf | congruence].
Qed.

Lemma group_custom_bin_chunked c ct cs s :
  chunks_wf KHex cs ->
  oeq (run c s (ECustomBegin AT_CustomBinary ct :: chunks_events cs)) (canon c (HCustom AT_CustomBinary ct) (ABytes (flat_map chunk_payload cs)) s).
Proof.
  intro Hwf. cbn [run step]. unfold canon.
  destruct (before_value s) as [sv|] eqn:Ebv; cbn [bind]; [|exact I].
  destruct (before_value_facts s sv Ebv) as (Hst & Hne & _).
  change (AT_CustomBinary =? AT_CustomBinary) with true. cbv iota. cbn [canon_body bind].
  change (AT_CustomBinary =? AT_CustomBinary) with true. cbv iota. cbn [bind].
  apply group_hex_tail; [exact Hwf | congruence].
Qed.

(* ------------------------------------------------------------------ *)
(** * Every delivery of an array has the canonical effect *)

Theorem delivery_canon c h d g : delivery h d g -> forall s, oeq (run c s g) (canon c h d s).
Proof.
  intros Hd s. destruct Hd as [h k cs Hk Hwf | t k n d Hk Hn Hlen | n d Hn Hlen | t n d Ht | t d Ht | mt d | ct d | ct d].
  - destruct h as [t|mt|t ct]; cbn [hkind begin_event] in *.
    + destruct (t =? AT_Bit) eqn:Eb.
      * apply N.eqb_eq in Eb. subst t. injection Hk as Hk; subst k. apply group_bit_chunked, Hwf.
      * destruct (is_text_type t) eqn:Et.
        -- injection Hk as Hk; subst k. apply group_text_chunked; assumption.
        -- destruct (nkind_of t) as [k'|] eqn:En; [|discriminate]. injection Hk as Hk; subst k.
           apply (group_num_chunked c t k'); assumption.
    + injection Hk as Hk; subst k. apply group_media_chunked, Hwf.
    + destruct (t =? AT_CustomBinary) eqn:Eb.
      * apply N.eqb_eq in Eb. subst t. injection Hk as Hk; subst k. apply group_custom_bin_chunked, Hwf.
      * destruct (t =? AT_CustomText) eqn:Et; [|discriminate].
        apply N.eqb_eq in Et. subst t. injection Hk as Hk; subst k. apply group_custom_text_chunked, Hwf.
  - apply (group_num_whole c t k); assumption.
  - apply group_bit_whole; assumption.
  - apply group_array_text, Ht.
  - apply group_string_array, Ht.
  - apply group_media.
  - apply group_custom_bin.
  - apply group_custom_text.
Qed.

(* ------------------------------------------------------------------ *)
(** * The text does not depend on the delivery *)

Lemma sim_run c es1 es2 : chunk_equiv es1 es2 ->
  forall s1 s2 s1', R s1 s2 -> run c s1 es1 = Some s1' -> bad s1' = false ->
  exists s2', run c s2 es2 = Some s2' /\ R s1' s2'.
Proof.
  induction 1 as [| e a b Hp Heq IH | h d g1 g2 a b Hd1 Hd2 Heq IH]; intros s1 s2 s1' HR Hrun Hb.
  - injection Hrun as <-. exists s2. split; [reflexivity | exact HR].
  - cbn [run] in Hrun |- *. destruct (step c s1 e) as [m1|] eqn:Es1; cbn [bind] in Hrun; [|discriminate].
    pose proof (run_bad_false c a m1 s1' Hrun Hb) as Hbm.
    pose proof (good_step_plain c e Hp s1 s2 HR) as Hg. cbv beta in Hg. rewrite Es1 in Hg. cbn in Hg.
    destruct Hg as [Hbad | (m2 & Es2 & HRm)]; [congruence|].
    rewrite Es2. cbn [bind]. apply (IH m1 m2 s1' HRm Hrun Hb).
  - rewrite run_app in Hrun |- *.
    destruct (run c s1 g1) as [m1|] eqn:Eg1; cbn [bind] in Hrun; [|discriminate].
    pose proof (run_bad_false c a m1 s1' Hrun Hb) as Hbm.
    pose proof (delivery_canon c h d g1 Hd1 s1) as H1. rewrite Eg1 in H1.
    destruct (canon c h d s1) as [m1c|] eqn:Ec1; cbn in H1; [|contradiction].
    pose proof (good_canon c h d s1 s2 HR) as Hg. rewrite Ec1 in Hg. cbn in Hg.
    destruct Hg as [Hbad | (m2c & Ec2 & HRc)].
    { rewrite <- (R_bad _ _ H1) in Hbad. congruence. }
    pose proof (delivery_canon c h d g2 Hd2 s2) as H2. rewrite Ec2 in H2.
    destruct (run c s2 g2) as [m2|] eqn:Eg2; cbn in H2; [|contradiction].
    cbn [bind]. apply (IH m1 m2 s1'); [|exact Hrun | exact Hb].
    eapply R_trans; [exact H1|]. eapply R_trans; [exact HRc|]. apply R_sym, H2.
Qed.

Lemma chunk_equiv_sym a b : chunk_equiv a b -> chunk_equiv b a.
Proof. induction 1; econstructor; eauto. Qed.

Lemma chunk_equiv_refl_plain es : forallb plain_event es = true -> chunk_equiv es es.
Proof.
  induction es as [|e es IH]; cbn; intro H; [constructor|].
  apply andb_true_iff in H. destruct H. constructor; auto.
Qed.

Lemma R_out a b : R a b -> out_of a = out_of b.
Proof. intro H. unfold out_of. rewrite (R_rout _ _ H). reflexivity. Qed.

Lemma encode_dir c es1 es2 t :
  chunk_equiv es1 es2 -> col_clean c es1 = true -> cte_encode c es1 = Some t -> cte_encode c es2 = Some t.
Proof.
  unfold cte_encode, col_clean. intros Heq Hc He.
  destruct (run c est0 es1) as [s1'|] eqn:E1; [|discriminate]. injection He as <-.
  apply negb_true_iff in Hc.
  destruct (sim_run c es1 es2 Heq est0 est0 s1' (R_refl _) E1 Hc) as (s2' & E2 & HR).
  rewrite E2. f_equal. symmetry. apply R_out, HR.
Qed.

(* Two streams that differ only in how arrays are delivered give the same text
   (or both make the encoder panic), provided neither run reads Column while it
   depends on the split of a media / custom-binary array. *)
Theorem cte_text_chunk_invariant c es1 es2 :
  chunk_equiv es1 es2 -> col_clean c es1 = true -> col_clean c es2 = true ->
  cte_encode c es1 = cte_encode c es2.
Proof.
  intros Heq H1 H2.
  destruct (cte_encode c es1) as [t1|] eqn:E1.
  - symmetry. apply (encode_dir c es1 es2 t1 Heq H1 E1).
  - destruct (cte_encode c es2) as [t2|] eqn:E2; [|reflexivity].
    rewrite (encode_dir c es2 es1 t2 (chunk_equiv_sym _ _ Heq) H2 E2) in E1. discriminate.
Qed.

(* [col_clean] is itself invariant *)
Lemma col_clean_dir c es1 es2 :
  chunk_equiv es1 es2 -> col_clean c es1 = true -> run c est0 es1 <> None -> col_clean c es2 = true.
Proof.
  unfold col_clean. intros Heq Hc Hn.
  destruct (run c est0 es1) as [s1'|] eqn:E1; [|congruence].
  apply negb_true_iff in Hc.
  destruct (sim_run c es1 es2 Heq est0 est0 s1' (R_refl _) E1 Hc) as (s2' & E2 & HR).
  rewrite E2. rewrite <- (R_bad _ _ HR), Hc. reflexivity.
Qed.

(* ------------------------------------------------------------------ *)
(** * The chunk-invariance half of the property, and the inputs that used to refute it *)

Definition chunk_invariance : Prop :=
  forall c es1 es2, chunk_equiv es1 es2 -> col_clean c es1 = true -> col_clean c es2 = true ->
                    cte_encode c es1 = cte_encode c es2.

Lemma chunk_invariance_holds : chunk_invariance.
Proof. intros c es1 es2. apply cte_text_chunk_invariant. Qed.

Definition w_media : bytes := [97; 47; 98].   (* a/b *)
(* before the fix of the media / custom-binary element writer these pairs gave
   "@a/b[42]" vs "@a/b[ 42]" and "@3[35 20]" vs "@3[35  20]" *)
Definition w_hex_1 : list event :=
  [EBeginDoc; EVersion 0; EMediaBegin w_media; EArrayChunk 1 false; EArrayData [66]; EEndDoc].
Definition w_hex_2 : list event :=
  [EBeginDoc; EVersion 0; EMediaBegin w_media; EArrayChunk 1 false; EArrayData []; EArrayData [66]; EEndDoc].
Definition w_cbin_1 : list event :=
  [EBeginDoc; EVersion 0; ECustomBin 3 [53; 32]; EEndDoc].
Definition w_cbin_2 : list event :=
  [EBeginDoc; EVersion 0; ECustomBegin AT_CustomBinary 3; EArrayChunk 2 false; EArrayData [53]; EArrayData []; EArrayData [32]; EEndDoc].

Ltac wf_chunk := cbn; repeat split; intros; try discriminate; try reflexivity; try lia; try (repeat constructor; discriminate).

Lemma w_hex_equiv : chunk_equiv w_hex_1 w_hex_2.
Proof.
  unfold w_hex_1, w_hex_2. do 2 (apply ce_plain; [reflexivity|]).
  apply (ce_array (HMedia w_media) (ABytes [66])
           (EMediaBegin w_media :: chunks_events [(1, false, [[66]])])
           (EMediaBegin w_media :: chunks_events [(1, false, [[]; [66]])]) [EEndDoc] [EEndDoc]).
  - apply (dl_chunked (HMedia w_media) KHex [(1, false, [[66]])]); [reflexivity | wf_chunk].
  - apply (dl_chunked (HMedia w_media) KHex [(1, false, [[]; [66]])]); [reflexivity | wf_chunk].
  - apply ce_plain; [reflexivity | constructor].
Qed.

Lemma w_cbin_equiv : chunk_equiv w_cbin_1 w_cbin_2.
Proof.
  unfold w_cbin_1, w_cbin_2. do 2 (apply ce_plain; [reflexivity|]).
  apply (ce_array (HCustom AT_CustomBinary 3) (ABytes [53; 32])
           [ECustomBin 3 [53; 32]]
           (ECustomBegin AT_CustomBinary 3 :: chunks_events [(2, false, [[53]; []; [32]])]) [EEndDoc] [EEndDoc]).
  - apply dl_custom_bin.
  - apply (dl_chunked (HCustom AT_CustomBinary 3) KHex [(2, false, [[53]; []; [32]])]); [reflexivity | wf_chunk].
  - apply ce_plain; [reflexivity | constructor].
Qed.

Lemma w_repaired_texts :
  cte_encode default_ccfg w_hex_1 = Some [99; 48; 10; 64; 97; 47; 98; 91; 52; 50; 93] /\          (* c0\n@a/b[42] *)
  cte_encode default_ccfg w_hex_2 = Some [99; 48; 10; 64; 97; 47; 98; 91; 52; 50; 93] /\
  cte_encode default_ccfg w_cbin_1 = Some [99; 48; 10; 64; 51; 91; 51; 53; 32; 50; 48; 93] /\      (* c0\n@3[35 20] *)
  cte_encode default_ccfg w_cbin_2 = Some [99; 48; 10; 64; 51; 91; 51; 53; 32; 50; 48; 93].
Proof. vm_compute. repeat split. Qed.

(* ------------------------------------------------------------------ *)
(** * The hypotheses are satisfiable: a worked instance *)

(* a list holding a u16 array, a string with a two-byte character and a bit array;
   delivered whole, and delivered in chunks with elements, the character and
   the bits split between data events *)
Definition ex_whole : list event :=
  [EBeginDoc; EVersion 0; EList;
   EArray AT_Uint16 3 [1; 0; 2; 0; 255; 255];
   EStringArray AT_String [97; 195; 169; 34];
   EArray AT_Bit 11 [5; 3];
   EMedia w_media [1; 2; 3];
   EEnd; EEndDoc].

Definition ex_chunked : list event :=
  [EBeginDoc; EVersion 0; EList;
   EArrayBegin AT_Uint16; EArrayChunk 2 true; EArrayData [1]; EArrayData [0; 2]; EArrayData [];  EArrayData [0];
                          EArrayChunk 0 true; EArrayChunk 1 false; EArrayData [255]; EArrayData [255];
   EArrayBegin AT_String; EArrayChunk 4 false; EArrayData [97; 195]; EArrayData [169; 34];
   EArrayBegin AT_Bit; EArrayChunk 3 true; EArrayData [5]; EArrayChunk 8 false; EArrayData [96];
   EMediaBegin w_media; EArrayChunk 1 true; EArrayData [1]; EArrayChunk 2 false; EArrayData [2]; EArrayData []; EArrayData [3];
   EEnd; EEndDoc].

Lemma ex_equiv : chunk_equiv ex_whole ex_chunked.
Proof.
  unfold ex_whole, ex_chunked. do 3 (apply ce_plain; [reflexivity|]).
  apply (ce_array (HArr AT_Uint16) (ABytes [1; 0; 2; 0; 255; 255]) [EArray AT_Uint16 3 [1; 0; 2; 0; 255; 255]]
           (EArrayBegin AT_Uint16 :: chunks_events [(2, true, [[1]; [0; 2]; []; [0]]); (0, true, []); (1, false, [[255]; [255]])])).
  { apply (dl_array_num AT_Uint16 NU16); [reflexivity | lia | reflexivity]. }
  { apply (dl_chunked (HArr AT_Uint16) (KNum NU16) [(2, true, [[1]; [0; 2]; []; [0]]); (0, true, []); (1, false, [[255]; [255]])]); [reflexivity | wf_chunk]. }
  apply (ce_array (HArr AT_String) (ABytes [97; 195; 169; 34]) [EStringArray AT_String [97; 195; 169; 34]]
           (EArrayBegin AT_String :: chunks_events [(4, false, [[97; 195]; [169; 34]])])).
  { apply dl_string_array. reflexivity. }
  { apply (dl_chunked (HArr AT_String) KStr [(4, false, [[97; 195]; [169; 34]])]); [reflexivity | wf_chunk]. }
  apply (ce_array (HArr AT_Bit) (ABits [true; false; true; false; false; false; false; false; true; true; false]) [EArray AT_Bit 11 [5; 3]]
           (EArrayBegin AT_Bit :: chunks_events [(3, true, [[5]]); (8, false, [[96]])])).
  { apply (dl_array_bit 11 [5; 3]); [lia | reflexivity]. }
  { apply (dl_chunked (HArr AT_Bit) KBit [(3, true, [[5]]); (8, false, [[96]])]); [reflexivity | wf_chunk]. }
  apply (ce_array (HMedia w_media) (ABytes [1; 2; 3]) [EMedia w_media [1; 2; 3]]
           (EMediaBegin w_media :: chunks_events [(1, true, [[1]]); (2, false, [[2]; []; [3]])])).
  { apply dl_media. }
  { apply (dl_chunked (HMedia w_media) KHex [(1, true, [[1]]); (2, false, [[2]; []; [3]])]); [reflexivity | wf_chunk]. }
  do 2 (apply ce_plain; [reflexivity|]). constructor.
Qed.

Lemma ex_clean : col_clean default_ccfg ex_whole = true /\ col_clean default_ccfg ex_chunked = true.
Proof. vm_compute. split; reflexivity. Qed.

Lemma ex_text : cte_encode default_ccfg ex_chunked = cte_encode default_ccfg ex_whole /\ cte_encode default_ccfg ex_whole <> None.
Proof. vm_compute. split; [reflexivity | discriminate]. Qed.

(* ------------------------------------------------------------------ *)
(** * The checkable description is sound *)

Lemma nonemptyb_true {A} (l : list A) : nonemptyb l = true -> l <> [].
Proof. destruct l; [discriminate | discriminate]. Qed.

Lemma chunk_wfb_sound k c : chunk_wfb k c = true -> chunk_wf k c.
Proof.
  destruct c as [[n m] ds]. unfold chunk_wfb, chunk_wf. intro H.
  apply andb_true_iff in H. destruct H as [Hn Hb].
  apply N.ltb_lt in Hn. split; [exact Hn|]. destruct (N.eqb_spec n 0) as [->|Hnz].
  - assert (ds = []) by (destruct ds; [reflexivity | discriminate]). subst ds.
    split; [reflexivity|]. intro; lia.
  - apply andb_true_iff in Hb. destruct Hb as [Hb Hlen]. apply andb_true_iff in Hb. destruct Hb as [Hne Hlast].
    split; [intro; congruence|].
    intros _. split; [apply nonemptyb_true, Hne|]. split; [apply nonemptyb_true, Hlast | apply Nat.eqb_eq, Hlen].
Qed.

Lemma chunks_wfb_sound k cs : chunks_wfb k cs = true -> chunks_wf k cs.
Proof.
  induction cs as [|c r IH]; [discriminate|]. cbn [chunks_wfb chunks_wf]. intro H.
  apply andb_true_iff in H. destruct H as [Hc Hr]. split; [apply chunk_wfb_sound, Hc|].
  destruct r as [|c2 r].
  - apply negb_true_iff in Hr. exact Hr.
  - apply andb_true_iff in Hr. destruct Hr as [Hm Hr]. split; [exact Hm | apply IH, Hr].
Qed.

Lemma adata_eqb_eq a b : adata_eqb a b = true -> a = b.
Proof.
  destruct a, b; cbn; try discriminate; intro H.
  - apply bytes_eqb_eq in H. congruence.
  - f_equal. revert l0 H. induction l as [|x l IH]; intros [|y l0] H; cbn in H; try discriminate; [reflexivity|].
    apply andb_true_iff in H. destruct H as [H1 H2]. apply Bool.eqb_prop in H1. subst. f_equal. apply IH, H2.
Qed.

Lemma dform_data_sound h f d : dform_data h f = Some d -> delivery h d (dform_events h f).
Proof.
  destruct f as [e|cs]; cbn [dform_data dform_events].
  - destruct h as [t|mt|t ct], e; try discriminate.
    + (* EArray *)
      destruct (N.eqb_spec t t0) as [<-|]; cbn [negb]; [|discriminate].
      destruct (N.eqb_spec t AT_Bit) as [->|Hb].
      * destruct ((count <? 2 ^ 64) && (length data =? N.to_nat ((count + 7) / 8))%nat) eqn:E; [|discriminate].
        intros [= <-]. apply andb_true_iff in E. destruct E as [E1 E2]. apply N.ltb_lt in E1. apply Nat.eqb_eq in E2.
        apply dl_array_bit; assumption.
      * destruct (is_text_type t) eqn:Et; [intros [= <-]; apply dl_array_text, Et|].
        destruct (nkind_of t) as [k|] eqn:Ek; [|discriminate].
        destruct ((count <? 2 ^ 64) && (length data =? N.to_nat count * nk_width k)%nat) eqn:E; [|discriminate].
        intros [= <-]. apply andb_true_iff in E. destruct E as [E1 E2]. apply N.ltb_lt in E1. apply Nat.eqb_eq in E2.
        apply (dl_array_num t k); assumption.
    + (* EStringArray *)
      destruct ((t =? t0) && is_text_type t) eqn:E; [|discriminate]. intros [= <-].
      apply andb_true_iff in E. destruct E as [E1 E2]. apply N.eqb_eq in E1. subst t0. apply dl_string_array, E2.
    + (* EMedia *)
      destruct (bytes_eqb mt mediatype) eqn:E; [|discriminate]. intros [= <-]. apply bytes_eqb_eq in E. subst. apply dl_media.
    + (* ECustomBin *)
      destruct ((t =? AT_CustomBinary) && (ct =? ct0)) eqn:E; [|discriminate]. intros [= <-].
      apply andb_true_iff in E. destruct E as [E1 E2]. apply N.eqb_eq in E1, E2. subst. apply dl_custom_bin.
    + (* ECustomText *)
      destruct ((t =? AT_CustomText) && (ct =? ct0)) eqn:E; [|discriminate]. intros [= <-].
      apply andb_true_iff in E. destruct E as [E1 E2]. apply N.eqb_eq in E1, E2. subst. apply dl_custom_text.
  - destruct (hkind h) as [k|] eqn:Ek; [|discriminate].
    destruct (chunks_wfb k cs) eqn:Ew; [|discriminate]. intros [= <-].
    apply dl_chunked; [exact Ek | apply chunks_wfb_sound, Ew].
Qed.

Theorem segs_equiv segs : forallb seg_okb segs = true -> chunk_equiv (segs_events true segs) (segs_events false segs).
Proof.
  induction segs as [|s r IH]; cbn [forallb]; intro H; [constructor|].
  apply andb_true_iff in H. destruct H as [Hs Hr]. specialize (IH Hr).
  unfold segs_events. cbn [flat_map]. fold (segs_events true r). fold (segs_events false r).
  destruct s as [e|h f1 f2]; cbn [seg_okb seg_events] in *.
  - apply ce_plain; assumption.
  - destruct (dform_data h f1) as [d1|] eqn:E1; [|discriminate].
    destruct (dform_data h f2) as [d2|] eqn:E2; [|discriminate].
    apply adata_eqb_eq in Hs. subst d2.
    apply (ce_array h d1); [apply dform_data_sound, E1 | apply dform_data_sound, E2 | exact IH].
Qed.

(* what a passing equivalence case establishes about the model *)
Corollary equiv_case_texts c segs :
  forallb seg_okb segs = true ->
  col_clean c (segs_events true segs) = true -> col_clean c (segs_events false segs) = true ->
  cte_encode c (segs_events true segs) = cte_encode c (segs_events false segs).
Proof. intros H. apply cte_text_chunk_invariant, segs_equiv, H. Qed.

(* ------------------------------------------------------------------ *)
(** * Streams without media / custom binary never depend on Column being exact *)

Definition clean (s : est) : Prop := dirty s = false /\ bad s = false.
Definition calmT (f : est -> est) : Prop := forall s, clean s -> clean (f s).
Definition calmO (f : est -> option est) : Prop := forall s s', clean s -> f s = Some s' -> clean s'.

(* the events whose processing sets [dirty] *)
Definition sets_dirty (e : event) : bool :=
  match e with
  | EMedia _ _ | ECustomBin _ _ | EMediaBegin _ => true
  | ECustomBegin t _ => t =? AT_CustomBinary
  | _ => false
  end.

Lemma calmO_T f : calmT f -> calmO (fun s => Some (f s)).
Proof. intros H s s' Hc [= <-]. apply H, Hc. Qed.
Lemma calm_bind f g : calmO f -> calmO g -> calmO (fun s => bind (f s) g).
Proof. intros Hf Hg s s' Hc E. destruct (f s) as [m|] eqn:Ef; cbn in E; [|discriminate]. eapply Hg; [eapply Hf; eauto | exact E]. Qed.
Lemma calmT_comp f g : calmT f -> calmT g -> calmT (fun s => g (f s)).
Proof. intros Hf Hg s Hc. apply Hg, Hf, Hc. Qed.

Ltac calm_prim := let r := fresh in let c := fresh in let i := fresh in let st := fresh in let ch := fresh in let e := fresh in let d := fresh in let b := fresh in intros [r c i st ch e d b] [? ?]; cbn in *; subst; split; reflexivity.

Lemma calm_emit_cd bs d : calmT (emit_cd bs d). Proof. calm_prim. Qed.
Lemma calm_emit_nolf bs : calmT (emit_nolf bs). Proof. apply calm_emit_cd. Qed.
Lemma calm_emit_raw bs : calmT (emit_raw bs). Proof. apply calm_emit_cd. Qed.
Lemma calm_emit_setcol bs c : calmT (emit_setcol bs c). Proof. calm_prim. Qed.
Lemma calm_emit_plf bs : calmT (emit_plf bs).
Proof. unfold emit_plf. destruct (plf_col bs); [apply calm_emit_setcol | apply calm_emit_raw]. Qed.
Lemma calm_emit_rune lf r : calmT (emit_rune lf r).
Proof. unfold emit_rune. destruct (lf && (r =? 10)); [apply calm_emit_setcol | apply calm_emit_nolf]. Qed.
Lemma calm_set_stack st : calmT (set_stack st). Proof. calm_prim. Qed.
Lemma calm_set_ind i : calmT (set_ind i). Proof. calm_prim. Qed.
Lemma calm_set_cho b : calmT (set_cho b). Proof. calm_prim. Qed.
Lemma calm_upd_en f : calmT (upd_en f). Proof. calm_prim. Qed.
Lemma calm_push d : calmT (push d). Proof. calm_prim. Qed.
Lemma calm_note_read : calmT note_read. Proof. calm_prim. Qed.
Lemma calm_newline_indent : calmT newline_indent.
Proof. intros s Hc. unfold newline_indent. apply calm_emit_nolf, calm_emit_setcol, Hc. Qed.
Lemma calm_indent_if_origin : calmT indent_if_origin.
Proof.
  intros s Hc. unfold indent_if_origin. pose proof (calm_note_read s Hc) as H.
  destruct (at_origin (note_read s)); [apply calm_emit_nolf, H | exact H].
Qed.
Lemma calm_return_to_origin : calmT return_to_origin.
Proof.
  intros s Hc. unfold return_to_origin. pose proof (calm_note_read s Hc) as H.
  destruct (at_origin (note_read s)); [exact H | apply calm_emit_nolf, calm_emit_setcol, H].
Qed.
Lemma calm_fold {A} (F : est -> A -> est) (l : list A) : (forall x, calmT (fun s => F s x)) -> calmT (fun s => fold_left F l s).
Proof. intro H. induction l as [|x l IH]; intros s Hc; cbn; [exact Hc | apply IH, H, Hc]. Qed.
Lemma calm_write_quoted lf v : calmT (write_quoted lf v).
Proof.
  intros s Hc. unfold write_quoted. destruct v as [|b v]; [apply calm_emit_nolf, Hc|].
  destruct (forallb rune_safe (runes (b :: v))).
  - apply calm_emit_nolf. destruct lf; [apply calm_emit_plf | apply calm_emit_nolf]; apply calm_emit_nolf, Hc.
  - apply calm_emit_nolf. apply calm_fold; [|apply calm_emit_nolf, Hc].
    intros r s0 H0. destruct (rune_safe r); [apply calm_emit_rune | apply calm_emit_nolf]; exact H0.
Qed.
Lemma calm_space_if_hw : calmT space_if_hw.
Proof. intros s Hc. unfold space_if_hw. apply calm_upd_en. destruct (ehw (en s)); [apply calm_emit_nolf, Hc | exact Hc]. Qed.

Lemma calm_before_value : calmO before_value.
Proof.
  intros s s' Hc E. unfold before_value in E. destruct (stack s) as [|d st]; [discriminate|]. injection E as <-.
  destruct d; first [exact Hc | apply calm_newline_indent, Hc | apply calm_indent_if_origin, Hc].
Qed.
Lemma calm_before_comment : calmO before_comment.
Proof.
  intros s s' Hc E. unfold before_comment in E. destruct (stack s) as [|d st]; [discriminate|]. injection E as <-.
  destruct d; first [exact Hc | apply calm_newline_indent, Hc].
Qed.
Lemma calm_after_comment : calmO after_comment.
Proof.
  intros s s' Hc E. unfold after_comment in E. destruct (stack s) as [|d st]; [discriminate|]. injection E as <-.
  apply calm_set_cho. destruct d; first [exact Hc | apply calm_newline_indent, Hc | apply calm_return_to_origin, Hc].
Qed.
Lemma calm_after_value : calmO after_value.
Proof.
  intros s s' Hc E. unfold after_value in E. destruct (after_stack (stack s)) as [[st sep]|]; [|discriminate]. injection E as <-.
  apply calm_set_cho, calm_set_stack. destruct sep; [apply calm_emit_nolf, Hc | exact Hc].
Qed.
Lemma calm_unstack : calmO unstack.
Proof.
  intros s s' Hc E. unfold unstack in E. destruct (stack s) as [|d [|d' st]]; try discriminate. injection E as <-. apply calm_set_stack, Hc.
Qed.
Lemma calm_unindent : calmO unindent.
Proof. intros s s' Hc E. unfold unindent in E. destruct (ind s <? 4); [discriminate|]. injection E as <-. apply calm_set_ind, Hc. Qed.
Lemma calm_nl_if_cho s : clean s -> clean (if cho s then newline_indent s else s).
Proof. intro Hc. destruct (cho s); [apply calm_newline_indent, Hc | exact Hc]. Qed.
Lemma calm_close_container closer : calmO (close_container closer).
Proof.
  unfold close_container. apply calm_bind; [apply calm_unindent|].
  intros s s' Hc E. destruct (unstack _) as [m|] eqn:Eu; cbn [bind] in E; [|discriminate].
  eapply calm_after_value; [|exact E]. eapply calm_unstack; [|exact Eu]. apply calm_emit_nolf, calm_nl_if_cho, Hc.
Qed.
Lemma calm_end_container : calmO end_container.
Proof.
  intros s s' Hc E. unfold end_container in E. destruct (stack s) as [|d st]; [discriminate|].
  destruct d; first [discriminate E | injection E as <-; exact Hc | eapply calm_close_container; eassumption | idtac].
  destruct (unindent s) as [m|] eqn:Eu; cbn [bind] in E; [|discriminate].
  pose proof (calm_unindent s m Hc Eu) as Hm.
  destruct (unstack _) as [m2|] eqn:Eu2; cbn [bind] in E; [|discriminate]. injection E as <-.
  apply calm_newline_indent. eapply calm_unstack; [|exact Eu2]. apply calm_emit_nolf, calm_nl_if_cho, Hm.
Qed.
Lemma calm_open_container reset opener d : calmO (open_container reset opener d).
Proof.
  unfold open_container. apply calm_bind; [apply calm_before_value|].
  intros s s' Hc [= <-]. apply calm_push, calm_set_ind, calm_emit_nolf. destruct reset; [apply calm_set_cho, Hc | exact Hc].
Qed.
Lemma calm_scalar t d : calmO (scalar t d).
Proof.
  unfold scalar. apply calm_bind; [apply calm_before_value|].
  intros s s' Hc E. eapply calm_after_value; [|exact E]. apply calm_emit_cd, Hc.
Qed.
Lemma calm_outer s s' :
  clean s ->
  match eouter (en s) with ONone => Some s | OAfter => after_value s | OUnstackAfter => bind (unstack s) after_value end = Some s' ->
  clean s'.
Proof.
  intros Hc E. destruct (eouter (en s)).
  - injection E as <-. exact Hc.
  - eapply calm_after_value; eauto.
  - eapply (calm_bind unstack after_value calm_unstack calm_after_value); eauto.
Qed.
Lemma calm_end_array : calmO end_array.
Proof.
  intros s s' Hc E. unfold end_array in E.
  destruct (ecomp (en s)) as [| |lf]; cbn [bind] in E; [discriminate| |].
  - eapply calm_outer; [|exact E]. apply calm_emit_nolf, Hc.
  - eapply calm_outer; [|exact E]. apply calm_write_quoted, Hc.
Qed.
Lemma calm_begin_chunk n more : calmO (begin_chunk n more).
Proof.
  intros s s' Hc E. unfold begin_chunk in E.
  destruct ((n =? 0) && negb more); [eapply calm_end_array; [|exact E] | injection E as <-]; apply calm_upd_en, Hc.
Qed.
Lemma calm_finish_if_done : calmO finish_if_done.
Proof.
  intros s s' Hc E. unfold finish_if_done in E.
  destruct ((erem (en s) =? 0) && negb (emore (en s))); [eapply calm_end_array; eauto | injection E as <-; exact Hc].
Qed.
Lemma calm_emit_elems c k es : calmO (emit_elems c k es).
Proof.
  induction es as [|e r IH]; intros s s' Hc E; cbn in E; [injection E as <-; exact Hc|].
  destruct (num_elem c k e) as [[t d]|]; [|discriminate]. eapply IH; [|exact E]. apply calm_emit_cd, calm_space_if_hw, Hc.
Qed.
Lemma calm_add_elems c d : calmO (add_elems c d).
Proof.
  intros s s' Hc E. unfold add_elems in E. destruct (ek (en s)); try discriminate.
  - injection E as <-. apply calm_upd_en, Hc.
  - destruct d; injection E as <-; [exact Hc | apply calm_emit_raw, calm_space_if_hw, Hc].
  - eapply calm_emit_elems; eauto.
Qed.
Lemma calm_tail_of c w d : calmO (tail_of c w d).
Proof.
  unfold tail_of. apply calm_bind; [apply calm_add_elems|].
  intros s s' Hc E. eapply calm_finish_if_done; [|exact E]. apply calm_upd_en, Hc.
Qed.
Lemma calm_split_tail_of c w d : calmO (split_tail_of c w d).
Proof.
  intros s s' Hc E. unfold split_tail_of in E. cbv zeta in E.
  destruct (_ =? 0)%nat; [eapply calm_tail_of; eauto|]. eapply calm_tail_of; [|exact E]. apply calm_upd_en, Hc.
Qed.
Lemma calm_add_data_bytes c w d : calmO (add_data_bytes c w d).
Proof.
  intros s s' Hc E. unfold add_data_bytes in E.
  destruct (1 <? w)%nat; [|eapply calm_tail_of; eauto].
  cbv zeta in E. destruct (eleft (en s)) as [|l0 lo]; [eapply calm_split_tail_of; eauto|].
  destruct (w <? length (l0 :: lo))%nat; [discriminate|].
  destruct (length d <? w - length (l0 :: lo))%nat.
  - injection E as <-. apply calm_upd_en, Hc.
  - destruct (add_elems c _ s) as [m|] eqn:Ea; cbn [bind] in E; [|discriminate].
    eapply calm_split_tail_of; [|exact E]. apply calm_upd_en. eapply calm_add_elems; eauto.
Qed.
Lemma calm_add_data c d : calmO (add_data c d).
Proof.
  intros s s' Hc E. rewrite add_data_unfold in E.
  destruct (ek (en s)) eqn:Ek; [discriminate | | | |]; try (eapply calm_add_data_bytes; eauto; fail).
  destruct (bool_data (erem (en s)) d) as [o r'].
  eapply calm_finish_if_done; [|exact E]. apply calm_upd_en, calm_emit_nolf, Hc.
Qed.
Lemma calm_engine_begin_array c t o : calmO (engine_begin_array c t o).
Proof.
  intros s s' Hc E. unfold engine_begin_array in E.
  repeat match type of E with
         | (if ?x then _ else _) = _ => destruct x
         | match ?x with Some _ => _ | None => _ end = _ => destruct x
         end; try discriminate; injection E as <-;
    repeat first [apply calm_emit_nolf | apply calm_upd_en]; exact Hc.
Qed.
Lemma calm_ctx_begin_array c t : calmO (ctx_begin_array c t).
Proof.
  intros s s' Hc E. unfold ctx_begin_array in E. destruct (is_string_type t).
  - eapply calm_engine_begin_array; eauto.
  - eapply calm_engine_begin_array; [|exact E]. apply calm_push, Hc.
Qed.
Lemma calm_bv_then (f : est -> option est) : calmO f -> calmO (fun s => bind (before_value s) f).
Proof. intro H. apply calm_bind; [apply calm_before_value | exact H]. Qed.

Lemma calm_step c e : sets_dirty e = false -> calmO (fun s => step c s e).
Proof.
  intro Hd. destruct e; try discriminate Hd; cbn [step];
    try (apply calm_scalar); try (apply calm_open_container); try (intros s s' Hc [= <-]; exact Hc).
  - intros s s' Hc [= <-]. apply calm_newline_indent, calm_emit_raw, Hc.
  - apply calm_bind; [apply calm_before_comment|].
    intros s s' Hc E. eapply calm_after_comment; [|exact E].
    destruct multi; [apply calm_emit_nolf, calm_emit_plf, calm_emit_nolf, Hc | apply calm_emit_nolf, calm_emit_nolf, Hc].
  - destruct b; apply calm_scalar.
  - destruct (0 <=? z)%Z; apply calm_scalar.
  - destruct v; apply calm_scalar.
  - destruct (write_float bits); apply calm_scalar.
  - destruct v as [[neg m ex pr|neg]|]; [| destruct neg; apply calm_scalar | apply calm_scalar].
    destruct (m =? 0); cbv zeta; apply calm_scalar.
  - destruct v as [d|]; cbv zeta; apply calm_scalar.
  - destruct signaling; apply calm_scalar.
  - destruct (length b =? 16)%nat; [apply calm_scalar | intros s s' _ [=]].
  - apply calm_end_container.
  - apply calm_bv_then. intros s s' Hc [= <-]. apply calm_push, calm_emit_nolf, Hc.
  - (* EArray *)
    apply calm_bv_then. apply calm_bind; [|apply calm_after_value].
    intros s s' Hc E.
    destruct (t =? AT_String); [injection E as <-; apply calm_write_quoted, Hc|].
    destruct (t =? AT_ResourceID); [injection E as <-; apply calm_write_quoted, calm_emit_nolf, Hc|].
    destruct (t =? AT_ReferenceRemote); [injection E as <-; apply calm_write_quoted, calm_emit_nolf, Hc|].
    destruct (engine_begin_array c t ONone s) as [m|] eqn:E1; cbn [bind] in E; [|discriminate].
    destruct (begin_chunk count false m) as [m2|] eqn:E2; cbn [bind] in E; [|discriminate].
    assert (Hm2 : clean m2).
    { eapply calm_begin_chunk; [|exact E2]. eapply calm_engine_begin_array; eauto. }
    destruct (0 <? count); [eapply calm_add_data; eauto | injection E as <-; exact Hm2].
  - (* EStringArray *)
    apply calm_bv_then. apply calm_bind; [|apply calm_after_value].
    intros s s' Hc E.
    destruct (t =? AT_String); [injection E as <-; apply calm_write_quoted, Hc|].
    destruct (t =? AT_ResourceID); [injection E as <-; apply calm_write_quoted, calm_emit_nolf, Hc|].
    destruct (t =? AT_ReferenceRemote); [injection E as <-; apply calm_write_quoted, calm_emit_nolf, Hc|].
    discriminate.
  - (* ECustomText *)
    apply calm_bv_then. intros s s' Hc E. eapply calm_after_value; [|exact E]. apply calm_write_quoted, calm_emit_nolf, Hc.
  - apply calm_bv_then, calm_ctx_begin_array.
  - (* ECustomBegin, not binary *)
    cbn [sets_dirty] in Hd. apply calm_bv_then. intros s s' Hc E. rewrite Hd in E.
    destruct (t =? AT_CustomText); [injection E as <-; apply calm_emit_nolf, calm_upd_en, Hc | discriminate].
  - apply calm_begin_chunk.
  - apply calm_add_data.
Qed.

Lemma calm_run c es : forallb (fun e => negb (sets_dirty e)) es = true -> calmO (fun s => run c s es).
Proof.
  induction es as [|e es IH]; cbn [forallb]; intros H s s' Hc E; cbn in E; [injection E as <-; exact Hc|].
  apply andb_true_iff in H. destruct H as [He Hes]. apply negb_true_iff in He.
  destruct (step c s e) as [m|] eqn:Es; cbn in E; [|discriminate].
  eapply (IH Hes); [|exact E]. eapply calm_step; eauto.
Qed.

(* no media / custom-binary event: the Column hypothesis holds by itself *)
Theorem col_clean_without_hex c es : forallb (fun e => negb (sets_dirty e)) es = true -> col_clean c es = true.
Proof.
  intro H. unfold col_clean. destruct (run c est0 es) as [s|] eqn:E; [|reflexivity].
  destruct (calm_run c es H est0 s) as [_ Hb]; [split; reflexivity | exact E |]. rewrite Hb. reflexivity.
Qed.

Definition hex_header (h : ahead) : bool :=
  match h with HMedia _ => true | HCustom t _ => t =? AT_CustomBinary | HArr _ => false end.

Lemma delivery_dirty h d g :
  delivery h d g -> forallb (fun e => negb (sets_dirty e)) g = negb (hex_header h).
Proof.
  assert (Hchunks : forall cs, forallb (fun e => negb (sets_dirty e)) (chunks_events cs) = true).
  { intro cs. unfold chunks_events. apply forallb_forall. intros e He. apply in_flat_map in He. destruct He as ([[n m] ds] & _ & He).
    cbn in He. destruct He as [<-|He]; [reflexivity|]. apply in_map_iff in He. destruct He as (x & <- & _). reflexivity. }
  destruct 1; cbn [forallb]; try reflexivity.
  rewrite Hchunks, andb_true_r. destruct h; reflexivity.
Qed.

Lemma sets_dirty_delivery h d g1 g2 :
  delivery h d g1 -> delivery h d g2 ->
  forallb (fun e => negb (sets_dirty e)) g1 = true -> forallb (fun e => negb (sets_dirty e)) g2 = true.
Proof. intros H1 H2. rewrite (delivery_dirty _ _ _ H1), (delivery_dirty _ _ _ H2). auto. Qed.

Lemma sets_dirty_equiv es1 es2 :
  chunk_equiv es1 es2 ->
  forallb (fun e => negb (sets_dirty e)) es1 = true -> forallb (fun e => negb (sets_dirty e)) es2 = true.
Proof.
  induction 1 as [| e a b Hp Heq IH | h d g1 g2 a b Hd1 Hd2 Heq IH]; intro H; [reflexivity| |].
  - cbn [forallb] in *. apply andb_true_iff in H. destruct H as [H1 H2]. rewrite H1, (IH H2). reflexivity.
  - rewrite forallb_app in *. apply andb_true_iff in H. destruct H as [H1 H2].
    rewrite (sets_dirty_delivery h d g1 g2 Hd1 Hd2 H1), (IH H2). reflexivity.
Qed.

(* unconditional form for streams without media / custom binary *)
Theorem cte_text_chunk_invariant_no_hex c es1 es2 :
  chunk_equiv es1 es2 -> forallb (fun e => negb (sets_dirty e)) es1 = true ->
  cte_encode c es1 = cte_encode c es2.
Proof.
  intros Heq H. apply cte_text_chunk_invariant; [exact Heq | apply col_clean_without_hex, H |].
  apply col_clean_without_hex. eapply sets_dirty_equiv; eauto.
Qed.
