(* Generic machinery for invariants of the rules validator model (Model/Rules.v), and the
   first consequences: rejection is permanent (C10), raising a limit never rejects (C14),
   counters equal independent folds over the event list (C14), depth is balanced (C10).

   The dispatch matrix [dispatch] is regenerated on every run.  Nothing here destructs it by
   hand: facts about the matrix are boolean sweeps over the 23 x 23 cells ([table_forall],
   proved by [vm_compute]); facts about the statement semantics are proved for arbitrary
   nested-call functions and lifted to [call_rule] by induction on the fuel. *)
From CE Require Import Model.Rules Model.RulesSpec.
From Coq Require Import ZifyN ZifyNat ZifyBool.
Open Scope N_scope.

(* ------------------------------------------------------------------------- *)
(* Finite domain of the matrix                                                *)
(* ------------------------------------------------------------------------- *)
Definition all_rules : list rule :=
  [RBeginDocument; REndDocument; RTerminal; RVersion; RTopLevel; RList; RMapKey; RMapValue; RRecordType; RRecord;
   RArray; RArrayChunk; RString; RStringChunk; RMarkedObjectKeyable; RMarkedObjectAnyType;
   RStringBuilder; RStringBuilderChunk; REdgeSource; REdgeDescription; REdgeDestination; RNode; RAwaitEnd].
Definition all_meths : list meth :=
  [MBeginDocument; MEndDocument; MChildContainerEnded; MVersion; MPadding; MComment;
   MKeyableObject; MNonKeyableObject; MNull; MList; MMap; MRecordType; MRecord;
   MEdge; MNode; MEnd; MMarker; MReferenceLocal; MArray; MStringlikeArray;
   MArrayBegin; MArrayChunk; MArrayData].

Lemma all_rules_complete r : In r all_rules.
Proof. destruct r; cbn; tauto. Qed.
Lemma all_meths_complete m : In m all_meths.
Proof. destruct m; cbn; tauto. Qed.

Definition table_forall (f : rule -> meth -> list prim -> bool) : bool :=
  forallb (fun r => forallb (fun m => f r m (dispatch r m)) all_meths) all_rules.

Lemma table_forall_spec f : table_forall f = true -> forall r m, f r m (dispatch r m) = true.
Proof.
  unfold table_forall. intros H r m. rewrite forallb_forall in H.
  specialize (H r (all_rules_complete r)). rewrite forallb_forall in H.
  exact (H m (all_meths_complete m)).
Qed.

Definition is_reject (p : prim) : bool := match p with PReject => true | _ => false end.
Definition has_reject (cell : list prim) : bool := existsb is_reject cell.

(* ------------------------------------------------------------------------- *)
(* Inversion helpers                                                          *)
(* ------------------------------------------------------------------------- *)
Ltac inv_some :=
  repeat match goal with
  | H : Some _ = Some _ |- _ => inversion H; subst; clear H
  | H : None = Some _ |- _ => discriminate H
  | H : (_, _) = (_, _) |- _ => inversion H; subst; clear H
  | H : match ?x with _ => _ end = Some _ |- _ => destruct x eqn:?; try discriminate H
  end.

Lemma exec_prims_reject cfg call self m a ps c :
  has_reject ps = true -> exec_prims cfg call self m a ps c = None.
Proof.
  revert c; induction ps as [|p ps IH]; intros c H; cbn in H; [discriminate|].
  cbn [exec_prims]. apply orb_true_iff in H as [H|H].
  - destruct p; try discriminate H. reflexivity.
  - destruct (exec_prim cfg call self m a p c); [apply IH; exact H | reflexivity].
Qed.

Lemma exec_prims_app cfg call self m a ps1 ps2 c :
  exec_prims cfg call self m a (ps1 ++ ps2) c =
  match exec_prims cfg call self m a ps1 c with
  | Some c1 => exec_prims cfg call self m a ps2 c1
  | None => None
  end.
Proof.
  revert c; induction ps1 as [|p ps IH]; intro c; cbn [app exec_prims]; [reflexivity|].
  destruct (exec_prim cfg call self m a p c); [apply IH | reflexivity].
Qed.

(* The induction principle behind every lifted fact: what holds of every cell, assuming it of
   the nested calls, holds of [call_rule] at every fuel. *)
Lemma call_rule_ind_gen cfg (P : rule -> meth -> args -> rctx -> rctx -> Prop) :
  (forall call, (forall r m a c c', call r m a c = Some c' -> P r m a c c') ->
     forall r m a c c', exec_prims cfg call r m a (dispatch r m) c = Some c' -> P r m a c c') ->
  forall f r m a c c', call_rule f cfg r m a c = Some c' -> P r m a c c'.
Proof.
  intros Hcell f; induction f as [|f IH]; intros r m a c c' H; cbn [call_rule] in H; [discriminate|].
  exact (Hcell (call_rule f cfg) IH r m a c c' H).
Qed.

(* Preorders on contexts (and, as a special case, invariants): if every statement allowed by
   [pok] relates its input and output whenever nested calls do, and every cell of the matrix
   consists of allowed statements (or rejects), then every method call relates input and
   output.  [Ra] restricts the call arguments (it must be stable under the argument changes
   the statements perform; that is part of the statement hypothesis). *)
Section Preorder.
  Variable cfg : rcfg.
  Variable R : rctx -> rctx -> Prop.
  Variable Ra : args -> Prop.
  Variable pok : prim -> bool.
  Hypothesis R_refl : forall c, R c c.
  Hypothesis R_trans : forall a b c, R a b -> R b c -> R a c.
  Hypothesis prim_R : forall call,
    (forall r m a c c', Ra a -> call r m a c = Some c' -> R c c') ->
    forall self m a p c c', Ra a -> pok p = true -> exec_prim cfg call self m a p c = Some c' -> R c c'.

  Lemma exec_prims_R call :
    (forall r m a c c', Ra a -> call r m a c = Some c' -> R c c') ->
    forall self m a ps c c', Ra a -> forallb pok ps = true -> exec_prims cfg call self m a ps c = Some c' -> R c c'.
  Proof.
    intros Hcall self m a ps; induction ps as [|p ps IH]; intros c c' Ha Hok H; cbn [exec_prims] in H.
    - inv_some. apply R_refl.
    - cbn [forallb] in Hok. apply andb_true_iff in Hok as [Hp Hps].
      destruct (exec_prim cfg call self m a p c) as [c1|] eqn:E; [|discriminate].
      eapply R_trans; [eapply prim_R; eauto | eapply IH; eauto].
  Qed.

  Hypothesis table_ok : table_forall (fun _ _ cell => has_reject cell || forallb pok cell) = true.

  Lemma call_rule_R : forall f r m a c c', Ra a -> call_rule f cfg r m a c = Some c' -> R c c'.
  Proof.
    intros f r m a c c' Ha H. revert Ha.
    apply (call_rule_ind_gen cfg (fun _ _ a c c' => Ra a -> R c c')) with (f := f) (r := r) (m := m); [|exact H].
    clear f r m a c c' H. intros call Hcall r m a c c' H Ha.
    pose proof (table_forall_spec _ table_ok r m) as T. cbn beta in T. apply orb_true_iff in T as [T|T].
    - rewrite exec_prims_reject in H by exact T. discriminate.
    - eapply exec_prims_R; eauto.
  Qed.
End Preorder.

(* ------------------------------------------------------------------------- *)
(* Case analysis of one statement                                             *)
(* ------------------------------------------------------------------------- *)
(* Unfolds the statement in [H : exec_prim ... = Some c'] down to the record updates and the
   nested calls. *)
Ltac unfold_prims H :=
  cbn [exec_prim] in H;
  unfold key_from_array, chunk_data, end_chunk, rule_chunk, try_end_array, end_container, end_container_like,
         begin_container, unstack_rule, local_reference, mark_object, begin_array_any, notify_key in H.

(* reduce record projections applied to record updates, and nothing else *)
Ltac rsimpl :=
  cbn [cur stack depth objects rectypes rectype_name arr_type more_chunks built arr_total chunk_expected chunk_actual
       utf8_rem arr_validator marker_id marked fwd refcount
       set_cur set_stack set_depth set_objects set_rectypes set_array set_markers set_rule stack_rule begin_array mk_entry tag_marker_entry
       e_rule e_dtype e_count e_expected e_keys] in *.

Ltac prim_cases p H := destruct p; unfold_prims H; inv_some.


(* ------------------------------------------------------------------------- *)
(* The receiver layer in uniform shape                                        *)
(* ------------------------------------------------------------------------- *)
(* Every event is handled as: a state-independent guard, an optional NotifyNewObject(real),
   one method call on the rule in force, and the event forwarded. *)
Record plan := { p_nno : option bool; p_meth : meth; p_args : args; p_out : event }.
Definition mkplan (nno : option bool) (m : meth) (a : args) (e : event) : option plan :=
  Some {| p_nno := nno; p_meth := m; p_args := a; p_out := e |}.
Definition key_args (dt : N) (k : rawkey) : args :=
  {| a_dtype := dt; a_key := Some k; a_id := []; a_arrty := 0; a_count := 0; a_data := []; a_version := 0; a_more := false |}.

Definition ev_plan (cfg : rcfg) (e : event) : option plan :=
  let keyable_ dt k := mkplan (Some true) MKeyableObject (key_args dt k) e in
  let nonkey dt e' := mkplan (Some true) MNonKeyableObject (with_dtype no_args dt) e' in
  let null_ e' := mkplan (Some true) MNull no_args e' in
  match e with
  | EBeginDoc => mkplan None MBeginDocument no_args e
  | EEndDoc => mkplan None MEndDocument no_args e
  | EVersion v => mkplan None MVersion
      {| a_dtype := 0; a_key := None; a_id := []; a_arrty := 0; a_count := 0; a_data := []; a_version := v; a_more := false |} e
  | EPadding => mkplan None MPadding no_args e
  | EComment _ _ => mkplan None MComment no_args e
  | ENull => null_ e
  | EBool b => keyable_ DT_Bool (RkBool b)
  | ETrue => keyable_ DT_Bool (RkBool true)
  | EFalse => keyable_ DT_Bool (RkBool false)
  | EPosInt n => keyable_ DT_Int (RkUint64 n)
  | ENegInt n => keyable_ DT_Int (RkNegint n)
  | EInt z => keyable_ DT_Int (RkInt64 z)
  | EBigInt None => null_ ENull
  | EBigInt (Some z) => keyable_ DT_Int (RkBigInt z)
  | EFloat bits => if f64_is_nan bits then nonkey DT_Nan (ENan (negb (f64_quiet_bit bits))) else nonkey DT_Float e
  | EBigFloat None => null_ ENull
  | EBigFloat (Some _) => nonkey DT_Float e
  | EDecimal DQNan => nonkey DT_Nan (ENan false)
  | EDecimal DSNan => nonkey DT_Nan (ENan true)
  | EDecimal _ => nonkey DT_Float e
  | EBigDecimal None => null_ ENull
  | EBigDecimal (Some DSNan) => nonkey DT_Nan (ENan true)
  | EBigDecimal (Some DQNan) => nonkey DT_Nan (ENan false)
  | EBigDecimal (Some _) => nonkey DT_Float e
  | ENan _ => nonkey DT_Nan e
  | EUid b => keyable_ DT_UID (RkBytes b)
  | ETime s => if negb (time_token_valid s) then None else keyable_ DT_Time (RkTime s)
  | EArray t count data => if array_api_ok t then mkplan (Some true) MArray (array_args t count data) e else None
  | EStringArray t data => if array_api_ok t then mkplan (Some true) MStringlikeArray (array_args t 0 data) e else None
  | EMedia mt data => if negb (utf8_valid mt && media_type_valid mt) then None else mkplan (Some true) MArray (array_args AT_Media (blen data) data) e
  | ECustomBin ct data => if negb (custom_type_ok ct) then None else mkplan (Some true) MArray (array_args AT_CustomBinary (blen data) data) e
  | ECustomText ct data => if negb (custom_type_ok ct) then None else mkplan (Some true) MStringlikeArray (array_args AT_CustomText 0 data) e
  | EArrayBegin t => if array_api_ok t then mkplan (Some true) MArrayBegin (array_args t 0 []) e else None
  | EMediaBegin mt => if negb (utf8_valid mt && media_type_valid mt) then None else mkplan (Some true) MArrayBegin (array_args AT_Media 0 []) e
  | ECustomBegin t ct => if custom_api_ok t && custom_type_ok ct then mkplan (Some true) MArrayBegin (array_args t 0 []) e else None
  | EArrayChunk n more => mkplan None MArrayChunk
      {| a_dtype := 0; a_key := None; a_id := []; a_arrty := 0; a_count := n; a_data := []; a_version := 0; a_more := more |} e
  | EArrayData d => mkplan None MArrayData (array_args 0 0 d) e
  | EList => mkplan (Some true) MList no_args e
  | EMap => mkplan (Some true) MMap no_args e
  | EEdge => mkplan (Some true) MEdge no_args e
  | ENode => mkplan (Some true) MNode no_args e
  | EEnd => mkplan None MEnd no_args e
  | ERecordType id => if validate_identifier cfg id then mkplan (Some false) MRecordType (with_id id) e else None
  | ERecord id => if validate_identifier cfg id then mkplan (Some true) MRecord (with_id id) e else None
  | EMarker id => if validate_identifier cfg id then mkplan (Some true) MMarker (with_id id) e else None
  | ERefLocal id => if validate_identifier cfg id then mkplan (Some true) MReferenceLocal (with_id id) e else None
  end.

Definition plan_step (cfg : rcfg) (pl : plan) (c : rctx) : option rctx :=
  match (match p_nno pl with Some real => notify_new_object cfg real c | None => Some c end) with
  | Some c1 => call_current cfg (p_meth pl) (p_args pl) c1
  | None => None
  end.

Lemma rstep_plan cfg c e :
  rstep cfg c e =
  match ev_plan cfg e with
  | Some pl => match plan_step cfg pl c with Some c2 => Some (c2, [p_out pl]) | None => None end
  | None => None
  end.
Proof.
  destruct e as [| |v| |m t| |b| | |n|n|z|[z|]|bits|[bf|]|d|[d|]|s|b|s| | |id|id| | | |id|id|t cnt d|t d|mt d|ct d|ct d|t|mt|t ct|n m|d];
    cbn [rstep ev_plan mkplan]; unfold plan_step, keyable, nonkeyable, simple, obind, key_args; cbn [p_nno p_meth p_args p_out]; cbv beta zeta;
    try reflexivity;
    repeat (match goal with
    | d : dfloat |- _ => destruct d
    | |- context [if ?b then _ else _] => destruct b
    | |- context [match notify_new_object ?a ?b ?c with _ => _ end] => destruct (notify_new_object a b c)
    end; cbn [mkplan p_nno p_meth p_args p_out]; try reflexivity).
Qed.

(* ------------------------------------------------------------------------- *)
(* Runs                                                                       *)
(* ------------------------------------------------------------------------- *)
(* the context after a list of events, when all are accepted *)
Fixpoint steps (cfg : rcfg) (c : rctx) (es : list event) : option rctx :=
  match es with
  | [] => Some c
  | e :: r => match rstep cfg c e with Some (c1, _) => steps cfg c1 r | None => None end
  end.

Lemma steps_app cfg es1 : forall c es2,
  steps cfg c (es1 ++ es2) = match steps cfg c es1 with Some c1 => steps cfg c1 es2 | None => None end.
Proof.
  induction es1 as [|e es IH]; intros c es2; cbn [app steps]; [reflexivity|].
  destruct (rstep cfg c e) as [[c1 o]|]; [apply IH | reflexivity].
Qed.

Lemma run_from_steps cfg es : forall c i out,
  match steps cfg c es with
  | Some c' => exists out', run_from cfg c i es out = (c', out', None)
  | None => exists c' out' j, run_from cfg c i es out = (c', out', Some j)
  end.
Proof.
  induction es as [|e es IH]; intros c i out; cbn [steps run_from].
  - eexists; reflexivity.
  - destruct (rstep cfg c e) as [[c1 o]|]; [apply IH | do 3 eexists; reflexivity].
Qed.

Lemma accepts_steps cfg es : accepts cfg es = true <-> exists c, steps cfg init_rctx es = Some c.
Proof.
  unfold accepts, rejected_at, run. pose proof (run_from_steps cfg es init_rctx 0 []) as H.
  destruct (steps cfg init_rctx es) as [c'|].
  - destruct H as [out' H]. rewrite H. cbn. split; eauto.
  - destruct H as [c' [out' [j H]]]. rewrite H. cbn. split; [discriminate | intros [c0 X]; discriminate].
Qed.

Lemma state_after_steps cfg es c : state_after cfg es = Some c <-> steps cfg init_rctx es = Some c.
Proof.
  unfold state_after, run. pose proof (run_from_steps cfg es init_rctx 0 []) as H.
  destruct (steps cfg init_rctx es) as [c'|].
  - destruct H as [out' H]. rewrite H. split; intro X; inv_some; reflexivity.
  - destruct H as [c' [out' [j H]]]. rewrite H. split; discriminate.
Qed.

Lemma accepts_document_steps cfg es :
  accepts_document cfg es = true <-> exists c, steps cfg init_rctx es = Some c /\ e_rule (cur c) = RTerminal.
Proof.
  unfold accepts_document, run. pose proof (run_from_steps cfg es init_rctx 0 []) as H.
  destruct (steps cfg init_rctx es) as [c'|].
  - destruct H as [out' H]. rewrite H. split.
    + intro X. exists c'. split; [reflexivity|]. destruct (e_rule (cur c')); try discriminate; reflexivity.
    + intros [c0 [X Y]]. inv_some. rewrite Y. reflexivity.
  - destruct H as [c' [out' [j H]]]. rewrite H. split; [discriminate | intros [c0 [X _]]; discriminate].
Qed.

Lemma accepts_document_accepts cfg es : accepts_document cfg es = true -> accepts cfg es = true.
Proof. rewrite accepts_document_steps, accepts_steps. intros [c [H _]]; eauto. Qed.

(* prefixes of accepted lists are accepted *)
Lemma accepts_app cfg es tl : accepts cfg (es ++ tl) = true -> accepts cfg es = true.
Proof.
  rewrite !accepts_steps, steps_app. intros [c H]. destruct (steps cfg init_rctx es) as [c1|]; [eauto | discriminate].
Qed.

(* the index reported by [run_from] *)
Lemma run_from_rejected cfg es : forall c i out c' out' j,
  run_from cfg c i es out = (c', out', Some j) ->
  exists k, j = i + N.of_nat k /\ (k < length es)%nat /\
            steps cfg c (firstn k es) = Some c' /\ rstep cfg c' (nth k es EPadding) = None.
Proof.
  induction es as [|e es IH]; intros c i out c' out' j H; cbn [run_from] in H; [inv_some|].
  destruct (rstep cfg c e) as [[c1 o]|] eqn:E.
  - apply IH in H as [k [Hj [Hk [Hs Hr]]]]. exists (S k). cbn [firstn steps nth length]. rewrite E.
    repeat split; try assumption; lia.
  - inv_some. exists O. cbn. rewrite E. repeat split; try reflexivity; lia.
Qed.

Lemma run_from_app cfg es1 : forall c i out es2,
  run_from cfg c i (es1 ++ es2) out =
  match run_from cfg c i es1 out with
  | (c1, out1, None) => run_from cfg c1 (i + N.of_nat (length es1)) es2 out1
  | r => r
  end.
Proof.
  induction es1 as [|e es IH]; intros c i out es2; cbn [app run_from length].
  - f_equal. lia.
  - destruct (rstep cfg c e) as [[c1 o]|]; [|reflexivity]. rewrite IH.
    destruct (run_from cfg c1 (N.succ i) es (out ++ o)) as [[c2 o2] [j|]]; [reflexivity|]. f_equal. lia.
Qed.

(* C10 (a): a rejection is permanent, and happens at the first event that cannot be accepted *)
Theorem rejected_at_app cfg es tl i : rejected_at cfg es = Some i -> rejected_at cfg (es ++ tl) = Some i.
Proof.
  unfold rejected_at, run. rewrite run_from_app.
  destruct (run_from cfg init_rctx 0 es []) as [[c o] [j|]]; cbn; [auto | discriminate].
Qed.

Theorem rejected_at_first cfg es i :
  rejected_at cfg es = Some i ->
  (N.to_nat i < length es)%nat /\
  accepts cfg (firstn (N.to_nat i) es) = true /\
  accepts cfg (firstn (S (N.to_nat i)) es) = false.
Proof.
  unfold rejected_at, run. destruct (run_from cfg init_rctx 0 es []) as [[c o] [j|]] eqn:E; cbn [snd]; [|discriminate].
  intro H; inv_some. apply run_from_rejected in E as [k [Hj [Hk [Hs Hr]]]].
  assert (N.to_nat i = k) as -> by lia. split; [exact Hk|]. split.
  - apply accepts_steps. eauto.
  - destruct (accepts cfg (firstn (S k) es)) eqn:A; [|reflexivity]. exfalso.
    apply accepts_steps in A as [c1 A].
    assert (firstn (S k) es = firstn k es ++ [nth k es EPadding]) as X.
    { clear -Hk. revert k Hk; induction es as [|e es IH]; intros k Hk; cbn in Hk; [lia|].
      destruct k; [reflexivity|]. cbn [firstn nth app]. f_equal. apply IH. lia. }
    rewrite X, steps_app, Hs in A. cbn [steps] in A. rewrite Hr in A. discriminate.
Qed.

Corollary accepts_app_false cfg es tl : accepts cfg es = false -> accepts cfg (es ++ tl) = false.
Proof.
  unfold accepts. destruct (rejected_at cfg es) as [i|] eqn:E; [|discriminate].
  intros _. rewrite (rejected_at_app cfg es tl i E). reflexivity.
Qed.

(* Invariants along a run, indexed by the events consumed so far. *)
Lemma steps_invariant cfg (Inv : list event -> rctx -> Prop) :
  Inv [] init_rctx ->
  (forall p c e c' o, Inv p c -> steps cfg init_rctx p = Some c -> rstep cfg c e = Some (c', o) -> Inv (p ++ [e]) c') ->
  forall es c, steps cfg init_rctx es = Some c -> Inv es c.
Proof.
  intros H0 Hstep es. induction es as [|e es IH] using rev_ind; intros c H.
  - cbn in H. inv_some. exact H0.
  - rewrite steps_app in H. destruct (steps cfg init_rctx es) as [c1|] eqn:E; [|discriminate].
    cbn [steps] in H. destruct (rstep cfg c1 e) as [[c2 o]|] eqn:E2; [|discriminate]. inv_some.
    eapply Hstep; eauto.
Qed.

(* ------------------------------------------------------------------------- *)
(* C14 (a): raising a limit never turns acceptance into rejection             *)
(* ------------------------------------------------------------------------- *)
Lemma cfg_le_refl a : cfg_le a a.
Proof. unfold cfg_le. repeat split; lia. Qed.

Lemma cfg_le_trans a b c : cfg_le a b -> cfg_le b c -> cfg_le a c.
Proof. unfold cfg_le. intros H1 H2. repeat split; lia. Qed.

Section Mono.
  Variables cfg cfg' : rcfg.
  Hypothesis Hle : cfg_le cfg cfg'.

  Lemma length_ok_le len : length_ok cfg len = true -> length_ok cfg' len = true.
  Proof. unfold length_ok. destruct Hle as [_ [_ [H _]]]. lia. Qed.

  Lemma validate_identifier_le id : validate_identifier cfg id = true -> validate_identifier cfg' id = true.
  Proof.
    unfold validate_identifier. destruct Hle as [_ [_ [_ [H _]]]].
    rewrite !andb_true_iff. intros [[H1 H2] H3]. repeat split; try assumption. lia.
  Qed.

  Lemma nno_le real c c' : notify_new_object cfg real c = Some c' -> notify_new_object cfg' real c = Some c'.
  Proof.
    unfold notify_new_object. destruct Hle as [H _]. intro E. inv_some.
    destruct (max_object_count cfg' <? objects c + 1) eqn:X; [lia | reflexivity].
  Qed.

  Lemma validate_any_le t n d : validate_full_array_any cfg t n d = true -> validate_full_array_any cfg' t n d = true.
  Proof.
    unfold validate_full_array_any. destruct (is_stringlike_validated t).
    - rewrite !andb_true_iff. intros [H1 H2]. split; [apply length_ok_le|]; assumption.
    - destruct (array_bits t); [|auto]. rewrite !andb_true_iff. intros [H1 H2]. split; [|apply length_ok_le]; assumption.
  Qed.
  Lemma validate_stringlike_le t d :
    validate_full_array_stringlike cfg t d = true -> validate_full_array_stringlike cfg' t d = true.
  Proof.
    unfold validate_full_array_stringlike. destruct (is_stringlike_validated t).
    - rewrite !andb_true_iff. intros [H1 H2]. split; [apply length_ok_le|]; assumption.
    - apply length_ok_le.
  Qed.

  Lemma exec_prim_le call call' :
    (forall r m a c c', call r m a c = Some c' -> call' r m a c = Some c') ->
    forall self m a p c c', exec_prim cfg call self m a p c = Some c' -> exec_prim cfg' call' self m a p c = Some c'.
  Proof.
    intros Hcall self m a p c c' E.
    destruct Hle as [Ho [Hd [Ha [Hi [Hr Hv]]]]].
    destruct p; cbn [exec_prim] in E |- *;
      unfold key_from_array, chunk_data, end_chunk, rule_chunk, try_end_array, end_container, end_container_like,
             begin_container, unstack_rule, local_reference, mark_object, begin_array_any, notify_key in E |- *;
      inv_some;
      repeat match goal with
      | H : _ && _ = true |- _ => apply andb_true_iff in H as [? ?]
      | H : assert_array_type _ _ = true |- _ => rewrite H; clear H
      | H : call _ _ _ _ = Some _ |- _ => apply Hcall in H; rewrite ?H
      | H : validate_full_array_any cfg _ _ _ = true |- _ => apply validate_any_le in H; rewrite ?H
      | H : validate_full_array_stringlike cfg _ _ = true |- _ => apply validate_stringlike_le in H; rewrite ?H
      end;
      rewrite ?andb_true_r; cbn [andb];
      try reflexivity;
      repeat match goal with
      | |- context [if ?b then _ else _] => destruct b eqn:?; try lia
      end; try reflexivity; try congruence.
  Qed.

  Lemma exec_prims_le call call' :
    (forall r m a c c', call r m a c = Some c' -> call' r m a c = Some c') ->
    forall self m a ps c c', exec_prims cfg call self m a ps c = Some c' -> exec_prims cfg' call' self m a ps c = Some c'.
  Proof.
    intros Hcall self m a ps; induction ps as [|p ps IH]; intros c c' E; cbn [exec_prims] in E |- *; [exact E|].
    destruct (exec_prim cfg call self m a p c) as [c1|] eqn:E1; [|discriminate].
    rewrite (exec_prim_le call call' Hcall _ _ _ _ _ _ E1). apply IH. exact E.
  Qed.

  Lemma call_rule_le f : forall r m a c c', call_rule f cfg r m a c = Some c' -> call_rule f cfg' r m a c = Some c'.
  Proof.
    induction f as [|f IH]; intros r m a c c' E; cbn [call_rule] in E |- *; [discriminate|].
    eapply exec_prims_le; eauto.
  Qed.

  Lemma ev_plan_le e pl : ev_plan cfg e = Some pl -> ev_plan cfg' e = Some pl.
  Proof.
    destruct e; cbn [ev_plan]; try (intro H; exact H);
      (destruct (validate_identifier cfg id) eqn:V; [|discriminate]);
      rewrite (validate_identifier_le _ V); auto.
  Qed.

  Lemma plan_step_le pl c c' : plan_step cfg pl c = Some c' -> plan_step cfg' pl c = Some c'.
  Proof.
    unfold plan_step, call_current. intro E. destruct (p_nno pl) as [real|].
    - destruct (notify_new_object cfg real c) as [c1|] eqn:N; [|discriminate].
      rewrite (nno_le _ _ _ N). apply call_rule_le. exact E.
    - apply call_rule_le. exact E.
  Qed.

  Lemma rstep_le c e x : rstep cfg c e = Some x -> rstep cfg' c e = Some x.
  Proof.
    rewrite !rstep_plan. destruct (ev_plan cfg e) as [pl|] eqn:P; [|discriminate].
    rewrite (ev_plan_le _ _ P). destruct (plan_step cfg pl c) as [c2|] eqn:S; [|discriminate].
    rewrite (plan_step_le _ _ _ S). auto.
  Qed.

  Lemma steps_le es : forall c c', steps cfg c es = Some c' -> steps cfg' c es = Some c'.
  Proof.
    induction es as [|e es IH]; intros c c' E; cbn [steps] in E |- *; [exact E|].
    destruct (rstep cfg c e) as [[c1 o]|] eqn:R; [|discriminate].
    rewrite (rstep_le _ _ _ R). apply IH. exact E.
  Qed.

  Theorem accepts_mono es : accepts cfg es = true -> accepts cfg' es = true.
  Proof. rewrite !accepts_steps. intros [c H]. exists c. apply steps_le. exact H. Qed.

  Theorem accepts_document_mono es : accepts_document cfg es = true -> accepts_document cfg' es = true.
  Proof. rewrite !accepts_document_steps. intros [c [H T]]. exists c. split; [apply steps_le|]; assumption. Qed.
End Mono.

(* ------------------------------------------------------------------------- *)
(* Additive effects                                                           *)
(* ------------------------------------------------------------------------- *)
(* A measure [mu] of the context on which every statement has a fixed effect [ep p] and every
   method a fixed effect [em m]: if the effects of the statements of every (non-rejecting) cell
   add up to the effect of its method, every method call has the effect of its method. *)
Section Effect.
  Variable cfg : rcfg.
  Variable mu : rctx -> Z.
  Variable em : meth -> Z.
  Variable ep : prim -> Z.
  Hypothesis prim_eff : forall call,
    (forall r m a c c', call r m a c = Some c' -> mu c' = (mu c + em m)%Z) ->
    forall self m a p c c', exec_prim cfg call self m a p c = Some c' -> mu c' = (mu c + ep p)%Z.

  Definition cell_eff (cell : list prim) : Z := fold_right (fun p z => (ep p + z)%Z) 0%Z cell.

  Lemma exec_prims_eff call :
    (forall r m a c c', call r m a c = Some c' -> mu c' = (mu c + em m)%Z) ->
    forall self m a ps c c', exec_prims cfg call self m a ps c = Some c' -> mu c' = (mu c + cell_eff ps)%Z.
  Proof.
    intros Hcall self m a ps; induction ps as [|p ps IH]; intros c c' H; cbn [exec_prims cell_eff fold_right] in H |- *.
    - inv_some. lia.
    - destruct (exec_prim cfg call self m a p c) as [c1|] eqn:E; [|discriminate].
      apply (prim_eff call Hcall) in E. apply IH in H. fold (cell_eff ps). lia.
  Qed.

  Hypothesis table_ok : table_forall (fun _ m cell => has_reject cell || (cell_eff cell =? em m)%Z) = true.

  Lemma call_rule_eff : forall f r m a c c', call_rule f cfg r m a c = Some c' -> mu c' = (mu c + em m)%Z.
  Proof.
    apply (call_rule_ind_gen cfg (fun _ m _ c c' => mu c' = (mu c + em m)%Z)).
    intros call Hcall r m a c c' H.
    pose proof (table_forall_spec _ table_ok r m) as T. cbn beta in T. apply orb_true_iff in T as [T|T].
    - rewrite exec_prims_reject in H by exact T. discriminate.
    - apply (exec_prims_eff call Hcall) in H. lia.
  Qed.
End Effect.

(* ---- container depth ---- *)
Definition depth_em (m : meth) : Z :=
  match m with
  | MList | MMap | MRecordType | MRecord | MEdge | MNode => 1
  | MEnd => -1
  | _ => 0
  end.
Definition depth_ep (p : prim) : Z :=
  match p with
  | PBeginList | PBeginMap | PBeginRecordType | PBeginRecord | PBeginEdge | PBeginNode => 1
  | PEndContainer notify => -1 + (if notify then depth_em MChildContainerEnded else 0)
  | PForwardCurrent m' | PForwardParent m' => depth_em m'
  | _ => 0
  end.

Lemma call_rule_depth cfg f r m a c c' :
  call_rule f cfg r m a c = Some c' -> Z.of_N (depth c') = (Z.of_N (depth c) + depth_em m)%Z.
Proof.
  apply (call_rule_eff cfg (fun c => Z.of_N (depth c)) depth_em depth_ep).
  - intros call Hcall self m0 a0 p c0 c0' E.
    prim_cases p E; cbn [depth_ep depth_em]; rsimpl;
      repeat match goal with H : call _ _ _ _ = Some _ |- _ => apply Hcall in H; cbn [depth_em] in H; rsimpl end; try lia.
  - vm_compute. reflexivity.
Qed.

(* [objects] is touched by NotifyNewObject only, which no statement performs. *)
Lemma call_rule_objects cfg f r m a c c' : call_rule f cfg r m a c = Some c' -> objects c' = objects c.
Proof.
  intro H.
  refine (call_rule_R cfg (fun c c' => objects c' = objects c) (fun _ => True) (fun _ => true) _ _ _ _ f r m a c c' I H);
    [ reflexivity | intros; congruence | | vm_compute; reflexivity ].
  intros call Hcall self m0 a0 p c0 c0' _ _ E.
  prim_cases p E; rsimpl; try reflexivity;
    repeat match goal with H : call _ _ _ _ = Some _ |- _ => apply Hcall in H; [rsimpl | exact I] end; try congruence.
Qed.

Lemma nno_fields cfg real c c' :
  notify_new_object cfg real c = Some c' ->
  objects c' = objects c + 1 /\ objects c' <= max_object_count cfg /\ depth c' = depth c /\ stack c' = stack c /\ e_rule (cur c') = e_rule (cur c) /\ e_dtype (cur c') = e_dtype (cur c) /\ marked c' = marked c /\ fwd c' = fwd c /\ refcount c' = refcount c /\ marker_id c' = marker_id c /\ rectypes c' = rectypes c /\ arr_total c' = arr_total c /\ arr_type c' = arr_type c.
Proof. unfold notify_new_object. intro H. inv_some. rsimpl. repeat split; try reflexivity. lia. Qed.

(* the two counters after one event *)
Lemma plan_step_counters cfg pl c c' :
  plan_step cfg pl c = Some c' ->
  objects c' = objects c + (if p_nno pl then 1 else 0) /\ Z.of_N (depth c') = (Z.of_N (depth c) + depth_em (p_meth pl))%Z.
Proof.
  unfold plan_step, call_current. intro H. destruct (p_nno pl) as [real|].
  - destruct (notify_new_object cfg real c) as [c1|] eqn:N; [|discriminate].
    apply nno_fields in N. pose proof (call_rule_objects _ _ _ _ _ _ _ H). pose proof (call_rule_depth _ _ _ _ _ _ _ H).
    split; [lia|]. destruct N as [_ [_ [N _]]]. rewrite <- N. assumption.
  - pose proof (call_rule_objects _ _ _ _ _ _ _ H). pose proof (call_rule_depth _ _ _ _ _ _ _ H). split; [lia | assumption].
Qed.

Lemma ev_plan_counts cfg e pl :
  ev_plan cfg e = Some pl ->
  (if p_nno pl then true else false) = counts_object e /\ depth_em (p_meth pl) = depth_delta e.
Proof.
  destruct e as [| |v| |m t| |b| | |n|n|z|[z|]|bits|[bf|]|[| | |]|[[| | |]|]|s|b|s| | |id|id| | | |id|id|t cnt d|t d|mt d|ct d|ct d|t|mt|t ct|n m|d];
    cbn [ev_plan mkplan counts_object depth_delta]; intro H;
    repeat match goal with H : (if ?b then _ else _) = Some _ |- _ => destruct b; try discriminate H end;
    unfold mkplan in H; inv_some; cbn; split; reflexivity.
Qed.

Lemma rstep_counters cfg c e c' o :
  rstep cfg c e = Some (c', o) ->
  objects c' = objects c + (if counts_object e then 1 else 0) /\ Z.of_N (depth c') = (Z.of_N (depth c) + depth_delta e)%Z.
Proof.
  rewrite rstep_plan. destruct (ev_plan cfg e) as [pl|] eqn:P; [|discriminate].
  destruct (plan_step cfg pl c) as [c2|] eqn:S; [|discriminate]. intro H; inv_some.
  apply ev_plan_counts in P as [P1 P2]. apply plan_step_counters in S as [S1 S2]. rewrite <- P1, <- P2.
  split; [destruct (p_nno pl); assumption | assumption].
Qed.

Lemma steps_counters cfg es : forall c c',
  steps cfg c es = Some c' ->
  objects c' = objects c + object_usage es /\ Z.of_N (depth c') = (Z.of_N (depth c) + depth_after es)%Z.
Proof.
  induction es as [|e es IH]; intros c c' H; cbn [steps] in H.
  - inv_some. cbn. split; lia.
  - destruct (rstep cfg c e) as [[c1 o]|] eqn:R; [|discriminate]. apply rstep_counters in R as [R1 R2].
    apply IH in H as [H1 H2]. unfold object_usage, depth_after in *. cbn [count_if fold_right]. split; lia.
Qed.

(* ------------------------------------------------------------------------- *)
(* Preorders, method-aware                                                    *)
(* ------------------------------------------------------------------------- *)
(* As [Preorder], but the restriction on arguments and on statements may depend on the method
   whose cell is running (e.g. "the identifier argument of OnMarker is a marker identifier",
   "BeginMarker occurs only in cells of OnMarker"). *)
Section PreorderM.
  Variable cfg : rcfg.
  Variable R : rctx -> rctx -> Prop.
  Variable Ra : meth -> args -> Prop.
  Variable pok : meth -> prim -> bool.
  Hypothesis R_refl : forall c, R c c.
  Hypothesis R_trans : forall a b c, R a b -> R b c -> R a c.
  Hypothesis prim_R : forall call,
    (forall r m a c c', Ra m a -> call r m a c = Some c' -> R c c') ->
    forall self m a p c c', Ra m a -> pok m p = true -> exec_prim cfg call self m a p c = Some c' -> R c c'.

  Lemma exec_prims_RM call :
    (forall r m a c c', Ra m a -> call r m a c = Some c' -> R c c') ->
    forall self m a ps c c', Ra m a -> forallb (pok m) ps = true -> exec_prims cfg call self m a ps c = Some c' -> R c c'.
  Proof.
    intros Hcall self m a ps; induction ps as [|p ps IH]; intros c c' Ha Hok H; cbn [exec_prims] in H.
    - inv_some. apply R_refl.
    - cbn [forallb] in Hok. apply andb_true_iff in Hok as [Hp Hps].
      destruct (exec_prim cfg call self m a p c) as [c1|] eqn:E; [|discriminate].
      eapply R_trans; [eapply prim_R; eauto | eapply IH; eauto].
  Qed.

  Hypothesis table_ok : table_forall (fun _ m cell => has_reject cell || forallb (pok m) cell) = true.

  Lemma call_rule_RM : forall f r m a c c', Ra m a -> call_rule f cfg r m a c = Some c' -> R c c'.
  Proof.
    intros f r m a c c' Ha H. revert Ha.
    apply (call_rule_ind_gen cfg (fun _ m a c c' => Ra m a -> R c c')) with (f := f) (r := r) (m := m); [|exact H].
    clear f r m a c c' H. intros call Hcall r m a c c' H Ha.
    pose proof (table_forall_spec _ table_ok r m) as T. cbn beta in T. apply orb_true_iff in T as [T|T].
    - rewrite exec_prims_reject in H by exact T. discriminate.
    - eapply exec_prims_RM; eauto.
  Qed.
End PreorderM.
