(* Generic machinery for invariants of the rules validator model (Model/Rules.v), and the
   first consequences: rejection is permanent (C10), raising a limit never rejects (C14),
   counters equal independent folds over the event list (C14), depth is balanced (C10).

   The dispatch matrix [dispatch] is regenerated on every run.  Nothing here destructs it by
   hand: facts about the matrix are boolean sweeps over the 23 x 23 cells ([table_forall],
   proved by [vm_compute]); facts about the statement semantics are proved for arbitrary
   nested-call functions and lifted to [call_rule] by induction on the fuel. *)
From CE Require Import Model.Rules.
From Coq Require Import ZifyN ZifyNat ZifyBool.
Open Scope N_scope.

(* ------------------------------------------------------------------------- *)
(* Finite domain of the matrix                                                *)
(* ------------------------------------------------------------------------- *)
Definition all_rules : list rule :=
  [RBeginDocument; REndDocument; RTerminal; RVersion; RTopLevel; RList; RMapKey; RMapValue; RRecordType; RRecord;
   RArray; RArrayChunk; RString; RStringChunk; RMarkedObjectKeyable; RMarkedObjectAnyType;
   RStringBuilder; RStringBuilderChunk; REdgeSource; REdgeDescription; REdgeDestination; RNode; RAwaitEnd].
Definition all_meths : list meth :=
  [MBeginDocument; MEndDocument; MChildContainerEnded; MVersion; MPadding; MComment;
   MKeyableObject; MNonKeyableObject; MNull; MList; MMap; MRecordType; MRecord;
   MEdge; MNode; MEnd; MMarker; MReferenceLocal; MArray; MStringlikeArray;
   MArrayBegin; MArrayChunk; MArrayData].

Lemma all_rules_complete r : In r all_rules.
Proof. destruct r; cbn; tauto. Qed.
Lemma all_meths_complete m : In m all_meths.
Proof. destruct m; cbn; tauto. Qed.

Definition table_forall (f : rule -> meth -> list prim -> bool) : bool :=
  forallb (fun r => forallb (fun m => f r m (dispatch r m)) all_meths) all_rules.

Lemma table_forall_spec f : table_forall f = true -> forall r m, f r m (dispatch r m) = true.
Proof.
  unfold table_forall. intros H r m. rewrite forallb_forall in H.
  specialize (H r (all_rules_complete r)). rewrite forallb_forall in H.
  exact (H m (all_meths_complete m)).
Qed.

Definition is_reject (p : prim) : bool := match p with PReject => true | _ => false end.
Definition has_reject (cell : list prim) : bool := existsb is_reject cell.

(* ------------------------------------------------------------------------- *)
(* Inversion helpers                                                          *)
(* ------------------------------------------------------------------------- *)
Ltac inv_some :=
  repeat match goal with
  | H : Some _ = Some _ |- _ => inversion H; subst; clear H
  | H : None = Some _ |- _ => discriminate H
  | H : (_, _) = (_, _) |- _ => inversion H; subst; clear H
  | H : match ?x with _ => _ end = Some _ |- _ => destruct x eqn:?; try discriminate H
  end.

Lemma exec_prims_reject cfg call self m a ps c :
  has_reject ps = true -> exec_prims cfg call self m a ps c = None.
Proof.
  revert c; induction ps as [|p ps IH]; intros c H; cbn in H; [discriminate|].
  cbn [exec_prims]. apply orb_true_iff in H as [H|H].
  - destruct p; try discriminate H. reflexivity.
  - destruct (exec_prim cfg call self m a p c); [apply IH; exact H | reflexivity].
Qed.

Lemma exec_prims_app cfg call self m a ps1 ps2 c :
  exec_prims cfg call self m a (ps1 ++ ps2) c =
  match exec_prims cfg call self m a ps1 c with
  | Some c1 => exec_prims cfg call self m a ps2 c1
  | None => None
  end.
Proof.
  revert c; induction ps1 as [|p ps IH]; intro c; cbn [app exec_prims]; [reflexivity|].
  destruct (exec_prim cfg call self m a p c); [apply IH | reflexivity].
Qed.

(* The induction principle behind every lifted fact: what holds of every cell, assuming it of
   the nested calls, holds of [call_rule] at every fuel. *)
Lemma call_rule_ind_gen cfg (P : rule -> meth -> args -> rctx -> rctx -> Prop) :
  (forall call, (forall r m a c c', call r m a c = Some c' -> P r m a c c') ->
     forall r m a c c', exec_prims cfg call r m a (dispatch r m) c = Some c' -> P r m a c c') ->
  forall f r m a c c', call_rule f cfg r m a c = Some c' -> P r m a c c'.
Proof.
  intros Hcell f; induction f as [|f IH]; intros r m a c c' H; cbn [call_rule] in H; [discriminate|].
  exact (Hcell (call_rule f cfg) IH r m a c c' H).
Qed.

(* Preorders on contexts (and, as a special case, invariants): if every statement allowed by
   [pok] relates its input and output whenever nested calls do, and every cell of the matrix
   consists of allowed statements (or rejects), then every method call relates input and
   output.  [Ra] restricts the call arguments (it must be stable under the argument changes
   the statements perform; that is part of the statement hypothesis). *)
Section Preorder.
  Variable cfg : rcfg.
  Variable R : rctx -> rctx -> Prop.
  Variable Ra : args -> Prop.
  Variable pok : prim -> bool.
  Hypothesis R_refl : forall c, R c c.
  Hypothesis R_trans : forall a b c, R a b -> R b c -> R a c.
  Hypothesis prim_R : forall call,
    (forall r m a c c', Ra a -> call r m a c = Some c' -> R c c') ->
    forall self m a p c c', Ra a -> pok p = true -> exec_prim cfg call self m a p c = Some c' -> R c c'.

  Lemma exec_prims_R call :
    (forall r m a c c', Ra a -> call r m a c = Some c' -> R c c') ->
    forall self m a ps c c', Ra a -> forallb pok ps = true -> exec_prims cfg call self m a ps c = Some c' -> R c c'.
  Proof.
    intros Hcall self m a ps; induction ps as [|p ps IH]; intros c c' Ha Hok H; cbn [exec_prims] in H.
    - inv_some. apply R_refl.
    - cbn [forallb] in Hok. apply andb_true_iff in Hok as [Hp Hps].
      destruct (exec_prim cfg call self m a p c) as [c1|] eqn:E; [|discriminate].
      eapply R_trans; [eapply prim_R; eauto | eapply IH; eauto].
  Qed.

  Hypothesis table_ok : table_forall (fun _ _ cell => has_reject cell || forallb pok cell) = true.

  Lemma call_rule_R : forall f r m a c c', Ra a -> call_rule f cfg r m a c = Some c' -> R c c'.
  Proof.
    intros f r m a c c' Ha H. revert Ha.
    apply (call_rule_ind_gen cfg (fun _ _ a c c' => Ra a -> R c c')) with (f := f) (r := r) (m := m); [|exact H].
    clear f r m a c c' H. intros call Hcall r m a c c' H Ha.
    pose proof (table_forall_spec _ table_ok r m) as T. cbn beta in T. apply orb_true_iff in T as [T|T].
    - rewrite exec_prims_reject in H by exact T. discriminate.
    - eapply exec_prims_R; eauto.
  Qed.
End Preorder.

(* ------------------------------------------------------------------------- *)
(* Case analysis of one statement                                             *)
(* ------------------------------------------------------------------------- *)
(* Unfolds the statement in [H : exec_prim ... = Some c'] down to the record updates and the
   nested calls. *)
Ltac unfold_prims H :=
  cbn [exec_prim] in H;
  unfold key_from_array, chunk_data, end_chunk, rule_chunk, try_end_array, end_container, end_container_like,
         begin_container, unstack_rule, local_reference, mark_object, begin_array_any, notify_key in H.

Ltac prim_cases p H := destruct p; unfold_prims H; inv_some.

