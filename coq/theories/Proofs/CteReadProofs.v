(* C02 — lemmas about the CTE reader model (Model/CteRead.v) and its composition with the
   CTE encoder model (Model/CteEnc.v). *)
From CE Require Import Model.CteRead Proofs.Utf8Lemmas.
From CE Require Model.CteLit Model.CteEnc Proofs.CteLitProofs Gen.CteCharTables.
From Coq Require Import ZifyN ZifyNat ZifyBool Lia.
Open Scope N_scope.

(* ------------------------------------------------------------------ *)
(** * Interval tables: what the encoder leaves unescaped, the lexer accepts *)

(* the upper end of the interval of [iv] that contains [x] *)
Fixpoint find_hi (iv : list (N * N)) (x : N) : option N :=
  match iv with
  | [] => None
  | (lo, hi) :: rest => if x <? lo then None else if x <=? hi then Some hi else find_hi rest x
  end.

Lemma find_hi_in iv x h : find_hi iv x = Some h -> forall r, x <= r <= h -> in_iv iv r = true.
Proof.
  induction iv as [|[lo hi] rest IH]; cbn [find_hi in_iv]; [discriminate|].
  intros H r Hr.
  destruct (N.ltb_spec x lo); [discriminate|].
  destruct (N.leb_spec x hi).
  - inversion H; subst. destruct (N.ltb_spec r lo); [lia|]. destruct (N.leb_spec r h); [reflexivity|lia].
  - destruct (N.ltb_spec r lo); [lia|]. destruct (N.leb_spec r hi); [reflexivity|]. apply IH; assumption.
Qed.

(* every point of [x, hi] lies in an interval of [a] or of [b] *)
Fixpoint covered (fuel : nat) (a b : list (N * N)) (x hi : N) : bool :=
  match fuel with
  | O => false
  | S f =>
    if hi <? x then true
    else match find_hi a x with
         | Some h => covered f a b (h + 1) hi
         | None => match find_hi b x with
                   | Some h => covered f a b (h + 1) hi
                   | None => false
                   end
         end
  end.

Lemma covered_ok fuel a b : forall x hi, covered fuel a b x hi = true ->
  forall r, x <= r <= hi -> in_iv a r || in_iv b r = true.
Proof.
  induction fuel as [|f IH]; cbn [covered]; [discriminate|].
  intros x hi H r Hr.
  destruct (N.ltb_spec hi x); [lia|].
  destruct (find_hi a x) as [h|] eqn:Ea.
  - destruct (N.le_gt_cases r h).
    + rewrite (find_hi_in _ _ _ Ea) by lia. reflexivity.
    + apply (IH _ _ H). lia.
  - destruct (find_hi b x) as [h|] eqn:Eb; [|discriminate].
    destruct (N.le_gt_cases r h).
    + rewrite (find_hi_in _ _ _ Eb r) by lia. apply orb_true_r.
    + apply (IH _ _ H). lia.
Qed.

Lemma in_iv_enc iv r : CteEnc.in_intervals iv r = in_iv iv r.
Proof. induction iv as [|[lo hi] rest IH]; cbn; [reflexivity|]. rewrite IH. reflexivity. Qed.

Definition scalar (r : N) : Prop := r < 55296 \/ (57344 <= r /\ r < 1114112).

Lemma scalar_valid r : scalar r <-> CteLit.valid_scalar r = true.
Proof. unfold scalar, CteLit.valid_scalar. lia. Qed.

(* every Unicode scalar value is escaped by the encoder or accepted by the lexer inside a string *)
Lemma safe_or_quoted_lo : covered 3000 CteCharTables.string_unsafe_intervals cte_quoted_intervals 0 55295 = true.
Proof. vm_compute. reflexivity. Qed.
Lemma safe_or_quoted_hi : covered 3000 CteCharTables.string_unsafe_intervals cte_quoted_intervals 57344 1114111 = true.
Proof. vm_compute. reflexivity. Qed.

Lemma safe_is_quoted r : scalar r -> CteEnc.rune_safe r = true -> ch_quoted r = true /\ r <> 34 /\ r <> 92.
Proof.
  intros Hs Hsafe. unfold CteEnc.rune_safe in Hsafe. rewrite in_iv_enc in Hsafe.
  assert (Hc : in_iv CteCharTables.string_unsafe_intervals r || in_iv cte_quoted_intervals r = true).
  { destruct Hs as [Hs|Hs].
    - apply (covered_ok _ _ _ _ _ safe_or_quoted_lo). lia.
    - apply (covered_ok _ _ _ _ _ safe_or_quoted_hi). lia. }
  apply negb_true_iff in Hsafe. rewrite Hsafe in Hc. cbn [orb] in Hc.
  split; [exact Hc|].
  split; intro E; subst r; vm_compute in Hsafe; discriminate.
Qed.

(* ------------------------------------------------------------------ *)
(** * Digits *)

Lemma digit_val_digit_char d : d < 36 -> CteLit.digit_val (CteEnc.digit_char d) = Some d.
Proof.
  intro H. unfold CteLit.digit_val, CteEnc.digit_char, CteLit.is_dec, CteLit.lower.
  destruct (N.ltb_spec d 10).
  - replace ((48 <=? 48 + d) && (48 + d <=? 57)) with true by lia. f_equal. lia.
  - replace ((48 <=? 87 + d) && (87 + d <=? 57)) with false by lia.
    replace ((65 <=? 87 + d) && (87 + d <=? 90)) with false by lia.
    replace ((97 <=? 87 + d) && (87 + d <=? 122)) with true by lia. f_equal. lia.
Qed.

Lemma to_digits_aux_val base : 2 <= base -> base <= 36 ->
  forall fuel n acc, n < base ^ N.of_nat fuel ->
    CteLit.chars_val base (CteEnc.to_digits_aux fuel base n acc) 0 = CteLit.chars_val base acc n.
Proof.
  intros Hb1 Hb2. induction fuel as [|f IH]; intros n acc Hn.
  - cbn [CteEnc.to_digits_aux]. change (N.of_nat 0) with 0 in Hn. rewrite N.pow_0_r in Hn.
    replace n with 0 by lia. reflexivity.
  - cbn [CteEnc.to_digits_aux].
    assert (Hmod : n mod base < base) by (apply N.mod_lt; lia).
    assert (Hdm : n = base * (n / base) + n mod base) by (apply N.div_mod; lia).
    destruct (N.eqb_spec (n / base) 0) as [Hq|Hq].
    + cbn [CteLit.chars_val]. rewrite digit_val_digit_char by lia.
      f_equal. rewrite Hq in Hdm. lia.
    + rewrite IH.
      * cbn [CteLit.chars_val]. rewrite digit_val_digit_char by lia. f_equal. lia.
      * rewrite Nat2N.inj_succ, N.pow_succ_r' in Hn. apply N.div_lt_upper_bound; lia.
Qed.

Lemma lt_pow_size base n : 2 <= base -> n < base ^ N.of_nat (S (N.to_nat (N.size n))).
Proof.
  intro Hb. rewrite Nat2N.inj_succ, N2Nat.id.
  apply N.lt_le_trans with (2 ^ N.size n); [apply N.size_gt|].
  apply N.le_trans with (base ^ N.size n).
  - apply N.pow_le_mono_l. exact Hb.
  - apply N.pow_le_mono_r; lia.
Qed.

Lemma to_digits_val base n : 2 <= base -> base <= 36 -> CteLit.chars_val base (CteEnc.to_digits base n) 0 = n.
Proof.
  intros. unfold CteEnc.to_digits. rewrite to_digits_aux_val by (try assumption; apply lt_pow_size; assumption).
  reflexivity.
Qed.

(* the characters of a number are digit characters below the base *)
Definition digit_below (base c : N) : Prop := exists d, d < base /\ c = CteEnc.digit_char d.

Lemma to_digits_aux_chars base : 2 <= base ->
  forall fuel n acc, Forall (digit_below base) acc -> Forall (digit_below base) (CteEnc.to_digits_aux fuel base n acc).
Proof.
  intros Hb. induction fuel as [|f IH]; intros n acc Hacc; cbn [CteEnc.to_digits_aux]; [exact Hacc|].
  assert (Hc : Forall (digit_below base) (CteEnc.digit_char (n mod base) :: acc)).
  { constructor; [|exact Hacc]. exists (n mod base). split; [apply N.mod_lt; lia|reflexivity]. }
  destruct (n / base =? 0); [exact Hc|apply IH; exact Hc].
Qed.
Lemma to_digits_chars base n : 2 <= base -> Forall (digit_below base) (CteEnc.to_digits base n).
Proof. intro. apply to_digits_aux_chars; [assumption|constructor]. Qed.

Lemma to_digits_aux_nonempty fuel base n acc : CteEnc.to_digits_aux (S fuel) base n acc <> [].
Proof.
  revert n acc; induction fuel as [|f IH]; intros n acc; cbn [CteEnc.to_digits_aux].
  - destruct (n / base =? 0); discriminate.
  - destruct (n / base =? 0); [discriminate|]. apply (IH (n / base)).
Qed.
Lemma to_digits_nonempty base n : CteEnc.to_digits base n <> [].
Proof. apply to_digits_aux_nonempty. Qed.

(* the leading digit of a non-zero number is not '0' *)
Lemma to_digits_aux_head base : 2 <= base ->
  forall fuel n acc, n <> 0 -> n < base ^ N.of_nat fuel ->
    exists d r, CteEnc.to_digits_aux fuel base n acc = CteEnc.digit_char d :: r /\ d <> 0 /\ d < base.
Proof.
  intros Hb1. induction fuel as [|f IH]; intros n acc Hn0 Hn.
  - change (N.of_nat 0) with 0 in Hn. rewrite N.pow_0_r in Hn. lia.
  - cbn [CteEnc.to_digits_aux].
    assert (Hmod : n mod base < base) by (apply N.mod_lt; lia).
    assert (Hdm : n = base * (n / base) + n mod base) by (apply N.div_mod; lia).
    destruct (N.eqb_spec (n / base) 0) as [Hq|Hq].
    + exists (n mod base), acc. split; [reflexivity|]. rewrite Hq in Hdm. split; lia.
    + apply IH; [exact Hq|]. rewrite Nat2N.inj_succ, N.pow_succ_r' in Hn.
      apply N.div_lt_upper_bound; lia.
Qed.
Lemma to_digits_head base n : 2 <= base -> n <> 0 ->
  exists d r, CteEnc.to_digits base n = CteEnc.digit_char d :: r /\ d <> 0 /\ d < base.
Proof. intros. apply to_digits_aux_head; try assumption. apply lt_pow_size; assumption. Qed.

Lemma to_digits_0 base : CteEnc.to_digits base 0 = [48].
Proof.
  unfold CteEnc.to_digits. change (N.size 0) with 0. cbn [N.to_nat CteEnc.to_digits_aux].
  destruct base as [|p]; reflexivity.
Qed.

Lemma digit_below_hex c : digit_below 16 c -> is_hex c = true /\ CteLit.is_hex c = true /\ c <> 95 /\ c <> 93.
Proof.
  intros [d [Hd ->]]. unfold CteEnc.digit_char.
  destruct (N.ltb_spec d 10).
  - assert (E1 : is_dec (48 + d) = true) by (unfold is_dec; lia).
    assert (E2 : CteLit.is_dec (48 + d) = true) by (unfold CteLit.is_dec; lia).
    unfold is_hex, CteLit.is_hex. rewrite E1, E2. cbn [orb]. repeat split; lia.
  - assert (L1 : lower (87 + d) = 87 + d).
    { unfold lower. replace ((65 <=? 87 + d) && (87 + d <=? 90)) with false by lia. reflexivity. }
    assert (L2 : CteLit.lower (87 + d) = 87 + d).
    { unfold CteLit.lower. replace ((65 <=? 87 + d) && (87 + d <=? 90)) with false by lia. reflexivity. }
    unfold is_hex, CteLit.is_hex, CteLit.is_hexletter. rewrite L1, L2.
    replace ((97 <=? 87 + d) && (87 + d <=? 102)) with true by lia.
    rewrite !orb_true_r. repeat split; lia.
Qed.

Lemma digit_below_dec c : digit_below 10 c -> is_dec c = true /\ CteLit.is_dec c = true /\ 48 <= c <= 57.
Proof.
  intros [d [Hd ->]]. unfold CteEnc.digit_char, is_dec, CteLit.is_dec.
  destruct (N.ltb_spec d 10); lia.
Qed.

Lemma span_all p (a : inp) b :
  forallb p a = true -> (match b with c :: _ => p c = false | [] => True end) -> span p (a ++ b) = (a, b).
Proof.
  intros Ha Hb. induction a as [|c a IH]; cbn [app].
  - destruct b as [|c b]; cbn [span]; [reflexivity|]. rewrite Hb. reflexivity.
  - cbn [forallb] in Ha. apply andb_true_iff in Ha as [Hc Ha]. cbn [span]. rewrite Hc, (IH Ha). reflexivity.
Qed.

(* ------------------------------------------------------------------ *)
(** * Strings: reading what the encoder's escaping decision writes *)

(* the characters WriteQuotedString puts between the quotes, as code points *)
Definition qrune (r : N) : inp := if CteEnc.rune_safe r then [r] else CteEnc.escape_rune r.
Definition qbody (rs : list N) : inp := flat_map qrune rs.

(* parseHexCodepoint on the hex digits of [r] (since fix 9d7e9c8 of /repo a value that is not a Unicode scalar
   value is an error; before, it became U+FFFD) *)
Lemma impl_codepoint_digits r : r < 2 ^ 32 ->
  CteLit.impl_codepoint (CteEnc.to_digits 16 r) = if CteLit.valid_scalar r then Ok (CteLit.utf8_enc r) else Err.
Proof.
  intro Hr.
  assert (Hch := to_digits_chars 16 r ltac:(lia)).
  assert (Hne := to_digits_nonempty 16 r).
  assert (Hv : CteLit.hex_val (CteEnc.to_digits 16 r) = r) by (apply to_digits_val; lia).
  set (ds := CteEnc.to_digits 16 r) in *. clearbody ds.
  assert (Hall2 : forallb CteLit.is_hex ds = true).
  { apply forallb_forall. intros c Hc. rewrite Forall_forall in Hch. apply digit_below_hex, Hch, Hc. }
  unfold CteLit.impl_codepoint, CteLit.go_parse_uint. destruct ds as [|c0 cs]; [congruence|].
  change (16 =? 0) with false. cbv iota. cbn [andb].
  change 16 with (CteLit.ibase_n CteLit.B16). rewrite (CteLitProofs.go_digits_chars CteLit.B16 false (c0 :: cs) 0 Hall2).
  change (CteLit.ibase_n CteLit.B16) with 16. change (CteLit.chars_val 16 (c0 :: cs) 0) with (CteLit.hex_val (c0 :: cs)).
  rewrite Hv. replace (r <? 2 ^ 32) with true by lia. reflexivity.
Qed.

Lemma hex_escape_lex r f idx rest acc : r < 2 ^ 32 ->
  lex_str (S f) idx (92 :: 91 :: CteEnc.to_digits 16 r ++ 93 :: rest) acc =
  if CteLit.valid_scalar r then lex_str f idx rest (acc ++ CteLit.utf8_enc r) else None.
Proof.
  intro Hr. assert (Hcp := impl_codepoint_digits r Hr).
  assert (Hch := to_digits_chars 16 r ltac:(lia)).
  assert (Hne := to_digits_nonempty 16 r).
  set (ds := CteEnc.to_digits 16 r) in *. clearbody ds.
  assert (Hall : forallb is_hex ds = true).
  { apply forallb_forall. intros c Hc. rewrite Forall_forall in Hch. apply digit_below_hex, Hch, Hc. }
  cbn [lex_str]. change (92 =? 34) with false. change (92 =? 92) with true.
  change (91 =? 46) with false. change (91 =? 91) with true. cbv iota.
  rewrite (span_all is_hex ds (93 :: rest) Hall) by reflexivity.
  rewrite Hcp. destruct ds as [|c0 cs]; [congruence|]. destruct (CteLit.valid_scalar r); reflexivity.
Qed.

(* the escape the encoder writes for a scalar value is read back as that value *)
Lemma hex_escape_reads r f idx rest acc : scalar r ->
  lex_str (S f) idx (92 :: 91 :: CteEnc.to_digits 16 r ++ 93 :: rest) acc =
  lex_str f idx rest (acc ++ CteLit.utf8_enc r).
Proof.
  intro Hs. rewrite hex_escape_lex by (unfold scalar in Hs; lia). rewrite (proj1 (scalar_valid r) Hs). reflexivity.
Qed.

(* an escape for a surrogate or a value above U+10FFFF is rejected *)
Lemma hex_escape_not_scalar r f idx rest acc : r < 2 ^ 32 -> ~ scalar r ->
  lex_str (S f) idx (92 :: 91 :: CteEnc.to_digits 16 r ++ 93 :: rest) acc = None.
Proof.
  intros Hr Hs. rewrite hex_escape_lex by exact Hr. destruct (CteLit.valid_scalar r) eqn:E; [|reflexivity].
  exfalso. apply Hs, scalar_valid, E.
Qed.

Lemma qrune_reads r f idx rest acc : scalar r ->
  lex_str (S f) idx (qrune r ++ rest) acc = lex_str f idx rest (acc ++ CteLit.utf8_enc r).
Proof.
  intro Hs. unfold qrune. destruct (CteEnc.rune_safe r) eqn:Esafe.
  - destruct (safe_is_quoted r Hs Esafe) as [Hq [H34 H92]].
    cbn [app lex_str]. apply N.eqb_neq in H34, H92. rewrite H34, H92, Hq. reflexivity.
  - unfold CteEnc.escape_rune.
    destruct (N.eqb_spec r 9); [subst; reflexivity|].
    destruct (N.eqb_spec r 13); [subst; reflexivity|].
    destruct (N.eqb_spec r 10); [subst; reflexivity|].
    destruct (N.eqb_spec r 34); [subst; reflexivity|].
    destruct (N.eqb_spec r 42); [subst; reflexivity|].
    destruct (N.eqb_spec r 47); [subst; reflexivity|].
    destruct (N.eqb_spec r 92); [subst; reflexivity|].
    cbn [app]. rewrite <- app_assoc. cbn [app]. apply hex_escape_reads, Hs.
Qed.

Lemma qrune_length r : (1 <= length (qrune r))%nat.
Proof.
  unfold qrune. destruct (CteEnc.rune_safe r); [cbn; lia|]. unfold CteEnc.escape_rune.
  repeat match goal with |- context [if ?b then _ else _] => destruct b; [cbn; lia|] end.
  cbn [app length]. lia.
Qed.

(* unescape (escape s) = s: the reader applied to the encoder's rendering of the code points [rs],
   followed by the closing quote, returns their UTF-8 text and leaves the lexer state untouched *)
Theorem lex_str_qbody rs : Forall scalar rs ->
  forall fuel idx rest acc, (length rs < fuel)%nat ->
    lex_str fuel idx (qbody rs ++ 34 :: rest) acc = Some (acc ++ CteLit.utf8_str rs, rest, idx).
Proof.
  induction 1 as [|r rs Hr Hrs IH]; intros fuel idx rest acc Hf.
  - destruct fuel as [|f]; [cbn in Hf; lia|]. cbn. rewrite app_nil_r. reflexivity.
  - destruct fuel as [|f]; [cbn in Hf; lia|].
    unfold qbody. cbn [flat_map]. rewrite <- app_assoc. rewrite qrune_reads by exact Hr.
    fold (qbody rs). rewrite IH by (cbn [length] in Hf; lia).
    unfold CteLit.utf8_str. cbn [flat_map]. rewrite app_assoc. reflexivity.
Qed.

(* ------------------------------------------------------------------ *)
(** * Code points of a text *)

Lemma runes_fuel_irrel : forall f1 f2 s, (length s <= f1)%nat -> (length s <= f2)%nat -> runes_fuel f1 s = runes_fuel f2 s.
Proof.
  induction f1 as [|f1 IH]; intros f2 s H1 H2.
  - destruct s; [destruct f2; reflexivity | cbn in H1; lia].
  - destruct s as [|b s]; [destruct f2; reflexivity|].
    destruct f2 as [|f2]; [cbn in H2; lia|].
    cbn [runes_fuel]. destruct (decode_rune (b :: s)) as [[c n]|] eqn:E.
    + f_equal. destruct (decode_rune_inv _ _ _ E) as [Hn _].
      assert (length (skipn n (b :: s)) <= length s)%nat.
      { rewrite skipn_length. cbn [length]. lia. }
      cbn [length] in H1, H2. apply IH; lia.
    + f_equal. cbn [skipn]. cbn [length] in H1, H2. apply IH; lia.
Qed.

Lemma runes_decode s c n : decode_rune s = Some (c, n) -> runes s = c :: runes (skipn n s).
Proof.
  intro E. unfold runes. destruct s as [|b s]; [discriminate|].
  cbn [length runes_fuel]. rewrite E. f_equal.
  destruct (decode_rune_inv _ _ _ E) as [Hn _].
  apply runes_fuel_irrel; rewrite skipn_length; cbn [length]; lia.
Qed.

Lemma runes_ascii_cons b s : b < 128 -> runes (b :: s) = b :: runes s.
Proof.
  intro H. rewrite (runes_decode (b :: s) b 1); [reflexivity|].
  unfold decode_rune. replace (b <? 128) with true by lia. reflexivity.
Qed.

Definition ascii (a : bytes) : Prop := Forall (fun b => b < 128) a.

Lemma runes_ascii_app a s : ascii a -> runes (a ++ s) = a ++ runes s.
Proof.
  induction 1 as [|b a Hb Ha IH]; [reflexivity|]. cbn [app]. rewrite runes_ascii_cons by exact Hb. rewrite IH. reflexivity.
Qed.

Lemma runes_enc_app v s : scalar v -> runes (CteLit.utf8_enc v ++ s) = v :: runes s.
Proof.
  intro Hv. apply scalar_valid in Hv.
  rewrite (runes_decode _ _ _ (CteLitProofs.utf8_enc_decode v s Hv)).
  rewrite skipn_length_app. reflexivity.
Qed.

Lemma runes_utf8_str_app rs s : Forall scalar rs -> runes (CteLit.utf8_str rs ++ s) = rs ++ runes s.
Proof.
  induction 1 as [|r rs Hr Hrs IH]; [reflexivity|].
  unfold CteLit.utf8_str. cbn [flat_map]. rewrite <- app_assoc, runes_enc_app by exact Hr.
  fold (CteLit.utf8_str rs). rewrite IH. reflexivity.
Qed.

Lemma runes_nil : runes [] = [].
Proof. reflexivity. Qed.

Lemma encode_rune_enc r : scalar r -> CteEnc.encode_rune r = CteLit.utf8_enc r.
Proof.
  intro H. unfold CteEnc.encode_rune, CteLit.utf8_enc, scalar in *.
  destruct (r <? 128); [reflexivity|]. destruct (r <? 2048); [reflexivity|].
  replace ((55296 <=? r) && (r <=? 57343) || (1114111 <? r)) with false by lia. reflexivity.
Qed.

Lemma digit_char_ascii d : d < 36 -> CteEnc.digit_char d < 128.
Proof. unfold CteEnc.digit_char. destruct (N.ltb_spec d 10); lia. Qed.

Lemma to_digits_ascii base n : 2 <= base -> base <= 36 -> ascii (CteEnc.to_digits base n).
Proof.
  intros H1 H2. eapply Forall_impl; [|apply to_digits_chars; exact H1].
  intros c [d [Hd ->]]. apply digit_char_ascii. lia.
Qed.

Lemma escape_rune_ascii r : ascii (CteEnc.escape_rune r).
Proof.
  unfold CteEnc.escape_rune, ascii.
  repeat match goal with |- context [if ?b then _ else _] => destruct b; [repeat constructor; lia|] end.
  cbn [app]. constructor; [lia|]. constructor; [lia|]. apply Forall_app. split.
  - apply to_digits_ascii; lia.
  - repeat constructor; lia.
Qed.

(* the bytes WriteQuotedString puts between the quotes *)
Definition qbytes (rs : list N) : bytes :=
  flat_map (fun r => if CteEnc.rune_safe r then CteEnc.encode_rune r else CteEnc.escape_rune r) rs.

Lemma runes_qbytes_app rs s : Forall scalar rs -> runes (qbytes rs ++ s) = qbody rs ++ runes s.
Proof.
  induction 1 as [|r rs Hr Hrs IH]; [reflexivity|].
  unfold qbytes, qbody. cbn [flat_map]. rewrite <- !app_assoc. fold (qbytes rs) (qbody rs).
  unfold qrune. destruct (CteEnc.rune_safe r).
  - rewrite encode_rune_enc, runes_enc_app by exact Hr. rewrite IH. reflexivity.
  - rewrite runes_ascii_app by apply escape_rune_ascii. rewrite IH. reflexivity.
Qed.

(* ------------------------------------------------------------------ *)
(** * Scalar tokens *)

(* what follows a keyword or number: the end of the text or white space *)
Definition wsd (rest : inp) : Prop := match rest with [] => True | c :: _ => is_ws c = true end.

Lemma ws_cases c : is_ws c = true -> c = 32 \/ c = 9 \/ c = 10 \/ c = 13.
Proof. unfold is_ws. lia. Qed.

Lemma word_null rest : word_token (110 :: 117 :: 108 :: 108 :: rest) = Some (TVal ENull, rest).
Proof. reflexivity. Qed.
Lemma word_true rest : word_token (116 :: 114 :: 117 :: 101 :: rest) = Some (TVal (EBool true), rest).
Proof. reflexivity. Qed.
Lemma word_false rest : word_token (102 :: 97 :: 108 :: 115 :: 101 :: rest) = Some (TVal (EBool false), rest).
Proof. reflexivity. Qed.

(* digits followed by a delimiter *)
Definition dws (s rest : inp) : Prop := wsd rest /\ exists ds, forallb is_dec ds = true /\ s = ds ++ rest.

Lemma dec_facts c : is_dec c = true -> 48 <= c <= 57.
Proof. unfold is_dec. lia. Qed.
Lemma dec_lower c : is_dec c = true -> lower c = c.
Proof. intro H. apply dec_facts in H. unfold lower. replace ((65 <=? c) && (c <=? 90)) with false by lia. reflexivity. Qed.
Lemma ws_lower c : is_ws c = true -> lower c = c.
Proof. intro H. apply ws_cases in H. unfold lower. replace ((65 <=? c) && (c <=? 90)) with false by lia. reflexivity. Qed.
Lemma dec_hex c : is_dec c = true -> is_hex c = true.
Proof. intro H. unfold is_hex. rewrite H. reflexivity. Qed.
Lemma ws_not_hex c : is_ws c = true -> is_hex c = false.
Proof. intro H. unfold is_hex, is_dec. rewrite (ws_lower c H). apply ws_cases in H. lia. Qed.
Lemma ws_not_dec c : is_ws c = true -> is_dec c = false.
Proof. intro H. apply ws_cases in H. unfold is_dec. lia. Qed.

Lemma dws_refl rest : wsd rest -> dws rest rest.
Proof. intro H. split; [exact H|]. exists []. split; reflexivity. Qed.

Lemma dws_cons c s rest : is_dec c = true -> dws s rest -> dws (c :: s) rest.
Proof. intros Hc [Hw [ds [Hds ->]]]. split; [exact Hw|]. exists (c :: ds). cbn [forallb]. rewrite Hc, Hds. split; reflexivity. Qed.

Lemma dws_tail c s rest : dws (c :: s) rest -> is_dec c = true -> dws s rest.
Proof.
  intros [Hw [ds [Hds E]]] Hc. split; [exact Hw|]. destruct ds as [|d ds].
  - cbn [app] in E. subst rest. cbn [wsd] in Hw. rewrite (ws_not_dec c Hw) in Hc. discriminate.
  - cbn [app] in E. inversion E; subst. cbn [forallb] in Hds. apply andb_true_iff in Hds as [_ Hds].
    exists ds. split; [exact Hds|reflexivity].
Qed.

(* the head of such a text is a digit or white space, or the text is empty *)
Lemma dws_head s rest : dws s rest ->
  match s with [] => True | c :: _ => is_dec c = true \/ is_ws c = true end.
Proof.
  intros [Hw [ds [Hds ->]]]. destruct ds as [|d ds]; cbn [app].
  - destruct rest; [exact I|]. right. exact Hw.
  - cbn [forallb] in Hds. apply andb_true_iff in Hds as [Hd _]. left. exact Hd.
Qed.

Lemma dm_dws s rest : dws s rest -> dm is_dec s = rest.
Proof.
  intros [Hw [ds [Hds ->]]]. induction ds as [|c ds IH]; cbn [app].
  - destruct rest as [|c r]; [reflexivity|]. cbn [dm]. cbn [wsd] in Hw. rewrite (ws_not_dec c Hw).
    apply ws_cases in Hw. replace (c =? 95) with false by lia. reflexivity.
  - cbn [forallb] in Hds. apply andb_true_iff in Hds as [Hc Hds]. cbn [dm]. rewrite Hc. apply IH, Hds.
Qed.

Lemma m_char_dws p s rest : dws s rest ->
  (forall c, is_dec c = true \/ is_ws c = true -> p c = false) -> m_char p s = None.
Proof.
  intros Hd Hp. apply dws_head in Hd. destruct s as [|c s]; [reflexivity|]. cbn [m_char]. rewrite (Hp c Hd). reflexivity.
Qed.

Lemma m_lit_dws x s rest : dws s rest -> (x < 48 \/ 57 < x) -> x <> 32 -> x <> 9 -> x <> 10 -> x <> 13 ->
  m_lit x s = None.
Proof.
  intros Hd Hx H1 H2 H3 H4. apply (m_char_dws _ s rest Hd).
  intros c [Hc|Hc]; [apply dec_facts in Hc | apply ws_cases in Hc]; lia.
Qed.

(* the second character of such a text is not one of the base letters *)
Lemma m_prefixed_dws letter isd s rest : dws s rest -> 97 <= letter -> m_prefixed letter isd s = None.
Proof.
  intros Hd Hl. unfold m_prefixed. destruct s as [|z s]; [reflexivity|]. destruct s as [|c s]; [reflexivity|].
  destruct (z =? 48) eqn:Ez; [|reflexivity]. cbn [andb].
  assert (Hz : is_dec z = true) by (apply N.eqb_eq in Ez; subst; reflexivity).
  apply dws_tail in Hd; [|exact Hz]. apply dws_head in Hd.
  replace (lower c =? letter) with false; [reflexivity|].
  symmetry. apply N.eqb_neq. destruct Hd as [Hc|Hc].
  - rewrite (dec_lower c Hc). apply dec_facts in Hc. lia.
  - rewrite (ws_lower c Hc). apply ws_cases in Hc. lia.
Qed.

Lemma m_upto_dws k : forall s rest, dws s rest -> dws (m_upto k is_dec s) rest.
Proof.
  induction k as [|k IH]; intros s rest Hd; cbn [m_upto]; [exact Hd|].
  destruct s as [|c s]; [exact Hd|]. cbn [m_char]. destruct (is_dec c) eqn:Ec; [|exact Hd].
  apply IH. apply (dws_tail c); assumption.
Qed.

Lemma m_n_hex_dws k : forall s rest, dws s rest -> match m_n k is_hex s with Some s' => dws s' rest | None => True end.
Proof.
  induction k as [|k IH]; intros s rest Hd; cbn [m_n]; [exact Hd|].
  destruct s as [|c s]; [exact I|]. cbn [m_char].
  destruct (dws_head _ _ Hd) as [Hc|Hc].
  - rewrite (dec_hex c Hc). cbn [obind]. apply IH. apply (dws_tail c); assumption.
  - rewrite (ws_not_hex c Hc). exact I.
Qed.

Lemma m_float_tail_dws isd letter rest : wsd rest -> letter = 101 \/ letter = 112 -> m_float_tail isd letter true rest = None.
Proof.
  intros Hw Hl. unfold m_float_tail, m_frac, m_exp. destruct rest as [|c r]; [reflexivity|].
  cbn [wsd] in Hw. rewrite (ws_lower c Hw). apply ws_cases in Hw.
  replace (c =? 46) with false by lia. replace (c =? letter) with false by lia. reflexivity.
Qed.

(* a run of decimal digits followed by a delimiter is a decimal integer token *)
Lemma candidates_digits d ds rest : is_dec d = true -> dws ds rest ->
  best_match (word_candidates (d :: ds)) None = Some (WInt, rest).
Proof.
  intros Hd Hds.
  assert (Hall : dws (d :: ds) rest) by (apply dws_cons; assumption).
  assert (Hdf := dec_facts d Hd). assert (Hlow := dec_lower d Hd).
  assert (Hneg : m_neg (d :: ds) = d :: ds).
  { unfold m_neg, m_opt, m_lit. cbn [m_char]. replace (45 =? d) with false by lia. reflexivity. }
  assert (Hdig : m_digits is_dec (d :: ds) = Some rest).
  { cbn [m_digits]. rewrite Hd. f_equal. apply dm_dws, Hds. }
  unfold word_candidates.
  assert (W : forall x w, (x < 48 \/ 57 < x) -> m_word (x :: w) (d :: ds) = None).
  { intros x w Hx. cbn [m_word]. rewrite Hlow. replace (d =? x) with false by lia. reflexivity. }
  rewrite !W by lia.
  assert (Hint : m_int (d :: ds) = Some rest).
  { unfold m_int. rewrite Hneg. rewrite !(m_prefixed_dws _ _ _ rest Hall) by lia. exact Hdig. }
  rewrite Hint.
  assert (Hfd : m_float_dec true (d :: ds) = None).
  { unfold m_float_dec. rewrite Hneg, Hdig. cbn [obind]. apply m_float_tail_dws; [apply Hds|left; reflexivity]. }
  rewrite Hfd.
  assert (Hfh : m_float_hex true (d :: ds) = None).
  { unfold m_float_hex. rewrite Hneg. rewrite (m_prefixed_dws _ _ _ rest Hall) by lia. reflexivity. }
  rewrite Hfh.
  assert (Hdate : m_date (d :: ds) = None).
  { unfold m_date. rewrite Hneg, Hdig. cbn [obind].
    rewrite (m_lit_dws 45 rest rest) by (try lia; apply dws_refl, Hds). reflexivity. }
  rewrite Hdate.
  assert (Htime : m_time (d :: ds) = None).
  { unfold m_time, m_1to. cbn [m_char]. rewrite Hd. cbn [obind].
    rewrite (m_lit_dws 58 _ rest) by (try lia; apply m_upto_dws, Hds). reflexivity. }
  rewrite Htime.
  assert (Huid : m_uid (d :: ds) = None).
  { unfold m_uid. assert (H8 := m_n_hex_dws 8 _ _ Hall).
    destruct (m_n 8 is_hex (d :: ds)) as [s'|]; [|reflexivity]. cbn [obind].
    rewrite (m_lit_dws 45 s' rest) by (try lia; exact H8). reflexivity. }
  rewrite Huid. reflexivity.
Qed.

Lemma consumed_app (a b : inp) : consumed (a ++ b) b = a.
Proof. unfold consumed. rewrite app_length. replace (length a + length b - length b)%nat with (length a) by lia. apply firstn_length_app. Qed.

Lemma candidates_neg_digits d ds rest : is_dec d = true -> dws ds rest ->
  best_match (word_candidates (45 :: d :: ds)) None = Some (WInt, rest).
Proof.
  intros Hd Hds.
  assert (Hall : dws (d :: ds) rest) by (apply dws_cons; assumption).
  assert (Hdf := dec_facts d Hd). assert (Hlow := dec_lower d Hd).
  assert (Hneg : m_neg (45 :: d :: ds) = d :: ds) by reflexivity.
  assert (Hdig : m_digits is_dec (d :: ds) = Some rest).
  { cbn [m_digits]. rewrite Hd. f_equal. apply dm_dws, Hds. }
  unfold word_candidates.
  assert (W : forall x w, x <> 45 -> m_word (x :: w) (45 :: d :: ds) = None).
  { intros x w Hx. cbn [m_word]. change (lower 45) with 45. replace (45 =? x) with false by lia. reflexivity. }
  rewrite !W by lia.
  assert (Wn : m_word [45; 105; 110; 102] (45 :: d :: ds) = None).
  { cbn [m_word]. change (lower 45 =? 45) with true. cbv iota. rewrite Hlow. replace (d =? 105) with false by lia. reflexivity. }
  rewrite Wn.
  assert (Hint : m_int (45 :: d :: ds) = Some rest).
  { unfold m_int. rewrite Hneg. rewrite !(m_prefixed_dws _ _ _ rest Hall) by lia. exact Hdig. }
  rewrite Hint.
  assert (Hfd : m_float_dec true (45 :: d :: ds) = None).
  { unfold m_float_dec. rewrite Hneg, Hdig. cbn [obind]. apply m_float_tail_dws; [apply Hds|left; reflexivity]. }
  rewrite Hfd.
  assert (Hfh : m_float_hex true (45 :: d :: ds) = None).
  { unfold m_float_hex. rewrite Hneg. rewrite (m_prefixed_dws _ _ _ rest Hall) by lia. reflexivity. }
  rewrite Hfh.
  assert (Hdate : m_date (45 :: d :: ds) = None).
  { unfold m_date. rewrite Hneg, Hdig. cbn [obind].
    rewrite (m_lit_dws 45 rest rest) by (try lia; apply dws_refl, Hds). reflexivity. }
  rewrite Hdate. reflexivity.
Qed.

(* ---- the value of a decimal spelling ---- *)

Definition dec_lit (neg : bool) (c0 : N) (cs : bytes) : CteLit.int_lit :=
  {| CteLit.i_neg := neg; CteLit.i_base := CteLit.B10; CteLit.i_upper := false;
     CteLit.i_digits := {| CteLit.d_first := c0; CteLit.d_rest := map (fun c => (O, c)) cs |} |}.

Lemma render_plain cs : flat_map (fun p : nat * N => repeat CteLit.c_us (fst p) ++ [snd p]) (map (fun c => (O, c)) cs) = cs.
Proof. induction cs as [|c cs IH]; [reflexivity|]. cbn [map flat_map fst snd repeat app]. rewrite IH. reflexivity. Qed.

Lemma map_snd_plain (cs : bytes) : map snd (map (fun c => (O, c)) cs) = cs.
Proof. induction cs as [|c cs IH]; [reflexivity|]. cbn [map snd]. rewrite IH. reflexivity. Qed.

Lemma render_dec_lit (neg : bool) c0 cs : CteLit.render_int (dec_lit neg c0 cs) = (if neg then [45] else []) ++ c0 :: cs.
Proof.
  unfold CteLit.render_int, dec_lit, CteLit.render_dseq, CteLit.sign_chars, CteLit.prefix_chars.
  cbn [CteLit.i_neg CteLit.i_base CteLit.i_upper CteLit.i_digits CteLit.d_first CteLit.d_rest app]. rewrite render_plain. destruct neg; reflexivity.
Qed.

(* what the reader reports for the decimal spelling of (-)n *)
Definition rd_int (neg : bool) (n : N) : event :=
  if (n =? 0) && neg then ENegInt 0
  else let v := if neg then (- Z.of_N n)%Z else Z.of_N n in
       if ((- 2 ^ 63 <=? v) && (v <? 2 ^ 63))%Z then EInt v else EBigInt (Some v).

Lemma impl_int_dec (neg : bool) (n : N) :
  CteLit.impl_int ((if neg then [45] else []) ++ CteEnc.dec n) = Ok (CteLit.spec_int (dec_lit neg (hd 0 (CteEnc.dec n)) (tl (CteEnc.dec n)))) /\
  lit_event (CteLit.spec_int (dec_lit neg (hd 0 (CteEnc.dec n)) (tl (CteEnc.dec n)))) = rd_int neg n.
Proof.
  unfold CteEnc.dec.
  assert (Hne := to_digits_nonempty 10 n).
  assert (Hch := to_digits_chars 10 n ltac:(lia)).
  assert (Hv := to_digits_val 10 n ltac:(lia) ltac:(lia)).
  assert (Hhead : n <> 0 -> exists d r, CteEnc.to_digits 10 n = CteEnc.digit_char d :: r /\ d <> 0 /\ d < 10)
    by (intro; apply to_digits_head; [lia|assumption]).
  assert (H0 : n = 0 -> CteEnc.to_digits 10 n = [48]) by (intro; subst; apply to_digits_0).
  set (ds := CteEnc.to_digits 10 n) in *. clearbody ds.
  destruct ds as [|c0 cs]; [congruence|]. cbn [hd tl].
  assert (Hok : CteLit.int_lit_ok (dec_lit neg c0 cs) = true).
  { unfold CteLit.int_lit_ok, CteLit.dseq_ok, CteLit.dseq_chars, dec_lit.
    cbn [CteLit.i_base CteLit.i_digits CteLit.d_first CteLit.d_rest]. rewrite map_snd_plain.
    apply forallb_forall. intros c Hc. rewrite Forall_forall in Hch. cbn [CteLit.digit_ok]. apply digit_below_dec, Hch, Hc. }
  assert (Hlz : CteLit.leading_zero_dec (dec_lit neg c0 cs) = false).
  { unfold CteLit.leading_zero_dec, dec_lit. cbn [CteLit.i_base CteLit.i_digits CteLit.d_first CteLit.d_rest].
    destruct (N.eq_dec n 0) as [E|E].
    - specialize (H0 E). inversion H0; subst. reflexivity.
    - destruct (Hhead E) as [d [r [Ed [Hd0 Hd]]]]. inversion Ed; subst.
      unfold CteEnc.digit_char. replace (d <? 10) with true by lia. replace (48 + d =? 48) with false by lia. reflexivity. }
  split.
  - rewrite <- render_dec_lit. apply CteLitProofs.int_literal_exact; assumption.
  - assert (Hmag : CteLit.int_mag (dec_lit neg c0 cs) = n).
    { unfold CteLit.int_mag, CteLit.dseq_val, CteLit.dseq_chars, dec_lit.
      cbn [CteLit.i_base CteLit.i_digits CteLit.d_first CteLit.d_rest CteLit.ibase_n]. rewrite map_snd_plain. exact Hv. }
    unfold CteLit.spec_int, CteLit.int_value, rd_int. rewrite Hmag.
    change (CteLit.i_neg (dec_lit neg c0 cs)) with neg.
    destruct neg.
    + destruct (N.eqb_spec n 0) as [E|E].
      * rewrite E. reflexivity.
      * replace ((- Z.of_N n =? 0)%Z) with false by lia. cbn [andb].
        destruct ((- 2 ^ 63 <=? - Z.of_N n)%Z && (- Z.of_N n <? 2 ^ 63)%Z); reflexivity.
    + rewrite !andb_false_r.
      destruct ((- 2 ^ 63 <=? Z.of_N n)%Z && (Z.of_N n <? 2 ^ 63)%Z); reflexivity.
Qed.

Lemma dec_dws n rest : wsd rest -> exists d ds, CteEnc.dec n = d :: ds /\ is_dec d = true /\ dws (ds ++ rest) rest.
Proof.
  intro Hw. unfold CteEnc.dec.
  assert (Hne := to_digits_nonempty 10 n).
  assert (Hch := to_digits_chars 10 n ltac:(lia)).
  destruct (CteEnc.to_digits 10 n) as [|d ds]; [congruence|].
  exists d, ds. split; [reflexivity|]. inversion Hch; subst. split; [apply digit_below_dec; assumption|].
  split; [exact Hw|]. exists ds. split; [|reflexivity].
  apply forallb_forall. intros c Hc. rewrite Forall_forall in H2. apply digit_below_dec, H2, Hc.
Qed.

(* integers: the reader on the encoder's decimal text *)
Theorem word_token_dec (neg : bool) (n : N) rest : wsd rest ->
  word_token ((if neg then [45] else []) ++ CteEnc.dec n ++ rest) = Some (TVal (rd_int neg n), rest).
Proof.
  intro Hw. destruct (dec_dws n rest Hw) as [d [ds [Ed [Hd Hds]]]].
  destruct (impl_int_dec neg n) as [Himpl Hev].
  unfold word_token.
  assert (Hbest : best_match (word_candidates ((if neg then [45] else []) ++ CteEnc.dec n ++ rest)) None = Some (WInt, rest)).
  { rewrite Ed. destruct neg; cbn [app]; [apply candidates_neg_digits | apply candidates_digits]; assumption. }
  rewrite Hbest. rewrite app_assoc, consumed_app. rewrite Himpl. cbn [oc_opt option_map]. rewrite Hev. reflexivity.
Qed.

(* ------------------------------------------------------------------ *)
(** * Comments *)

Definition strip_cr (acc : inp) : inp :=
  match acc with a :: acc' => if a =? 13 then rev acc' else rev acc | [] => [] end.

Lemma line_comment_reads t rest acc : forallb (fun c => negb (c =? 10)) t = true ->
  line_comment (t ++ 10 :: rest) acc = Some (strip_cr (rev t ++ acc), rest).
Proof.
  revert acc. induction t as [|c t IH]; intros acc H; cbn [app line_comment].
  - change (10 =? 10) with true. reflexivity.
  - cbn [forallb] in H. apply andb_true_iff in H as [Hc Ht]. apply negb_true_iff in Hc. rewrite Hc.
    rewrite IH by exact Ht. cbn [rev]. rewrite <- app_assoc. reflexivity.
Qed.

(* a single-line comment the text form can carry: no line feed, no carriage return at the end *)
Definition line_ok (t : inp) : bool :=
  forallb (fun c => negb (c =? 10)) t && negb (match rev t with a :: _ => a =? 13 | [] => false end).

Lemma line_comment_ok t rest : line_ok t = true -> line_comment (t ++ 10 :: rest) [] = Some (t, rest).
Proof.
  unfold line_ok. intro H. apply andb_true_iff in H as [H1 H2]. rewrite line_comment_reads by exact H1.
  rewrite app_nil_r. unfold strip_cr. destruct (rev t) as [|a r] eqn:E.
  - apply (f_equal (@rev N)) in E. rewrite rev_involutive in E. subst. reflexivity.
  - apply negb_true_iff in H2. rewrite H2. rewrite <- E, rev_involutive. reflexivity.
Qed.

(* a multi-line comment the text form can carry: scanning the text never sees an opener or a closer,
   and the text does not end with a slash (which would pair up with the closing delimiter) *)
Fixpoint blk_plain (p : pend) (t : inp) : bool :=
  match t with
  | [] => match p with PSlash => false | _ => true end
  | c :: r =>
    match p with
    | PSlash => if c =? 42 then false else blk_plain (if c =? 47 then PSlash else PNone) r
    | PStar => if c =? 47 then false else blk_plain (if c =? 42 then PStar else PNone) r
    | PNone => blk_plain (if c =? 47 then PSlash else if c =? 42 then PStar else PNone) r
    end
  end.

Lemma block_comment_reads t : forall p acc rest, blk_plain p t = true ->
  block_comment (t ++ 42 :: 47 :: rest) O p acc = Some (rev acc ++ t, rest).
Proof.
  induction t as [|c t IH]; intros p acc rest H.
  - cbn [app]. destruct p; cbn in H; try discriminate.
    + cbn [block_comment]. change (42 =? 47) with false. change (42 =? 42) with true. cbv iota.
      change (47 =? 47) with true. cbv iota. cbn [tl]. rewrite app_nil_r. reflexivity.
    + cbn [block_comment]. change (42 =? 47) with false. change (42 =? 42) with true. cbv iota.
      change (47 =? 47) with true. cbv iota. cbn [tl]. rewrite app_nil_r. reflexivity.
  - cbn [app block_comment]. cbn [blk_plain] in H. destruct p.
    + rewrite IH by exact H. cbn [rev]. rewrite <- app_assoc. reflexivity.
    + destruct (c =? 42); [discriminate|]. rewrite IH by exact H. cbn [rev]. rewrite <- app_assoc. reflexivity.
    + destruct (c =? 47); [discriminate|]. rewrite IH by exact H. cbn [rev]. rewrite <- app_assoc. reflexivity.
Qed.

(* a readable sufficient condition *)
Example blk_plain_examples :
  blk_plain PNone [97; 32; 42; 32; 47; 32; 98] = true /\ blk_plain PNone [42; 42; 97; 42] = true /\
  blk_plain PNone [97; 47] = false /\ blk_plain PNone [97; 42; 47; 98] = false /\ blk_plain PNone [47; 42] = false.
Proof. repeat split. Qed.

(* ------------------------------------------------------------------ *)
(* ------------------------------------------------------------------ *)
(** * Atoms: the values that are one event and one token

   null, booleans (OnBoolean and OnTrue / OnFalse), integers of every size and sign in the three scalar
   event forms, strings / resource ids / remote references (OnArray and OnStringlikeArray), local
   references, media (whole), custom binary and custom text (whole). *)

From CE Require Proofs.ConvertProofs Model.Convert Proofs.CteEncProofs.
From CE Require Import Base.LE.

(* the three string-like values: a string, a resource id @"...", a remote reference $"..." *)
Inductive skind := KStr | KRid | KRef.
Definition sty (k : skind) : N := match k with KStr => AT_String | KRid => AT_ResourceID | KRef => AT_ReferenceRemote end.
Definition spre (k : skind) : list N := match k with KStr => [] | KRid => [64] | KRef => [36] end.

(* element widths of the integer arrays *)
Inductive iw := W8 | W16 | W32 | W64.
Definition wbits (w : iw) : N := match w with W8 => 8 | W16 => 16 | W32 => 32 | W64 => 64 end.
Definition wbytes (w : iw) : nat := match w with W8 => 1 | W16 => 2 | W32 => 4 | W64 => 8 end%nat.
Definition ikind (sg : bool) (w : iw) : CteEnc.nkind :=
  match sg, w with
  | false, W8 => CteEnc.NU8 | false, W16 => CteEnc.NU16 | false, W32 => CteEnc.NU32 | false, W64 => CteEnc.NU64
  | true, W8 => CteEnc.NI8 | true, W16 => CteEnc.NI16 | true, W32 => CteEnc.NI32 | true, W64 => CteEnc.NI64
  end.
Definition ity (sg : bool) (w : iw) : N :=
  match sg, w with
  | false, W8 => AT_Uint8 | false, W16 => AT_Uint16 | false, W32 => AT_Uint32 | false, W64 => AT_Uint64
  | true, W8 => AT_Int8 | true, W16 => AT_Int16 | true, W32 => AT_Int32 | true, W64 => AT_Int64
  end.
Definition idata (w : iw) (xs : list N) : bytes := concat (map (le_encode (wbytes w)) xs).
Definition ielem (sg : bool) (w : iw) (x : N) : bytes := CteEnc.go_int_text sg (wbits w) x 10 O.
Fixpoint join32 (l : list (list N)) : list N :=
  match l with [] => [] | [a] => a | a :: r => a ++ 32 :: join32 r end.

Inductive atom :=
| ANull | ABool (plain b : bool) | APos (n : N) | ANeg (n : N) | AInt (z : Z)
| AStr (k : skind) (whole : bool) (rs : list N)
| ARef (id : list N)
| AMedia (mt : bytes) (data : bytes)
| ACustomB (ct : N) (data : bytes)
| ACustomT (ct : N) (rs : list N)
| AIntArr (sg : bool) (w : iw) (xs : list N)       (* a whole integer array given by its elements' bit patterns *)
| AUidArr (us : list bytes)                        (* a whole UID array given by its 16-byte elements *)
| AUid (u : bytes)                                 (* a UID value *)
| ABitArr (bits : list bool).                      (* a whole bit array (unused bits of the last byte zero) *)

Definition scalars (rs : list N) : Prop := Forall scalar rs.
Definition str_bytes (rs : list N) : bytes := CteLit.utf8_str rs.
Definition data_bytes (d : bytes) : Prop := Forall (fun b => b < 256) d.
(* an identifier as the lexer sees it: non-empty, CHAR_IDENTIFIER code points (for the identifiers the
   validator admits see [ident_valid_ok] below, which is C03's theorem) *)
Definition ident_ok (id : list N) : Prop := id <> [] /\ forallb ch_ident id = true /\ scalars id.

Definition awf (a : atom) : Prop :=
  match a with
  | AInt z => (- 2 ^ 63 <= z < 2 ^ 63)%Z
  | AStr _ _ rs => scalars rs
  | ARef id => ident_ok id
  | AMedia mt data => Convert.media_valid mt = true /\ data_bytes data
  | ACustomB ct data => ct < 2 ^ 64 /\ data_bytes data
  | ACustomT ct rs => ct < 2 ^ 64 /\ scalars rs
  | AIntArr sg w xs => Forall (fun x => x < 2 ^ wbits w) xs /\ N.of_nat (length xs) < 2 ^ 64
  | AUidArr us => Forall (fun u => length u = 16%nat /\ data_bytes u) us /\ N.of_nat (length us) < 2 ^ 64
  | AUid u => length u = 16%nat /\ data_bytes u
  | ABitArr bits => N.of_nat (length bits) < 2 ^ 64
  | _ => True
  end.

(* the event handed to the encoder, and the event the reader reports *)
Definition aevent (a : atom) : event :=
  match a with
  | ANull => ENull | ABool pl b => if pl then EBool b else if b then ETrue else EFalse
  | APos n => EPosInt n | ANeg n => ENegInt n | AInt z => EInt z
  | AStr k whole rs => if whole then EArray (sty k) (N.of_nat (length (str_bytes rs))) (str_bytes rs)
                       else EStringArray (sty k) (str_bytes rs)
  | ARef id => ERefLocal (str_bytes id)
  | AMedia mt data => EMedia mt data
  | ACustomB ct data => ECustomBin ct data
  | ACustomT ct rs => ECustomText ct (str_bytes rs)
  | AIntArr sg w xs => EArray (ity sg w) (N.of_nat (length xs)) (idata w xs)
  | AUidArr us => EArray AT_UID (N.of_nat (length us)) (concat us)
  | AUid u => EUid u
  | ABitArr bits => EArray AT_Bit (N.of_nat (length bits)) (pack_bits (length bits) bits)
  end.
Definition rd_z (z : Z) : event := rd_int (z <? 0)%Z (Z.abs_N z).
Definition ard (a : atom) : event :=
  match a with
  | ANull => ENull | ABool _ b => EBool b | APos n => rd_int false n | ANeg n => rd_int true n | AInt z => rd_z z
  | AStr k _ rs => EArray (sty k) (N.of_nat (length (str_bytes rs))) (str_bytes rs)
  | ARef id => ERefLocal (str_bytes id)
  | AMedia mt data => EMedia mt data
  | ACustomB ct data => ECustomBin ct data
  | ACustomT ct rs => ECustomText ct (str_bytes rs)
  | AIntArr sg w xs => EArray (ity sg w) (N.of_nat (length xs)) (idata w xs)
  | AUidArr us => EArray AT_UID (N.of_nat (length us)) (concat us)
  | AUid u => EUid u
  | ABitArr bits => EArray AT_Bit (N.of_nat (length bits)) (pack_bits (length bits) bits)
  end.
Definition adev (a : atom) : Denote.dev :=
  match a with
  | ANull => Denote.DNull | ABool _ b => Denote.DBool b
  | APos n => Denote.dnum false n 0 | ANeg n => Denote.dnum true n 0
  | AInt z => Denote.dnum (z <? 0)%Z (Z.abs_N z) 0
  | AStr k _ rs => Denote.DArr (sty k) (N.of_nat (length (str_bytes rs))) (str_bytes rs)
  | ARef id => Denote.DRef (str_bytes id)
  | AMedia mt data => Denote.DMedia mt data
  | ACustomB ct data => Denote.DCustom false ct data
  | ACustomT ct rs => Denote.DCustom true ct (str_bytes rs)
  | AIntArr sg w xs => Denote.DArr (ity sg w) (Denote.whole_count (ity sg w) (N.of_nat (length xs)) (idata w xs)) (idata w xs)
  | AUidArr us => Denote.DArr AT_UID (Denote.whole_count AT_UID (N.of_nat (length us)) (concat us)) (concat us)
  | AUid u => Denote.DUid u
  | ABitArr bits => Denote.DArr AT_Bit (Denote.whole_count AT_Bit (N.of_nat (length bits)) (pack_bits (length bits) bits)) (pack_bits (length bits) bits)
  end.

Definition spaces (k : N) : inp := repeat 32 (N.to_nat k).
Definition nl (k : N) : inp := 10 :: spaces k.
Definition int_text (neg : bool) (n : N) : inp := (if neg then [45] else []) ++ CteEnc.dec n.
Definition z_text (z : Z) : inp :=
  if (0 <=? z)%Z then CteEnc.dec (Z.to_N z) else 45 :: CteEnc.dec (Z.to_N (- z) mod 2 ^ 64).

(* the text of an atom; [fs] renders string contents, [fc] comment texts and identifiers: as bytes, or as
   the code points of those bytes *)
Definition atext (fs fc : list N -> list N) (a : atom) : list N :=
  match a with
  | ANull => CteEnc.t_null
  | ABool _ b => if b then CteEnc.t_true else CteEnc.t_false
  | APos n => int_text false n
  | ANeg n => int_text true n
  | AInt z => z_text z
  | AStr k _ rs => spre k ++ 34 :: fs rs ++ [34]
  | ARef id => 36 :: fc id
  | AMedia mt data => 64 :: mt ++ 91 :: CteEnc.hexbytes data ++ [93]
  | ACustomB ct data => 64 :: CteEnc.dec ct ++ 91 :: CteEnc.hexbytes data ++ [93]
  | ACustomT ct rs => 64 :: CteEnc.dec ct ++ 34 :: fs rs ++ [34]
  | AIntArr sg w xs => CteEnc.nk_name (ikind sg w) ++ 91 :: join32 (map (ielem sg w) xs) ++ [93]
  | AUidArr us => CteEnc.t_uidhdr ++ join32 (map CteEnc.uid_text us) ++ [93]
  | AUid u => CteEnc.uid_text u
  | ABitArr bits => CteEnc.t_bithdr ++ CteEncProofs.bits_text bits ++ [93]
  end.
Definition abytes : atom -> bytes := atext qbytes str_bytes.
Definition arunes : atom -> inp := atext qbody (fun rs => rs).

(* ---- ascii pieces ---- *)

Ltac ascii_tac := unfold ascii; repeat (first [apply Forall_nil | apply Forall_cons; [lia|]]).

Lemma ascii_app a b : ascii a -> ascii b -> ascii (a ++ b).
Proof. intros. apply Forall_app. split; assumption. Qed.
Lemma ascii_spaces k : ascii (spaces k).
Proof. unfold spaces, ascii. induction (N.to_nat k); cbn [repeat]; constructor; [lia|assumption]. Qed.
Lemma ascii_nl k : ascii (nl k).
Proof. unfold nl. constructor; [lia|apply ascii_spaces]. Qed.
Lemma ascii_dec n : ascii (CteEnc.dec n).
Proof. apply to_digits_ascii; lia. Qed.
Lemma ascii_int_text neg n : ascii (int_text neg n).
Proof. unfold int_text. apply ascii_app; [destruct neg; ascii_tac|apply ascii_dec]. Qed.
Lemma ascii_z_text z : ascii (z_text z).
Proof. unfold z_text. destruct (0 <=? z)%Z; [apply ascii_dec|]. constructor; [lia|apply ascii_dec]. Qed.

Lemma ascii_hex2 b : b < 256 -> ascii (CteEnc.hex2 b).
Proof.
  intro H. unfold CteEnc.hex2. constructor; [apply digit_char_ascii|constructor; [apply digit_char_ascii|constructor]].
  - assert (b / 16 < 16) by (apply N.div_lt_upper_bound; lia). lia.
  - assert (b mod 16 < 16) by (apply N.mod_lt; lia). lia.
Qed.
Lemma ascii_hexbytes d : data_bytes d -> ascii (CteEnc.hexbytes d).
Proof.
  induction 1 as [|b r Hb Hr IH]; [constructor|]. cbn [CteEnc.hexbytes]. destruct r as [|b2 r'].
  - apply ascii_hex2, Hb.
  - apply ascii_app; [apply ascii_hex2, Hb|]. constructor; [lia|exact IH].
Qed.
Lemma ascii_runes a : ascii a -> runes a = a.
Proof. intro H. rewrite <- (app_nil_r a) at 1. rewrite runes_ascii_app by exact H. apply app_nil_r. Qed.

Lemma media_ascii mt : Convert.media_valid mt = true -> ascii mt.
Proof. unfold Convert.media_valid. intro H. apply andb_true_iff in H as [_ H]. apply ConvertProofs.media_type_valid_ascii, H. Qed.

Lemma ascii_ielem sg w x : ascii (ielem sg w x).
Proof.
  unfold ielem, CteEnc.go_int_text. apply ascii_app; [destruct (_ && _); ascii_tac|].
  unfold CteEnc.pad_left. apply ascii_app; [|apply to_digits_ascii; lia].
  unfold ascii. apply Forall_forall. intros c Hc. apply repeat_spec in Hc. subst. lia.
Qed.
Lemma ascii_join32 l : Forall ascii l -> ascii (join32 l).
Proof.
  induction 1 as [|a r Ha Hr IH]; [constructor|]. cbn [join32]. destruct r; [exact Ha|].
  apply ascii_app; [exact Ha|]. constructor; [lia|exact IH].
Qed.
Lemma ascii_nk_name sg w : ascii (CteEnc.nk_name (ikind sg w)).
Proof. destruct sg, w; cbn; ascii_tac. Qed.

Lemma nth_byte u : data_bytes u -> forall i, nth i u 0 < 256.
Proof. intros Hd i. destruct (nth_in_or_default i u 0) as [Hi|E]; [apply (proj1 (Forall_forall _ _) Hd), Hi|rewrite E; lia]. Qed.
Lemma ascii_uid_text u : data_bytes u -> ascii (CteEnc.uid_text u).
Proof.
  intro Hd. assert (Hb := nth_byte u Hd). unfold CteEnc.uid_text. cbv zeta beta.
  repeat (apply ascii_app; [first [apply ascii_hex2, Hb | ascii_tac]|]). apply ascii_hex2, Hb.
Qed.

Lemma ascii_bits_text l : ascii (CteEncProofs.bits_text l).
Proof. unfold ascii. induction l as [|b l IH]; [constructor|]. cbn [CteEncProofs.bits_text map]. constructor; [destruct b; cbn; lia|exact IH]. Qed.

(* ---- code points of the text ---- *)

Lemma atom_runes a : awf a -> forall tail, runes (abytes a ++ tail) = arunes a ++ runes tail.
Proof.
  intros Hwf tail. unfold abytes, arunes. destruct a; cbn [atext awf] in *.
  - apply runes_ascii_app. unfold CteEnc.t_null. ascii_tac.
  - destruct b; apply runes_ascii_app; [unfold CteEnc.t_true|unfold CteEnc.t_false]; ascii_tac.
  - apply runes_ascii_app, ascii_int_text.
  - apply runes_ascii_app, ascii_int_text.
  - apply runes_ascii_app, ascii_z_text.
  - destruct k; cbn [spre app]; rewrite !runes_ascii_cons by lia; rewrite <- app_assoc;
      rewrite runes_qbytes_app by exact Hwf; cbn [app]; rewrite runes_ascii_cons by lia; rewrite <- ?app_assoc; reflexivity.
  - destruct Hwf as [_ [_ Hs]]. cbn [app]. rewrite runes_ascii_cons by lia. unfold str_bytes.
    rewrite runes_utf8_str_app by exact Hs. reflexivity.
  - destruct Hwf as [Hm Hd]. apply runes_ascii_app. constructor; [lia|]. apply ascii_app; [apply media_ascii, Hm|].
    constructor; [lia|]. apply ascii_app; [apply ascii_hexbytes, Hd|ascii_tac].
  - destruct Hwf as [_ Hd]. apply runes_ascii_app. constructor; [lia|]. apply ascii_app; [apply ascii_dec|].
    constructor; [lia|]. apply ascii_app; [apply ascii_hexbytes, Hd|ascii_tac].
  - destruct Hwf as [_ Hs]. cbn [app]. rewrite runes_ascii_cons by lia. rewrite <- app_assoc.
    rewrite runes_ascii_app by apply ascii_dec. cbn [app]. rewrite runes_ascii_cons by lia. rewrite <- app_assoc.
    rewrite runes_qbytes_app by exact Hs. cbn [app]. rewrite runes_ascii_cons by lia. rewrite <- ?app_assoc. cbn [app]. rewrite <- ?app_assoc. reflexivity.
  - apply runes_ascii_app. apply ascii_app; [apply ascii_nk_name|]. constructor; [lia|]. apply ascii_app; [|ascii_tac].
    apply ascii_join32. apply Forall_forall. intros t Ht. apply in_map_iff in Ht as [x [E _]]. subst. apply ascii_ielem.
  - apply runes_ascii_app. apply ascii_app; [unfold CteEnc.t_uidhdr; ascii_tac|]. apply ascii_app; [|ascii_tac].
    apply ascii_join32. apply Forall_forall. intros t Ht. apply in_map_iff in Ht as [x [E Hx]]. subst. apply ascii_uid_text.
    apply (proj1 (Forall_forall _ _) (proj1 Hwf)), Hx.
  - apply runes_ascii_app, ascii_uid_text, (proj2 Hwf).
  - apply runes_ascii_app. apply ascii_app; [unfold CteEnc.t_bithdr; ascii_tac|]. apply ascii_app; [apply ascii_bits_text|ascii_tac].
Qed.

(* [ts] are the next tokens of [s], which leaves [rest]; every token consumes something *)
Fixpoint lexes (ts : list tok) (s rest : inp) : Prop :=
  match ts with
  | [] => s = rest
  | t :: ts' => exists mid, next_tok O s = Some (t, mid, O) /\ (length mid < length s)%nat /\ lexes ts' mid rest
  end.

Lemma lexes_app a b s m r : lexes a s m -> lexes b m r -> lexes (a ++ b) s r.
Proof.
  revert s. induction a as [|t a IH]; intros s Ha Hb; cbn [app lexes] in *; [subst; exact Hb|].
  destruct Ha as [mid [H1 [H2 H3]]]. exists mid. split; [exact H1|]. split; [exact H2|]. apply IH; assumption.
Qed.

Lemma lexes_one t s r : next_tok O s = Some (t, r, O) -> (length r < length s)%nat -> lexes [t] s r.
Proof. intros H1 H2. exists r. split; [exact H1|]. split; [exact H2|reflexivity]. Qed.

Lemma lexes_length ts : forall s r, lexes ts s r -> (length ts + length r <= length s)%nat.
Proof.
  induction ts as [|t ts IH]; intros s r H; cbn [lexes length] in *; [subst; lia|].
  destruct H as [mid [_ [H2 H3]]]. apply IH in H3. lia.
Qed.

Lemma lex_lexes ts : forall s r, lexes ts s r -> forall f, lex (length ts + f) O s = option_map (app ts) (lex f O r).
Proof.
  induction ts as [|t ts IH]; intros s r H f; cbn [lexes length] in *.
  - subst. cbn [app plus]. destruct (lex f 0 r); reflexivity.
  - destruct H as [mid [H1 [H2 H3]]]. cbn [plus lex]. destruct s as [|c s]; [cbn in H2; lia|].
    rewrite H1. rewrite (IH _ _ H3 f). destruct (lex f 0 r); reflexivity.
Qed.

Definition nows (X : inp) : Prop := match X with [] => True | c :: _ => is_ws c = false end.

Lemma span_spaces k X : nows X -> span is_ws (spaces k ++ X) = (spaces k, X).
Proof.
  intro H. apply span_all.
  - unfold spaces. induction (N.to_nat k); [reflexivity|]. cbn [repeat forallb]. rewrite IHn. reflexivity.
  - destruct X; [exact I|exact H].
Qed.

Lemma tok_nl k X : nows X -> next_tok O (nl k ++ X) = Some (TWs, X, O).
Proof. intro H. unfold nl. cbn [app next_tok]. change (is_ws 10) with true. cbv iota. rewrite span_spaces by exact H. reflexivity. Qed.

Lemma tok_spaces k X : 0 < k -> nows X -> next_tok O (spaces k ++ X) = Some (TWs, X, O).
Proof.
  intros Hk H. unfold spaces. destruct (N.to_nat k) as [|n] eqn:E; [lia|].
  cbn [repeat app next_tok]. change (is_ws 32) with true. cbv iota.
  change (repeat 32 n) with (spaces (N.of_nat n)) || idtac.
  replace (repeat 32 n) with (spaces (N.of_nat n)) by (unfold spaces; rewrite Nat2N.id; reflexivity).
  rewrite span_spaces by exact H. reflexivity.
Qed.

Lemma spaces_length k : length (spaces k) = N.to_nat k.
Proof. unfold spaces. apply repeat_length. Qed.

Lemma next_tok_word c s : (48 <= c <= 57 \/ c = 45) ->
  next_tok O (c :: s) = match word_token (c :: s) with Some (t, rest) => Some (t, rest, O) | None => None end.
Proof.
  intro H. unfold next_tok, is_ws.
  replace ((c =? 32) || (c =? 9) || (c =? 10) || (c =? 13)) with false by lia.
  replace (c =? 47) with false by lia. replace (c =? 91) with false by lia. replace (c =? 93) with false by lia.
  replace (c =? 123) with false by lia. replace (c =? 125) with false by lia. replace (c =? 61) with false by lia.
  replace (c =? 40) with false by lia. replace (c =? 41) with false by lia. replace (c =? 62) with false by lia.
  replace (c =? 34) with false by lia. replace (c =? 36) with false by lia. replace (c =? 38) with false by lia.
  replace (c =? 64) with false by lia. reflexivity.
Qed.

Lemma int_text_head neg n : exists c r, int_text neg n = c :: r /\ (48 <= c <= 57 \/ c = 45).
Proof.
  unfold int_text. destruct neg; cbn [app].
  - exists 45, (CteEnc.dec n). split; [reflexivity|lia].
  - destruct (dec_dws n [] I) as [d [ds [E [Hd _]]]]. exists d, ds. split; [exact E|]. left. apply dec_facts, Hd.
Qed.

Lemma tok_int neg n rest : wsd rest -> next_tok O (int_text neg n ++ rest) = Some (TVal (rd_int neg n), rest, O).
Proof.
  intro Hw. destruct (int_text_head neg n) as [c [r [E Hc]]].
  assert (Hword := word_token_dec neg n rest Hw).
  assert (E2 : int_text neg n ++ rest = c :: (r ++ rest)) by (rewrite E; reflexivity).
  rewrite E2, next_tok_word by exact Hc. rewrite <- E2. unfold int_text. rewrite <- app_assoc, Hword. reflexivity.
Qed.

Lemma z_text_int z : (- 2 ^ 63 <= z < 2 ^ 63)%Z -> z_text z = int_text (z <? 0)%Z (Z.abs_N z).
Proof.
  intro H. unfold z_text, int_text. destruct (Z.leb_spec 0 z).
  - replace (z <? 0)%Z with false by lia. cbn [app]. f_equal. lia.
  - replace (z <? 0)%Z with true by lia. cbn [app]. f_equal. f_equal. rewrite N.mod_small; lia.
Qed.

Lemma qbody_length rs : (length rs <= length (qbody rs))%nat.
Proof.
  induction rs as [|r rs IH]; [cbn; lia|]. unfold qbody in *. cbn [flat_map]. rewrite app_length. cbn [length].
  assert (H := qrune_length r). lia.
Qed.

Lemma tok_str rs rest : scalars rs ->
  next_tok O (34 :: qbody rs ++ 34 :: rest) = Some (TVal (EArray AT_String (N.of_nat (length (str_bytes rs))) (str_bytes rs)), rest, O).
Proof.
  intro Hs. cbn [next_tok]. change (is_ws 34) with false. cbv iota. change (34 =? 47) with false.
  change (34 =? 91) with false. change (34 =? 93) with false. change (34 =? 123) with false. change (34 =? 125) with false.
  change (34 =? 61) with false. change (34 =? 40) with false. change (34 =? 41) with false. change (34 =? 62) with false.
  change (34 =? 34) with true. cbv iota. unfold lex_string.
  rewrite lex_str_qbody; [reflexivity|exact Hs|].
  rewrite app_length. cbn [length]. assert (H := qbody_length rs). lia.
Qed.

Lemma tok_text k rs rest : scalars rs ->
  next_tok O (spre k ++ 34 :: qbody rs ++ 34 :: rest) = Some (TVal (EArray (sty k) (N.of_nat (length (str_bytes rs))) (str_bytes rs)), rest, O).
Proof.
  intro Hs. destruct k; cbn [spre app sty].
  - apply tok_str, Hs.
  - cbn [next_tok]. change (is_ws 64) with false. cbv iota. change (64 =? 47) with false.
    change (64 =? 91) with false. change (64 =? 93) with false. change (64 =? 123) with false. change (64 =? 125) with false.
    change (64 =? 61) with false. change (64 =? 40) with false. change (64 =? 41) with false. change (64 =? 62) with false.
    change (64 =? 34) with false. change (64 =? 36) with false. change (64 =? 38) with false. change (64 =? 64) with true. cbv iota.
    unfold at_token. cbn [m_media]. change (is_alpha 34) with false. cbv iota. unfold lex_string.
    rewrite lex_str_qbody; [reflexivity|exact Hs|].
    rewrite app_length. cbn [length]. assert (H := qbody_length rs). lia.
  - cbn [next_tok]. change (is_ws 36) with false. cbv iota. change (36 =? 47) with false.
    change (36 =? 91) with false. change (36 =? 93) with false. change (36 =? 123) with false. change (36 =? 125) with false.
    change (36 =? 61) with false. change (36 =? 40) with false. change (36 =? 41) with false. change (36 =? 62) with false.
    change (36 =? 34) with false. change (36 =? 36) with true. cbv iota. unfold lex_string.
    rewrite lex_str_qbody; [reflexivity|exact Hs|].
    rewrite app_length. cbn [length]. assert (H := qbody_length rs). lia.
Qed.

Lemma tok_line_comment rs rest : line_ok rs = true ->
  next_tok O (47 :: 47 :: rs ++ 10 :: rest) = Some (TComment false (str_bytes rs), rest, O).
Proof. intro H. cbn [next_tok]. change (is_ws 47) with false. cbv iota. change (47 =? 47) with true. cbv iota.
  rewrite line_comment_ok by exact H. reflexivity. Qed.

Lemma tok_block_comment rs rest : blk_plain PNone rs = true ->
  next_tok O (47 :: 42 :: rs ++ 42 :: 47 :: rest) = Some (TComment true (str_bytes rs), rest, O).
Proof. intro H. cbn [next_tok]. change (is_ws 47) with false. cbv iota. change (47 =? 47) with true. cbv iota.
  rewrite (block_comment_reads rs PNone [] rest H). reflexivity. Qed.

Lemma not_ws_range c : (48 <= c <= 57 \/ c = 45) -> is_ws c = false.
Proof. unfold is_ws. lia. Qed.

(* ---- new leaves: references, hexadecimal payloads, media, custom types ---- *)

Lemma ws_not_ident c : is_ws c = true -> ch_ident c = false.
Proof. intro H. apply ws_cases in H. destruct H as [E|[E|[E|E]]]; subst c; vm_compute; reflexivity. Qed.

Lemma wsd_stops_ident R : wsd R -> ConvertProofs.stops ch_ident R.
Proof. destruct R as [|c R]; [exact (fun _ => I)|]. cbn. apply ws_not_ident. Qed.

Lemma tok_ref id R : ident_ok id -> wsd R -> next_tok O (36 :: id ++ R) = Some (TVal (ERefLocal (str_bytes id)), R, O).
Proof. intros [Hne [Hid _]] Hw. apply ConvertProofs.ref_token; [exact Hne|exact Hid|apply wsd_stops_ident, Hw]. Qed.

(* hexadecimal digits *)
Lemma hexval_digit_char d : d < 16 -> hexval (CteEnc.digit_char d) = d.
Proof. intro H. unfold hexval. rewrite digit_val_digit_char by lia. reflexivity. Qed.

Lemma digit_char_hex_facts d : d < 16 ->
  is_hex (CteEnc.digit_char d) = true /\ is_ws (CteEnc.digit_char d) = false /\ CteEnc.digit_char d <> 93.
Proof.
  intro H. destruct (digit_below_hex (CteEnc.digit_char d)) as [A [_ [_ B]]]; [exists d; split; [exact H|reflexivity]|].
  split; [exact A|]. split; [|exact B]. unfold CteEnc.digit_char, is_ws. destruct (N.ltb_spec d 10); lia.
Qed.

Definition hexrun (b : N) : inp := CteEnc.hex2 b.

Lemma byte_elem_hexrun b : b < 256 -> byte_elem (hexrun b) = Some [b].
Proof.
  intro H. unfold hexrun, CteEnc.hex2, byte_elem.
  assert (H1 : b / 16 < 16) by (apply N.div_lt_upper_bound; lia).
  assert (H2 : b mod 16 < 16) by (apply N.mod_lt; lia).
  destruct (digit_char_hex_facts _ H1) as [A1 _]. destruct (digit_char_hex_facts _ H2) as [A2 _].
  rewrite A1, A2. cbn [andb]. rewrite !hexval_digit_char by assumption. f_equal. f_equal. lia.
Qed.

(* the run splitter on the encoder's "hh hh hh" text *)
Lemma arr_runs_hex b r : data_bytes (b :: r) -> forall rest runs tr,
  arr_runs (CteEnc.hexbytes (b :: r) ++ 93 :: rest) [] runs false tr =
  Some (rev runs ++ map hexrun (b :: r), false, false, rest).
Proof.
  revert b. induction r as [|b2 r IH]; intros b Hd rest runs tr; inversion Hd as [|? ? Hb Hr]; subst.
  - cbn [CteEnc.hexbytes map]. unfold CteEnc.hex2.
    assert (H1 : b / 16 < 16) by (apply N.div_lt_upper_bound; lia).
    assert (H2 : b mod 16 < 16) by (apply N.mod_lt; lia).
    destruct (digit_char_hex_facts _ H1) as [_ [W1 N1]]. destruct (digit_char_hex_facts _ H2) as [_ [W2 N2]].
    apply N.eqb_neq in N1, N2. cbn [app arr_runs]. rewrite N1, W1. cbn [arr_runs]. rewrite N2, W2. cbn [arr_runs].
    change (93 =? 93) with true. cbv iota. cbn [rev app]. unfold hexrun, CteEnc.hex2. reflexivity.
  - change (CteEnc.hexbytes (b :: b2 :: r)) with (CteEnc.hex2 b ++ 32 :: CteEnc.hexbytes (b2 :: r)). unfold CteEnc.hex2 at 1.
    assert (H1 : b / 16 < 16) by (apply N.div_lt_upper_bound; lia).
    assert (H2 : b mod 16 < 16) by (apply N.mod_lt; lia).
    destruct (digit_char_hex_facts _ H1) as [_ [W1 N1]]. destruct (digit_char_hex_facts _ H2) as [_ [W2 N2]].
    apply N.eqb_neq in N1, N2. cbn [app arr_runs]. rewrite N1, W1. cbn [arr_runs]. rewrite N2, W2. cbn [arr_runs].
    change (32 =? 93) with false. change (is_ws 32) with true. cbv iota.
    rewrite (IH b2 Hr rest _ true). cbn [rev map]. rewrite <- app_assoc. unfold hexrun, CteEnc.hex2. reflexivity.
Qed.

Lemma concat_hexruns d : data_bytes d -> concat_opt (map byte_elem (map hexrun d)) = Some d.
Proof.
  induction 1 as [|b r Hb Hr IH]; [reflexivity|]. cbn [map concat_opt]. rewrite byte_elem_hexrun by exact Hb. rewrite IH. reflexivity.
Qed.

Lemma bytes_body_hex d rest : data_bytes d -> bytes_body (CteEnc.hexbytes d ++ 93 :: rest) = Some (d, rest).
Proof.
  intro Hd. unfold bytes_body. destruct d as [|b r].
  - reflexivity.
  - rewrite (arr_runs_hex b r Hd rest [] false). cbn [orb rev app]. rewrite concat_hexruns by exact Hd. reflexivity.
Qed.

Lemma next_tok_at idx X : next_tok idx (64 :: X) = at_token idx X.
Proof. reflexivity. Qed.

Lemma tok_media mt data R : Convert.media_valid mt = true -> data_bytes data ->
  next_tok O (64 :: mt ++ 91 :: CteEnc.hexbytes data ++ 93 :: R) = Some (TVal (EMedia mt data), R, O).
Proof.
  intros Hm Hd. rewrite next_tok_at.
  destruct (ConvertProofs.media_valid_reread mt O (CteEnc.hexbytes data ++ 93 :: R) Hm) as [E _].
  rewrite (ascii_runes mt (media_ascii mt Hm)) in E. rewrite E, bytes_body_hex by exact Hd. reflexivity.
Qed.

(* custom type numbers *)
Lemma dec_ident n : forallb ch_ident (CteEnc.dec n) = true /\ forallb is_dec (CteEnc.dec n) = true.
Proof.
  assert (Hch := to_digits_chars 10 n ltac:(lia)). fold (CteEnc.dec n) in Hch. split; apply forallb_forall; intros c Hc;
    rewrite Forall_forall in Hch; destruct (digit_below_dec c (Hch c Hc)) as [A [_ B]]; [|exact A].
  assert (In c (nseq 48 10)) by (apply nseq_In; lia).
  assert (S : forallb ch_ident (nseq 48 10) = true) by (vm_compute; reflexivity).
  apply (proj1 (forallb_forall _ _) S), H.
Qed.

(* parseSmallUint = ParseUint(text, 10, 64) (base 0 before fix 601f9e0 of /repo): a run of decimal digits is read
   as its decimal value, leading zeros or not *)
Lemma parse_custom_digits ds : ds <> [] -> forallb is_dec ds = true ->
  CteLit.go_parse_uint ds 10 64 = if dval ds <? 2 ^ 64 then Some (dval ds) else None.
Proof.
  intros Hne Hd. unfold CteLit.go_parse_uint. destruct ds as [|c r]; [congruence|].
  change (10 =? 0) with false. cbv iota. cbn [andb].
  assert (Hok : forallb (CteLit.digit_ok CteLit.B10) (c :: r) = true).
  { apply forallb_forall. intros x Hx. apply (proj1 (forallb_forall _ _) Hd) in Hx. exact Hx. }
  assert (Hg := CteLitProofs.go_digits_chars CteLit.B10 false _ 0 Hok). cbn [CteLit.ibase_n] in Hg. rewrite Hg. reflexivity.
Qed.

Lemma parse_custom_type ct : ct < 2 ^ 64 -> CteLit.go_parse_uint (CteEnc.dec ct) 10 64 = Some ct.
Proof.
  intro H. unfold CteEnc.dec.
  assert (Hne := to_digits_nonempty 10 ct).
  assert (Hv := to_digits_val 10 ct ltac:(lia) ltac:(lia)).
  assert (Hch := to_digits_chars 10 ct ltac:(lia)).
  rewrite parse_custom_digits; [|exact Hne|].
  - unfold dval. rewrite Hv. replace (ct <? 2 ^ 64) with true by lia. reflexivity.
  - apply forallb_forall. intros c Hc. rewrite Forall_forall in Hch. apply digit_below_dec, Hch, Hc.
Qed.

Lemma at_token_custom ct t r : ct < 2 ^ 64 -> t = 91 \/ t = 34 ->
  at_token O (CteEnc.dec ct ++ t :: r) =
  if t =? 91 then match bytes_body r with Some (data, rest) => Some (TVal (ECustomBin ct data), rest, O) | None => None end
  else match lex_string O r with Some (data, rest, idx') => Some (TVal (ECustomText ct data), rest, idx') | None => None end.
Proof.
  intros Hct Ht. destruct (dec_dws ct [] I) as [d [ds [Ed [Hd _]]]].
  destruct (dec_ident ct) as [Hid Hdec]. assert (Hp := parse_custom_type ct Hct).
  unfold at_token. rewrite Ed in *. cbn [app].
  assert (Ha : is_alpha d = false) by (apply dec_facts in Hd; unfold is_alpha, lower; replace ((65 <=? d) && (d <=? 90)) with false by lia; lia).
  cbn [m_media]. rewrite Ha.
  rewrite ConvertProofs.match_lit34_40 by (apply dec_facts in Hd; lia).
  change (d :: ds ++ t :: r) with ((d :: ds) ++ t :: r).
  assert (Nt : ch_ident t = false) by (destruct Ht; subst t; reflexivity).
  rewrite (ConvertProofs.span_app ch_ident (d :: ds) (t :: r) Hid Nt).
  destruct Ht; subst t; cbn [N.eqb Pos.eqb]; rewrite Hdec, Hp; reflexivity.
Qed.

Lemma tok_custom_bin ct data R : ct < 2 ^ 64 -> data_bytes data ->
  next_tok O (64 :: CteEnc.dec ct ++ 91 :: CteEnc.hexbytes data ++ 93 :: R) = Some (TVal (ECustomBin ct data), R, O).
Proof.
  intros Hct Hd. rewrite next_tok_at, (at_token_custom ct 91 _ Hct (or_introl eq_refl)).
  change (91 =? 91) with true. cbv iota. rewrite bytes_body_hex by exact Hd. reflexivity.
Qed.

Lemma tok_custom_text ct rs R : ct < 2 ^ 64 -> scalars rs ->
  next_tok O (64 :: CteEnc.dec ct ++ 34 :: qbody rs ++ 34 :: R) = Some (TVal (ECustomText ct (str_bytes rs)), R, O).
Proof.
  intros Hct Hs. rewrite next_tok_at, (at_token_custom ct 34 _ Hct (or_intror eq_refl)).
  change (34 =? 91) with false. cbv iota. unfold lex_string.
  rewrite lex_str_qbody; [reflexivity|exact Hs|].
  rewrite app_length. cbn [length]. assert (H := qbody_length rs). lia.
Qed.

(* ---- integer arrays in the default (decimal) element format ---- *)

Definition clean (a : inp) : Prop := a <> [] /\ Forall (fun c => is_ws c = false /\ c <> 93) a.

Lemma arr_runs_run a : Forall (fun c => is_ws c = false /\ c <> 93) a -> forall Y cur runs lead tr,
  arr_runs (a ++ Y) cur runs lead tr = arr_runs Y (rev a ++ cur) runs lead (match a with [] => tr | _ => false end).
Proof.
  induction 1 as [|c a [Hw Hn] Ha IH]; intros Y cur runs lead tr; [reflexivity|].
  cbn [app arr_runs]. apply N.eqb_neq in Hn. rewrite Hn, Hw. rewrite IH. cbn [rev]. rewrite <- app_assoc. cbn [app].
  destruct a; reflexivity.
Qed.

Lemma arr_runs_clean a r : Forall clean (a :: r) -> forall rest runs tr,
  arr_runs (join32 (a :: r) ++ 93 :: rest) [] runs false tr = Some (rev runs ++ (a :: r), false, false, rest).
Proof.
  revert a. induction r as [|b r IH]; intros a Hc rest runs tr; inversion Hc as [|? ? [Hne Ha] Hr]; subst.
  - cbn [join32]. rewrite arr_runs_run by exact Ha. rewrite app_nil_r. destruct a as [|c a']; [congruence|].
    cbn [arr_runs]. change (93 =? 93) with true. cbv iota.
    destruct (rev (c :: a')) eqn:E; [apply (f_equal (@length N)) in E; rewrite rev_length in E; discriminate|].
    rewrite <- E, rev_involutive. cbn [rev]. reflexivity.
  - change (join32 (a :: b :: r)) with (a ++ 32 :: join32 (b :: r)). rewrite <- app_assoc. rewrite arr_runs_run by exact Ha.
    rewrite app_nil_r. destruct a as [|c a']; [congruence|]. cbn [app arr_runs]. change (32 =? 93) with false. change (is_ws 32) with true. cbv iota.
    destruct (rev (c :: a')) eqn:E; [apply (f_equal (@length N)) in E; rewrite rev_length in E; discriminate|].
    rewrite <- E, rev_involutive. rewrite (IH b Hr rest _ true). cbn [rev]. rewrite <- app_assoc. reflexivity.
Qed.

Lemma pad_left_zero c s : CteEnc.pad_left c 0 s = s.
Proof. unfold CteEnc.pad_left. reflexivity. Qed.

Definition ineg (sg : bool) (w : iw) (x : N) : bool := sg && (2 ^ (wbits w - 1) <=? x).
Definition imag (sg : bool) (w : iw) (x : N) : N := if ineg sg w x then 2 ^ wbits w - x else x.

Lemma ielem_int_text sg w x : x < 2 ^ wbits w -> ielem sg w x = int_text (ineg sg w x) (imag sg w x).
Proof.
  intro H. unfold ielem, CteEnc.go_int_text, int_text, imag, ineg.
  destruct (sg && (2 ^ (wbits w - 1) <=? x)) eqn:E.
  - change (0 - 1)%nat with 0%nat. rewrite pad_left_zero. unfold CteEnc.dec.
    assert (2 ^ wbits w <= 2 ^ 64) by (destruct w; cbn; lia).
    rewrite N.mod_small by lia. reflexivity.
  - rewrite pad_left_zero. reflexivity.
Qed.

Lemma max_us_plain cs : CteLit.max_us {| CteLit.d_first := 0; CteLit.d_rest := map (fun c => (O, c)) cs |} = O.
Proof. unfold CteLit.max_us. cbn [CteLit.d_rest]. induction cs as [|c cs IH]; [reflexivity|]. cbn [map fold_right fst]. rewrite IH. reflexivity. Qed.

Lemma dec_lit_facts (neg : bool) (n : N) :
  let l := dec_lit neg (hd 0 (CteEnc.dec n)) (tl (CteEnc.dec n)) in
  CteLit.render_int l = int_text neg n /\ CteLit.int_lit_ok l = true /\ CteLit.leading_zero_dec l = false /\
  CteLit.int_mag l = n /\ CteLit.single_us (CteLit.i_digits l) = true.
Proof.
  unfold int_text, CteEnc.dec.
  assert (Hne := to_digits_nonempty 10 n).
  assert (Hch := to_digits_chars 10 n ltac:(lia)).
  assert (Hv := to_digits_val 10 n ltac:(lia) ltac:(lia)).
  assert (Hhead : n <> 0 -> exists d r, CteEnc.to_digits 10 n = CteEnc.digit_char d :: r /\ d <> 0 /\ d < 10)
    by (intro; apply to_digits_head; [lia|assumption]).
  assert (H0 : n = 0 -> CteEnc.to_digits 10 n = [48]) by (intro; subst; apply to_digits_0).
  set (ds := CteEnc.to_digits 10 n) in *. clearbody ds.
  destruct ds as [|c0 cs]; [congruence|]. cbn [hd tl]. cbv zeta.
  split; [rewrite render_dec_lit; reflexivity|]. split; [|split; [|split]].
  - unfold CteLit.int_lit_ok, CteLit.dseq_ok, CteLit.dseq_chars, dec_lit.
    cbn [CteLit.i_base CteLit.i_digits CteLit.d_first CteLit.d_rest]. rewrite map_snd_plain.
    apply forallb_forall. intros c Hc. rewrite Forall_forall in Hch. cbn [CteLit.digit_ok]. apply digit_below_dec, Hch, Hc.
  - unfold CteLit.leading_zero_dec, dec_lit. cbn [CteLit.i_base CteLit.i_digits CteLit.d_first CteLit.d_rest].
    destruct (N.eq_dec n 0) as [E|E].
    + specialize (H0 E). inversion H0; subst. reflexivity.
    + destruct (Hhead E) as [d [r [Ed [Hd0 Hd]]]]. inversion Ed; subst.
      unfold CteEnc.digit_char. replace (d <? 10) with true by lia. replace (48 + d =? 48) with false by lia. reflexivity.
  - unfold CteLit.int_mag, CteLit.dseq_val, CteLit.dseq_chars, dec_lit.
    cbn [CteLit.i_base CteLit.i_digits CteLit.d_first CteLit.d_rest CteLit.ibase_n]. rewrite map_snd_plain. exact Hv.
  - unfold CteLit.single_us, dec_lit. cbn [CteLit.i_digits]. unfold CteLit.max_us. cbn [CteLit.d_rest].
    assert (E : fold_right (fun (p : nat * N) m => Nat.max (fst p) m) O (map (fun c => (O, c)) cs) = O).
    { clear. induction cs as [|c cs IH]; [reflexivity|]. cbn [map fold_right fst]. rewrite IH. reflexivity. }
    rewrite E. reflexivity.
Qed.

Lemma int_elem_ok_text sg (neg : bool) n : (neg = true -> sg = true) -> int_elem_ok sg 0 (int_text neg n) = true.
Proof.
  intro Hsg. destruct (dec_dws n [] I) as [d [ds [Ed [Hd Hds]]]]. rewrite app_nil_r in Hds.
  assert (Hall : dws (d :: ds) []) by (apply dws_cons; assumption).
  unfold int_elem_ok. change (0 =? 0) with true. cbv iota.
  assert (Hs1 : (if sg then m_neg (int_text neg n) else int_text neg n) = d :: ds).
  { unfold int_text. rewrite Ed. destruct neg; cbn [app].
    - rewrite (Hsg eq_refl). reflexivity.
    - destruct sg; [|reflexivity]. unfold m_neg, m_opt, m_lit. cbn [m_char]. apply dec_facts in Hd. replace (45 =? d) with false by lia. reflexivity. }
  rewrite Hs1. unfold full. rewrite !(m_prefixed_dws _ _ _ [] Hall) by lia. cbn [orb].
  cbn [m_digits]. rewrite Hd. rewrite (dm_dws ds [] Hds). reflexivity.
Qed.

Lemma le_bits_w w x : CteLit.le_bits (wbits w) x = le_encode (wbytes w) x.
Proof. destruct w; reflexivity. Qed.

Lemma elem_bits_w w : CteLitProofs.elem_bits (wbits w).
Proof. unfold CteLitProofs.elem_bits. destruct w; cbn; auto. Qed.

Lemma int_elem_reads sg w x : x < 2 ^ wbits w -> int_elem sg 0 (wbits w) (ielem sg w x) = Some (le_encode (wbytes w) x).
Proof.
  intro Hx. rewrite (ielem_int_text sg w x Hx). unfold int_elem.
  assert (Hp : 2 ^ wbits w = 2 * 2 ^ (wbits w - 1)) by (destruct w; reflexivity).
  assert (Hng : ineg sg w x = true -> sg = true) by (unfold ineg; destruct sg; [reflexivity|discriminate]).
  rewrite (int_elem_ok_text sg _ _ Hng).
  destruct (dec_lit_facts (ineg sg w x) (imag sg w x)) as [Hr [Hok [Hlz [Hmag Hsu]]]].
  set (l := dec_lit (ineg sg w x) (hd 0 (CteEnc.dec (imag sg w x))) (tl (CteEnc.dec (imag sg w x)))) in *.
  rewrite <- Hr. destruct sg.
  - rewrite (CteLitProofs.int_elem_implicit_exact (wbits w) l (elem_bits_w w) Hok Hlz Hsu).
    unfold CteLit.spec_int_elem, CteLit.int_value. rewrite Hmag. change (CteLit.i_neg l) with (ineg true w x).
    assert (HZ1 : (2 ^ (Z.of_N (wbits w) - 1))%Z = Z.of_N (2 ^ (wbits w - 1))) by (destruct w; reflexivity).
    assert (HZ2 : (2 ^ Z.of_N (wbits w))%Z = Z.of_N (2 ^ wbits w)) by (destruct w; reflexivity).
    unfold CteLit.twos. rewrite HZ1, HZ2. rewrite le_bits_w.
    unfold imag, ineg in *. cbn [andb] in *.
    set (P := 2 ^ (wbits w - 1)) in *. set (Q := 2 ^ wbits w) in *.
    destruct (N.leb_spec P x).
    + replace ((- Z.of_N P <=? - Z.of_N (Q - x)) && (- Z.of_N (Q - x) <? Z.of_N P))%Z with true by lia.
      cbn [oc_opt]. f_equal. f_equal.
      assert (E : ((- Z.of_N (Q - x)) mod Z.of_N Q = Z.of_N x)%Z).
      { symmetry. apply Z.mod_unique with (q := (-1)%Z); lia. }
      rewrite E. lia.
    + replace ((- Z.of_N P <=? Z.of_N x) && (Z.of_N x <? Z.of_N P))%Z with true by lia.
      cbn [oc_opt]. f_equal. f_equal. rewrite Z.mod_small by lia. lia.
  - assert (En : ineg false w x = false) by reflexivity.
    rewrite (CteLitProofs.uint_elem_implicit_exact (wbits w) l En Hok Hlz Hsu).
    unfold CteLit.spec_uint_elem. rewrite Hmag. unfold imag. rewrite En.
    replace (x <? 2 ^ wbits w) with true by lia. cbn [oc_opt]. rewrite le_bits_w. reflexivity.
Qed.

Definition iname (sg : bool) (w : iw) : inp :=
  (if sg then 105 else 117) :: match w with W8 => [56] | W16 => [49; 54] | W32 => [51; 50] | W64 => [54; 52] end.

Lemma nk_name_iname sg w : CteEnc.nk_name (ikind sg w) = 64 :: iname sg w.
Proof. destruct sg, w; reflexivity. Qed.

Lemma arr_header_iname sg w :
  arr_header (iname sg w) = Some (num_array (ity sg w) (N.of_nat (wbytes w)) (int_elem sg 0 (wbits w))).
Proof. destruct sg, w; reflexivity. Qed.

Lemma at_token_intarr sg w X :
  at_token O (iname sg w ++ 91 :: X) =
  match num_array (ity sg w) (N.of_nat (wbytes w)) (int_elem sg 0 (wbits w)) X with
  | Some (e, rest) => Some (TVal e, rest, O)
  | None => None
  end.
Proof.
  unfold at_token.
  assert (Hm : m_media (iname sg w ++ 91 :: X) = None).
  { apply ConvertProofs.m_media_none; [destruct sg, w; discriminate|].
    unfold ConvertProofs.media_stop_ok. destruct sg, w; cbn; discriminate. }
  rewrite Hm.
  assert (Hid : forallb ch_ident (iname sg w) = true) by (destruct sg, w; vm_compute; reflexivity).
  assert (Hnd : forallb is_dec (iname sg w) = false) by (destruct sg, w; reflexivity).
  assert (Hsp := ConvertProofs.span_app ch_ident (iname sg w) (91 :: X) Hid eq_refl).
  destruct (iname sg w) as [|c0 r0] eqn:En; [destruct sg, w; discriminate|].
  assert (H34 : c0 <> 34 /\ c0 <> 40) by (destruct sg, w; inversion En; subst; split; discriminate).
  cbn [app] in *. rewrite ConvertProofs.match_lit34_40 by apply H34.
  rewrite Hsp. rewrite Hnd. rewrite <- En, arr_header_iname. reflexivity.
Qed.

Lemma clean_ielem sg w x : x < 2 ^ wbits w -> clean (ielem sg w x).
Proof.
  intro Hx. rewrite (ielem_int_text sg w x Hx). unfold clean, int_text.
  destruct (dec_dws (imag sg w x) [] I) as [d [ds [Ed [Hd [_ [ds' [Hds' E']]]]]]]. rewrite !app_nil_r in E'. subst ds'.
  rewrite Ed. split; [destruct (ineg sg w x); discriminate|].
  assert (Hdig : Forall (fun c => is_ws c = false /\ c <> 93) (d :: ds)).
  { apply Forall_forall. intros c Hc. assert (Hcd : is_dec c = true).
    { destruct Hc as [<-|Hc]; [exact Hd|]. apply (proj1 (forallb_forall _ _) Hds'), Hc. }
    apply dec_facts in Hcd. unfold is_ws. lia. }
  destruct (ineg sg w x); cbn [app]; [constructor; [split; [reflexivity|discriminate]|exact Hdig]|exact Hdig].
Qed.

Lemma concat_ielems sg w xs : Forall (fun x => x < 2 ^ wbits w) xs ->
  concat_opt (map (int_elem sg 0 (wbits w)) (map (ielem sg w) xs)) = Some (idata w xs).
Proof.
  induction 1 as [|x r Hx Hr IH]; [reflexivity|]. cbn [map concat_opt]. rewrite int_elem_reads by exact Hx. rewrite IH. reflexivity.
Qed.

Lemma idata_length w xs : length (idata w xs) = (wbytes w * length xs)%nat.
Proof. unfold idata. induction xs as [|x r IH]; [cbn; lia|]. cbn [map concat length]. rewrite app_length, le_encode_length, IH. lia. Qed.

Lemma tok_intarr sg w xs R : Forall (fun x => x < 2 ^ wbits w) xs ->
  next_tok O (CteEnc.nk_name (ikind sg w) ++ 91 :: join32 (map (ielem sg w) xs) ++ 93 :: R) =
  Some (TVal (EArray (ity sg w) (N.of_nat (length xs)) (idata w xs)), R, O).
Proof.
  intro Hxs. rewrite nk_name_iname. cbn [app]. rewrite next_tok_at, at_token_intarr. unfold num_array.
  assert (Hcnt : N.of_nat (length (idata w xs)) / N.of_nat (wbytes w) = N.of_nat (length xs)).
  { rewrite idata_length. rewrite Nat2N.inj_mul. rewrite N.mul_comm. apply N.div_mul. destruct w; discriminate. }
  destruct xs as [|x r].
  - cbn [map join32 app arr_runs]. change (93 =? 93) with true. cbv iota. cbn [rev map concat_opt]. destruct w; reflexivity.
  - change (map (ielem sg w) (x :: r)) with (ielem sg w x :: map (ielem sg w) r).
    rewrite (arr_runs_clean (ielem sg w x) (map (ielem sg w) r)).
    + cbn [rev app]. change (ielem sg w x :: map (ielem sg w) r) with (map (ielem sg w) (x :: r)).
      rewrite (concat_ielems sg w (x :: r) Hxs). rewrite Hcnt. reflexivity.
    + change (ielem sg w x :: map (ielem sg w) r) with (map (ielem sg w) (x :: r)).
      apply Forall_forall. intros t Ht. apply in_map_iff in Ht as [y [E Hy]]. subst t. apply clean_ielem.
      apply (proj1 (Forall_forall _ _) Hxs), Hy.
Qed.

(* ---- whole UID arrays ---- *)

Lemma hex2_facts b : b < 256 ->
  exists h l, CteEnc.hex2 b = [h; l] /\ is_hex h = true /\ is_hex l = true /\ (h =? 45) = false /\ (l =? 45) = false /\
              hexval h * 16 + hexval l = b /\ is_ws h = false /\ is_ws l = false /\ h <> 93 /\ l <> 93.
Proof.
  intro H. unfold CteEnc.hex2.
  assert (H1 : b / 16 < 16) by (apply N.div_lt_upper_bound; lia).
  assert (H2 : b mod 16 < 16) by (apply N.mod_lt; lia).
  destruct (digit_char_hex_facts _ H1) as [A1 [W1 N1]]. destruct (digit_char_hex_facts _ H2) as [A2 [W2 N2]].
  eexists _, _. split; [reflexivity|]. repeat split; try assumption.
  - unfold CteEnc.digit_char. destruct (N.ltb_spec (b / 16) 10); lia.
  - unfold CteEnc.digit_char. destruct (N.ltb_spec (b mod 16) 10); lia.
  - rewrite !hexval_digit_char by assumption. lia.
Qed.

Lemma m_n_hex2 k b X : b < 256 -> m_n (S (S k)) is_hex (CteEnc.hex2 b ++ X) = m_n k is_hex X.
Proof. intro H. destruct (hex2_facts b H) as [h [l [E [A1 [A2 _]]]]]. rewrite E. cbn [app m_n m_char obind]. rewrite A1. cbn [obind m_char]. rewrite A2. reflexivity. Qed.

Lemma filter_hex2 b X : b < 256 -> filter (fun c => negb (c =? 45)) (CteEnc.hex2 b ++ X) = CteEnc.hex2 b ++ filter (fun c => negb (c =? 45)) X.
Proof. intro H. destruct (hex2_facts b H) as [h [l [E [_ [_ [B1 [B2 _]]]]]]]. rewrite E. cbn [app filter]. rewrite B1, B2. reflexivity. Qed.

Lemma hex_pairs_hex2 b X : b < 256 -> hex_pairs (CteEnc.hex2 b ++ X) = b :: hex_pairs X.
Proof. intro H. destruct (hex2_facts b H) as [h [l [E [_ [_ [_ [_ [V _]]]]]]]]. rewrite E. cbn [app hex_pairs]. rewrite V. reflexivity. Qed.

Lemma m_n_0 X : m_n 0 is_hex X = Some X. Proof. reflexivity. Qed.
Lemma obind_some {A B} (x : A) (f : A -> option B) : obind (Some x) f = f x. Proof. reflexivity. Qed.
Lemma m_lit_45 X : m_lit 45 ([45] ++ X) = Some X. Proof. reflexivity. Qed.

Lemma filter_45 X : filter (fun c => negb (c =? 45)) ([45] ++ X) = filter (fun c => negb (c =? 45)) X. Proof. reflexivity. Qed.

Lemma list16 (u : list N) : length u = 16%nat ->
  u = [nth 0 u 0; nth 1 u 0; nth 2 u 0; nth 3 u 0; nth 4 u 0; nth 5 u 0; nth 6 u 0; nth 7 u 0;
       nth 8 u 0; nth 9 u 0; nth 10 u 0; nth 11 u 0; nth 12 u 0; nth 13 u 0; nth 14 u 0; nth 15 u 0].
Proof. intro H. do 16 (destruct u as [|? u]; [discriminate H|]). destruct u; [reflexivity|discriminate H]. Qed.

Lemma uid_elem_reads u : length u = 16%nat -> data_bytes u -> uid_elem (CteEnc.uid_text u) = Some u.
Proof.
  intros Hl Hd.
  assert (Hb := nth_byte u Hd).
  unfold uid_elem, full.
  assert (Hm : m_uid (CteEnc.uid_text u) = Some []).
  { unfold m_uid, CteEnc.uid_text. cbv zeta beta.
    rewrite <- (app_nil_r (CteEnc.hex2 (nth 15 u 0))).
    repeat first [ rewrite m_n_hex2 by apply Hb | rewrite m_n_0 | rewrite obind_some; cbv beta | rewrite m_lit_45 ].
    reflexivity. }
  rewrite Hm. f_equal. unfold uid_bytes, CteEnc.uid_text. cbv zeta beta. 
  rewrite <- (app_nil_r (CteEnc.hex2 (nth 15 u 0))).
  repeat first [ rewrite filter_hex2 by apply Hb | rewrite filter_45 ]. cbn [filter].
  rewrite !hex_pairs_hex2 by apply Hb. cbn [hex_pairs]. symmetry. apply list16, Hl.
Qed.

Lemma hex2_clean b : b < 256 -> Forall (fun c => is_ws c = false /\ c <> 93) (CteEnc.hex2 b).
Proof.
  intro H. destruct (hex2_facts b H) as [h [l [E [_ [_ [_ [_ [_ [W1 [W2 [N1 N2]]]]]]]]]]]. rewrite E.
  constructor; [split; assumption|constructor; [split; assumption|constructor]].
Qed.

Lemma clean_uid_text u : data_bytes u -> clean (CteEnc.uid_text u).
Proof.
  intro Hd. assert (Hb := nth_byte u Hd). split.
  - unfold CteEnc.uid_text. cbv zeta beta. destruct (hex2_facts _ (Hb O)) as [h [l [E _]]]. rewrite E. discriminate.
  - unfold CteEnc.uid_text. cbv zeta beta.
    repeat (apply Forall_app; split; [first [apply hex2_clean, Hb | (constructor; [split; [reflexivity|discriminate]|constructor])]|]).
    apply hex2_clean, Hb.
Qed.

Lemma at_token_uid X :
  at_token O ([117; 105; 100] ++ 91 :: X) =
  match num_array AT_UID 16 uid_elem X with
  | Some (e, rest) => Some (TVal e, rest, O)
  | None => None
  end.
Proof.
  unfold at_token.
  assert (Hm : m_media ([117; 105; 100] ++ 91 :: X) = None).
  { apply ConvertProofs.m_media_none; [discriminate|]. unfold ConvertProofs.media_stop_ok. cbn. discriminate. }
  rewrite Hm.
  assert (Hid : forallb ch_ident [117; 105; 100] = true) by (vm_compute; reflexivity).
  assert (Hsp := ConvertProofs.span_app ch_ident [117; 105; 100] (91 :: X) Hid eq_refl).
  cbn [app] in *. rewrite ?ConvertProofs.match_lit34_40 by (split; discriminate).
  rewrite Hsp. reflexivity.
Qed.

Lemma concat_uids us : Forall (fun u => length u = 16%nat /\ data_bytes u) us ->
  concat_opt (map uid_elem (map CteEnc.uid_text us)) = Some (concat us).
Proof.
  induction 1 as [|u r [Hl Hd] Hr IH]; [reflexivity|]. cbn [map concat_opt concat]. rewrite uid_elem_reads by assumption. rewrite IH. reflexivity.
Qed.

Lemma concat_uids_length us : Forall (fun u => length u = 16%nat /\ data_bytes u) us -> length (concat us) = (16 * length us)%nat.
Proof. induction 1 as [|u r [Hl _] Hr IH]; [reflexivity|]. cbn [concat length]. rewrite app_length, Hl, IH. lia. Qed.

Lemma tok_uidarr us R : Forall (fun u => length u = 16%nat /\ data_bytes u) us ->
  next_tok O (CteEnc.t_uidhdr ++ join32 (map CteEnc.uid_text us) ++ 93 :: R) =
  Some (TVal (EArray AT_UID (N.of_nat (length us)) (concat us)), R, O).
Proof.
  intro Hus. change CteEnc.t_uidhdr with (64 :: [117; 105; 100] ++ [91]). cbn [app].
  rewrite next_tok_at. change (117 :: 105 :: 100 :: 91 :: join32 (map CteEnc.uid_text us) ++ 93 :: R)
    with ([117; 105; 100] ++ 91 :: join32 (map CteEnc.uid_text us) ++ 93 :: R).
  rewrite at_token_uid. unfold num_array.
  assert (Hcnt : N.of_nat (length (concat us)) / 16 = N.of_nat (length us)).
  { rewrite (concat_uids_length us Hus). rewrite Nat2N.inj_mul. change (N.of_nat 16) with 16. rewrite N.mul_comm. apply N.div_mul. discriminate. }
  destruct us as [|u r].
  - cbn [map join32 app arr_runs]. change (93 =? 93) with true. cbv iota. cbn [rev map concat_opt]. reflexivity.
  - change (map CteEnc.uid_text (u :: r)) with (CteEnc.uid_text u :: map CteEnc.uid_text r).
    rewrite (arr_runs_clean (CteEnc.uid_text u) (map CteEnc.uid_text r)).
    + cbn [rev app]. change (CteEnc.uid_text u :: map CteEnc.uid_text r) with (map CteEnc.uid_text (u :: r)).
      rewrite (concat_uids (u :: r) Hus). rewrite Hcnt. reflexivity.
    + change (CteEnc.uid_text u :: map CteEnc.uid_text r) with (map CteEnc.uid_text (u :: r)).
      apply Forall_forall. intros t Ht. apply in_map_iff in Ht as [y [E Hy]]. subst t. apply clean_uid_text.
      apply (proj1 (Forall_forall _ _) Hus), Hy.
Qed.

(* ---- a UID as a value token: no other candidate rule gets as far ---- *)

Definition hx (c : N) : Prop := 48 <= c <= 57 \/ 97 <= c <= 102.

Lemma hx_digit_char d : d < 16 -> hx (CteEnc.digit_char d).
Proof. intro H. unfold hx, CteEnc.digit_char. destruct (N.ltb_spec d 10); lia. Qed.
Lemma hex2_hx b : b < 256 -> exists h l, CteEnc.hex2 b = [h; l] /\ hx h /\ hx l.
Proof.
  intro H. unfold CteEnc.hex2. eexists _, _. split; [reflexivity|]. split; apply hx_digit_char.
  - apply N.div_lt_upper_bound; lia.
  - apply N.mod_lt; lia.
Qed.
Lemma hx_lower c : hx c -> lower c = c.
Proof. intro H. unfold lower. replace ((65 <=? c) && (c <=? 90)) with false by (unfold hx in H; lia). reflexivity. Qed.

Definition keeps (W r : inp) : Prop := exists q, r = q ++ 45 :: W /\ Forall hx q.

Lemma dm_keeps isd W : isd 45 = false -> forall p, Forall hx p -> keeps W (dm isd (p ++ 45 :: W)).
Proof.
  intros H45 p Hp. induction Hp as [|c p Hc Hp IH].
  - cbn [app dm]. rewrite H45. change (45 =? 95) with false. cbn [andb]. exists []. split; [reflexivity|constructor].
  - cbn [app dm]. destruct (isd c); [exact IH|]. replace (c =? 95) with false by (unfold hx in Hc; lia). cbn [andb].
    exists (c :: p). split; [reflexivity|constructor; assumption].
Qed.

Lemma m_digits_keeps isd W p : isd 45 = false -> Forall hx p ->
  m_digits isd (p ++ 45 :: W) = None \/ exists r, m_digits isd (p ++ 45 :: W) = Some r /\ keeps W r.
Proof.
  intros H45 Hp. destruct Hp as [|c p Hc Hp]; cbn [app m_digits].
  - rewrite H45. left; reflexivity.
  - destruct (isd c); [|left; reflexivity]. right. eexists. split; [reflexivity|]. apply dm_keeps; assumption.
Qed.

Lemma keeps_length W r : keeps W r -> (length W < length r)%nat.
Proof. intros [q [E _]]. subst r. rewrite app_length. cbn [length]. lia. Qed.

Section UidTok.
  Variables a1 a2 a3 a4 a5 a6 a7 a8 g1 g2 g3 g4 : N.
  Variable Z : inp.
  Hypothesis H1 : hx a1. Hypothesis H2 : hx a2. Hypothesis H3 : hx a3. Hypothesis H4 : hx a4.
  Hypothesis H5 : hx a5. Hypothesis H6 : hx a6. Hypothesis H7 : hx a7. Hypothesis H8 : hx a8.
  Hypothesis K1 : hx g1. Hypothesis K2 : hx g2. Hypothesis K3 : hx g3. Hypothesis K4 : hx g4.

  Let Y : inp := [g1; g2; g3; g4] ++ 45 :: Z.
  Let s : inp := [a1; a2; a3; a4; a5; a6; a7; a8] ++ 45 :: Y.
  Definition far (o : option inp) : Prop := match o with None => True | Some r => (length Z < length r)%nat end.

  Lemma keepsY_far r : keeps Y r -> (length Z < length r)%nat.
  Proof. intro K. apply keeps_length in K. unfold Y in K. rewrite app_length in K. cbn [length] in K. lia. Qed.

  Lemma Fa : Forall hx [a1; a2; a3; a4; a5; a6; a7; a8]. Proof. repeat (apply Forall_cons; [assumption|]). apply Forall_nil. Qed.
  Lemma Fa2 : Forall hx [a3; a4; a5; a6; a7; a8]. Proof. repeat (apply Forall_cons; [assumption|]). apply Forall_nil. Qed.
  Lemma Fg : Forall hx [g1; g2; g3; g4]. Proof. repeat (apply Forall_cons; [assumption|]). apply Forall_nil. Qed.

  Lemma neg_s : m_neg s = s.
  Proof. unfold s, m_neg, m_opt, m_lit. cbn [app m_char]. replace (45 =? a1) with false by (unfold hx in H1; lia). reflexivity. Qed.

  Lemma prefixed_far l isd : isd 45 = false -> far (m_prefixed l isd s).
  Proof.
    intro H45. unfold s. cbn [app m_prefixed]. destruct ((a1 =? 48) && (lower a2 =? l)); [|exact I].
    destruct (m_digits_keeps isd Y [a3; a4; a5; a6; a7; a8] H45 Fa2) as [E|[r [E K]]]; cbn [app] in E; rewrite E; [exact I|].
    apply keepsY_far, K.
  Qed.

  Lemma digits_s isd : isd 45 = false ->
    m_digits isd s = None \/ exists r, m_digits isd s = Some r /\ keeps Y r.
  Proof. intro H45. apply (m_digits_keeps isd Y _ H45 Fa). Qed.

  Lemma int_far : far (m_int s).
  Proof.
    unfold m_int. cbv zeta. rewrite neg_s.
    assert (A := prefixed_far 98 is_bit eq_refl). assert (B := prefixed_far 111 is_oct eq_refl). assert (C := prefixed_far 120 is_hex eq_refl).
    destruct (m_prefixed 98 is_bit s); [exact A|]. destruct (m_prefixed 111 is_oct s); [exact B|]. destruct (m_prefixed 120 is_hex s); [exact C|].
    destruct (digits_s is_dec eq_refl) as [E|[r [E K]]]; rewrite E; [exact I|apply keepsY_far, K].
  Qed.

  Lemma float_tail_far q : Forall hx q -> far (m_float_tail is_dec 101 true (q ++ 45 :: Y)).
  Proof.
    intro Hq. unfold m_float_tail. destruct Hq as [|c q Hc Hq]; cbn [app].
    - reflexivity.
    - unfold m_frac. replace (c =? 46) with false by (unfold hx in Hc; lia).
      unfold m_exp. rewrite (hx_lower c Hc). destruct (c =? 101); [|exact I].
      destruct Hq as [|c' q Hc' Hq]; cbn [app].
      + unfold m_opt. cbn [m_char]. change ((45 =? 43) || (45 =? 45)) with true. cbv iota.
        destruct (m_digits_keeps is_dec Z [g1; g2; g3; g4] eq_refl Fg) as [E|[r [E K]]]; unfold Y; rewrite E; [exact I|].
        cbn [far]. apply keeps_length, K.
      + unfold m_opt. cbn [m_char]. replace ((c' =? 43) || (c' =? 45)) with false by (unfold hx in Hc'; lia).
        destruct (m_digits_keeps is_dec Y (c' :: q) eq_refl (Forall_cons _ Hc' Hq)) as [E|[r [E K]]]; cbn [app] in E; rewrite E; [exact I|].
        cbn [far]. apply keepsY_far, K.
  Qed.

  Lemma float_dec_far : far (m_float_dec true s).
  Proof.
    unfold m_float_dec. rewrite neg_s. destruct (digits_s is_dec eq_refl) as [E|[r [E [q [Er Hq]]]]]; rewrite E; [exact I|].
    cbn [obind]. subst r. apply float_tail_far, Hq.
  Qed.

  Lemma float_hex_none : m_float_hex true s = None.
  Proof.
    unfold m_float_hex. rewrite neg_s. unfold s. cbn [app m_prefixed]. rewrite (hx_lower a2 H2).
    replace (a2 =? 120) with false by (unfold hx in H2; lia). rewrite andb_false_r. reflexivity.
  Qed.

  Lemma date_none : m_date s = None.
  Proof.
    unfold m_date. rewrite neg_s. destruct (digits_s is_dec eq_refl) as [E|[r [E [q [Er Hq]]]]]; rewrite E; [reflexivity|].
    cbn [obind]. subst r. destruct Hq as [|c q Hc Hq]; cbn [app].
    - unfold m_lit at 1. cbn [m_char]. change (45 =? 45) with true. cbv iota. cbn [obind]. unfold Y. cbn [app].
      unfold m_1to. cbn [m_char]. destruct (is_dec g1); [|reflexivity]. cbn [obind Nat.sub m_upto m_char].
      destruct (is_dec g2); cbn [obind]; unfold m_lit; cbn [m_char].
      + replace (45 =? g3) with false by (unfold hx in K3; lia). reflexivity.
      + replace (45 =? g2) with false by (unfold hx in K2; lia). reflexivity.
    - unfold m_lit at 1. cbn [m_char]. replace (45 =? c) with false by (unfold hx in Hc; lia). reflexivity.
  Qed.

  Lemma time_none : m_time s = None.
  Proof.
    unfold m_time, s. cbn [app]. unfold m_1to. cbn [m_char]. destruct (is_dec a1); [|reflexivity]. cbn [obind Nat.sub m_upto m_char].
    destruct (is_dec a2); cbn [obind]; unfold m_lit; cbn [m_char].
    - replace (58 =? a3) with false by (unfold hx in H3; lia). reflexivity.
    - replace (58 =? a2) with false by (unfold hx in H2; lia). reflexivity.
  Qed.
End UidTok.

Lemma m_word_length w : forall s r, m_word w s = Some r -> length s = (length w + length r)%nat.
Proof.
  induction w as [|x w IH]; intros s r H; cbn [m_word] in H.
  - inversion H; subst. reflexivity.
  - destruct s as [|c s]; [discriminate|]. destruct (lower c =? x); [|discriminate]. apply IH in H. cbn [length]. lia.
Qed.

Definition farther (R : inp) (kc : wkind * option inp) : Prop :=
  match snd kc with None => True | Some r => (length R < length r)%nat end.

Lemma best_match_last k R l : Forall (farther R) l ->
  forall best, match best with None => True | Some (_, rb) => (length R < length rb)%nat end ->
  best_match (l ++ [(k, Some R)]) best = Some (k, R).
Proof.
  induction 1 as [|[k1 [r|]] l Hx Hl IH]; intros best Hb; cbn [app best_match].
  - destruct best as [[kb rb]|]; [|reflexivity]. replace (length R <? length rb)%nat with true by lia. reflexivity.
  - apply IH. unfold farther in Hx. cbn [snd] in Hx. destruct best as [[kb rb]|]; [|exact Hx].
    destruct (length r <? length rb)%nat; assumption.
  - apply IH, Hb.
Qed.

Lemma uid_text_shape u : data_bytes u -> exists a1 a2 a3 a4 a5 a6 a7 a8 g1 g2 g3 g4 Z,
  CteEnc.uid_text u = [a1; a2; a3; a4; a5; a6; a7; a8] ++ 45 :: ([g1; g2; g3; g4] ++ 45 :: Z) /\
  hx a1 /\ hx a2 /\ hx a3 /\ hx a4 /\ hx a5 /\ hx a6 /\ hx a7 /\ hx a8 /\ hx g1 /\ hx g2 /\ hx g3 /\ hx g4 /\
  length (CteEnc.uid_text u) = (14 + length Z)%nat /\ (22 = length Z)%nat.
Proof.
  intro Hd. assert (Hb := nth_byte u Hd). unfold CteEnc.uid_text. cbv zeta beta.
  destruct (hex2_hx _ (Hb 0%nat)) as [a1 [a2 [E0 [? ?]]]]. destruct (hex2_hx _ (Hb 1%nat)) as [a3 [a4 [E1 [? ?]]]].
  destruct (hex2_hx _ (Hb 2%nat)) as [a5 [a6 [E2 [? ?]]]]. destruct (hex2_hx _ (Hb 3%nat)) as [a7 [a8 [E3 [? ?]]]].
  destruct (hex2_hx _ (Hb 4%nat)) as [g1 [g2 [E4 [? ?]]]]. destruct (hex2_hx _ (Hb 5%nat)) as [g3 [g4 [E5 [? ?]]]].
  rewrite E0, E1, E2, E3, E4, E5.
  exists a1, a2, a3, a4, a5, a6, a7, a8, g1, g2, g3, g4. eexists. split; [cbn [app]; reflexivity|].
  repeat (split; [assumption|]).
  assert (L : forall i, length (CteEnc.hex2 (nth i u 0)) = 2%nat) by (intro i; reflexivity).
  rewrite !app_length. cbn [length]. rewrite !L. split; reflexivity.
Qed.

Lemma uid_bytes_text u : length u = 16%nat -> data_bytes u -> uid_bytes (CteEnc.uid_text u) = u.
Proof.
  intros Hl Hd. assert (H := uid_elem_reads u Hl Hd). unfold uid_elem in H.
  destruct (full m_uid (CteEnc.uid_text u)); [injection H as H; exact H|discriminate].
Qed.

Lemma m_uid_text u R : data_bytes u -> m_uid (CteEnc.uid_text u ++ R) = Some R.
Proof.
  intro Hd. assert (Hb := nth_byte u Hd). unfold m_uid, CteEnc.uid_text. cbv zeta beta. rewrite <- !app_assoc.
  repeat first [ rewrite m_n_hex2 by apply Hb | rewrite m_n_0 | rewrite obind_some; cbv beta | rewrite m_lit_45 ].
  reflexivity.
Qed.

Lemma word_token_uid u R : length u = 16%nat -> data_bytes u ->
  word_token (CteEnc.uid_text u ++ R) = Some (TVal (EUid u), R).
Proof.
  intros Hl Hd. unfold word_token.
  assert (Hbest : best_match (word_candidates (CteEnc.uid_text u ++ R)) None = Some (WUid, R)).
  { assert (Hu := m_uid_text u R Hd).
    destruct (uid_text_shape u Hd) as (a1 & a2 & a3 & a4 & a5 & a6 & a7 & a8 & g1 & g2 & g3 & g4 & Z & E & H1 & H2 & H3 & H4 & H5 & H6 & H7 & H8 & K1 & K2 & K3 & K4 & Hlen & HZ).
    assert (Es : CteEnc.uid_text u ++ R = [a1; a2; a3; a4; a5; a6; a7; a8] ++ 45 :: ([g1; g2; g3; g4] ++ 45 :: (Z ++ R))).
    { rewrite E. cbn [app]. reflexivity. }
    assert (Hlen2 : length (CteEnc.uid_text u ++ R) = (36 + length R)%nat) by (rewrite app_length; lia).
    assert (HZR : (length R <= length (Z ++ R))%nat) by (rewrite app_length; lia).
    assert (W : forall w r, (length w <= 5)%nat -> m_word w (CteEnc.uid_text u ++ R) = Some r -> (length R < length r)%nat).
    { intros w r Hw Hm. apply m_word_length in Hm. lia. }
    assert (F : forall o, far (Z ++ R) o -> match o with None => True | Some r => (length R < length r)%nat end).
    { intros [r|] Ho; [|exact I]. unfold far in Ho. lia. }
    unfold word_candidates. rewrite Hu.
    change [(WNull, m_word [110; 117; 108; 108] (CteEnc.uid_text u ++ R)); (WTrue, m_word [116; 114; 117; 101] (CteEnc.uid_text u ++ R));
            (WFalse, m_word [102; 97; 108; 115; 101] (CteEnc.uid_text u ++ R)); (WInt, m_int (CteEnc.uid_text u ++ R));
            (WFloat, m_float_dec true (CteEnc.uid_text u ++ R)); (WFloat, m_float_hex true (CteEnc.uid_text u ++ R));
            (WInf, m_word [105; 110; 102] (CteEnc.uid_text u ++ R)); (WNinf, m_word [45; 105; 110; 102] (CteEnc.uid_text u ++ R));
            (WNan, m_word [110; 97; 110] (CteEnc.uid_text u ++ R)); (WSnan, m_word [115; 110; 97; 110] (CteEnc.uid_text u ++ R));
            (WDate, m_date (CteEnc.uid_text u ++ R)); (WTime, m_time (CteEnc.uid_text u ++ R)); (WUid, Some R)]
      with ([(WNull, m_word [110; 117; 108; 108] (CteEnc.uid_text u ++ R)); (WTrue, m_word [116; 114; 117; 101] (CteEnc.uid_text u ++ R));
            (WFalse, m_word [102; 97; 108; 115; 101] (CteEnc.uid_text u ++ R)); (WInt, m_int (CteEnc.uid_text u ++ R));
            (WFloat, m_float_dec true (CteEnc.uid_text u ++ R)); (WFloat, m_float_hex true (CteEnc.uid_text u ++ R));
            (WInf, m_word [105; 110; 102] (CteEnc.uid_text u ++ R)); (WNinf, m_word [45; 105; 110; 102] (CteEnc.uid_text u ++ R));
            (WNan, m_word [110; 97; 110] (CteEnc.uid_text u ++ R)); (WSnan, m_word [115; 110; 97; 110] (CteEnc.uid_text u ++ R));
            (WDate, m_date (CteEnc.uid_text u ++ R)); (WTime, m_time (CteEnc.uid_text u ++ R))] ++ [(WUid, Some R)]).
    apply best_match_last; [|exact I].
    assert (Wd : forall k w, (length w <= 5)%nat -> farther R (k, m_word w (CteEnc.uid_text u ++ R))).
    { intros k w Hw. unfold farther. cbn [snd]. destruct (m_word w (CteEnc.uid_text u ++ R)) as [r|] eqn:Em; [|exact I]. apply (W w r Hw Em). }
    repeat (apply Forall_cons; [first [apply Wd; cbn [length]; lia | idtac]|]); [| | | | |apply Forall_nil].
    - unfold farther. cbn [snd]. apply F. rewrite Es. apply int_far; assumption.
    - unfold farther. cbn [snd]. apply F. rewrite Es. apply float_dec_far; assumption.
    - unfold farther. cbn [snd]. rewrite Es, float_hex_none by assumption. exact I.
    - unfold farther. cbn [snd]. rewrite Es, date_none by assumption. exact I.
    - unfold farther. cbn [snd]. rewrite Es, time_none by assumption. exact I. }
  rewrite Hbest. rewrite consumed_app. cbn [option_map]. rewrite (uid_bytes_text u Hl Hd). reflexivity.
Qed.

Lemma next_tok_hx c s : hx c ->
  next_tok O (c :: s) = match word_token (c :: s) with Some (t, rest) => Some (t, rest, O) | None => None end.
Proof.
  intro H. unfold hx in H. unfold next_tok, is_ws.
  replace ((c =? 32) || (c =? 9) || (c =? 10) || (c =? 13)) with false by lia.
  replace (c =? 47) with false by lia. replace (c =? 91) with false by lia. replace (c =? 93) with false by lia.
  replace (c =? 123) with false by lia. replace (c =? 125) with false by lia. replace (c =? 61) with false by lia.
  replace (c =? 40) with false by lia. replace (c =? 41) with false by lia. replace (c =? 62) with false by lia.
  replace (c =? 34) with false by lia. replace (c =? 36) with false by lia. replace (c =? 38) with false by lia.
  replace (c =? 64) with false by lia. reflexivity.
Qed.

Lemma tok_uid u R : length u = 16%nat -> data_bytes u -> next_tok O (CteEnc.uid_text u ++ R) = Some (TVal (EUid u), R, O).
Proof.
  intros Hl Hd. assert (Hw := word_token_uid u R Hl Hd).
  destruct (uid_text_shape u Hd) as (a1 & a2 & a3 & a4 & a5 & a6 & a7 & a8 & g1 & g2 & g3 & g4 & Z & E & H1 & _).
  rewrite E in *. cbn [app] in *. rewrite next_tok_hx by exact H1. rewrite Hw. reflexivity.
Qed.

(* ---- whole bit arrays ---- *)

Lemma byte_rt l : (length l <= 8)%nat -> firstn (length l) (CteEnc.byte_bits (pack_byte l 0)) = l.
Proof.
  intro H. do 9 (destruct l as [|[] l]; [vm_compute; reflexivity| |]); cbn [length] in H; lia.
Qed.

Lemma pack_bits_nil f : pack_bits f [] = [].
Proof. destruct f; reflexivity. Qed.

Lemma pack_bits_rt : forall f l, (length l <= f)%nat ->
  firstn (length l) (CteEnc.bytes_bits (pack_bits f l)) = l /\ length (pack_bits f l) = ((length l + 7) / 8)%nat.
Proof.
  induction f as [|f IH]; intros l Hl.
  - destruct l; [split; reflexivity|cbn [length] in Hl; lia].
  - destruct l as [|b0 l0]; [split; reflexivity|].
    assert (Hp : pack_bits (S f) (b0 :: l0) = pack_byte (firstn 8 (b0 :: l0)) 0 :: pack_bits f (skipn 8 (b0 :: l0))) by reflexivity.
    assert (Hpos : (0 < length (b0 :: l0))%nat) by (cbn [length]; lia).
    remember (b0 :: l0) as l eqn:El. clear El b0 l0. rewrite Hp. clear Hp.
    change (CteEnc.bytes_bits (pack_byte (firstn 8 l) 0 :: pack_bits f (skipn 8 l)))
      with (CteEnc.byte_bits (pack_byte (firstn 8 l) 0) ++ CteEnc.bytes_bits (pack_bits f (skipn 8 l))).
    assert (Hsplit := firstn_skipn 8 l).
    destruct (Nat.le_gt_cases 8 (length l)) as [H8|H8].
    + assert (La : length (firstn 8 l) = 8%nat) by (rewrite firstn_length; lia).
      assert (Lb : length (skipn 8 l) = (length l - 8)%nat) by apply skipn_length.
      destruct (IH (skipn 8 l)) as [I1 I2]; [lia|].
      assert (Ha := byte_rt (firstn 8 l)). rewrite La in Ha. specialize (Ha (Nat.le_refl 8)).
      rewrite firstn_all2 in Ha by (rewrite CteEncProofs.byte_bits_length; lia).
      split.
      * rewrite Ha. rewrite firstn_app, La. rewrite (firstn_all2 (firstn 8 l)) by lia.
        replace (length l - 8)%nat with (length (skipn 8 l)) by exact Lb. rewrite I1. exact Hsplit.
      * cbn [length]. rewrite I2, Lb. clear - H8. 
        replace (length l + 7)%nat with ((length l - 8 + 7) + 1 * 8)%nat by lia. rewrite Nat.div_add by discriminate. lia.
    + assert (Ea : firstn 8 l = l) by (apply firstn_all2; lia).
      assert (Eb : skipn 8 l = []) by (apply skipn_all2; lia).
      rewrite Ea, Eb, pack_bits_nil. change (CteEnc.bytes_bits []) with (@nil bool). rewrite app_nil_r. split.
      * apply byte_rt. lia.
      * cbn [length].
        assert (E : ((length l + 7) / 8 = 1)%nat); [|lia].
        replace (length l + 7)%nat with ((length l - 1) + 1 * 8)%nat by lia. rewrite Nat.div_add by discriminate.
        rewrite Nat.div_small by lia. reflexivity.
Qed.

Lemma bit_body_text l : forall R acc, bit_body (CteEncProofs.bits_text l ++ 93 :: R) acc = Some (rev acc ++ l, R).
Proof.
  induction l as [|b l IH]; intros R acc; cbn [CteEncProofs.bits_text map app bit_body].
  - change (93 =? 93) with true. cbv iota. rewrite app_nil_r. reflexivity.
  - destruct b; cbn; rewrite IH; cbn [rev]; rewrite <- app_assoc; reflexivity.
Qed.

Lemma at_token_bit X :
  at_token O ([98] ++ 91 :: X) =
  match bit_body X [] with
  | Some (bits, rest) => Some (TVal (EArray AT_Bit (N.of_nat (length bits)) (pack_bits (length bits) bits)), rest, O)
  | None => None
  end.
Proof.
  unfold at_token.
  assert (Hm : m_media ([98] ++ 91 :: X) = None).
  { apply ConvertProofs.m_media_none; [discriminate|]. unfold ConvertProofs.media_stop_ok. cbn. discriminate. }
  rewrite Hm.
  assert (Hid : forallb ch_ident [98] = true) by (vm_compute; reflexivity).
  assert (Hsp := ConvertProofs.span_app ch_ident [98] (91 :: X) Hid eq_refl).
  cbn [app] in *. rewrite ?ConvertProofs.match_lit34_40 by (split; discriminate).
  rewrite Hsp. cbn. destruct (bit_body X []) as [[bits rest]|]; reflexivity.
Qed.

Lemma tok_bitarr l R :
  next_tok O (CteEnc.t_bithdr ++ CteEncProofs.bits_text l ++ 93 :: R) =
  Some (TVal (EArray AT_Bit (N.of_nat (length l)) (pack_bits (length l) l)), R, O).
Proof.
  change CteEnc.t_bithdr with (64 :: [98] ++ [91]). cbn [app]. rewrite next_tok_at.
  change (98 :: 91 :: CteEncProofs.bits_text l ++ 93 :: R) with ([98] ++ 91 :: CteEncProofs.bits_text l ++ 93 :: R).
  rewrite at_token_bit, bit_body_text. reflexivity.
Qed.

(* ---- atoms: first character, token ---- *)

Lemma atom_head a : awf a -> exists c r, arunes a = c :: r /\ is_ws c = false.
Proof.
  intro Hwf. unfold arunes. destruct a; cbn [atext awf] in *.
  - eexists _, _. split; reflexivity.
  - destruct b; eexists _, _; split; reflexivity.
  - destruct (int_text_head false n) as [c [r [E Hc]]]. exists c, r. split; [exact E|apply not_ws_range, Hc].
  - destruct (int_text_head true n) as [c [r [E Hc]]]. exists c, r. split; [exact E|apply not_ws_range, Hc].
  - rewrite (z_text_int z Hwf).
    destruct (int_text_head (z <? 0)%Z (Z.abs_N z)) as [c [r [E Hc]]]. exists c, r. split; [exact E|apply not_ws_range, Hc].
  - destruct k; eexists _, _; split; reflexivity.
  - eexists _, _; split; reflexivity.
  - eexists _, _; split; reflexivity.
  - eexists _, _; split; reflexivity.
  - eexists _, _; split; reflexivity.
  - destruct sg, w; eexists _, _; split; reflexivity.
  - eexists _, _; split; reflexivity.
  - destruct (uid_text_shape u (proj2 Hwf)) as (a1 & a2 & a3 & a4 & a5 & a6 & a7 & a8 & g1 & g2 & g3 & g4 & Z & E & H1 & _).
    rewrite E. eexists _, _. split; [reflexivity|]. unfold hx in H1. unfold is_ws. lia.
  - eexists _, _; split; reflexivity.
Qed.

Lemma atom_tok a R : awf a -> wsd R -> next_tok O (arunes a ++ R) = Some (TVal (ard a), R, O).
Proof.
  intros Hwf Hw. unfold arunes. destruct a; cbn [atext awf ard] in *.
  - reflexivity.
  - destruct b; reflexivity.
  - apply tok_int, Hw.
  - apply tok_int, Hw.
  - rewrite (z_text_int z Hwf). apply tok_int, Hw.
  - rewrite <- app_assoc. cbn [app]. rewrite <- app_assoc. cbn [app]. apply tok_text, Hwf.
  - cbn [app]. apply tok_ref; assumption.
  - destruct Hwf as [Hm Hd]. cbn [app]. rewrite <- app_assoc. cbn [app]. rewrite <- app_assoc. cbn [app]. apply tok_media; assumption.
  - destruct Hwf as [Hc Hd]. cbn [app]. rewrite <- app_assoc. cbn [app]. rewrite <- app_assoc. cbn [app]. apply tok_custom_bin; assumption.
  - destruct Hwf as [Hc Hs]. cbn [app]. rewrite <- app_assoc. cbn [app]. rewrite <- app_assoc. cbn [app]. apply tok_custom_text; assumption.
  - rewrite <- app_assoc. cbn [app]. rewrite <- app_assoc. cbn [app]. apply tok_intarr, (proj1 Hwf).
  - rewrite <- !app_assoc. cbn [app]. apply tok_uidarr, (proj1 Hwf).
  - apply tok_uid; apply Hwf.
  - rewrite <- !app_assoc. cbn [app]. apply tok_bitarr.
Qed.

(* ------------------------------------------------------------------ *)
(** * Documents as trees: the fragment of the structure theorem

   Atoms; lists, records and edges ([VSeq]); maps of key = value pairs; nodes; markers on values; comments of
   both kinds between the items of a container.  [VPair] and [VCom] are items, not values; [wf] says where
   each may stand. *)

Inductive seqk := SList | SRec (id : list N) | SEdge.

Inductive tree :=
| VAtom (a : atom)
| VCom (multi : bool) (rs : list N)
| VPair (k v : tree)
| VMark (id : list N) (v : tree)
| VSeq (k : seqk) (l : list tree)
| VMap (l : list tree)
| VNode (v : tree) (l : list tree).

Section tree_induction.
  Variable P : tree -> Prop.
  Hypotheses (Hatom : forall a, P (VAtom a)) (Hcom : forall m rs, P (VCom m rs))
             (Hpair : forall k v, P k -> P v -> P (VPair k v))
             (Hmark : forall id v, P v -> P (VMark id v))
             (Hseq : forall k l, Forall P l -> P (VSeq k l)) (Hmap : forall l, Forall P l -> P (VMap l))
             (Hnode : forall v l, P v -> Forall P l -> P (VNode v l)).
  Fixpoint tree_induction (t : tree) : P t :=
    let go := fix go (l : list tree) : Forall P l :=
                match l with [] => Forall_nil P | x :: r => Forall_cons x (tree_induction x) (go r) end in
    match t with
    | VAtom a => Hatom a | VCom m rs => Hcom m rs
    | VPair k v => Hpair k v (tree_induction k) (tree_induction v)
    | VMark id v => Hmark id v (tree_induction v)
    | VSeq k l => Hseq k l (go l)
    | VMap l => Hmap l (go l)
    | VNode v l => Hnode v l (tree_induction v) (go l)
    end.
End tree_induction.

Definition is_value (t : tree) : bool := match t with VCom _ _ | VPair _ _ => false | _ => true end.
Definition is_pair (t : tree) : bool := match t with VPair _ _ => true | _ => false end.
Definition is_lc (t : tree) : bool := match t with VCom false _ => true | _ => false end.
Definition is_node (t : tree) : bool := match t with VNode _ _ => true | _ => false end.
Definition count_values (l : list tree) : nat := length (filter is_value l).

Definition seq_ok (k : seqk) (l : list tree) : Prop :=
  match k with SList => True | SRec id => ident_ok id | SEdge => count_values l = 3%nat end.

(* where things may stand.  A node may be an item of a list, record, edge or node, a map key, or the top-level
   value; not a map value, a marked value or the value of a node: there the encoder's indentation of the node's
   value depends on Writer.Column (see finding comment-first-in-node), which the layout [pp] does not track. *)
Fixpoint wf (t : tree) : Prop :=
  let all := fix all (p : tree -> Prop) (l : list tree) : Prop :=
               match l with [] => True | x :: r => (wf x /\ p x) /\ all p r end in
  match t with
  | VAtom a => awf a
  | VCom multi rs => scalars rs /\ (if multi then blk_plain PNone rs = true else line_ok rs = true)
  | VPair k v => wf k /\ wf v /\ is_value k = true /\ is_value v = true /\ is_node v = false
  | VMark id v => ident_ok id /\ wf v /\ is_value v = true /\ is_node v = false
  | VSeq k l => all (fun x => is_pair x = false) l /\ seq_ok k l
  | VMap l => all (fun x => is_value x = false) l
  | VNode v l => (wf v /\ is_value v = true /\ is_node v = false) /\ all (fun x => is_pair x = false) l
  end.

Lemma wf_all (p : tree -> Prop) l :
  (fix all (p : tree -> Prop) (l : list tree) : Prop :=
     match l with [] => True | x :: r => (wf x /\ p x) /\ all p r end) p l <-> Forall (fun x => wf x /\ p x) l.
Proof. induction l as [|x r IH]; [split; constructor|]. split; intro H.
  - destruct H as [H1 H2]. constructor; [exact H1|]. apply IH, H2.
  - inversion H; subst. split; [assumption|]. apply IH. assumption. Qed.

Lemma wf_seq k l : wf (VSeq k l) <-> Forall (fun x => wf x /\ is_pair x = false) l /\ seq_ok k l.
Proof. cbn [wf]. rewrite wf_all. reflexivity. Qed.
Lemma wf_map l : wf (VMap l) <-> Forall (fun x => wf x /\ is_value x = false) l.
Proof. cbn [wf]. rewrite wf_all. reflexivity. Qed.
Lemma wf_node v l : wf (VNode v l) <-> (wf v /\ is_value v = true /\ is_node v = false) /\ Forall (fun x => wf x /\ is_pair x = false) l.
Proof. cbn [wf]. rewrite wf_all. reflexivity. Qed.

Definition sevent (k : seqk) : event := match k with SList => EList | SRec id => ERecord (str_bytes id) | SEdge => EEdge end.
Definition sopen (fc : list N -> list N) (k : seqk) : list N :=
  match k with SList => [91] | SRec id => 64 :: fc id ++ [123] | SEdge => [64; 40] end.
Definition sclose (k : seqk) : N := match k with SList => 93 | SRec _ => 125 | SEdge => 41 end.
Definition stokb (k : seqk) : tok := match k with SList => TListB | SRec id => TRecB (str_bytes id) | SEdge => TEdgeB end.
Definition stoke (k : seqk) : tok := match k with SList => TListE | SRec _ => TBraceE | SEdge => TParenE end.
Definition sck (k : seqk) : ckind := match k with SList => CList | SRec _ => CRecord | SEdge => CEdge end.
Definition sdev (k : seqk) : Denote.dev :=
  match k with SList => Denote.DList | SRec id => Denote.DRecord (str_bytes id) | SEdge => Denote.DEdge end.

(* the events handed to the encoder *)
Fixpoint events_of (t : tree) : list event :=
  match t with
  | VAtom a => [aevent a]
  | VCom m rs => [EComment m (str_bytes rs)]
  | VPair k v => events_of k ++ events_of v
  | VMark id v => EMarker (str_bytes id) :: events_of v
  | VSeq k l => sevent k :: flat_map events_of l ++ [EEnd]
  | VMap l => EMap :: flat_map events_of l ++ [EEnd]
  | VNode v l => ENode :: events_of v ++ flat_map events_of l ++ [EEnd]
  end.

(* the events the reader reports *)
Fixpoint rd_events (t : tree) : list event :=
  match t with
  | VAtom a => [ard a]
  | VCom m rs => [EComment m (str_bytes rs)]
  | VPair k v => rd_events k ++ rd_events v
  | VMark id v => EMarker (str_bytes id) :: rd_events v
  | VSeq k l => sevent k :: flat_map rd_events l ++ [EEnd]
  | VMap l => EMap :: flat_map rd_events l ++ [EEnd]
  | VNode v l => ENode :: rd_events v ++ flat_map rd_events l ++ [EEnd]
  end.

(* ---- the layout the encoder gives such a tree ---- *)

Section Printer.
  Variables (fs fc : list N -> list N).
  Fixpoint gp (ind : N) (t : tree) : list N :=
    let items := fun (l : list tree) => flat_map (fun x => nl (ind + 4) ++ gp (ind + 4) x) l in
    match t with
    | VAtom a => atext fs fc a
    | VCom false rs => 47 :: 47 :: fc rs
    | VCom true rs => 47 :: 42 :: fc rs ++ [42; 47]
    | VPair k v => gp ind k ++ [32; 61; 32] ++ gp ind v
    | VMark id v => 38 :: fc id ++ 58 :: gp ind v
    | VSeq k l => sopen fc k ++ items l ++ (match l with [] => [] | _ => nl ind end) ++ [sclose k]
    | VMap l => 123 :: items l ++ (match l with [] => [] | _ => nl ind end) ++ [125]
    | VNode v l => 40 :: gp (ind + 4) v ++ items l ++ nl ind ++ [41]
    end.
End Printer.

Definition pp : N -> tree -> bytes := gp qbytes str_bytes.          (* the text *)
Definition rp : N -> tree -> inp := gp qbody (fun rs => rs).         (* its code points *)

(* ---- the code points of the text ---- *)

Lemma runes_items k l (IH : Forall (fun t => wf t -> forall ind tail, runes (pp ind t ++ tail) = rp ind t ++ runes tail) l) :
  Forall wf l -> forall tail,
  runes (flat_map (fun x => nl k ++ pp k x) l ++ tail) = flat_map (fun x => nl k ++ rp k x) l ++ runes tail.
Proof.
  induction IH as [|x r Hx Hr IHr]; intros Hwf tail; [reflexivity|].
  inversion Hwf; subst. cbn [flat_map]. rewrite <- !app_assoc.
  rewrite runes_ascii_app by apply ascii_nl. rewrite Hx by assumption. rewrite IHr by assumption. reflexivity.
Qed.

Lemma Forall_wf {p : tree -> Prop} l : Forall (fun x => wf x /\ p x) l -> Forall wf l.
Proof. intro H. eapply Forall_impl; [|exact H]. intros a [Ha _]. exact Ha. Qed.

Lemma runes_ident id tail : scalars id -> runes (str_bytes id ++ tail) = id ++ runes tail.
Proof. intro H. unfold str_bytes. apply runes_utf8_str_app, H. Qed.

Lemma runes_pp t : wf t -> forall ind tail, runes (pp ind t ++ tail) = rp ind t ++ runes tail.
Proof.
  induction t using tree_induction; intros Hwf ind tail; unfold pp, rp in *; cbn [gp].
  - apply atom_runes, Hwf.
  - cbn [wf] in Hwf. destruct Hwf as [Hs _]. destruct m; cbn [app].
    + rewrite !runes_ascii_cons by lia. rewrite <- app_assoc. unfold str_bytes. rewrite runes_utf8_str_app by exact Hs.
      cbn [app]. rewrite !runes_ascii_cons by lia. rewrite <- app_assoc. reflexivity.
    + rewrite !runes_ascii_cons by lia. unfold str_bytes. rewrite runes_utf8_str_app by exact Hs. reflexivity.
  - cbn [wf] in Hwf. destruct Hwf as [Hk [Hv _]]. rewrite <- !app_assoc. rewrite IHt1 by exact Hk.
    cbn [app]. rewrite !runes_ascii_cons by lia. rewrite IHt2 by exact Hv. reflexivity.
  - cbn [wf] in Hwf. destruct Hwf as [[_ [_ Hs]] [Hv _]]. cbn [app]. rewrite runes_ascii_cons by lia.
    rewrite <- app_assoc. rewrite runes_ident by exact Hs. cbn [app]. rewrite runes_ascii_cons by lia.
    rewrite IHt by exact Hv. rewrite <- app_assoc. reflexivity.
  - apply wf_seq in Hwf. destruct Hwf as [Hl Hk]. assert (Hw := Forall_wf _ Hl).
    assert (Hop : forall X, runes (sopen str_bytes k ++ X) = sopen (fun rs => rs) k ++ runes X).
    { intro X. destruct k; cbn [sopen app]; rewrite ?runes_ascii_cons by lia; [reflexivity| |reflexivity].
      destruct Hk as [_ [_ Hs]]. rewrite <- app_assoc, runes_ident by exact Hs. cbn [app]. rewrite runes_ascii_cons by lia.
      rewrite <- app_assoc. reflexivity. }
    rewrite <- !app_assoc. rewrite Hop. rewrite (runes_items _ _ H Hw).
    assert (Hcl : sclose k < 128) by (destruct k; cbn; lia).
    destruct l; cbn [app]; [rewrite runes_ascii_cons by exact Hcl; reflexivity|].
    rewrite runes_ascii_app by apply ascii_nl. cbn [app]. rewrite runes_ascii_cons by exact Hcl. reflexivity.
  - apply wf_map in Hwf. assert (Hw := Forall_wf _ Hwf).
    cbn [app]. rewrite runes_ascii_cons by lia. rewrite <- !app_assoc.
    rewrite (runes_items _ _ H Hw). destruct l; cbn [app]; [rewrite runes_ascii_cons by lia; reflexivity|].
    rewrite runes_ascii_app by apply ascii_nl. cbn [app]. rewrite runes_ascii_cons by lia. reflexivity.
  - apply wf_node in Hwf. destruct Hwf as [[Hv _] Hl]. assert (Hw := Forall_wf _ Hl).
    cbn [app]. rewrite runes_ascii_cons by lia. rewrite <- !app_assoc. rewrite IHt by exact Hv.
    rewrite (runes_items _ _ H Hw). rewrite runes_ascii_app by apply ascii_nl. cbn [app]. rewrite runes_ascii_cons by lia. reflexivity.
Qed.

(* ------------------------------------------------------------------ *)
(** * From code points to tokens *)

Definition cwp (ind : N) (p : bool) : list tok := if p && (ind =? 0) then [] else [TWs].
Definition pfin (pend : bool) (l : list tree) : bool := match l with [] => pend | _ => is_lc (last l (VAtom ANull)) end.

Fixpoint tk (ind : N) (t : tree) : list tok :=
  let items := fun (l : list tree) => flat_map (fun x => TWs :: tk (ind + 4) x) l in
  match t with
  | VAtom a => [TVal (ard a)]
  | VCom m rs => [TComment m (str_bytes rs)]
  | VPair k v => tk ind k ++ [TWs; TEq; TWs] ++ tk ind v
  | VMark id v => TMarker (str_bytes id) :: tk ind v
  | VSeq k l => stokb k :: items l ++ (match l with [] => [] | _ => cwp ind (pfin false l) end) ++ [stoke k]
  | VMap l => TMapB :: items l ++ (match l with [] => [] | _ => cwp ind (pfin false l) end) ++ [TBraceE]
  | VNode v l => TNodeB :: tk (ind + 4) v ++ items l ++ cwp ind (pfin false l) ++ [TParenE]
  end.

Definition follow (t : tree) (R : inp) : Prop := wsd R /\ (is_lc t = true -> exists R', R = 10 :: R').
Definition strip (p : bool) (s : inp) : inp := if p then tl s else s.

Lemma rp_head t : wf t -> forall ind, exists c r, rp ind t = c :: r /\ is_ws c = false.
Proof.
  induction t using tree_induction; intros Hwf ind; unfold rp in *; cbn [gp].
  - apply atom_head, Hwf.
  - destruct m; eexists _, _; split; reflexivity.
  - cbn [wf] in Hwf. destruct Hwf as [Hk _]. destruct (IHt1 Hk ind) as [c [r [E Hc]]]. rewrite E. cbn [app].
    eexists _, _. split; [reflexivity|exact Hc].
  - eexists _, _. split; reflexivity.
  - destruct k; eexists _, _; split; reflexivity.
  - eexists _, _. split; reflexivity.
  - eexists _, _. split; reflexivity.
Qed.

Lemma rp_nows t : wf t -> forall ind R, nows (rp ind t ++ R).
Proof. intros Hwf ind R. destruct (rp_head t Hwf ind) as [c [r [E Hc]]]. rewrite E. exact Hc. Qed.

Lemma rp_length t : wf t -> forall ind, (0 < length (rp ind t))%nat.
Proof. intros Hwf ind. destruct (rp_head t Hwf ind) as [c [r [E _]]]. rewrite E. cbn [length]. lia. Qed.

Section Items.
  Variables (cc : N) (ct : tok).
  Hypotheses (Hct : forall r, next_tok O (cc :: r) = Some (ct, r, O)) (Hcc : is_ws cc = false).
  Variables (ind k : N) (R : inp).
  Hypothesis Hk : 0 < k.

  Definition items_text (l : list tree) : inp := flat_map (fun x => nl k ++ rp k x) l ++ nl ind ++ cc :: R.

  Lemma items_text_head l : exists X, items_text l = 10 :: X.
  Proof. unfold items_text. destruct l; cbn [flat_map app nl]; eexists; reflexivity. Qed.

  Lemma lexes_items l :
    Forall (fun x => wf x /\ forall ind R, follow x R -> lexes (tk ind x) (rp ind x ++ R) (strip (is_lc x) R)) l ->
    forall pend,
    lexes (flat_map (fun x => TWs :: tk k x) l ++ cwp ind (pfin pend l) ++ [ct]) (strip pend (items_text l)) R.
  Proof.
    induction 1 as [|x l' [Hwf Hx] Hl IH]; intro pend.
    - unfold items_text. cbn [flat_map app pfin]. destruct pend; cbn [strip].
      + unfold nl. cbn [app tl]. unfold cwp. cbn [andb]. destruct (N.eqb_spec ind 0) as [E|E].
        * rewrite E. unfold spaces. cbn [N.to_nat repeat app]. apply lexes_one; [apply Hct|cbn [length]; lia].
        * cbn [app]. exists (cc :: R). split; [apply tok_spaces; [lia|exact Hcc]|].
          split; [rewrite app_length, spaces_length; cbn [length]; lia|]. apply lexes_one; [apply Hct|cbn [length]; lia].
      + unfold cwp. cbn [andb app]. exists (cc :: R). split; [apply tok_nl; exact Hcc|].
        split; [unfold nl; cbn [app length]; rewrite app_length; cbn [length]; lia|]. apply lexes_one; [apply Hct|cbn [length]; lia].
    - assert (Etext : items_text (x :: l') = nl k ++ rp k x ++ items_text l').
      { unfold items_text. cbn [flat_map]. rewrite <- !app_assoc. reflexivity. }
      assert (Epf : pfin pend (x :: l') = pfin (is_lc x) l') by (destruct l'; reflexivity).
      rewrite Etext, Epf. cbn [flat_map]. rewrite <- app_assoc. cbn [app].
      destruct (items_text_head l') as [X EX].
      assert (Hfollow : follow x (items_text l')).
      { rewrite EX. split; [reflexivity|]. intros _. exists X. reflexivity. }
      assert (Hn : nows (rp k x ++ items_text l')) by (apply rp_nows, Hwf).
      exists (rp k x ++ items_text l'). split; [|split].
      + destruct pend; cbn [strip]; [unfold nl; cbn [app tl]; apply tok_spaces; assumption | apply tok_nl; assumption].
      + destruct pend; cbn [strip]; unfold nl; cbn [app tl length]; rewrite !app_length, spaces_length; lia.
      + eapply lexes_app; [apply Hx, Hfollow|]. apply IH.
  Qed.
End Items.

Lemma ws_not_media c : is_ws c = true -> ch_media_next c = false.
Proof. intro H. apply ws_cases in H. destruct H as [E|[E|[E|E]]]; subst c; reflexivity. Qed.

Lemma media_stop_braces R : wsd R -> ConvertProofs.media_stop_ok (123 :: 125 :: R).
Proof.
  intro H. unfold ConvertProofs.media_stop_ok. cbn [span]. change (ch_media_next 123) with true. change (ch_media_next 125) with true. cbv iota.
  destruct R as [|c R']; [exact I|]. cbn [span]. cbn in H. rewrite (ws_not_media c H). cbn [snd].
  apply ws_cases in H. lia.
Qed.

Lemma tok_sopen k X : seq_ok k [] \/ (exists l, seq_ok k l) -> (forall id, k = SRec id -> ident_ok id /\ ConvertProofs.media_stop_ok (123 :: X)) ->
  next_tok O (sopen (fun rs => rs) k ++ X) = Some (stokb k, X, O).
Proof.
  intros _ Hrec. destruct k as [|id|]; cbn [sopen stokb app].
  - reflexivity.
  - destruct (Hrec id eq_refl) as [[Hne [Hid _]] Hst]. rewrite <- app_assoc. cbn [app].
    rewrite (ConvertProofs.at_ident_token O id 123 X Hne Hid (or_intror eq_refl) Hst). reflexivity.
  - reflexivity.
Qed.

Lemma sopen_length k X : (length X < length (sopen (fun rs => rs) k ++ X))%nat.
Proof. destruct k; cbn [sopen app length]; rewrite ?app_length; cbn [length]; lia. Qed.

Lemma tok_sclose k R : next_tok O (sclose k :: R) = Some (stoke k, R, O).
Proof. destruct k; reflexivity. Qed.

Lemma lexes_tree t : wf t -> forall ind R, follow t R -> lexes (tk ind t) (rp ind t ++ R) (strip (is_lc t) R).
Proof.
  induction t using tree_induction; intros Hwf ind R [Hw Hlc]; unfold rp in *; cbn [gp tk is_lc strip].
  - (* atoms *)
    apply lexes_one; [apply atom_tok; assumption|].
    destruct (atom_head a Hwf) as [c [r [E _]]]. unfold arunes in E. rewrite E. cbn [app length]. rewrite app_length. lia.
  - cbn [wf] in Hwf. destruct Hwf as [_ Hok]. destruct m; cbn [is_lc strip] in *.
    + cbn [app]. rewrite <- app_assoc. cbn [app]. apply lexes_one; [apply tok_block_comment, Hok|].
      cbn [length]. rewrite app_length. cbn [length]. lia.
    + destruct (Hlc eq_refl) as [R' ->]. cbn [app tl]. apply lexes_one; [apply tok_line_comment, Hok|].
      cbn [length]. rewrite app_length. cbn [length]. lia.
  - cbn [wf] in Hwf. destruct Hwf as [Hk [Hv [Vk [Vv _]]]].
    assert (Lk : is_lc t1 = false) by (destruct t1; try reflexivity; discriminate).
    assert (Lv : is_lc t2 = false) by (destruct t2; try reflexivity; discriminate).
    rewrite <- !app_assoc. cbn [app].
    eapply lexes_app.
    { assert (F := IHt1 Hk ind (32 :: 61 :: 32 :: gp qbody (fun rs => rs) ind t2 ++ R)).
      rewrite Lk in F. cbn [strip] in F. apply F. split; [reflexivity|]. rewrite Lk. discriminate. }
    assert (Hn : nows (rp ind t2 ++ R)) by (apply rp_nows, Hv).
    exists (61 :: 32 :: gp qbody (fun rs => rs) ind t2 ++ R). split; [reflexivity|]. split; [cbn [length]; lia|].
    exists (32 :: gp qbody (fun rs => rs) ind t2 ++ R). split; [reflexivity|]. split; [cbn [length]; lia|].
    exists (gp qbody (fun rs => rs) ind t2 ++ R). split; [|split; [cbn [length]; lia|]].
    { change (32 :: gp qbody (fun rs => rs) ind t2 ++ R) with (spaces 1 ++ (rp ind t2 ++ R)). apply tok_spaces; [lia|exact Hn]. }
    assert (F := IHt2 Hv ind R). rewrite Lv in F. cbn [strip] in F. apply F. split; [exact Hw|]. rewrite Lv. discriminate.
  - (* marker *)
    cbn [wf] in Hwf. destruct Hwf as [[Hne [Hid Hs]] [Hv [Vv _]]].
    assert (Lv : is_lc t = false) by (destruct t; try reflexivity; discriminate).
    cbn [app]. rewrite <- app_assoc. cbn [app].
    exists (gp qbody (fun rs => rs) ind t ++ R). split; [apply ConvertProofs.marker_token; assumption|].
    split; [cbn [length]; rewrite !app_length; cbn [length]; rewrite ?app_length; lia|].
    assert (F := IHt Hv ind R). rewrite Lv in F. cbn [strip] in F. apply F. split; [exact Hw|]. rewrite Lv. discriminate.
  - (* list, record, edge *)
    apply wf_seq in Hwf. destruct Hwf as [Hl Hk]. rewrite <- !app_assoc.
    assert (Hst : forall X, (X = sclose k :: R \/ exists Y, X = 10 :: Y) ->
                  forall id, k = SRec id -> ident_ok id /\ ConvertProofs.media_stop_ok (123 :: X)).
    { intros X HX id E. subst k. split; [exact Hk|]. destruct HX as [->|[Y ->]].
      - apply media_stop_braces, Hw.
      - apply ConvertProofs.media_stop_after_brace_lf. }
    destruct l as [|x l'].
    + cbn [flat_map app]. exists (sclose k :: R). split; [apply tok_sopen; [left; destruct k; cbn; trivial; exact Hk|apply Hst; left; reflexivity]|].
      split; [apply sopen_length|]. apply lexes_one; [apply tok_sclose|cbn [length]; lia].
    + cbv iota. set (l := x :: l') in *.
      assert (Etxt : flat_map (fun x0 => nl (ind + 4) ++ gp qbody (fun rs => rs) (ind + 4) x0) l ++ nl ind ++ [sclose k] ++ R
                     = items_text (sclose k) ind (ind + 4) R l) by reflexivity.
      rewrite Etxt. destruct (items_text_head (sclose k) ind (ind + 4) R l) as [Y EY].
      exists (items_text (sclose k) ind (ind + 4) R l). split; [|split].
      * apply tok_sopen; [right; exists l; exact Hk|]. apply Hst. right. exists Y. exact EY.
      * apply sopen_length.
      * apply (lexes_items (sclose k) (stoke k) (tok_sclose k) ltac:(destruct k; reflexivity) ind (ind + 4) R ltac:(lia) l) with (pend := false).
        rewrite Forall_forall in *. intros y Hy. split; [apply Hl, Hy|]. intros ind' R' F. apply H; [exact Hy|apply Hl, Hy|exact F].
  - (* map *)
    apply wf_map in Hwf. destruct l as [|x l'].
    + cbn [flat_map app]. exists (125 :: R). split; [reflexivity|]. split; [cbn [length]; lia|].
      apply lexes_one; [reflexivity|cbn [length]; lia].
    + cbv iota. set (l := x :: l') in *. cbn [app]. exists (items_text 125 ind (ind + 4) R l). split; [|split].
      * unfold items_text, rp. rewrite <- !app_assoc. reflexivity.
      * unfold items_text, rp. rewrite <- !app_assoc. cbn [app length]. lia.
      * apply (lexes_items 125 TBraceE (fun r => eq_refl) eq_refl ind (ind + 4) R ltac:(lia) l) with (pend := false).
        rewrite Forall_forall in *. intros y Hy. split; [apply Hwf, Hy|]. intros ind' R' F. apply H; [exact Hy|apply Hwf, Hy|exact F].
  - (* node *)
    apply wf_node in Hwf. destruct Hwf as [[Hv [Vv _]] Hl].
    assert (Lv : is_lc t = false) by (destruct t; try reflexivity; discriminate).
    cbn [app]. rewrite <- !app_assoc.
    assert (Etxt : flat_map (fun x0 => nl (ind + 4) ++ gp qbody (fun rs => rs) (ind + 4) x0) l ++ nl ind ++ [41] ++ R
                   = items_text 41 ind (ind + 4) R l) by reflexivity.
    rewrite Etxt. destruct (items_text_head 41 ind (ind + 4) R l) as [Y EY].
    exists (gp qbody (fun rs => rs) (ind + 4) t ++ items_text 41 ind (ind + 4) R l). split; [reflexivity|]. split; [cbn [length]; lia|].
    eapply lexes_app.
    { assert (F := IHt Hv (ind + 4) (items_text 41 ind (ind + 4) R l)). rewrite Lv in F. cbn [strip] in F. apply F.
      rewrite EY. split; [reflexivity|]. rewrite Lv. discriminate. }
    apply (lexes_items 41 TParenE (fun r => eq_refl) eq_refl ind (ind + 4) R ltac:(lia) l) with (pend := false).
    rewrite Forall_forall in *. intros y Hy. split; [apply Hl, Hy|]. intros ind' R' F. apply H; [exact Hy|apply Hl, Hy|exact F].
Qed.

(* ------------------------------------------------------------------ *)
(** * From tokens to events *)

Definition vhead (t : tok) : bool :=
  match t with TVal _ | TListB | TMapB | TMarker _ | TRecB _ | TNodeB | TEdgeB => true | _ => false end.

Lemma tk_value_head t ind : is_value t = true -> exists t0 r, tk ind t = t0 :: r /\ vhead t0 = true.
Proof. destruct t as [| | | |k l| |]; intro H; try discriminate; cbn [tk]; try (eexists _, _; split; reflexivity).
  destruct k; eexists _, _; split; reflexivity. Qed.

Lemma skip_seps_vhead t0 r : vhead t0 = true -> skip_seps (t0 :: r) = ([], t0 :: r, false).
Proof. destruct t0; intro H; try discriminate; reflexivity. Qed.

Lemma skip_seps_ws_vhead t0 r : vhead t0 = true -> skip_seps (TWs :: t0 :: r) = ([], t0 :: r, true).
Proof. destruct t0; intro H; try discriminate; reflexivity. Qed.

Lemma closes_vhead k t0 : vhead t0 = true -> closes k t0 = false.
Proof. destruct k, t0; intro H; try discriminate; reflexivity. Qed.
Lemma p_items_ws f k n T res : p_items f k n T = Some res -> p_items f k n (TWs :: T) = Some res.
Proof.
  destruct f as [|f]; [discriminate|]. cbn [p_items skip_seps].
  destruct (skip_seps T) as [[cs ts1] sep]. destruct ts1 as [|t r]; [discriminate|].
  destruct (closes k t); [exact (fun H => H)|].
  destruct ((0 <? n)%nat && negb sep); [discriminate|]. rewrite andb_false_r. exact (fun H => H).
Qed.

Lemma p_items_com f k n m b T es r : p_items f k n T = Some (es, r) -> p_items f k n (TComment m b :: T) = Some (EComment m b :: es, r).
Proof.
  destruct f as [|f]; [discriminate|]. cbn [p_items skip_seps].
  destruct (skip_seps T) as [[cs ts1] sep]. destruct ts1 as [|t r0]; [discriminate|].
  destruct (closes k t).
  - destruct (count_ok k n); [|discriminate]. intro H. inversion H; subst. reflexivity.
  - destruct ((0 <? n)%nat && negb sep); [discriminate|]. rewrite andb_false_r.
    destruct (p_value f (t :: r0)) as [[es1 ts2]|]; [|discriminate].
    destruct (p_items f k (S n) ts2) as [[es2 ts3]|]; [|discriminate].
    intro H. inversion H; subst. reflexivity.
Qed.

Lemma p_pairs_ws f first T res : p_pairs f first T = Some res -> p_pairs f first (TWs :: T) = Some res.
Proof.
  destruct f as [|f]; [discriminate|]. cbn [p_pairs skip_seps].
  destruct (skip_seps T) as [[cs ts1] sep]. destruct ts1 as [|t r]; [discriminate|].
  destruct t; try exact (fun H => H);
    (destruct (negb first && negb sep); [discriminate|]; rewrite andb_false_r; exact (fun H => H)).
Qed.

Lemma p_pairs_com f first m b T es r : p_pairs f first T = Some (es, r) -> p_pairs f first (TComment m b :: T) = Some (EComment m b :: es, r).
Proof.
  destruct f as [|f]; [discriminate|]. cbn [p_pairs skip_seps].
  destruct (skip_seps T) as [[cs ts1] sep]. destruct ts1 as [|t r0]; [discriminate|].
  assert (G : forall X : option (list event * list tok),
            match X with Some (es2, ts7) => Some (cs ++ es2, ts7) | None => None end = Some (es, r) ->
            match X with Some (es2, ts7) => Some ((EComment m b :: cs) ++ es2, ts7) | None => None end = Some (EComment m b :: es, r)).
  { intros [[a c]|] H; [|discriminate]. inversion H; subst. reflexivity. }
  destruct t;
    try (destruct (negb first && negb sep); [discriminate|]; rewrite andb_false_r;
         match goal with |- context [p_value f ?ts] => destruct (p_value f ts) as [[kes ts2]|]; [|discriminate] end;
         destruct (skip_seps ts2) as [[cs2 ts3] s2]; destruct ts3 as [|t3 ts4]; [discriminate|];
         destruct t3; try discriminate;
         destruct (skip_seps ts4) as [[cs3 ts5] s3];
         destruct (p_value f ts5) as [[ves ts6]|]; [|discriminate];
         destruct (p_pairs f false ts6) as [[es2 ts7]|]; [|discriminate];
         intro H; inversion H; subst; reflexivity).
  intro H. inversion H; subst. reflexivity.
Qed.

Definition parses (t : tree) : Prop :=
  wf t -> is_value t = true -> forall ind f rest, (length (tk ind t) < f)%nat ->
  p_value f (tk ind t ++ rest) = Some (rd_events t, rest).

Definition item_toks (i : N) (l : list tree) : list tok := flat_map (fun x => TWs :: tk i x) l.


Lemma p_items_value_step k x i T f n es rest :
  parses x -> wf x -> is_value x = true -> (length (tk i x) < f)%nat ->
  p_items f k (S n) T = Some (es, rest) ->
  p_items (S f) k n (TWs :: tk i x ++ T) = Some (rd_events x ++ es, rest).
Proof.
  intros Hx Hwf Hv Hf HT.
  destruct (tk_value_head x i Hv) as [t0 [r0 [E0 V0]]].
  assert (Hp := Hx Hwf Hv i f T Hf).
  cbn [p_items]. rewrite E0 in *. cbn [app] in *. rewrite (skip_seps_ws_vhead _ _ V0).
  rewrite (closes_vhead k t0 V0). rewrite andb_false_r. rewrite Hp, HT. reflexivity.
Qed.

(* the first value of a node follows the opening parenthesis directly *)
Lemma p_items_first_step k x i T f es rest :
  parses x -> wf x -> is_value x = true -> (length (tk i x) < f)%nat ->
  p_items f k 1 T = Some (es, rest) ->
  p_items (S f) k 0 (tk i x ++ T) = Some (rd_events x ++ es, rest).
Proof.
  intros Hx Hwf Hv Hf HT.
  destruct (tk_value_head x i Hv) as [t0 [r0 [E0 V0]]].
  assert (Hp := Hx Hwf Hv i f T Hf).
  cbn [p_items]. rewrite E0 in *. cbn [app] in *. rewrite (skip_seps_vhead _ _ V0).
  rewrite (closes_vhead k t0 V0). cbn [Nat.ltb Nat.leb andb]. rewrite Hp, HT. reflexivity.
Qed.

Lemma count_values_cons x l : count_values (x :: l) = if is_value x then S (count_values l) else count_values l.
Proof. unfold count_values. cbn [filter]. destruct (is_value x); reflexivity. Qed.

Lemma p_items_seq k ct i l : closes k ct = true -> vhead ct = false -> ct <> TWs -> (forall m b, ct <> TComment m b) ->
  Forall (fun x => (wf x /\ is_pair x = false) /\ parses x) l ->
  forall cw, cw = [] \/ cw = [TWs] ->
  forall f n rest, (length (item_toks i l ++ cw ++ [ct]) < f)%nat -> count_ok k (n + count_values l) = true ->
  p_items f k n (item_toks i l ++ cw ++ ct :: rest) = Some (flat_map rd_events l ++ [EEnd], rest).
Proof.
  intros Hcl Hnv Hnw Hnc. induction 1 as [|x l' [[Hwf Hnp] Hx] Hl IH]; intros cw Hcw f n rest Hf Hcnt.
  - cbn [item_toks flat_map app]. destruct f as [|f]; [cbn in Hf; lia|].
    unfold count_values in Hcnt. cbn [filter length] in Hcnt. rewrite Nat.add_0_r in Hcnt.
    destruct Hcw as [E | E]; subst cw; cbn [app p_items skip_seps].
    + destruct ct; try discriminate Hnv; try (exfalso; apply Hnw; reflexivity); try (exfalso; eapply Hnc; reflexivity);
        cbn [skip_seps]; rewrite Hcl, Hcnt; reflexivity.
    + destruct ct; try discriminate Hnv; try (exfalso; apply Hnw; reflexivity); try (exfalso; eapply Hnc; reflexivity);
        cbn [skip_seps]; rewrite Hcl, Hcnt; reflexivity.
  - unfold item_toks in *. cbn [flat_map] in *. rewrite <- !app_assoc in *. cbn [app] in *.
    cbn [length] in Hf. rewrite !app_length in Hf. cbn [length] in Hf. rewrite count_values_cons in Hcnt.
    destruct (is_value x) eqn:V.
    + destruct f as [|f]; [lia|]. apply p_items_value_step; try assumption; [lia|].
      apply (IH cw Hcw); [rewrite !app_length; cbn [length]; lia|]. replace (S n + count_values l')%nat with (n + S (count_values l'))%nat by lia. exact Hcnt.
    + destruct x; try discriminate.
      cbn [tk app rd_events]. apply p_items_ws, p_items_com. apply (IH cw Hcw); [|exact Hcnt].
      rewrite !app_length. cbn [length]. cbn [tk length] in Hf. lia.
Qed.
Lemma p_pairs_pair_step k v i T f first es rest :
  parses k -> parses v -> wf k -> wf v -> is_value k = true -> is_value v = true ->
  (length (tk i k) < f)%nat -> (length (tk i v) < f)%nat ->
  p_pairs f false T = Some (es, rest) ->
  p_pairs (S f) first (TWs :: tk i k ++ TWs :: TEq :: TWs :: tk i v ++ T) = Some (rd_events k ++ rd_events v ++ es, rest).
Proof.
  intros Pk Pv Wk Wv Vk Vv Fk Fv HT.
  destruct (tk_value_head k i Vk) as [t0 [r0 [E0 V0]]].
  destruct (tk_value_head v i Vv) as [t1 [r1 [E1 V1]]].
  assert (Hk := Pk Wk Vk i f (TWs :: TEq :: TWs :: tk i v ++ T) Fk).
  assert (Hv := Pv Wv Vv i f T Fv).
  cbn [p_pairs]. rewrite E0 in *. cbn [app] in *. rewrite (skip_seps_ws_vhead _ _ V0).
  rewrite andb_false_r.
  assert (Hm : forall (A : Type) (a b : A) ,
            match t0 :: r0 ++ TWs :: TEq :: TWs :: tk i v ++ T with
            | [] => a | TBraceE :: _ => a | _ => b end = b).
  { intros. destruct t0; try discriminate; reflexivity. }
  destruct t0; try discriminate V0;
    (rewrite Hk; cbn [skip_seps]; rewrite E1 in *; cbn [app] in *; rewrite (skip_seps_vhead _ _ V1);
     rewrite Hv, HT; reflexivity).
Qed.

Lemma p_pairs_map i l :
  Forall (fun x => (wf x /\ is_value x = false) /\ (forall k v, x = VPair k v -> parses k /\ parses v)) l ->
  forall cw, cw = [] \/ cw = [TWs] ->
  forall f first rest, (length (item_toks i l ++ cw ++ [TBraceE]) < f)%nat ->
  p_pairs f first (item_toks i l ++ cw ++ TBraceE :: rest) = Some (flat_map rd_events l ++ [EEnd], rest).
Proof.
  induction 1 as [|x l' [[Hwf Hnv] Hx] Hl IH]; intros cw Hcw f first rest Hf.
  - cbn [item_toks flat_map app]. destruct f as [|f]; [cbn in Hf; lia|].
    destruct Hcw as [-> | ->]; reflexivity.
  - unfold item_toks in *. cbn [flat_map] in *. rewrite <- !app_assoc in *. cbn [app] in *.
    destruct x; try discriminate.
    + cbn [tk app rd_events] in *. apply p_pairs_ws, p_pairs_com. apply (IH cw Hcw).
      cbn [length] in Hf. lia.
    + destruct (Hx x1 x2 eq_refl) as [P1 P2]. cbn [wf] in Hwf. destruct Hwf as [W1 [W2 [V1 [V2 _]]]].
      cbn [tk rd_events] in *. rewrite <- !app_assoc in *. cbn [app] in *.
      cbn [length] in Hf. repeat (rewrite app_length in Hf; cbn [length] in Hf).
      destruct f as [|f]; [lia|]. apply p_pairs_pair_step; try assumption; try lia.
      apply (IH cw Hcw). repeat (rewrite app_length; cbn [length]). lia.
Qed.

Definition parses2 (t : tree) : Prop := parses t /\ (forall k v, t = VPair k v -> parses k /\ parses v).

Lemma cw_cases ind (l : list tree) :
  (match l with [] => [] | _ => cwp ind (pfin false l) end) = [] \/ (match l with [] => [] | _ => cwp ind (pfin false l) end) = [TWs].
Proof. destruct l; [left; reflexivity|]. unfold cwp. destruct (_ && _); [left|right]; reflexivity. Qed.


Lemma parses_all t : parses2 t.
Proof.
  induction t using tree_induction; (split; [|try (intros k0 v0 E; discriminate E)]);
    try (intros Hwf Hv ind f rest Hf; first [cbn in Hv; discriminate Hv | destruct f as [|f]; [cbn in Hf; lia|]; reflexivity]).
  - intros k0 v0 E. inversion E; subst. split; [apply IHt1|apply IHt2].
  - (* marker *)
    intros Hwf Hv ind f rest Hf. cbn [wf] in Hwf. destruct Hwf as [_ [Wv [Vv _]]].
    cbn [tk rd_events app] in *. destruct f as [|f]; [cbn in Hf; lia|]. cbn [length] in Hf.
    cbn [p_value]. rewrite (proj1 IHt Wv Vv ind f rest) by lia. reflexivity.
  - (* list, record, edge *)
    intros Hwf Hv ind f rest Hf.
    apply wf_seq in Hwf. destruct Hwf as [Hl Hk]. cbn [tk rd_events] in *. destruct f as [|f]; [cbn in Hf; lia|].
    cbn [length] in Hf. cbn [app]. rewrite <- !app_assoc. cbn [app].
    fold (item_toks (ind + 4) l) in *.
    assert (G : p_items f (sck k) O (item_toks (ind + 4) l ++ (match l with [] => [] | _ => cwp ind (pfin false l) end) ++ stoke k :: rest)
                = Some (flat_map rd_events l ++ [EEnd], rest)).
    { apply p_items_seq.
      - destruct k; reflexivity.
      - destruct k; reflexivity.
      - destruct k; discriminate.
      - destruct k; discriminate.
      - rewrite Forall_forall in *. intros x Hx. split; [apply Hl, Hx|apply H, Hx].
      - apply cw_cases.
      - rewrite !app_length in *. cbn [length] in *. lia.
      - destruct k; cbn [sck count_ok]; try reflexivity. cbn [seq_ok] in Hk. rewrite Hk. reflexivity. }
    destruct k; cbn [stokb sck sevent p_value] in *; rewrite G; reflexivity.
  - (* map *)
    intros Hwf Hv ind f rest Hf.
    apply wf_map in Hwf. cbn [tk rd_events] in *. destruct f as [|f]; [cbn in Hf; lia|].
    cbn [app p_value]. cbn [length] in Hf. rewrite <- !app_assoc. cbn [app].
    fold (item_toks (ind + 4) l) in *. rewrite (p_pairs_map (ind + 4) l).
    + reflexivity.
    + rewrite Forall_forall in *. intros x Hx. split; [apply Hwf, Hx|apply H, Hx].
    + apply cw_cases.
    + lia.
  - (* node *)
    intros Hwf Hv ind f rest Hf.
    apply wf_node in Hwf. destruct Hwf as [[Wv [Vv _]] Hl]. cbn [tk rd_events] in *. destruct f as [|f]; [cbn in Hf; lia|].
    cbn [app p_value]. cbn [length] in Hf. rewrite <- !app_assoc. cbn [app].
    fold (item_toks (ind + 4) l) in *. rewrite !app_length in Hf. cbn [length] in Hf.
    destruct f as [|f]; [lia|].
    rewrite (p_items_first_step CNode t (ind + 4) _ f (flat_map rd_events l ++ [EEnd]) rest (proj1 IHt) Wv Vv ltac:(lia)).
    + rewrite <- ?app_assoc. reflexivity.
    + apply p_items_seq; try reflexivity; try discriminate.
      * rewrite Forall_forall in *. intros x Hx. split; [apply Hl, Hx|apply H, Hx].
      * unfold cwp. destruct (_ && _); [left|right]; reflexivity.
      * destruct (tk_value_head t (ind + 4) Vv) as [t0 [r0 [E0 _]]]. rewrite E0 in Hf. rewrite !app_length in *. cbn [length] in *. lia.
Qed.
(** * The reader on the encoder's layout *)

Lemma lex_nil f idx : lex f idx [] = Some [].
Proof. destruct f; reflexivity. Qed.

Lemma value_not_lc t : is_value t = true -> is_lc t = false.
Proof. destruct t; try reflexivity; discriminate. Qed.


(* ------------------------------------------------------------------ *)
(** * Documents: record types, then the top-level value *)

Definition rectype := (list N * list tree)%type.
Definition wf_rt (rt : rectype) : Prop := ident_ok (fst rt) /\ Forall (fun x => wf x /\ is_pair x = false) (snd rt).

Definition rt_events (f : tree -> list event) (rt : rectype) : list event :=
  ERecordType (str_bytes (fst rt)) :: flat_map f (snd rt) ++ [EEnd].
Definition doc_events (rts : list rectype) (t : tree) : list event := flat_map (rt_events events_of) rts ++ events_of t.
Definition doc_rd (rts : list rectype) (t : tree) : list event := flat_map (rt_events rd_events) rts ++ rd_events t.

(* "@name<" items ">" and the line feed the encoder writes after it *)
Definition gp_rt (fs fc : list N -> list N) (rt : rectype) : list N :=
  64 :: fc (fst rt) ++ 60 :: flat_map (fun x => nl 4 ++ gp fs fc 4 x) (snd rt) ++
  (match snd rt with [] => [] | _ => nl 0 end) ++ 62 :: nl 0.
Definition pp_doc (rts : list rectype) (t : tree) : bytes :=
  99 :: 48 :: nl 0 ++ flat_map (gp_rt qbytes str_bytes) rts ++ pp 0 t.
Definition rp_body (rts : list rectype) (t : tree) : inp := flat_map (gp_rt qbody (fun rs => rs)) rts ++ rp 0 t.
Definition document (body : list event) : list event := EBeginDoc :: EVersion 0 :: body ++ [EEndDoc].

Definition tk_rt (rt : rectype) : list tok :=
  TRecTypeB (str_bytes (fst rt)) :: item_toks 4 (snd rt) ++
  (match snd rt with [] => [] | _ => cwp 0 (pfin false (snd rt)) end) ++ [TGt; TWs].
Definition tk_body (rts : list rectype) (t : tree) : list tok := flat_map tk_rt rts ++ tk 0 t.

Lemma runes_rt rt : wf_rt rt -> forall tail,
  runes (gp_rt qbytes str_bytes rt ++ tail) = gp_rt qbody (fun rs => rs) rt ++ runes tail.
Proof.
  intros [[_ [_ Hs]] Hl] tail. destruct rt as [id l]. unfold gp_rt. cbn [fst snd] in *.
  cbn [app]. rewrite runes_ascii_cons by lia. rewrite <- !app_assoc. rewrite runes_ident by exact Hs.
  cbn [app]. rewrite runes_ascii_cons by lia. rewrite <- !app_assoc.
  assert (Hw := Forall_wf _ Hl).
  assert (IH : Forall (fun t => wf t -> forall ind tail, runes (pp ind t ++ tail) = rp ind t ++ runes tail) l).
  { apply Forall_forall. intros x _. apply runes_pp. }
  rewrite (runes_items 4 l IH Hw).
  destruct l; cbn [app]; rewrite ?runes_ascii_cons by lia.
  - rewrite (runes_ascii_app (nl 0)) by apply ascii_nl. reflexivity.
  - rewrite (runes_ascii_app (nl 0)) by apply ascii_nl. cbn [app]. rewrite runes_ascii_cons by lia.
    rewrite (runes_ascii_app (nl 0)) by apply ascii_nl. reflexivity.
Qed.

Lemma runes_body rts t : Forall wf_rt rts -> wf t -> forall tail,
  runes ((flat_map (gp_rt qbytes str_bytes) rts ++ pp 0 t) ++ tail) = rp_body rts t ++ runes tail.
Proof.
  intros Hr Hwf tail. unfold rp_body. induction Hr as [|rt rts' Hrt Hrts IH].
  - cbn [flat_map app]. apply runes_pp, Hwf.
  - cbn [flat_map]. rewrite <- !app_assoc. rewrite runes_rt by exact Hrt. rewrite app_assoc. rewrite IH. rewrite <- !app_assoc. reflexivity.
Qed.

Lemma media_stop_lt X : ConvertProofs.media_stop_ok (60 :: X).
Proof. unfold ConvertProofs.media_stop_ok. cbn [span]. change (ch_media_next 60) with false. cbv iota. cbn [snd]. discriminate. Qed.

Lemma lexes_rt rt X : wf_rt rt -> nows X -> lexes (tk_rt rt) (gp_rt qbody (fun rs => rs) rt ++ X) X.
Proof.
  intros [[Hne [Hid Hs]] Hl] HX. destruct rt as [id l]. unfold gp_rt, tk_rt. cbn [fst snd] in *.
  cbn [app]. rewrite <- !app_assoc. cbn [app]. rewrite <- !app_assoc.
  assert (Hopen : forall Y, next_tok O (64 :: id ++ 60 :: Y) = Some (TRecTypeB (str_bytes id), Y, O)).
  { intro Y. rewrite (ConvertProofs.at_ident_token O id 60 Y Hne Hid (or_introl eq_refl) (media_stop_lt Y)). reflexivity. }
  assert (Hgt : forall r, next_tok O (62 :: r) = Some (TGt, r, O)) by reflexivity.
  assert (Hfin : lexes [TWs] (nl 0 ++ X) X).
  { apply lexes_one; [apply tok_nl, HX|unfold nl; cbn [app length]; rewrite app_length; lia]. }
  destruct l as [|x l'].
  - cbn [flat_map app item_toks]. exists (62 :: nl 0 ++ X). split; [apply Hopen|]. split; [cbn [length]; rewrite !app_length; cbn [length]; rewrite ?app_length; cbn [length]; lia|].
    exists (nl 0 ++ X). split; [apply Hgt|]. split; [cbn [length]; lia|]. exact Hfin.
  - cbv iota. set (l := x :: l') in *.
    exists (items_text 62 0 4 (nl 0 ++ X) l). split; [exact (Hopen _)|].
    split; [unfold items_text, rp; cbn [length]; rewrite !app_length; cbn [length]; rewrite ?app_length; cbn [length]; lia|].
    replace (item_toks 4 l ++ cwp 0 (pfin false l) ++ [TGt; TWs]) with ((item_toks 4 l ++ cwp 0 (pfin false l) ++ [TGt]) ++ [TWs])
      by (rewrite <- !app_assoc; reflexivity).
    eapply lexes_app; [|exact Hfin].
    apply (lexes_items 62 TGt Hgt eq_refl 0 4 (nl 0 ++ X) ltac:(lia) l) with (pend := false).
    rewrite Forall_forall in *. intros y Hy. split; [apply Hl, Hy|]. intros ind' R' F. apply lexes_tree; [apply Hl, Hy|exact F].
Qed.

Lemma gp_rt_nows rt X : nows (gp_rt qbody (fun rs => rs) rt ++ X).
Proof. reflexivity. Qed.

Lemma lexes_body rts t : Forall wf_rt rts -> wf t -> is_value t = true ->
  lexes (tk_body rts t) (flat_map (gp_rt qbody (fun rs => rs)) rts ++ rp 0 t ++ []) [].
Proof.
  intros Hr Hwf Hv. unfold tk_body. induction Hr as [|rt rts' Hrt Hrts IH].
  - cbn [flat_map app].
    assert (F := lexes_tree t Hwf 0 []). assert (Lv : is_lc t = false) by (destruct t; try reflexivity; discriminate).
    rewrite Lv in F. apply F. split; [exact I|]. rewrite Lv. discriminate.
  - cbn [flat_map]. rewrite <- !app_assoc. eapply lexes_app; [|exact IH].
    apply lexes_rt; [exact Hrt|]. destruct rts' as [|rt2 r2]; cbn [flat_map app]; [apply rp_nows, Hwf|reflexivity].
Qed.

(* ---- parsing the token list of a document ---- *)

Lemma p_top_body rts t : Forall wf_rt rts -> wf t -> is_value t = true ->
  forall f ws, ws = [] \/ ws = [TWs] -> (length (tk_body rts t) + 2 < f)%nat ->
  p_top f (ws ++ tk_body rts t) = Some (doc_rd rts t).
Proof.
  intros Hr Hwf Hv. unfold tk_body, doc_rd. induction Hr as [|rt rts' Hrt Hrts IH]; intros f ws Hws Hf.
  - cbn [flat_map app] in *. destruct f as [|f]; [lia|].
    destruct (tk_value_head t 0 Hv) as [t0 [r0 [E0 V0]]].
    assert (Hp := proj1 (parses_all t) Hwf Hv 0 f [] ltac:(lia)). rewrite app_nil_r in Hp.
    cbn [p_top]. rewrite E0 in *.
    assert (Hsk : skip_seps (ws ++ t0 :: r0) = ([], t0 :: r0, match ws with [] => false | _ => true end)).
    { destruct Hws as [E|E]; subst ws; cbn [app]; [apply skip_seps_vhead, V0|apply skip_seps_ws_vhead, V0]. }
    rewrite Hsk. destruct t0; try discriminate V0; rewrite Hp; reflexivity.
  - destruct rt as [id l]. destruct Hrt as [Hid Hl]. cbn [fst snd] in *. cbn [flat_map] in *. unfold tk_rt at 1 in Hf. unfold tk_rt at 1.
    cbn [fst snd] in *. rewrite <- !app_assoc in *. cbn [app] in *.
    destruct f as [|f]; [lia|]. cbn [p_top].
    assert (Hsk : forall Y, skip_seps (ws ++ TRecTypeB (str_bytes id) :: Y) = ([], TRecTypeB (str_bytes id) :: Y, match ws with [] => false | _ => true end)).
    { intro Y. destruct Hws as [E|E]; subst ws; reflexivity. }
    rewrite Hsk. cbn [length] in Hf. rewrite !app_length in Hf. cbn [length] in Hf.
    set (REST := flat_map tk_rt rts' ++ tk 0 t) in *.
    assert (G : p_items f CRecType O (item_toks 4 l ++ (match l with [] => [] | _ => cwp 0 (pfin false l) end) ++ TGt :: TWs :: REST)
                = Some (flat_map rd_events l ++ [EEnd], TWs :: REST)).
    { apply p_items_seq; try reflexivity; try discriminate.
      - rewrite Forall_forall in *. intros x Hx. split; [apply Hl, Hx|apply parses_all].
      - apply cw_cases.
      - rewrite !app_length. cbn [length]. lia. }
    rewrite <- !app_assoc. cbn [app]. rewrite G. change (TWs :: REST) with ([TWs] ++ REST). rewrite (IH f [TWs] (or_intror eq_refl)) by (unfold REST in *; rewrite app_length; lia).
    cbn [option_map app rt_events fst snd]. rewrite <- !app_assoc. reflexivity.
Qed.

Theorem read_pp_doc rts t : Forall wf_rt rts -> wf t -> is_value t = true ->
  cte_read (pp_doc rts t) = Some (document (doc_rd rts t)).
Proof.
  intros Hr Hwf Hv. unfold cte_read, pp_doc.
  rewrite !runes_ascii_cons by lia. rewrite runes_ascii_app by apply ascii_nl.
  rewrite <- (app_nil_r (flat_map (gp_rt qbytes str_bytes) rts ++ pp 0 t)). rewrite runes_body by assumption. rewrite runes_nil.
  cbn [read_runes]. change ((lower 99 =? 99) && ((48 =? 48) || (48 =? 49))) with true. cbv iota.
  assert (Hn : nows (rp_body rts t ++ [])).
  { unfold rp_body. destruct rts; cbn [flat_map app]; [apply rp_nows, Hwf|reflexivity]. }
  assert (HL : lexes (TWs :: tk_body rts t) (nl 0 ++ rp_body rts t ++ []) []).
  { exists (rp_body rts t ++ []). split; [apply tok_nl, Hn|]. split; [unfold nl; cbn [app length]; rewrite !app_length; lia|].
    unfold rp_body. rewrite <- app_assoc. apply lexes_body; assumption. }
  assert (Hlen := lexes_length _ _ _ HL). cbn [length] in Hlen.
  assert (Hfuel : S (length (nl 0 ++ rp_body rts t ++ [])) = (length (TWs :: tk_body rts t) + (S (length (nl 0 ++ rp_body rts t ++ [])) - length (TWs :: tk_body rts t)))%nat)
    by (cbn [length]; lia).
  rewrite Hfuel, (lex_lexes _ _ _ HL), lex_nil. cbn [option_map]. rewrite app_nil_r.
  assert (Hp := p_top_body rts t Hr Hwf Hv (2 * length (tk_body rts t) + 4)%nat [] (or_introl eq_refl) ltac:(lia)).
  cbn [app] in Hp. rewrite Hp. reflexivity.
Qed.
(** * The encoder model writes exactly this layout *)


Definition emits (txt : bytes) (s s' : CteEnc.est) : Prop :=
  CteEnc.rout s' = rev txt ++ CteEnc.rout s /\ CteEnc.ind s' = CteEnc.ind s /\ CteEnc.stack s' = CteEnc.stack s /\ CteEnc.cho s' = CteEnc.cho s.

Lemma emits_refl s : emits [] s s.
Proof. repeat split. Qed.

Lemma emits_trans a b s s1 s2 : emits a s s1 -> emits b s1 s2 -> emits (a ++ b) s s2.
Proof.
  intros [A1 [A2 [A3 A4]]] [B1 [B2 [B3 B4]]]. repeat split; try congruence.
  rewrite B1, A1, rev_app_distr, app_assoc. reflexivity.
Qed.

Lemma emits_emit_cd bs d s : emits bs s (CteEnc.emit_cd bs d s).
Proof. unfold emits, CteEnc.emit_cd. cbn [CteEnc.rout CteEnc.ind CteEnc.stack CteEnc.cho]. rewrite rev_append_rev. repeat split. Qed.
Lemma emits_emit_nolf bs s : emits bs s (CteEnc.emit_nolf bs s).
Proof. apply emits_emit_cd. Qed.
Lemma emits_emit_raw bs s : emits bs s (CteEnc.emit_raw bs s).
Proof. apply emits_emit_cd. Qed.
Lemma emits_emit_setcol bs c s : emits bs s (CteEnc.emit_setcol bs c s).
Proof. unfold emits, CteEnc.emit_setcol. cbn [CteEnc.rout CteEnc.ind CteEnc.stack CteEnc.cho]. rewrite rev_append_rev. repeat split. Qed.
Lemma emits_emit_plf bs s : emits bs s (CteEnc.emit_plf bs s).
Proof. unfold CteEnc.emit_plf. destruct (CteEnc.plf_col bs); [apply emits_emit_setcol|apply emits_emit_raw]. Qed.

Lemma emits_newline_indent s : emits (nl (CteEnc.ind s)) s (CteEnc.newline_indent s).
Proof.
  unfold CteEnc.newline_indent, CteEnc.emit_lf. change (nl (CteEnc.ind s)) with ([10] ++ CteEnc.spaces (CteEnc.ind s)).
  eapply emits_trans; [apply emits_emit_setcol|].
  assert (E : CteEnc.ind (CteEnc.emit_setcol [10] 0 s) = CteEnc.ind s) by reflexivity. rewrite <- E at 1. 
  replace (CteEnc.spaces (CteEnc.ind s)) with (CteEnc.spaces (CteEnc.ind (CteEnc.emit_setcol [10] 0 s))) by reflexivity.
  apply emits_emit_nolf.
Qed.

Lemma emits_emit_rune lf r s : scalar r -> (lf = true -> True) -> emits (CteEnc.encode_rune r) s (CteEnc.emit_rune lf r s).
Proof.
  intros Hr _. unfold CteEnc.emit_rune. destruct (lf && (r =? 10)) eqn:E.
  - apply andb_true_iff in E as [_ E]. apply N.eqb_eq in E. subst r. apply emits_emit_setcol.
  - apply emits_emit_nolf.
Qed.

Lemma emits_fold_quoted lf rs : Forall scalar rs -> forall s,
  emits (qbytes rs) s (fold_left (fun s r => if CteEnc.rune_safe r then CteEnc.emit_rune lf r s else CteEnc.emit_nolf (CteEnc.escape_rune r) s) rs s).
Proof.
  induction 1 as [|r rs Hr Hrs IH]; intro s; [apply emits_refl|].
  cbn [fold_left]. unfold qbytes. cbn [flat_map]. fold (qbytes rs).
  eapply emits_trans; [|apply IH].
  destruct (CteEnc.rune_safe r); [apply emits_emit_rune; [exact Hr|trivial]|apply emits_emit_nolf].
Qed.

Lemma qbytes_all_safe rs : Forall scalar rs -> forallb CteEnc.rune_safe rs = true -> qbytes rs = str_bytes rs.
Proof.
  induction 1 as [|r rs Hr Hrs IH]; intro H; [reflexivity|].
  cbn [forallb] in H. apply andb_true_iff in H as [H1 H2].
  unfold qbytes, str_bytes, CteLit.utf8_str. cbn [flat_map]. rewrite H1. rewrite encode_rune_enc by exact Hr.
  f_equal. apply IH, H2.
Qed.

Lemma runes_str_bytes rs : Forall scalar rs -> runes (str_bytes rs) = rs.
Proof. intro H. rewrite <- (app_nil_r (str_bytes rs)). unfold str_bytes. rewrite runes_utf8_str_app by exact H. apply app_nil_r. Qed.

(* WriteQuotedString on the UTF-8 text of the code points [rs] *)
Lemma emits_write_quoted lf rs s : Forall scalar rs -> emits (34 :: qbytes rs ++ [34]) s (CteEnc.write_quoted lf (str_bytes rs) s).
Proof.
  intro Hs. unfold CteEnc.write_quoted. destruct (str_bytes rs) as [|b v] eqn:Ev.
  - assert (rs = []).
    { destruct rs as [|r rs']; [reflexivity|]. exfalso. unfold str_bytes, CteLit.utf8_str in Ev. cbn [flat_map] in Ev.
      apply app_eq_nil in Ev as [Ev _]. unfold CteLit.utf8_enc in Ev.
      repeat match type of Ev with (if ?b then _ else _) = [] => destruct b end; discriminate. }
    subst rs. apply (emits_emit_nolf [34; 34]).
  - rewrite <- Ev. rewrite (runes_str_bytes rs Hs).
    change (34 :: qbytes rs ++ [34]) with ([34] ++ qbytes rs ++ [34]).
    destruct (forallb CteEnc.rune_safe rs) eqn:Esafe.
    + rewrite (qbytes_all_safe rs Hs Esafe).
      eapply emits_trans; [apply emits_emit_nolf|]. eapply emits_trans; [|apply emits_emit_nolf].
      destruct lf; [apply emits_emit_plf|apply emits_emit_nolf].
    + eapply emits_trans; [apply emits_emit_nolf|]. eapply emits_trans; [|apply emits_emit_nolf].
      apply emits_fold_quoted, Hs.
Qed.


Lemma emits_set_dirty s : emits [] s (CteEnc.set_dirty s).
Proof. repeat split. Qed.
Lemma emits_note_read s : emits [] s (CteEnc.note_read s).
Proof. repeat split. Qed.

Lemma col_newline_indent s : CteEnc.col (CteEnc.newline_indent s) = Z.of_N (CteEnc.ind s).
Proof.
  unfold CteEnc.newline_indent, CteEnc.emit_lf, CteEnc.emit_nolf, CteEnc.emit_cd, CteEnc.emit_setcol.
  cbn [CteEnc.col CteEnc.ind]. unfold CteEnc.zlen, CteEnc.spaces. rewrite repeat_length. lia.
Qed.

(* ---- contexts: the whole decorator stack ---- *)

Definition st_pre (st : list CteEnc.deco) (i : N) : bytes :=
  match st with
  | (CteEnc.DList | CteEnc.DMapKey | CteEnc.DRecordType | CteEnc.DRecord | CteEnc.DEdge | CteEnc.DNodeChildren) :: _ => nl i
  | _ => []
  end.
Definition nl_ctx (st : list CteEnc.deco) : bool :=
  match st with
  | (CteEnc.DList | CteEnc.DMapKey | CteEnc.DRecordType | CteEnc.DRecord | CteEnc.DEdge | CteEnc.DNodeChildren) :: _ => true
  | _ => false
  end.
Definition head_ok (st : list CteEnc.deco) : bool :=
  match st with [] => false | CteEnc.DNSArray :: _ => false | _ => true end.
Definition sepb (b : bool) : bytes := if b then [32; 61; 32] else [].
(* the value of a node is not indented: Column is not at the node's origin *)
Definition origin_ok (s : CteEnc.est) : Prop :=
  match CteEnc.stack s with CteEnc.DNodeValue :: _ => CteEnc.at_origin s = false | _ => True end.

Definition outcome_of (txt : bytes) (st' : list CteEnc.deco) (s s' : CteEnc.est) : Prop :=
  CteEnc.rout s' = rev txt ++ CteEnc.rout s /\ CteEnc.ind s' = CteEnc.ind s /\ CteEnc.stack s' = st' /\ CteEnc.cho s' = true.

Lemma before_value_spec s : head_ok (CteEnc.stack s) = true -> origin_ok s ->
  exists s1, CteEnc.before_value s = Some s1 /\ emits (st_pre (CteEnc.stack s) (CteEnc.ind s)) s s1 /\
             (nl_ctx (CteEnc.stack s) = true -> CteEnc.col s1 = Z.of_N (CteEnc.ind s)) /\
             (nl_ctx (CteEnc.stack s) = false -> CteEnc.col s1 = CteEnc.col s).
Proof.
  intros Hh Ho. unfold CteEnc.before_value, origin_ok in *. destruct (CteEnc.stack s) as [|d stk] eqn:Hs; [discriminate|].
  destruct d; try discriminate Hh; cbn [st_pre nl_ctx];
    try (eexists; split; [reflexivity|]; split; [apply emits_newline_indent|]; split; [intros _; apply col_newline_indent|discriminate]);
    try (eexists; split; [reflexivity|]; split; [apply emits_refl|]; split; [discriminate|reflexivity]).
  (* the value of a node *)
  unfold CteEnc.indent_if_origin. 
  assert (E : CteEnc.at_origin (CteEnc.note_read s) = false) by exact Ho. rewrite E.
  eexists; split; [reflexivity|]; split; [apply emits_note_read|]; split; [discriminate|reflexivity].
Qed.

Lemma after_value_spec s st' sep : CteEnc.after_stack (CteEnc.stack s) = Some (st', sep) ->
  exists s', CteEnc.after_value s = Some s' /\ outcome_of (sepb sep) st' s s'.
Proof.
  intro H. unfold CteEnc.after_value. rewrite H. eexists. split; [reflexivity|].
  unfold outcome_of, CteEnc.set_cho, CteEnc.set_stack. destruct sep; cbn [sepb CteEnc.rout CteEnc.ind CteEnc.stack CteEnc.cho CteEnc.emit_nolf CteEnc.emit_cd];
    repeat split.
Qed.

Lemma value_enc (W : CteEnc.est -> CteEnc.est) txt s st' sep :
  (forall s, emits txt s (W s)) -> head_ok (CteEnc.stack s) = true -> origin_ok s ->
  CteEnc.after_stack (CteEnc.stack s) = Some (st', sep) ->
  exists s', CteEnc.bind (CteEnc.before_value s) (fun s1 => CteEnc.after_value (W s1)) = Some s' /\
             outcome_of (st_pre (CteEnc.stack s) (CteEnc.ind s) ++ txt ++ sepb sep) st' s s'.
Proof.
  intros HW Hh Ho Ha.
  destruct (before_value_spec s Hh Ho) as [s1 [E1 [[A1 [A2 [A3 A4]]] _]]].
  destruct (HW s1) as [B1 [B2 [B3 B4]]].
  assert (Hs2 : CteEnc.after_stack (CteEnc.stack (W s1)) = Some (st', sep)) by (rewrite B3, A3; exact Ha).
  destruct (after_value_spec (W s1) st' sep Hs2) as [s' [E2 [C1 [C2 [C3 C4]]]]].
  exists s'. rewrite E1. cbn [CteEnc.bind]. split; [exact E2|].
  unfold outcome_of. repeat split; try congruence.
  rewrite C1, B1, A1. rewrite !rev_app_distr, !app_assoc. reflexivity.
Qed.

(* ---- atoms ---- *)

From CE Require Proofs.CteEncProofs.

(* what the array engine writes for the elements, in the default (decimal) format *)
Fixpoint ipieces (sg : bool) (w : iw) (hw : bool) (xs : list N) : list CteEncProofs.piece :=
  match xs with
  | [] => []
  | x :: r => (if hw then [([32], 1%Z)] else []) ++ (ielem sg w x, CteEnc.zlen (ielem sg w x)) :: ipieces sg w true r
  end.

Fixpoint upieces (hw : bool) (us : list bytes) : list CteEncProofs.piece :=
  match us with
  | [] => []
  | u :: r => (if hw then [([32], 1%Z)] else []) ++ (CteEnc.uid_text u, 4%Z) :: upieces true r
  end.

(* the configuration writes this atom the way [atext] says: integer arrays in the decimal element format *)
Definition acfg (c : CteEnc.ccfg) (a : atom) : Prop :=
  match a with AIntArr sg w _ => CteEnc.cfg_fmt c (ikind sg w) = Gen.CteCharTables.cte_fmt_decimal | _ => True end.

Definition awrite (a : atom) (s1 : CteEnc.est) : CteEnc.est :=
  match a with
  | ANull => CteEnc.emit_cd CteEnc.t_null 4 s1
  | ABool _ b => if b then CteEnc.emit_cd CteEnc.t_true 4 s1 else CteEnc.emit_cd CteEnc.t_false 5 s1
  | APos n => CteEnc.emit_cd (CteEnc.dec n) 0 s1
  | ANeg n => CteEnc.emit_cd (45 :: CteEnc.dec n) 1 s1
  | AInt z => if (0 <=? z)%Z then CteEnc.emit_cd (CteEnc.dec (Z.to_N z)) 0 s1
              else CteEnc.emit_cd (45 :: CteEnc.dec (Z.to_N (- z) mod 2 ^ 64)) 1 s1
  | AStr k _ rs => match k with
                   | KStr => CteEnc.write_quoted true (str_bytes rs) s1
                   | KRid => CteEnc.write_quoted false (str_bytes rs) (CteEnc.emit_nolf [64] s1)
                   | KRef => CteEnc.write_quoted false (str_bytes rs) (CteEnc.emit_nolf [36] s1)
                   end
  | ARef id => CteEnc.emit_cd (36 :: str_bytes id) (CteEnc.zlen (36 :: str_bytes id)) s1
  | AMedia mt data => CteEnc.emit_nolf [93] (CteEnc.emit_raw (CteEnc.hexbytes data) (CteEnc.emit_nolf (64 :: mt ++ [91]) (CteEnc.set_dirty s1)))
  | ACustomB ct data => CteEnc.emit_nolf [93] (CteEnc.emit_raw (CteEnc.hexbytes data) (CteEnc.emit_nolf (64 :: CteEnc.dec ct ++ [91]) (CteEnc.set_dirty s1)))
  | ACustomT ct rs => CteEnc.write_quoted true (str_bytes rs) (CteEnc.emit_nolf (64 :: CteEnc.dec ct) s1)
  | AIntArr sg w xs => CteEnc.emit_nolf [93] (CteEncProofs.emit_pieces (ipieces sg w false xs)
                                               (CteEnc.emit_nolf (CteEnc.nk_name (ikind sg w) ++ [91]) s1))
  | AUidArr us => CteEnc.emit_nolf [93] (CteEncProofs.emit_pieces (upieces false us) (CteEnc.emit_nolf CteEnc.t_uidhdr s1))
  | AUid u => CteEnc.emit_cd (CteEnc.uid_text u) 4 s1
  | ABitArr l => CteEnc.emit_nolf [93] (CteEnc.emit_nolf (CteEncProofs.bits_text l) (CteEnc.emit_nolf CteEnc.t_bithdr s1))
  end.

Lemma atom_step a c s : (match a with AIntArr _ _ _ | AUidArr _ | AUid _ | ABitArr _ => False | _ => True end) ->
  CteEnc.step c s (aevent a) = CteEnc.bind (CteEnc.before_value s) (fun s1 => CteEnc.after_value (awrite a s1)).
Proof.
  intro Hna. destruct a; try contradiction; cbn [aevent awrite CteEnc.step]; try reflexivity.
  - destruct plain, b; reflexivity.
  - destruct (0 <=? z)%Z; reflexivity.
  - destruct whole, k; cbn [sty CteEnc.step]; destruct (CteEnc.before_value s); reflexivity.
Qed.

(* ---- the array engine on a whole integer array ---- *)

Lemma grp_fill w : forall e cur, e <> [] -> length (cur ++ e) = w -> CteEncProofs.grp w cur e = ([cur ++ e], []).
Proof.
  induction e as [|b e IH]; intros cur Hne Hl; [congruence|]. cbn [CteEncProofs.grp]. destruct e as [|b2 e'].
  - rewrite Hl, Nat.eqb_refl. reflexivity.
  - assert (length (cur ++ [b]) <> w) by (rewrite !app_length in *; cbn [length] in *; lia).
    apply Nat.eqb_neq in H. rewrite H. rewrite (IH (cur ++ [b])); [rewrite <- app_assoc; reflexivity|discriminate|rewrite <- app_assoc; exact Hl].
Qed.

Lemma grp_encoded wb xs : (0 < wb)%nat -> CteEncProofs.grp wb [] (concat (map (le_encode wb) xs)) = (map (le_encode wb) xs, []).
Proof.
  intro Hw. induction xs as [|x r IH]; [reflexivity|]. cbn [map concat]. rewrite CteEncProofs.grp_app.
  rewrite (grp_fill wb (le_encode wb x) []); [|intro E; apply (f_equal (@length N)) in E; rewrite le_encode_length in E; cbn in E; lia|cbn [app]; apply le_encode_length].
  rewrite IH. reflexivity.
Qed.

Lemma ity_facts sg w :
  (ity sg w =? AT_String) = false /\ (ity sg w =? AT_ResourceID) = false /\ (ity sg w =? AT_ReferenceRemote) = false /\
  CteEnc.nkind_of (ity sg w) = Some (ikind sg w) /\ CteEnc.nk_width (ikind sg w) = wbytes w.
Proof. destruct sg, w; repeat split; reflexivity. Qed.

Lemma num_elem_dec c sg w x : CteEnc.cfg_fmt c (ikind sg w) = Gen.CteCharTables.cte_fmt_decimal -> x < 2 ^ wbits w ->
  CteEnc.num_elem c (ikind sg w) (le_encode (wbytes w) x) = Some (ielem sg w x, CteEnc.zlen (ielem sg w x)).
Proof.
  intros Hc Hx.
  assert (Hd : le_decode (le_encode (wbytes w) x) = x).
  { rewrite le_decode_encode. apply N.mod_small. destruct w; cbn in *; lia. }
  unfold CteEnc.num_elem. rewrite Hd, Hc. unfold ielem.
  destruct sg, w; cbn [ikind wbits] in *; unfold CteEnc.int_verb; rewrite ?Hc, N.eqb_refl; reflexivity.
Qed.

Lemma elems_pieces_dec c sg w : CteEnc.cfg_fmt c (ikind sg w) = Gen.CteCharTables.cte_fmt_decimal ->
  forall xs hw, Forall (fun x => x < 2 ^ wbits w) xs ->
  CteEncProofs.elems_pieces c (ikind sg w) hw (map (le_encode (wbytes w)) xs) = Some (ipieces sg w hw xs).
Proof.
  intros Hc xs. induction xs as [|x r IH]; intros hw Hxs; [reflexivity|]. inversion Hxs; subst.
  cbn [map CteEncProofs.elems_pieces ipieces]. rewrite num_elem_dec by assumption. rewrite IH by assumption. reflexivity.
Qed.

Lemma emits_pieces ps : forall s, emits (concat (map fst ps)) s (CteEncProofs.emit_pieces ps s).
Proof.
  unfold CteEncProofs.emit_pieces. induction ps as [|p ps IH]; intro s; [apply emits_refl|].
  cbn [fold_left map concat]. eapply emits_trans; [apply emits_emit_cd|apply IH].
Qed.

Lemma ipieces_text sg w xs : concat (map fst (ipieces sg w false xs)) = join32 (map (ielem sg w) xs).
Proof.
  assert (G : forall r, concat (map fst (ipieces sg w true r)) = flat_map (fun x => 32 :: ielem sg w x) r).
  { induction r as [|x r IH]; [reflexivity|]. cbn [ipieces app map concat flat_map fst]. rewrite IH. reflexivity. }
  assert (J : forall a r, join32 (a :: map (ielem sg w) r) = a ++ flat_map (fun x => 32 :: ielem sg w x) r).
  { intros a r. revert a. induction r as [|x r IH]; intro a; [cbn; rewrite app_nil_r; reflexivity|].
    cbn [map flat_map]. change (join32 (a :: ielem sg w x :: map (ielem sg w) r)) with (a ++ 32 :: join32 (ielem sg w x :: map (ielem sg w) r)).
    rewrite IH. reflexivity. }
  destruct xs as [|x r]; [reflexivity|]. cbn [ipieces app map concat fst]. rewrite G, J. reflexivity.
Qed.

Lemma canon_intarr c sg w xs s : CteEnc.cfg_fmt c (ikind sg w) = Gen.CteCharTables.cte_fmt_decimal ->
  Forall (fun x => x < 2 ^ wbits w) xs ->
  CteEncProofs.canon c (CteEnc.HArr (ity sg w)) (CteEnc.ABytes (idata w xs)) s =
  CteEnc.bind (CteEnc.before_value s) (fun s1 => CteEnc.after_value (awrite (AIntArr sg w xs) s1)).
Proof.
  intros Hc Hxs. unfold CteEncProofs.canon. destruct (ity_facts sg w) as [E1 [E2 [E3 [E4 E5]]]].
  assert (Hb : forall s1, CteEncProofs.canon_body c (CteEnc.HArr (ity sg w)) (CteEnc.ABytes (idata w xs)) s1 = Some (awrite (AIntArr sg w xs) s1)).
  { intro s1. cbn [CteEncProofs.canon_body]. rewrite E1, E2, E3, E4, E5.
    assert (Hh : CteEnc.num_header c (ikind sg w) = Some (CteEnc.nk_name (ikind sg w) ++ [91])).
    { unfold CteEnc.num_header. destruct sg, w; cbn [ikind] in *; rewrite Hc; reflexivity. }
    rewrite Hh. unfold idata. rewrite (grp_encoded (wbytes w) xs) by (destruct w; cbn; lia). cbn [fst].
    rewrite (elems_pieces_dec c sg w Hc xs false Hxs). reflexivity. }
  destruct (CteEnc.before_value s) as [s1|]; [|reflexivity]. cbn [CteEnc.bind]. rewrite Hb. reflexivity.
Qed.

Lemma grp_uids us : Forall (fun u => length u = 16%nat /\ data_bytes u) us -> CteEncProofs.grp 16 [] (concat us) = (us, []).
Proof.
  induction 1 as [|u r [Hl _] Hr IH]; [reflexivity|]. cbn [concat]. rewrite CteEncProofs.grp_app.
  rewrite (grp_fill 16%nat u []); [|intro E; subst u; discriminate Hl|exact Hl]. rewrite IH. reflexivity.
Qed.

Lemma elems_pieces_uid c us : forall hw, CteEncProofs.elems_pieces c CteEnc.NUID hw us = Some (upieces hw us).
Proof.
  induction us as [|u r IH]; intro hw; [reflexivity|]. cbn [CteEncProofs.elems_pieces upieces].
  change (CteEnc.num_elem c CteEnc.NUID u) with (Some (CteEnc.uid_text u, 4%Z)). rewrite IH. reflexivity.
Qed.

Lemma upieces_text us : concat (map fst (upieces false us)) = join32 (map CteEnc.uid_text us).
Proof.
  assert (G : forall r, concat (map fst (upieces true r)) = flat_map (fun x => 32 :: CteEnc.uid_text x) r).
  { induction r as [|x r IH]; [reflexivity|]. cbn [upieces app map concat flat_map fst]. rewrite IH. reflexivity. }
  assert (J : forall a r, join32 (a :: map CteEnc.uid_text r) = a ++ flat_map (fun x => 32 :: CteEnc.uid_text x) r).
  { intros a r. revert a. induction r as [|x r IH]; intro a; [cbn; rewrite app_nil_r; reflexivity|].
    cbn [map flat_map]. change (join32 (a :: CteEnc.uid_text x :: map CteEnc.uid_text r)) with (a ++ 32 :: join32 (CteEnc.uid_text x :: map CteEnc.uid_text r)).
    rewrite IH. reflexivity. }
  destruct us as [|x r]; [reflexivity|]. cbn [upieces app map concat fst]. rewrite G, J. reflexivity.
Qed.

Lemma canon_uidarr c us s : Forall (fun u => length u = 16%nat /\ data_bytes u) us ->
  CteEncProofs.canon c (CteEnc.HArr AT_UID) (CteEnc.ABytes (concat us)) s =
  CteEnc.bind (CteEnc.before_value s) (fun s1 => CteEnc.after_value (awrite (AUidArr us) s1)).
Proof.
  intros Hus. unfold CteEncProofs.canon.
  assert (Hb : forall s1, CteEncProofs.canon_body c (CteEnc.HArr AT_UID) (CteEnc.ABytes (concat us)) s1 = Some (awrite (AUidArr us) s1)).
  { intro s1. cbn [CteEncProofs.canon_body].
    change (AT_UID =? AT_String) with false. change (AT_UID =? AT_ResourceID) with false. change (AT_UID =? AT_ReferenceRemote) with false.
    cbv iota. change (CteEnc.nkind_of AT_UID) with (Some CteEnc.NUID). cbv iota.
    change (CteEnc.nk_width CteEnc.NUID) with 16%nat. change (CteEnc.num_header c CteEnc.NUID) with (Some CteEnc.t_uidhdr).
    rewrite (grp_uids us Hus). cbn [fst]. rewrite elems_pieces_uid. reflexivity. }
  destruct (CteEnc.before_value s) as [s1|]; [|reflexivity]. cbn [CteEnc.bind]. rewrite Hb. reflexivity.
Qed.

Lemma run_one c s e : CteEnc.run c s [e] = CteEnc.step c s e.
Proof. cbn [CteEnc.run]. destruct (CteEnc.step c s e); reflexivity. Qed.

Lemma atom_run a c s : awf a -> acfg c a ->
  CteEncProofs.oeq (CteEnc.run c s [aevent a]) (CteEnc.bind (CteEnc.before_value s) (fun s1 => CteEnc.after_value (awrite a s1))).
Proof.
  intros Hwf Hc. destruct a; try (rewrite run_one, atom_step by exact I; apply CteEncProofs.oeq_refl).
  - cbn [awf acfg aevent] in *. destruct Hwf as [Hxs Hn].
  rewrite <- (canon_intarr c sg w xs s Hc Hxs). apply CteEncProofs.delivery_canon.
  destruct (ity_facts sg w) as [_ [_ [_ [E4 E5]]]].
  apply (CteEnc.dl_array_num (ity sg w) (ikind sg w)); [exact E4|exact Hn|].
  rewrite idata_length, E5, Nat2N.id. lia.
  - cbn [awf acfg aevent] in *. destruct Hwf as [Hus Hn].
    rewrite <- (canon_uidarr c us s Hus). apply CteEncProofs.delivery_canon.
    apply (CteEnc.dl_array_num AT_UID CteEnc.NUID); [reflexivity|exact Hn|].
    rewrite (concat_uids_length us Hus), Nat2N.id. change (CteEnc.nk_width CteEnc.NUID) with 16%nat. apply Nat.mul_comm.
  - cbn [awf aevent awrite] in *. rewrite run_one. cbn [CteEnc.step]. rewrite (proj1 Hwf). change (16 =? 16)%nat with true. cbv iota.
    apply CteEncProofs.oeq_refl.
  - cbn [awf acfg aevent] in *.
    assert (Hc2 : CteEncProofs.canon c (CteEnc.HArr AT_Bit) (CteEnc.ABits bits) s =
                  CteEnc.bind (CteEnc.before_value s) (fun s1 => CteEnc.after_value (awrite (ABitArr bits) s1))).
    { unfold CteEncProofs.canon. destruct (CteEnc.before_value s) as [s1|]; reflexivity. }
    rewrite <- Hc2. apply CteEncProofs.delivery_canon.
    destruct (pack_bits_rt (length bits) bits (Nat.le_refl _)) as [R1 R2].
    assert (D := CteEnc.dl_array_bit (N.of_nat (length bits)) (pack_bits (length bits) bits) Hwf).
    rewrite Nat2N.id, R1 in D. apply D. rewrite R2. clear. lia.
Qed.

Lemma atom_emits a : awf a -> forall s, emits (abytes a) s (awrite a s).
Proof.
  intros Hwf s. unfold abytes. destruct a; cbn [atext awrite awf] in *.
  - apply emits_emit_cd.
  - destruct b; apply emits_emit_cd.
  - apply emits_emit_cd.
  - apply (emits_emit_cd (45 :: CteEnc.dec n)).
  - unfold z_text. destruct (0 <=? z)%Z; apply emits_emit_cd.
  - destruct k; cbn [spre app].
    + apply emits_write_quoted, Hwf.
    + apply (emits_trans [64] _ s (CteEnc.emit_nolf [64] s)); [apply emits_emit_nolf|apply emits_write_quoted, Hwf].
    + apply (emits_trans [36] _ s (CteEnc.emit_nolf [36] s)); [apply emits_emit_nolf|apply emits_write_quoted, Hwf].
  - apply emits_emit_cd.
  - change (64 :: mt ++ 91 :: CteEnc.hexbytes data ++ [93]) with ([] ++ (64 :: mt ++ 91 :: CteEnc.hexbytes data ++ [93])).
    eapply emits_trans; [apply emits_set_dirty|].
    replace (64 :: mt ++ 91 :: CteEnc.hexbytes data ++ [93]) with ((64 :: mt ++ [91]) ++ CteEnc.hexbytes data ++ [93])
      by (cbn [app]; rewrite <- app_assoc; reflexivity).
    eapply emits_trans; [apply emits_emit_nolf|]. eapply emits_trans; [apply emits_emit_raw|apply emits_emit_nolf].
  - change (64 :: CteEnc.dec ct ++ 91 :: CteEnc.hexbytes data ++ [93]) with ([] ++ (64 :: CteEnc.dec ct ++ 91 :: CteEnc.hexbytes data ++ [93])).
    eapply emits_trans; [apply emits_set_dirty|].
    replace (64 :: CteEnc.dec ct ++ 91 :: CteEnc.hexbytes data ++ [93]) with ((64 :: CteEnc.dec ct ++ [91]) ++ CteEnc.hexbytes data ++ [93])
      by (cbn [app]; rewrite <- app_assoc; reflexivity).
    eapply emits_trans; [apply emits_emit_nolf|]. eapply emits_trans; [apply emits_emit_raw|apply emits_emit_nolf].
  - destruct Hwf as [_ Hs].
    replace (64 :: CteEnc.dec ct ++ 34 :: qbytes rs ++ [34]) with ((64 :: CteEnc.dec ct) ++ 34 :: qbytes rs ++ [34])
      by (cbn [app]; reflexivity).
    eapply emits_trans; [apply emits_emit_nolf|apply emits_write_quoted, Hs].
  - replace (CteEnc.nk_name (ikind sg w) ++ 91 :: join32 (map (ielem sg w) xs) ++ [93])
      with ((CteEnc.nk_name (ikind sg w) ++ [91]) ++ concat (map fst (ipieces sg w false xs)) ++ [93])
      by (rewrite ipieces_text, <- app_assoc; reflexivity).
    eapply emits_trans; [apply emits_emit_nolf|]. eapply emits_trans; [apply emits_pieces|apply emits_emit_nolf].
  - rewrite <- upieces_text.
    eapply emits_trans; [apply emits_emit_nolf|]. eapply emits_trans; [apply emits_pieces|apply emits_emit_nolf].
  - apply emits_emit_cd.
  - eapply emits_trans; [apply emits_emit_nolf|]. eapply emits_trans; apply emits_emit_nolf.
Qed.

(* ---- trees ---- *)

Definition ctx_ok (st : list CteEnc.deco) (t : tree) : bool :=
  match st with
  | CteEnc.DTop :: _ => is_value t
  | (CteEnc.DMapValue | CteEnc.DConcat | CteEnc.DNodeValue) :: _ => is_value t && negb (is_node t)
  | CteEnc.DMapKey :: _ => true
  | (CteEnc.DList | CteEnc.DRecordType | CteEnc.DRecord | CteEnc.DEdge | CteEnc.DNodeChildren) :: _ => negb (is_pair t)
  | _ => false
  end.
(* a top-level node starts at the beginning of a line *)
Definition top_ok (s : CteEnc.est) (t : tree) : Prop :=
  is_node t = true -> match CteEnc.stack s with CteEnc.DTop :: _ => CteEnc.col s = Z.of_N (CteEnc.ind s) | _ => True end.

Fixpoint atoms_of (t : tree) : list atom :=
  match t with
  | VAtom a => [a] | VCom _ _ => [] | VPair k v => atoms_of k ++ atoms_of v | VMark _ v => atoms_of v
  | VSeq _ l | VMap l => flat_map atoms_of l
  | VNode v l => atoms_of v ++ flat_map atoms_of l
  end.
(* the configuration writes the integer arrays of the tree in the decimal element format (the default) *)
Definition cfgok (c : CteEnc.ccfg) (t : tree) : Prop := Forall (acfg c) (atoms_of t).

Lemma cfgok_items c l : Forall (acfg c) (flat_map atoms_of l) -> Forall (cfgok c) l.
Proof.
  induction l as [|x r IH]; intro H; [constructor|]. cbn [flat_map] in H. apply Forall_app in H as [H1 H2].
  constructor; [exact H1|apply IH, H2].
Qed.

Definition encodes (t : tree) : Prop :=
  wf t -> forall c s st' sep, cfgok c t -> ctx_ok (CteEnc.stack s) t = true ->
  CteEnc.after_stack (CteEnc.stack s) = Some (st', sep) -> origin_ok s -> top_ok s t ->
  exists s', CteEnc.run c s (events_of t) = Some s' /\
             outcome_of (st_pre (CteEnc.stack s) (CteEnc.ind s) ++ pp (CteEnc.ind s) t ++ (if is_value t then sepb sep else []))
                        (if is_value t then st' else CteEnc.stack s) s s'.

Lemma ctx_ok_head st t : ctx_ok st t = true -> head_ok st = true.
Proof. destruct st as [|d st]; [discriminate|]. destruct d; try discriminate; reflexivity. Qed.

Lemma run_app c s a b : CteEnc.run c s (a ++ b) = CteEnc.bind (CteEnc.run c s a) (fun m => CteEnc.run c m b).
Proof.
  revert s. induction a as [|e a IH]; intro s; cbn [app CteEnc.run CteEnc.bind]; [reflexivity|].
  destruct (CteEnc.step c s e); cbn [CteEnc.bind]; [apply IH|reflexivity].
Qed.

Lemma encodes_atom a : encodes (VAtom a).
Proof.
  intros Hwf c s st' sep Hcfg Hok Ha Ho _. cbn [events_of is_value].
  unfold pp. cbn [gp].
  destruct (value_enc (awrite a) (abytes a) s st' sep (fun s0 => atom_emits a Hwf s0) (ctx_ok_head _ _ Hok) Ho Ha) as [s2 [E2 [B1 [B2 [B3 B4]]]]].
  assert (Hc : acfg c a) by (unfold cfgok in Hcfg; cbn [atoms_of] in Hcfg; inversion Hcfg; assumption).
  assert (Hr := atom_run a c s Hwf Hc). rewrite E2 in Hr.
  destruct (CteEnc.run c s [aevent a]) as [s1|]; [|contradiction]. cbn [CteEncProofs.oeq] in Hr.
  destruct (CteEncProofs.R_fields _ _ Hr) as [R1 [R2 [R3 [R4 _]]]].
  exists s1. split; [reflexivity|]. unfold outcome_of, abytes in *. repeat split; congruence.
Qed.

Lemma encodes_comment m rs : encodes (VCom m rs).
Proof.
  intros Hwf c s st' sep _ Hok _ _ _. cbn [events_of is_value]. rewrite run_one.
  unfold pp. cbn [gp CteEnc.step]. unfold CteEnc.before_comment, CteEnc.after_comment.
  assert (E1 := emits_newline_indent s). destruct E1 as [A1 [A2 [A3 A4]]].
  set (s1 := CteEnc.newline_indent s) in *.
  set (body := if m then CteEnc.emit_nolf [42; 47] (CteEnc.emit_plf (str_bytes rs) (CteEnc.emit_nolf [47; 42] s1))
               else CteEnc.emit_nolf (str_bytes rs) (CteEnc.emit_nolf [47; 47] s1)).
  assert (H4 : emits (if m then ([47; 42] ++ str_bytes rs) ++ [42; 47] else [47; 47] ++ str_bytes rs) s1 body).
  { unfold body. destruct m.
    - eapply emits_trans; [eapply emits_trans; [apply emits_emit_nolf|apply emits_emit_plf]|apply emits_emit_nolf].
    - eapply emits_trans; apply emits_emit_nolf. }
  destruct H4 as [B1 [B2 [B3 B4]]].
  destruct (CteEnc.stack s) as [|d stk] eqn:Hs; [discriminate|].
  assert (Hst : CteEnc.stack body = d :: stk) by congruence.
  destruct d; try discriminate Hok; cbn [CteEnc.bind st_pre];
    (destruct m; cbv iota; fold s1; cbn beta zeta;
     [change (CteEnc.emit_nolf [42; 47] (CteEnc.emit_plf (str_bytes rs) (CteEnc.emit_nolf [47; 42] s1))) with body
     |change (CteEnc.emit_nolf (str_bytes rs) (CteEnc.emit_nolf [47; 47] s1)) with body];
     rewrite Hst; eexists; (split; [reflexivity|]); unfold outcome_of, CteEnc.set_cho; cbn [CteEnc.rout CteEnc.ind CteEnc.stack CteEnc.cho];
     (repeat split; try congruence); rewrite B1, A1; rewrite app_assoc, <- rev_app_distr; f_equal; f_equal;
     rewrite ?app_nil_r; cbn [app]; rewrite <- ?app_assoc; cbn [app]; reflexivity).
Qed.

Lemma nl_ctx_facts s : nl_ctx (CteEnc.stack s) = true ->
  origin_ok s /\ (forall t, top_ok s t) /\ forall i, st_pre (CteEnc.stack s) i = nl i.
Proof.
  unfold origin_ok, top_ok. destruct (CteEnc.stack s) as [|d stk]; [discriminate|].
  destruct d; try discriminate; intros _; repeat split; trivial.
Qed.

Lemma enc_items c st0 st1 sep1 l :
  nl_ctx st0 = true -> CteEnc.after_stack st0 = Some (st1, sep1) ->
  Forall (fun x => wf x /\ encodes x /\ cfgok c x /\ ctx_ok st0 x = true /\ (is_value x = true -> st1 = st0 /\ sep1 = false)) l ->
  forall s, CteEnc.stack s = st0 ->
  exists s', CteEnc.run c s (flat_map events_of l) = Some s' /\
             CteEnc.rout s' = rev (flat_map (fun x => nl (CteEnc.ind s) ++ pp (CteEnc.ind s) x) l) ++ CteEnc.rout s /\
             CteEnc.ind s' = CteEnc.ind s /\ CteEnc.stack s' = st0 /\
             CteEnc.cho s' = match l with [] => CteEnc.cho s | _ => true end.
Proof.
  intros Hnl Haft Hl. induction Hl as [|x l' [Hwf [Hx [Hcf [Hok Hval]]]] Hl' IH]; intros s Hs.
  - exists s. cbn [flat_map CteEnc.run rev app]. repeat split. exact Hs.
  - cbn [flat_map]. rewrite run_app.
    assert (Hnl' : nl_ctx (CteEnc.stack s) = true) by (rewrite Hs; exact Hnl).
    destruct (nl_ctx_facts s Hnl') as [Ho [Ht Hp]].
    assert (Hok' : ctx_ok (CteEnc.stack s) x = true) by (rewrite Hs; exact Hok).
    assert (Haft' : CteEnc.after_stack (CteEnc.stack s) = Some (st1, sep1)) by (rewrite Hs; exact Haft).
    destruct (Hx Hwf c s st1 sep1 Hcf Hok' Haft' Ho (Ht x)) as [s1 [E1 [A1 [A2 [A3 A4]]]]].
    rewrite E1. cbn [CteEnc.bind].
    assert (S1 : CteEnc.stack s1 = st0).
    { rewrite A3. destruct (is_value x) eqn:V; [apply Hval; reflexivity|exact Hs]. }
    assert (T1 : (if is_value x then sepb sep1 else []) = []).
    { destruct (is_value x) eqn:V; [|reflexivity]. destruct (Hval eq_refl) as [_ E]. subst sep1. reflexivity. }
    destruct (IH s1 S1) as [s2 [E2 [B1 [B2 [B3 B4]]]]].
    exists s2. split; [exact E2|]. repeat split; try congruence.
    + rewrite B1, A1, A2, Hp. destruct (is_value x) eqn:V.
      * destruct (Hval eq_refl) as [_ E]. subst sep1. cbn [sepb]. rewrite app_nil_r, !rev_app_distr, <- !app_assoc. reflexivity.
      * rewrite app_nil_r, !rev_app_distr, <- !app_assoc. reflexivity.
    + rewrite B4. destruct l'; [exact A4|reflexivity].
Qed.

Lemma encodes_pair k v : encodes k -> encodes v -> encodes (VPair k v).
Proof.
  intros Hk Hv Hwf c s st' sep Hcfg Hok _ _ _. cbn [wf] in Hwf. destruct Hwf as [Wk [Wv [Vk [Vv Nv]]]].
  unfold cfgok in Hcfg. cbn [atoms_of] in Hcfg. apply Forall_app in Hcfg as [Ck Cv].
  destruct (CteEnc.stack s) as [|d stk] eqn:Hs; [discriminate|].
  destruct d; try discriminate Hok. cbn [events_of is_value]. rewrite run_app.
  assert (Hnl : nl_ctx (CteEnc.stack s) = true) by (rewrite Hs; reflexivity).
  destruct (nl_ctx_facts s Hnl) as [Ho [Ht Hp]].
  assert (H1 : exists s1, CteEnc.run c s (events_of k) = Some s1 /\
               outcome_of (nl (CteEnc.ind s) ++ pp (CteEnc.ind s) k ++ [32; 61; 32]) (CteEnc.DMapValue :: stk) s s1).
  { assert (G := Hk Wk c s (CteEnc.DMapValue :: stk) true Ck). rewrite Hs in G. rewrite Vk in G.
    apply G; [reflexivity|reflexivity| |]; [unfold origin_ok; rewrite Hs; exact I|unfold top_ok; rewrite Hs; trivial]. }
  destruct H1 as [s1 [E1 [A1 [A2 [A3 A4]]]]]. rewrite E1. cbn [CteEnc.bind].
  assert (H2 : exists s2, CteEnc.run c s1 (events_of v) = Some s2 /\
               outcome_of (pp (CteEnc.ind s1) v) (CteEnc.DMapKey :: stk) s1 s2).
  { assert (G := Hv Wv c s1 (CteEnc.DMapKey :: stk) false Cv). rewrite A3 in G. rewrite Vv in G. cbn [st_pre sepb app] in G. rewrite app_nil_r in G.
    apply G; [cbn [ctx_ok]; rewrite Vv, Nv; reflexivity|reflexivity| |]; [unfold origin_ok; rewrite A3; exact I|unfold top_ok; rewrite Nv; discriminate]. }
  destruct H2 as [s2 [E2 [B1 [B2 [B3 B4]]]]].
  exists s2. split; [exact E2|]. unfold outcome_of. repeat split; try congruence.
  rewrite B1, A1, A2. cbn [st_pre]. rewrite app_assoc, <- rev_app_distr. f_equal. f_equal.
  unfold pp. cbn [gp]. rewrite ?app_nil_r. rewrite <- ?app_assoc. reflexivity.
Qed.

Lemma after_stack_concat st st' sep : st <> [] -> CteEnc.after_stack st = Some (st', sep) ->
  CteEnc.after_stack (CteEnc.DConcat :: st) = Some (st', sep).
Proof. intros Hne H. cbn [CteEnc.after_stack]. destruct st; [congruence|exact H]. Qed.

Lemma encodes_mark id v : encodes v -> encodes (VMark id v).
Proof.
  intros Hv Hwf c s st' sep Hcfg Hok Ha Ho _. cbn [wf] in Hwf. destruct Hwf as [_ [Wv [Vv Nv]]].
  cbn [events_of is_value CteEnc.run CteEnc.step].
  destruct (before_value_spec s (ctx_ok_head _ _ Hok) Ho) as [s0 [E0 [[A1 [A2 [A3 A4]]] _]]]. rewrite E0. cbn [CteEnc.bind].
  set (s1 := CteEnc.push CteEnc.DConcat (CteEnc.emit_nolf (38 :: str_bytes id ++ [58]) s0)).
  assert (S1 : CteEnc.stack s1 = CteEnc.DConcat :: CteEnc.stack s) by (unfold s1, CteEnc.push; cbn [CteEnc.stack CteEnc.set_stack CteEnc.emit_nolf CteEnc.emit_cd]; congruence).
  assert (R1 : CteEnc.rout s1 = rev (38 :: str_bytes id ++ [58]) ++ CteEnc.rout s0).
  { unfold s1, CteEnc.push. cbn [CteEnc.rout CteEnc.set_stack CteEnc.emit_nolf CteEnc.emit_cd]. apply rev_append_rev. }
  assert (I1 : CteEnc.ind s1 = CteEnc.ind s) by (rewrite <- A2; reflexivity).
  assert (Hne : CteEnc.stack s <> []) by (intro E; rewrite E in Hok; discriminate).
  assert (G := Hv Wv c s1 st' sep Hcfg). rewrite S1 in G. rewrite Vv in G. cbn [st_pre app] in G.
  destruct G as [s2 [E2 [B1 [B2 [B3 B4]]]]].
  - cbn [ctx_ok]. rewrite Vv, Nv. reflexivity.
  - apply after_stack_concat; assumption.
  - unfold origin_ok. rewrite S1. exact I.
  - unfold top_ok. rewrite Nv. discriminate.
  - exists s2. split; [exact E2|]. unfold outcome_of. repeat split; try congruence.
    rewrite B1, R1, A1, I1. rewrite !app_assoc, <- !rev_app_distr. f_equal. f_equal.
    unfold pp. cbn [gp]. rewrite <- !app_assoc. cbn [app]. rewrite <- !app_assoc. reflexivity.
Qed.

(* closing a container whose items stand in [dk :: st0] *)
Lemma close_enc cc dk st0 st' sep s i :
  CteEnc.end_container s = CteEnc.close_container cc s ->
  CteEnc.stack s = dk :: st0 -> st0 <> [] -> CteEnc.after_stack st0 = Some (st', sep) -> CteEnc.ind s = i + 4 ->
  exists s', CteEnc.end_container s = Some s' /\
    CteEnc.rout s' = rev ((if CteEnc.cho s then nl i else []) ++ [cc] ++ sepb sep) ++ CteEnc.rout s /\
    CteEnc.ind s' = i /\ CteEnc.stack s' = st' /\ CteEnc.cho s' = true.
Proof.
  intros Hcl Hs Hne Ha Hi. rewrite Hcl. unfold CteEnc.close_container, CteEnc.unindent.
  replace (CteEnc.ind s <? 4) with false by lia. cbn [CteEnc.bind].
  set (s3 := CteEnc.set_ind (CteEnc.ind s - 4) s).
  assert (I3 : CteEnc.ind s3 = i) by (unfold s3; cbn [CteEnc.ind CteEnc.set_ind]; lia).
  assert (C3 : CteEnc.cho s3 = CteEnc.cho s) by reflexivity.
  set (s4 := if CteEnc.cho s3 then CteEnc.newline_indent s3 else s3).
  assert (E4 : emits (if CteEnc.cho s then nl i else []) s3 s4).
  { unfold s4. rewrite C3. destruct (CteEnc.cho s); [rewrite <- I3; apply emits_newline_indent|apply emits_refl]. }
  destruct E4 as [D1 [D2 [D3 D4]]].
  set (s5 := CteEnc.emit_nolf [cc] s4).
  assert (S5 : CteEnc.stack s5 = dk :: st0).
  { unfold s5. cbn [CteEnc.stack CteEnc.emit_nolf CteEnc.emit_cd]. rewrite D3. unfold s3. cbn [CteEnc.stack CteEnc.set_ind]. exact Hs. }
  unfold CteEnc.unstack. rewrite S5. destruct st0 as [|d0 st00]; [congruence|]. cbn [CteEnc.bind].
  set (s6 := CteEnc.set_stack (d0 :: st00) s5).
  assert (S6 : CteEnc.after_stack (CteEnc.stack s6) = Some (st', sep)) by exact Ha.
  destruct (after_value_spec s6 st' sep S6) as [s7 [E7 [F1 [F2 [F3 F4]]]]].
  exists s7. split; [exact E7|]. repeat split; try assumption.
  - rewrite F1. unfold s6. cbn [CteEnc.rout CteEnc.set_stack]. unfold s5. cbn [CteEnc.rout CteEnc.emit_nolf CteEnc.emit_cd rev_append].
    rewrite D1. unfold s3. cbn [CteEnc.rout CteEnc.set_ind]. rewrite !rev_app_distr. cbn [rev app]. rewrite <- !app_assoc. reflexivity.
  - rewrite F2. unfold s6, s5. cbn [CteEnc.ind CteEnc.set_stack CteEnc.emit_nolf CteEnc.emit_cd]. congruence.
Qed.

Lemma rev_chain2 (pre op items closing post : bytes) cc R :
  rev (closing ++ [cc] ++ post) ++ rev items ++ rev op ++ rev pre ++ R =
  rev (pre ++ (op ++ items ++ closing ++ [cc]) ++ post) ++ R.
Proof.
  rewrite !rev_app_distr. cbn [rev app]. repeat (rewrite <- !app_assoc; cbn [app]). reflexivity.
Qed.

Section Container.
  Variables (c : CteEnc.ccfg) (ob : bytes) (cc : N) (dk : CteEnc.deco) (eopen : event) (st1 : list CteEnc.deco -> list CteEnc.deco) (sep1 : bool).
  Hypothesis Hopen : forall s, CteEnc.step c s eopen = CteEnc.open_container true ob dk s.
  Hypothesis Hclose : forall s stk', CteEnc.stack s = dk :: stk' -> CteEnc.end_container s = CteEnc.close_container cc s.
  Hypothesis Hnl : forall stk', nl_ctx (dk :: stk') = true.
  Hypothesis Haft : forall stk', CteEnc.after_stack (dk :: stk') = Some (st1 stk', sep1).

  Lemma container_enc l s st' sep :
    Forall (fun x => wf x /\ encodes x /\ cfgok c x /\ ctx_ok [dk] x = true /\ (is_value x = true -> (forall stk', st1 stk' = dk :: stk') /\ sep1 = false)) l ->
    head_ok (CteEnc.stack s) = true -> origin_ok s -> CteEnc.after_stack (CteEnc.stack s) = Some (st', sep) ->
    exists s', CteEnc.run c s (eopen :: flat_map events_of l ++ [EEnd]) = Some s' /\
      outcome_of (st_pre (CteEnc.stack s) (CteEnc.ind s) ++
                  (ob ++ flat_map (fun x => nl (CteEnc.ind s + 4) ++ pp (CteEnc.ind s + 4) x) l ++
                         (match l with [] => [] | _ => nl (CteEnc.ind s) end) ++ [cc]) ++ sepb sep)
                 st' s s'.
  Proof.
    intros Hl Hh Ho Ha. cbn [CteEnc.run]. rewrite Hopen. unfold CteEnc.open_container.
    destruct (before_value_spec s Hh Ho) as [s0 [E0 [[A1 [A2 [A3 A4]]] _]]]. rewrite E0. cbn [CteEnc.bind].
    set (s1 := CteEnc.push dk (CteEnc.set_ind (CteEnc.ind (CteEnc.set_cho false s0) + 4) (CteEnc.emit_nolf ob (CteEnc.set_cho false s0)))).
    assert (R1 : CteEnc.rout s1 = rev ob ++ CteEnc.rout s0).
    { unfold s1, CteEnc.push. cbn [CteEnc.rout CteEnc.set_stack CteEnc.set_ind CteEnc.emit_nolf CteEnc.emit_cd CteEnc.set_cho]. apply rev_append_rev. }
    assert (I1 : CteEnc.ind s1 = CteEnc.ind s + 4) by (rewrite <- A2; reflexivity).
    assert (S1 : CteEnc.stack s1 = dk :: CteEnc.stack s) by (unfold s1, CteEnc.push; cbn [CteEnc.stack CteEnc.set_stack CteEnc.set_ind CteEnc.emit_nolf CteEnc.emit_cd CteEnc.set_cho]; congruence).
    assert (C1 : CteEnc.cho s1 = false) by reflexivity.
    rewrite run_app.
    assert (Hl' : Forall (fun x => wf x /\ encodes x /\ cfgok c x /\ ctx_ok (dk :: CteEnc.stack s) x = true /\
                                   (is_value x = true -> st1 (CteEnc.stack s) = dk :: CteEnc.stack s /\ sep1 = false)) l).
    { eapply Forall_impl; [|exact Hl]. intros x [W [E [Cf [K V]]]]. split; [exact W|]. split; [exact E|]. split; [exact Cf|]. split.
      - destruct dk; try discriminate K; exact K.
      - intro Hv. destruct (V Hv) as [V1 V2]. split; [apply V1|exact V2]. }
    destruct (enc_items c (dk :: CteEnc.stack s) (st1 (CteEnc.stack s)) sep1 l (Hnl _) (Haft _) Hl' s1 S1) as [s2 [E2 [B1 [B2 [B3 B4]]]]].
    rewrite E2. cbn [CteEnc.bind]. rewrite run_one. cbn [CteEnc.step].
    assert (Hne : CteEnc.stack s <> []) by (intro E; rewrite E in Hh; discriminate).
    destruct (close_enc cc dk (CteEnc.stack s) st' sep s2 (CteEnc.ind s) (Hclose s2 _ B3) B3 Hne Ha ltac:(congruence)) as [s3 [E3 [F1 [F2 [F3 F4]]]]].
    exists s3. split; [exact E3|]. unfold outcome_of. repeat split; try assumption.
    rewrite F1, B1, I1, R1, A1, B4, C1.
    destruct l; cbv iota;
    apply rev_chain2.
  Qed.
End Container.

Lemma encodes_node v l : encodes v -> Forall encodes l -> encodes (VNode v l).
Proof.
  intros Hv Hl Hwf c s st' sep Hcfg Hok Ha Ho Ht. apply wf_node in Hwf. destruct Hwf as [[Wv [Vv Nv]] Wl].
  unfold cfgok in Hcfg. cbn [atoms_of] in Hcfg. apply Forall_app in Hcfg as [Cv Cl]. apply cfgok_items in Cl.
  cbn [events_of is_value CteEnc.run CteEnc.step]. unfold CteEnc.open_container.
  assert (Hh := ctx_ok_head _ _ Hok).
  destruct (before_value_spec s Hh Ho) as [s0 [E0 [[A1 [A2 [A3 A4]]] [Cnl Cflat]]]]. rewrite E0. cbn [CteEnc.bind].
  assert (Hcol : CteEnc.col s0 = Z.of_N (CteEnc.ind s)).
  { destruct (nl_ctx (CteEnc.stack s)) eqn:Enl; [apply Cnl; reflexivity|]. rewrite (Cflat eq_refl).
    specialize (Ht eq_refl). destruct (CteEnc.stack s) as [|d stk]; [discriminate|].
    destruct d; try discriminate Hok; try discriminate Enl; exact Ht. }
  set (s1 := CteEnc.push CteEnc.DNodeValue (CteEnc.set_ind (CteEnc.ind s0 + 4) (CteEnc.emit_nolf [40] s0))).
  assert (R1 : CteEnc.rout s1 = 40 :: CteEnc.rout s0) by reflexivity.
  assert (I1 : CteEnc.ind s1 = CteEnc.ind s + 4) by (rewrite <- A2; reflexivity).
  assert (S1 : CteEnc.stack s1 = CteEnc.DNodeValue :: CteEnc.stack s)
    by (unfold s1, CteEnc.push; cbn [CteEnc.stack CteEnc.set_stack CteEnc.set_ind CteEnc.emit_nolf CteEnc.emit_cd]; congruence).
  assert (O1 : origin_ok s1).
  { unfold origin_ok. rewrite S1. unfold CteEnc.at_origin. rewrite I1.
    assert (CteEnc.col s1 = CteEnc.col s0 + 1)%Z by reflexivity. apply Z.eqb_neq. lia. }
  rewrite run_app.
  assert (G := Hv Wv c s1 (CteEnc.DNodeChildren :: CteEnc.stack s) false Cv). rewrite S1 in G. rewrite Vv in G. cbn [st_pre sepb app] in G.
  destruct G as [s2 [E2 [B1 [B2 [B3 B4]]]]].
  { cbn [ctx_ok]. rewrite Vv, Nv. reflexivity. }
  { reflexivity. }
  { exact O1. }
  { unfold top_ok. rewrite Nv. discriminate. }
  rewrite E2. cbn [CteEnc.bind]. rewrite run_app. rewrite app_nil_r in B1.
  assert (Hl' : Forall (fun x => wf x /\ encodes x /\ cfgok c x /\ ctx_ok (CteEnc.DNodeChildren :: CteEnc.stack s) x = true /\
                                 (is_value x = true -> CteEnc.DNodeChildren :: CteEnc.stack s = CteEnc.DNodeChildren :: CteEnc.stack s /\ false = false)) l).
  { rewrite Forall_forall in *. intros x Hx. destruct (Wl x Hx) as [W P]. split; [exact W|]. split; [apply Hl, Hx|]. split; [apply Cl, Hx|].
    split; [cbn [ctx_ok]; rewrite P; reflexivity|]. intros _. split; reflexivity. }
  destruct (enc_items c (CteEnc.DNodeChildren :: CteEnc.stack s) _ false l eq_refl eq_refl Hl' s2 B3) as [s3 [E3 [D1 [D2 [D3 D4]]]]].
  rewrite E3. cbn [CteEnc.bind]. rewrite run_one. cbn [CteEnc.step].
  assert (Hne : CteEnc.stack s <> []) by (intro E; rewrite E in Hh; discriminate).
  assert (Hcl : CteEnc.end_container s3 = CteEnc.close_container 41 s3) by (unfold CteEnc.end_container; rewrite D3; reflexivity).
  destruct (close_enc 41 CteEnc.DNodeChildren (CteEnc.stack s) st' sep s3 (CteEnc.ind s) Hcl D3 Hne Ha ltac:(congruence)) as [s4 [E4 [F1 [F2 [F3 F4]]]]].
  exists s4. split; [exact E4|]. unfold outcome_of. repeat split; try assumption.
  assert (C3 : CteEnc.cho s3 = true) by (rewrite D4; destruct l; [exact B4|reflexivity]).
  rewrite F1, C3, D1, B2, B1, I1, R1, A1. unfold pp. cbn [gp].
  rewrite !rev_app_distr. cbn [rev app]. rewrite !rev_app_distr. cbn [rev app]. repeat (rewrite <- !app_assoc; cbn [app]). reflexivity.
Qed.

Lemma encodes_all t : encodes t.
Proof.
  induction t using tree_induction.
  - apply encodes_atom.
  - apply encodes_comment.
  - apply encodes_pair; assumption.
  - apply encodes_mark; assumption.
  - (* list, record, edge *)
    intros Hwf c s st' sep Hcfg Hok Ha Ho _. apply wf_seq in Hwf. destruct Hwf as [Hl Hk].
    unfold cfgok in Hcfg. cbn [atoms_of] in Hcfg. apply cfgok_items in Hcfg.
    assert (Hh := ctx_ok_head _ _ Hok). cbn [events_of is_value]. unfold pp. cbn [gp].
    assert (Hit : forall dk, (dk = CteEnc.DList \/ dk = CteEnc.DRecord \/ dk = CteEnc.DEdge) ->
              Forall (fun x => wf x /\ encodes x /\ cfgok c x /\ ctx_ok [dk] x = true /\
                               (is_value x = true -> (forall stk', (fun stk => dk :: stk) stk' = dk :: stk') /\ false = false)) l).
    { intros dk Hdk. rewrite Forall_forall in *. intros x Hx. destruct (Hl x Hx) as [W P]. split; [exact W|]. split; [apply H, Hx|]. split; [apply Hcfg, Hx|].
      split; [destruct Hdk as [E|[E|E]]; subst dk; cbn [ctx_ok]; rewrite P; reflexivity|]. intros _. split; reflexivity. }
    destruct k as [|id|].
    + apply (container_enc c [91] 93 CteEnc.DList EList (fun stk => CteEnc.DList :: stk) false); try assumption; try reflexivity.
      * intros s0 stk' H0. unfold CteEnc.end_container. rewrite H0. reflexivity.
      * apply Hit. left. reflexivity.
    + apply (container_enc c (64 :: str_bytes id ++ [123]) 125 CteEnc.DRecord (ERecord (str_bytes id)) (fun stk => CteEnc.DRecord :: stk) false); try assumption; try reflexivity.
      * intros s0 stk' H0. unfold CteEnc.end_container. rewrite H0. reflexivity.
      * apply Hit. right. left. reflexivity.
    + apply (container_enc c [64; 40] 41 CteEnc.DEdge EEdge (fun stk => CteEnc.DEdge :: stk) false); try assumption; try reflexivity.
      * intros s0 stk' H0. unfold CteEnc.end_container. rewrite H0. reflexivity.
      * apply Hit. right. right. reflexivity.
  - (* map *)
    intros Hwf c s st' sep Hcfg Hok Ha Ho _. apply wf_map in Hwf.
    unfold cfgok in Hcfg. cbn [atoms_of] in Hcfg. apply cfgok_items in Hcfg.
    assert (Hh := ctx_ok_head _ _ Hok). cbn [events_of is_value]. unfold pp. cbn [gp].
    apply (container_enc c [123] 125 CteEnc.DMapKey EMap (fun stk => CteEnc.DMapValue :: stk) true); try assumption; try reflexivity.
    + intros s0 stk' H0. unfold CteEnc.end_container. rewrite H0. reflexivity.
    + rewrite Forall_forall in *. intros x Hx. destruct (Hwf x Hx) as [W P]. split; [exact W|]. split; [apply H, Hx|]. split; [apply Hcfg, Hx|].
      split; [reflexivity|]. rewrite P. discriminate.
  - apply encodes_node; assumption.
Qed.
Lemma den_rd_int neg n r : Denote.den_go None (rd_int neg n :: r) = Denote.dnum neg n 0 :: Denote.den_go None r.
Proof.
  unfold rd_int. destruct (N.eqb_spec n 0) as [E|E]; destruct neg; cbn [andb].
  - subst. reflexivity.
  - subst. reflexivity.
  - destruct ((- 2 ^ 63 <=? - Z.of_N n)%Z && (- Z.of_N n <? 2 ^ 63)%Z); cbn [Denote.den_go];
      replace (- Z.of_N n <? 0)%Z with true by lia; replace (Z.abs_N (- Z.of_N n)) with n by lia; reflexivity.
  - destruct ((- 2 ^ 63 <=? Z.of_N n)%Z && (Z.of_N n <? 2 ^ 63)%Z); cbn [Denote.den_go];
      replace (Z.of_N n <? 0)%Z with false by lia; replace (Z.abs_N (Z.of_N n)) with n by lia; reflexivity.
Qed.

Lemma dnum_not_padding neg c e : Denote.is_padding (Denote.dnum neg c e) = false.
Proof. unfold Denote.dnum. destruct (c =? 0); [reflexivity|]. destruct (Denote.strip10 _ c e). reflexivity. Qed.


(* ---- record types and the whole document ---- *)

Definition rt_cfgok (c : CteEnc.ccfg) (rt : rectype) : Prop := Forall (cfgok c) (snd rt).

Lemma enc_rt c rt s : wf_rt rt -> rt_cfgok c rt -> CteEnc.stack s = [CteEnc.DTop] -> CteEnc.ind s = 0 ->
  exists s', CteEnc.run c s (rt_events events_of rt) = Some s' /\
             CteEnc.rout s' = rev (gp_rt qbytes str_bytes rt) ++ CteEnc.rout s /\
             CteEnc.stack s' = [CteEnc.DTop] /\ CteEnc.ind s' = 0 /\ CteEnc.col s' = 0%Z.
Proof.
  intros [Hid Hl] Hcf Hs Hi. destruct rt as [id l]. unfold rt_events, gp_rt, rt_cfgok in *. cbn [fst snd] in *.
  cbn [CteEnc.run CteEnc.step]. unfold CteEnc.open_container, CteEnc.before_value. rewrite Hs. cbn [CteEnc.bind].
  set (ob := 64 :: str_bytes id ++ [60]).
  set (s1 := CteEnc.push CteEnc.DRecordType (CteEnc.set_ind (CteEnc.ind (CteEnc.set_cho false s) + 4) (CteEnc.emit_nolf ob (CteEnc.set_cho false s)))).
  assert (R1 : CteEnc.rout s1 = rev ob ++ CteEnc.rout s).
  { unfold s1, CteEnc.push. cbn [CteEnc.rout CteEnc.set_stack CteEnc.set_ind CteEnc.emit_nolf CteEnc.emit_cd CteEnc.set_cho]. apply rev_append_rev. }
  assert (I1 : CteEnc.ind s1 = 4) by (unfold s1, CteEnc.push; cbn [CteEnc.ind CteEnc.set_stack CteEnc.set_ind CteEnc.set_cho]; lia).
  assert (S1 : CteEnc.stack s1 = [CteEnc.DRecordType; CteEnc.DTop])
    by (unfold s1, CteEnc.push; cbn [CteEnc.stack CteEnc.set_stack CteEnc.set_ind CteEnc.emit_nolf CteEnc.emit_cd CteEnc.set_cho]; congruence).
  assert (C1 : CteEnc.cho s1 = false) by reflexivity.
  rewrite run_app.
  assert (Hl' : Forall (fun x => wf x /\ encodes x /\ cfgok c x /\ ctx_ok [CteEnc.DRecordType; CteEnc.DTop] x = true /\
                 (is_value x = true -> [CteEnc.DRecordType; CteEnc.DTop] = [CteEnc.DRecordType; CteEnc.DTop] /\ false = false)) l).
  { rewrite Forall_forall in *. intros x Hx. destruct (Hl x Hx) as [W P]. split; [exact W|]. split; [apply encodes_all|]. split; [apply Hcf, Hx|].
    split; [cbn [ctx_ok]; rewrite P; reflexivity|]. intros _. split; reflexivity. }
  destruct (enc_items c [CteEnc.DRecordType; CteEnc.DTop] _ false l eq_refl eq_refl Hl' s1 S1) as [s2 [E2 [B1 [B2 [B3 B4]]]]].
  rewrite E2. cbn [CteEnc.bind]. rewrite run_one. cbn [CteEnc.step]. unfold CteEnc.end_container. rewrite B3.
  unfold CteEnc.unindent. replace (CteEnc.ind s2 <? 4) with false by lia. cbn [CteEnc.bind].
  set (s3 := CteEnc.set_ind (CteEnc.ind s2 - 4) s2).
  assert (I3 : CteEnc.ind s3 = 0) by (unfold s3; cbn [CteEnc.ind CteEnc.set_ind]; lia).
  set (s4 := if CteEnc.cho s3 then CteEnc.newline_indent s3 else s3).
  assert (E4 : emits (match l with [] => [] | _ => nl 0 end) s3 s4).
  { unfold s4. assert (C3 : CteEnc.cho s3 = match l with [] => false | _ => true end) by (unfold s3; cbn [CteEnc.cho CteEnc.set_ind]; rewrite B4, C1; reflexivity).
    rewrite C3. destruct l; [apply emits_refl|]. rewrite <- I3. apply emits_newline_indent. }
  destruct E4 as [D1 [D2 [D3 D4]]].
  set (s5 := CteEnc.emit_nolf [62] s4).
  assert (S5 : CteEnc.stack s5 = [CteEnc.DRecordType; CteEnc.DTop]).
  { unfold s5. cbn [CteEnc.stack CteEnc.emit_nolf CteEnc.emit_cd]. rewrite D3. unfold s3. cbn [CteEnc.stack CteEnc.set_ind]. exact B3. }
  unfold CteEnc.unstack. rewrite S5. cbn [CteEnc.bind].
  set (s6 := CteEnc.set_stack [CteEnc.DTop] s5).
  assert (I6 : CteEnc.ind s6 = 0) by (unfold s6, s5; cbn [CteEnc.ind CteEnc.set_stack CteEnc.emit_nolf CteEnc.emit_cd]; congruence).
  destruct (emits_newline_indent s6) as [F1 [F2 [F3 F4]]].
  eexists. split; [reflexivity|]. split; [|split; [rewrite F3; reflexivity|split; [congruence|rewrite col_newline_indent, I6; reflexivity]]].
  rewrite F1, I6. unfold s6. cbn [CteEnc.rout CteEnc.set_stack]. unfold s5. cbn [CteEnc.rout CteEnc.emit_nolf CteEnc.emit_cd rev_append].
  rewrite D1. unfold s3. cbn [CteEnc.rout CteEnc.set_ind]. rewrite B1, I1, R1. unfold ob, pp.
  repeat (progress cbn [rev app] || rewrite rev_app_distr || rewrite <- app_assoc). reflexivity.
Qed.

Lemma enc_rts c rts : Forall wf_rt rts -> Forall (rt_cfgok c) rts -> forall s, CteEnc.stack s = [CteEnc.DTop] -> CteEnc.ind s = 0 -> CteEnc.col s = 0%Z ->
  exists s', CteEnc.run c s (flat_map (rt_events events_of) rts) = Some s' /\
             CteEnc.rout s' = rev (flat_map (gp_rt qbytes str_bytes) rts) ++ CteEnc.rout s /\
             CteEnc.stack s' = [CteEnc.DTop] /\ CteEnc.ind s' = 0 /\ CteEnc.col s' = 0%Z.
Proof.
  induction 1 as [|rt rts' Hrt Hrts IH]; intros Hcf s Hs Hi Hc.
  - exists s. repeat split; assumption.
  - inversion Hcf as [|? ? Hcf1 Hcf2]; subst. cbn [flat_map]. rewrite run_app. destruct (enc_rt c rt s Hrt Hcf1 Hs Hi) as [s1 [E1 [A1 [A2 [A3 A4]]]]].
    rewrite E1. cbn [CteEnc.bind]. destruct (IH Hcf2 s1 A2 A3 A4) as [s2 [E2 [B1 [B2 [B3 B4]]]]].
    exists s2. split; [exact E2|]. repeat split; try assumption. rewrite B1, A1. rewrite rev_app_distr, app_assoc. reflexivity.
Qed.

(* the encoder model on a document of the fragment writes the layout [pp_doc] *)
Definition doc_cfgok (c : CteEnc.ccfg) (rts : list rectype) (t : tree) : Prop := Forall (rt_cfgok c) rts /\ cfgok c t.

Theorem encode_pp_doc c rts t : Forall wf_rt rts -> wf t -> is_value t = true -> doc_cfgok c rts t ->
  CteEnc.cte_encode c (document (doc_events rts t)) = Some (pp_doc rts t).
Proof.
  intros Hr Hwf Hv [Hcr Hct]. unfold CteEnc.cte_encode, document, doc_events. cbn [CteEnc.run CteEnc.step CteEnc.bind].
  set (sb := CteEnc.newline_indent (CteEnc.emit_raw (CteEnc.dec 0) (CteEnc.emit_nolf [99] (CteEnc.set_stack [CteEnc.DTop] (CteEnc.set_ind 0 CteEnc.est0))))).
  assert (Sb : CteEnc.stack sb = [CteEnc.DTop]) by reflexivity.
  assert (Ib : CteEnc.ind sb = 0) by reflexivity.
  assert (Cb : CteEnc.col sb = 0%Z) by reflexivity.
  assert (Rb : CteEnc.rout sb = rev (99 :: 48 :: nl 0)) by reflexivity.
  rewrite <- app_assoc, run_app.
  destruct (enc_rts c rts Hr Hcr sb Sb Ib Cb) as [s1 [E1 [A1 [A2 [A3 A4]]]]]. rewrite E1. cbn [CteEnc.bind]. rewrite run_app.
  assert (G := encodes_all t Hwf c s1 [CteEnc.DTop] false Hct). rewrite A2 in G. rewrite Hv in G. cbn [st_pre sepb app] in G.
  destruct G as [s' [E [B1 [B2 [B3 B4]]]]].
  - exact Hv.
  - reflexivity.
  - unfold origin_ok. rewrite A2. exact I.
  - unfold top_ok. rewrite A2. intros _. rewrite A3, A4. reflexivity.
  - rewrite E. cbn [CteEnc.bind CteEnc.run CteEnc.step]. unfold CteEnc.out_of. rewrite B1, A1, Rb, A3. rewrite app_nil_r.
    unfold pp_doc. rewrite !app_assoc, <- !rev_app_distr, rev_involutive. rewrite <- !app_assoc. reflexivity.
Qed.

(* ---- same data ---- *)

Lemma atom_den a r : Denote.den_go None (aevent a :: r) = adev a :: Denote.den_go None r /\
                     Denote.den_go None (ard a :: r) = adev a :: Denote.den_go None r /\ Denote.is_padding (adev a) = false.
Proof.
  destruct a; cbn [aevent ard adev]; try (repeat split; reflexivity).
  - repeat split; destruct plain, b; reflexivity.
  - split; [reflexivity|]. split; [apply den_rd_int|apply dnum_not_padding].
  - split; [reflexivity|]. split; [apply den_rd_int|apply dnum_not_padding].
  - split; [reflexivity|]. split; [apply den_rd_int|apply dnum_not_padding].
  - assert (W : Denote.whole_count (sty k) (N.of_nat (length (str_bytes rs))) (str_bytes rs) = N.of_nat (length (str_bytes rs))).
    { unfold Denote.whole_count. destruct (nth (N.to_nat (sty k)) array_elem_bits 8 =? 8); reflexivity. }
    repeat split; [destruct whole; cbn [Denote.den_go]; rewrite ?W; reflexivity | cbn [Denote.den_go]; rewrite W; reflexivity].
Qed.

Fixpoint devs (t : tree) : list Denote.dev :=
  match t with
  | VAtom a => [adev a]
  | VCom m rs => [Denote.DComment m (str_bytes rs)]
  | VPair k v => devs k ++ devs v
  | VMark id v => Denote.DMarker (str_bytes id) :: devs v
  | VSeq k l => sdev k :: flat_map devs l ++ [Denote.DEnd]
  | VMap l => Denote.DMap :: flat_map devs l ++ [Denote.DEnd]
  | VNode v l => Denote.DNode :: devs v ++ flat_map devs l ++ [Denote.DEnd]
  end.

Lemma den_items (f : tree -> list event) l :
  Forall (fun t => forall r, Denote.den_go None (f t ++ r) = devs t ++ Denote.den_go None r) l ->
  forall r, Denote.den_go None (flat_map f l ++ r) = flat_map devs l ++ Denote.den_go None r.
Proof.
  induction 1 as [|x l' Hx Hl IH]; intro r; [reflexivity|].
  cbn [flat_map]. rewrite <- !app_assoc. rewrite Hx, IH. reflexivity.
Qed.


Lemma den_tree (f : tree -> list event) (fa : atom -> event) :
  (forall a r, Denote.den_go None (fa a :: r) = adev a :: Denote.den_go None r) ->
  (forall t, f t = match t with
                   | VAtom a => [fa a] | VCom m rs => [EComment m (str_bytes rs)] | VPair k v => f k ++ f v
                   | VMark id v => EMarker (str_bytes id) :: f v
                   | VSeq k l => sevent k :: flat_map f l ++ [EEnd] | VMap l => EMap :: flat_map f l ++ [EEnd]
                   | VNode v l => ENode :: f v ++ flat_map f l ++ [EEnd] end) ->
  forall t r, Denote.den_go None (f t ++ r) = devs t ++ Denote.den_go None r.
Proof.
  intros Ha Hf. induction t using tree_induction; intro r; rewrite Hf; cbn [devs app].
  - apply Ha.
  - reflexivity.
  - rewrite <- app_assoc. rewrite IHt1, IHt2. rewrite <- app_assoc. reflexivity.
  - cbn [Denote.den_go]. rewrite IHt. reflexivity.
  - destruct k; cbn [sevent sdev app Denote.den_go]; rewrite <- !app_assoc; rewrite (den_items f l H); reflexivity.
  - cbn [Denote.den_go]. rewrite <- !app_assoc. rewrite (den_items f l H). reflexivity.
  - cbn [Denote.den_go]. rewrite <- !app_assoc. rewrite IHt. rewrite (den_items f l H). reflexivity.
Qed.

Lemma den_events_of t r : Denote.den_go None (events_of t ++ r) = devs t ++ Denote.den_go None r.
Proof. apply (den_tree events_of aevent); [intros; apply atom_den|intro t0; destruct t0; reflexivity]. Qed.
Lemma den_rd_events t r : Denote.den_go None (rd_events t ++ r) = devs t ++ Denote.den_go None r.
Proof. apply (den_tree rd_events ard); [intros; apply atom_den|intro t0; destruct t0; reflexivity]. Qed.

Lemma no_pad_items l : Forall (fun t => forallb (fun d => negb (Denote.is_padding d)) (devs t) = true) l ->
  forallb (fun d => negb (Denote.is_padding d)) (flat_map devs l) = true.
Proof. induction 1 as [|x l' Hx Hl IH]; [reflexivity|]. cbn [flat_map]. rewrite forallb_app, Hx, IH. reflexivity. Qed.

Lemma devs_no_padding t : forallb (fun d => negb (Denote.is_padding d)) (devs t) = true.
Proof.
  induction t using tree_induction; cbn [devs forallb].
  - destruct (atom_den a []) as [_ [_ E]]. rewrite E. reflexivity.
  - reflexivity.
  - rewrite forallb_app, IHt1, IHt2. reflexivity.
  - rewrite IHt. reflexivity.
  - rewrite forallb_app, (no_pad_items l H). destruct k; reflexivity.
  - rewrite forallb_app, (no_pad_items l H). reflexivity.
  - rewrite !forallb_app, IHt, (no_pad_items l H). reflexivity.
Qed.

Lemma filter_all {A} (p : A -> bool) l : forallb p l = true -> filter p l = l.
Proof. induction l as [|x l IH]; cbn [forallb filter]; [reflexivity|]. intro H. apply andb_true_iff in H as [H1 H2]. rewrite H1, (IH H2). reflexivity. Qed.

Definition rt_devs (rt : rectype) : list Denote.dev := Denote.DRecordType (str_bytes (fst rt)) :: flat_map devs (snd rt) ++ [Denote.DEnd].

Lemma den_rts (f : tree -> list event) rts :
  (forall t r, Denote.den_go None (f t ++ r) = devs t ++ Denote.den_go None r) ->
  forall r, Denote.den_go None (flat_map (rt_events f) rts ++ r) = flat_map rt_devs rts ++ Denote.den_go None r.
Proof.
  intros Hf. induction rts as [|rt rts' IH]; intro r; [reflexivity|].
  cbn [flat_map]. unfold rt_events at 1, rt_devs at 1. cbn [app Denote.den_go]. rewrite <- !app_assoc.
  assert (Hi : forall l r0, Denote.den_go None (flat_map f l ++ r0) = flat_map devs l ++ Denote.den_go None r0).
  { induction l as [|x l' IHl]; intro r0; [reflexivity|]. cbn [flat_map]. rewrite <- !app_assoc. rewrite Hf, IHl. reflexivity. }
  rewrite Hi. cbn [app Denote.den_go]. rewrite IH. reflexivity.
Qed.

Theorem same_data rts t :
  Denote.den (document (doc_rd rts t)) = Denote.no_padding (Denote.den (document (doc_events rts t))).
Proof.
  unfold Denote.den, document, doc_rd, doc_events. cbn [Denote.den_go]. rewrite <- !app_assoc.
  rewrite (den_rts rd_events rts den_rd_events), (den_rts events_of rts den_events_of).
  rewrite den_rd_events, den_events_of. cbn [Denote.den_go].
  unfold Denote.no_padding. cbn [filter Denote.is_padding negb]. rewrite !filter_app. cbn [filter Denote.is_padding negb].
  rewrite (filter_all _ _ (devs_no_padding t)).
  assert (Hr : filter (fun d => negb (Denote.is_padding d)) (flat_map rt_devs rts) = flat_map rt_devs rts).
  { apply filter_all. induction rts as [|rt rts' IH]; [reflexivity|]. cbn [flat_map]. rewrite forallb_app, IH. unfold rt_devs.
    cbn [forallb Denote.is_padding negb andb]. rewrite forallb_app. cbn [forallb Denote.is_padding negb andb]. rewrite !andb_true_r.
    apply no_pad_items. apply Forall_forall. intros x _. apply devs_no_padding. }
  rewrite Hr. reflexivity.
Qed.

(* The composed statement for the fragment: the encoder model's text of the stream reads back, through the
   reader model, as a stream with the same denotation. *)
Theorem cte_roundtrip_fragment c rts t : Forall wf_rt rts -> wf t -> is_value t = true -> doc_cfgok c rts t ->
  exists text out,
    CteEnc.cte_encode c (document (doc_events rts t)) = Some text /\
    cte_read text = Some out /\
    Denote.den out = Denote.no_padding (Denote.den (document (doc_events rts t))).
Proof.
  intros Hr Hwf Hv Hc. exists (pp_doc rts t), (document (doc_rd rts t)).
  split; [apply encode_pp_doc; assumption|]. split; [apply read_pp_doc; assumption|apply same_data].
Qed.

(* the hypothesis on the configuration: it holds for the default configuration whatever the document ... *)
Lemma default_acfg a : acfg CteEnc.default_ccfg a.
Proof. destruct a; try exact I. destruct sg, w; reflexivity. Qed.
Lemma default_doc_cfgok rts t : doc_cfgok CteEnc.default_ccfg rts t.
Proof.
  assert (H : forall x, cfgok CteEnc.default_ccfg x) by (intro x; apply Forall_forall; intros a _; apply default_acfg).
  split; [|apply H]. apply Forall_forall. intros rt _. apply Forall_forall. intros x _. apply H.
Qed.

(* ... and for every configuration when the document has no integer array *)
Definition no_int_array (a : atom) : bool := match a with AIntArr _ _ _ => false | _ => true end.
Definition array_free (rts : list rectype) (t : tree) : Prop :=
  Forall (fun rt => Forall (fun x => forallb no_int_array (atoms_of x) = true) (snd rt)) rts /\ forallb no_int_array (atoms_of t) = true.
Lemma array_free_cfgok c rts t : array_free rts t -> doc_cfgok c rts t.
Proof.
  assert (H : forall x, forallb no_int_array (atoms_of x) = true -> cfgok c x).
  { intros x Hx. apply Forall_forall. intros a Ha. apply (proj1 (forallb_forall _ _) Hx) in Ha. destruct a; try exact I; discriminate. }
  intros [Hr Ht]. split; [|apply H, Ht]. eapply Forall_impl; [|exact Hr]. intros rt Hrt. eapply Forall_impl; [|exact Hrt]. intros x. apply H.
Qed.

Corollary cte_roundtrip_default rts t : Forall wf_rt rts -> wf t -> is_value t = true ->
  exists text out,
    CteEnc.cte_encode CteEnc.default_ccfg (document (doc_events rts t)) = Some text /\
    cte_read text = Some out /\
    Denote.den out = Denote.no_padding (Denote.den (document (doc_events rts t))).
Proof. intros. apply cte_roundtrip_fragment; try assumption. apply default_doc_cfgok. Qed.

Corollary cte_roundtrip_any_config c rts t : Forall wf_rt rts -> wf t -> is_value t = true -> array_free rts t ->
  exists text out,
    CteEnc.cte_encode c (document (doc_events rts t)) = Some text /\
    cte_read text = Some out /\
    Denote.den out = Denote.no_padding (Denote.den (document (doc_events rts t))).
Proof. intros. apply cte_roundtrip_fragment; try assumption. apply array_free_cfgok. assumption. Qed.

(* ------------------------------------------------------------------ *)
(** * Every valid UTF-8 text is the UTF-8 text of its code points *)

Lemma decode_encode r c : decode_rune r = Some (c, length r) -> scalar c /\ CteLit.utf8_enc c = r.
Proof.
  unfold decode_rune. destruct r as [|b0 t]; [discriminate|].
  destruct (N.ltb_spec b0 128) as [H1|H1].
  { intro H. inversion H; subst. destruct t; [|discriminate]. unfold scalar, CteLit.utf8_enc.
    replace (c <? 128) with true by lia. split; [lia|reflexivity]. }
  destruct (N.ltb_spec b0 194) as [H2|H2]; [discriminate|].
  destruct (N.ltb_spec b0 224) as [H3|H3].
  { destruct t as [|b1 t]; [discriminate|]. destruct (is_cont b1) eqn:C1; [|discriminate].
    intro H. inversion H as [[Hc Hl]]. destruct t; [|discriminate]. clear H Hl. subst c.
    unfold is_cont in C1. unfold scalar, CteLit.utf8_enc.
    replace ((b0 - 192) * 64 + (b1 - 128) <? 128) with false by lia.
    replace ((b0 - 192) * 64 + (b1 - 128) <? 2048) with true by lia.
    split; [lia|]. f_equal; [lia|]. f_equal. lia. }
  destruct (N.ltb_spec b0 240) as [H4|H4].
  { destruct t as [|b1 [|b2 t]]; try discriminate.
    destruct ((if b0 =? 224 then 160 else 128) <=? b1) eqn:L1; [|discriminate].
    destruct (b1 <=? (if b0 =? 237 then 159 else 191)) eqn:L2; [|discriminate].
    destruct (is_cont b2) eqn:C2; [|discriminate]. cbn [andb].
    intro H. inversion H as [[Hc Hl]]. destruct t; [|discriminate]. clear H Hl. subst c.
    unfold is_cont in C2.
    assert (B1 : 128 <= b1 <= 191 /\ (b0 = 224 -> 160 <= b1) /\ (b0 = 237 -> b1 <= 159)).
    { destruct (N.eqb_spec b0 224); destruct (N.eqb_spec b0 237); lia. }
    clear L1 L2. unfold scalar, CteLit.utf8_enc.
    set (v := (b0 - 224) * 4096 + (b1 - 128) * 64 + (b2 - 128)).
    assert (Hc1 : 2048 <= v < 65536) by (unfold v; lia).
    assert (Hc2 : v < 55296 \/ 57344 <= v) by (unfold v; lia).
    replace (v <? 128) with false by lia. replace (v <? 2048) with false by lia.
    replace ((55296 <=? v) && (v <=? 57343) || (1114111 <? v)) with false by lia.
    replace (v <? 65536) with true by lia.
    split; [lia|]. unfold v. f_equal; [lia|]. f_equal; [lia|]. f_equal. lia. }
  destruct (N.ltb_spec b0 245) as [H5|H5]; [|discriminate].
  destruct t as [|b1 [|b2 [|b3 t]]]; try discriminate.
  destruct ((if b0 =? 240 then 144 else 128) <=? b1) eqn:L1; [|discriminate].
  destruct (b1 <=? (if b0 =? 244 then 143 else 191)) eqn:L2; [|discriminate].
  destruct (is_cont b2) eqn:C2; [|discriminate]. destruct (is_cont b3) eqn:C3; [|discriminate]. cbn [andb].
  intro H. inversion H as [[Hc Hl]]. destruct t; [|discriminate]. clear H Hl. subst c.
  unfold is_cont in C2, C3.
  assert (B1 : 128 <= b1 <= 191 /\ (b0 = 240 -> 144 <= b1) /\ (b0 = 244 -> b1 <= 143)).
  { destruct (N.eqb_spec b0 240); destruct (N.eqb_spec b0 244); lia. }
  clear L1 L2. unfold scalar, CteLit.utf8_enc.
  set (v := (b0 - 240) * 262144 + (b1 - 128) * 4096 + (b2 - 128) * 64 + (b3 - 128)).
  assert (Hc1 : 65536 <= v < 1114112) by (unfold v; lia).
  replace (v <? 128) with false by lia. replace (v <? 2048) with false by lia.
  replace ((55296 <=? v) && (v <=? 57343) || (1114111 <? v)) with false by lia.
  replace (v <? 65536) with false by lia.
  split; [lia|]. unfold v. f_equal; [lia|]. f_equal; [lia|]. f_equal; [lia|]. f_equal. lia.
Qed.

Theorem valid_is_utf8_str s : utf8_valid s = true -> exists rs, Forall scalar rs /\ s = CteLit.utf8_str rs.
Proof.
  intro H. apply utf8_valid_iff_Valid in H. induction H as [|r s' [c Hr] Hs' [rs [Hrs ->]]].
  - exists []. split; [constructor|reflexivity].
  - destruct (decode_encode r c Hr) as [Hc He]. exists (c :: rs). split; [constructor; assumption|].
    unfold CteLit.utf8_str. cbn [flat_map]. rewrite He. reflexivity.
Qed.

Lemma tok_str_idx idx rs rest : scalars rs ->
  next_tok idx (34 :: qbody rs ++ 34 :: rest) = Some (TVal (EArray AT_String (N.of_nat (length (str_bytes rs))) (str_bytes rs)), rest, idx).
Proof.
  intro Hs. cbn [next_tok]. change (is_ws 34) with false. cbv iota. change (34 =? 47) with false.
  change (34 =? 91) with false. change (34 =? 93) with false. change (34 =? 123) with false. change (34 =? 125) with false.
  change (34 =? 61) with false. change (34 =? 40) with false. change (34 =? 41) with false. change (34 =? 62) with false.
  change (34 =? 34) with true. cbv iota. unfold lex_string.
  rewrite lex_str_qbody; [reflexivity|exact Hs|].
  rewrite app_length. cbn [length]. assert (H := qbody_length rs). lia.
Qed.

(* unescape (escape s) = s for every valid UTF-8 s: the text WriteQuotedString writes for s (whatever the encoder
   state), followed by anything, is read by the lexer as one string token carrying exactly s *)
Theorem quoted_string_roundtrip (s : bytes) (lf : bool) (st : CteEnc.est) : utf8_valid s = true ->
  exists txt, emits txt st (CteEnc.write_quoted lf s st) /\
    forall idx tail, next_tok idx (runes (txt ++ tail)) = Some (TVal (EArray AT_String (N.of_nat (length s)) s), runes tail, idx).
Proof.
  intro Hv. destruct (valid_is_utf8_str s Hv) as [rs [Hrs ->]]. fold (str_bytes rs).
  exists (34 :: qbytes rs ++ [34]). split; [apply emits_write_quoted, Hrs|].
  intros idx tail. cbn [app]. rewrite runes_ascii_cons by lia. rewrite <- app_assoc, runes_qbytes_app by exact Hrs.
  cbn [app]. rewrite runes_ascii_cons by lia. apply tok_str_idx, Hrs.
Qed.

(* ------------------------------------------------------------------ *)
(** * The property as stated, and where the current code violates it *)

From CE Require Model.Rules.

Definition accepted (es : list event) : Prop := Rules.accepts_document Rules.default_rcfg es = true.

Definition c02_full : Prop :=
  forall es, accepted es ->
  exists text out,
    CteEnc.cte_encode CteEnc.default_ccfg es = Some text /\ cte_read text = Some out /\ accepted out /\
    Denote.den out = Denote.no_padding (Denote.den es).

Definition in_list (body : list event) : list event := document (EList :: body ++ [EEnd]).

(* the text is not a CTE document any more *)
Definition unreadable (es : list event) : Prop :=
  accepted es /\ exists text, CteEnc.cte_encode CteEnc.default_ccfg es = Some text /\ cte_read text = None.
(* the text reads as different data *)
Definition changed (es : list event) : Prop :=
  accepted es /\ exists text out, CteEnc.cte_encode CteEnc.default_ccfg es = Some text /\ cte_read text = Some out /\
                                  Denote.den out <> Denote.no_padding (Denote.den es).

Lemma unreadable_refutes es : unreadable es -> ~ c02_full.
Proof. intros [Ha [text [He Hr]]] F. destruct (F es Ha) as [t' [out [He' [Hr' _]]]]. congruence. Qed.
Lemma changed_refutes es : changed es -> ~ c02_full.
Proof. intros [Ha [text [out [He [Hr Hd]]]]] F. destruct (F es Ha) as [t' [out' [He' [Hr' [_ Hd']]]]]. congruence. Qed.

Ltac unreadable_tac := split; [vm_compute; reflexivity | eexists; split; [vm_compute; reflexivity | vm_compute; reflexivity]].
Ltac changed_tac := split; [vm_compute; reflexivity | eexists; eexists; split; [vm_compute; reflexivity | split; [vm_compute; reflexivity | let H := fresh "H" in (intro H; vm_compute in H; discriminate H)]]].

(* //a<LF>b : the second line is not a comment *)
Definition w_comment_line_feed := in_list [EComment false [97; 10; 98]; EPosInt 1].
Lemma w_comment_line_feed_unreadable : unreadable w_comment_line_feed.
Proof. unreadable_tac. Qed.

(* /*x*/y*/ *)
Definition w_comment_block_close := in_list [EComment true [120; 42; 47; 121]; EPosInt 1].
Lemma w_comment_block_close_unreadable : unreadable w_comment_block_close.
Proof. unreadable_tac. Qed.

(* /*x/*/ : the final slash and the closing delimiter read as an opener *)
Definition w_comment_block_slash := in_list [EComment true [120; 47]; EPosInt 1].
Lemma w_comment_block_slash_unreadable : unreadable w_comment_block_slash.
Proof. unreadable_tac. Qed.

(* //a<FF>b : the byte is not UTF-8; it comes back as U+FFFD *)
Definition w_comment_invalid_utf8 := in_list [EComment false [97; 255; 98]; EPosInt 1].
Lemma w_comment_invalid_utf8_changed : changed w_comment_invalid_utf8.
Proof. changed_tac. Qed.

(* //a<CR> : the carriage return is taken for a part of the line end *)
Definition w_comment_trailing_cr := in_list [EComment false [97; 13]; EPosInt 1].
Lemma w_comment_trailing_cr_changed : changed w_comment_trailing_cr.
Proof. changed_tac. Qed.

(* ((// ...: Column happens to equal the origin of the inner node, so no line feed ends the comment *)
Definition w_comment_first_in_node := document [ENode; ENode; EComment false []; ENull; EEnd; ENull; EEnd].
Lemma w_comment_first_in_node_unreadable : unreadable w_comment_first_in_node.
Proof. unreadable_tac. Qed.

(* the big float 1 is written 0x1, which is the integer 1 *)
Definition w_bigfloat_one := in_list [EBigFloat (Some (BFin false 1 0 53))].
Lemma w_bigfloat_one_changed : changed w_bigfloat_one.
Proof. changed_tac. Qed.

(* -1844674407370.9551621 (coefficient 2^64 + 5) is read as -0.0000005 *)
Definition w_bigdecimal_wide := in_list [EBigDecimal (Some (DFin true 18446744073709551621 (-7)))].
Lemma w_bigdecimal_wide_changed : changed w_bigdecimal_wide.
Proof. changed_tac. Qed.

(* a float32 array element 0x7fc00001 is written "nan" and read as 0x7fe00000 *)
Definition w_float_array_nan := in_list [EArray AT_Float32 2 [0; 0; 128; 63; 1; 0; 192; 127]].
Lemma w_float_array_nan_changed : changed w_float_array_nan.
Proof. changed_tac. Qed.

Lemma c02_full_refuted : ~ c02_full.
Proof. exact (unreadable_refutes _ w_comment_line_feed_unreadable). Qed.

(* ---- examples: the hypotheses of the theorems are satisfiable ---- *)

Definition ex_rts : list rectype :=
  [([112; 116], [VAtom (AStr KStr true [120]); VAtom (AStr KStr false [121])])].

Definition ex_tree : tree :=
  VSeq SList
    [VCom false [104; 105];
     VSeq (SRec [112; 116]) [VAtom (APos 1); VAtom (ANeg 2)];
     VNode (VAtom (AStr KStr true [110])) [VAtom ANull; VSeq SEdge [VAtom (APos 1); VCom true [42; 120]; VAtom (AStr KRid false [104; 58; 120]); VAtom (APos 2)]];
     VMark [109; 49] (VSeq SList [VAtom (ABool true true); VAtom (ABool false false)]);
     VAtom (ARef [109; 49]);
     VAtom (AMedia [97; 47; 98] [1; 255]);
     VAtom (ACustomB 7 [16]); VAtom (ACustomT 7 [116; 233]);
     VAtom (AIntArr true W16 [1; 65535; 32768; 32767; 0]); VAtom (AIntArr false W64 [18446744073709551615]); VAtom (AIntArr true W8 []);
     VAtom (AUidArr [[0; 17; 34; 51; 68; 85; 102; 119; 136; 153; 170; 187; 204; 221; 238; 255]; [1; 2; 3; 4; 5; 6; 7; 8; 9; 10; 11; 12; 13; 14; 15; 16]]); VAtom (AUidArr []);
     VAtom (ABitArr [true; false; true; true; false; false; false; false; true; true]); VAtom (ABitArr []);
     VAtom (AUid [171; 205; 239; 1; 35; 69; 103; 137; 10; 176; 14; 94; 0; 255; 128; 127]);
     VMap [VPair (VAtom (AStr KStr true [107; 233; 10; 34; 8364; 128512]))
                 (VSeq SList [VAtom ANull; VAtom (AStr KRef true [104; 58; 233]); VAtom (APos 18446744073709551616); VAtom (ANeg 0);
                              VAtom (AInt (-5)); VSeq SList []; VMap []]);
           VCom true [42; 120];
           VPair (VAtom (ANeg 7)) (VMark [122] (VAtom (AStr KStr false [])))]].

Ltac wf_tac :=
  repeat match goal with
         | |- _ /\ _ => split
         | |- Forall _ _ => constructor
         | |- True => exact I
         | |- wf _ => cbn [wf awf is_value is_pair is_node seq_ok]; unfold ident_ok, scalars, data_bytes
         | |- _ <> _ => discriminate
         | |- _ = _ => first [reflexivity | vm_compute; reflexivity]
         | |- scalar _ => unfold scalar; lia
         | |- _ < _ => first [lia | vm_compute; reflexivity]
         | |- _ => lia
         end.

Lemma ex_tree_wf : Forall wf_rt ex_rts /\ wf ex_tree /\ is_value ex_tree = true.
Proof.
  split; [|split; [|reflexivity]].
  - unfold ex_rts, wf_rt, ident_ok, scalars. cbn [fst snd wf awf is_pair]. wf_tac.
  - cbn [ex_tree wf awf is_value is_pair is_node seq_ok]. unfold ident_ok, scalars, data_bytes. wf_tac.
Qed.

Lemma ex_tree_accepted : accepted (document (doc_events ex_rts ex_tree)).
Proof. vm_compute. reflexivity. Qed.

(* ------------------------------------------------------------------ *)
(** * Times: the canonical text is read back as itself

   The event carries compact_time's String(); the encoder writes the same text (checked by the
   correspondence runs of C23 and of this property); [time_text] / [tz_text] model what the listener makes
   of it.  For times of day without a sub-second part and every zone form the canonical text is a fixed
   point.  The two-digit fields and the coordinates range over finite domains: those facts are swept by
   computation (100 values, 36001 values, 1440 values) and lifted. *)

Definition fmt100 (z : Z) : bytes :=
  (if (z <? 0)%Z then [45] else []) ++ CteEnc.dec (Z.abs_N z / 100) ++ [46] ++ pad2 (Z.abs_N z mod 100).
Definition tz_latlong (la lo : Z) : bytes := 47 :: fmt100 la ++ 47 :: fmt100 lo.
Definition tz_offset (neg : bool) (m : N) : bytes := (if neg then 45 else 43) :: pad2 (m / 60) ++ pad2 (m mod 60).
Definition hms (h m s : N) : bytes := pad2 h ++ [58] ++ pad2 m ++ [58] ++ pad2 s.

Lemma pad2_sweep : forallb (fun n => bytes_eqb (pad2 n) [48 + n / 10; 48 + n mod 10]) (nseq 0 100) = true.
Proof. vm_compute. reflexivity. Qed.

Lemma pad2_two n : n < 100 -> pad2 n = [48 + n / 10; 48 + n mod 10].
Proof.
  intro H. assert (Hin : In n (nseq 0 100)) by (apply nseq_In; lia).
  apply (proj1 (forallb_forall _ _) pad2_sweep) in Hin. apply bytes_eqb_eq in Hin. exact Hin.
Qed.

Definition zrange : list Z := map (fun i => (Z.of_N i - 18000)%Z) (nseq 0 (N.to_nat 36001)).
Definition coord_chk (z : Z) : bool :=
  (coord100 (fmt100 z) =? z)%Z && forallb (fun c => negb (c =? 47)) (fmt100 z) &&
  match fmt100 z with c :: _ => is_dec c || (c =? 45) | [] => false end.

Lemma coord_sweep : forallb coord_chk zrange = true.
Proof. vm_compute. reflexivity. Qed.

Lemma coord_ok z : (-18000 <= z <= 18000)%Z -> coord_chk z = true.
Proof.
  intro H. apply (proj1 (forallb_forall _ _) coord_sweep). unfold zrange. apply in_map_iff.
  exists (Z.to_N (z + 18000)). split; [lia|]. apply nseq_In. rewrite N2Nat.id. lia.
Qed.

(* every latitude / longitude written in hundredths is read back as the same hundredths *)
Theorem tz_latlong_fixed la lo : (-9000 <= la <= 9000)%Z -> (-18000 <= lo <= 18000)%Z ->
  tz_text (tz_latlong la lo) = Some (tz_latlong la lo).
Proof.
  intros Hla Hlo.
  assert (Ca := coord_ok la ltac:(lia)). assert (Co := coord_ok lo Hlo).
  unfold coord_chk in Ca, Co. apply andb_true_iff in Ca as [Ca Ca3]. apply andb_true_iff in Ca as [Ca1 Ca2].
  apply andb_true_iff in Co as [Co Co3]. apply andb_true_iff in Co as [Co1 Co2].
  apply Z.eqb_eq in Ca1, Co1.
  unfold tz_latlong, tz_text. destruct (fmt100 la) as [|c r] eqn:Ea; [discriminate|]. cbn [app].
  rewrite Ca3.
  change (c :: r ++ 47 :: fmt100 lo) with ((c :: r) ++ 47 :: fmt100 lo).
  rewrite (span_all _ (c :: r) (47 :: fmt100 lo) Ca2 eq_refl). cbn [tl]. rewrite Ca1, Co1.
  assert (Wa : wrap16 la = la) by (unfold wrap16; rewrite Z.mod_small; lia).
  assert (Wo : wrap16 lo = lo) by (unfold wrap16; rewrite Z.mod_small; lia).
  rewrite Wa, Wo.
  replace ((lo <? -18000) || (18000 <? lo) || (la <? -9000) || (9000 <? la))%Z with false by lia.
  change (Some (47 :: fmt100 la ++ 47 :: fmt100 lo) = Some (47 :: (c :: r) ++ 47 :: fmt100 lo)). rewrite Ea. reflexivity.
Qed.

Definition offset_chk (m : N) : bool :=
  option_eqb bytes_eqb (tz_text (tz_offset false m)) (Some (tz_offset false m)) &&
  option_eqb bytes_eqb (tz_text (tz_offset true m)) (Some (tz_offset true m)).
Lemma offset_sweep : forallb offset_chk (nseq 1 (N.to_nat 1439)) = true.
Proof. vm_compute. reflexivity. Qed.

(* every UTC offset of 1 .. 1439 minutes, either sign *)
Theorem tz_offset_fixed neg m : 1 <= m <= 1439 -> tz_text (tz_offset neg m) = Some (tz_offset neg m).
Proof.
  intro H. assert (Hin : In m (nseq 1 (N.to_nat 1439))) by (apply nseq_In; rewrite N2Nat.id; lia).
  apply (proj1 (forallb_forall _ _) offset_sweep) in Hin. unfold offset_chk in Hin. apply andb_true_iff in Hin as [H1 H2].
  destruct neg; [clear H1; rename H2 into H1|clear H2];
    (destruct (tz_text (tz_offset _ m)) as [t|]; [|discriminate]; cbn [option_eqb] in H1; apply bytes_eqb_eq in H1; rewrite H1; reflexivity).
Qed.

Lemma is_dec_digit d : d < 10 -> is_dec (48 + d) = true.
Proof. unfold is_dec. lia. Qed.

Lemma dval_two a b : a < 10 -> b < 10 -> dval [48 + a; 48 + b] = a * 10 + b.
Proof.
  intros Ha Hb. unfold dval. cbn [CteLit.chars_val].
  assert (D : forall d, d < 10 -> CteLit.digit_val (48 + d) = Some d).
  { intros d Hd. unfold CteLit.digit_val, CteLit.is_dec. replace ((48 <=? 48 + d) && (48 + d <=? 57)) with true by lia. f_equal. lia. }
  rewrite !D by assumption. lia.
Qed.

(* hh:mm:ss followed by a zone text (or nothing): the time part is re-rendered as it was, the zone goes through [tz_text] *)
Lemma time_text_hms h m s T : h < 24 -> m < 60 -> s <= 60 ->
  (match T with [] => True | c :: _ => c = 47 \/ c = 43 \/ c = 45 end) ->
  time_text (hms h m s ++ T) = option_map (app (hms h m s)) (tz_text T).
Proof.
  intros Hh Hm Hs HT. unfold hms. rewrite (pad2_two h), (pad2_two m), (pad2_two s) by lia.
  set (a1 := h / 10). set (a2 := h mod 10). set (b1 := m / 10). set (b2 := m mod 10). set (c1 := s / 10). set (c2 := s mod 10).
  assert (A1 : a1 < 10) by (unfold a1; lia). assert (A2 : a2 < 10) by (unfold a2; lia).
  assert (B1 : b1 < 10) by (unfold b1; lia). assert (B2 : b2 < 10) by (unfold b2; lia).
  assert (C1 : c1 < 10) by (unfold c1; lia). assert (C2 : c2 < 10) by (unfold c2; lia).
  cbn [app]. unfold time_text.
  assert (Hspan : forall X, span is_dec ((48 + a1) :: (48 + a2) :: 58 :: X) = ([48 + a1; 48 + a2], 58 :: X)).
  { intro X. cbn [span]. rewrite !is_dec_digit by assumption. change (is_dec 58) with false. reflexivity. }
  rewrite Hspan. cbn [tl firstn skipn].
  rewrite !dval_two by assumption.
  replace (a1 * 10 + a2) with h by (unfold a1, a2; lia).
  replace (b1 * 10 + b2) with m by (unfold b1, b2; lia).
  replace (c1 * 10 + c2) with s by (unfold c1, c2; lia).
  replace ((23 <? h) || (59 <? m) || (60 <? s)) with false by lia.
  assert (Hfrac : match T with 46 :: f => let '(d, r) := span is_dec f in (d, r) | _ => (@nil N, T) end = ([], T)).
  { destruct T as [|c T']; [reflexivity|]. destruct HT as [E|[E|E]]; subst c; reflexivity. }
  rewrite Hfrac. change (dval []) with 0. cbn [N.mul N.eqb]. change (0 =? 0) with true. cbv iota.
  rewrite (pad2_two h), (pad2_two m), (pad2_two s) by lia. fold a1 a2 b1 b2 c1 c2.
  destruct (tz_text T) as [tz|]; [|reflexivity]. cbn [option_map app]. rewrite app_nil_r || idtac. reflexivity.
Qed.

(* a time of day without sub-second part, in any zone form whose text is a fixed point of [tz_text] *)
Theorem time_text_fixed h m s T : h < 24 -> m < 60 -> s <= 60 ->
  (match T with [] => True | c :: _ => c = 47 \/ c = 43 \/ c = 45 end) -> tz_text T = Some T ->
  time_text (hms h m s ++ T) = Some (hms h m s ++ T).
Proof. intros Hh Hm Hs HT Hz. rewrite time_text_hms by assumption. rewrite Hz. reflexivity. Qed.

(* ------------------------------------------------------------------ *)
(** * Identifiers the validator admits are identifiers of the fragment (C03) *)

Lemma runes_fuel_scalar : forall f s, Forall scalar (runes_fuel f s).
Proof.
  induction f as [|f IH]; intro s; [destruct s; constructor|].
  destruct s as [|b s]; [constructor|]. cbn [runes_fuel].
  destruct (decode_rune (b :: s)) as [[c n]|] eqn:E.
  - constructor; [|apply IH].
    destruct (decode_rune_inv _ _ _ E) as [Hn [Hl [_ Hf]]]. specialize (Hf []). rewrite app_nil_r in Hf.
    assert (Hlen : length (firstn n (b :: s)) = n) by (apply firstn_length_le; exact Hl).
    rewrite <- Hlen in Hf at 2. apply (decode_encode _ _ Hf).
  - constructor; [unfold scalar; lia|apply IH].
Qed.

Theorem ident_valid_ok id : Convert.ident_valid id = true -> ident_ok (runes id) /\ str_bytes (runes id) = id.
Proof.
  intro H. destruct (ConvertProofs.ident_valid_spec id H) as [Hne [Hid [Hu _]]].
  split; [|exact Hu]. split; [exact Hne|]. split; [exact Hid|apply runes_fuel_scalar].
Qed.
