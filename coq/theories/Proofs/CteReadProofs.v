(* C02 — lemmas about the CTE reader model (Model/CteRead.v) and its composition with the
   CTE encoder model (Model/CteEnc.v). *)
From CE Require Import Model.CteRead Proofs.Utf8Lemmas.
From CE Require Model.CteLit Model.CteEnc Proofs.CteLitProofs Gen.CteCharTables.
From Coq Require Import ZifyN ZifyNat ZifyBool Lia.
Open Scope N_scope.

(* ------------------------------------------------------------------ *)
(** * Interval tables: what the encoder leaves unescaped, the lexer accepts *)

(* the upper end of the interval of [iv] that contains [x] *)
Fixpoint find_hi (iv : list (N * N)) (x : N) : option N :=
  match iv with
  | [] => None
  | (lo, hi) :: rest => if x <? lo then None else if x <=? hi then Some hi else find_hi rest x
  end.

Lemma find_hi_in iv x h : find_hi iv x = Some h -> forall r, x <= r <= h -> in_iv iv r = true.
Proof.
  induction iv as [|[lo hi] rest IH]; cbn [find_hi in_iv]; [discriminate|].
  intros H r Hr.
  destruct (N.ltb_spec x lo); [discriminate|].
  destruct (N.leb_spec x hi).
  - inversion H; subst. destruct (N.ltb_spec r lo); [lia|]. destruct (N.leb_spec r h); [reflexivity|lia].
  - destruct (N.ltb_spec r lo); [lia|]. destruct (N.leb_spec r hi); [reflexivity|]. apply IH; assumption.
Qed.

(* every point of [x, hi] lies in an interval of [a] or of [b] *)
Fixpoint covered (fuel : nat) (a b : list (N * N)) (x hi : N) : bool :=
  match fuel with
  | O => false
  | S f =>
    if hi <? x then true
    else match find_hi a x with
         | Some h => covered f a b (h + 1) hi
         | None => match find_hi b x with
                   | Some h => covered f a b (h + 1) hi
                   | None => false
                   end
         end
  end.

Lemma covered_ok fuel a b : forall x hi, covered fuel a b x hi = true ->
  forall r, x <= r <= hi -> in_iv a r || in_iv b r = true.
Proof.
  induction fuel as [|f IH]; cbn [covered]; [discriminate|].
  intros x hi H r Hr.
  destruct (N.ltb_spec hi x); [lia|].
  destruct (find_hi a x) as [h|] eqn:Ea.
  - destruct (N.le_gt_cases r h).
    + rewrite (find_hi_in _ _ _ Ea) by lia. reflexivity.
    + apply (IH _ _ H). lia.
  - destruct (find_hi b x) as [h|] eqn:Eb; [|discriminate].
    destruct (N.le_gt_cases r h).
    + rewrite (find_hi_in _ _ _ Eb r) by lia. apply orb_true_r.
    + apply (IH _ _ H). lia.
Qed.

Lemma in_iv_enc iv r : CteEnc.in_intervals iv r = in_iv iv r.
Proof. induction iv as [|[lo hi] rest IH]; cbn; [reflexivity|]. rewrite IH. reflexivity. Qed.

Definition scalar (r : N) : Prop := r < 55296 \/ (57344 <= r /\ r < 1114112).

Lemma scalar_valid r : scalar r <-> CteLit.valid_scalar r = true.
Proof. unfold scalar, CteLit.valid_scalar. lia. Qed.

(* every Unicode scalar value is escaped by the encoder or accepted by the lexer inside a string *)
Lemma safe_or_quoted_lo : covered 3000 CteCharTables.string_unsafe_intervals cte_quoted_intervals 0 55295 = true.
Proof. vm_compute. reflexivity. Qed.
Lemma safe_or_quoted_hi : covered 3000 CteCharTables.string_unsafe_intervals cte_quoted_intervals 57344 1114111 = true.
Proof. vm_compute. reflexivity. Qed.

Lemma safe_is_quoted r : scalar r -> CteEnc.rune_safe r = true -> ch_quoted r = true /\ r <> 34 /\ r <> 92.
Proof.
  intros Hs Hsafe. unfold CteEnc.rune_safe in Hsafe. rewrite in_iv_enc in Hsafe.
  assert (Hc : in_iv CteCharTables.string_unsafe_intervals r || in_iv cte_quoted_intervals r = true).
  { destruct Hs as [Hs|Hs].
    - apply (covered_ok _ _ _ _ _ safe_or_quoted_lo). lia.
    - apply (covered_ok _ _ _ _ _ safe_or_quoted_hi). lia. }
  apply negb_true_iff in Hsafe. rewrite Hsafe in Hc. cbn [orb] in Hc.
  split; [exact Hc|].
  split; intro E; subst r; vm_compute in Hsafe; discriminate.
Qed.

(* ------------------------------------------------------------------ *)
(** * Digits *)

Lemma digit_val_digit_char d : d < 36 -> CteLit.digit_val (CteEnc.digit_char d) = Some d.
Proof.
  intro H. unfold CteLit.digit_val, CteEnc.digit_char, CteLit.is_dec, CteLit.lower.
  destruct (N.ltb_spec d 10).
  - replace ((48 <=? 48 + d) && (48 + d <=? 57)) with true by lia. f_equal. lia.
  - replace ((48 <=? 87 + d) && (87 + d <=? 57)) with false by lia.
    replace ((65 <=? 87 + d) && (87 + d <=? 90)) with false by lia.
    replace ((97 <=? 87 + d) && (87 + d <=? 122)) with true by lia. f_equal. lia.
Qed.

Lemma to_digits_aux_val base : 2 <= base -> base <= 36 ->
  forall fuel n acc, n < base ^ N.of_nat fuel ->
    CteLit.chars_val base (CteEnc.to_digits_aux fuel base n acc) 0 = CteLit.chars_val base acc n.
Proof.
  intros Hb1 Hb2. induction fuel as [|f IH]; intros n acc Hn.
  - cbn [CteEnc.to_digits_aux]. change (N.of_nat 0) with 0 in Hn. rewrite N.pow_0_r in Hn.
    replace n with 0 by lia. reflexivity.
  - cbn [CteEnc.to_digits_aux].
    assert (Hmod : n mod base < base) by (apply N.mod_lt; lia).
    assert (Hdm : n = base * (n / base) + n mod base) by (apply N.div_mod; lia).
    destruct (N.eqb_spec (n / base) 0) as [Hq|Hq].
    + cbn [CteLit.chars_val]. rewrite digit_val_digit_char by lia.
      f_equal. rewrite Hq in Hdm. lia.
    + rewrite IH.
      * cbn [CteLit.chars_val]. rewrite digit_val_digit_char by lia. f_equal. lia.
      * rewrite Nat2N.inj_succ, N.pow_succ_r' in Hn. apply N.div_lt_upper_bound; lia.
Qed.

Lemma lt_pow_size base n : 2 <= base -> n < base ^ N.of_nat (S (N.to_nat (N.size n))).
Proof.
  intro Hb. rewrite Nat2N.inj_succ, N2Nat.id.
  apply N.lt_le_trans with (2 ^ N.size n); [apply N.size_gt|].
  apply N.le_trans with (base ^ N.size n).
  - apply N.pow_le_mono_l. exact Hb.
  - apply N.pow_le_mono_r; lia.
Qed.

Lemma to_digits_val base n : 2 <= base -> base <= 36 -> CteLit.chars_val base (CteEnc.to_digits base n) 0 = n.
Proof.
  intros. unfold CteEnc.to_digits. rewrite to_digits_aux_val by (try assumption; apply lt_pow_size; assumption).
  reflexivity.
Qed.

(* the characters of a number are digit characters below the base *)
Definition digit_below (base c : N) : Prop := exists d, d < base /\ c = CteEnc.digit_char d.

Lemma to_digits_aux_chars base : 2 <= base ->
  forall fuel n acc, Forall (digit_below base) acc -> Forall (digit_below base) (CteEnc.to_digits_aux fuel base n acc).
Proof.
  intros Hb. induction fuel as [|f IH]; intros n acc Hacc; cbn [CteEnc.to_digits_aux]; [exact Hacc|].
  assert (Hc : Forall (digit_below base) (CteEnc.digit_char (n mod base) :: acc)).
  { constructor; [|exact Hacc]. exists (n mod base). split; [apply N.mod_lt; lia|reflexivity]. }
  destruct (n / base =? 0); [exact Hc|apply IH; exact Hc].
Qed.
Lemma to_digits_chars base n : 2 <= base -> Forall (digit_below base) (CteEnc.to_digits base n).
Proof. intro. apply to_digits_aux_chars; [assumption|constructor]. Qed.

Lemma to_digits_aux_nonempty fuel base n acc : CteEnc.to_digits_aux (S fuel) base n acc <> [].
Proof.
  revert n acc; induction fuel as [|f IH]; intros n acc; cbn [CteEnc.to_digits_aux].
  - destruct (n / base =? 0); discriminate.
  - destruct (n / base =? 0); [discriminate|]. apply (IH (n / base)).
Qed.
Lemma to_digits_nonempty base n : CteEnc.to_digits base n <> [].
Proof. apply to_digits_aux_nonempty. Qed.

(* the leading digit of a non-zero number is not '0' *)
Lemma to_digits_aux_head base : 2 <= base ->
  forall fuel n acc, n <> 0 -> n < base ^ N.of_nat fuel ->
    exists d r, CteEnc.to_digits_aux fuel base n acc = CteEnc.digit_char d :: r /\ d <> 0 /\ d < base.
Proof.
  intros Hb1. induction fuel as [|f IH]; intros n acc Hn0 Hn.
  - change (N.of_nat 0) with 0 in Hn. rewrite N.pow_0_r in Hn. lia.
  - cbn [CteEnc.to_digits_aux].
    assert (Hmod : n mod base < base) by (apply N.mod_lt; lia).
    assert (Hdm : n = base * (n / base) + n mod base) by (apply N.div_mod; lia).
    destruct (N.eqb_spec (n / base) 0) as [Hq|Hq].
    + exists (n mod base), acc. split; [reflexivity|]. rewrite Hq in Hdm. split; lia.
    + apply IH; [exact Hq|]. rewrite Nat2N.inj_succ, N.pow_succ_r' in Hn.
      apply N.div_lt_upper_bound; lia.
Qed.
Lemma to_digits_head base n : 2 <= base -> n <> 0 ->
  exists d r, CteEnc.to_digits base n = CteEnc.digit_char d :: r /\ d <> 0 /\ d < base.
Proof. intros. apply to_digits_aux_head; try assumption. apply lt_pow_size; assumption. Qed.

Lemma to_digits_0 base : CteEnc.to_digits base 0 = [48].
Proof.
  unfold CteEnc.to_digits. change (N.size 0) with 0. cbn [N.to_nat CteEnc.to_digits_aux].
  destruct base as [|p]; reflexivity.
Qed.

Lemma digit_below_hex c : digit_below 16 c -> is_hex c = true /\ CteLit.is_hex c = true /\ c <> 95 /\ c <> 93.
Proof.
  intros [d [Hd ->]]. unfold CteEnc.digit_char.
  destruct (N.ltb_spec d 10).
  - assert (E1 : is_dec (48 + d) = true) by (unfold is_dec; lia).
    assert (E2 : CteLit.is_dec (48 + d) = true) by (unfold CteLit.is_dec; lia).
    unfold is_hex, CteLit.is_hex. rewrite E1, E2. cbn [orb]. repeat split; lia.
  - assert (L1 : lower (87 + d) = 87 + d).
    { unfold lower. replace ((65 <=? 87 + d) && (87 + d <=? 90)) with false by lia. reflexivity. }
    assert (L2 : CteLit.lower (87 + d) = 87 + d).
    { unfold CteLit.lower. replace ((65 <=? 87 + d) && (87 + d <=? 90)) with false by lia. reflexivity. }
    unfold is_hex, CteLit.is_hex, CteLit.is_hexletter. rewrite L1, L2.
    replace ((97 <=? 87 + d) && (87 + d <=? 102)) with true by lia.
    rewrite !orb_true_r. repeat split; lia.
Qed.

Lemma digit_below_dec c : digit_below 10 c -> is_dec c = true /\ CteLit.is_dec c = true /\ 48 <= c <= 57.
Proof.
  intros [d [Hd ->]]. unfold CteEnc.digit_char, is_dec, CteLit.is_dec.
  destruct (N.ltb_spec d 10); lia.
Qed.

Lemma span_all p (a : inp) b :
  forallb p a = true -> (match b with c :: _ => p c = false | [] => True end) -> span p (a ++ b) = (a, b).
Proof.
  intros Ha Hb. induction a as [|c a IH]; cbn [app].
  - destruct b as [|c b]; cbn [span]; [reflexivity|]. rewrite Hb. reflexivity.
  - cbn [forallb] in Ha. apply andb_true_iff in Ha as [Hc Ha]. cbn [span]. rewrite Hc, (IH Ha). reflexivity.
Qed.

(* ------------------------------------------------------------------ *)
(** * Strings: reading what the encoder's escaping decision writes *)

(* the characters WriteQuotedString puts between the quotes, as code points *)
Definition qrune (r : N) : inp := if CteEnc.rune_safe r then [r] else CteEnc.escape_rune r.
Definition qbody (rs : list N) : inp := flat_map qrune rs.

Lemma hex_escape_reads r f idx rest acc : r < 2 ^ 32 ->
  lex_str (S f) idx (92 :: 91 :: CteEnc.to_digits 16 r ++ 93 :: rest) acc =
  lex_str f idx rest (acc ++ CteLit.utf8_enc r).
Proof.
  intro Hr.
  assert (Hch := to_digits_chars 16 r ltac:(lia)).
  assert (Hne := to_digits_nonempty 16 r).
  assert (Hv : CteLit.hex_val (CteEnc.to_digits 16 r) = r) by (apply to_digits_val; lia).
  set (ds := CteEnc.to_digits 16 r) in *. clearbody ds.
  assert (Hall : forallb is_hex ds = true).
  { apply forallb_forall. intros c Hc. rewrite Forall_forall in Hch. apply digit_below_hex, Hch, Hc. }
  assert (Hall2 : forallb CteLit.is_hex ds = true).
  { apply forallb_forall. intros c Hc. rewrite Forall_forall in Hch. apply digit_below_hex, Hch, Hc. }
  cbn [lex_str]. change (92 =? 34) with false. change (92 =? 92) with true.
  change (91 =? 46) with false. change (91 =? 91) with true. cbv iota.
  rewrite (span_all is_hex ds (93 :: rest) Hall) by reflexivity.
  rewrite (CteLitProofs.codepoint_exact ds Hne Hall2) by (rewrite Hv; exact Hr).
  rewrite Hv. destruct ds as [|c0 cs]; [congruence|]. reflexivity.
Qed.

Lemma qrune_reads r f idx rest acc : scalar r ->
  lex_str (S f) idx (qrune r ++ rest) acc = lex_str f idx rest (acc ++ CteLit.utf8_enc r).
Proof.
  intro Hs. unfold qrune. destruct (CteEnc.rune_safe r) eqn:Esafe.
  - destruct (safe_is_quoted r Hs Esafe) as [Hq [H34 H92]].
    cbn [app lex_str]. apply N.eqb_neq in H34, H92. rewrite H34, H92, Hq. reflexivity.
  - unfold CteEnc.escape_rune.
    destruct (N.eqb_spec r 9); [subst; reflexivity|].
    destruct (N.eqb_spec r 13); [subst; reflexivity|].
    destruct (N.eqb_spec r 10); [subst; reflexivity|].
    destruct (N.eqb_spec r 34); [subst; reflexivity|].
    destruct (N.eqb_spec r 42); [subst; reflexivity|].
    destruct (N.eqb_spec r 47); [subst; reflexivity|].
    destruct (N.eqb_spec r 92); [subst; reflexivity|].
    cbn [app]. rewrite <- app_assoc. cbn [app]. apply hex_escape_reads. unfold scalar in Hs. lia.
Qed.

Lemma qrune_length r : (1 <= length (qrune r))%nat.
Proof.
  unfold qrune. destruct (CteEnc.rune_safe r); [cbn; lia|]. unfold CteEnc.escape_rune.
  repeat match goal with |- context [if ?b then _ else _] => destruct b; [cbn; lia|] end.
  cbn [app length]. lia.
Qed.

(* unescape (escape s) = s: the reader applied to the encoder's rendering of the code points [rs],
   followed by the closing quote, returns their UTF-8 text and leaves the lexer state untouched *)
Theorem lex_str_qbody rs : Forall scalar rs ->
  forall fuel idx rest acc, (length rs < fuel)%nat ->
    lex_str fuel idx (qbody rs ++ 34 :: rest) acc = Some (acc ++ CteLit.utf8_str rs, rest, idx).
Proof.
  induction 1 as [|r rs Hr Hrs IH]; intros fuel idx rest acc Hf.
  - destruct fuel as [|f]; [cbn in Hf; lia|]. cbn. rewrite app_nil_r. reflexivity.
  - destruct fuel as [|f]; [cbn in Hf; lia|].
    unfold qbody. cbn [flat_map]. rewrite <- app_assoc. rewrite qrune_reads by exact Hr.
    fold (qbody rs). rewrite IH by (cbn [length] in Hf; lia).
    unfold CteLit.utf8_str. cbn [flat_map]. rewrite app_assoc. reflexivity.
Qed.

(* ------------------------------------------------------------------ *)
(** * Code points of a text *)

Lemma runes_fuel_irrel : forall f1 f2 s, (length s <= f1)%nat -> (length s <= f2)%nat -> runes_fuel f1 s = runes_fuel f2 s.
Proof.
  induction f1 as [|f1 IH]; intros f2 s H1 H2.
  - destruct s; [destruct f2; reflexivity | cbn in H1; lia].
  - destruct s as [|b s]; [destruct f2; reflexivity|].
    destruct f2 as [|f2]; [cbn in H2; lia|].
    cbn [runes_fuel]. destruct (decode_rune (b :: s)) as [[c n]|] eqn:E.
    + f_equal. destruct (decode_rune_inv _ _ _ E) as [Hn _].
      assert (length (skipn n (b :: s)) <= length s)%nat.
      { rewrite skipn_length. cbn [length]. lia. }
      cbn [length] in H1, H2. apply IH; lia.
    + f_equal. cbn [skipn]. cbn [length] in H1, H2. apply IH; lia.
Qed.

Lemma runes_decode s c n : decode_rune s = Some (c, n) -> runes s = c :: runes (skipn n s).
Proof.
  intro E. unfold runes. destruct s as [|b s]; [discriminate|].
  cbn [length runes_fuel]. rewrite E. f_equal.
  destruct (decode_rune_inv _ _ _ E) as [Hn _].
  apply runes_fuel_irrel; rewrite skipn_length; cbn [length]; lia.
Qed.

Lemma runes_ascii_cons b s : b < 128 -> runes (b :: s) = b :: runes s.
Proof.
  intro H. rewrite (runes_decode (b :: s) b 1); [reflexivity|].
  unfold decode_rune. replace (b <? 128) with true by lia. reflexivity.
Qed.

Definition ascii (a : bytes) : Prop := Forall (fun b => b < 128) a.

Lemma runes_ascii_app a s : ascii a -> runes (a ++ s) = a ++ runes s.
Proof.
  induction 1 as [|b a Hb Ha IH]; [reflexivity|]. cbn [app]. rewrite runes_ascii_cons by exact Hb. rewrite IH. reflexivity.
Qed.

Lemma runes_enc_app v s : scalar v -> runes (CteLit.utf8_enc v ++ s) = v :: runes s.
Proof.
  intro Hv. apply scalar_valid in Hv.
  rewrite (runes_decode _ _ _ (CteLitProofs.utf8_enc_decode v s Hv)).
  rewrite skipn_length_app. reflexivity.
Qed.

Lemma runes_utf8_str_app rs s : Forall scalar rs -> runes (CteLit.utf8_str rs ++ s) = rs ++ runes s.
Proof.
  induction 1 as [|r rs Hr Hrs IH]; [reflexivity|].
  unfold CteLit.utf8_str. cbn [flat_map]. rewrite <- app_assoc, runes_enc_app by exact Hr.
  fold (CteLit.utf8_str rs). rewrite IH. reflexivity.
Qed.

Lemma runes_nil : runes [] = [].
Proof. reflexivity. Qed.

Lemma encode_rune_enc r : scalar r -> CteEnc.encode_rune r = CteLit.utf8_enc r.
Proof.
  intro H. unfold CteEnc.encode_rune, CteLit.utf8_enc, scalar in *.
  destruct (r <? 128); [reflexivity|]. destruct (r <? 2048); [reflexivity|].
  replace ((55296 <=? r) && (r <=? 57343) || (1114111 <? r)) with false by lia. reflexivity.
Qed.

Lemma digit_char_ascii d : d < 36 -> CteEnc.digit_char d < 128.
Proof. unfold CteEnc.digit_char. destruct (N.ltb_spec d 10); lia. Qed.

Lemma to_digits_ascii base n : 2 <= base -> base <= 36 -> ascii (CteEnc.to_digits base n).
Proof.
  intros H1 H2. eapply Forall_impl; [|apply to_digits_chars; exact H1].
  intros c [d [Hd ->]]. apply digit_char_ascii. lia.
Qed.

Lemma escape_rune_ascii r : ascii (CteEnc.escape_rune r).
Proof.
  unfold CteEnc.escape_rune, ascii.
  repeat match goal with |- context [if ?b then _ else _] => destruct b; [repeat constructor; lia|] end.
  cbn [app]. constructor; [lia|]. constructor; [lia|]. apply Forall_app. split.
  - apply to_digits_ascii; lia.
  - repeat constructor; lia.
Qed.

(* the bytes WriteQuotedString puts between the quotes *)
Definition qbytes (rs : list N) : bytes :=
  flat_map (fun r => if CteEnc.rune_safe r then CteEnc.encode_rune r else CteEnc.escape_rune r) rs.

Lemma runes_qbytes_app rs s : Forall scalar rs -> runes (qbytes rs ++ s) = qbody rs ++ runes s.
Proof.
  induction 1 as [|r rs Hr Hrs IH]; [reflexivity|].
  unfold qbytes, qbody. cbn [flat_map]. rewrite <- !app_assoc. fold (qbytes rs) (qbody rs).
  unfold qrune. destruct (CteEnc.rune_safe r).
  - rewrite encode_rune_enc, runes_enc_app by exact Hr. rewrite IH. reflexivity.
  - rewrite runes_ascii_app by apply escape_rune_ascii. rewrite IH. reflexivity.
Qed.

(* ------------------------------------------------------------------ *)
(** * Scalar tokens *)

(* what follows a keyword or number: the end of the text or white space *)
Definition wsd (rest : inp) : Prop := match rest with [] => True | c :: _ => is_ws c = true end.

Lemma ws_cases c : is_ws c = true -> c = 32 \/ c = 9 \/ c = 10 \/ c = 13.
Proof. unfold is_ws. lia. Qed.

Lemma word_null rest : word_token (110 :: 117 :: 108 :: 108 :: rest) = Some (TVal ENull, rest).
Proof. reflexivity. Qed.
Lemma word_true rest : word_token (116 :: 114 :: 117 :: 101 :: rest) = Some (TVal (EBool true), rest).
Proof. reflexivity. Qed.
Lemma word_false rest : word_token (102 :: 97 :: 108 :: 115 :: 101 :: rest) = Some (TVal (EBool false), rest).
Proof. reflexivity. Qed.

(* digits followed by a delimiter *)
Definition dws (s rest : inp) : Prop := wsd rest /\ exists ds, forallb is_dec ds = true /\ s = ds ++ rest.

Lemma dec_facts c : is_dec c = true -> 48 <= c <= 57.
Proof. unfold is_dec. lia. Qed.
Lemma dec_lower c : is_dec c = true -> lower c = c.
Proof. intro H. apply dec_facts in H. unfold lower. replace ((65 <=? c) && (c <=? 90)) with false by lia. reflexivity. Qed.
Lemma ws_lower c : is_ws c = true -> lower c = c.
Proof. intro H. apply ws_cases in H. unfold lower. replace ((65 <=? c) && (c <=? 90)) with false by lia. reflexivity. Qed.
Lemma dec_hex c : is_dec c = true -> is_hex c = true.
Proof. intro H. unfold is_hex. rewrite H. reflexivity. Qed.
Lemma ws_not_hex c : is_ws c = true -> is_hex c = false.
Proof. intro H. unfold is_hex, is_dec. rewrite (ws_lower c H). apply ws_cases in H. lia. Qed.
Lemma ws_not_dec c : is_ws c = true -> is_dec c = false.
Proof. intro H. apply ws_cases in H. unfold is_dec. lia. Qed.

Lemma dws_refl rest : wsd rest -> dws rest rest.
Proof. intro H. split; [exact H|]. exists []. split; reflexivity. Qed.

Lemma dws_cons c s rest : is_dec c = true -> dws s rest -> dws (c :: s) rest.
Proof. intros Hc [Hw [ds [Hds ->]]]. split; [exact Hw|]. exists (c :: ds). cbn [forallb]. rewrite Hc, Hds. split; reflexivity. Qed.

Lemma dws_tail c s rest : dws (c :: s) rest -> is_dec c = true -> dws s rest.
Proof.
  intros [Hw [ds [Hds E]]] Hc. split; [exact Hw|]. destruct ds as [|d ds].
  - cbn [app] in E. subst rest. cbn [wsd] in Hw. rewrite (ws_not_dec c Hw) in Hc. discriminate.
  - cbn [app] in E. inversion E; subst. cbn [forallb] in Hds. apply andb_true_iff in Hds as [_ Hds].
    exists ds. split; [exact Hds|reflexivity].
Qed.

(* the head of such a text is a digit or white space, or the text is empty *)
Lemma dws_head s rest : dws s rest ->
  match s with [] => True | c :: _ => is_dec c = true \/ is_ws c = true end.
Proof.
  intros [Hw [ds [Hds ->]]]. destruct ds as [|d ds]; cbn [app].
  - destruct rest; [exact I|]. right. exact Hw.
  - cbn [forallb] in Hds. apply andb_true_iff in Hds as [Hd _]. left. exact Hd.
Qed.

Lemma dm_dws s rest : dws s rest -> dm is_dec s = rest.
Proof.
  intros [Hw [ds [Hds ->]]]. induction ds as [|c ds IH]; cbn [app].
  - destruct rest as [|c r]; [reflexivity|]. cbn [dm]. cbn [wsd] in Hw. rewrite (ws_not_dec c Hw).
    apply ws_cases in Hw. replace (c =? 95) with false by lia. reflexivity.
  - cbn [forallb] in Hds. apply andb_true_iff in Hds as [Hc Hds]. cbn [dm]. rewrite Hc. apply IH, Hds.
Qed.

Lemma m_char_dws p s rest : dws s rest ->
  (forall c, is_dec c = true \/ is_ws c = true -> p c = false) -> m_char p s = None.
Proof.
  intros Hd Hp. apply dws_head in Hd. destruct s as [|c s]; [reflexivity|]. cbn [m_char]. rewrite (Hp c Hd). reflexivity.
Qed.

Lemma m_lit_dws x s rest : dws s rest -> (x < 48 \/ 57 < x) -> x <> 32 -> x <> 9 -> x <> 10 -> x <> 13 ->
  m_lit x s = None.
Proof.
  intros Hd Hx H1 H2 H3 H4. apply (m_char_dws _ s rest Hd).
  intros c [Hc|Hc]; [apply dec_facts in Hc | apply ws_cases in Hc]; lia.
Qed.

(* the second character of such a text is not one of the base letters *)
Lemma m_prefixed_dws letter isd s rest : dws s rest -> 97 <= letter -> m_prefixed letter isd s = None.
Proof.
  intros Hd Hl. unfold m_prefixed. destruct s as [|z s]; [reflexivity|]. destruct s as [|c s]; [reflexivity|].
  destruct (z =? 48) eqn:Ez; [|reflexivity]. cbn [andb].
  assert (Hz : is_dec z = true) by (apply N.eqb_eq in Ez; subst; reflexivity).
  apply dws_tail in Hd; [|exact Hz]. apply dws_head in Hd.
  replace (lower c =? letter) with false; [reflexivity|].
  symmetry. apply N.eqb_neq. destruct Hd as [Hc|Hc].
  - rewrite (dec_lower c Hc). apply dec_facts in Hc. lia.
  - rewrite (ws_lower c Hc). apply ws_cases in Hc. lia.
Qed.

Lemma m_upto_dws k : forall s rest, dws s rest -> dws (m_upto k is_dec s) rest.
Proof.
  induction k as [|k IH]; intros s rest Hd; cbn [m_upto]; [exact Hd|].
  destruct s as [|c s]; [exact Hd|]. cbn [m_char]. destruct (is_dec c) eqn:Ec; [|exact Hd].
  apply IH. apply (dws_tail c); assumption.
Qed.

Lemma m_n_hex_dws k : forall s rest, dws s rest -> match m_n k is_hex s with Some s' => dws s' rest | None => True end.
Proof.
  induction k as [|k IH]; intros s rest Hd; cbn [m_n]; [exact Hd|].
  destruct s as [|c s]; [exact I|]. cbn [m_char].
  destruct (dws_head _ _ Hd) as [Hc|Hc].
  - rewrite (dec_hex c Hc). cbn [obind]. apply IH. apply (dws_tail c); assumption.
  - rewrite (ws_not_hex c Hc). exact I.
Qed.

Lemma m_float_tail_dws isd letter rest : wsd rest -> letter = 101 \/ letter = 112 -> m_float_tail isd letter true rest = None.
Proof.
  intros Hw Hl. unfold m_float_tail, m_frac, m_exp. destruct rest as [|c r]; [reflexivity|].
  cbn [wsd] in Hw. rewrite (ws_lower c Hw). apply ws_cases in Hw.
  replace (c =? 46) with false by lia. replace (c =? letter) with false by lia. reflexivity.
Qed.

(* a run of decimal digits followed by a delimiter is a decimal integer token *)
Lemma candidates_digits d ds rest : is_dec d = true -> dws ds rest ->
  best_match (word_candidates (d :: ds)) None = Some (WInt, rest).
Proof.
  intros Hd Hds.
  assert (Hall : dws (d :: ds) rest) by (apply dws_cons; assumption).
  assert (Hdf := dec_facts d Hd). assert (Hlow := dec_lower d Hd).
  assert (Hneg : m_neg (d :: ds) = d :: ds).
  { unfold m_neg, m_opt, m_lit. cbn [m_char]. replace (45 =? d) with false by lia. reflexivity. }
  assert (Hdig : m_digits is_dec (d :: ds) = Some rest).
  { cbn [m_digits]. rewrite Hd. f_equal. apply dm_dws, Hds. }
  unfold word_candidates.
  assert (W : forall x w, (x < 48 \/ 57 < x) -> m_word (x :: w) (d :: ds) = None).
  { intros x w Hx. cbn [m_word]. rewrite Hlow. replace (d =? x) with false by lia. reflexivity. }
  rewrite !W by lia.
  assert (Hint : m_int (d :: ds) = Some rest).
  { unfold m_int. rewrite Hneg. rewrite !(m_prefixed_dws _ _ _ rest Hall) by lia. exact Hdig. }
  rewrite Hint.
  assert (Hfd : m_float_dec true (d :: ds) = None).
  { unfold m_float_dec. rewrite Hneg, Hdig. cbn [obind]. apply m_float_tail_dws; [apply Hds|left; reflexivity]. }
  rewrite Hfd.
  assert (Hfh : m_float_hex true (d :: ds) = None).
  { unfold m_float_hex. rewrite Hneg. rewrite (m_prefixed_dws _ _ _ rest Hall) by lia. reflexivity. }
  rewrite Hfh.
  assert (Hdate : m_date (d :: ds) = None).
  { unfold m_date. rewrite Hneg, Hdig. cbn [obind].
    rewrite (m_lit_dws 45 rest rest) by (try lia; apply dws_refl, Hds). reflexivity. }
  rewrite Hdate.
  assert (Htime : m_time (d :: ds) = None).
  { unfold m_time, m_1to. cbn [m_char]. rewrite Hd. cbn [obind].
    rewrite (m_lit_dws 58 _ rest) by (try lia; apply m_upto_dws, Hds). reflexivity. }
  rewrite Htime.
  assert (Huid : m_uid (d :: ds) = None).
  { unfold m_uid. assert (H8 := m_n_hex_dws 8 _ _ Hall).
    destruct (m_n 8 is_hex (d :: ds)) as [s'|]; [|reflexivity]. cbn [obind].
    rewrite (m_lit_dws 45 s' rest) by (try lia; exact H8). reflexivity. }
  rewrite Huid. reflexivity.
Qed.

Lemma consumed_app (a b : inp) : consumed (a ++ b) b = a.
Proof. unfold consumed. rewrite app_length. replace (length a + length b - length b)%nat with (length a) by lia. apply firstn_length_app. Qed.

Lemma candidates_neg_digits d ds rest : is_dec d = true -> dws ds rest ->
  best_match (word_candidates (45 :: d :: ds)) None = Some (WInt, rest).
Proof.
  intros Hd Hds.
  assert (Hall : dws (d :: ds) rest) by (apply dws_cons; assumption).
  assert (Hdf := dec_facts d Hd). assert (Hlow := dec_lower d Hd).
  assert (Hneg : m_neg (45 :: d :: ds) = d :: ds) by reflexivity.
  assert (Hdig : m_digits is_dec (d :: ds) = Some rest).
  { cbn [m_digits]. rewrite Hd. f_equal. apply dm_dws, Hds. }
  unfold word_candidates.
  assert (W : forall x w, x <> 45 -> m_word (x :: w) (45 :: d :: ds) = None).
  { intros x w Hx. cbn [m_word]. change (lower 45) with 45. replace (45 =? x) with false by lia. reflexivity. }
  rewrite !W by lia.
  assert (Wn : m_word [45; 105; 110; 102] (45 :: d :: ds) = None).
  { cbn [m_word]. change (lower 45 =? 45) with true. cbv iota. rewrite Hlow. replace (d =? 105) with false by lia. reflexivity. }
  rewrite Wn.
  assert (Hint : m_int (45 :: d :: ds) = Some rest).
  { unfold m_int. rewrite Hneg. rewrite !(m_prefixed_dws _ _ _ rest Hall) by lia. exact Hdig. }
  rewrite Hint.
  assert (Hfd : m_float_dec true (45 :: d :: ds) = None).
  { unfold m_float_dec. rewrite Hneg, Hdig. cbn [obind]. apply m_float_tail_dws; [apply Hds|left; reflexivity]. }
  rewrite Hfd.
  assert (Hfh : m_float_hex true (45 :: d :: ds) = None).
  { unfold m_float_hex. rewrite Hneg. rewrite (m_prefixed_dws _ _ _ rest Hall) by lia. reflexivity. }
  rewrite Hfh.
  assert (Hdate : m_date (45 :: d :: ds) = None).
  { unfold m_date. rewrite Hneg, Hdig. cbn [obind].
    rewrite (m_lit_dws 45 rest rest) by (try lia; apply dws_refl, Hds). reflexivity. }
  rewrite Hdate. reflexivity.
Qed.

(* ---- the value of a decimal spelling ---- *)

Definition dec_lit (neg : bool) (c0 : N) (cs : bytes) : CteLit.int_lit :=
  {| CteLit.i_neg := neg; CteLit.i_base := CteLit.B10; CteLit.i_upper := false;
     CteLit.i_digits := {| CteLit.d_first := c0; CteLit.d_rest := map (fun c => (O, c)) cs |} |}.

Lemma render_plain cs : flat_map (fun p : nat * N => repeat CteLit.c_us (fst p) ++ [snd p]) (map (fun c => (O, c)) cs) = cs.
Proof. induction cs as [|c cs IH]; [reflexivity|]. cbn [map flat_map fst snd repeat app]. rewrite IH. reflexivity. Qed.

Lemma map_snd_plain (cs : bytes) : map snd (map (fun c => (O, c)) cs) = cs.
Proof. induction cs as [|c cs IH]; [reflexivity|]. cbn [map snd]. rewrite IH. reflexivity. Qed.

Lemma render_dec_lit (neg : bool) c0 cs : CteLit.render_int (dec_lit neg c0 cs) = (if neg then [45] else []) ++ c0 :: cs.
Proof.
  unfold CteLit.render_int, dec_lit, CteLit.render_dseq, CteLit.sign_chars, CteLit.prefix_chars.
  cbn [CteLit.i_neg CteLit.i_base CteLit.i_upper CteLit.i_digits CteLit.d_first CteLit.d_rest app]. rewrite render_plain. destruct neg; reflexivity.
Qed.

(* what the reader reports for the decimal spelling of (-)n *)
Definition rd_int (neg : bool) (n : N) : event :=
  if (n =? 0) && neg then ENegInt 0
  else let v := if neg then (- Z.of_N n)%Z else Z.of_N n in
       if ((- 2 ^ 63 <=? v) && (v <? 2 ^ 63))%Z then EInt v else EBigInt (Some v).

Lemma impl_int_dec (neg : bool) (n : N) :
  CteLit.impl_int ((if neg then [45] else []) ++ CteEnc.dec n) = Ok (CteLit.spec_int (dec_lit neg (hd 0 (CteEnc.dec n)) (tl (CteEnc.dec n)))) /\
  lit_event (CteLit.spec_int (dec_lit neg (hd 0 (CteEnc.dec n)) (tl (CteEnc.dec n)))) = rd_int neg n.
Proof.
  unfold CteEnc.dec.
  assert (Hne := to_digits_nonempty 10 n).
  assert (Hch := to_digits_chars 10 n ltac:(lia)).
  assert (Hv := to_digits_val 10 n ltac:(lia) ltac:(lia)).
  assert (Hhead : n <> 0 -> exists d r, CteEnc.to_digits 10 n = CteEnc.digit_char d :: r /\ d <> 0 /\ d < 10)
    by (intro; apply to_digits_head; [lia|assumption]).
  assert (H0 : n = 0 -> CteEnc.to_digits 10 n = [48]) by (intro; subst; apply to_digits_0).
  set (ds := CteEnc.to_digits 10 n) in *. clearbody ds.
  destruct ds as [|c0 cs]; [congruence|]. cbn [hd tl].
  assert (Hok : CteLit.int_lit_ok (dec_lit neg c0 cs) = true).
  { unfold CteLit.int_lit_ok, CteLit.dseq_ok, CteLit.dseq_chars, dec_lit.
    cbn [CteLit.i_base CteLit.i_digits CteLit.d_first CteLit.d_rest]. rewrite map_snd_plain.
    apply forallb_forall. intros c Hc. rewrite Forall_forall in Hch. cbn [CteLit.digit_ok]. apply digit_below_dec, Hch, Hc. }
  assert (Hlz : CteLit.leading_zero_dec (dec_lit neg c0 cs) = false).
  { unfold CteLit.leading_zero_dec, dec_lit. cbn [CteLit.i_base CteLit.i_digits CteLit.d_first CteLit.d_rest].
    destruct (N.eq_dec n 0) as [E|E].
    - specialize (H0 E). inversion H0; subst. reflexivity.
    - destruct (Hhead E) as [d [r [Ed [Hd0 Hd]]]]. inversion Ed; subst.
      unfold CteEnc.digit_char. replace (d <? 10) with true by lia. replace (48 + d =? 48) with false by lia. reflexivity. }
  split.
  - rewrite <- render_dec_lit. apply CteLitProofs.int_literal_exact; assumption.
  - assert (Hmag : CteLit.int_mag (dec_lit neg c0 cs) = n).
    { unfold CteLit.int_mag, CteLit.dseq_val, CteLit.dseq_chars, dec_lit.
      cbn [CteLit.i_base CteLit.i_digits CteLit.d_first CteLit.d_rest CteLit.ibase_n]. rewrite map_snd_plain. exact Hv. }
    unfold CteLit.spec_int, CteLit.int_value, rd_int. rewrite Hmag.
    change (CteLit.i_neg (dec_lit neg c0 cs)) with neg.
    destruct neg.
    + destruct (N.eqb_spec n 0) as [E|E].
      * rewrite E. reflexivity.
      * replace ((- Z.of_N n =? 0)%Z) with false by lia. cbn [andb].
        destruct ((- 2 ^ 63 <=? - Z.of_N n)%Z && (- Z.of_N n <? 2 ^ 63)%Z); reflexivity.
    + rewrite !andb_false_r.
      destruct ((- 2 ^ 63 <=? Z.of_N n)%Z && (Z.of_N n <? 2 ^ 63)%Z); reflexivity.
Qed.

Lemma dec_dws n rest : wsd rest -> exists d ds, CteEnc.dec n = d :: ds /\ is_dec d = true /\ dws (ds ++ rest) rest.
Proof.
  intro Hw. unfold CteEnc.dec.
  assert (Hne := to_digits_nonempty 10 n).
  assert (Hch := to_digits_chars 10 n ltac:(lia)).
  destruct (CteEnc.to_digits 10 n) as [|d ds]; [congruence|].
  exists d, ds. split; [reflexivity|]. inversion Hch; subst. split; [apply digit_below_dec; assumption|].
  split; [exact Hw|]. exists ds. split; [|reflexivity].
  apply forallb_forall. intros c Hc. rewrite Forall_forall in H2. apply digit_below_dec, H2, Hc.
Qed.

(* integers: the reader on the encoder's decimal text *)
Theorem word_token_dec (neg : bool) (n : N) rest : wsd rest ->
  word_token ((if neg then [45] else []) ++ CteEnc.dec n ++ rest) = Some (TVal (rd_int neg n), rest).
Proof.
  intro Hw. destruct (dec_dws n rest Hw) as [d [ds [Ed [Hd Hds]]]].
  destruct (impl_int_dec neg n) as [Himpl Hev].
  unfold word_token.
  assert (Hbest : best_match (word_candidates ((if neg then [45] else []) ++ CteEnc.dec n ++ rest)) None = Some (WInt, rest)).
  { rewrite Ed. destruct neg; cbn [app]; [apply candidates_neg_digits | apply candidates_digits]; assumption. }
  rewrite Hbest. rewrite app_assoc, consumed_app. rewrite Himpl. cbn [oc_opt option_map]. rewrite Hev. reflexivity.
Qed.
