(* C02 — lemmas about the CTE reader model (Model/CteRead.v) and its composition with the
   CTE encoder model (Model/CteEnc.v). *)
From CE Require Import Model.CteRead Proofs.Utf8Lemmas.
From CE Require Model.CteLit Model.CteEnc Proofs.CteLitProofs Gen.CteCharTables.
From Coq Require Import ZifyN ZifyNat ZifyBool Lia.
Open Scope N_scope.

(* ------------------------------------------------------------------ *)
(** * Interval tables: what the encoder leaves unescaped, the lexer accepts *)

(* the upper end of the interval of [iv] that contains [x] *)
Fixpoint find_hi (iv : list (N * N)) (x : N) : option N :=
  match iv with
  | [] => None
  | (lo, hi) :: rest => if x <? lo then None else if x <=? hi then Some hi else find_hi rest x
  end.

Lemma find_hi_in iv x h : find_hi iv x = Some h -> forall r, x <= r <= h -> in_iv iv r = true.
Proof.
  induction iv as [|[lo hi] rest IH]; cbn [find_hi in_iv]; [discriminate|].
  intros H r Hr.
  destruct (N.ltb_spec x lo); [discriminate|].
  destruct (N.leb_spec x hi).
  - inversion H; subst. destruct (N.ltb_spec r lo); [lia|]. destruct (N.leb_spec r h); [reflexivity|lia].
  - destruct (N.ltb_spec r lo); [lia|]. destruct (N.leb_spec r hi); [reflexivity|]. apply IH; assumption.
Qed.

(* every point of [x, hi] lies in an interval of [a] or of [b] *)
Fixpoint covered (fuel : nat) (a b : list (N * N)) (x hi : N) : bool :=
  match fuel with
  | O => false
  | S f =>
    if hi <? x then true
    else match find_hi a x with
         | Some h => covered f a b (h + 1) hi
         | None => match find_hi b x with
                   | Some h => covered f a b (h + 1) hi
                   | None => false
                   end
         end
  end.

Lemma covered_ok fuel a b : forall x hi, covered fuel a b x hi = true ->
  forall r, x <= r <= hi -> in_iv a r || in_iv b r = true.
Proof.
  induction fuel as [|f IH]; cbn [covered]; [discriminate|].
  intros x hi H r Hr.
  destruct (N.ltb_spec hi x); [lia|].
  destruct (find_hi a x) as [h|] eqn:Ea.
  - destruct (N.le_gt_cases r h).
    + rewrite (find_hi_in _ _ _ Ea) by lia. reflexivity.
    + apply (IH _ _ H). lia.
  - destruct (find_hi b x) as [h|] eqn:Eb; [|discriminate].
    destruct (N.le_gt_cases r h).
    + rewrite (find_hi_in _ _ _ Eb r) by lia. apply orb_true_r.
    + apply (IH _ _ H). lia.
Qed.

Lemma in_iv_enc iv r : CteEnc.in_intervals iv r = in_iv iv r.
Proof. induction iv as [|[lo hi] rest IH]; cbn; [reflexivity|]. rewrite IH. reflexivity. Qed.

Definition scalar (r : N) : Prop := r < 55296 \/ (57344 <= r /\ r < 1114112).

Lemma scalar_valid r : scalar r <-> CteLit.valid_scalar r = true.
Proof. unfold scalar, CteLit.valid_scalar. lia. Qed.

(* every Unicode scalar value is escaped by the encoder or accepted by the lexer inside a string *)
Lemma safe_or_quoted_lo : covered 3000 CteCharTables.string_unsafe_intervals cte_quoted_intervals 0 55295 = true.
Proof. vm_compute. reflexivity. Qed.
Lemma safe_or_quoted_hi : covered 3000 CteCharTables.string_unsafe_intervals cte_quoted_intervals 57344 1114111 = true.
Proof. vm_compute. reflexivity. Qed.

Lemma safe_is_quoted r : scalar r -> CteEnc.rune_safe r = true -> ch_quoted r = true /\ r <> 34 /\ r <> 92.
Proof.
  intros Hs Hsafe. unfold CteEnc.rune_safe in Hsafe. rewrite in_iv_enc in Hsafe.
  assert (Hc : in_iv CteCharTables.string_unsafe_intervals r || in_iv cte_quoted_intervals r = true).
  { destruct Hs as [Hs|Hs].
    - apply (covered_ok _ _ _ _ _ safe_or_quoted_lo). lia.
    - apply (covered_ok _ _ _ _ _ safe_or_quoted_hi). lia. }
  apply negb_true_iff in Hsafe. rewrite Hsafe in Hc. cbn [orb] in Hc.
  split; [exact Hc|].
  split; intro E; subst r; vm_compute in Hsafe; discriminate.
Qed.

(* ------------------------------------------------------------------ *)
(** * Digits *)

Lemma digit_val_digit_char d : d < 36 -> CteLit.digit_val (CteEnc.digit_char d) = Some d.
Proof.
  intro H. unfold CteLit.digit_val, CteEnc.digit_char, CteLit.is_dec, CteLit.lower.
  destruct (N.ltb_spec d 10).
  - replace ((48 <=? 48 + d) && (48 + d <=? 57)) with true by lia. f_equal. lia.
  - replace ((48 <=? 87 + d) && (87 + d <=? 57)) with false by lia.
    replace ((65 <=? 87 + d) && (87 + d <=? 90)) with false by lia.
    replace ((97 <=? 87 + d) && (87 + d <=? 122)) with true by lia. f_equal. lia.
Qed.

Lemma to_digits_aux_val base : 2 <= base -> base <= 36 ->
  forall fuel n acc, n < base ^ N.of_nat fuel ->
    CteLit.chars_val base (CteEnc.to_digits_aux fuel base n acc) 0 = CteLit.chars_val base acc n.
Proof.
  intros Hb1 Hb2. induction fuel as [|f IH]; intros n acc Hn.
  - cbn [CteEnc.to_digits_aux]. change (N.of_nat 0) with 0 in Hn. rewrite N.pow_0_r in Hn.
    replace n with 0 by lia. reflexivity.
  - cbn [CteEnc.to_digits_aux].
    assert (Hmod : n mod base < base) by (apply N.mod_lt; lia).
    assert (Hdm : n = base * (n / base) + n mod base) by (apply N.div_mod; lia).
    destruct (N.eqb_spec (n / base) 0) as [Hq|Hq].
    + cbn [CteLit.chars_val]. rewrite digit_val_digit_char by lia.
      f_equal. rewrite Hq in Hdm. lia.
    + rewrite IH.
      * cbn [CteLit.chars_val]. rewrite digit_val_digit_char by lia. f_equal. lia.
      * rewrite Nat2N.inj_succ, N.pow_succ_r' in Hn. apply N.div_lt_upper_bound; lia.
Qed.

Lemma lt_pow_size base n : 2 <= base -> n < base ^ N.of_nat (S (N.to_nat (N.size n))).
Proof.
  intro Hb. rewrite Nat2N.inj_succ, N2Nat.id.
  apply N.lt_le_trans with (2 ^ N.size n); [apply N.size_gt|].
  apply N.le_trans with (base ^ N.size n).
  - apply N.pow_le_mono_l. exact Hb.
  - apply N.pow_le_mono_r; lia.
Qed.

Lemma to_digits_val base n : 2 <= base -> base <= 36 -> CteLit.chars_val base (CteEnc.to_digits base n) 0 = n.
Proof.
  intros. unfold CteEnc.to_digits. rewrite to_digits_aux_val by (try assumption; apply lt_pow_size; assumption).
  reflexivity.
Qed.

(* the characters of a number are digit characters below the base *)
Definition digit_below (base c : N) : Prop := exists d, d < base /\ c = CteEnc.digit_char d.

Lemma to_digits_aux_chars base : 2 <= base ->
  forall fuel n acc, Forall (digit_below base) acc -> Forall (digit_below base) (CteEnc.to_digits_aux fuel base n acc).
Proof.
  intros Hb. induction fuel as [|f IH]; intros n acc Hacc; cbn [CteEnc.to_digits_aux]; [exact Hacc|].
  assert (Hc : Forall (digit_below base) (CteEnc.digit_char (n mod base) :: acc)).
  { constructor; [|exact Hacc]. exists (n mod base). split; [apply N.mod_lt; lia|reflexivity]. }
  destruct (n / base =? 0); [exact Hc|apply IH; exact Hc].
Qed.
Lemma to_digits_chars base n : 2 <= base -> Forall (digit_below base) (CteEnc.to_digits base n).
Proof. intro. apply to_digits_aux_chars; [assumption|constructor]. Qed.

Lemma to_digits_aux_nonempty fuel base n acc : CteEnc.to_digits_aux (S fuel) base n acc <> [].
Proof.
  revert n acc; induction fuel as [|f IH]; intros n acc; cbn [CteEnc.to_digits_aux].
  - destruct (n / base =? 0); discriminate.
  - destruct (n / base =? 0); [discriminate|]. apply (IH (n / base)).
Qed.
Lemma to_digits_nonempty base n : CteEnc.to_digits base n <> [].
Proof. apply to_digits_aux_nonempty. Qed.

(* the leading digit of a non-zero number is not '0' *)
Lemma to_digits_aux_head base : 2 <= base ->
  forall fuel n acc, n <> 0 -> n < base ^ N.of_nat fuel ->
    exists d r, CteEnc.to_digits_aux fuel base n acc = CteEnc.digit_char d :: r /\ d <> 0 /\ d < base.
Proof.
  intros Hb1. induction fuel as [|f IH]; intros n acc Hn0 Hn.
  - change (N.of_nat 0) with 0 in Hn. rewrite N.pow_0_r in Hn. lia.
  - cbn [CteEnc.to_digits_aux].
    assert (Hmod : n mod base < base) by (apply N.mod_lt; lia).
    assert (Hdm : n = base * (n / base) + n mod base) by (apply N.div_mod; lia).
    destruct (N.eqb_spec (n / base) 0) as [Hq|Hq].
    + exists (n mod base), acc. split; [reflexivity|]. rewrite Hq in Hdm. split; lia.
    + apply IH; [exact Hq|]. rewrite Nat2N.inj_succ, N.pow_succ_r' in Hn.
      apply N.div_lt_upper_bound; lia.
Qed.
Lemma to_digits_head base n : 2 <= base -> n <> 0 ->
  exists d r, CteEnc.to_digits base n = CteEnc.digit_char d :: r /\ d <> 0 /\ d < base.
Proof. intros. apply to_digits_aux_head; try assumption. apply lt_pow_size; assumption. Qed.

Lemma to_digits_0 base : CteEnc.to_digits base 0 = [48].
Proof.
  unfold CteEnc.to_digits. change (N.size 0) with 0. cbn [N.to_nat CteEnc.to_digits_aux].
  destruct base as [|p]; reflexivity.
Qed.

Lemma digit_below_hex c : digit_below 16 c -> is_hex c = true /\ CteLit.is_hex c = true /\ c <> 95 /\ c <> 93.
Proof.
  intros [d [Hd ->]]. unfold CteEnc.digit_char.
  destruct (N.ltb_spec d 10).
  - assert (E1 : is_dec (48 + d) = true) by (unfold is_dec; lia).
    assert (E2 : CteLit.is_dec (48 + d) = true) by (unfold CteLit.is_dec; lia).
    unfold is_hex, CteLit.is_hex. rewrite E1, E2. cbn [orb]. repeat split; lia.
  - assert (L1 : lower (87 + d) = 87 + d).
    { unfold lower. replace ((65 <=? 87 + d) && (87 + d <=? 90)) with false by lia. reflexivity. }
    assert (L2 : CteLit.lower (87 + d) = 87 + d).
    { unfold CteLit.lower. replace ((65 <=? 87 + d) && (87 + d <=? 90)) with false by lia. reflexivity. }
    unfold is_hex, CteLit.is_hex, CteLit.is_hexletter. rewrite L1, L2.
    replace ((97 <=? 87 + d) && (87 + d <=? 102)) with true by lia.
    rewrite !orb_true_r. repeat split; lia.
Qed.

Lemma digit_below_dec c : digit_below 10 c -> is_dec c = true /\ CteLit.is_dec c = true /\ 48 <= c <= 57.
Proof.
  intros [d [Hd ->]]. unfold CteEnc.digit_char, is_dec, CteLit.is_dec.
  destruct (N.ltb_spec d 10); lia.
Qed.

Lemma span_all p (a : inp) b :
  forallb p a = true -> (match b with c :: _ => p c = false | [] => True end) -> span p (a ++ b) = (a, b).
Proof.
  intros Ha Hb. induction a as [|c a IH]; cbn [app].
  - destruct b as [|c b]; cbn [span]; [reflexivity|]. rewrite Hb. reflexivity.
  - cbn [forallb] in Ha. apply andb_true_iff in Ha as [Hc Ha]. cbn [span]. rewrite Hc, (IH Ha). reflexivity.
Qed.

(* ------------------------------------------------------------------ *)
(** * Strings: reading what the encoder's escaping decision writes *)

(* the characters WriteQuotedString puts between the quotes, as code points *)
Definition qrune (r : N) : inp := if CteEnc.rune_safe r then [r] else CteEnc.escape_rune r.
Definition qbody (rs : list N) : inp := flat_map qrune rs.

Lemma hex_escape_reads r f idx rest acc : r < 2 ^ 32 ->
  lex_str (S f) idx (92 :: 91 :: CteEnc.to_digits 16 r ++ 93 :: rest) acc =
  lex_str f idx rest (acc ++ CteLit.utf8_enc r).
Proof.
  intro Hr.
  assert (Hch := to_digits_chars 16 r ltac:(lia)).
  assert (Hne := to_digits_nonempty 16 r).
  assert (Hv : CteLit.hex_val (CteEnc.to_digits 16 r) = r) by (apply to_digits_val; lia).
  set (ds := CteEnc.to_digits 16 r) in *. clearbody ds.
  assert (Hall : forallb is_hex ds = true).
  { apply forallb_forall. intros c Hc. rewrite Forall_forall in Hch. apply digit_below_hex, Hch, Hc. }
  assert (Hall2 : forallb CteLit.is_hex ds = true).
  { apply forallb_forall. intros c Hc. rewrite Forall_forall in Hch. apply digit_below_hex, Hch, Hc. }
  cbn [lex_str]. change (92 =? 34) with false. change (92 =? 92) with true.
  change (91 =? 46) with false. change (91 =? 91) with true. cbv iota.
  rewrite (span_all is_hex ds (93 :: rest) Hall) by reflexivity.
  rewrite (CteLitProofs.codepoint_exact ds Hne Hall2) by (rewrite Hv; exact Hr).
  rewrite Hv. destruct ds as [|c0 cs]; [congruence|]. reflexivity.
Qed.

Lemma qrune_reads r f idx rest acc : scalar r ->
  lex_str (S f) idx (qrune r ++ rest) acc = lex_str f idx rest (acc ++ CteLit.utf8_enc r).
Proof.
  intro Hs. unfold qrune. destruct (CteEnc.rune_safe r) eqn:Esafe.
  - destruct (safe_is_quoted r Hs Esafe) as [Hq [H34 H92]].
    cbn [app lex_str]. apply N.eqb_neq in H34, H92. rewrite H34, H92, Hq. reflexivity.
  - unfold CteEnc.escape_rune.
    destruct (N.eqb_spec r 9); [subst; reflexivity|].
    destruct (N.eqb_spec r 13); [subst; reflexivity|].
    destruct (N.eqb_spec r 10); [subst; reflexivity|].
    destruct (N.eqb_spec r 34); [subst; reflexivity|].
    destruct (N.eqb_spec r 42); [subst; reflexivity|].
    destruct (N.eqb_spec r 47); [subst; reflexivity|].
    destruct (N.eqb_spec r 92); [subst; reflexivity|].
    cbn [app]. rewrite <- app_assoc. cbn [app]. apply hex_escape_reads. unfold scalar in Hs. lia.
Qed.

Lemma qrune_length r : (1 <= length (qrune r))%nat.
Proof.
  unfold qrune. destruct (CteEnc.rune_safe r); [cbn; lia|]. unfold CteEnc.escape_rune.
  repeat match goal with |- context [if ?b then _ else _] => destruct b; [cbn; lia|] end.
  cbn [app length]. lia.
Qed.

(* unescape (escape s) = s: the reader applied to the encoder's rendering of the code points [rs],
   followed by the closing quote, returns their UTF-8 text and leaves the lexer state untouched *)
Theorem lex_str_qbody rs : Forall scalar rs ->
  forall fuel idx rest acc, (length rs < fuel)%nat ->
    lex_str fuel idx (qbody rs ++ 34 :: rest) acc = Some (acc ++ CteLit.utf8_str rs, rest, idx).
Proof.
  induction 1 as [|r rs Hr Hrs IH]; intros fuel idx rest acc Hf.
  - destruct fuel as [|f]; [cbn in Hf; lia|]. cbn. rewrite app_nil_r. reflexivity.
  - destruct fuel as [|f]; [cbn in Hf; lia|].
    unfold qbody. cbn [flat_map]. rewrite <- app_assoc. rewrite qrune_reads by exact Hr.
    fold (qbody rs). rewrite IH by (cbn [length] in Hf; lia).
    unfold CteLit.utf8_str. cbn [flat_map]. rewrite app_assoc. reflexivity.
Qed.

(* ------------------------------------------------------------------ *)
(** * Code points of a text *)

Lemma runes_fuel_irrel : forall f1 f2 s, (length s <= f1)%nat -> (length s <= f2)%nat -> runes_fuel f1 s = runes_fuel f2 s.
Proof.
  induction f1 as [|f1 IH]; intros f2 s H1 H2.
  - destruct s; [destruct f2; reflexivity | cbn in H1; lia].
  - destruct s as [|b s]; [destruct f2; reflexivity|].
    destruct f2 as [|f2]; [cbn in H2; lia|].
    cbn [runes_fuel]. destruct (decode_rune (b :: s)) as [[c n]|] eqn:E.
    + f_equal. destruct (decode_rune_inv _ _ _ E) as [Hn _].
      assert (length (skipn n (b :: s)) <= length s)%nat.
      { rewrite skipn_length. cbn [length]. lia. }
      cbn [length] in H1, H2. apply IH; lia.
    + f_equal. cbn [skipn]. cbn [length] in H1, H2. apply IH; lia.
Qed.

Lemma runes_decode s c n : decode_rune s = Some (c, n) -> runes s = c :: runes (skipn n s).
Proof.
  intro E. unfold runes. destruct s as [|b s]; [discriminate|].
  cbn [length runes_fuel]. rewrite E. f_equal.
  destruct (decode_rune_inv _ _ _ E) as [Hn _].
  apply runes_fuel_irrel; rewrite skipn_length; cbn [length]; lia.
Qed.

Lemma runes_ascii_cons b s : b < 128 -> runes (b :: s) = b :: runes s.
Proof.
  intro H. rewrite (runes_decode (b :: s) b 1); [reflexivity|].
  unfold decode_rune. replace (b <? 128) with true by lia. reflexivity.
Qed.

Definition ascii (a : bytes) : Prop := Forall (fun b => b < 128) a.

Lemma runes_ascii_app a s : ascii a -> runes (a ++ s) = a ++ runes s.
Proof.
  induction 1 as [|b a Hb Ha IH]; [reflexivity|]. cbn [app]. rewrite runes_ascii_cons by exact Hb. rewrite IH. reflexivity.
Qed.

Lemma runes_enc_app v s : scalar v -> runes (CteLit.utf8_enc v ++ s) = v :: runes s.
Proof.
  intro Hv. apply scalar_valid in Hv.
  rewrite (runes_decode _ _ _ (CteLitProofs.utf8_enc_decode v s Hv)).
  rewrite skipn_length_app. reflexivity.
Qed.

Lemma runes_utf8_str_app rs s : Forall scalar rs -> runes (CteLit.utf8_str rs ++ s) = rs ++ runes s.
Proof.
  induction 1 as [|r rs Hr Hrs IH]; [reflexivity|].
  unfold CteLit.utf8_str. cbn [flat_map]. rewrite <- app_assoc, runes_enc_app by exact Hr.
  fold (CteLit.utf8_str rs). rewrite IH. reflexivity.
Qed.

Lemma runes_nil : runes [] = [].
Proof. reflexivity. Qed.

Lemma encode_rune_enc r : scalar r -> CteEnc.encode_rune r = CteLit.utf8_enc r.
Proof.
  intro H. unfold CteEnc.encode_rune, CteLit.utf8_enc, scalar in *.
  destruct (r <? 128); [reflexivity|]. destruct (r <? 2048); [reflexivity|].
  replace ((55296 <=? r) && (r <=? 57343) || (1114111 <? r)) with false by lia. reflexivity.
Qed.

Lemma digit_char_ascii d : d < 36 -> CteEnc.digit_char d < 128.
Proof. unfold CteEnc.digit_char. destruct (N.ltb_spec d 10); lia. Qed.

Lemma to_digits_ascii base n : 2 <= base -> base <= 36 -> ascii (CteEnc.to_digits base n).
Proof.
  intros H1 H2. eapply Forall_impl; [|apply to_digits_chars; exact H1].
  intros c [d [Hd ->]]. apply digit_char_ascii. lia.
Qed.

Lemma escape_rune_ascii r : ascii (CteEnc.escape_rune r).
Proof.
  unfold CteEnc.escape_rune, ascii.
  repeat match goal with |- context [if ?b then _ else _] => destruct b; [repeat constructor; lia|] end.
  cbn [app]. constructor; [lia|]. constructor; [lia|]. apply Forall_app. split.
  - apply to_digits_ascii; lia.
  - repeat constructor; lia.
Qed.

(* the bytes WriteQuotedString puts between the quotes *)
Definition qbytes (rs : list N) : bytes :=
  flat_map (fun r => if CteEnc.rune_safe r then CteEnc.encode_rune r else CteEnc.escape_rune r) rs.

Lemma runes_qbytes_app rs s : Forall scalar rs -> runes (qbytes rs ++ s) = qbody rs ++ runes s.
Proof.
  induction 1 as [|r rs Hr Hrs IH]; [reflexivity|].
  unfold qbytes, qbody. cbn [flat_map]. rewrite <- !app_assoc. fold (qbytes rs) (qbody rs).
  unfold qrune. destruct (CteEnc.rune_safe r).
  - rewrite encode_rune_enc, runes_enc_app by exact Hr. rewrite IH. reflexivity.
  - rewrite runes_ascii_app by apply escape_rune_ascii. rewrite IH. reflexivity.
Qed.

(* ------------------------------------------------------------------ *)
(** * Scalar tokens *)

(* what follows a keyword or number: the end of the text or white space *)
Definition wsd (rest : inp) : Prop := match rest with [] => True | c :: _ => is_ws c = true end.

Lemma ws_cases c : is_ws c = true -> c = 32 \/ c = 9 \/ c = 10 \/ c = 13.
Proof. unfold is_ws. lia. Qed.

Lemma word_null rest : word_token (110 :: 117 :: 108 :: 108 :: rest) = Some (TVal ENull, rest).
Proof. reflexivity. Qed.
Lemma word_true rest : word_token (116 :: 114 :: 117 :: 101 :: rest) = Some (TVal (EBool true), rest).
Proof. reflexivity. Qed.
Lemma word_false rest : word_token (102 :: 97 :: 108 :: 115 :: 101 :: rest) = Some (TVal (EBool false), rest).
Proof. reflexivity. Qed.

(* digits followed by a delimiter *)
Definition dws (s rest : inp) : Prop := wsd rest /\ exists ds, forallb is_dec ds = true /\ s = ds ++ rest.

Lemma dec_facts c : is_dec c = true -> 48 <= c <= 57.
Proof. unfold is_dec. lia. Qed.
Lemma dec_lower c : is_dec c = true -> lower c = c.
Proof. intro H. apply dec_facts in H. unfold lower. replace ((65 <=? c) && (c <=? 90)) with false by lia. reflexivity. Qed.
Lemma ws_lower c : is_ws c = true -> lower c = c.
Proof. intro H. apply ws_cases in H. unfold lower. replace ((65 <=? c) && (c <=? 90)) with false by lia. reflexivity. Qed.
Lemma dec_hex c : is_dec c = true -> is_hex c = true.
Proof. intro H. unfold is_hex. rewrite H. reflexivity. Qed.
Lemma ws_not_hex c : is_ws c = true -> is_hex c = false.
Proof. intro H. unfold is_hex, is_dec. rewrite (ws_lower c H). apply ws_cases in H. lia. Qed.
Lemma ws_not_dec c : is_ws c = true -> is_dec c = false.
Proof. intro H. apply ws_cases in H. unfold is_dec. lia. Qed.

Lemma dws_refl rest : wsd rest -> dws rest rest.
Proof. intro H. split; [exact H|]. exists []. split; reflexivity. Qed.

Lemma dws_cons c s rest : is_dec c = true -> dws s rest -> dws (c :: s) rest.
Proof. intros Hc [Hw [ds [Hds ->]]]. split; [exact Hw|]. exists (c :: ds). cbn [forallb]. rewrite Hc, Hds. split; reflexivity. Qed.

Lemma dws_tail c s rest : dws (c :: s) rest -> is_dec c = true -> dws s rest.
Proof.
  intros [Hw [ds [Hds E]]] Hc. split; [exact Hw|]. destruct ds as [|d ds].
  - cbn [app] in E. subst rest. cbn [wsd] in Hw. rewrite (ws_not_dec c Hw) in Hc. discriminate.
  - cbn [app] in E. inversion E; subst. cbn [forallb] in Hds. apply andb_true_iff in Hds as [_ Hds].
    exists ds. split; [exact Hds|reflexivity].
Qed.

(* the head of such a text is a digit or white space, or the text is empty *)
Lemma dws_head s rest : dws s rest ->
  match s with [] => True | c :: _ => is_dec c = true \/ is_ws c = true end.
Proof.
  intros [Hw [ds [Hds ->]]]. destruct ds as [|d ds]; cbn [app].
  - destruct rest; [exact I|]. right. exact Hw.
  - cbn [forallb] in Hds. apply andb_true_iff in Hds as [Hd _]. left. exact Hd.
Qed.

Lemma dm_dws s rest : dws s rest -> dm is_dec s = rest.
Proof.
  intros [Hw [ds [Hds ->]]]. induction ds as [|c ds IH]; cbn [app].
  - destruct rest as [|c r]; [reflexivity|]. cbn [dm]. cbn [wsd] in Hw. rewrite (ws_not_dec c Hw).
    apply ws_cases in Hw. replace (c =? 95) with false by lia. reflexivity.
  - cbn [forallb] in Hds. apply andb_true_iff in Hds as [Hc Hds]. cbn [dm]. rewrite Hc. apply IH, Hds.
Qed.

Lemma m_char_dws p s rest : dws s rest ->
  (forall c, is_dec c = true \/ is_ws c = true -> p c = false) -> m_char p s = None.
Proof.
  intros Hd Hp. apply dws_head in Hd. destruct s as [|c s]; [reflexivity|]. cbn [m_char]. rewrite (Hp c Hd). reflexivity.
Qed.

Lemma m_lit_dws x s rest : dws s rest -> (x < 48 \/ 57 < x) -> x <> 32 -> x <> 9 -> x <> 10 -> x <> 13 ->
  m_lit x s = None.
Proof.
  intros Hd Hx H1 H2 H3 H4. apply (m_char_dws _ s rest Hd).
  intros c [Hc|Hc]; [apply dec_facts in Hc | apply ws_cases in Hc]; lia.
Qed.

(* the second character of such a text is not one of the base letters *)
Lemma m_prefixed_dws letter isd s rest : dws s rest -> 97 <= letter -> m_prefixed letter isd s = None.
Proof.
  intros Hd Hl. unfold m_prefixed. destruct s as [|z s]; [reflexivity|]. destruct s as [|c s]; [reflexivity|].
  destruct (z =? 48) eqn:Ez; [|reflexivity]. cbn [andb].
  assert (Hz : is_dec z = true) by (apply N.eqb_eq in Ez; subst; reflexivity).
  apply dws_tail in Hd; [|exact Hz]. apply dws_head in Hd.
  replace (lower c =? letter) with false; [reflexivity|].
  symmetry. apply N.eqb_neq. destruct Hd as [Hc|Hc].
  - rewrite (dec_lower c Hc). apply dec_facts in Hc. lia.
  - rewrite (ws_lower c Hc). apply ws_cases in Hc. lia.
Qed.

Lemma m_upto_dws k : forall s rest, dws s rest -> dws (m_upto k is_dec s) rest.
Proof.
  induction k as [|k IH]; intros s rest Hd; cbn [m_upto]; [exact Hd|].
  destruct s as [|c s]; [exact Hd|]. cbn [m_char]. destruct (is_dec c) eqn:Ec; [|exact Hd].
  apply IH. apply (dws_tail c); assumption.
Qed.

Lemma m_n_hex_dws k : forall s rest, dws s rest -> match m_n k is_hex s with Some s' => dws s' rest | None => True end.
Proof.
  induction k as [|k IH]; intros s rest Hd; cbn [m_n]; [exact Hd|].
  destruct s as [|c s]; [exact I|]. cbn [m_char].
  destruct (dws_head _ _ Hd) as [Hc|Hc].
  - rewrite (dec_hex c Hc). cbn [obind]. apply IH. apply (dws_tail c); assumption.
  - rewrite (ws_not_hex c Hc). exact I.
Qed.

Lemma m_float_tail_dws isd letter rest : wsd rest -> letter = 101 \/ letter = 112 -> m_float_tail isd letter true rest = None.
Proof.
  intros Hw Hl. unfold m_float_tail, m_frac, m_exp. destruct rest as [|c r]; [reflexivity|].
  cbn [wsd] in Hw. rewrite (ws_lower c Hw). apply ws_cases in Hw.
  replace (c =? 46) with false by lia. replace (c =? letter) with false by lia. reflexivity.
Qed.

(* a run of decimal digits followed by a delimiter is a decimal integer token *)
Lemma candidates_digits d ds rest : is_dec d = true -> dws ds rest ->
  best_match (word_candidates (d :: ds)) None = Some (WInt, rest).
Proof.
  intros Hd Hds.
  assert (Hall : dws (d :: ds) rest) by (apply dws_cons; assumption).
  assert (Hdf := dec_facts d Hd). assert (Hlow := dec_lower d Hd).
  assert (Hneg : m_neg (d :: ds) = d :: ds).
  { unfold m_neg, m_opt, m_lit. cbn [m_char]. replace (45 =? d) with false by lia. reflexivity. }
  assert (Hdig : m_digits is_dec (d :: ds) = Some rest).
  { cbn [m_digits]. rewrite Hd. f_equal. apply dm_dws, Hds. }
  unfold word_candidates.
  assert (W : forall x w, (x < 48 \/ 57 < x) -> m_word (x :: w) (d :: ds) = None).
  { intros x w Hx. cbn [m_word]. rewrite Hlow. replace (d =? x) with false by lia. reflexivity. }
  rewrite !W by lia.
  assert (Hint : m_int (d :: ds) = Some rest).
  { unfold m_int. rewrite Hneg. rewrite !(m_prefixed_dws _ _ _ rest Hall) by lia. exact Hdig. }
  rewrite Hint.
  assert (Hfd : m_float_dec true (d :: ds) = None).
  { unfold m_float_dec. rewrite Hneg, Hdig. cbn [obind]. apply m_float_tail_dws; [apply Hds|left; reflexivity]. }
  rewrite Hfd.
  assert (Hfh : m_float_hex true (d :: ds) = None).
  { unfold m_float_hex. rewrite Hneg. rewrite (m_prefixed_dws _ _ _ rest Hall) by lia. reflexivity. }
  rewrite Hfh.
  assert (Hdate : m_date (d :: ds) = None).
  { unfold m_date. rewrite Hneg, Hdig. cbn [obind].
    rewrite (m_lit_dws 45 rest rest) by (try lia; apply dws_refl, Hds). reflexivity. }
  rewrite Hdate.
  assert (Htime : m_time (d :: ds) = None).
  { unfold m_time, m_1to. cbn [m_char]. rewrite Hd. cbn [obind].
    rewrite (m_lit_dws 58 _ rest) by (try lia; apply m_upto_dws, Hds). reflexivity. }
  rewrite Htime.
  assert (Huid : m_uid (d :: ds) = None).
  { unfold m_uid. assert (H8 := m_n_hex_dws 8 _ _ Hall).
    destruct (m_n 8 is_hex (d :: ds)) as [s'|]; [|reflexivity]. cbn [obind].
    rewrite (m_lit_dws 45 s' rest) by (try lia; exact H8). reflexivity. }
  rewrite Huid. reflexivity.
Qed.

Lemma consumed_app (a b : inp) : consumed (a ++ b) b = a.
Proof. unfold consumed. rewrite app_length. replace (length a + length b - length b)%nat with (length a) by lia. apply firstn_length_app. Qed.

Lemma candidates_neg_digits d ds rest : is_dec d = true -> dws ds rest ->
  best_match (word_candidates (45 :: d :: ds)) None = Some (WInt, rest).
Proof.
  intros Hd Hds.
  assert (Hall : dws (d :: ds) rest) by (apply dws_cons; assumption).
  assert (Hdf := dec_facts d Hd). assert (Hlow := dec_lower d Hd).
  assert (Hneg : m_neg (45 :: d :: ds) = d :: ds) by reflexivity.
  assert (Hdig : m_digits is_dec (d :: ds) = Some rest).
  { cbn [m_digits]. rewrite Hd. f_equal. apply dm_dws, Hds. }
  unfold word_candidates.
  assert (W : forall x w, x <> 45 -> m_word (x :: w) (45 :: d :: ds) = None).
  { intros x w Hx. cbn [m_word]. change (lower 45) with 45. replace (45 =? x) with false by lia. reflexivity. }
  rewrite !W by lia.
  assert (Wn : m_word [45; 105; 110; 102] (45 :: d :: ds) = None).
  { cbn [m_word]. change (lower 45 =? 45) with true. cbv iota. rewrite Hlow. replace (d =? 105) with false by lia. reflexivity. }
  rewrite Wn.
  assert (Hint : m_int (45 :: d :: ds) = Some rest).
  { unfold m_int. rewrite Hneg. rewrite !(m_prefixed_dws _ _ _ rest Hall) by lia. exact Hdig. }
  rewrite Hint.
  assert (Hfd : m_float_dec true (45 :: d :: ds) = None).
  { unfold m_float_dec. rewrite Hneg, Hdig. cbn [obind]. apply m_float_tail_dws; [apply Hds|left; reflexivity]. }
  rewrite Hfd.
  assert (Hfh : m_float_hex true (45 :: d :: ds) = None).
  { unfold m_float_hex. rewrite Hneg. rewrite (m_prefixed_dws _ _ _ rest Hall) by lia. reflexivity. }
  rewrite Hfh.
  assert (Hdate : m_date (45 :: d :: ds) = None).
  { unfold m_date. rewrite Hneg, Hdig. cbn [obind].
    rewrite (m_lit_dws 45 rest rest) by (try lia; apply dws_refl, Hds). reflexivity. }
  rewrite Hdate. reflexivity.
Qed.

(* ---- the value of a decimal spelling ---- *)

Definition dec_lit (neg : bool) (c0 : N) (cs : bytes) : CteLit.int_lit :=
  {| CteLit.i_neg := neg; CteLit.i_base := CteLit.B10; CteLit.i_upper := false;
     CteLit.i_digits := {| CteLit.d_first := c0; CteLit.d_rest := map (fun c => (O, c)) cs |} |}.

Lemma render_plain cs : flat_map (fun p : nat * N => repeat CteLit.c_us (fst p) ++ [snd p]) (map (fun c => (O, c)) cs) = cs.
Proof. induction cs as [|c cs IH]; [reflexivity|]. cbn [map flat_map fst snd repeat app]. rewrite IH. reflexivity. Qed.

Lemma map_snd_plain (cs : bytes) : map snd (map (fun c => (O, c)) cs) = cs.
Proof. induction cs as [|c cs IH]; [reflexivity|]. cbn [map snd]. rewrite IH. reflexivity. Qed.

Lemma render_dec_lit (neg : bool) c0 cs : CteLit.render_int (dec_lit neg c0 cs) = (if neg then [45] else []) ++ c0 :: cs.
Proof.
  unfold CteLit.render_int, dec_lit, CteLit.render_dseq, CteLit.sign_chars, CteLit.prefix_chars.
  cbn [CteLit.i_neg CteLit.i_base CteLit.i_upper CteLit.i_digits CteLit.d_first CteLit.d_rest app]. rewrite render_plain. destruct neg; reflexivity.
Qed.

(* what the reader reports for the decimal spelling of (-)n *)
Definition rd_int (neg : bool) (n : N) : event :=
  if (n =? 0) && neg then ENegInt 0
  else let v := if neg then (- Z.of_N n)%Z else Z.of_N n in
       if ((- 2 ^ 63 <=? v) && (v <? 2 ^ 63))%Z then EInt v else EBigInt (Some v).

Lemma impl_int_dec (neg : bool) (n : N) :
  CteLit.impl_int ((if neg then [45] else []) ++ CteEnc.dec n) = Ok (CteLit.spec_int (dec_lit neg (hd 0 (CteEnc.dec n)) (tl (CteEnc.dec n)))) /\
  lit_event (CteLit.spec_int (dec_lit neg (hd 0 (CteEnc.dec n)) (tl (CteEnc.dec n)))) = rd_int neg n.
Proof.
  unfold CteEnc.dec.
  assert (Hne := to_digits_nonempty 10 n).
  assert (Hch := to_digits_chars 10 n ltac:(lia)).
  assert (Hv := to_digits_val 10 n ltac:(lia) ltac:(lia)).
  assert (Hhead : n <> 0 -> exists d r, CteEnc.to_digits 10 n = CteEnc.digit_char d :: r /\ d <> 0 /\ d < 10)
    by (intro; apply to_digits_head; [lia|assumption]).
  assert (H0 : n = 0 -> CteEnc.to_digits 10 n = [48]) by (intro; subst; apply to_digits_0).
  set (ds := CteEnc.to_digits 10 n) in *. clearbody ds.
  destruct ds as [|c0 cs]; [congruence|]. cbn [hd tl].
  assert (Hok : CteLit.int_lit_ok (dec_lit neg c0 cs) = true).
  { unfold CteLit.int_lit_ok, CteLit.dseq_ok, CteLit.dseq_chars, dec_lit.
    cbn [CteLit.i_base CteLit.i_digits CteLit.d_first CteLit.d_rest]. rewrite map_snd_plain.
    apply forallb_forall. intros c Hc. rewrite Forall_forall in Hch. cbn [CteLit.digit_ok]. apply digit_below_dec, Hch, Hc. }
  assert (Hlz : CteLit.leading_zero_dec (dec_lit neg c0 cs) = false).
  { unfold CteLit.leading_zero_dec, dec_lit. cbn [CteLit.i_base CteLit.i_digits CteLit.d_first CteLit.d_rest].
    destruct (N.eq_dec n 0) as [E|E].
    - specialize (H0 E). inversion H0; subst. reflexivity.
    - destruct (Hhead E) as [d [r [Ed [Hd0 Hd]]]]. inversion Ed; subst.
      unfold CteEnc.digit_char. replace (d <? 10) with true by lia. replace (48 + d =? 48) with false by lia. reflexivity. }
  split.
  - rewrite <- render_dec_lit. apply CteLitProofs.int_literal_exact; assumption.
  - assert (Hmag : CteLit.int_mag (dec_lit neg c0 cs) = n).
    { unfold CteLit.int_mag, CteLit.dseq_val, CteLit.dseq_chars, dec_lit.
      cbn [CteLit.i_base CteLit.i_digits CteLit.d_first CteLit.d_rest CteLit.ibase_n]. rewrite map_snd_plain. exact Hv. }
    unfold CteLit.spec_int, CteLit.int_value, rd_int. rewrite Hmag.
    change (CteLit.i_neg (dec_lit neg c0 cs)) with neg.
    destruct neg.
    + destruct (N.eqb_spec n 0) as [E|E].
      * rewrite E. reflexivity.
      * replace ((- Z.of_N n =? 0)%Z) with false by lia. cbn [andb].
        destruct ((- 2 ^ 63 <=? - Z.of_N n)%Z && (- Z.of_N n <? 2 ^ 63)%Z); reflexivity.
    + rewrite !andb_false_r.
      destruct ((- 2 ^ 63 <=? Z.of_N n)%Z && (Z.of_N n <? 2 ^ 63)%Z); reflexivity.
Qed.

Lemma dec_dws n rest : wsd rest -> exists d ds, CteEnc.dec n = d :: ds /\ is_dec d = true /\ dws (ds ++ rest) rest.
Proof.
  intro Hw. unfold CteEnc.dec.
  assert (Hne := to_digits_nonempty 10 n).
  assert (Hch := to_digits_chars 10 n ltac:(lia)).
  destruct (CteEnc.to_digits 10 n) as [|d ds]; [congruence|].
  exists d, ds. split; [reflexivity|]. inversion Hch; subst. split; [apply digit_below_dec; assumption|].
  split; [exact Hw|]. exists ds. split; [|reflexivity].
  apply forallb_forall. intros c Hc. rewrite Forall_forall in H2. apply digit_below_dec, H2, Hc.
Qed.

(* integers: the reader on the encoder's decimal text *)
Theorem word_token_dec (neg : bool) (n : N) rest : wsd rest ->
  word_token ((if neg then [45] else []) ++ CteEnc.dec n ++ rest) = Some (TVal (rd_int neg n), rest).
Proof.
  intro Hw. destruct (dec_dws n rest Hw) as [d [ds [Ed [Hd Hds]]]].
  destruct (impl_int_dec neg n) as [Himpl Hev].
  unfold word_token.
  assert (Hbest : best_match (word_candidates ((if neg then [45] else []) ++ CteEnc.dec n ++ rest)) None = Some (WInt, rest)).
  { rewrite Ed. destruct neg; cbn [app]; [apply candidates_neg_digits | apply candidates_digits]; assumption. }
  rewrite Hbest. rewrite app_assoc, consumed_app. rewrite Himpl. cbn [oc_opt option_map]. rewrite Hev. reflexivity.
Qed.

(* ------------------------------------------------------------------ *)
(** * Comments *)

Definition strip_cr (acc : inp) : inp :=
  match acc with a :: acc' => if a =? 13 then rev acc' else rev acc | [] => [] end.

Lemma line_comment_reads t rest acc : forallb (fun c => negb (c =? 10)) t = true ->
  line_comment (t ++ 10 :: rest) acc = Some (strip_cr (rev t ++ acc), rest).
Proof.
  revert acc. induction t as [|c t IH]; intros acc H; cbn [app line_comment].
  - change (10 =? 10) with true. reflexivity.
  - cbn [forallb] in H. apply andb_true_iff in H as [Hc Ht]. apply negb_true_iff in Hc. rewrite Hc.
    rewrite IH by exact Ht. cbn [rev]. rewrite <- app_assoc. reflexivity.
Qed.

(* a single-line comment the text form can carry: no line feed, no carriage return at the end *)
Definition line_ok (t : inp) : bool :=
  forallb (fun c => negb (c =? 10)) t && negb (match rev t with a :: _ => a =? 13 | [] => false end).

Lemma line_comment_ok t rest : line_ok t = true -> line_comment (t ++ 10 :: rest) [] = Some (t, rest).
Proof.
  unfold line_ok. intro H. apply andb_true_iff in H as [H1 H2]. rewrite line_comment_reads by exact H1.
  rewrite app_nil_r. unfold strip_cr. destruct (rev t) as [|a r] eqn:E.
  - apply (f_equal (@rev N)) in E. rewrite rev_involutive in E. subst. reflexivity.
  - apply negb_true_iff in H2. rewrite H2. rewrite <- E, rev_involutive. reflexivity.
Qed.

(* a multi-line comment the text form can carry: scanning the text never sees an opener or a closer,
   and the text does not end with a slash (which would pair up with the closing delimiter) *)
Fixpoint blk_plain (p : pend) (t : inp) : bool :=
  match t with
  | [] => match p with PSlash => false | _ => true end
  | c :: r =>
    match p with
    | PSlash => if c =? 42 then false else blk_plain (if c =? 47 then PSlash else PNone) r
    | PStar => if c =? 47 then false else blk_plain (if c =? 42 then PStar else PNone) r
    | PNone => blk_plain (if c =? 47 then PSlash else if c =? 42 then PStar else PNone) r
    end
  end.

Lemma block_comment_reads t : forall p acc rest, blk_plain p t = true ->
  block_comment (t ++ 42 :: 47 :: rest) O p acc = Some (rev acc ++ t, rest).
Proof.
  induction t as [|c t IH]; intros p acc rest H.
  - cbn [app]. destruct p; cbn in H; try discriminate.
    + cbn [block_comment]. change (42 =? 47) with false. change (42 =? 42) with true. cbv iota.
      change (47 =? 47) with true. cbv iota. cbn [tl]. rewrite app_nil_r. reflexivity.
    + cbn [block_comment]. change (42 =? 47) with false. change (42 =? 42) with true. cbv iota.
      change (47 =? 47) with true. cbv iota. cbn [tl]. rewrite app_nil_r. reflexivity.
  - cbn [app block_comment]. cbn [blk_plain] in H. destruct p.
    + rewrite IH by exact H. cbn [rev]. rewrite <- app_assoc. reflexivity.
    + destruct (c =? 42); [discriminate|]. rewrite IH by exact H. cbn [rev]. rewrite <- app_assoc. reflexivity.
    + destruct (c =? 47); [discriminate|]. rewrite IH by exact H. cbn [rev]. rewrite <- app_assoc. reflexivity.
Qed.

(* a readable sufficient condition *)
Example blk_plain_examples :
  blk_plain PNone [97; 32; 42; 32; 47; 32; 98] = true /\ blk_plain PNone [42; 42; 97; 42] = true /\
  blk_plain PNone [97; 47] = false /\ blk_plain PNone [97; 42; 47; 98] = false /\ blk_plain PNone [47; 42] = false.
Proof. repeat split. Qed.

(* ------------------------------------------------------------------ *)
(** * Documents as trees: the fragment of the structure theorem

   null, booleans, integers of every size and sign (all three scalar integer events), strings,
   lists and maps nested to any depth, comments of both kinds between the items of a list and
   between the pairs of a map.  [VPair] and [VCom] are items, not values; [wf] says where they may stand. *)

(* the three string-like values: a string, a resource id @"...", a remote reference $"..." *)
Inductive skind := KStr | KRid | KRef.
Definition sty (k : skind) : N := match k with KStr => AT_String | KRid => AT_ResourceID | KRef => AT_ReferenceRemote end.
Definition spre (k : skind) : list N := match k with KStr => [] | KRid => [64] | KRef => [36] end.

(* [VBool plain b]: OnBoolean(b) when [plain], OnTrue / OnFalse otherwise;
   [VStr k whole rs]: OnArray when [whole], OnStringlikeArray otherwise *)
Inductive tree :=
| VNull | VBool (plain b : bool) | VPos (n : N) | VNeg (n : N) | VInt (z : Z) | VStr (k : skind) (whole : bool) (rs : list N)
| VCom (multi : bool) (rs : list N)
| VPair (k v : tree)
| VList (l : list tree) | VMap (l : list tree).

Section tree_induction.
  Variable P : tree -> Prop.
  Hypotheses (Hnull : P VNull) (Hbool : forall pl b, P (VBool pl b)) (Hpos : forall n, P (VPos n)) (Hneg : forall n, P (VNeg n))
             (Hint : forall z, P (VInt z)) (Hstr : forall k w rs, P (VStr k w rs)) (Hcom : forall m rs, P (VCom m rs))
             (Hpair : forall k v, P k -> P v -> P (VPair k v))
             (Hlist : forall l, Forall P l -> P (VList l)) (Hmap : forall l, Forall P l -> P (VMap l)).
  Fixpoint tree_induction (t : tree) : P t :=
    match t with
    | VNull => Hnull | VBool pl b => Hbool pl b | VPos n => Hpos n | VNeg n => Hneg n | VInt z => Hint z
    | VStr k w rs => Hstr k w rs | VCom m rs => Hcom m rs
    | VPair k v => Hpair k v (tree_induction k) (tree_induction v)
    | VList l => Hlist l ((fix go (l : list tree) : Forall P l :=
                             match l with [] => Forall_nil P | x :: r => Forall_cons x (tree_induction x) (go r) end) l)
    | VMap l => Hmap l ((fix go (l : list tree) : Forall P l :=
                           match l with [] => Forall_nil P | x :: r => Forall_cons x (tree_induction x) (go r) end) l)
    end.
End tree_induction.

Definition is_value (t : tree) : bool := match t with VCom _ _ | VPair _ _ => false | _ => true end.
Definition is_com (t : tree) : bool := match t with VCom _ _ => true | _ => false end.
Definition is_pair (t : tree) : bool := match t with VPair _ _ => true | _ => false end.
Definition is_lc (t : tree) : bool := match t with VCom false _ => true | _ => false end.

Definition scalars (rs : list N) : Prop := Forall scalar rs.

Fixpoint wf (t : tree) : Prop :=
  match t with
  | VStr _ _ rs => scalars rs
  | VCom multi rs => scalars rs /\ (if multi then blk_plain PNone rs = true else line_ok rs = true)
  | VPair k v => wf k /\ wf v /\ is_value k = true /\ is_value v = true
  | VInt z => (- 2 ^ 63 <= z < 2 ^ 63)%Z
  | VList l => (fix all (l : list tree) : Prop := match l with [] => True | x :: r => (wf x /\ is_pair x = false) /\ all r end) l
  | VMap l => (fix all (l : list tree) : Prop := match l with [] => True | x :: r => (wf x /\ is_value x = false) /\ all r end) l
  | _ => True
  end.

Lemma wf_list l : wf (VList l) <-> Forall (fun x => wf x /\ is_pair x = false) l.
Proof. induction l as [|x r IH]; [split; constructor|]. split; intro H.
  - destruct H as [H1 H2]. constructor; [exact H1|]. apply IH, H2.
  - inversion H; subst. split; [assumption|]. apply IH. assumption. Qed.
Lemma wf_map l : wf (VMap l) <-> Forall (fun x => wf x /\ is_value x = false) l.
Proof. induction l as [|x r IH]; [split; constructor|]. split; intro H.
  - destruct H as [H1 H2]. constructor; [exact H1|]. apply IH, H2.
  - inversion H; subst. split; [assumption|]. apply IH. assumption. Qed.

Definition str_bytes (rs : list N) : bytes := CteLit.utf8_str rs.

(* the events handed to the encoder *)
Fixpoint events_of (t : tree) : list event :=
  match t with
  | VNull => [ENull] | VBool pl b => [if pl then EBool b else if b then ETrue else EFalse]
  | VPos n => [EPosInt n] | VNeg n => [ENegInt n] | VInt z => [EInt z]
  | VStr k whole rs => [if whole then EArray (sty k) (N.of_nat (length (str_bytes rs))) (str_bytes rs)
                        else EStringArray (sty k) (str_bytes rs)]
  | VCom m rs => [EComment m (str_bytes rs)]
  | VPair k v => events_of k ++ events_of v
  | VList l => EList :: flat_map events_of l ++ [EEnd]
  | VMap l => EMap :: flat_map events_of l ++ [EEnd]
  end.

(* the events the reader reports *)
Definition rd_z (z : Z) : event := rd_int (z <? 0)%Z (Z.abs_N z).
Fixpoint rd_events (t : tree) : list event :=
  match t with
  | VNull => [ENull] | VBool _ b => [EBool b] | VPos n => [rd_int false n] | VNeg n => [rd_int true n] | VInt z => [rd_z z]
  | VStr k _ rs => [EArray (sty k) (N.of_nat (length (str_bytes rs))) (str_bytes rs)]
  | VCom m rs => [EComment m (str_bytes rs)]
  | VPair k v => rd_events k ++ rd_events v
  | VList l => EList :: flat_map rd_events l ++ [EEnd]
  | VMap l => EMap :: flat_map rd_events l ++ [EEnd]
  end.

(* ---- the layout the encoder gives such a tree ---- *)

Definition spaces (k : N) : inp := repeat 32 (N.to_nat k).
Definition nl (k : N) : inp := 10 :: spaces k.
Definition int_text (neg : bool) (n : N) : inp := (if neg then [45] else []) ++ CteEnc.dec n.
Definition z_text (z : Z) : inp :=
  if (0 <=? z)%Z then CteEnc.dec (Z.to_N z) else 45 :: CteEnc.dec (Z.to_N (- z) mod 2 ^ 64).

Section Printer.
  (* how string contents and comment texts are rendered: as bytes, or as the code points of those bytes *)
  Variables (fs fc : list N -> list N).
  Fixpoint gp (ind : N) (t : tree) : list N :=
    match t with
    | VNull => CteEnc.t_null
    | VBool _ b => if b then CteEnc.t_true else CteEnc.t_false
    | VPos n => int_text false n
    | VNeg n => int_text true n
    | VInt z => z_text z
    | VStr k _ rs => spre k ++ 34 :: fs rs ++ [34]
    | VCom false rs => 47 :: 47 :: fc rs
    | VCom true rs => 47 :: 42 :: fc rs ++ [42; 47]
    | VPair k v => gp ind k ++ [32; 61; 32] ++ gp ind v
    | VList l => 91 :: flat_map (fun x => nl (ind + 4) ++ gp (ind + 4) x) l ++ (match l with [] => [] | _ => nl ind end) ++ [93]
    | VMap l => 123 :: flat_map (fun x => nl (ind + 4) ++ gp (ind + 4) x) l ++ (match l with [] => [] | _ => nl ind end) ++ [125]
    end.
End Printer.

Definition pp : N -> tree -> bytes := gp qbytes str_bytes.          (* the text *)
Definition rp : N -> tree -> inp := gp qbody (fun rs => rs).         (* its code points *)

Definition pp_doc (t : tree) : bytes := 99 :: 48 :: nl 0 ++ pp 0 t.
Definition document (body : list event) : list event := EBeginDoc :: EVersion 0 :: body ++ [EEndDoc].

(* ---- the code points of the text ---- *)

Ltac ascii_tac := unfold ascii; repeat (first [apply Forall_nil | apply Forall_cons; [lia|]]).

Lemma ascii_app a b : ascii a -> ascii b -> ascii (a ++ b).
Proof. intros. apply Forall_app. split; assumption. Qed.

Lemma ascii_spaces k : ascii (spaces k).
Proof. unfold spaces, ascii. induction (N.to_nat k); cbn [repeat]; constructor; [lia|assumption]. Qed.
Lemma ascii_nl k : ascii (nl k).
Proof. unfold nl. constructor; [lia|apply ascii_spaces]. Qed.
Lemma ascii_dec n : ascii (CteEnc.dec n).
Proof. apply to_digits_ascii; lia. Qed.
Lemma ascii_int_text neg n : ascii (int_text neg n).
Proof. unfold int_text. apply ascii_app; [destruct neg; ascii_tac|apply ascii_dec]. Qed.
Lemma ascii_z_text z : ascii (z_text z).
Proof. unfold z_text. destruct (0 <=? z)%Z; [apply ascii_dec|]. constructor; [lia|apply ascii_dec]. Qed.

Lemma runes_items k l (IH : Forall (fun t => wf t -> forall ind tail, runes (pp ind t ++ tail) = rp ind t ++ runes tail) l) :
  Forall wf l -> forall tail,
  runes (flat_map (fun x => nl k ++ pp k x) l ++ tail) = flat_map (fun x => nl k ++ rp k x) l ++ runes tail.
Proof.
  induction IH as [|x r Hx Hr IHr]; intros Hwf tail; [reflexivity|].
  inversion Hwf; subst. cbn [flat_map]. rewrite <- !app_assoc.
  rewrite runes_ascii_app by apply ascii_nl. rewrite Hx by assumption. rewrite IHr by assumption. reflexivity.
Qed.

Lemma runes_pp t : wf t -> forall ind tail, runes (pp ind t ++ tail) = rp ind t ++ runes tail.
Proof.
  induction t using tree_induction; intros Hwf ind tail; unfold pp, rp in *; cbn [gp].
  - apply runes_ascii_app. unfold CteEnc.t_null. ascii_tac.
  - destruct b; apply runes_ascii_app; [unfold CteEnc.t_true|unfold CteEnc.t_false]; ascii_tac.
  - apply runes_ascii_app, ascii_int_text.
  - apply runes_ascii_app, ascii_int_text.
  - apply runes_ascii_app, ascii_z_text.
  - cbn [wf] in Hwf. destruct k; cbn [spre app]; rewrite !runes_ascii_cons by lia; rewrite <- app_assoc;
      rewrite runes_qbytes_app by exact Hwf; cbn [app]; rewrite runes_ascii_cons by lia; rewrite <- ?app_assoc; reflexivity.
  - cbn [wf] in Hwf. destruct Hwf as [Hs _]. destruct m; cbn [app].
    + rewrite !runes_ascii_cons by lia. rewrite <- app_assoc. unfold str_bytes. rewrite runes_utf8_str_app by exact Hs.
      cbn [app]. rewrite !runes_ascii_cons by lia. rewrite <- app_assoc. reflexivity.
    + rewrite !runes_ascii_cons by lia. unfold str_bytes. rewrite runes_utf8_str_app by exact Hs. reflexivity.
  - cbn [wf] in Hwf. destruct Hwf as [Hk [Hv _]]. rewrite <- !app_assoc. rewrite IHt1 by exact Hk.
    cbn [app]. rewrite !runes_ascii_cons by lia. rewrite IHt2 by exact Hv. reflexivity.
  - apply wf_list in Hwf. assert (Hw : Forall wf l) by (eapply Forall_impl; [|exact Hwf]; intros a [Ha _]; exact Ha).
    cbn [app]. rewrite runes_ascii_cons by lia. rewrite <- !app_assoc.
    rewrite (runes_items _ _ H Hw). destruct l; cbn [app]; [rewrite runes_ascii_cons by lia; reflexivity|].
    rewrite runes_ascii_app by apply ascii_nl. cbn [app]. rewrite runes_ascii_cons by lia. reflexivity.
  - apply wf_map in Hwf. assert (Hw : Forall wf l) by (eapply Forall_impl; [|exact Hwf]; intros a [Ha _]; exact Ha).
    cbn [app]. rewrite runes_ascii_cons by lia. rewrite <- !app_assoc.
    rewrite (runes_items _ _ H Hw). destruct l; cbn [app]; [rewrite runes_ascii_cons by lia; reflexivity|].
    rewrite runes_ascii_app by apply ascii_nl. cbn [app]. rewrite runes_ascii_cons by lia. reflexivity.
Qed.

(* ------------------------------------------------------------------ *)
(** * From code points to tokens *)

Definition cwp (ind : N) (p : bool) : list tok := if p && (ind =? 0) then [] else [TWs].
Definition pfin (pend : bool) (l : list tree) : bool := match l with [] => pend | _ => is_lc (last l VNull) end.

Fixpoint tk (ind : N) (t : tree) : list tok :=
  match t with
  | VNull => [TVal ENull] | VBool _ b => [TVal (EBool b)]
  | VPos n => [TVal (rd_int false n)] | VNeg n => [TVal (rd_int true n)] | VInt z => [TVal (rd_z z)]
  | VStr k _ rs => [TVal (EArray (sty k) (N.of_nat (length (str_bytes rs))) (str_bytes rs))]
  | VCom m rs => [TComment m (str_bytes rs)]
  | VPair k v => tk ind k ++ [TWs; TEq; TWs] ++ tk ind v
  | VList l => TListB :: flat_map (fun x => TWs :: tk (ind + 4) x) l ++ (match l with [] => [] | _ => cwp ind (pfin false l) end) ++ [TListE]
  | VMap l => TMapB :: flat_map (fun x => TWs :: tk (ind + 4) x) l ++ (match l with [] => [] | _ => cwp ind (pfin false l) end) ++ [TBraceE]
  end.

(* [ts] are the next tokens of [s], which leaves [rest]; every token consumes something *)
Fixpoint lexes (ts : list tok) (s rest : inp) : Prop :=
  match ts with
  | [] => s = rest
  | t :: ts' => exists mid, next_tok O s = Some (t, mid, O) /\ (length mid < length s)%nat /\ lexes ts' mid rest
  end.

Lemma lexes_app a b s m r : lexes a s m -> lexes b m r -> lexes (a ++ b) s r.
Proof.
  revert s. induction a as [|t a IH]; intros s Ha Hb; cbn [app lexes] in *; [subst; exact Hb|].
  destruct Ha as [mid [H1 [H2 H3]]]. exists mid. split; [exact H1|]. split; [exact H2|]. apply IH; assumption.
Qed.

Lemma lexes_one t s r : next_tok O s = Some (t, r, O) -> (length r < length s)%nat -> lexes [t] s r.
Proof. intros H1 H2. exists r. split; [exact H1|]. split; [exact H2|reflexivity]. Qed.

Lemma lexes_length ts : forall s r, lexes ts s r -> (length ts + length r <= length s)%nat.
Proof.
  induction ts as [|t ts IH]; intros s r H; cbn [lexes length] in *; [subst; lia|].
  destruct H as [mid [_ [H2 H3]]]. apply IH in H3. lia.
Qed.

Lemma lex_lexes ts : forall s r, lexes ts s r -> forall f, lex (length ts + f) O s = option_map (app ts) (lex f O r).
Proof.
  induction ts as [|t ts IH]; intros s r H f; cbn [lexes length] in *.
  - subst. cbn [app plus]. destruct (lex f 0 r); reflexivity.
  - destruct H as [mid [H1 [H2 H3]]]. cbn [plus lex]. destruct s as [|c s]; [cbn in H2; lia|].
    rewrite H1. rewrite (IH _ _ H3 f). destruct (lex f 0 r); reflexivity.
Qed.

Definition nows (X : inp) : Prop := match X with [] => True | c :: _ => is_ws c = false end.

Lemma span_spaces k X : nows X -> span is_ws (spaces k ++ X) = (spaces k, X).
Proof.
  intro H. apply span_all.
  - unfold spaces. induction (N.to_nat k); [reflexivity|]. cbn [repeat forallb]. rewrite IHn. reflexivity.
  - destruct X; [exact I|exact H].
Qed.

Lemma tok_nl k X : nows X -> next_tok O (nl k ++ X) = Some (TWs, X, O).
Proof. intro H. unfold nl. cbn [app next_tok]. change (is_ws 10) with true. cbv iota. rewrite span_spaces by exact H. reflexivity. Qed.

Lemma tok_spaces k X : 0 < k -> nows X -> next_tok O (spaces k ++ X) = Some (TWs, X, O).
Proof.
  intros Hk H. unfold spaces. destruct (N.to_nat k) as [|n] eqn:E; [lia|].
  cbn [repeat app next_tok]. change (is_ws 32) with true. cbv iota.
  change (repeat 32 n) with (spaces (N.of_nat n)) || idtac.
  replace (repeat 32 n) with (spaces (N.of_nat n)) by (unfold spaces; rewrite Nat2N.id; reflexivity).
  rewrite span_spaces by exact H. reflexivity.
Qed.

Lemma spaces_length k : length (spaces k) = N.to_nat k.
Proof. unfold spaces. apply repeat_length. Qed.

Lemma next_tok_word c s : (48 <= c <= 57 \/ c = 45) ->
  next_tok O (c :: s) = match word_token (c :: s) with Some (t, rest) => Some (t, rest, O) | None => None end.
Proof.
  intro H. unfold next_tok, is_ws.
  replace ((c =? 32) || (c =? 9) || (c =? 10) || (c =? 13)) with false by lia.
  replace (c =? 47) with false by lia. replace (c =? 91) with false by lia. replace (c =? 93) with false by lia.
  replace (c =? 123) with false by lia. replace (c =? 125) with false by lia. replace (c =? 61) with false by lia.
  replace (c =? 40) with false by lia. replace (c =? 41) with false by lia. replace (c =? 62) with false by lia.
  replace (c =? 34) with false by lia. replace (c =? 36) with false by lia. replace (c =? 38) with false by lia.
  replace (c =? 64) with false by lia. reflexivity.
Qed.

Lemma int_text_head neg n : exists c r, int_text neg n = c :: r /\ (48 <= c <= 57 \/ c = 45).
Proof.
  unfold int_text. destruct neg; cbn [app].
  - exists 45, (CteEnc.dec n). split; [reflexivity|lia].
  - destruct (dec_dws n [] I) as [d [ds [E [Hd _]]]]. exists d, ds. split; [exact E|]. left. apply dec_facts, Hd.
Qed.

Lemma tok_int neg n rest : wsd rest -> next_tok O (int_text neg n ++ rest) = Some (TVal (rd_int neg n), rest, O).
Proof.
  intro Hw. destruct (int_text_head neg n) as [c [r [E Hc]]].
  assert (Hword := word_token_dec neg n rest Hw).
  assert (E2 : int_text neg n ++ rest = c :: (r ++ rest)) by (rewrite E; reflexivity).
  rewrite E2, next_tok_word by exact Hc. rewrite <- E2. unfold int_text. rewrite <- app_assoc, Hword. reflexivity.
Qed.

Lemma z_text_int z : (- 2 ^ 63 <= z < 2 ^ 63)%Z -> z_text z = int_text (z <? 0)%Z (Z.abs_N z).
Proof.
  intro H. unfold z_text, int_text. destruct (Z.leb_spec 0 z).
  - replace (z <? 0)%Z with false by lia. cbn [app]. f_equal. lia.
  - replace (z <? 0)%Z with true by lia. cbn [app]. f_equal. f_equal. rewrite N.mod_small; lia.
Qed.

Lemma qbody_length rs : (length rs <= length (qbody rs))%nat.
Proof.
  induction rs as [|r rs IH]; [cbn; lia|]. unfold qbody in *. cbn [flat_map]. rewrite app_length. cbn [length].
  assert (H := qrune_length r). lia.
Qed.

Lemma tok_str rs rest : scalars rs ->
  next_tok O (34 :: qbody rs ++ 34 :: rest) = Some (TVal (EArray AT_String (N.of_nat (length (str_bytes rs))) (str_bytes rs)), rest, O).
Proof.
  intro Hs. cbn [next_tok]. change (is_ws 34) with false. cbv iota. change (34 =? 47) with false.
  change (34 =? 91) with false. change (34 =? 93) with false. change (34 =? 123) with false. change (34 =? 125) with false.
  change (34 =? 61) with false. change (34 =? 40) with false. change (34 =? 41) with false. change (34 =? 62) with false.
  change (34 =? 34) with true. cbv iota. unfold lex_string.
  rewrite lex_str_qbody; [reflexivity|exact Hs|].
  rewrite app_length. cbn [length]. assert (H := qbody_length rs). lia.
Qed.

Lemma tok_text k rs rest : scalars rs ->
  next_tok O (spre k ++ 34 :: qbody rs ++ 34 :: rest) = Some (TVal (EArray (sty k) (N.of_nat (length (str_bytes rs))) (str_bytes rs)), rest, O).
Proof.
  intro Hs. destruct k; cbn [spre app sty].
  - apply tok_str, Hs.
  - cbn [next_tok]. change (is_ws 64) with false. cbv iota. change (64 =? 47) with false.
    change (64 =? 91) with false. change (64 =? 93) with false. change (64 =? 123) with false. change (64 =? 125) with false.
    change (64 =? 61) with false. change (64 =? 40) with false. change (64 =? 41) with false. change (64 =? 62) with false.
    change (64 =? 34) with false. change (64 =? 36) with false. change (64 =? 38) with false. change (64 =? 64) with true. cbv iota.
    unfold at_token. cbn [m_media]. change (is_alpha 34) with false. cbv iota. unfold lex_string.
    rewrite lex_str_qbody; [reflexivity|exact Hs|].
    rewrite app_length. cbn [length]. assert (H := qbody_length rs). lia.
  - cbn [next_tok]. change (is_ws 36) with false. cbv iota. change (36 =? 47) with false.
    change (36 =? 91) with false. change (36 =? 93) with false. change (36 =? 123) with false. change (36 =? 125) with false.
    change (36 =? 61) with false. change (36 =? 40) with false. change (36 =? 41) with false. change (36 =? 62) with false.
    change (36 =? 34) with false. change (36 =? 36) with true. cbv iota. unfold lex_string.
    rewrite lex_str_qbody; [reflexivity|exact Hs|].
    rewrite app_length. cbn [length]. assert (H := qbody_length rs). lia.
Qed.

Lemma tok_line_comment rs rest : line_ok rs = true ->
  next_tok O (47 :: 47 :: rs ++ 10 :: rest) = Some (TComment false (str_bytes rs), rest, O).
Proof. intro H. cbn [next_tok]. change (is_ws 47) with false. cbv iota. change (47 =? 47) with true. cbv iota.
  rewrite line_comment_ok by exact H. reflexivity. Qed.

Lemma tok_block_comment rs rest : blk_plain PNone rs = true ->
  next_tok O (47 :: 42 :: rs ++ 42 :: 47 :: rest) = Some (TComment true (str_bytes rs), rest, O).
Proof. intro H. cbn [next_tok]. change (is_ws 47) with false. cbv iota. change (47 =? 47) with true. cbv iota.
  rewrite (block_comment_reads rs PNone [] rest H). reflexivity. Qed.

Definition follow (t : tree) (R : inp) : Prop := wsd R /\ (is_lc t = true -> exists R', R = 10 :: R').
Definition strip (p : bool) (s : inp) : inp := if p then tl s else s.

Lemma not_ws_range c : (48 <= c <= 57 \/ c = 45) -> is_ws c = false.
Proof. unfold is_ws. lia. Qed.

Lemma rp_head t : wf t -> forall ind, exists c r, rp ind t = c :: r /\ is_ws c = false.
Proof.
  induction t using tree_induction; intros Hwf ind; unfold rp in *; cbn [gp].
  - eexists _, _. split; [reflexivity|reflexivity].
  - destruct b; eexists _, _; split; reflexivity.
  - destruct (int_text_head false n) as [c [r [E Hc]]]. exists c, r. split; [exact E|apply not_ws_range, Hc].
  - destruct (int_text_head true n) as [c [r [E Hc]]]. exists c, r. split; [exact E|apply not_ws_range, Hc].
  - cbn [wf] in Hwf. rewrite (z_text_int z Hwf).
    destruct (int_text_head (z <? 0)%Z (Z.abs_N z)) as [c [r [E Hc]]]. exists c, r. split; [exact E|apply not_ws_range, Hc].
  - destruct k; eexists _, _; split; reflexivity.
  - destruct m; eexists _, _; split; reflexivity.
  - cbn [wf] in Hwf. destruct Hwf as [Hk _]. destruct (IHt1 Hk ind) as [c [r [E Hc]]]. rewrite E. cbn [app].
    eexists _, _. split; [reflexivity|exact Hc].
  - eexists _, _. split; reflexivity.
  - eexists _, _. split; reflexivity.
Qed.

Lemma rp_nows t : wf t -> forall ind R, nows (rp ind t ++ R).
Proof. intros Hwf ind R. destruct (rp_head t Hwf ind) as [c [r [E Hc]]]. rewrite E. exact Hc. Qed.

Section Items.
  Variables (cc : N) (ct : tok).
  Hypotheses (Hct : forall r, next_tok O (cc :: r) = Some (ct, r, O)) (Hcc : is_ws cc = false).
  Variables (ind k : N) (R : inp).
  Hypothesis Hk : 0 < k.

  Definition items_text (l : list tree) : inp := flat_map (fun x => nl k ++ rp k x) l ++ nl ind ++ cc :: R.

  Lemma items_text_head l : exists X, items_text l = 10 :: X.
  Proof. unfold items_text. destruct l; cbn [flat_map app nl]; eexists; reflexivity. Qed.

  Lemma lexes_items l :
    Forall (fun x => wf x /\ forall ind R, follow x R -> lexes (tk ind x) (rp ind x ++ R) (strip (is_lc x) R)) l ->
    forall pend,
    lexes (flat_map (fun x => TWs :: tk k x) l ++ cwp ind (pfin pend l) ++ [ct]) (strip pend (items_text l)) R.
  Proof.
    induction 1 as [|x l' [Hwf Hx] Hl IH]; intro pend.
    - unfold items_text. cbn [flat_map app pfin]. destruct pend; cbn [strip].
      + unfold nl. cbn [app tl]. unfold cwp. cbn [andb]. destruct (N.eqb_spec ind 0) as [E|E].
        * rewrite E. unfold spaces. cbn [N.to_nat repeat app]. apply lexes_one; [apply Hct|cbn [length]; lia].
        * cbn [app]. exists (cc :: R). split; [apply tok_spaces; [lia|exact Hcc]|].
          split; [rewrite app_length, spaces_length; cbn [length]; lia|]. apply lexes_one; [apply Hct|cbn [length]; lia].
      + unfold cwp. cbn [andb app]. exists (cc :: R). split; [apply tok_nl; exact Hcc|].
        split; [unfold nl; cbn [app length]; rewrite app_length; cbn [length]; lia|]. apply lexes_one; [apply Hct|cbn [length]; lia].
    - assert (Etext : items_text (x :: l') = nl k ++ rp k x ++ items_text l').
      { unfold items_text. cbn [flat_map]. rewrite <- !app_assoc. reflexivity. }
      assert (Epf : pfin pend (x :: l') = pfin (is_lc x) l') by (destruct l'; reflexivity).
      rewrite Etext, Epf. cbn [flat_map]. rewrite <- app_assoc. cbn [app].
      destruct (items_text_head l') as [X EX].
      assert (Hfollow : follow x (items_text l')).
      { rewrite EX. split; [reflexivity|]. intros _. exists X. reflexivity. }
      assert (Hn : nows (rp k x ++ items_text l')) by (apply rp_nows, Hwf).
      exists (rp k x ++ items_text l'). split; [|split].
      + destruct pend; cbn [strip]; [unfold nl; cbn [app tl]; apply tok_spaces; assumption | apply tok_nl; assumption].
      + destruct pend; cbn [strip]; unfold nl; cbn [app tl length]; rewrite !app_length, spaces_length; lia.
      + eapply lexes_app; [apply Hx, Hfollow|]. apply IH.
  Qed.
End Items.

Lemma lexes_tree t : wf t -> forall ind R, follow t R -> lexes (tk ind t) (rp ind t ++ R) (strip (is_lc t) R).
Proof.
  induction t using tree_induction; intros Hwf ind R [Hw Hlc]; unfold rp in *; cbn [gp tk is_lc strip].
  - apply lexes_one; [reflexivity|unfold CteEnc.t_null; cbn [app length]; lia].
  - destruct b; (apply lexes_one; [reflexivity|unfold CteEnc.t_true, CteEnc.t_false; cbn [app length]; lia]).
  - apply lexes_one; [apply tok_int, Hw|]. destruct (int_text_head false n) as [c [r [E _]]]. rewrite E. cbn [app length]. rewrite app_length. lia.
  - apply lexes_one; [apply tok_int, Hw|]. destruct (int_text_head true n) as [c [r [E _]]]. rewrite E. cbn [app length]. rewrite app_length. lia.
  - cbn [wf] in Hwf. rewrite (z_text_int z Hwf). apply lexes_one; [apply tok_int, Hw|].
    destruct (int_text_head (z <? 0)%Z (Z.abs_N z)) as [c [r [E _]]]. rewrite E. cbn [app length]. rewrite app_length. lia.
  - cbn [wf] in Hwf. rewrite <- app_assoc. cbn [app]. rewrite <- app_assoc. cbn [app].
    apply lexes_one; [apply tok_text, Hwf|]. rewrite !app_length. cbn [length]. rewrite app_length. cbn [length]. lia.
  - cbn [wf] in Hwf. destruct Hwf as [_ Hok]. destruct m; cbn [is_lc strip] in *.
    + cbn [app]. rewrite <- app_assoc. cbn [app]. apply lexes_one; [apply tok_block_comment, Hok|].
      cbn [length]. rewrite app_length. cbn [length]. lia.
    + destruct (Hlc eq_refl) as [R' ->]. cbn [app tl]. apply lexes_one; [apply tok_line_comment, Hok|].
      cbn [length]. rewrite app_length. cbn [length]. lia.
  - cbn [wf] in Hwf. destruct Hwf as [Hk [Hv [Vk Vv]]].
    assert (Lk : is_lc t1 = false) by (destruct t1; try reflexivity; discriminate).
    assert (Lv : is_lc t2 = false) by (destruct t2; try reflexivity; discriminate).
    rewrite <- !app_assoc. cbn [app].
    eapply lexes_app.
    { assert (F := IHt1 Hk ind (32 :: 61 :: 32 :: gp qbody (fun rs => rs) ind t2 ++ R)).
      rewrite Lk in F. cbn [strip] in F. apply F. split; [reflexivity|]. rewrite Lk. discriminate. }
    assert (Hn : nows (rp ind t2 ++ R)) by (apply rp_nows, Hv).
    exists (61 :: 32 :: gp qbody (fun rs => rs) ind t2 ++ R). split; [reflexivity|]. split; [cbn [length]; lia|].
    exists (32 :: gp qbody (fun rs => rs) ind t2 ++ R). split; [reflexivity|]. split; [cbn [length]; lia|].
    exists (gp qbody (fun rs => rs) ind t2 ++ R). split; [|split; [cbn [length]; lia|]].
    { change (32 :: gp qbody (fun rs => rs) ind t2 ++ R) with (spaces 1 ++ (rp ind t2 ++ R)). apply tok_spaces; [lia|exact Hn]. }
    assert (F := IHt2 Hv ind R). rewrite Lv in F. cbn [strip] in F. apply F. split; [exact Hw|]. rewrite Lv. discriminate.
  - apply wf_list in Hwf. destruct l as [|x l'].
    + cbn [flat_map app]. exists (93 :: R). split; [reflexivity|]. split; [cbn [length]; lia|].
      apply lexes_one; [reflexivity|cbn [length]; lia].
    + cbv iota. set (l := x :: l') in *. cbn [app]. exists (items_text 93 ind (ind + 4) R l). split; [|split].
      * unfold items_text, rp. rewrite <- !app_assoc. reflexivity.
      * unfold items_text, rp. rewrite <- !app_assoc. cbn [app length]. lia.
      * apply (lexes_items 93 TListE (fun r => eq_refl) eq_refl ind (ind + 4) R ltac:(lia) l) with (pend := false).
        rewrite Forall_forall in *. intros y Hy. split; [apply Hwf, Hy|]. intros ind' R' F. apply H; [exact Hy|apply Hwf, Hy|exact F].
  - apply wf_map in Hwf. destruct l as [|x l'].
    + cbn [flat_map app]. exists (125 :: R). split; [reflexivity|]. split; [cbn [length]; lia|].
      apply lexes_one; [reflexivity|cbn [length]; lia].
    + cbv iota. set (l := x :: l') in *. cbn [app]. exists (items_text 125 ind (ind + 4) R l). split; [|split].
      * unfold items_text, rp. rewrite <- !app_assoc. reflexivity.
      * unfold items_text, rp. rewrite <- !app_assoc. cbn [app length]. lia.
      * apply (lexes_items 125 TBraceE (fun r => eq_refl) eq_refl ind (ind + 4) R ltac:(lia) l) with (pend := false).
        rewrite Forall_forall in *. intros y Hy. split; [apply Hwf, Hy|]. intros ind' R' F. apply H; [exact Hy|apply Hwf, Hy|exact F].
Qed.

(* ------------------------------------------------------------------ *)
(** * From tokens to events *)

Definition vhead (t : tok) : bool := match t with TVal _ | TListB | TMapB => true | _ => false end.

Lemma tk_value_head t ind : is_value t = true -> exists t0 r, tk ind t = t0 :: r /\ vhead t0 = true.
Proof. destruct t; intro H; try discriminate; cbn [tk]; eexists _, _; split; reflexivity. Qed.

Lemma skip_seps_vhead t0 r : vhead t0 = true -> skip_seps (t0 :: r) = ([], t0 :: r, false).
Proof. destruct t0; intro H; try discriminate; reflexivity. Qed.

Lemma skip_seps_ws_vhead t0 r : vhead t0 = true -> skip_seps (TWs :: t0 :: r) = ([], t0 :: r, true).
Proof. destruct t0; intro H; try discriminate; reflexivity. Qed.

Lemma p_items_ws f k n T res : p_items f k n T = Some res -> p_items f k n (TWs :: T) = Some res.
Proof.
  destruct f as [|f]; [discriminate|]. cbn [p_items skip_seps].
  destruct (skip_seps T) as [[cs ts1] sep]. destruct ts1 as [|t r]; [discriminate|].
  destruct (closes k t); [exact (fun H => H)|].
  destruct ((0 <? n)%nat && negb sep); [discriminate|]. rewrite andb_false_r. exact (fun H => H).
Qed.

Lemma p_items_com f k n m b T es r : p_items f k n T = Some (es, r) -> p_items f k n (TComment m b :: T) = Some (EComment m b :: es, r).
Proof.
  destruct f as [|f]; [discriminate|]. cbn [p_items skip_seps].
  destruct (skip_seps T) as [[cs ts1] sep]. destruct ts1 as [|t r0]; [discriminate|].
  destruct (closes k t).
  - destruct (count_ok k n); [|discriminate]. intro H. inversion H; subst. reflexivity.
  - destruct ((0 <? n)%nat && negb sep); [discriminate|]. rewrite andb_false_r.
    destruct (p_value f (t :: r0)) as [[es1 ts2]|]; [|discriminate].
    destruct (p_items f k (S n) ts2) as [[es2 ts3]|]; [|discriminate].
    intro H. inversion H; subst. reflexivity.
Qed.

Lemma p_pairs_ws f first T res : p_pairs f first T = Some res -> p_pairs f first (TWs :: T) = Some res.
Proof.
  destruct f as [|f]; [discriminate|]. cbn [p_pairs skip_seps].
  destruct (skip_seps T) as [[cs ts1] sep]. destruct ts1 as [|t r]; [discriminate|].
  destruct t; try exact (fun H => H);
    (destruct (negb first && negb sep); [discriminate|]; rewrite andb_false_r; exact (fun H => H)).
Qed.

Lemma p_pairs_com f first m b T es r : p_pairs f first T = Some (es, r) -> p_pairs f first (TComment m b :: T) = Some (EComment m b :: es, r).
Proof.
  destruct f as [|f]; [discriminate|]. cbn [p_pairs skip_seps].
  destruct (skip_seps T) as [[cs ts1] sep]. destruct ts1 as [|t r0]; [discriminate|].
  assert (G : forall X : option (list event * list tok),
            match X with Some (es2, ts7) => Some (cs ++ es2, ts7) | None => None end = Some (es, r) ->
            match X with Some (es2, ts7) => Some ((EComment m b :: cs) ++ es2, ts7) | None => None end = Some (EComment m b :: es, r)).
  { intros [[a c]|] H; [|discriminate]. inversion H; subst. reflexivity. }
  destruct t;
    try (destruct (negb first && negb sep); [discriminate|]; rewrite andb_false_r;
         match goal with |- context [p_value f ?ts] => destruct (p_value f ts) as [[kes ts2]|]; [|discriminate] end;
         destruct (skip_seps ts2) as [[cs2 ts3] s2]; destruct ts3 as [|t3 ts4]; [discriminate|];
         destruct t3; try discriminate;
         destruct (skip_seps ts4) as [[cs3 ts5] s3];
         destruct (p_value f ts5) as [[ves ts6]|]; [|discriminate];
         destruct (p_pairs f false ts6) as [[es2 ts7]|]; [|discriminate];
         intro H; inversion H; subst; reflexivity).
  intro H. inversion H; subst. reflexivity.
Qed.

Definition parses (t : tree) : Prop :=
  wf t -> is_value t = true -> forall ind f rest, (length (tk ind t) < f)%nat ->
  p_value f (tk ind t ++ rest) = Some (rd_events t, rest).

Definition item_toks (i : N) (l : list tree) : list tok := flat_map (fun x => TWs :: tk i x) l.

Lemma p_items_value_step x i T f n es rest :
  parses x -> wf x -> is_value x = true -> (length (tk i x) < f)%nat ->
  p_items f CList (S n) T = Some (es, rest) ->
  p_items (S f) CList n (TWs :: tk i x ++ T) = Some (rd_events x ++ es, rest).
Proof.
  intros Hx Hwf Hv Hf HT.
  destruct (tk_value_head x i Hv) as [t0 [r0 [E0 V0]]].
  assert (Hp := Hx Hwf Hv i f T Hf).
  cbn [p_items]. rewrite E0 in *. cbn [app] in *. rewrite (skip_seps_ws_vhead _ _ V0).
  assert (Hcl : closes CList t0 = false) by (destruct t0; try discriminate; reflexivity).
  rewrite Hcl. rewrite andb_false_r. rewrite Hp, HT. reflexivity.
Qed.

Lemma p_items_list i l :
  Forall (fun x => (wf x /\ is_pair x = false) /\ parses x) l ->
  forall cw, cw = [] \/ cw = [TWs] ->
  forall f n rest, (length (item_toks i l ++ cw ++ [TListE]) < f)%nat ->
  p_items f CList n (item_toks i l ++ cw ++ TListE :: rest) = Some (flat_map rd_events l ++ [EEnd], rest).
Proof.
  induction 1 as [|x l' [[Hwf Hnp] Hx] Hl IH]; intros cw Hcw f n rest Hf.
  - cbn [item_toks flat_map app]. destruct f as [|f]; [cbn in Hf; lia|].
    destruct Hcw as [-> | ->]; reflexivity.
  - unfold item_toks in *. cbn [flat_map] in *. rewrite <- !app_assoc in *. cbn [app] in *.
    cbn [length] in Hf. rewrite !app_length in Hf. cbn [length] in Hf.
    destruct (is_value x) eqn:V.
    + destruct f as [|f]; [lia|]. apply p_items_value_step; try assumption; [lia|].
      apply (IH cw Hcw). rewrite !app_length. cbn [length]. lia.
    + destruct x; try discriminate.
      cbn [tk app rd_events]. apply p_items_ws, p_items_com. apply (IH cw Hcw).
      rewrite !app_length. cbn [length]. cbn [tk length] in Hf. lia.
Qed.

Lemma p_pairs_pair_step k v i T f first es rest :
  parses k -> parses v -> wf k -> wf v -> is_value k = true -> is_value v = true ->
  (length (tk i k) < f)%nat -> (length (tk i v) < f)%nat ->
  p_pairs f false T = Some (es, rest) ->
  p_pairs (S f) first (TWs :: tk i k ++ TWs :: TEq :: TWs :: tk i v ++ T) = Some (rd_events k ++ rd_events v ++ es, rest).
Proof.
  intros Pk Pv Wk Wv Vk Vv Fk Fv HT.
  destruct (tk_value_head k i Vk) as [t0 [r0 [E0 V0]]].
  destruct (tk_value_head v i Vv) as [t1 [r1 [E1 V1]]].
  assert (Hk := Pk Wk Vk i f (TWs :: TEq :: TWs :: tk i v ++ T) Fk).
  assert (Hv := Pv Wv Vv i f T Fv).
  cbn [p_pairs]. rewrite E0 in *. cbn [app] in *. rewrite (skip_seps_ws_vhead _ _ V0).
  rewrite andb_false_r.
  assert (Hm : forall (A : Type) (a b : A) ,
            match t0 :: r0 ++ TWs :: TEq :: TWs :: tk i v ++ T with
            | [] => a | TBraceE :: _ => a | _ => b end = b).
  { intros. destruct t0; try discriminate; reflexivity. }
  destruct t0; try discriminate V0;
    (rewrite Hk; cbn [skip_seps]; rewrite E1 in *; cbn [app] in *; rewrite (skip_seps_vhead _ _ V1);
     rewrite Hv, HT; reflexivity).
Qed.

Lemma p_pairs_map i l :
  Forall (fun x => (wf x /\ is_value x = false) /\ (forall k v, x = VPair k v -> parses k /\ parses v)) l ->
  forall cw, cw = [] \/ cw = [TWs] ->
  forall f first rest, (length (item_toks i l ++ cw ++ [TBraceE]) < f)%nat ->
  p_pairs f first (item_toks i l ++ cw ++ TBraceE :: rest) = Some (flat_map rd_events l ++ [EEnd], rest).
Proof.
  induction 1 as [|x l' [[Hwf Hnv] Hx] Hl IH]; intros cw Hcw f first rest Hf.
  - cbn [item_toks flat_map app]. destruct f as [|f]; [cbn in Hf; lia|].
    destruct Hcw as [-> | ->]; reflexivity.
  - unfold item_toks in *. cbn [flat_map] in *. rewrite <- !app_assoc in *. cbn [app] in *.
    destruct x; try discriminate.
    + cbn [tk app rd_events] in *. apply p_pairs_ws, p_pairs_com. apply (IH cw Hcw).
      cbn [length] in Hf. lia.
    + destruct (Hx x1 x2 eq_refl) as [P1 P2]. cbn [wf] in Hwf. destruct Hwf as [W1 [W2 [V1 V2]]].
      cbn [tk rd_events] in *. rewrite <- !app_assoc in *. cbn [app] in *.
      cbn [length] in Hf. repeat (rewrite app_length in Hf; cbn [length] in Hf).
      destruct f as [|f]; [lia|]. apply p_pairs_pair_step; try assumption; try lia.
      apply (IH cw Hcw). repeat (rewrite app_length; cbn [length]). lia.
Qed.

Definition parses2 (t : tree) : Prop := parses t /\ (forall k v, t = VPair k v -> parses k /\ parses v).

Lemma cw_cases ind (l : list tree) :
  (match l with [] => [] | _ => cwp ind (pfin false l) end) = [] \/ (match l with [] => [] | _ => cwp ind (pfin false l) end) = [TWs].
Proof. destruct l; [left; reflexivity|]. unfold cwp. destruct (_ && _); [left|right]; reflexivity. Qed.

Lemma parses_all t : parses2 t.
Proof.
  induction t using tree_induction; (split; [|try (intros k0 v0 E; discriminate E)]);
    try (intros Hwf Hv ind f rest Hf; first [cbn in Hv; discriminate Hv | destruct f as [|f]; [cbn in Hf; lia|]; reflexivity]).
  - intros k0 v0 E. inversion E; subst. split; [apply IHt1|apply IHt2].
  - (* list *)
    intros Hwf Hv ind f rest Hf.
    apply wf_list in Hwf. cbn [tk rd_events] in *. destruct f as [|f]; [cbn in Hf; lia|].
    cbn [app p_value]. cbn [length] in Hf. rewrite <- !app_assoc. cbn [app].
    fold (item_toks (ind + 4) l) in *. rewrite (p_items_list (ind + 4) l).
    + reflexivity.
    + rewrite Forall_forall in *. intros x Hx. split; [apply Hwf, Hx|apply H, Hx].
    + apply cw_cases.
    + lia.
  - (* map *)
    intros Hwf Hv ind f rest Hf.
    apply wf_map in Hwf. cbn [tk rd_events] in *. destruct f as [|f]; [cbn in Hf; lia|].
    cbn [app p_value]. cbn [length] in Hf. rewrite <- !app_assoc. cbn [app].
    fold (item_toks (ind + 4) l) in *. rewrite (p_pairs_map (ind + 4) l).
    + reflexivity.
    + rewrite Forall_forall in *. intros x Hx. split; [apply Hwf, Hx|apply H, Hx].
    + apply cw_cases.
    + lia.
Qed.

(* ------------------------------------------------------------------ *)
(** * The reader on the encoder's layout *)

Lemma lex_nil f idx : lex f idx [] = Some [].
Proof. destruct f; reflexivity. Qed.

Lemma value_not_lc t : is_value t = true -> is_lc t = false.
Proof. destruct t; try reflexivity; discriminate. Qed.

Theorem read_pp_doc t : wf t -> is_value t = true -> cte_read (pp_doc t) = Some (document (rd_events t)).
Proof.
  intros Hwf Hv. unfold cte_read, pp_doc.
  rewrite !runes_ascii_cons by lia. rewrite runes_ascii_app by apply ascii_nl.
  rewrite <- (app_nil_r (pp 0 t)). rewrite runes_pp by exact Hwf. rewrite runes_nil.
  cbn [read_runes]. change ((lower 99 =? 99) && ((48 =? 48) || (48 =? 49))) with true. cbv iota.
  assert (HL : lexes (TWs :: tk 0 t) (nl 0 ++ rp 0 t ++ []) []).
  { exists (rp 0 t ++ []). split; [apply tok_nl, rp_nows, Hwf|]. split; [unfold nl; cbn [app length]; rewrite !app_length; lia|].
    assert (F := lexes_tree t Hwf 0 []). rewrite (value_not_lc t Hv) in F. apply F. split; [exact I|]. intro Hc. rewrite (value_not_lc t Hv) in Hc. discriminate Hc. }
  assert (Hlen := lexes_length _ _ _ HL). cbn [length] in Hlen.
  assert (Hfuel : S (length (nl 0 ++ rp 0 t ++ [])) = (length (TWs :: tk 0 t) + (S (length (nl 0 ++ rp 0 t ++ [])) - length (TWs :: tk 0 t)))%nat)
    by (cbn [length]; lia).
  rewrite Hfuel, (lex_lexes _ _ _ HL), lex_nil. cbn [option_map]. rewrite app_nil_r.
  destruct (tk_value_head t 0 Hv) as [t0 [r0 [E0 V0]]].
  assert (Hp := proj1 (parses_all t) Hwf Hv 0 (2 * length (tk 0 t) + 3)%nat [] ltac:(lia)).
  rewrite app_nil_r in Hp.
  replace (2 * length (tk 0 t) + 4)%nat with (S (2 * length (tk 0 t) + 3)) by lia.
  cbn [p_top]. rewrite E0 in *. rewrite (skip_seps_vhead _ _ V0).
  destruct t0; try discriminate V0; rewrite Hp; reflexivity.
Qed.

(* ------------------------------------------------------------------ *)
(** * The encoder model writes exactly this layout *)


Definition emits (txt : bytes) (s s' : CteEnc.est) : Prop :=
  CteEnc.rout s' = rev txt ++ CteEnc.rout s /\ CteEnc.ind s' = CteEnc.ind s /\ CteEnc.stack s' = CteEnc.stack s /\ CteEnc.cho s' = CteEnc.cho s.

Lemma emits_refl s : emits [] s s.
Proof. repeat split. Qed.

Lemma emits_trans a b s s1 s2 : emits a s s1 -> emits b s1 s2 -> emits (a ++ b) s s2.
Proof.
  intros [A1 [A2 [A3 A4]]] [B1 [B2 [B3 B4]]]. repeat split; try congruence.
  rewrite B1, A1, rev_app_distr, app_assoc. reflexivity.
Qed.

Lemma emits_emit_cd bs d s : emits bs s (CteEnc.emit_cd bs d s).
Proof. unfold emits, CteEnc.emit_cd. cbn [CteEnc.rout CteEnc.ind CteEnc.stack CteEnc.cho]. rewrite rev_append_rev. repeat split. Qed.
Lemma emits_emit_nolf bs s : emits bs s (CteEnc.emit_nolf bs s).
Proof. apply emits_emit_cd. Qed.
Lemma emits_emit_raw bs s : emits bs s (CteEnc.emit_raw bs s).
Proof. apply emits_emit_cd. Qed.
Lemma emits_emit_setcol bs c s : emits bs s (CteEnc.emit_setcol bs c s).
Proof. unfold emits, CteEnc.emit_setcol. cbn [CteEnc.rout CteEnc.ind CteEnc.stack CteEnc.cho]. rewrite rev_append_rev. repeat split. Qed.
Lemma emits_emit_plf bs s : emits bs s (CteEnc.emit_plf bs s).
Proof. unfold CteEnc.emit_plf. destruct (CteEnc.plf_col bs); [apply emits_emit_setcol|apply emits_emit_raw]. Qed.

Lemma emits_newline_indent s : emits (nl (CteEnc.ind s)) s (CteEnc.newline_indent s).
Proof.
  unfold CteEnc.newline_indent, CteEnc.emit_lf. change (nl (CteEnc.ind s)) with ([10] ++ CteEnc.spaces (CteEnc.ind s)).
  eapply emits_trans; [apply emits_emit_setcol|].
  assert (E : CteEnc.ind (CteEnc.emit_setcol [10] 0 s) = CteEnc.ind s) by reflexivity. rewrite <- E at 1. 
  replace (CteEnc.spaces (CteEnc.ind s)) with (CteEnc.spaces (CteEnc.ind (CteEnc.emit_setcol [10] 0 s))) by reflexivity.
  apply emits_emit_nolf.
Qed.

Lemma emits_emit_rune lf r s : scalar r -> (lf = true -> True) -> emits (CteEnc.encode_rune r) s (CteEnc.emit_rune lf r s).
Proof.
  intros Hr _. unfold CteEnc.emit_rune. destruct (lf && (r =? 10)) eqn:E.
  - apply andb_true_iff in E as [_ E]. apply N.eqb_eq in E. subst r. apply emits_emit_setcol.
  - apply emits_emit_nolf.
Qed.

Lemma emits_fold_quoted lf rs : Forall scalar rs -> forall s,
  emits (qbytes rs) s (fold_left (fun s r => if CteEnc.rune_safe r then CteEnc.emit_rune lf r s else CteEnc.emit_nolf (CteEnc.escape_rune r) s) rs s).
Proof.
  induction 1 as [|r rs Hr Hrs IH]; intro s; [apply emits_refl|].
  cbn [fold_left]. unfold qbytes. cbn [flat_map]. fold (qbytes rs).
  eapply emits_trans; [|apply IH].
  destruct (CteEnc.rune_safe r); [apply emits_emit_rune; [exact Hr|trivial]|apply emits_emit_nolf].
Qed.

Lemma qbytes_all_safe rs : Forall scalar rs -> forallb CteEnc.rune_safe rs = true -> qbytes rs = str_bytes rs.
Proof.
  induction 1 as [|r rs Hr Hrs IH]; intro H; [reflexivity|].
  cbn [forallb] in H. apply andb_true_iff in H as [H1 H2].
  unfold qbytes, str_bytes, CteLit.utf8_str. cbn [flat_map]. rewrite H1. rewrite encode_rune_enc by exact Hr.
  f_equal. apply IH, H2.
Qed.

Lemma runes_str_bytes rs : Forall scalar rs -> runes (str_bytes rs) = rs.
Proof. intro H. rewrite <- (app_nil_r (str_bytes rs)). unfold str_bytes. rewrite runes_utf8_str_app by exact H. apply app_nil_r. Qed.

(* WriteQuotedString on the UTF-8 text of the code points [rs] *)
Lemma emits_write_quoted lf rs s : Forall scalar rs -> emits (34 :: qbytes rs ++ [34]) s (CteEnc.write_quoted lf (str_bytes rs) s).
Proof.
  intro Hs. unfold CteEnc.write_quoted. destruct (str_bytes rs) as [|b v] eqn:Ev.
  - assert (rs = []).
    { destruct rs as [|r rs']; [reflexivity|]. exfalso. unfold str_bytes, CteLit.utf8_str in Ev. cbn [flat_map] in Ev.
      apply app_eq_nil in Ev as [Ev _]. unfold CteLit.utf8_enc in Ev.
      repeat match type of Ev with (if ?b then _ else _) = [] => destruct b end; discriminate. }
    subst rs. apply (emits_emit_nolf [34; 34]).
  - rewrite <- Ev. rewrite (runes_str_bytes rs Hs).
    change (34 :: qbytes rs ++ [34]) with ([34] ++ qbytes rs ++ [34]).
    destruct (forallb CteEnc.rune_safe rs) eqn:Esafe.
    + rewrite (qbytes_all_safe rs Hs Esafe).
      eapply emits_trans; [apply emits_emit_nolf|]. eapply emits_trans; [|apply emits_emit_nolf].
      destruct lf; [apply emits_emit_plf|apply emits_emit_nolf].
    + eapply emits_trans; [apply emits_emit_nolf|]. eapply emits_trans; [|apply emits_emit_nolf].
      apply emits_fold_quoted, Hs.
Qed.

Definition vctx (d : CteEnc.deco) : bool :=
  match d with CteEnc.DTop | CteEnc.DList | CteEnc.DMapKey | CteEnc.DMapValue => true | _ => false end.
Definition ctx_pre (d : CteEnc.deco) (i : N) : bytes := match d with CteEnc.DList | CteEnc.DMapKey => nl i | _ => [] end.
Definition post_v (d : CteEnc.deco) : bytes := match d with CteEnc.DMapKey => [32; 61; 32] | _ => [] end.
Definition next_v (d : CteEnc.deco) : CteEnc.deco :=
  match d with CteEnc.DMapKey => CteEnc.DMapValue | CteEnc.DMapValue => CteEnc.DMapKey | _ => d end.

Definition outcome_of (txt : bytes) (st' : list CteEnc.deco) (s s' : CteEnc.est) : Prop :=
  CteEnc.rout s' = rev txt ++ CteEnc.rout s /\ CteEnc.ind s' = CteEnc.ind s /\ CteEnc.stack s' = st' /\ CteEnc.cho s' = true.

Lemma before_value_spec s d stk : CteEnc.stack s = d :: stk -> vctx d = true ->
  exists s1, CteEnc.before_value s = Some s1 /\ emits (ctx_pre d (CteEnc.ind s)) s s1.
Proof.
  intros Hs Hd. unfold CteEnc.before_value. rewrite Hs.
  destruct d; try discriminate Hd; eexists; (split; [reflexivity|]); cbn [ctx_pre];
    first [apply emits_refl | apply emits_newline_indent].
Qed.

Lemma after_value_spec s d stk : CteEnc.stack s = d :: stk -> vctx d = true ->
  exists s', CteEnc.after_value s = Some s' /\ outcome_of (post_v d) (next_v d :: stk) s s'.
Proof.
  intros Hs Hd. unfold CteEnc.after_value, outcome_of. rewrite Hs.
  destruct d; try discriminate Hd; cbn [CteEnc.after_stack post_v next_v]; eexists; (split; [reflexivity|]);
    unfold CteEnc.set_cho, CteEnc.set_stack, CteEnc.emit_nolf, CteEnc.emit_cd; cbn [CteEnc.rout CteEnc.ind CteEnc.stack CteEnc.cho];
    repeat split.
Qed.

Lemma value_enc (W : CteEnc.est -> CteEnc.est) txt s d stk :
  (forall s, emits txt s (W s)) -> CteEnc.stack s = d :: stk -> vctx d = true ->
  exists s', CteEnc.bind (CteEnc.before_value s) (fun s1 => CteEnc.after_value (W s1)) = Some s' /\
             outcome_of (ctx_pre d (CteEnc.ind s) ++ txt ++ post_v d) (next_v d :: stk) s s'.
Proof.
  intros HW Hs Hd.
  destruct (before_value_spec s d stk Hs Hd) as [s1 [E1 [A1 [A2 [A3 A4]]]]].
  destruct (HW s1) as [B1 [B2 [B3 B4]]].
  assert (Hs2 : CteEnc.stack (W s1) = d :: stk) by congruence.
  destruct (after_value_spec (W s1) d stk Hs2 Hd) as [s' [E2 [C1 [C2 [C3 C4]]]]].
  exists s'. rewrite E1. cbn [CteEnc.bind]. split; [exact E2|].
  unfold outcome_of. repeat split; try congruence.
  rewrite C1, B1, A1. rewrite !rev_app_distr, !app_assoc. reflexivity.
Qed.

Lemma scalar_enc txt cd s d stk : CteEnc.stack s = d :: stk -> vctx d = true ->
  exists s', CteEnc.scalar txt cd s = Some s' /\ outcome_of (ctx_pre d (CteEnc.ind s) ++ txt ++ post_v d) (next_v d :: stk) s s'.
Proof. intros. unfold CteEnc.scalar. apply (value_enc (CteEnc.emit_cd txt cd)); try assumption. intro. apply emits_emit_cd. Qed.

Definition ctx_post (d : CteEnc.deco) (t : tree) : bytes := if is_value t then post_v d else [].
Definition ctx_next (d : CteEnc.deco) (t : tree) : CteEnc.deco := if is_value t then next_v d else d.
Definition ctx_ok (d : CteEnc.deco) (t : tree) : bool :=
  match d with
  | CteEnc.DTop | CteEnc.DMapValue => is_value t
  | CteEnc.DList => negb (is_pair t)
  | CteEnc.DMapKey => true
  | _ => false
  end.

Definition encodes (t : tree) : Prop :=
  wf t -> forall c s d stk, CteEnc.stack s = d :: stk -> ctx_ok d t = true ->
  exists s', CteEnc.run c s (events_of t) = Some s' /\
             outcome_of (ctx_pre d (CteEnc.ind s) ++ pp (CteEnc.ind s) t ++ ctx_post d t) (ctx_next d t :: stk) s s'.

Lemma ctx_ok_vctx d t : ctx_ok d t = true -> vctx d = true.
Proof. destruct d; try discriminate; reflexivity. Qed.

Lemma run_one c s e : CteEnc.run c s [e] = CteEnc.step c s e.
Proof. cbn [CteEnc.run]. destruct (CteEnc.step c s e); reflexivity. Qed.

Lemma encodes_scalars :
  encodes VNull /\ (forall pl b, encodes (VBool pl b)) /\ (forall n, encodes (VPos n)) /\ (forall n, encodes (VNeg n)) /\
  (forall z, encodes (VInt z)) /\ (forall k w rs, encodes (VStr k w rs)).
Proof.
  repeat split; intros; intros Hwf c s d stk Hs Hok; assert (Hd := ctx_ok_vctx _ _ Hok);
    cbn [events_of]; rewrite run_one; unfold ctx_post, ctx_next; cbn [is_value]; unfold pp; cbn [gp CteEnc.step].
  - apply scalar_enc; assumption.
  - destruct pl, b; cbn [CteEnc.step]; apply scalar_enc; assumption.
  - apply scalar_enc; assumption.
  - apply (scalar_enc (45 :: CteEnc.dec n)); assumption.
  - unfold z_text. destruct (0 <=? z)%Z; apply scalar_enc; assumption.
  - cbn [wf] in Hwf.
    assert (G : exists s', CteEnc.bind (CteEnc.before_value s)
                             (fun s1 => CteEnc.after_value
                                (match k with
                                 | KStr => CteEnc.write_quoted true (str_bytes rs) s1
                                 | KRid => CteEnc.write_quoted false (str_bytes rs) (CteEnc.emit_nolf [64] s1)
                                 | KRef => CteEnc.write_quoted false (str_bytes rs) (CteEnc.emit_nolf [36] s1)
                                 end)) = Some s' /\
                           outcome_of (ctx_pre d (CteEnc.ind s) ++ (spre k ++ 34 :: qbytes rs ++ [34]) ++ post_v d) (next_v d :: stk) s s').
    { apply (value_enc (fun s1 => match k with
                                  | KStr => CteEnc.write_quoted true (str_bytes rs) s1
                                  | KRid => CteEnc.write_quoted false (str_bytes rs) (CteEnc.emit_nolf [64] s1)
                                  | KRef => CteEnc.write_quoted false (str_bytes rs) (CteEnc.emit_nolf [36] s1)
                                  end)); try assumption.
      intro s0. destruct k; cbn [spre app].
      - apply emits_write_quoted, Hwf.
      - apply (emits_trans [64] _ s0 (CteEnc.emit_nolf [64] s0)); [apply emits_emit_nolf|apply emits_write_quoted, Hwf].
      - apply (emits_trans [36] _ s0 (CteEnc.emit_nolf [36] s0)); [apply emits_emit_nolf|apply emits_write_quoted, Hwf]. }
    destruct G as [s' [E O]]. exists s'. split; [|exact O].
    rewrite <- E. destruct w, k; cbn [sty CteEnc.step]; destruct (CteEnc.before_value s); reflexivity.
Qed.

Lemma run_app c s a b : CteEnc.run c s (a ++ b) = CteEnc.bind (CteEnc.run c s a) (fun m => CteEnc.run c m b).
Proof.
  revert s. induction a as [|e a IH]; intro s; cbn [app CteEnc.run CteEnc.bind]; [reflexivity|].
  destruct (CteEnc.step c s e); cbn [CteEnc.bind]; [apply IH|reflexivity].
Qed.

Lemma encodes_comment m rs : encodes (VCom m rs).
Proof.
  intros Hwf c s d stk Hs Hok. cbn [events_of]. rewrite run_one. unfold ctx_post, ctx_next. cbn [is_value].
  unfold pp. cbn [gp CteEnc.step]. unfold CteEnc.before_comment, CteEnc.after_comment. rewrite Hs.
  destruct d; try discriminate Hok; cbn [CteEnc.bind ctx_pre].
  - (* in a list *)
    assert (E1 := emits_newline_indent s). destruct E1 as [A1 [A2 [A3 A4]]].
    destruct m.
    + set (s1 := CteEnc.newline_indent s) in *.
      set (s2 := CteEnc.emit_nolf [47; 42] s1). set (s3 := CteEnc.emit_plf (str_bytes rs) s2). set (s4 := CteEnc.emit_nolf [42; 47] s3).
      assert (H4 : emits (([47; 42] ++ str_bytes rs) ++ [42; 47]) s1 s4).
      { eapply emits_trans; [eapply emits_trans; [apply emits_emit_nolf|apply emits_emit_plf]|apply emits_emit_nolf]. }
      destruct H4 as [B1 [B2 [B3 B4]]].
      assert (Hst : CteEnc.stack s4 = CteEnc.DList :: stk) by congruence. rewrite Hst.
      eexists. split; [reflexivity|]. unfold outcome_of, CteEnc.set_cho. cbn [CteEnc.rout CteEnc.ind CteEnc.stack CteEnc.cho].
      repeat split; try congruence. rewrite B1, A1. rewrite app_assoc, <- rev_app_distr. f_equal. f_equal.
      rewrite ?app_nil_r. cbn [app]. rewrite <- ?app_assoc. cbn [app]. reflexivity.
    + set (s1 := CteEnc.newline_indent s) in *.
      set (s2 := CteEnc.emit_nolf [47; 47] s1). set (s3 := CteEnc.emit_nolf (str_bytes rs) s2).
      assert (H4 : emits ([47; 47] ++ str_bytes rs) s1 s3).
      { eapply emits_trans; apply emits_emit_nolf. }
      destruct H4 as [B1 [B2 [B3 B4]]].
      assert (Hst : CteEnc.stack s3 = CteEnc.DList :: stk) by congruence. rewrite Hst.
      eexists. split; [reflexivity|]. unfold outcome_of, CteEnc.set_cho. cbn [CteEnc.rout CteEnc.ind CteEnc.stack CteEnc.cho].
      repeat split; try congruence. rewrite B1, A1. rewrite app_assoc, <- rev_app_distr. f_equal. f_equal.
      rewrite ?app_nil_r. cbn [app]. rewrite <- ?app_assoc. cbn [app]. reflexivity.
  - (* before a key *)
    assert (E1 := emits_newline_indent s). destruct E1 as [A1 [A2 [A3 A4]]].
    destruct m.
    + set (s1 := CteEnc.newline_indent s) in *.
      set (s2 := CteEnc.emit_nolf [47; 42] s1). set (s3 := CteEnc.emit_plf (str_bytes rs) s2). set (s4 := CteEnc.emit_nolf [42; 47] s3).
      assert (H4 : emits (([47; 42] ++ str_bytes rs) ++ [42; 47]) s1 s4).
      { eapply emits_trans; [eapply emits_trans; [apply emits_emit_nolf|apply emits_emit_plf]|apply emits_emit_nolf]. }
      destruct H4 as [B1 [B2 [B3 B4]]].
      assert (Hst : CteEnc.stack s4 = CteEnc.DMapKey :: stk) by congruence. rewrite Hst.
      eexists. split; [reflexivity|]. unfold outcome_of, CteEnc.set_cho. cbn [CteEnc.rout CteEnc.ind CteEnc.stack CteEnc.cho].
      repeat split; try congruence. rewrite B1, A1. rewrite app_assoc, <- rev_app_distr. f_equal. f_equal.
      rewrite ?app_nil_r. cbn [app]. rewrite <- ?app_assoc. cbn [app]. reflexivity.
    + set (s1 := CteEnc.newline_indent s) in *.
      set (s2 := CteEnc.emit_nolf [47; 47] s1). set (s3 := CteEnc.emit_nolf (str_bytes rs) s2).
      assert (H4 : emits ([47; 47] ++ str_bytes rs) s1 s3).
      { eapply emits_trans; apply emits_emit_nolf. }
      destruct H4 as [B1 [B2 [B3 B4]]].
      assert (Hst : CteEnc.stack s3 = CteEnc.DMapKey :: stk) by congruence. rewrite Hst.
      eexists. split; [reflexivity|]. unfold outcome_of, CteEnc.set_cho. cbn [CteEnc.rout CteEnc.ind CteEnc.stack CteEnc.cho].
      repeat split; try congruence. rewrite B1, A1. rewrite app_assoc, <- rev_app_distr. f_equal. f_equal.
      rewrite ?app_nil_r. cbn [app]. rewrite <- ?app_assoc. cbn [app]. reflexivity.
Qed.

Lemma enc_items c d0 stk0 l :
  Forall (fun x => wf x /\ encodes x /\ ctx_ok d0 x = true /\ ctx_post d0 x = [] /\ ctx_next d0 x = d0) l ->
  ctx_pre d0 0 = nl 0 ->
  forall s, CteEnc.stack s = d0 :: stk0 ->
  exists s', CteEnc.run c s (flat_map events_of l) = Some s' /\
             CteEnc.rout s' = rev (flat_map (fun x => nl (CteEnc.ind s) ++ pp (CteEnc.ind s) x) l) ++ CteEnc.rout s /\
             CteEnc.ind s' = CteEnc.ind s /\ CteEnc.stack s' = d0 :: stk0 /\
             CteEnc.cho s' = match l with [] => CteEnc.cho s | _ => true end.
Proof.
  intros Hl Hpre. induction Hl as [|x l' [Hwf [Hx [Hok [Hpost Hnext]]]] Hl' IH]; intros s Hs.
  - exists s. cbn [flat_map CteEnc.run rev app]. repeat split. exact Hs.
  - cbn [flat_map]. rewrite run_app.
    destruct (Hx Hwf c s d0 stk0 Hs Hok) as [s1 [E1 [A1 [A2 [A3 A4]]]]].
    rewrite E1. cbn [CteEnc.bind]. rewrite Hnext in A3.
    destruct (IH s1 A3) as [s2 [E2 [B1 [B2 [B3 B4]]]]].
    exists s2. split; [exact E2|]. repeat split; try congruence.
    + rewrite B1, A1, A2, Hpost, app_nil_r.
      assert (Ep : ctx_pre d0 (CteEnc.ind s) = nl (CteEnc.ind s)) by (destruct d0; try discriminate Hpre; reflexivity).
      rewrite Ep. rewrite !rev_app_distr, <- !app_assoc. reflexivity.
    + rewrite B4. destruct l'; [exact A4|reflexivity].
Qed.

Lemma encodes_pair k v : encodes k -> encodes v -> encodes (VPair k v).
Proof.
  intros Hk Hv Hwf c s d stk Hs Hok. cbn [wf] in Hwf. destruct Hwf as [Wk [Wv [Vk Vv]]].
  destruct d; try discriminate Hok. cbn [events_of]. rewrite run_app.
  destruct (Hk Wk c s CteEnc.DMapKey stk Hs eq_refl) as [s1 [E1 [A1 [A2 [A3 A4]]]]].
  rewrite E1. cbn [CteEnc.bind]. unfold ctx_post, ctx_next in A1, A3. rewrite Vk in A1, A3. cbn [post_v next_v] in A1, A3.
  assert (Hok2 : ctx_ok CteEnc.DMapValue v = true) by exact Vv.
  destruct (Hv Wv c s1 CteEnc.DMapValue stk A3 Hok2) as [s2 [E2 [B1 [B2 [B3 B4]]]]].
  exists s2. split; [exact E2|]. unfold ctx_post, ctx_next in B1, B3 |- *. rewrite Vv in B1, B3. cbn [is_value post_v next_v ctx_pre] in *.
  unfold outcome_of. repeat split; try congruence.
  rewrite B1, A1, A2. rewrite app_assoc, <- rev_app_distr. f_equal. f_equal.
  unfold pp. cbn [gp]. rewrite ?app_nil_r. cbn [app]. rewrite <- ?app_assoc. cbn [app]. reflexivity.
Qed.

Lemma rev_chain (pre items closing post : bytes) oc cc R :
  rev post ++ cc :: rev closing ++ rev items ++ oc :: rev pre ++ R =
  rev (pre ++ (oc :: items ++ closing ++ [cc]) ++ post) ++ R.
Proof.
  rewrite !rev_app_distr. cbn [rev]. rewrite !rev_app_distr. cbn [rev app]. repeat (rewrite <- !app_assoc; cbn [app]). reflexivity.
Qed.

Section Container.
  Variables (c : CteEnc.ccfg) (oc cc : N) (dk : CteEnc.deco) (eopen : event).
  Hypothesis Hopen : forall s, CteEnc.step c s eopen = CteEnc.open_container true [oc] dk s.
  Hypothesis Hclose : forall s stk', CteEnc.stack s = dk :: stk' -> CteEnc.end_container s = CteEnc.close_container cc s.
  Hypothesis Hpre : ctx_pre dk 0 = nl 0.

  Lemma container_enc l s d stk :
    Forall (fun x => wf x /\ encodes x /\ ctx_ok dk x = true /\ ctx_post dk x = [] /\ ctx_next dk x = dk) l ->
    CteEnc.stack s = d :: stk -> vctx d = true ->
    exists s', CteEnc.run c s (eopen :: flat_map events_of l ++ [EEnd]) = Some s' /\
      outcome_of (ctx_pre d (CteEnc.ind s) ++
                  (oc :: flat_map (fun x => nl (CteEnc.ind s + 4) ++ pp (CteEnc.ind s + 4) x) l ++
                         (match l with [] => [] | _ => nl (CteEnc.ind s) end) ++ [cc]) ++ post_v d)
                 (next_v d :: stk) s s'.
  Proof.
    intros Hl Hs Hd. cbn [CteEnc.run]. rewrite Hopen. unfold CteEnc.open_container.
    destruct (before_value_spec s d stk Hs Hd) as [s0 [E0 [A1 [A2 [A3 A4]]]]]. rewrite E0. cbn [CteEnc.bind].
    set (s1 := CteEnc.push dk (CteEnc.set_ind (CteEnc.ind (CteEnc.set_cho false s0) + 4) (CteEnc.emit_nolf [oc] (CteEnc.set_cho false s0)))).
    assert (R1 : CteEnc.rout s1 = oc :: CteEnc.rout s0) by reflexivity.
    assert (I1 : CteEnc.ind s1 = CteEnc.ind s + 4) by (rewrite <- A2; reflexivity).
    assert (S1 : CteEnc.stack s1 = dk :: d :: stk) by (unfold s1, CteEnc.push; cbn [CteEnc.stack CteEnc.set_stack CteEnc.set_ind CteEnc.emit_nolf CteEnc.emit_cd CteEnc.set_cho]; congruence).
    assert (C1 : CteEnc.cho s1 = false) by reflexivity.
    rewrite run_app.
    destruct (enc_items c dk (d :: stk) l Hl Hpre s1 S1) as [s2 [E2 [B1 [B2 [B3 B4]]]]].
    rewrite E2. cbn [CteEnc.bind]. rewrite run_one. cbn [CteEnc.step]. rewrite (Hclose s2 _ B3).
    unfold CteEnc.close_container, CteEnc.unindent.
    assert (I2 : CteEnc.ind s2 = CteEnc.ind s + 4) by congruence.
    replace (CteEnc.ind s2 <? 4) with false by lia. cbn [CteEnc.bind].
    set (s3 := CteEnc.set_ind (CteEnc.ind s2 - 4) s2).
    assert (I3 : CteEnc.ind s3 = CteEnc.ind s) by (unfold s3; cbn [CteEnc.ind CteEnc.set_ind]; lia).
    assert (C3 : CteEnc.cho s3 = match l with [] => false | _ => true end) by (unfold s3; cbn [CteEnc.cho CteEnc.set_ind]; rewrite B4, C1; reflexivity).
    set (s4 := if CteEnc.cho s3 then CteEnc.newline_indent s3 else s3).
    assert (E4 : emits (match l with [] => [] | _ => nl (CteEnc.ind s) end) s3 s4).
    { unfold s4. rewrite C3. destruct l; [apply emits_refl|]. rewrite <- I3. apply emits_newline_indent. }
    destruct E4 as [D1 [D2 [D3 D4]]].
    set (s5 := CteEnc.emit_nolf [cc] s4).
    assert (S5 : CteEnc.stack s5 = dk :: d :: stk).
    { unfold s5. cbn [CteEnc.stack CteEnc.emit_nolf CteEnc.emit_cd]. rewrite D3. unfold s3. cbn [CteEnc.stack CteEnc.set_ind]. exact B3. }
    unfold CteEnc.unstack. rewrite S5. cbn [CteEnc.bind].
    set (s6 := CteEnc.set_stack (d :: stk) s5).
    assert (S6 : CteEnc.stack s6 = d :: stk) by reflexivity.
    destruct (after_value_spec s6 d stk S6 Hd) as [s7 [E7 [F1 [F2 [F3 F4]]]]].
    exists s7. split; [exact E7|]. unfold outcome_of. repeat split; try assumption.
    - rewrite F1. unfold s6. cbn [CteEnc.rout CteEnc.set_stack]. unfold s5. cbn [CteEnc.rout CteEnc.emit_nolf CteEnc.emit_cd rev_append].
      rewrite D1. unfold s3. cbn [CteEnc.rout CteEnc.set_ind]. rewrite B1, I1, R1, A1. apply rev_chain.
    - rewrite F2. unfold s6, s5. cbn [CteEnc.ind CteEnc.set_stack CteEnc.emit_nolf CteEnc.emit_cd]. congruence.
  Qed.
End Container.

Lemma encodes_all t : encodes t.
Proof.
  induction t using tree_induction.
  - apply encodes_scalars.
  - apply encodes_scalars.
  - apply encodes_scalars.
  - apply encodes_scalars.
  - apply encodes_scalars.
  - apply encodes_scalars.
  - apply encodes_comment.
  - apply encodes_pair; assumption.
  - intros Hwf c s d stk Hs Hok. apply wf_list in Hwf. assert (Hd := ctx_ok_vctx _ _ Hok).
    cbn [events_of]. unfold ctx_post, ctx_next. cbn [is_value]. unfold pp. cbn [gp].
    apply (container_enc c 91 93 CteEnc.DList EList); try assumption.
    + reflexivity.
    + intros s0 stk' H0. unfold CteEnc.end_container. rewrite H0. reflexivity.
    + reflexivity.
    + rewrite Forall_forall in *. intros x Hx. destruct (Hwf x Hx) as [Wx Px].
      split; [exact Wx|]. split; [apply H, Hx|]. split; [cbn [ctx_ok]; rewrite Px; reflexivity|].
      unfold ctx_post, ctx_next. destruct (is_value x); repeat split.
  - intros Hwf c s d stk Hs Hok. apply wf_map in Hwf. assert (Hd := ctx_ok_vctx _ _ Hok).
    cbn [events_of]. unfold ctx_post, ctx_next. cbn [is_value]. unfold pp. cbn [gp].
    apply (container_enc c 123 125 CteEnc.DMapKey EMap); try assumption.
    + reflexivity.
    + intros s0 stk' H0. unfold CteEnc.end_container. rewrite H0. reflexivity.
    + reflexivity.
    + rewrite Forall_forall in *. intros x Hx. destruct (Hwf x Hx) as [Wx Px].
      split; [exact Wx|]. split; [apply H, Hx|]. split; [reflexivity|].
      unfold ctx_post, ctx_next. rewrite Px. repeat split.
Qed.

(* the encoder model on a document of the fragment writes the layout [pp_doc] *)
Theorem encode_pp_doc c t : wf t -> is_value t = true ->
  CteEnc.cte_encode c (document (events_of t)) = Some (pp_doc t).
Proof.
  intros Hwf Hv. unfold CteEnc.cte_encode, document. cbn [CteEnc.run CteEnc.step CteEnc.bind].
  set (sb := CteEnc.newline_indent (CteEnc.emit_raw (CteEnc.dec 0) (CteEnc.emit_nolf [99] (CteEnc.set_stack [CteEnc.DTop] (CteEnc.set_ind 0 CteEnc.est0))))).
  assert (Sb : CteEnc.stack sb = CteEnc.DTop :: []) by reflexivity.
  assert (Ib : CteEnc.ind sb = 0) by reflexivity.
  assert (Rb : CteEnc.rout sb = rev (99 :: 48 :: nl 0)) by reflexivity.
  rewrite run_app.
  destruct (encodes_all t Hwf c sb CteEnc.DTop [] Sb Hv) as [s' [E [A1 [A2 [A3 A4]]]]].
  rewrite E. cbn [CteEnc.bind CteEnc.run CteEnc.step]. unfold CteEnc.out_of. rewrite A1, Rb, Ib.
  unfold ctx_post. rewrite Hv. cbn [ctx_pre post_v app]. rewrite app_nil_r.
  rewrite <- rev_app_distr, rev_involutive. reflexivity.
Qed.

(* ---- same data ---- *)

Fixpoint devs (t : tree) : list Denote.dev :=
  match t with
  | VNull => [Denote.DNull] | VBool _ b => [Denote.DBool b]
  | VPos n => [Denote.dnum false n 0] | VNeg n => [Denote.dnum true n 0]
  | VInt z => [Denote.dnum (z <? 0)%Z (Z.abs_N z) 0]
  | VStr k _ rs => [Denote.DArr (sty k) (N.of_nat (length (str_bytes rs))) (str_bytes rs)]
  | VCom m rs => [Denote.DComment m (str_bytes rs)]
  | VPair k v => devs k ++ devs v
  | VList l => Denote.DList :: flat_map devs l ++ [Denote.DEnd]
  | VMap l => Denote.DMap :: flat_map devs l ++ [Denote.DEnd]
  end.

Lemma den_rd_int neg n r : Denote.den_go None (rd_int neg n :: r) = Denote.dnum neg n 0 :: Denote.den_go None r.
Proof.
  unfold rd_int. destruct (N.eqb_spec n 0) as [E|E]; destruct neg; cbn [andb].
  - subst. reflexivity.
  - subst. reflexivity.
  - destruct ((- 2 ^ 63 <=? - Z.of_N n)%Z && (- Z.of_N n <? 2 ^ 63)%Z); cbn [Denote.den_go];
      replace (- Z.of_N n <? 0)%Z with true by lia; replace (Z.abs_N (- Z.of_N n)) with n by lia; reflexivity.
  - destruct ((- 2 ^ 63 <=? Z.of_N n)%Z && (Z.of_N n <? 2 ^ 63)%Z); cbn [Denote.den_go];
      replace (Z.of_N n <? 0)%Z with false by lia; replace (Z.abs_N (Z.of_N n)) with n by lia; reflexivity.
Qed.

Lemma den_items (f : tree -> list event) l :
  Forall (fun t => forall r, Denote.den_go None (f t ++ r) = devs t ++ Denote.den_go None r) l ->
  forall r, Denote.den_go None (flat_map f l ++ r) = flat_map devs l ++ Denote.den_go None r.
Proof.
  induction 1 as [|x l' Hx Hl IH]; intro r; [reflexivity|].
  cbn [flat_map]. rewrite <- !app_assoc. rewrite Hx, IH. reflexivity.
Qed.

Lemma den_events_of t : forall r, Denote.den_go None (events_of t ++ r) = devs t ++ Denote.den_go None r.
Proof.
  induction t using tree_induction; intro r; cbn [events_of devs app]; try reflexivity.
  - destruct pl, b; reflexivity.
  - destruct w; [|reflexivity]. cbn [Denote.den_go]. unfold Denote.whole_count.
    destruct (nth (N.to_nat (sty k)) array_elem_bits 8 =? 8); reflexivity.
  - rewrite <- app_assoc. rewrite IHt1, IHt2. rewrite <- app_assoc. reflexivity.
  - cbn [Denote.den_go]. rewrite <- !app_assoc. rewrite (den_items events_of l H). reflexivity.
  - cbn [Denote.den_go]. rewrite <- !app_assoc. rewrite (den_items events_of l H). reflexivity.
Qed.

Lemma den_rd_events t : forall r, Denote.den_go None (rd_events t ++ r) = devs t ++ Denote.den_go None r.
Proof.
  induction t using tree_induction; intro r; cbn [rd_events devs app]; try reflexivity.
  - apply den_rd_int.
  - apply den_rd_int.
  - unfold rd_z. apply den_rd_int.
  - cbn [Denote.den_go]. unfold Denote.whole_count.
    destruct (nth (N.to_nat (sty k)) array_elem_bits 8 =? 8); reflexivity.
  - rewrite <- app_assoc. rewrite IHt1, IHt2. rewrite <- app_assoc. reflexivity.
  - cbn [Denote.den_go]. rewrite <- !app_assoc. rewrite (den_items rd_events l H). reflexivity.
  - cbn [Denote.den_go]. rewrite <- !app_assoc. rewrite (den_items rd_events l H). reflexivity.
Qed.

Lemma dnum_not_padding neg c e : Denote.is_padding (Denote.dnum neg c e) = false.
Proof. unfold Denote.dnum. destruct (c =? 0); [reflexivity|]. destruct (Denote.strip10 _ c e). reflexivity. Qed.

Lemma devs_no_padding t : forallb (fun d => negb (Denote.is_padding d)) (devs t) = true.
Proof.
  induction t using tree_induction; cbn [devs forallb]; try reflexivity;
    try (rewrite dnum_not_padding; reflexivity).
  - rewrite forallb_app, IHt1, IHt2. reflexivity.
  - rewrite forallb_app. cbn [forallb andb Denote.is_padding negb]. rewrite andb_true_r.
    induction H as [|x l' Hx Hl IH]; [reflexivity|]. cbn [flat_map]. rewrite forallb_app, Hx, IH. reflexivity.
  - rewrite forallb_app. cbn [forallb andb Denote.is_padding negb]. rewrite andb_true_r.
    induction H as [|x l' Hx Hl IH]; [reflexivity|]. cbn [flat_map]. rewrite forallb_app, Hx, IH. reflexivity.
Qed.

Lemma filter_all {A} (p : A -> bool) l : forallb p l = true -> filter p l = l.
Proof. induction l as [|x l IH]; cbn [forallb filter]; [reflexivity|]. intro H. apply andb_true_iff in H as [H1 H2]. rewrite H1, (IH H2). reflexivity. Qed.

Theorem same_data t :
  Denote.den (document (rd_events t)) = Denote.no_padding (Denote.den (document (events_of t))).
Proof.
  unfold Denote.den, document. cbn [Denote.den_go]. rewrite den_rd_events, den_events_of.
  cbn [Denote.den_go]. unfold Denote.no_padding. cbn [filter Denote.is_padding negb].
  rewrite filter_app. cbn [filter Denote.is_padding negb]. rewrite (filter_all _ _ (devs_no_padding t)). reflexivity.
Qed.

(* The composed statement for the fragment: the encoder model's text of the stream reads back, through the
   reader model, as a stream with the same denotation. *)
Theorem cte_roundtrip_fragment c t : wf t -> is_value t = true ->
  exists text out,
    CteEnc.cte_encode c (document (events_of t)) = Some text /\
    cte_read text = Some out /\
    Denote.den out = Denote.no_padding (Denote.den (document (events_of t))).
Proof.
  intros Hwf Hv. exists (pp_doc t), (document (rd_events t)).
  split; [apply encode_pp_doc; assumption|]. split; [apply read_pp_doc; assumption|apply same_data].
Qed.

(* ------------------------------------------------------------------ *)
(** * Every valid UTF-8 text is the UTF-8 text of its code points *)

Lemma decode_encode r c : decode_rune r = Some (c, length r) -> scalar c /\ CteLit.utf8_enc c = r.
Proof.
  unfold decode_rune. destruct r as [|b0 t]; [discriminate|].
  destruct (N.ltb_spec b0 128) as [H1|H1].
  { intro H. inversion H; subst. destruct t; [|discriminate]. unfold scalar, CteLit.utf8_enc.
    replace (c <? 128) with true by lia. split; [lia|reflexivity]. }
  destruct (N.ltb_spec b0 194) as [H2|H2]; [discriminate|].
  destruct (N.ltb_spec b0 224) as [H3|H3].
  { destruct t as [|b1 t]; [discriminate|]. destruct (is_cont b1) eqn:C1; [|discriminate].
    intro H. inversion H as [[Hc Hl]]. destruct t; [|discriminate]. clear H Hl. subst c.
    unfold is_cont in C1. unfold scalar, CteLit.utf8_enc.
    replace ((b0 - 192) * 64 + (b1 - 128) <? 128) with false by lia.
    replace ((b0 - 192) * 64 + (b1 - 128) <? 2048) with true by lia.
    split; [lia|]. f_equal; [lia|]. f_equal. lia. }
  destruct (N.ltb_spec b0 240) as [H4|H4].
  { destruct t as [|b1 [|b2 t]]; try discriminate.
    destruct ((if b0 =? 224 then 160 else 128) <=? b1) eqn:L1; [|discriminate].
    destruct (b1 <=? (if b0 =? 237 then 159 else 191)) eqn:L2; [|discriminate].
    destruct (is_cont b2) eqn:C2; [|discriminate]. cbn [andb].
    intro H. inversion H as [[Hc Hl]]. destruct t; [|discriminate]. clear H Hl. subst c.
    unfold is_cont in C2.
    assert (B1 : 128 <= b1 <= 191 /\ (b0 = 224 -> 160 <= b1) /\ (b0 = 237 -> b1 <= 159)).
    { destruct (N.eqb_spec b0 224); destruct (N.eqb_spec b0 237); lia. }
    clear L1 L2. unfold scalar, CteLit.utf8_enc.
    set (v := (b0 - 224) * 4096 + (b1 - 128) * 64 + (b2 - 128)).
    assert (Hc1 : 2048 <= v < 65536) by (unfold v; lia).
    assert (Hc2 : v < 55296 \/ 57344 <= v) by (unfold v; lia).
    replace (v <? 128) with false by lia. replace (v <? 2048) with false by lia.
    replace ((55296 <=? v) && (v <=? 57343) || (1114111 <? v)) with false by lia.
    replace (v <? 65536) with true by lia.
    split; [lia|]. unfold v. f_equal; [lia|]. f_equal; [lia|]. f_equal. lia. }
  destruct (N.ltb_spec b0 245) as [H5|H5]; [|discriminate].
  destruct t as [|b1 [|b2 [|b3 t]]]; try discriminate.
  destruct ((if b0 =? 240 then 144 else 128) <=? b1) eqn:L1; [|discriminate].
  destruct (b1 <=? (if b0 =? 244 then 143 else 191)) eqn:L2; [|discriminate].
  destruct (is_cont b2) eqn:C2; [|discriminate]. destruct (is_cont b3) eqn:C3; [|discriminate]. cbn [andb].
  intro H. inversion H as [[Hc Hl]]. destruct t; [|discriminate]. clear H Hl. subst c.
  unfold is_cont in C2, C3.
  assert (B1 : 128 <= b1 <= 191 /\ (b0 = 240 -> 144 <= b1) /\ (b0 = 244 -> b1 <= 143)).
  { destruct (N.eqb_spec b0 240); destruct (N.eqb_spec b0 244); lia. }
  clear L1 L2. unfold scalar, CteLit.utf8_enc.
  set (v := (b0 - 240) * 262144 + (b1 - 128) * 4096 + (b2 - 128) * 64 + (b3 - 128)).
  assert (Hc1 : 65536 <= v < 1114112) by (unfold v; lia).
  replace (v <? 128) with false by lia. replace (v <? 2048) with false by lia.
  replace ((55296 <=? v) && (v <=? 57343) || (1114111 <? v)) with false by lia.
  replace (v <? 65536) with false by lia.
  split; [lia|]. unfold v. f_equal; [lia|]. f_equal; [lia|]. f_equal; [lia|]. f_equal. lia.
Qed.

Theorem valid_is_utf8_str s : utf8_valid s = true -> exists rs, Forall scalar rs /\ s = CteLit.utf8_str rs.
Proof.
  intro H. apply utf8_valid_iff_Valid in H. induction H as [|r s' [c Hr] Hs' [rs [Hrs ->]]].
  - exists []. split; [constructor|reflexivity].
  - destruct (decode_encode r c Hr) as [Hc He]. exists (c :: rs). split; [constructor; assumption|].
    unfold CteLit.utf8_str. cbn [flat_map]. rewrite He. reflexivity.
Qed.

Lemma tok_str_idx idx rs rest : scalars rs ->
  next_tok idx (34 :: qbody rs ++ 34 :: rest) = Some (TVal (EArray AT_String (N.of_nat (length (str_bytes rs))) (str_bytes rs)), rest, idx).
Proof.
  intro Hs. cbn [next_tok]. change (is_ws 34) with false. cbv iota. change (34 =? 47) with false.
  change (34 =? 91) with false. change (34 =? 93) with false. change (34 =? 123) with false. change (34 =? 125) with false.
  change (34 =? 61) with false. change (34 =? 40) with false. change (34 =? 41) with false. change (34 =? 62) with false.
  change (34 =? 34) with true. cbv iota. unfold lex_string.
  rewrite lex_str_qbody; [reflexivity|exact Hs|].
  rewrite app_length. cbn [length]. assert (H := qbody_length rs). lia.
Qed.

(* unescape (escape s) = s for every valid UTF-8 s: the text WriteQuotedString writes for s (whatever the encoder
   state), followed by anything, is read by the lexer as one string token carrying exactly s *)
Theorem quoted_string_roundtrip (s : bytes) (lf : bool) (st : CteEnc.est) : utf8_valid s = true ->
  exists txt, emits txt st (CteEnc.write_quoted lf s st) /\
    forall idx tail, next_tok idx (runes (txt ++ tail)) = Some (TVal (EArray AT_String (N.of_nat (length s)) s), runes tail, idx).
Proof.
  intro Hv. destruct (valid_is_utf8_str s Hv) as [rs [Hrs ->]]. fold (str_bytes rs).
  exists (34 :: qbytes rs ++ [34]). split; [apply emits_write_quoted, Hrs|].
  intros idx tail. cbn [app]. rewrite runes_ascii_cons by lia. rewrite <- app_assoc, runes_qbytes_app by exact Hrs.
  cbn [app]. rewrite runes_ascii_cons by lia. apply tok_str_idx, Hrs.
Qed.

(* ------------------------------------------------------------------ *)
(** * The property as stated, and where the current code violates it *)

From CE Require Model.Rules.

Definition accepted (es : list event) : Prop := Rules.accepts_document Rules.default_rcfg es = true.

Definition c02_full : Prop :=
  forall es, accepted es ->
  exists text out,
    CteEnc.cte_encode CteEnc.default_ccfg es = Some text /\ cte_read text = Some out /\ accepted out /\
    Denote.den out = Denote.no_padding (Denote.den es).

Definition in_list (body : list event) : list event := document (EList :: body ++ [EEnd]).

(* the text is not a CTE document any more *)
Definition unreadable (es : list event) : Prop :=
  accepted es /\ exists text, CteEnc.cte_encode CteEnc.default_ccfg es = Some text /\ cte_read text = None.
(* the text reads as different data *)
Definition changed (es : list event) : Prop :=
  accepted es /\ exists text out, CteEnc.cte_encode CteEnc.default_ccfg es = Some text /\ cte_read text = Some out /\
                                  Denote.den out <> Denote.no_padding (Denote.den es).

Lemma unreadable_refutes es : unreadable es -> ~ c02_full.
Proof. intros [Ha [text [He Hr]]] F. destruct (F es Ha) as [t' [out [He' [Hr' _]]]]. congruence. Qed.
Lemma changed_refutes es : changed es -> ~ c02_full.
Proof. intros [Ha [text [out [He [Hr Hd]]]]] F. destruct (F es Ha) as [t' [out' [He' [Hr' [_ Hd']]]]]. congruence. Qed.

Ltac unreadable_tac := split; [vm_compute; reflexivity | eexists; split; [vm_compute; reflexivity | vm_compute; reflexivity]].
Ltac changed_tac := split; [vm_compute; reflexivity | eexists; eexists; split; [vm_compute; reflexivity | split; [vm_compute; reflexivity | let H := fresh "H" in (intro H; vm_compute in H; discriminate H)]]].

(* //a<LF>b : the second line is not a comment *)
Definition w_comment_line_feed := in_list [EComment false [97; 10; 98]; EPosInt 1].
Lemma w_comment_line_feed_unreadable : unreadable w_comment_line_feed.
Proof. unreadable_tac. Qed.

(* /*x*/y*/ *)
Definition w_comment_block_close := in_list [EComment true [120; 42; 47; 121]; EPosInt 1].
Lemma w_comment_block_close_unreadable : unreadable w_comment_block_close.
Proof. unreadable_tac. Qed.

(* /*x/*/ : the final slash and the closing delimiter read as an opener *)
Definition w_comment_block_slash := in_list [EComment true [120; 47]; EPosInt 1].
Lemma w_comment_block_slash_unreadable : unreadable w_comment_block_slash.
Proof. unreadable_tac. Qed.

(* //a<FF>b : the byte is not UTF-8; it comes back as U+FFFD *)
Definition w_comment_invalid_utf8 := in_list [EComment false [97; 255; 98]; EPosInt 1].
Lemma w_comment_invalid_utf8_changed : changed w_comment_invalid_utf8.
Proof. changed_tac. Qed.

(* //a<CR> : the carriage return is taken for a part of the line end *)
Definition w_comment_trailing_cr := in_list [EComment false [97; 13]; EPosInt 1].
Lemma w_comment_trailing_cr_changed : changed w_comment_trailing_cr.
Proof. changed_tac. Qed.

(* ((// ...: Column happens to equal the origin of the inner node, so no line feed ends the comment *)
Definition w_comment_first_in_node := document [ENode; ENode; EComment false []; ENull; EEnd; ENull; EEnd].
Lemma w_comment_first_in_node_unreadable : unreadable w_comment_first_in_node.
Proof. unreadable_tac. Qed.

(* the big float 1 is written 0x1, which is the integer 1 *)
Definition w_bigfloat_one := in_list [EBigFloat (Some (BFin false 1 0 53))].
Lemma w_bigfloat_one_changed : changed w_bigfloat_one.
Proof. changed_tac. Qed.

(* -1844674407370.9551621 (coefficient 2^64 + 5) is read as -0.0000005 *)
Definition w_bigdecimal_wide := in_list [EBigDecimal (Some (DFin true 18446744073709551621 (-7)))].
Lemma w_bigdecimal_wide_changed : changed w_bigdecimal_wide.
Proof. changed_tac. Qed.

(* a float32 array element 0x7fc00001 is written "nan" and read as 0x7fe00000 *)
Definition w_float_array_nan := in_list [EArray AT_Float32 2 [0; 0; 128; 63; 1; 0; 192; 127]].
Lemma w_float_array_nan_changed : changed w_float_array_nan.
Proof. changed_tac. Qed.

Lemma c02_full_refuted : ~ c02_full.
Proof. exact (unreadable_refutes _ w_comment_line_feed_unreadable). Qed.

(* ---- examples: the hypotheses of the theorems are satisfiable ---- *)

Definition ex_tree : tree :=
  VMap [VCom false [104; 105];
        VPair (VStr KStr true [107; 233; 10; 34; 8364; 128512])
              (VList [VNull; VBool true true; VBool false false; VStr KRid false [104; 58; 120]; VStr KRef true [104; 58; 233]; VPos 18446744073709551616; VNeg 0; VInt (-5); VCom true [42; 120]; VList []; VMap []]);
        VPair (VNeg 7) (VStr KStr false [])].

Lemma ex_tree_wf : wf ex_tree /\ is_value ex_tree = true.
Proof.
  split; [|reflexivity]. cbn [ex_tree wf is_value is_pair]. unfold scalars, scalar.
  repeat match goal with
         | |- _ /\ _ => split
         | |- Forall _ _ => constructor
         | |- True => exact I
         | |- _ = _ => reflexivity
         | |- _ => lia
         end.
Qed.

Lemma ex_tree_accepted : accepted (document (events_of ex_tree)).
Proof. vm_compute. reflexivity. Qed.

(* ------------------------------------------------------------------ *)
(** * Times: the canonical text is read back as itself

   The event carries compact_time's String(); the encoder writes the same text (checked by the
   correspondence runs of C23 and of this property); [time_text] / [tz_text] model what the listener makes
   of it.  For times of day without a sub-second part and every zone form the canonical text is a fixed
   point.  The two-digit fields and the coordinates range over finite domains: those facts are swept by
   computation (100 values, 36001 values, 1440 values) and lifted. *)

Definition fmt100 (z : Z) : bytes :=
  (if (z <? 0)%Z then [45] else []) ++ CteEnc.dec (Z.abs_N z / 100) ++ [46] ++ pad2 (Z.abs_N z mod 100).
Definition tz_latlong (la lo : Z) : bytes := 47 :: fmt100 la ++ 47 :: fmt100 lo.
Definition tz_offset (neg : bool) (m : N) : bytes := (if neg then 45 else 43) :: pad2 (m / 60) ++ pad2 (m mod 60).
Definition hms (h m s : N) : bytes := pad2 h ++ [58] ++ pad2 m ++ [58] ++ pad2 s.

Lemma pad2_sweep : forallb (fun n => bytes_eqb (pad2 n) [48 + n / 10; 48 + n mod 10]) (nseq 0 100) = true.
Proof. vm_compute. reflexivity. Qed.

Lemma pad2_two n : n < 100 -> pad2 n = [48 + n / 10; 48 + n mod 10].
Proof.
  intro H. assert (Hin : In n (nseq 0 100)) by (apply nseq_In; lia).
  apply (proj1 (forallb_forall _ _) pad2_sweep) in Hin. apply bytes_eqb_eq in Hin. exact Hin.
Qed.

Definition zrange : list Z := map (fun i => (Z.of_N i - 18000)%Z) (nseq 0 (N.to_nat 36001)).
Definition coord_chk (z : Z) : bool :=
  (coord100 (fmt100 z) =? z)%Z && forallb (fun c => negb (c =? 47)) (fmt100 z) &&
  match fmt100 z with c :: _ => is_dec c || (c =? 45) | [] => false end.

Lemma coord_sweep : forallb coord_chk zrange = true.
Proof. vm_compute. reflexivity. Qed.

Lemma coord_ok z : (-18000 <= z <= 18000)%Z -> coord_chk z = true.
Proof.
  intro H. apply (proj1 (forallb_forall _ _) coord_sweep). unfold zrange. apply in_map_iff.
  exists (Z.to_N (z + 18000)). split; [lia|]. apply nseq_In. rewrite N2Nat.id. lia.
Qed.

(* every latitude / longitude written in hundredths is read back as the same hundredths *)
Theorem tz_latlong_fixed la lo : (-9000 <= la <= 9000)%Z -> (-18000 <= lo <= 18000)%Z ->
  tz_text (tz_latlong la lo) = Some (tz_latlong la lo).
Proof.
  intros Hla Hlo.
  assert (Ca := coord_ok la ltac:(lia)). assert (Co := coord_ok lo Hlo).
  unfold coord_chk in Ca, Co. apply andb_true_iff in Ca as [Ca Ca3]. apply andb_true_iff in Ca as [Ca1 Ca2].
  apply andb_true_iff in Co as [Co Co3]. apply andb_true_iff in Co as [Co1 Co2].
  apply Z.eqb_eq in Ca1, Co1.
  unfold tz_latlong, tz_text. destruct (fmt100 la) as [|c r] eqn:Ea; [discriminate|]. cbn [app].
  rewrite Ca3.
  change (c :: r ++ 47 :: fmt100 lo) with ((c :: r) ++ 47 :: fmt100 lo).
  rewrite (span_all _ (c :: r) (47 :: fmt100 lo) Ca2 eq_refl). cbn [tl]. rewrite Ca1, Co1.
  assert (Wa : wrap16 la = la) by (unfold wrap16; rewrite Z.mod_small; lia).
  assert (Wo : wrap16 lo = lo) by (unfold wrap16; rewrite Z.mod_small; lia).
  rewrite Wa, Wo.
  replace ((lo <? -18000) || (18000 <? lo) || (la <? -9000) || (9000 <? la))%Z with false by lia.
  change (Some (47 :: fmt100 la ++ 47 :: fmt100 lo) = Some (47 :: (c :: r) ++ 47 :: fmt100 lo)). rewrite Ea. reflexivity.
Qed.

Definition offset_chk (m : N) : bool :=
  option_eqb bytes_eqb (tz_text (tz_offset false m)) (Some (tz_offset false m)) &&
  option_eqb bytes_eqb (tz_text (tz_offset true m)) (Some (tz_offset true m)).
Lemma offset_sweep : forallb offset_chk (nseq 1 (N.to_nat 1439)) = true.
Proof. vm_compute. reflexivity. Qed.

(* every UTC offset of 1 .. 1439 minutes, either sign *)
Theorem tz_offset_fixed neg m : 1 <= m <= 1439 -> tz_text (tz_offset neg m) = Some (tz_offset neg m).
Proof.
  intro H. assert (Hin : In m (nseq 1 (N.to_nat 1439))) by (apply nseq_In; rewrite N2Nat.id; lia).
  apply (proj1 (forallb_forall _ _) offset_sweep) in Hin. unfold offset_chk in Hin. apply andb_true_iff in Hin as [H1 H2].
  destruct neg; [clear H1; rename H2 into H1|clear H2];
    (destruct (tz_text (tz_offset _ m)) as [t|]; [|discriminate]; cbn [option_eqb] in H1; apply bytes_eqb_eq in H1; rewrite H1; reflexivity).
Qed.

Lemma is_dec_digit d : d < 10 -> is_dec (48 + d) = true.
Proof. unfold is_dec. lia. Qed.

Lemma dval_two a b : a < 10 -> b < 10 -> dval [48 + a; 48 + b] = a * 10 + b.
Proof.
  intros Ha Hb. unfold dval. cbn [CteLit.chars_val].
  assert (D : forall d, d < 10 -> CteLit.digit_val (48 + d) = Some d).
  { intros d Hd. unfold CteLit.digit_val, CteLit.is_dec. replace ((48 <=? 48 + d) && (48 + d <=? 57)) with true by lia. f_equal. lia. }
  rewrite !D by assumption. lia.
Qed.

(* hh:mm:ss followed by a zone text (or nothing): the time part is re-rendered as it was, the zone goes through [tz_text] *)
Lemma time_text_hms h m s T : h < 24 -> m < 60 -> s <= 60 ->
  (match T with [] => True | c :: _ => c = 47 \/ c = 43 \/ c = 45 end) ->
  time_text (hms h m s ++ T) = option_map (app (hms h m s)) (tz_text T).
Proof.
  intros Hh Hm Hs HT. unfold hms. rewrite (pad2_two h), (pad2_two m), (pad2_two s) by lia.
  set (a1 := h / 10). set (a2 := h mod 10). set (b1 := m / 10). set (b2 := m mod 10). set (c1 := s / 10). set (c2 := s mod 10).
  assert (A1 : a1 < 10) by (unfold a1; lia). assert (A2 : a2 < 10) by (unfold a2; lia).
  assert (B1 : b1 < 10) by (unfold b1; lia). assert (B2 : b2 < 10) by (unfold b2; lia).
  assert (C1 : c1 < 10) by (unfold c1; lia). assert (C2 : c2 < 10) by (unfold c2; lia).
  cbn [app]. unfold time_text.
  assert (Hspan : forall X, span is_dec ((48 + a1) :: (48 + a2) :: 58 :: X) = ([48 + a1; 48 + a2], 58 :: X)).
  { intro X. cbn [span]. rewrite !is_dec_digit by assumption. change (is_dec 58) with false. reflexivity. }
  rewrite Hspan. cbn [tl firstn skipn].
  rewrite !dval_two by assumption.
  replace (a1 * 10 + a2) with h by (unfold a1, a2; lia).
  replace (b1 * 10 + b2) with m by (unfold b1, b2; lia).
  replace (c1 * 10 + c2) with s by (unfold c1, c2; lia).
  replace ((23 <? h) || (59 <? m) || (60 <? s)) with false by lia.
  assert (Hfrac : match T with 46 :: f => let '(d, r) := span is_dec f in (d, r) | _ => (@nil N, T) end = ([], T)).
  { destruct T as [|c T']; [reflexivity|]. destruct HT as [E|[E|E]]; subst c; reflexivity. }
  rewrite Hfrac. change (dval []) with 0. cbn [N.mul N.eqb]. change (0 =? 0) with true. cbv iota.
  rewrite (pad2_two h), (pad2_two m), (pad2_two s) by lia. fold a1 a2 b1 b2 c1 c2.
  destruct (tz_text T) as [tz|]; [|reflexivity]. cbn [option_map app]. rewrite app_nil_r || idtac. reflexivity.
Qed.

(* a time of day without sub-second part, in any zone form whose text is a fixed point of [tz_text] *)
Theorem time_text_fixed h m s T : h < 24 -> m < 60 -> s <= 60 ->
  (match T with [] => True | c :: _ => c = 47 \/ c = 43 \/ c = 45 end) -> tz_text T = Some T ->
  time_text (hms h m s ++ T) = Some (hms h m s ++ T).
Proof. intros Hh Hm Hs HT Hz. rewrite time_text_hms by assumption. rewrite Hz. reflexivity. Qed.
