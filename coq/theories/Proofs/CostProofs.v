(* C08 — lemmas about Model/Cost.v (for all documents, configurations, external
   decoders and refusal points). *)
From Coq Require Import List NArith ZArith Bool Lia ZifyN ZifyNat ZifyBool.
From CE Require Import Model.Cost.
Import ListNotations.
Open Scope N_scope.

Ltac Zify.zify_post_hook ::= Z.to_euclidean_division_equations.
Ltac split4 := split; [|split; [|split]].

#[local] Arguments N.mul : simpl never.
#[local] Arguments N.add : simpl never.
#[local] Arguments N.div : simpl never.
#[local] Arguments N.modulo : simpl never.
#[local] Arguments N.ltb : simpl never.
#[local] Arguments N.leb : simpl never.
#[local] Arguments N.eqb : simpl never.
#[local] Arguments N.pow : simpl never.

(* ------------------------------------------------------------------ *)
(* Go's append growth                                                   *)
(* ------------------------------------------------------------------ *)

Lemma grow_loop_spec fuel : forall c need r,
  grow_loop fuel c need = Some r -> 256 <= c -> c < need ->
  need <= r /\ r <= 2 * need /\ 5 * c <= 4 * r.
Proof.
  induction fuel as [|f IH]; intros c need r E Hc Hn; cbn [grow_loop] in E; [discriminate|].
  destruct (N.leb_spec need (c + (c + 768) / 4)) as [L|L].
  - inversion E; subst r. lia.
  - apply IH in E; lia.
Qed.

Lemma go_grow_spec old need : old < need ->
  need <= go_grow old need /\ go_grow old need <= 2 * need /\ 5 * old <= 4 * go_grow old need.
Proof.
  intro H. unfold go_grow.
  destruct (N.ltb_spec (2 * old) need) as [A|A]; [lia|].
  destruct (N.ltb_spec old 256) as [B|B]; [lia|].
  destruct (grow_loop 256 old need) as [c|] eqn:E.
  - apply grow_loop_spec in E; lia.
  - lia.
Qed.

(* ------------------------------------------------------------------ *)
(* Invariant of the walk                                                *)
(* ------------------------------------------------------------------ *)

Definition len (r : bytes) : N := N.of_nat (length r).

(* [o] is the announced length of a read that ran out of input (0 while the walk goes on) *)
Definition InvO (cfg : ccfg) (o : N) (s : cst) : Prop :=
  al s <= 2 * nread s + 2 * o /\
  val s <= 5 * vcap s /\
  vcap s <= 2 * nread s /\
  vlen s <= nread s /\
  vwork s <= val s + nread s /\
  (rules_on cfg = false -> val s = 0).

(* while the walk goes on: no overrun, and the validator's running total is within a positive limit *)
Definition Inv (cfg : ccfg) (s : cst) : Prop :=
  InvO cfg 0 s /\ (rules_on cfg = true -> 0 < max_array cfg -> atot s <= max_array cfg).

(* what the code guarantees about an announced length, by the field that carried it *)
Definition kb (cfg : ccfg) (k : rkind) (o : N) : Prop :=
  match k with
  | RNone => o = 0
  | RFixed => o <= 240
  | RUint => o <= 1024
  | RIdent => o <= 100000
  | RMedia => o <= 4294967295
  | RChunk => rules_on cfg = true -> 0 < max_array cfg -> max_array cfg < 9223372036854775808 -> o <= max_array cfg
  end.

(* events gained minus bytes gained between two states *)
Definition gain (s s' : cst) : Z :=
  ((Z.of_N (nev s') - Z.of_N (nev s)) - (Z.of_N (nread s') - Z.of_N (nread s)))%Z.

(* [good cfg eo ef m Q]: from a state satisfying the invariant, m either succeeds
   (invariant kept, bytes accounted for exactly, value satisfies Q, gain <= eo)
   or fails (invariant with the overrun, bytes pulled <= bytes available, the
   overrun obeys its field's limit, gain <= ef). *)
Definition good {A} (cfg : ccfg) (eo ef : Z) (m : M A) (Q : A -> Prop) : Prop :=
  forall s r, Inv cfg s ->
    match m s r with
    | ROk a s' r' => Inv cfg s' /\ nread s' + len r' = nread s + len r /\ Q a /\ (gain s s' <= eo)%Z
    | RFail w o k s' => InvO cfg o s' /\ nread s' <= nread s + len r /\ kb cfg k o /\ (gain s s' <= ef)%Z
    end.

Lemma good_weaken {A} cfg eo ef eo' ef' (m : M A) (Q Q' : A -> Prop) :
  good cfg eo ef m Q -> (eo <= eo')%Z -> (ef <= ef')%Z -> (forall a, Q a -> Q' a) -> good cfg eo' ef' m Q'.
Proof.
  intros G Ho Hf HQ s r I. specialize (G s r I). destruct (m s r) as [a s' r'|w o k s'].
  - destruct G as (G1 & G2 & G3 & G4). split4; auto; lia.
  - destruct G as (G1 & G2 & G3 & G4). split4; auto; lia.
Qed.

Lemma good_bind {A B} cfg eo1 ef1 eo2 ef2 eo ef (m : M A) (f : A -> M B) (Q1 : A -> Prop) (Q2 : B -> Prop) :
  good cfg eo1 ef1 m Q1 -> (forall a, Q1 a -> good cfg eo2 ef2 (f a) Q2) ->
  (eo1 + eo2 <= eo)%Z -> (ef1 <= ef)%Z -> (eo1 + ef2 <= ef)%Z ->
  good cfg eo ef (bind m f) Q2.
Proof.
  intros G1 G2 H1 H2 H3 s r I. unfold bind. specialize (G1 s r I).
  destruct (m s r) as [a s' r'|w o k s'].
  - destruct G1 as (I' & N1 & Qa & E1). specialize (G2 a Qa s' r' I').
    destruct (f a s' r') as [b s'' r''|w o k s''].
    + destruct G2 as (I'' & N2 & Qb & E2). unfold gain in *. split4; auto; lia.
    + destruct G2 as (I'' & N2 & K & E2). unfold gain in *. split4; auto; lia.
  - destruct G1 as (I' & N1 & K & E1). split4; auto; lia.
Qed.

Lemma good_ret {A} cfg (a : A) : good cfg 0 0 (ret a) (fun x => x = a).
Proof. intros s r I. cbn. unfold gain. split4; auto; lia. Qed.

Lemma good_fail {A} cfg w (Q : A -> Prop) : good cfg 0 0 (fail w) Q.
Proof. intros s r I. cbn. unfold gain. split4; [exact (proj1 I) | lia | reflexivity | lia]. Qed.

Lemma good_fail_any {A} cfg w eo ef (Q : A -> Prop) : (0 <= eo)%Z -> (0 <= ef)%Z -> good cfg eo ef (fail w) Q.
Proof. intros. eapply good_weaken; [apply (good_fail cfg w Q) | lia | lia | auto]. Qed.

Lemma good_ret_any {A} cfg (a : A) eo ef : (0 <= eo)%Z -> (0 <= ef)%Z -> good cfg eo ef (ret a) (fun _ => True).
Proof. intros. eapply good_weaken; [apply (good_ret cfg a) | lia | lia | auto]. Qed.

Ltac inv_tac :=
  unfold Inv, InvO in *; cbn [buf nread al nev atot vcap vlen val vwork add_nread grow_buf add_nev set_atot set_v] in *;
  intuition (try lia; try congruence).

Lemma Inv_add_nread cfg o n s : InvO cfg o s -> InvO cfg o (add_nread n s).
Proof. intro I. inv_tac. Qed.

Lemma Inv_add_nread' cfg n s : Inv cfg s -> Inv cfg (add_nread n s).
Proof. intro I. inv_tac. Qed.

Ltac easy4 :=
  split4; try (unfold gain, len in *; cbn [add_nread add_nev grow_buf set_atot set_v nread nev length kb] in *;
               first [assumption | reflexivity | exact Logic.I | match goal with H : Inv _ _ |- InvO _ _ _ => exact (proj1 H) end | lia]).

Section Prims.
Variable cfg : ccfg.
Variable stop : option N.

Lemma good_take1 : good cfg (-1) 0 (take1 cfg) (fun _ => True).
Proof.
  intros s r I. unfold take1, mark. destruct r as [|x r'].
  - easy4.
  - destruct (max_doc cfg <? nread (add_nread 1 s)); easy4; try (first [apply Inv_add_nread'; exact I | apply Inv_add_nread; exact (proj1 I)]).
Qed.

Lemma good_uleb_raw : good cfg (-1) 0 (uleb_raw cfg) (fun _ => True).
Proof.
  intros s r; revert s. induction r as [|x r' IH]; intros s I; cbn [uleb_raw].
  - easy4.
  - unfold mark. destruct (max_doc cfg <? nread (add_nread 1 s)).
    + easy4; try (first [apply Inv_add_nread'; exact I | apply Inv_add_nread; exact (proj1 I)]).
    + destruct (x <? 128).
      * easy4; try (first [apply Inv_add_nread'; exact I | apply Inv_add_nread; exact (proj1 I)]).
      * specialize (IH (add_nread 1 s) (Inv_add_nread' _ _ _ I)).
        destruct (uleb_raw cfg (add_nread 1 s) r') as [[v n] s'' r''|w o k s''].
        -- destruct IH as (I2 & N2 & _ & E2). easy4.
        -- destruct IH as (I2 & N2 & K & E2). easy4.
Qed.

Lemma good_read_uleb maxv : good cfg (-1) 0 (read_uleb cfg maxv) (fun v => v <= maxv).
Proof.
  unfold read_uleb.
  eapply good_bind with (eo2 := 0%Z) (ef2 := 0%Z); [apply good_uleb_raw | | lia | lia | lia].
  intros [v n] _. cbn [fst snd].
  destruct (is_big v n); cbn [orb]; [apply good_fail|].
  destruct (N.ltb_spec maxv v); [apply good_fail|].
  eapply good_weaken; [apply good_ret | lia | lia |]. intros a ->. exact H.
Qed.

Lemma len_skipn n (r : bytes) : n <= len r -> len (skipn (N.to_nat n) r) + n = len r.
Proof. unfold len. intro H. rewrite skipn_length. lia. Qed.

(* ReadBytes.  With [count <> 0] the success case gains at least one byte. *)
Lemma good_read_buf k count : kb cfg k count ->
  good cfg (if count =? 0 then 0 else -1) 0 (read_buf cfg k count) (fun _ => True).
Proof.
  intros K s r I. unfold read_buf.
  assert (T : forall s1, nread s1 = nread s -> nev s1 = nev s -> atot s1 = atot s ->
              InvO cfg count s1 -> (count = 0 -> InvO cfg 0 s1) ->
              match (if count =? 0 then ROk tt s1 r
                     else if count <=? N.of_nat (length r) then mark cfg count s1 (skipn (N.to_nat count) r)
                     else if (0 <? N.of_nat (length r)) && (max_doc cfg <? nread (add_nread (N.of_nat (length r)) s1))
                          then RFail WDocLimit count k (add_nread (N.of_nat (length r)) s1)
                          else RFail WShort count k (add_nread (N.of_nat (length r)) s1)) with
              | ROk a s' r' => Inv cfg s' /\ nread s' + len r' = nread s + len r /\ True /\
                               (gain s s' <= (if (count =? 0)%N then 0 else -1))%Z
              | RFail w o k0 s' => InvO cfg o s' /\ nread s' <= nread s + len r /\ kb cfg k0 o /\ (gain s s' <= 0)%Z
              end).
  { intros s1 Gn Ge Ga Gi G0.
    destruct (N.eqb_spec count 0) as [Z|NZ].
    - easy4. split; [exact (G0 Z)|]. rewrite Ga. exact (proj2 I).
    - destruct (N.leb_spec count (N.of_nat (length r))) as [L|L].
      + unfold mark. pose proof (len_skipn count r L) as SK.
        destruct (max_doc cfg <? nread (add_nread count s1)).
        * easy4. clear - Gi. inv_tac.
        * easy4. split; [clear - Gi; inv_tac|]. cbn [add_nread atot]. rewrite Ga. exact (proj2 I).
      + destruct ((0 <? N.of_nat (length r)) && (max_doc cfg <? nread (add_nread (N.of_nat (length r)) s1)));
          easy4; apply Inv_add_nread; exact Gi. }
  destruct (buf s <? count) eqn:Eb.
  - destruct (go_max_alloc <? 2 * count).
    + easy4.
    + apply T; try reflexivity.
      * clear - I. inv_tac.
      * intros ->. apply N.ltb_lt in Eb. lia.
  - apply T; try reflexivity.
    + clear - I. inv_tac.
    + intros _. exact (proj1 I).
Qed.

Lemma good_emit : good cfg 1 0 (emit stop) (fun _ => True).
Proof.
  intros s r I. unfold emit.
  assert (A : Inv cfg (add_nev s)) by (clear - I; inv_tac).
  destruct stop as [k|]; [destruct (nev s =? k)|]; easy4.
Qed.

Lemma good_rules_begin : good cfg 0 0 (rules_begin cfg) (fun _ => True).
Proof.
  intros s r I. unfold rules_begin. destruct (rules_on cfg) eqn:R; easy4.
  clear - I R. inv_tac.
Qed.

(* facts about the generated tables used by the validator's chunk accounting *)
Lemma stringlike_bits t : stringlike t = true -> element_bits t = 8.
Proof.
  unfold stringlike. intro H.
  repeat (apply orb_true_iff in H; destruct H as [H|H]); apply N.eqb_eq in H; subst t; reflexivity.
Qed.

Lemma elem_bytes_8_le count : elem_bytes 8 count <= count.
Proof.
  unfold elem_bytes, u64, two64. change (8 =? 1) with false. cbn [andb].
  assert ((count * 8) mod 18446744073709551616 <= count * 8) by (apply N.mod_le; discriminate). lia.
Qed.

(* OnArrayChunk reaching the validator: when it lets a non-empty chunk through
   under a positive limit below 2^63, the chunk's byte count is within the limit *)
Lemma good_rules_chunk t count nb : count < 9223372036854775808 ->
  nb = elem_bytes (element_bits t) count -> nb < 2305843009213693952 + 1 ->
  good cfg 0 0 (rules_chunk cfg t count nb)
       (fun _ => rules_on cfg = true -> 0 < max_array cfg -> max_array cfg < 9223372036854775808 -> count <> 0 -> nb <= max_array cfg).
Proof.
  intros HC HNB HB s r I. unfold rules_chunk.
  destruct (N.lt_ge_cases (max_array cfg) 9223372036854775808) as [HM|HM].
  2:{ (* a limit of 2^63 or more: nothing is claimed about the chunk *)
      destruct (rules_on cfg && negb (count =? 0)); [|easy4; try (intros; lia)].
      destruct ((max_array cfg <? _) && _) eqn:C.
      - easy4; try (clear - I; inv_tac).
      - easy4; try (intros; lia). split; [clear - I; inv_tac|]. intros _ P. cbn [set_atot atot].
        apply andb_false_iff in C. destruct C as [C|C]; [apply N.ltb_ge in C; exact C | apply N.ltb_ge in C; lia]. }
  destruct (rules_on cfg) eqn:R; cbn [andb].
  2:{ easy4; try (intros; discriminate). }
  destruct (N.eqb_spec count 0) as [Z|NZ]; cbn [negb].
  { easy4; try (intros; contradiction). }
  set (x := if stringlike t then count else nb).
  assert (Hx : nb <= x /\ x < 9223372036854775808).
  { subst x. destruct (stringlike t) eqn:S; [|lia].
    split; [|exact HC]. rewrite HNB, (stringlike_bits t S). apply elem_bytes_8_le. }
  destruct (N.ltb_spec 0 (max_array cfg)) as [P|P].
  - assert (A : atot s <= max_array cfg) by (clear - I R P; inv_tac).
    assert (U : u64 (atot s + x) = atot s + x).
    { unfold u64, two64. apply N.mod_small. lia. }
    rewrite U. destruct (N.ltb_spec (max_array cfg) (atot s + x)) as [B|B]; cbn [andb].
    + easy4; try (clear - I; inv_tac).
    + easy4; try (clear - I B; inv_tac); try (intros; lia).
  - rewrite andb_false_r. easy4; try (clear - I P; inv_tac); try (intros; lia).
Qed.

Lemma read_buf_ok k n s r u s' r' :
  read_buf cfg k n s r = ROk u s' r' -> nread s' = nread s + (if n =? 0 then 0 else n) /\ vlen s' = vlen s /\ vwork s' = vwork s /\ val s' = val s.
Proof.
  unfold read_buf.
  assert (T : forall s1, nread s1 = nread s -> vlen s1 = vlen s -> vwork s1 = vwork s -> val s1 = val s ->
     (if n =? 0 then ROk tt s1 r
      else if n <=? N.of_nat (length r) then mark cfg n s1 (skipn (N.to_nat n) r)
      else if (0 <? N.of_nat (length r)) && (max_doc cfg <? nread (add_nread (N.of_nat (length r)) s1))
           then RFail WDocLimit n k (add_nread (N.of_nat (length r)) s1)
           else RFail WShort n k (add_nread (N.of_nat (length r)) s1)) = ROk u s' r' ->
     nread s' = nread s + (if n =? 0 then 0 else n) /\ vlen s' = vlen s /\ vwork s' = vwork s /\ val s' = val s).
  { intros s1 A B C D. destruct (n =? 0).
    - intro E; inversion E; subst. repeat split; try assumption; lia.
    - destruct (n <=? N.of_nat (length r)).
      + unfold mark. destruct (max_doc cfg <? nread (add_nread n s1)); intro E; inversion E; subst.
        cbn [add_nread nread vlen vwork val]. repeat split; try assumption; lia.
      + destruct (_ && _); discriminate. }
  destruct (buf s <? n).
  - destruct (go_max_alloc <? 2 * n); [discriminate|]. apply T; reflexivity.
  - apply T; reflexivity.
Qed.

(* ReadBytes of a chunk followed by OnArrayData reaching the validator *)
Lemma good_read_data t nb : nb <> 0 -> kb cfg RChunk nb -> good cfg (-1) 0 (read_data cfg t nb) (fun _ => True).
Proof.
  intros NZ K s r I. unfold read_data, bind.
  pose proof (good_read_buf RChunk nb K s r I) as G.
  assert (E : (nb =? 0) = false) by (apply N.eqb_neq; exact NZ). rewrite E in G.
  assert (X : match read_buf cfg RChunk nb s r with
              | ROk _ s' _ => nread s + nb <= nread s' /\ vlen s' = vlen s /\ vwork s' = vwork s /\ val s' = val s
              | RFail _ _ _ _ => True end).
  { destruct (read_buf cfg RChunk nb s r) as [u s1 r1|] eqn:RB; [|exact Logic.I].
    apply read_buf_ok in RB. rewrite E in RB. destruct RB as (A & B & C & D). repeat split; try assumption; lia. }
  destruct (read_buf cfg RChunk nb s r) as [u s1 r1|w o k s1]; [|exact G].
  destruct G as (I1 & N1 & _ & E1). destruct X as (X1 & X2 & X3 & X4).
  assert (W : vwork s <= val s + nread s) by (clear - I; inv_tac).
  unfold rules_data. destruct (rules_on cfg && stringlike t) eqn:RS.
  2:{ easy4. }
  apply andb_true_iff in RS. destruct RS as [R S].
  destruct (N.ltb_spec (vcap s1) (vlen s1 + nb)) as [L|L].
  - pose proof (go_grow_spec _ _ L) as (G1 & G2 & G3).
    assert (V : vlen s <= nread s) by (clear - I; inv_tac).
    easy4. clear - I1 G1 G2 G3 X1 X2 X3 X4 W V R. inv_tac; try congruence.
  - assert (V : vlen s <= nread s) by (clear - I; inv_tac).
    easy4. clear - I1 L X1 X2 X3 X4 W V R. inv_tac; try congruence.
Qed.


Lemma elem_bytes_0 w : elem_bytes w 0 = 0.
Proof. unfold elem_bytes, u64. rewrite N.mul_0_l. change (0 mod two64) with 0. change (0 mod 8) with 0. change (0 / 8) with 0.
  change (0 =? 0) with true. cbn [negb]. rewrite andb_false_r. reflexivity. Qed.

Lemma elem_bytes_lt w c : elem_bytes w c < 2305843009213693952 + 1.
Proof.
  unfold elem_bytes, u64, two64.
  assert ((c * w) mod 18446744073709551616 < 18446744073709551616) by (apply N.mod_lt; discriminate).
  destruct ((w =? 1) && negb (c mod 8 =? 0)); lia.
Qed.

Lemma good_chunks t : forall fuel, good cfg 0 0 (chunks cfg stop fuel t) (fun _ => True).
Proof.
  induction fuel as [|f IH]; cbn [chunks]; [apply good_fail|].
  eapply good_bind with (eo1 := (-1)%Z) (ef1 := 0%Z) (eo2 := 1%Z) (ef2 := 1%Z); [apply good_read_uleb | | lia | lia | lia].
  intros h Hh. cbv beta.
  set (count := h / 2). set (nb := elem_bytes (element_bits t) count).
  assert (HC : count < 9223372036854775808) by (subst count; unfold max_u64, two64 in Hh; lia).
  eapply good_bind with (eo1 := 0%Z) (ef1 := 0%Z) (eo2 := 1%Z) (ef2 := 1%Z);
    [apply (good_rules_chunk t count nb HC eq_refl (elem_bytes_lt _ _)) | | lia | lia | lia].
  intros u0 HQ.
  eapply good_bind with (eo1 := 1%Z) (ef1 := 0%Z) (eo2 := 0%Z) (ef2 := 0%Z); [apply good_emit | | lia | lia | lia].
  intros ? ?.
  eapply good_bind with (eo1 := 0%Z) (ef1 := 0%Z) (eo2 := 0%Z) (ef2 := 0%Z) (Q1 := fun _ => True); [ | | lia | lia | lia].
  - destruct (N.eqb_spec nb 0) as [Z|NZ].
    + apply good_ret_any; lia.
    + eapply good_bind with (eo1 := (-1)%Z) (ef1 := 0%Z) (eo2 := 1%Z) (ef2 := 0%Z); [apply good_read_data | | lia | lia | lia].
      * exact NZ.
      * cbn [kb]. intros R P HM. apply HQ; auto. intro Z. apply NZ. unfold nb. rewrite Z. apply elem_bytes_0.
      * intros ? ?. apply good_emit.
  - intros ? ?. destruct (N.odd h); [exact IH|]. apply good_ret_any; lia.
Qed.

Lemma good_with_fuel {A} eo ef (f : nat -> M A) Q : (forall n, good cfg eo ef (f n) Q) -> good cfg eo ef (with_fuel f) Q.
Proof. intros G s r I. unfold with_fuel. apply G. exact I. Qed.

(* emit ;; rules_begin ;; chunks: the tail shared by decodeArray, decodeMedia and decodeCustomType *)
Lemma good_array t : good cfg 1 1 (array cfg stop t) (fun _ => True).
Proof.
  unfold array.
  eapply good_bind with (eo1 := 1%Z) (ef1 := 0%Z) (eo2 := 0%Z) (ef2 := 0%Z); [apply good_emit | | lia | lia | lia].
  intros _ _.
  eapply good_bind with (eo1 := 0%Z) (ef1 := 0%Z) (eo2 := 0%Z) (ef2 := 0%Z); [apply good_rules_begin | | lia | lia | lia].
  intros _ _. apply good_with_fuel. intro n. apply good_chunks.
Qed.

Lemma good_media : good cfg 1 1 (media cfg stop) (fun _ => True).
Proof.
  unfold media.
  eapply good_bind with (eo1 := (-1)%Z) (ef1 := 0%Z) (eo2 := 1%Z) (ef2 := 1%Z); [apply good_read_uleb | | lia | lia | lia].
  intros n Hn.
  eapply good_bind with (eo1 := 0%Z) (ef1 := 0%Z) (eo2 := 1%Z) (ef2 := 1%Z) (Q1 := fun _ => True); [ | | lia | lia | lia].
  - eapply good_weaken; [apply (good_read_buf RMedia n) | | lia | trivial].
    + cbn [kb]. unfold media_type_max_length in Hn. lia.
    + destruct (n =? 0); lia.
  - intros _ _.
    eapply good_bind with (eo1 := 1%Z) (ef1 := 0%Z) (eo2 := 0%Z) (ef2 := 0%Z); [apply good_emit | | lia | lia | lia].
    intros _ _.
    eapply good_bind with (eo1 := 0%Z) (ef1 := 0%Z) (eo2 := 0%Z) (ef2 := 0%Z); [apply good_rules_begin | | lia | lia | lia].
    intros _ _. apply good_with_fuel. intro k. apply good_chunks.
Qed.

Lemma good_custom : good cfg 1 1 (custom cfg stop) (fun _ => True).
Proof.
  unfold custom.
  eapply good_bind with (eo1 := (-1)%Z) (ef1 := 0%Z) (eo2 := 1%Z) (ef2 := 1%Z); [apply good_read_uleb | | lia | lia | lia].
  intros n Hn.
  eapply good_bind with (eo1 := 1%Z) (ef1 := 0%Z) (eo2 := 0%Z) (ef2 := 0%Z); [apply good_emit | | lia | lia | lia].
  intros _ _.
  eapply good_bind with (eo1 := 0%Z) (ef1 := 0%Z) (eo2 := 0%Z) (ef2 := 0%Z); [apply good_rules_begin | | lia | lia | lia].
  intros _ _. apply good_with_fuel. intro k. apply good_chunks.
Qed.

Lemma good_ident : good cfg (-1) 0 (ident cfg) (fun _ => True).
Proof.
  unfold ident.
  eapply good_bind with (eo1 := (-1)%Z) (ef1 := 0%Z) (eo2 := 0%Z) (ef2 := 0%Z); [apply good_read_uleb | | lia | lia | lia].
  intros n Hn. destruct (n =? 0) eqn:E; [apply good_fail|].
  eapply good_weaken; [apply (good_read_buf RIdent n) | | lia | trivial].
  - cbn [kb]. unfold identifier_max_length in Hn. exact Hn.
  - rewrite E. lia.
Qed.

Lemma good_decimal : good cfg (-1) 0 (decimal cfg) (fun _ => True).
Proof.
  unfold decimal.
  eapply good_bind with (eo1 := (-1)%Z) (ef1 := 0%Z) (eo2 := 0%Z) (ef2 := 0%Z); [apply good_uleb_raw | | lia | lia | lia].
  intros [f n] _. cbn [fst snd].
  destruct (is_big f n); [apply good_fail|].
  destruct ((n =? 1)%nat && ((f =? 2) || (f =? 3))); [apply good_ret_any; lia|].
  destruct ((n =? 2)%nat && (f <? 4)); [apply good_ret_any; lia|].
  destruct (cf_max_encoded_exponent <? f); [apply good_fail|].
  eapply good_bind with (eo1 := (-1)%Z) (ef1 := 0%Z) (eo2 := 0%Z) (ef2 := 0%Z); [apply good_uleb_raw | | lia | lia | lia].
  intros _ _. apply good_ret_any; lia.
Qed.

Variable ext : N -> bytes -> option nat.

Lemma good_external ty : good cfg 0 0 (external cfg ext ty) (fun _ => True).
Proof.
  intros s r I. unfold external. destruct (ext ty r) as [n|]; [|easy4].
  destruct (Nat.leb_spec n (length r)) as [L|L]; [|easy4].
  unfold mark.
  assert (SK : len (skipn n r) + N.of_nat n = len r) by (unfold len; rewrite skipn_length; lia).
  destruct (max_doc cfg <? nread (add_nread (N.of_nat n) s)); easy4;
    first [apply Inv_add_nread'; exact I | apply Inv_add_nread; exact (proj1 I)].
Qed.

End Prims.

(* ------------------------------------------------------------------ *)
(* Fixed-size payloads: finite sweep over the 256 type codes           *)
(* ------------------------------------------------------------------ *)

Definition fixed_ok (k : ckind) : bool := match k with CFixed n => n <=? 240 | _ => true end.

Lemma classify_sweep : forallb (fun ty => fixed_ok (classify ty) && fixed_ok (classify7f ty)) (nseq 0 256) = true.
Proof. vm_compute. reflexivity. Qed.

Lemma in_nseq n : forall start x, start <= x -> x < start + N.of_nat n -> In x (nseq start n).
Proof.
  induction n as [|n IH]; intros start x L U; [lia|].
  cbn [nseq]. destruct (N.eq_dec start x) as [E|NE]; [left; exact E|].
  right. apply IH; lia.
Qed.

Lemma classify_fixed ty n : classify ty = CFixed n -> n <= 240.
Proof.
  intro E. destruct (N.lt_ge_cases ty 256) as [L|L].
  - pose proof classify_sweep as S. rewrite forallb_forall in S.
    specialize (S ty (in_nseq 256 0 ty (N.le_0_l _) L)). apply andb_true_iff in S. destruct S as [S _].
    rewrite E in S. cbn [fixed_ok] in S. apply N.leb_le in S. exact S.
  - unfold classify in E. destruct (N.leb_spec 256 ty); [discriminate | lia].
Qed.

Lemma classify7f_fixed ty n : classify7f ty = CFixed n -> n <= 240.
Proof.
  intro E. destruct (N.lt_ge_cases ty 256) as [L|L].
  - pose proof classify_sweep as S. rewrite forallb_forall in S.
    specialize (S ty (in_nseq 256 0 ty (N.le_0_l _) L)). apply andb_true_iff in S. destruct S as [_ S].
    rewrite E in S. cbn [fixed_ok] in S. apply N.leb_le in S. exact S.
  - unfold classify7f in E. destruct (N.leb_spec 256 ty); [discriminate | lia].
Qed.

Section Tokens.
Variable cfg : ccfg.
Variable ext : N -> bytes -> option nat.
Variable stop : option N.

(* a payload read followed by the event *)
Lemma good_then_emit eo (m : M unit) : (eo <= 0)%Z -> good cfg eo 0 m (fun _ => True) ->
  good cfg 1 1 (m ;;; emit stop) (fun _ => True).
Proof.
  intros H G.
  eapply good_bind with (eo1 := eo) (ef1 := 0%Z) (eo2 := 1%Z) (ef2 := 0%Z) (Q1 := fun _ => True); [exact G | | lia | lia | lia].
  intros ? ?. apply good_emit.
Qed.

Lemma good_fixed n : n <= 240 -> good cfg 1 1 (read_buf cfg RFixed n ;;; emit stop) (fun _ => True).
Proof.
  intro H. apply good_then_emit with (eo := 0%Z); [lia|].
  eapply good_weaken; [apply (good_read_buf cfg RFixed n); exact H | | lia | trivial].
  destruct (n =? 0); lia.
Qed.

Lemma good_plane7f : good cfg 1 1 (plane7f cfg stop) (fun _ => True).
Proof.
  unfold plane7f.
  eapply good_bind with (eo1 := (-1)%Z) (ef1 := 0%Z) (eo2 := 1%Z) (ef2 := 1%Z); [apply good_take1 | | lia | lia | lia].
  intros ty _. destruct (classify7f ty) eqn:C; try (apply good_fail_any; lia).
  - apply good_fixed. exact (classify7f_fixed _ _ C).
  - apply good_then_emit with (eo := (-1)%Z); [lia | apply good_ident].
  - apply good_array.
  - apply good_media.
Qed.

Lemma varint_limit : cbeMaxBigIntBitCount / 8 = 1024.
Proof. reflexivity. Qed.

Lemma good_token ty : good cfg 1 1 (token cfg ext stop ty) (fun _ => True).
Proof.
  unfold token. destruct (classify ty) eqn:C.
  - eapply good_weaken; [apply good_emit | lia | lia | trivial].
  - apply good_fail_any; lia.
  - apply good_then_emit with (eo := (-1)%Z); [lia | apply good_decimal].
  - eapply good_bind with (eo1 := (-1)%Z) (ef1 := 0%Z) (eo2 := 1%Z) (ef2 := 1%Z); [apply good_read_uleb | | lia | lia | lia].
    intros n Hn. rewrite varint_limit in Hn.
    apply good_then_emit with (eo := 0%Z); [lia|].
    eapply good_weaken; [apply (good_read_buf cfg RUint n); exact Hn | | lia | trivial].
    destruct (n =? 0); lia.
  - eapply good_bind with (eo1 := (-1)%Z) (ef1 := 0%Z) (eo2 := 1%Z) (ef2 := 0%Z); [apply good_take1 | | lia | lia | lia].
    intros ? ?. apply good_emit.
  - apply good_fixed. exact (classify_fixed _ _ C).
  - apply good_then_emit with (eo := (-1)%Z); [lia | apply good_ident].
  - apply good_then_emit with (eo := 0%Z); [lia | apply good_external].
  - apply good_plane7f.
  - apply good_array.
  - apply good_fail_any; lia.
  - apply good_custom.
Qed.

Lemma good_loop : forall fuel, good cfg 1 1 (loop cfg ext stop fuel) (fun _ => True).
Proof.
  induction fuel as [|f IH]; intros s r I.
  - destruct r as [|x r].
    + cbn [loop]. pose proof (good_emit cfg stop s [] I) as G.
      destruct (emit stop s []) as [a s' r'|w o k s'].
      * destruct G as (G1 & G2 & G3 & G4). split4; auto; lia.
      * destruct G as (G1 & G2 & G3 & G4). split4; auto; lia.
    + cbn [loop]. split4; [exact (proj1 I) | lia | reflexivity | unfold gain; lia].
  - destruct r as [|x r].
    + cbn [loop]. pose proof (good_emit cfg stop s [] I) as G.
      destruct (emit stop s []) as [a s' r'|w o k s'].
      * destruct G as (G1 & G2 & G3 & G4). split4; auto; lia.
      * destruct G as (G1 & G2 & G3 & G4). split4; auto; lia.
    + assert (G : good cfg 1 1 (ty <- take1 cfg ;; token cfg ext stop ty ;;; loop cfg ext stop f) (fun _ => True)).
      { eapply good_bind with (eo1 := (-1)%Z) (ef1 := 0%Z) (eo2 := 2%Z) (ef2 := 2%Z); [apply good_take1 | | lia | lia | lia].
        intros ty _.
        eapply good_bind with (eo1 := 1%Z) (ef1 := 1%Z) (eo2 := 1%Z) (ef2 := 1%Z); [apply good_token | | lia | lia | lia].
        intros ? ?. exact IH. }
      exact (G s (x :: r) I).
Qed.


Lemma good_decode : good cfg 1 1 (decode cfg ext stop) (fun _ => True).
Proof.
  unfold decode.
  eapply good_bind with (eo1 := 1%Z) (ef1 := 0%Z) (eo2 := 0%Z) (ef2 := 0%Z); [apply good_emit | | lia | lia | lia].
  intros ? ?.
  eapply good_bind with (eo1 := (-1)%Z) (ef1 := 0%Z) (eo2 := 1%Z) (ef2 := 1%Z); [apply good_take1 | | lia | lia | lia].
  intros sig _.
  eapply good_bind with (eo1 := 0%Z) (ef1 := 0%Z) (eo2 := 1%Z) (ef2 := 1%Z) (Q1 := fun _ => True); [ | | lia | lia | lia].
  { destruct (sig =? cbeSignatureByte); [apply good_ret_any; lia | apply good_fail_any; lia]. }
  intros ? ?.
  eapply good_bind with (eo1 := (-1)%Z) (ef1 := 0%Z) (eo2 := 2%Z) (ef2 := 2%Z); [apply good_read_uleb | | lia | lia | lia].
  intros v _.
  eapply good_bind with (eo1 := 1%Z) (ef1 := 0%Z) (eo2 := 1%Z) (ef2 := 1%Z); [apply good_emit | | lia | lia | lia].
  intros ? ?. apply good_with_fuel. exact good_loop.
Qed.

End Tokens.

(* ------------------------------------------------------------------ *)
(* One decode                                                           *)
(* ------------------------------------------------------------------ *)

Lemma Inv_st0 cfg : Inv cfg st0.
Proof. unfold Inv, InvO, st0. cbn. repeat split; intros; try lia; reflexivity. Qed.

(* everything the walk guarantees about its final state *)
Lemma run_spec cfg ext stop d :
  let o := run cfg ext stop d in
  InvO cfg (o_over o) (o_st o) /\ nread (o_st o) <= len d /\ kb cfg (o_kind o) (o_over o) /\
  nev (o_st o) <= nread (o_st o) + 1.
Proof.
  unfold run. pose proof (good_decode cfg ext stop st0 d (Inv_st0 cfg)) as G.
  destruct (decode cfg ext stop st0 d) as [a s r|w o k s]; cbn [o_over o_st o_kind].
  - destruct G as (I & E & _ & Gn). unfold gain in Gn. cbn [st0 nread nev] in *.
    split4; [exact (proj1 I) | lia | reflexivity | lia].
  - destruct G as (I & E & K & Gn). unfold gain in Gn. cbn [st0 nread nev] in *.
    split4; [exact I | lia | exact K | lia].
Qed.

(* The general inequality: reader + validator allocation is at most 12 bytes per
   document byte, plus twice the one announced length (if any) that the input
   could not satisfy. *)
Lemma alloc_general cfg ext stop d :
  alloc cfg ext stop d <= 12 * len d + 2 * o_over (run cfg ext stop d).
Proof.
  unfold alloc. destruct (run_spec cfg ext stop d) as (I & L & _ & _).
  unfold InvO in I. lia.
Qed.

(* without a validator nothing is allocated besides reader buffers *)
Lemma alloc_general_bare cfg ext stop d : rules_on cfg = false ->
  alloc cfg ext stop d <= 2 * len d + 2 * o_over (run cfg ext stop d).
Proof.
  intro R. unfold alloc. destruct (run_spec cfg ext stop d) as (I & L & _ & _).
  unfold InvO in I. destruct I as (I1 & I2 & I3 & I4 & I5 & I6). rewrite (I6 R). lia.
Qed.

(* the overrun, by the length field that announced it *)
Lemma overrun_by_field cfg ext stop d :
  let o := run cfg ext stop d in
  match o_kind o with
  | RNone => o_over o = 0
  | RFixed => o_over o <= 240
  | RUint => o_over o <= 1024
  | RIdent => o_over o <= 100000
  | RMedia => o_over o <= 4294967295
  | RChunk => rules_on cfg = true -> 0 < max_array cfg -> max_array cfg < 9223372036854775808 -> o_over o <= max_array cfg
  end.
Proof. cbv zeta. destruct (run_spec cfg ext stop d) as (_ & _ & K & _). exact K. Qed.

(* documents whose announced lengths are all present in the input *)
Lemma alloc_bound_honest cfg ext stop d :
  o_over (run cfg ext stop d) = 0 -> alloc cfg ext stop d <= 12 * len d.
Proof. intro H. pose proof (alloc_general cfg ext stop d). lia. Qed.

Lemma alloc_bound_accepted cfg ext stop d :
  o_why (run cfg ext stop d) = None -> alloc cfg ext stop d <= 12 * len d.
Proof.
  intro H. apply alloc_bound_honest. unfold run in *.
  destruct (decode cfg ext stop st0 d); [reflexivity | discriminate].
Qed.

(* validator in the pipeline with a positive limit: every length field except the media type *)
Lemma alloc_bound_rules cfg ext stop d :
  rules_on cfg = true -> 0 < max_array cfg -> max_array cfg < 9223372036854775808 ->
  o_kind (run cfg ext stop d) <> RMedia ->
  alloc cfg ext stop d <= 12 * len d + 2 * max_array cfg + 200000.
Proof.
  intros R P HM NM. pose proof (alloc_general cfg ext stop d) as G.
  pose proof (overrun_by_field cfg ext stop d) as K. cbv zeta in K.
  destruct (o_kind (run cfg ext stop d)); try contradiction; try (specialize (K R P HM)); lia.
Qed.

(* any pipeline: every length field except the media type and array chunks *)
Lemma alloc_bound_bare cfg ext stop d :
  o_kind (run cfg ext stop d) <> RMedia -> o_kind (run cfg ext stop d) <> RChunk ->
  alloc cfg ext stop d <= 12 * len d + 200000.
Proof.
  intros NM NC. pose proof (alloc_general cfg ext stop d) as G.
  pose proof (overrun_by_field cfg ext stop d) as K. cbv zeta in K.
  destruct (o_kind (run cfg ext stop d)); try lia; contradiction.
Qed.

(* the decoder's own work is linear: every event is preceded by a byte of its own *)
Lemma events_le_bytes cfg ext stop d :
  nev (o_st (run cfg ext stop d)) <= nread (o_st (run cfg ext stop d)) + 1.
Proof. destruct (run_spec cfg ext stop d) as (_ & _ & _ & E). exact E. Qed.

Lemma steps_linear cfg ext stop d : steps cfg ext stop d <= 13 * len d + 1.
Proof.
  unfold steps. destruct (run_spec cfg ext stop d) as (I & L & _ & E).
  unfold InvO in I. lia.
Qed.

(* time = own work + zero-filling of what was allocated *)
Lemma time_general cfg ext stop d :
  time cfg ext stop d <= 25 * len d + 1 + 2 * o_over (run cfg ext stop d).
Proof. unfold time. pose proof (steps_linear cfg ext stop d). pose proof (alloc_general cfg ext stop d). lia. Qed.

(* ------------------------------------------------------------------ *)
(* The full property and where the code violates it                     *)
(* ------------------------------------------------------------------ *)

(* the bound of the property, with the constants the search oracle uses *)
Definition alloc_bounded (cfg : ccfg) ext stop (d : bytes) : Prop :=
  alloc cfg ext stop d <= 64 * len d + 2 * max_array cfg + 1048576.

Definition time_bounded (cfg : ccfg) ext stop (d : bytes) : Prop :=
  time cfg ext stop d <= 64 * len d + 2 * max_array cfg + 1048576.

Definition cfg_1MiB (rules : bool) : ccfg :=
  {| rules_on := rules; max_array := 1048576; max_doc := cbeDefaultMaxDocumentSizeBytes |}.

(* 81 00 | 93 (uint8 array) | chunk header 2^31 = 2^30 elements, last chunk | nothing *)
Definition witness_chunk : bytes := [129; 0; 147; 128; 128; 128; 128; 8].
(* 81 00 | 7f f3 (media) | media type length 2^29 | nothing *)
Definition witness_media : bytes := [129; 0; 127; 243; 128; 128; 128; 128; 2].
(* 81 00 | 7f f3 (media) | media type length 2^32-1 | nothing *)
Definition witness_media_max : bytes := [129; 0; 127; 243; 255; 255; 255; 255; 15].

Lemma witness_chunk_alloc : alloc (cfg_1MiB false) no_ext None witness_chunk = 2147483648
  /\ o_kind (run (cfg_1MiB false) no_ext None witness_chunk) = RChunk.
Proof. vm_compute. split; reflexivity. Qed.

Lemma witness_media_alloc : alloc (cfg_1MiB true) no_ext None witness_media = 1073741824
  /\ o_kind (run (cfg_1MiB true) no_ext None witness_media) = RMedia.
Proof. vm_compute. split; reflexivity. Qed.

Lemma witness_media_max_alloc : alloc (default_ccfg true) no_ext None witness_media_max = 8589934590.
Proof. vm_compute. reflexivity. Qed.

(* no validator: an 8-byte document makes the reader allocate 2 GiB *)
Lemma alloc_refuted_bare : exists cfg ext stop d, rules_on cfg = false /\ ~ alloc_bounded cfg ext stop d.
Proof.
  exists (cfg_1MiB false), no_ext, None, witness_chunk. split; [reflexivity|].
  unfold alloc_bounded. destruct witness_chunk_alloc as [E _]. rewrite E. vm_compute. intro H. apply H. reflexivity.
Qed.

(* validator present, 1 MiB limit: a 9-byte document makes the reader allocate 1 GiB for the media type *)
Lemma alloc_refuted_media : exists cfg ext stop d, rules_on cfg = true /\ 0 < max_array cfg /\ ~ alloc_bounded cfg ext stop d.
Proof.
  exists (cfg_1MiB true), no_ext, None, witness_media. split; [reflexivity|]. split; [reflexivity|].
  unfold alloc_bounded. destruct witness_media_alloc as [E _]. rewrite E. vm_compute. intro H. apply H. reflexivity.
Qed.

(* validator present, default 1 GiB limit: a 9-byte document asks for 8 GiB *)
Lemma alloc_refuted_media_default : ~ alloc_bounded (default_ccfg true) no_ext None witness_media_max.
Proof. unfold alloc_bounded. rewrite witness_media_max_alloc. vm_compute. intro H. apply H. reflexivity. Qed.

Lemma time_refuted : exists cfg ext stop d, ~ time_bounded cfg ext stop d.
Proof.
  exists (cfg_1MiB false), no_ext, None, witness_chunk. unfold time_bounded.
  vm_compute. intro H. apply H. reflexivity.
Qed.

(* Non-vacuity of the partial theorems: a chunk announced within the limit but
   absent, under a validator: the overrun is the chunk's, the allocation is
   twice the announced length, within the bound. *)
Definition cfg_4KiB : ccfg := {| rules_on := true; max_array := 4096; max_doc := cbeDefaultMaxDocumentSizeBytes |}.
(* 81 00 | 9a (list) | 93 (uint8 array) | header 8000 = 4000 elements, last | 'a' *)
Definition example_short_chunk : bytes := [129; 0; 154; 147; 192; 62; 97].

Lemma example_short_chunk_run :
  let o := run cfg_4KiB no_ext None example_short_chunk in
  o_kind o = RChunk /\ o_over o = 4000 /\ alloc cfg_4KiB no_ext None example_short_chunk = 8000.
Proof. vm_compute. repeat split; reflexivity. Qed.

(* an honest document: the constant 2 of the reader is attained (300-byte string: 600-byte buffer),
   and the validator's copy adds its own 300 *)
Definition example_honest : bytes := [129; 0; 144; 216; 4] ++ nrep 97 300.
Lemma example_honest_run :
  o_why (run cfg_4KiB no_ext None example_honest) = None /\
  alloc cfg_4KiB no_ext None example_honest = 900 /\ steps cfg_4KiB no_ext None example_honest = 611.
Proof. vm_compute. repeat split; reflexivity. Qed.
