(* C08 — lemmas about Model/Cost.v (for all documents, configurations, external
   decoders and refusal points). *)
From Coq Require Import List NArith ZArith Bool Lia ZifyN ZifyNat ZifyBool.
From CE Require Import Model.Cost.
Import ListNotations.
Open Scope N_scope.

Ltac Zify.zify_post_hook ::= Z.to_euclidean_division_equations.
Ltac split4 := split; [|split; [|split]].

#[local] Arguments N.mul : simpl never.
#[local] Arguments N.add : simpl never.
#[local] Arguments N.div : simpl never.
#[local] Arguments N.modulo : simpl never.
#[local] Arguments N.ltb : simpl never.
#[local] Arguments N.leb : simpl never.
#[local] Arguments N.eqb : simpl never.
#[local] Arguments N.pow : simpl never.

(* ------------------------------------------------------------------ *)
(* Go's append growth                                                   *)
(* ------------------------------------------------------------------ *)

Lemma grow_loop_spec fuel : forall c need r,
  grow_loop fuel c need = Some r -> 256 <= c -> c < need ->
  need <= r /\ r <= 2 * need /\ 5 * c <= 4 * r.
Proof.
  induction fuel as [|f IH]; intros c need r E Hc Hn; cbn [grow_loop] in E; [discriminate|].
  destruct (N.leb_spec need (c + (c + 768) / 4)) as [L|L].
  - inversion E; subst r. lia.
  - apply IH in E; lia.
Qed.

Lemma go_grow_spec old need : old < need ->
  need <= go_grow old need /\ go_grow old need <= 2 * need /\ 5 * old <= 4 * go_grow old need.
Proof.
  intro H. unfold go_grow.
  destruct (N.ltb_spec (2 * old) need) as [A|A]; [lia|].
  destruct (N.ltb_spec old 256) as [B|B]; [lia|].
  destruct (grow_loop 256 old need) as [c|] eqn:E.
  - apply grow_loop_spec in E; lia.
  - lia.
Qed.

(* ------------------------------------------------------------------ *)
(* Invariant of the walk                                                *)
(* ------------------------------------------------------------------ *)

Definition len (r : bytes) : N := N.of_nat (length r).

(* the validator's part: builtArrayBuffer holds only bytes that were read; growth is geometric *)
Definition InvV (cfg : ccfg) (s : cst) : Prop :=
  val s <= 5 * vcap s /\
  vcap s <= 2 * nread s /\
  vlen s <= nread s /\
  vwork s <= val s + nread s /\
  (rules_on cfg = false -> val s = 0).

(* the reader's part: never below the start size, at most twice what was read (or the
   start size), total allocation at most 4 bytes per byte read, copies paid by allocations *)
Definition InvR (s : cst) : Prop :=
  cbeDecoderStartBufferSize <= buf s /\
  buf s <= N.max cbeDecoderStartBufferSize (2 * nread s) /\
  al s <= 4 * nread s /\
  rwork s <= al s.

Definition Inv (cfg : ccfg) (s : cst) : Prop := InvR s /\ InvV cfg s.

(* events gained minus bytes gained between two states *)
Definition gain (s s' : cst) : Z :=
  ((Z.of_N (nev s') - Z.of_N (nev s)) - (Z.of_N (nread s') - Z.of_N (nread s)))%Z.

(* [good cfg eo ef m Q]: from a state satisfying the invariant, m either succeeds
   (invariant kept, bytes accounted for exactly, value satisfies Q, gain <= eo)
   or fails (invariant kept, bytes pulled <= bytes available, gain <= ef). *)
Definition good {A} (cfg : ccfg) (eo ef : Z) (m : M A) (Q : A -> Prop) : Prop :=
  forall s r, Inv cfg s ->
    match m s r with
    | ROk a s' r' => Inv cfg s' /\ nread s' + len r' = nread s + len r /\ Q a /\ (gain s s' <= eo)%Z
    | RFail w s' => Inv cfg s' /\ nread s' <= nread s + len r /\ (gain s s' <= ef)%Z
    end.

Ltac split3 := split; [|split].

Lemma good_weaken {A} cfg eo ef eo' ef' (m : M A) (Q Q' : A -> Prop) :
  good cfg eo ef m Q -> (eo <= eo')%Z -> (ef <= ef')%Z -> (forall a, Q a -> Q' a) -> good cfg eo' ef' m Q'.
Proof.
  intros G Ho Hf HQ s r I. specialize (G s r I). destruct (m s r) as [a s' r'|w s'].
  - destruct G as (G1 & G2 & G3 & G4). split4; auto; lia.
  - destruct G as (G1 & G2 & G4). split3; auto; lia.
Qed.

Lemma good_bind {A B} cfg eo1 ef1 eo2 ef2 eo ef (m : M A) (f : A -> M B) (Q1 : A -> Prop) (Q2 : B -> Prop) :
  good cfg eo1 ef1 m Q1 -> (forall a, Q1 a -> good cfg eo2 ef2 (f a) Q2) ->
  (eo1 + eo2 <= eo)%Z -> (ef1 <= ef)%Z -> (eo1 + ef2 <= ef)%Z ->
  good cfg eo ef (bind m f) Q2.
Proof.
  intros G1 G2 H1 H2 H3 s r I. unfold bind. specialize (G1 s r I).
  destruct (m s r) as [a s' r'|w s'].
  - destruct G1 as (I' & N1 & Qa & E1). specialize (G2 a Qa s' r' I').
    destruct (f a s' r') as [b s'' r''|w s''].
    + destruct G2 as (I'' & N2 & Qb & E2). unfold gain in *. split4; auto; lia.
    + destruct G2 as (I'' & N2 & E2). unfold gain in *. split3; auto; lia.
  - destruct G1 as (I' & N1 & E1). split3; auto; lia.
Qed.

Lemma good_ret {A} cfg (a : A) : good cfg 0 0 (ret a) (fun x => x = a).
Proof. intros s r I. cbn. unfold gain. split4; auto; lia. Qed.

Lemma good_fail {A} cfg w (Q : A -> Prop) : good cfg 0 0 (fail w) Q.
Proof. intros s r I. cbn. unfold gain. split3; [exact I | lia | lia]. Qed.

Lemma good_fail_any {A} cfg w eo ef (Q : A -> Prop) : (0 <= eo)%Z -> (0 <= ef)%Z -> good cfg eo ef (fail w) Q.
Proof. intros. eapply good_weaken; [apply (good_fail cfg w Q) | lia | lia | auto]. Qed.

Lemma good_ret_any {A} cfg (a : A) eo ef : (0 <= eo)%Z -> (0 <= ef)%Z -> good cfg eo ef (ret a) (fun _ => True).
Proof. intros. eapply good_weaken; [apply (good_ret cfg a) | lia | lia | auto]. Qed.

Ltac unf :=
  cbn [buf nread al rwork nev atot vcap vlen val vwork add_nread grow_buf add_nev set_atot set_v] in *.

Ltac inv_tac :=
  unfold Inv, InvR, InvV in *; unf; intuition (try lia; try congruence).

Lemma Inv_add_nread cfg n s : Inv cfg s -> Inv cfg (add_nread n s).
Proof. intro I. inv_tac. Qed.

Ltac easy4 :=
  split4; try (unfold gain, len in *; unf; cbn [length] in *; first [assumption | reflexivity | exact Logic.I | lia]).
Ltac easy3 :=
  split3; try (unfold gain, len in *; unf; cbn [length] in *; first [assumption | reflexivity | exact Logic.I | lia]).

Section Prims.
Variable cfg : ccfg.
Variable stop : option N.

Lemma good_take1 : good cfg (-1) 0 (take1 cfg) (fun _ => True).
Proof.
  intros s r I. unfold take1, mark. destruct r as [|x r'].
  - easy3.
  - destruct (max_doc cfg <? nread (add_nread 1 s)); [easy3 | easy4]; apply Inv_add_nread; exact I.
Qed.

Lemma good_uleb_raw : good cfg (-1) 0 (uleb_raw cfg) (fun _ => True).
Proof.
  intros s r; revert s. induction r as [|x r' IH]; intros s I; cbn [uleb_raw].
  - easy3.
  - unfold mark. destruct (max_doc cfg <? nread (add_nread 1 s)).
    + easy3. apply Inv_add_nread; exact I.
    + destruct (x <? 128).
      * easy4. apply Inv_add_nread; exact I.
      * specialize (IH (add_nread 1 s) (Inv_add_nread _ _ _ I)).
        destruct (uleb_raw cfg (add_nread 1 s) r') as [[v n] s'' r''|w s''].
        -- destruct IH as (I2 & N2 & _ & E2). easy4.
        -- destruct IH as (I2 & N2 & E2). easy3.
Qed.

Lemma good_read_uleb maxv : good cfg (-1) 0 (read_uleb cfg maxv) (fun v => v <= maxv).
Proof.
  unfold read_uleb.
  eapply good_bind with (eo2 := 0%Z) (ef2 := 0%Z); [apply good_uleb_raw | | lia | lia | lia].
  intros [v n] _. cbn [fst snd].
  destruct (is_big v n); cbn [orb]; [apply good_fail|].
  destruct (N.ltb_spec maxv v); [apply good_fail|].
  eapply good_weaken; [apply good_ret | lia | lia |]. intros a ->. exact H.
Qed.

Lemma len_skipn n (r : bytes) : n <= len r -> len (skipn (N.to_nat n) r) + n = len r.
Proof. unfold len. intro H. rewrite skipn_length. lia. Qed.

(* ---------------- the reader's fill loop (readIntoBuffer / growBuffer) ---------------- *)

(* fields the reader does not touch *)
Definition same_v (s s' : cst) : Prop :=
  nev s' = nev s /\ atot s' = atot s /\ vcap s' = vcap s /\ vlen s' = vlen s /\ val s' = val s /\ vwork s' = vwork s.

(* credit left from the last doubling: right after growBuffer the buffer is twice what this
   call has read; its allocation is charged to the bytes this call has read and will read *)
Definition credit (b f : N) : N := if b <=? 2 * f then 2 * b else 0.

Lemma credit_mono b f f' : f <= f' -> credit b f <= credit b f'.
Proof. unfold credit. intro H. destruct (N.leb_spec b (2 * f)); destruct (N.leb_spec b (2 * f')); lia. Qed.

Lemma credit_le b f : credit b f <= 4 * f.
Proof. unfold credit. destruct (N.leb_spec b (2 * f)); lia. Qed.

Lemma fill_spec : forall fuel count filled s r,
  InvV cfg s ->
  cbeDecoderStartBufferSize <= buf s ->
  buf s <= N.max cbeDecoderStartBufferSize (2 * nread s) ->
  filled <= buf s -> filled <= nread s ->
  al s + 4 * filled <= 4 * nread s + credit (buf s) filled ->
  rwork s <= al s ->
  match fill cfg fuel count filled s r with
  | ROk _ s' r' => Inv cfg s' /\ nread s' + len r' = nread s + len r /\ same_v s s' /\
                   (filled <= count -> nread s' + filled = nread s + count)
  | RFail _ s' => Inv cfg s' /\ nread s' <= nread s + len r /\ nread s <= nread s' /\ nev s' = nev s
  end.
Proof.
  induction fuel as [|f IH]; intros count filled s r V B0 B1 F1 F2 A W; cbn [fill].
  { pose proof (credit_le (buf s) filled). split4; try lia; try reflexivity.
    split; [unfold InvR; repeat split; lia | exact V]. }
  destruct (N.leb_spec count filled) as [Done|More].
  { pose proof (credit_le (buf s) filled).
    split4; try lia.
    - split; [unfold InvR; repeat split; lia | exact V].
    - unfold same_v; repeat split; reflexivity. }
  (* one more round: possibly grow, then one Read *)
  assert (T : forall s1,
             InvV cfg s1 -> same_v s s1 -> nread s1 = nread s ->
             cbeDecoderStartBufferSize <= buf s1 -> buf s1 <= N.max cbeDecoderStartBufferSize (2 * nread s1) ->
             filled <= buf s1 -> al s1 + 4 * filled <= 4 * nread s1 + credit (buf s1) filled -> rwork s1 <= al s1 ->
             match (let space := N.min (buf s1) count - filled in
                    let avail := N.of_nat (length r) in
                    if avail =? 0 then RFail WShort s1
                    else let n := N.min space avail in
                         match mark cfg n s1 (skipn (N.to_nat n) r) with
                         | ROk _ s2 r2 => fill cfg f count (filled + n) s2 r2
                         | RFail w s2 => RFail w s2
                         end) with
             | ROk _ s' r' => Inv cfg s' /\ nread s' + len r' = nread s + len r /\ same_v s s' /\
                              (filled <= count -> nread s' + filled = nread s + count)
             | RFail _ s' => Inv cfg s' /\ nread s' <= nread s + len r /\ nread s <= nread s' /\ nev s' = nev s
             end).
  { intros s1 V1 SV N1 C0 C1 C2 C3 C4. cbv zeta.
    pose proof (credit_le (buf s1) filled) as CL.
    destruct (N.eqb_spec (N.of_nat (length r)) 0) as [E0|NE0].
    { split4; try lia; [|destruct SV as (SV & _); exact SV].
      split; [unfold InvR; repeat split; lia | exact V1]. }
    set (n := N.min (N.min (buf s1) count - filled) (N.of_nat (length r))).
    assert (Hn : n <= len r) by (unfold len; subst n; lia).
    assert (Hs : filled + n <= buf s1 /\ filled + n <= count) by (subst n; lia).
    unfold mark. pose proof (len_skipn n r Hn) as SK.
    assert (I2 : Inv cfg (add_nread n s1)).
    { split; [unfold InvR; unf; repeat split; lia | clear - V1; inv_tac]. }
    destruct (max_doc cfg <? nread (add_nread n s1)).
    { unf. split4; try lia; [exact I2 | destruct SV as (SV & _); exact SV]. }
    assert (V2 : InvV cfg (add_nread n s1)) by (clear - V1; inv_tac).
    pose proof (credit_mono (buf s1) filled (filled + n) ltac:(lia)) as CM.
    specialize (IH count (filled + n) (add_nread n s1) (skipn (N.to_nat n) r) V2).
    unf.
    specialize (IH C0 ltac:(lia) ltac:(lia) ltac:(lia) ltac:(lia) C4).
    destruct (fill cfg f count (filled + n) (add_nread n s1) (skipn (N.to_nat n) r)) as [u s' r'|w s'].
    - destruct IH as (J1 & J2 & J3 & J4). unf. split4.
      + exact J1.
      + lia.
      + unfold same_v in *. unf. intuition congruence.
      + intros _. specialize (J4 ltac:(lia)). lia.
    - destruct IH as (J1 & J2 & J3 & J4). unf. split4; try lia; [exact J1|].
      destruct SV as (SV & _). congruence. }
  destruct (N.eqb_spec filled (buf s)) as [Full|NotFull].
  - (* growBuffer *)
    set (n := N.min (N.max (2 * buf s) cbeDecoderStartBufferSize) (2 * count)).
    assert (Hn : n = 2 * filled) by (subst n; lia).
    destruct (go_max_alloc <? n).
    { pose proof (credit_le (buf s) filled). split4; try lia; try reflexivity.
      split; [unfold InvR; repeat split; lia | exact V]. }
    assert (CR : al s + n + 4 * filled <= 4 * nread s + credit n filled).
    { rewrite Hn. unfold credit in *. destruct (N.leb_spec (buf s) (2 * filled)); [|lia].
      destruct (N.leb_spec (2 * filled) (2 * filled)); lia. }
    apply T; unf;
      [ clear - V; inv_tac | unfold same_v; unf; repeat split; reflexivity | reflexivity
      | lia | lia | lia | exact CR | lia ].
  - apply T;
      [ exact V | unfold same_v; repeat split; reflexivity | reflexivity
      | exact B0 | exact B1 | exact F1 | exact A | exact W ].
Qed.

(* ReadBytes.  With [count <> 0] the success case gains at least one byte. *)
Lemma read_buf_spec count s r : Inv cfg s ->
  match read_buf cfg count s r with
  | ROk _ s' r' => Inv cfg s' /\ nread s' + len r' = nread s + len r /\ same_v s s' /\ nread s' = nread s + count
  | RFail _ s' => Inv cfg s' /\ nread s' <= nread s + len r /\ nread s <= nread s' /\ nev s' = nev s
  end.
Proof.
  intros ((B0 & B1 & A & W) & V). unfold read_buf.
  pose proof (fill_spec (S (length r)) count 0 s r V B0 B1 ltac:(lia) ltac:(lia)) as G.
  assert (C : al s + 4 * 0 <= 4 * nread s + credit (buf s) 0) by lia.
  specialize (G C W).
  destruct (fill cfg (S (length r)) count 0 s r) as [u s' r'|w s'].
  - destruct G as (G1 & G2 & G3 & G4). split4; auto. specialize (G4 ltac:(lia)). lia.
  - exact G.
Qed.

Lemma good_read_buf count :
  good cfg (if count =? 0 then 0 else -1) 0 (read_buf cfg count) (fun _ => True).
Proof.
  intros s r I. pose proof (read_buf_spec count s r I) as G.
  destruct (read_buf cfg count s r) as [u s' r'|w s'].
  - destruct G as (G1 & G2 & (G3 & _) & G4). split4; auto. unfold gain.
    destruct (N.eqb_spec count 0); lia.
  - destruct G as (G1 & G2 & G3 & G4). split3; auto. unfold gain. lia.
Qed.

Lemma good_emit : good cfg 1 0 (emit stop) (fun _ => True).
Proof.
  intros s r I. unfold emit.
  assert (A : Inv cfg (add_nev s)) by (clear - I; inv_tac).
  destruct stop as [k|]; [destruct (nev s =? k)|]; first [easy4 | easy3].
Qed.

Lemma good_rules_begin : good cfg 0 0 (rules_begin cfg) (fun _ => True).
Proof.
  intros s r I. unfold rules_begin. destruct (rules_on cfg) eqn:R; easy4.
  clear - I R. inv_tac.
Qed.

Lemma good_rules_chunk t count nb : good cfg 0 0 (rules_chunk cfg t count nb) (fun _ => True).
Proof.
  intros s r I. unfold rules_chunk.
  destruct (rules_on cfg && negb (count =? 0)); [|easy4].
  destruct ((max_array cfg <? _) && _); [easy3 | easy4]; clear - I; inv_tac.
Qed.

(* ReadBytes of a chunk followed by OnArrayData reaching the validator *)
Lemma good_read_data t nb : nb <> 0 -> good cfg (-1) 0 (read_data cfg t nb) (fun _ => True).
Proof.
  intros NZ s r I. unfold read_data, bind.
  pose proof (read_buf_spec nb s r I) as G.
  destruct (read_buf cfg nb s r) as [u s1 r1|w s1].
  2:{ destruct G as (G1 & G2 & G3 & G4). split3; auto. unfold gain. lia. }
  destruct G as (I1 & N1 & (X0 & X5 & X6 & X2 & X4 & X3) & X1).
  assert (W : vwork s <= val s + nread s) by (clear - I; inv_tac).
  assert (V : vlen s <= nread s) by (clear - I; inv_tac).
  unfold rules_data. destruct (rules_on cfg && stringlike t) eqn:RS.
  2:{ split4; auto. unfold gain. lia. }
  apply andb_true_iff in RS. destruct RS as [R S].
  destruct (N.ltb_spec (vcap s1) (vlen s1 + nb)) as [L|L].
  - pose proof (go_grow_spec _ _ L) as (G1 & G2 & G3).
    split4; auto; [|unfold gain; unf; lia].
    clear - I1 G1 G2 G3 X1 X2 X3 X4 W V R. inv_tac.
  - split4; auto; [|unfold gain; unf; lia].
    clear - I1 L X1 X2 X3 X4 W V R. inv_tac.
Qed.

Lemma good_chunks t : forall fuel, good cfg 0 0 (chunks cfg stop fuel t) (fun _ => True).
Proof.
  induction fuel as [|f IH]; cbn [chunks]; [apply good_fail|].
  eapply good_bind with (eo1 := (-1)%Z) (ef1 := 0%Z) (eo2 := 1%Z) (ef2 := 1%Z); [apply good_read_uleb | | lia | lia | lia].
  intros h Hh. cbv beta.
  set (count := h / 2). set (nb := elem_bytes (element_bits t) count).
  eapply good_bind with (eo1 := 0%Z) (ef1 := 0%Z) (eo2 := 1%Z) (ef2 := 1%Z);
    [apply (good_rules_chunk t count nb) | | lia | lia | lia].
  intros ? ?.
  eapply good_bind with (eo1 := 1%Z) (ef1 := 0%Z) (eo2 := 0%Z) (ef2 := 0%Z); [apply good_emit | | lia | lia | lia].
  intros ? ?.
  eapply good_bind with (eo1 := 0%Z) (ef1 := 0%Z) (eo2 := 0%Z) (ef2 := 0%Z) (Q1 := fun _ => True); [ | | lia | lia | lia].
  - destruct (N.eqb_spec nb 0) as [Z|NZ].
    + apply good_ret_any; lia.
    + eapply good_bind with (eo1 := (-1)%Z) (ef1 := 0%Z) (eo2 := 1%Z) (ef2 := 0%Z); [apply good_read_data; exact NZ | | lia | lia | lia].
      intros ? ?. apply good_emit.
  - intros ? ?. destruct (N.odd h); [exact IH|]. apply good_ret_any; lia.
Qed.

Lemma good_with_fuel {A} eo ef (f : nat -> M A) Q : (forall n, good cfg eo ef (f n) Q) -> good cfg eo ef (with_fuel f) Q.
Proof. intros G s r I. unfold with_fuel. apply G. exact I. Qed.

Lemma good_array t : good cfg 1 1 (array cfg stop t) (fun _ => True).
Proof.
  unfold array.
  eapply good_bind with (eo1 := 1%Z) (ef1 := 0%Z) (eo2 := 0%Z) (ef2 := 0%Z); [apply good_emit | | lia | lia | lia].
  intros ? ?.
  eapply good_bind with (eo1 := 0%Z) (ef1 := 0%Z) (eo2 := 0%Z) (ef2 := 0%Z); [apply good_rules_begin | | lia | lia | lia].
  intros ? ?. apply good_with_fuel. intro n. apply good_chunks.
Qed.

Lemma good_read_buf0 n : good cfg 0 0 (read_buf cfg n) (fun _ => True).
Proof. eapply good_weaken; [apply (good_read_buf n) | | lia | trivial]. destruct (n =? 0); lia. Qed.

Lemma good_media : good cfg 1 1 (media cfg stop) (fun _ => True).
Proof.
  unfold media.
  eapply good_bind with (eo1 := (-1)%Z) (ef1 := 0%Z) (eo2 := 1%Z) (ef2 := 1%Z); [apply good_read_uleb | | lia | lia | lia].
  intros n Hn.
  eapply good_bind with (eo1 := 0%Z) (ef1 := 0%Z) (eo2 := 1%Z) (ef2 := 1%Z); [apply good_read_buf0 | | lia | lia | lia].
  intros ? ?.
  eapply good_bind with (eo1 := 1%Z) (ef1 := 0%Z) (eo2 := 0%Z) (ef2 := 0%Z); [apply good_emit | | lia | lia | lia].
  intros ? ?.
  eapply good_bind with (eo1 := 0%Z) (ef1 := 0%Z) (eo2 := 0%Z) (ef2 := 0%Z); [apply good_rules_begin | | lia | lia | lia].
  intros ? ?. apply good_with_fuel. intro k. apply good_chunks.
Qed.

Lemma good_custom : good cfg 1 1 (custom cfg stop) (fun _ => True).
Proof.
  unfold custom.
  eapply good_bind with (eo1 := (-1)%Z) (ef1 := 0%Z) (eo2 := 1%Z) (ef2 := 1%Z); [apply good_read_uleb | | lia | lia | lia].
  intros n Hn.
  eapply good_bind with (eo1 := 1%Z) (ef1 := 0%Z) (eo2 := 0%Z) (ef2 := 0%Z); [apply good_emit | | lia | lia | lia].
  intros ? ?.
  eapply good_bind with (eo1 := 0%Z) (ef1 := 0%Z) (eo2 := 0%Z) (ef2 := 0%Z); [apply good_rules_begin | | lia | lia | lia].
  intros ? ?. apply good_with_fuel. intro k. apply good_chunks.
Qed.

Lemma good_ident : good cfg (-1) 0 (ident cfg) (fun _ => True).
Proof.
  unfold ident.
  eapply good_bind with (eo1 := (-1)%Z) (ef1 := 0%Z) (eo2 := 0%Z) (ef2 := 0%Z); [apply good_read_uleb | | lia | lia | lia].
  intros n Hn. destruct (n =? 0) eqn:E; [apply good_fail|]. apply good_read_buf0.
Qed.

Lemma good_decimal : good cfg (-1) 0 (decimal cfg) (fun _ => True).
Proof.
  unfold decimal.
  eapply good_bind with (eo1 := (-1)%Z) (ef1 := 0%Z) (eo2 := 0%Z) (ef2 := 0%Z); [apply good_uleb_raw | | lia | lia | lia].
  intros [f n] _. cbn [fst snd].
  destruct (is_big f n); [apply good_fail|].
  destruct ((n =? 1)%nat && ((f =? 2) || (f =? 3))); [apply good_ret_any; lia|].
  destruct ((n =? 2)%nat && (f <? 4)); [apply good_ret_any; lia|].
  destruct (cf_max_encoded_exponent <? f); [apply good_fail|].
  eapply good_bind with (eo1 := (-1)%Z) (ef1 := 0%Z) (eo2 := 0%Z) (ef2 := 0%Z); [apply good_uleb_raw | | lia | lia | lia].
  intros ? ?. apply good_ret_any; lia.
Qed.

Variable ext : N -> bytes -> option nat.

Lemma good_external ty : good cfg 0 0 (external cfg ext ty) (fun _ => True).
Proof.
  intros s r I. unfold external. destruct (ext ty r) as [n|]; [|easy3].
  destruct (Nat.leb_spec n (length r)) as [L|L]; [|easy3].
  unfold mark.
  assert (SK : len (skipn n r) + N.of_nat n = len r) by (unfold len; rewrite skipn_length; lia).
  destruct (max_doc cfg <? nread (add_nread (N.of_nat n) s)); [easy3 | easy4]; apply Inv_add_nread; exact I.
Qed.

End Prims.

Section Tokens.
Variable cfg : ccfg.
Variable ext : N -> bytes -> option nat.
Variable stop : option N.

(* a payload read followed by the event *)
Lemma good_then_emit eo (m : M unit) : (eo <= 0)%Z -> good cfg eo 0 m (fun _ => True) ->
  good cfg 1 1 (m ;;; emit stop) (fun _ => True).
Proof.
  intros H G.
  eapply good_bind with (eo1 := eo) (ef1 := 0%Z) (eo2 := 1%Z) (ef2 := 0%Z) (Q1 := fun _ => True); [exact G | | lia | lia | lia].
  intros ? ?. apply good_emit.
Qed.

Lemma good_fixed n : good cfg 1 1 (read_buf cfg n ;;; emit stop) (fun _ => True).
Proof. apply good_then_emit with (eo := 0%Z); [lia | apply good_read_buf0]. Qed.

Lemma good_plane7f : good cfg 1 1 (plane7f cfg stop) (fun _ => True).
Proof.
  unfold plane7f.
  eapply good_bind with (eo1 := (-1)%Z) (ef1 := 0%Z) (eo2 := 1%Z) (ef2 := 1%Z); [apply good_take1 | | lia | lia | lia].
  intros ty _. destruct (classify7f ty) eqn:C; try (apply good_fail_any; lia).
  - apply good_fixed.
  - apply good_then_emit with (eo := (-1)%Z); [lia | apply good_ident].
  - apply good_array.
  - apply good_media.
Qed.

Lemma good_token ty : good cfg 1 1 (token cfg ext stop ty) (fun _ => True).
Proof.
  unfold token. destruct (classify ty) eqn:C.
  - eapply good_weaken; [apply good_emit | lia | lia | trivial].
  - apply good_fail_any; lia.
  - apply good_then_emit with (eo := (-1)%Z); [lia | apply good_decimal].
  - eapply good_bind with (eo1 := (-1)%Z) (ef1 := 0%Z) (eo2 := 1%Z) (ef2 := 1%Z); [apply good_read_uleb | | lia | lia | lia].
    intros n Hn. apply good_fixed.
  - eapply good_bind with (eo1 := (-1)%Z) (ef1 := 0%Z) (eo2 := 1%Z) (ef2 := 0%Z); [apply good_take1 | | lia | lia | lia].
    intros ? ?. apply good_emit.
  - apply good_fixed.
  - apply good_then_emit with (eo := (-1)%Z); [lia | apply good_ident].
  - apply good_then_emit with (eo := 0%Z); [lia | apply good_external].
  - apply good_plane7f.
  - apply good_array.
  - apply good_fail_any; lia.
  - apply good_custom.
Qed.

Lemma good_loop : forall fuel, good cfg 1 1 (loop cfg ext stop fuel) (fun _ => True).
Proof.
  assert (E : forall s, Inv cfg s ->
             match emit stop s [] with
             | ROk _ s' r' => Inv cfg s' /\ nread s' + len r' = nread s + len [] /\ True /\ (gain s s' <= 1)%Z
             | RFail _ s' => Inv cfg s' /\ nread s' <= nread s + len [] /\ (gain s s' <= 1)%Z
             end).
  { intros s I. pose proof (good_emit cfg stop s [] I) as G.
    destruct (emit stop s []) as [a s' r'|w s'].
    - destruct G as (G1 & G2 & G3 & G4). split4; auto; lia.
    - destruct G as (G1 & G2 & G4). split3; auto; lia. }
  induction fuel as [|f IH]; intros s r I.
  - destruct r as [|x r]; cbn [loop]; [exact (E s I)|].
    split3; [exact I | lia | unfold gain; lia].
  - destruct r as [|x r]; [cbn [loop]; exact (E s I)|].
    assert (G : good cfg 1 1 (ty <- take1 cfg ;; token cfg ext stop ty ;;; loop cfg ext stop f) (fun _ => True)).
    { eapply good_bind with (eo1 := (-1)%Z) (ef1 := 0%Z) (eo2 := 2%Z) (ef2 := 2%Z); [apply good_take1 | | lia | lia | lia].
      intros ty _.
      eapply good_bind with (eo1 := 1%Z) (ef1 := 1%Z) (eo2 := 1%Z) (ef2 := 1%Z); [apply good_token | | lia | lia | lia].
      intros ? ?. exact IH. }
    exact (G s (x :: r) I).
Qed.

Lemma good_decode : good cfg 1 1 (decode cfg ext stop) (fun _ => True).
Proof.
  unfold decode.
  eapply good_bind with (eo1 := 1%Z) (ef1 := 0%Z) (eo2 := 0%Z) (ef2 := 0%Z); [apply good_emit | | lia | lia | lia].
  intros ? ?.
  eapply good_bind with (eo1 := (-1)%Z) (ef1 := 0%Z) (eo2 := 1%Z) (ef2 := 1%Z); [apply good_take1 | | lia | lia | lia].
  intros sig _.
  eapply good_bind with (eo1 := 0%Z) (ef1 := 0%Z) (eo2 := 1%Z) (ef2 := 1%Z) (Q1 := fun _ => True); [ | | lia | lia | lia].
  { destruct (sig =? cbeSignatureByte); [apply good_ret_any; lia | apply good_fail_any; lia]. }
  intros ? ?.
  eapply good_bind with (eo1 := (-1)%Z) (ef1 := 0%Z) (eo2 := 2%Z) (ef2 := 2%Z); [apply good_read_uleb | | lia | lia | lia].
  intros v _.
  eapply good_bind with (eo1 := 1%Z) (ef1 := 0%Z) (eo2 := 1%Z) (ef2 := 1%Z); [apply good_emit | | lia | lia | lia].
  intros ? ?. apply good_with_fuel. exact good_loop.
Qed.

End Tokens.

(* ------------------------------------------------------------------ *)
(* One decode                                                           *)
(* ------------------------------------------------------------------ *)

Lemma Inv_st0 cfg : Inv cfg st0.
Proof. unfold Inv, InvR, InvV, st0. cbn. repeat split; intros; try lia; reflexivity. Qed.

(* everything the walk guarantees about its final state *)
Lemma run_spec cfg ext stop d :
  let o := run cfg ext stop d in
  Inv cfg (o_st o) /\ nread (o_st o) <= len d /\ nev (o_st o) <= nread (o_st o) + 1.
Proof.
  unfold run. pose proof (good_decode cfg ext stop st0 d (Inv_st0 cfg)) as G.
  destruct (decode cfg ext stop st0 d) as [a s r|w s]; cbn [o_st].
  - destruct G as (I & E & _ & Gn). unfold gain in Gn. cbn [st0 nread nev] in *. split3; [exact I | lia | lia].
  - destruct G as (I & E & Gn). unfold gain in Gn. cbn [st0 nread nev] in *. split3; [exact I | lia | lia].
Qed.

(* reader buffers: at most 4 bytes allocated per document byte (buffers double as data arrives) *)
Lemma reader_alloc_bound cfg ext stop d : al (o_st (run cfg ext stop d)) <= 4 * len d.
Proof. destruct (run_spec cfg ext stop d) as (((_ & _ & A & _) & _) & L & _). lia. Qed.

(* the buffer the decoder keeps afterwards: the start size, or at most twice the document *)
Lemma reader_buffer_bound cfg ext stop d :
  buf (o_st (run cfg ext stop d)) <= N.max cbeDecoderStartBufferSize (2 * len d).
Proof. destruct (run_spec cfg ext stop d) as (((_ & B & _ & _) & _) & L & _). lia. Qed.

(* the validator's builtArrayBuffer: at most 10 bytes allocated per document byte *)
Lemma validator_alloc_bound cfg ext stop d : val (o_st (run cfg ext stop d)) <= 10 * len d.
Proof. destruct (run_spec cfg ext stop d) as ((_ & (V1 & V2 & _)) & L & _). lia. Qed.

(* THE BOUND: reader + validator allocation is at most 14 bytes per document byte, for every
   configuration (validator or not, any limits), every document. *)
Lemma alloc_bound cfg ext stop d : alloc cfg ext stop d <= 14 * len d.
Proof.
  unfold alloc. pose proof (reader_alloc_bound cfg ext stop d). pose proof (validator_alloc_bound cfg ext stop d). lia.
Qed.

Lemma alloc_bound_bare cfg ext stop d : rules_on cfg = false -> alloc cfg ext stop d <= 4 * len d.
Proof.
  intro R. unfold alloc. pose proof (reader_alloc_bound cfg ext stop d).
  destruct (run_spec cfg ext stop d) as ((_ & (_ & _ & _ & _ & V5)) & _ & _). rewrite (V5 R). lia.
Qed.

(* the property as stated (constants of the search oracle) *)
Lemma alloc_full cfg ext stop d : alloc cfg ext stop d <= 64 * len d + 2 * max_array cfg + 1048576.
Proof. pose proof (alloc_bound cfg ext stop d). lia. Qed.

(* the decoder's own work is linear: every event is preceded by a byte of its own *)
Lemma events_le_bytes cfg ext stop d :
  nev (o_st (run cfg ext stop d)) <= nread (o_st (run cfg ext stop d)) + 1.
Proof. destruct (run_spec cfg ext stop d) as (_ & _ & E). exact E. Qed.

Lemma steps_linear cfg ext stop d : steps cfg ext stop d <= 17 * len d + 1.
Proof.
  unfold steps. destruct (run_spec cfg ext stop d) as (((_ & _ & A & W) & (V1 & V2 & V3 & V4 & _)) & L & E). lia.
Qed.

(* time = own work + zero-filling of what was allocated *)
Lemma time_linear cfg ext stop d : time cfg ext stop d <= 31 * len d + 1.
Proof. unfold time. pose proof (steps_linear cfg ext stop d). pose proof (alloc_bound cfg ext stop d). lia. Qed.

(* ------------------------------------------------------------------ *)
(* The documents that used to violate the bound                         *)
(* ------------------------------------------------------------------ *)

Definition cfg_1MiB (rules : bool) : ccfg :=
  {| rules_on := rules; max_array := 1048576; max_doc := cbeDefaultMaxDocumentSizeBytes |}.

(* 81 00 | 93 (uint8 array) | chunk header 2^31 = 2^30 elements, last chunk | nothing *)
Definition witness_chunk : bytes := [129; 0; 147; 128; 128; 128; 128; 8].
(* 81 00 | 7f f3 (media) | media type length 2^29 | nothing *)
Definition witness_media : bytes := [129; 0; 127; 243; 128; 128; 128; 128; 2].
(* 81 00 | 7f f3 (media) | media type length 2^32-1 | nothing *)
Definition witness_media_max : bytes := [129; 0; 127; 243; 255; 255; 255; 255; 15].

(* with the reader that grew its buffer to the announced length these allocated 2 GiB, 1 GiB
   and 8 GiB; now nothing at all, and the decode ends in an error *)
Lemma old_witnesses_now :
  alloc (cfg_1MiB false) no_ext None witness_chunk = 0 /\
  alloc (cfg_1MiB true) no_ext None witness_media = 0 /\
  alloc (default_ccfg true) no_ext None witness_media_max = 0 /\
  o_why (run (cfg_1MiB false) no_ext None witness_chunk) = Some WShort /\
  o_why (run (cfg_1MiB true) no_ext None witness_media) = Some WShort.
Proof. vm_compute. repeat split; reflexivity. Qed.

(* the constants of [alloc_bound] are not slack: a 1000-byte string makes the reader allocate
   254 + 508 + 1016 = 1778 bytes (3 doublings), and a validator copies it once more *)
Definition example_honest : bytes := [129; 0; 144; 208; 15] ++ nrep 97 1000.
Lemma example_honest_run :
  o_why (run (cfg_1MiB true) no_ext None example_honest) = None /\
  al (o_st (run (cfg_1MiB true) no_ext None example_honest)) = 1778 /\
  buf (o_st (run (cfg_1MiB true) no_ext None example_honest)) = 1016 /\
  alloc (cfg_1MiB true) no_ext None example_honest = 2778 /\
  steps (cfg_1MiB true) no_ext None example_honest = 2900.
Proof. vm_compute. repeat split; reflexivity. Qed.

(* ------------------------------------------------------------------ *)
(* CTE: the listener's accumulation of a string-like value              *)
(* ------------------------------------------------------------------ *)

(* growth of cteListener.arrayData is geometric whichever of the two append paths is taken:
   what was allocated is at most 5 times the capacity, the capacity at most twice the
   length (or the 64-byte first buffer), copies are paid by allocations *)
Definition InvA (s : cacc) : Prop :=
  c_al s <= 5 * c_cap s /\ c_cap s <= 2 * c_len s + 64 /\ c_len s <= c_cap s /\ c_work s <= c_al s + c_len s.

Lemma InvA0 : InvA cacc0.
Proof. unfold InvA; cbn. lia. Qed.

Lemma rune_len_le4 c : rune_len c <= 4.
Proof. unfold rune_len. repeat match goal with |- context [if ?b then _ else _] => destruct b end; lia. Qed.

Lemma acc_text_spec k s : InvA s -> InvA (acc_text k s) /\ c_len (acc_text k s) = c_len s + k.
Proof.
  intros (A & B & C & D). unfold acc_text.
  destruct (N.ltb_spec (c_cap s) (c_len s + k)) as [L|L]; unfold InvA; cbn [c_len c_cap c_al c_work].
  - pose proof (go_grow_spec (c_cap s) (c_len s + k) L) as (G1 & G2 & G3). lia.
  - lia.
Qed.

Lemma acc_rune_spec k s : k <= 4 -> InvA s -> InvA (acc_rune k s) /\ c_len (acc_rune k s) = c_len s + k.
Proof.
  intros K (A & B & C & D). unfold acc_rune.
  set (n := if k =? 1 then 1 else 4).
  assert (Hn : k <= n /\ n <= 4) by (unfold n; destruct (N.eqb_spec k 1); lia).
  destruct (N.leb_spec (c_len s + n) (c_cap s)) as [L|L]; unfold InvA; cbn [c_len c_cap c_al c_work]; [lia|].
  destruct (N.eqb_spec (c_cap s) 0) as [Z|Z]; cbn [c_len c_cap c_al c_work]; lia.
Qed.

Lemma cte_hex_len : forall inp some v v' r, cte_hex inp some v = Some (v', r) -> (length r < length inp)%nat.
Proof.
  induction inp as [|c t IH]; intros some v v' r E; cbn [cte_hex] in E; [discriminate|].
  destruct (cte_hexd c).
  - apply IH in E. cbn [length]. lia.
  - destruct ((c =? 93) && some); [|discriminate]. inversion E; subst. cbn [length]. lia.
Qed.

Lemma cte_skip_ws_len : forall inp, (length (cte_skip_ws inp) <= length inp)%nat.
Proof.
  induction inp as [|c t IH]; cbn [cte_skip_ws length]; [lia|].
  destruct (cte_ws c); cbn [length]; lia.
Qed.

Lemma cte_body_spec : forall fuel inp s s',
  cte_body fuel inp s = Some s' -> InvA s ->
  InvA s' /\ c_len s' <= c_len s + 4 * N.of_nat (length inp).
Proof.
  induction fuel as [|f IH]; intros inp s s' E I; cbn [cte_body] in E; [discriminate|].
  destruct inp as [|c r]; [discriminate|].
  destruct (c =? 34).
  { destruct (forallb cte_ws r); [|discriminate]. inversion E; subst s'. split; [exact I|lia]. }
  destruct (c =? 92).
  { destruct r as [|e r2]; [discriminate|].
    destruct (e =? 91).
    { destruct (cte_hex r2 false (Some 0)) as [[[v|] r3]|] eqn:H; try discriminate.
      destruct (cte_scalar_ok v); [|discriminate].
      apply cte_hex_len in H.
      destruct (acc_rune_spec (rune_len v) s (rune_len_le4 v) I) as (I2 & L2).
      destruct (IH _ _ _ E I2) as (I3 & L3). split; [exact I3|].
      pose proof (rune_len_le4 v). cbn [length]. lia. }
    destruct ((e =? 10) || (e =? 13)).
    { destruct (IH _ _ _ E I) as (I3 & L3). split; [exact I3|].
      pose proof (cte_skip_ws_len r2). cbn [length]. lia. }
    destruct (cte_escape e) as [v|]; [|discriminate].
    destruct (acc_rune_spec (rune_len v) s (rune_len_le4 v) I) as (I2 & L2).
    destruct (IH _ _ _ E I2) as (I3 & L3). split; [exact I3|].
    pose proof (rune_len_le4 v). cbn [length]. lia. }
  destruct (cte_char_ok c); [|discriminate].
  destruct (acc_text_spec (rune_len c) s I) as (I2 & L2).
  destruct (IH _ _ _ E I2) as (I3 & L3). split; [exact I3|].
  pose proof (rune_len_le4 c). cbn [length]. lia.
Qed.

(* Accumulating a string-like value costs at most 10 bytes per byte of the value (plus the
   first 64-byte buffer five times over), the value has at most 4 bytes per code point of
   its spelling, and the bytes copied are paid for by the bytes allocated. *)
Lemma cte_accumulation_linear body s :
  cte_string body = Some s ->
  c_al s <= 10 * c_len s + 320 /\
  c_len s <= 4 * N.of_nat (length body) /\
  c_work s <= c_al s + c_len s.
Proof.
  unfold cte_string. intro E.
  destruct (cte_body_spec _ _ _ _ E InvA0) as ((A & B & C & D) & L).
  cbn [c_len cacc0] in L. lia.
Qed.

(* `abcdefgh\n` 1000 times and the closing quote: the escape-heavy string of 10 KB *)
Definition example_cte_escapes : list N := lrep [97; 98; 99; 100; 101; 102; 103; 104; 92; 110] 1000 ++ [34].
Lemma example_cte_escapes_run :
  cte_string example_cte_escapes = Some {| c_len := 9000; c_cap := 15550; c_al := 45982; c_work := 39432 |}.
Proof. vm_compute. reflexivity. Qed.
