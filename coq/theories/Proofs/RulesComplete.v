(* C10 (c): every well-formed document tree of the grammar (arrays delivered in chunks included) is accepted. *)
From CE Require Import Model.Rules Model.RulesSpec Proofs.RulesPassthrough Proofs.RulesKeys Proofs.RulesInvariants Proofs.RulesStructure Proofs.RulesLimits Proofs.RulesMarkers Proofs.RulesDocument.
From CE Require Import Proofs.Utf8Lemmas Proofs.Utf8Stream Proofs.RulesArrayProofs.
From Coq Require Import ZifyN ZifyNat ZifyBool.
Open Scope N_scope.

Scheme Equality for prim.
Definition prims_eqb : list prim -> list prim -> bool := list_eqb prim_beq.
Lemma prims_eqb_eq a b : prims_eqb a b = true -> a = b.
Proof. apply list_eqb_eq. intros x y. split; [apply internal_prim_dec_bl | apply internal_prim_dec_lb]. Qed.

(* ------------------------------------------------------------------------- *)
(* The cells the fragment goes through                                        *)
(* ------------------------------------------------------------------------- *)
(* rules in force where a value may start, and the rule in force after the value *)
Definition value_rules : list rule :=
  [RTopLevel; RList; RMapValue; RRecord; REdgeSource; REdgeDescription; REdgeDestination; RNode].
Definition is_value_rule (r : rule) : bool := existsb (rule_beq r) value_rules.
Definition next_rule (r : rule) : rule :=
  match r with
  | RTopLevel => REndDocument | RMapValue => RMapKey | REdgeSource => REdgeDescription
  | REdgeDescription => REdgeDestination | RNode => RList | r => r
  end.
Definition pos_of_rule (r : rule) : vpos :=
  match r with REdgeSource => PSrc | REdgeDescription | RNode => PDesc | REdgeDestination => PDst | _ => PPlain end.
Definition null_allowed (r : rule) : bool := null_ok (pos_of_rule r).

(* A cell made of argument checks followed by at most one rule change. *)
Definition is_guard (p : prim) : bool :=
  match p with
  | PValidateFullArrayAnyType | PValidateFullArrayStringlike | PAssertArrayType MaskAny | PAssertArrayType MaskNonNull => true
  | _ => false
  end.
Fixpoint guarded_change (cell : list prim) : option (option rule) :=
  match cell with
  | [] => Some None
  | [PChangeRule r'] => Some (Some r')
  | p :: rest => if is_guard p then guarded_change rest else None
  end.
Definition guard_holds (cfg : rcfg) (a : args) (p : prim) : bool :=
  match p with
  | PValidateFullArrayAnyType => validate_full_array_any cfg (a_arrty a) (a_count a) (a_data a)
  | PValidateFullArrayStringlike => validate_full_array_stringlike cfg (a_arrty a) (a_data a)
  | PAssertArrayType mk => assert_array_type (a_arrty a) (mask_value mk)
  | _ => true
  end.
Definition has_stringlike_validator (cell : list prim) : bool :=
  existsb (fun p => match p with PValidateFullArrayStringlike => true | _ => false end) cell.
Definition has_any_validator (cell : list prim) : bool :=
  existsb (fun p => match p with PValidateFullArrayAnyType => true | _ => false end) cell.

Lemma guarded_change_exec cfg call self m a cell : forall tgt c,
  guarded_change cell = Some tgt -> forallb (guard_holds cfg a) cell = true ->
  exec_prims cfg call self m a cell c = Some (match tgt with Some r' => set_rule c r' | None => c end).
Proof.
  induction cell as [|p rest IH]; intros tgt c G H; cbn [guarded_change] in G.
  - inv_some. reflexivity.
  - cbn [forallb] in H. apply andb_true_iff in H as [Hp Hr].
    destruct p; cbn [is_guard] in G; try discriminate G;
      try (destruct rest; [inv_some; reflexivity | discriminate G]);
      cbn [exec_prims exec_prim]; cbn [guard_holds] in Hp; try rewrite Hp; try (apply IH; assumption).
    all: destruct m0; try discriminate G; apply IH; assumption.
Qed.

Definition expected_change (r : rule) : option rule := if rule_beq r (next_rule r) then None else Some (next_rule r).
Definition leaf_meths : list meth := [MKeyableObject; MNonKeyableObject; MNull; MArray; MStringlikeArray; MChildContainerEnded].

Lemma value_table :
  forallb (fun r =>
    forallb (fun m =>
      match m with MNull => negb (null_allowed r) | _ => false end ||
      (match guarded_change (dispatch r m) with Some t => match t, expected_change r with
                                                           | Some x, Some y => rule_beq x y | None, None => true | _, _ => false end
                                           | None => false end &&
       match m with
       | MArray => negb (has_stringlike_validator (dispatch r m))
       | MStringlikeArray => negb (has_any_validator (dispatch r m))
       | _ => forallb (fun p => negb (is_guard p)) (dispatch r m)
       end)) leaf_meths &&
    prims_eqb (dispatch r MPadding) [] && prims_eqb (dispatch r MComment) [] &&
    prims_eqb (dispatch r MList) [PBeginList] && prims_eqb (dispatch r MMap) [PBeginMap] &&
    prims_eqb (dispatch r MEdge) [PBeginEdge] && prims_eqb (dispatch r MNode) [PBeginNode] &&
    prims_eqb (dispatch r MRecord) [PBeginRecord]) value_rules = true.
Proof. vm_compute. reflexivity. Qed.

Lemma other_cells :
  prims_eqb (dispatch RList MEnd) [PEndContainer true] && prims_eqb (dispatch RMapKey MEnd) [PEndContainer true] &&
  prims_eqb (dispatch RRecord MEnd) [PEndContainer true] && prims_eqb (dispatch REdgeDestination MEnd) [PEndContainer true] &&
  prims_eqb (dispatch RRecordType MEnd) [PEndContainer false] &&
  prims_eqb (dispatch RMapKey MPadding) [] && prims_eqb (dispatch RMapKey MComment) [] &&
  prims_eqb (dispatch RRecordType MPadding) [] && prims_eqb (dispatch RRecordType MComment) [] &&
  prims_eqb (dispatch RMapKey MKeyableObject) [PNotifyKeyArg; PChangeRule RMapValue] &&
  prims_eqb (dispatch RMapKey MStringlikeArray) [PValidateFullArrayStringlikeKeyable; PNotifyKeyFromArrayData; PChangeRule RMapValue] &&
  prims_eqb (dispatch RMapKey MArray) [PValidateFullArrayKeyable; PNotifyKeyFromArrayData; PChangeRule RMapValue] &&
  prims_eqb (dispatch RRecordType MArray) [PValidateFullArrayKeyable; PNotifyKeyFromArrayData] &&
  prims_eqb (dispatch RRecordType MKeyableObject) [PNotifyKeyArg] &&
  prims_eqb (dispatch RRecordType MStringlikeArray) [PValidateFullArrayStringlikeKeyable; PNotifyKeyFromArrayData] &&
  prims_eqb (dispatch RTopLevel MRecordType) [PBeginRecordType] &&
  prims_eqb (dispatch RBeginDocument MBeginDocument) [PChangeRule RVersion] &&
  prims_eqb (dispatch RVersion MVersion) [PCheckVersion; PChangeRule RTopLevel] &&
  prims_eqb (dispatch REndDocument MEndDocument) [PEndDocument] = true.
Proof. vm_compute. reflexivity. Qed.

(* ------------------------------------------------------------------------- *)
(* Single steps                                                               *)
(* ------------------------------------------------------------------------- *)
(* the part of the context the fragment depends on *)
Definition regs (c : rctx) := (marked c, fwd c, refcount c).
Definition view (c : rctx) := (cur c, stack c, depth c, objects c, rectypes c, regs c).

Definition bump (e : entry) : entry :=
  {| e_rule := e_rule e; e_dtype := e_dtype e; e_count := e_count e + 1; e_expected := e_expected e; e_keys := e_keys e |}.
Definition with_rule (e : entry) (r : rule) : entry :=
  {| e_rule := r; e_dtype := e_dtype e; e_count := e_count e; e_expected := e_expected e; e_keys := e_keys e |}.
Definition adv_entry (e : entry) : entry := with_rule (bump e) (next_rule (e_rule e)).
Definition room (e : entry) : Prop := match e_expected e with Some x => e_count e + 1 <= x | None => True end.
Definition nno_state (c : rctx) : rctx := set_objects (set_cur c (bump (cur c))) (objects c + 1).

Lemma nno_ok cfg c :
  room (cur c) -> objects c + 1 <= max_object_count cfg -> notify_new_object cfg true c = Some (nno_state c).
Proof.
  unfold notify_new_object, room, nno_state, bump. intros R O.
  destruct (e_expected (cur c)) as [x|]; cbn [andb].
  - destruct (x <? e_count (cur c) + 1) eqn:X; [lia|]. destruct (max_object_count cfg <? objects c + 1) eqn:Y; [lia | reflexivity].
  - destruct (max_object_count cfg <? objects c + 1) eqn:Y; [lia | reflexivity].
Qed.

Lemma call_current_cell cfg m a c r :
  e_rule (cur c) = r -> call_current cfg m a c = exec_prims cfg (call_rule 5 cfg) r m a (dispatch r m) c.
Proof. intros <-. reflexivity. Qed.

Lemma in_value_rules r : is_value_rule r = true -> In r value_rules.
Proof.
  unfold is_value_rule. intro H. apply existsb_exists in H as [x [I E]]. apply rule_beq_true in E. subst. exact I.
Qed.

Lemma with_rule_same e : with_rule e (e_rule e) = e.
Proof. destruct e; reflexivity. Qed.

(* the rule-change cells *)
Lemma value_cell_exec cfg f r m a c :
  is_value_rule r = true -> In m leaf_meths -> (m = MNull -> null_allowed r = true) ->
  forallb (guard_holds cfg a) (dispatch r m) = true ->
  e_rule (cur c) = r ->
  exec_prims cfg (call_rule f cfg) r m a (dispatch r m) c = Some (set_cur c (with_rule (cur c) (next_rule r))).
Proof.
  intros V M HN G0 R. apply in_value_rules in V.
  pose proof value_table as T. rewrite forallb_forall in T. specialize (T r V).
  do 7 (apply andb_true_iff in T as [T _]). rewrite forallb_forall in T. specialize (T m M).
  apply orb_true_iff in T as [T|T].
  { destruct m; try discriminate T. rewrite HN in T by reflexivity. discriminate. }
  apply andb_true_iff in T as [T1 T2].
  destruct (guarded_change (dispatch r m)) as [tgt|] eqn:G; [|discriminate].
  rewrite (guarded_change_exec cfg _ r m a _ tgt c G G0).
  f_equal. unfold expected_change in T1. destruct (rule_beq r (next_rule r)) eqn:B.
  - apply rule_beq_true in B. destruct tgt; [discriminate|]. rewrite <- B, <- R, with_rule_same. destruct c; reflexivity.
  - destruct tgt as [x|]; [|discriminate]. apply rule_beq_true in T1. subst x. reflexivity.
Qed.

(* conversely: such a cell succeeds only if all its checks pass *)
Lemma guarded_change_inv cfg call self m a cell : forall tgt c c',
  guarded_change cell = Some tgt -> exec_prims cfg call self m a cell c = Some c' -> forallb (guard_holds cfg a) cell = true.
Proof.
  induction cell as [|p rest IH]; intros tgt c c' G E; [reflexivity|]. cbn [guarded_change] in G. cbn [forallb].
  destruct p; cbn [is_guard] in G; try discriminate G;
    try (destruct rest; [reflexivity | discriminate G]);
    cbn [exec_prims exec_prim] in E; cbn [guard_holds].
  - destruct (validate_full_array_any cfg (a_arrty a) (a_count a) (a_data a)); [eapply IH; eauto | discriminate E].
  - destruct (validate_full_array_stringlike cfg (a_arrty a) (a_data a)); [eapply IH; eauto | discriminate E].
  - destruct m0; try discriminate G; (destruct (assert_array_type (a_arrty a) (mask_value _)); [eapply IH; eauto | discriminate E]).
Qed.

(* the checks of the array cells, by position *)
Definition is_src (r : rule) : bool := match pos_of_rule r with PSrc => true | _ => false end.
Definition is_desc (r : rule) : bool := match pos_of_rule r with PDesc => true | _ => false end.
Definition arr_cell_ok (r : rule) (m : meth) (val : prim) : bool :=
  let cell := dispatch r m in
  forallb (fun p => match p with PChangeRule _ => true | _ => false end || prim_beq p val || (prim_beq p (PAssertArrayType MaskNonNull) && is_src r) ||
                    (prim_beq p (PAssertArrayType MaskAny) && is_desc r)) cell &&
  existsb (prim_beq val) cell &&
  (negb (is_src r) || existsb (prim_beq (PAssertArrayType MaskNonNull)) cell) &&
  (negb (is_desc r) || existsb (prim_beq (PAssertArrayType MaskAny)) cell).
Lemma guard_table :
  forallb (fun r => arr_cell_ok r MArray PValidateFullArrayAnyType && arr_cell_ok r MStringlikeArray PValidateFullArrayStringlike)
          value_rules = true.
Proof. vm_compute. reflexivity. Qed.

Lemma prim_beq_eq a b : prim_beq a b = true <-> a = b.
Proof. split; [apply internal_prim_dec_bl | apply internal_prim_dec_lb]. Qed.

Lemma arr_guard_rule r t :
  arr_guard (pos_of_rule r) t =
  (negb (is_src r) || assert_array_type t Allow_NonNull) && (negb (is_desc r) || assert_array_type t Allow_Any).
Proof. unfold is_src, is_desc. destruct (pos_of_rule r); cbn [arr_guard negb orb andb]; rewrite ?andb_true_r; reflexivity. Qed.

Lemma arr_cell_iff cfg a r m val :
  arr_cell_ok r m val = true -> is_guard val = true ->
  (forallb (guard_holds cfg a) (dispatch r m) = true <->
   guard_holds cfg a val = true /\ arr_guard (pos_of_rule r) (a_arrty a) = true).
Proof.
  unfold arr_cell_ok. cbn zeta. intros T Gv. apply andb_true_iff in T as [T T4]. apply andb_true_iff in T as [T T3].
  apply andb_true_iff in T as [T1 T2]. rewrite arr_guard_rule. rewrite forallb_forall in T1. split.
  - intro F. rewrite forallb_forall in F. split.
    + apply existsb_exists in T2 as [p [I E]]. apply prim_beq_eq in E. subst p. exact (F _ I).
    + apply andb_true_iff. split.
      * destruct (is_src r); [|reflexivity]. cbn [negb orb] in T3 |- *. apply existsb_exists in T3 as [p [I E]].
        apply prim_beq_eq in E. subst p. exact (F _ I).
      * destruct (is_desc r); [|reflexivity]. cbn [negb orb] in T4 |- *. apply existsb_exists in T4 as [p [I E]].
        apply prim_beq_eq in E. subst p. exact (F _ I).
  - intros [V G]. apply andb_true_iff in G as [G1 G2]. apply forallb_forall. intros p I. specialize (T1 p I).
    repeat (apply orb_true_iff in T1 as [T1|T1]).
    + destruct p; try discriminate T1; reflexivity.
    + apply prim_beq_eq in T1. subst p. exact V.
    + apply andb_true_iff in T1 as [E S]. apply prim_beq_eq in E. subst p. rewrite S in G1. exact G1.
    + apply andb_true_iff in T1 as [E S]. apply prim_beq_eq in E. subst p. rewrite S in G2. exact G2.
Qed.

(* a leaf event: its plan *)
Lemma leaf_plan cfg ps e :
  leaf_ok cfg ps e = true ->
  exists pl, ev_plan cfg e = Some pl /\ p_nno pl = Some true /\ p_out pl = nn e /\
    In (p_meth pl) leaf_meths /\
    (p_meth pl = MNull -> is_null_event e = true) /\
    (p_meth pl = MArray -> validate_full_array_any cfg (a_arrty (p_args pl)) (a_count (p_args pl)) (a_data (p_args pl)) = true /\
                 arr_guard ps (a_arrty (p_args pl)) = true) /\
    (p_meth pl = MStringlikeArray -> validate_full_array_stringlike cfg (a_arrty (p_args pl)) (a_data (p_args pl)) = true /\
                 arr_guard ps (a_arrty (p_args pl)) = true).
Proof.
  destruct e as [| |v| |m t| |b| | |n|n|z|[z|]|bits|[bf|]|[| | |]|[[| | |]|]|s|b|s| | |id|id| | | |id|id|t cnt d|t d|mt d|ct d|ct d|t|mt|t ct|n m|d];
    cbn [leaf_ok]; intro L; try discriminate L; cbn [ev_plan nn];
    repeat match goal with H : _ && _ = true |- _ => apply andb_true_iff in H as [H ?] end;
    try match goal with H : array_api_ok _ = true |- _ => rewrite H end;
    try match goal with H : utf8_valid _ = true |- _ => rewrite H end;
    try match goal with H : media_type_valid _ = true |- _ => rewrite H end;
    try match goal with H : custom_type_ok _ = true |- _ => rewrite H end;
    try match goal with H : time_token_valid _ = true |- _ => rewrite H end; cbn [negb andb];
    try match goal with |- context [if ?b then _ else _] => destruct b end;
    unfold mkplan; eexists; (split; [reflexivity|]); cbn [p_nno p_meth p_args p_out a_arrty a_count a_data array_args];
    (split; [reflexivity|]); (split; [reflexivity|]);
    (split; [cbn; tauto|]); repeat split; try discriminate; try reflexivity; try assumption.
Qed.

Lemma no_guards_hold cfg a cell tgt :
  guarded_change cell = Some tgt -> forallb (fun p => negb (is_guard p)) cell = true -> forallb (guard_holds cfg a) cell = true.
Proof.
  revert tgt. induction cell as [|p rest IH]; intros tgt G N; [reflexivity|]. cbn [forallb guarded_change] in *.
  apply andb_true_iff in N as [Np Nr]. apply negb_true_iff in Np. rewrite Np in G.
  destruct p; try discriminate G. destruct rest; [reflexivity | discriminate G].
Qed.

(* the checks of the cell of a leaf method at a value rule: none for scalars, the validator and the
   positional type check for arrays *)
Lemma leaf_cell_guards cfg r m a :
  is_value_rule r = true -> In m leaf_meths -> (m = MNull -> null_allowed r = true) ->
  (forallb (guard_holds cfg a) (dispatch r m) = true <->
   (m = MArray -> validate_full_array_any cfg (a_arrty a) (a_count a) (a_data a) = true /\ arr_guard (pos_of_rule r) (a_arrty a) = true) /\
   (m = MStringlikeArray -> validate_full_array_stringlike cfg (a_arrty a) (a_data a) = true /\ arr_guard (pos_of_rule r) (a_arrty a) = true)).
Proof.
  intros V M HN. pose proof V as V'. apply in_value_rules in V.
  pose proof guard_table as GT. rewrite forallb_forall in GT. specialize (GT r V). apply andb_true_iff in GT as [GA GS].
  pose proof value_table as T. rewrite forallb_forall in T. specialize (T r V).
  do 7 (apply andb_true_iff in T as [T _]). rewrite forallb_forall in T. specialize (T m M).
  apply orb_true_iff in T as [T|T].
  { destruct m; try discriminate T. rewrite HN in T by reflexivity. discriminate. }
  apply andb_true_iff in T as [T1 T2]. destruct (guarded_change (dispatch r m)) as [tgt|] eqn:G; [|discriminate].
  cbn [In leaf_meths] in M. destruct M as [M|[M|[M|[M|[M|[M|[]]]]]]]; subst m;
    try (split; [intros _; split; intro X; discriminate X | intros _; eapply no_guards_hold; eauto]).
  - rewrite (arr_cell_iff cfg a r MArray _ GA eq_refl). cbn [guard_holds]. split.
    + intro H. split; [intros _; exact H | intro X; discriminate X].
    + intros [H _]. exact (H eq_refl).
  - rewrite (arr_cell_iff cfg a r MStringlikeArray _ GS eq_refl). cbn [guard_holds]. split.
    + intro H. split; [intro X; discriminate X | intros _; exact H].
    + intros [_ H]. exact (H eq_refl).
Qed.

Lemma value_cell_exec_plain cfg f r m a c :
  is_value_rule r = true -> m = MKeyableObject \/ m = MNonKeyableObject \/ m = MChildContainerEnded -> e_rule (cur c) = r ->
  exec_prims cfg (call_rule f cfg) r m a (dispatch r m) c = Some (set_cur c (with_rule (cur c) (next_rule r))).
Proof.
  intros V M R.
  assert (In m leaf_meths) as I by (destruct M as [->|[->| ->]]; cbn; tauto).
  assert (m = MNull -> null_allowed r = true) as HN by (intro X; subst; destruct M as [M|[M|M]]; discriminate M).
  apply value_cell_exec; auto. apply leaf_cell_guards; auto.
  split; intro X; subst; destruct M as [M|[M|M]]; discriminate M.
Qed.

Lemma nno_state_view c : view (nno_state c) = (bump (cur c), stack c, depth c, objects c + 1, rectypes c, regs c).
Proof. reflexivity. Qed.

(* S1: padding and comments *)
Definition trivia_rule (r : rule) : bool := is_value_rule r || rule_beq r RMapKey || rule_beq r RRecordType.
Lemma trivia_cells r : trivia_rule r = true -> dispatch r MPadding = [] /\ dispatch r MComment = [].
Proof.
  unfold trivia_rule. intro H. apply orb_true_iff in H as [H|H]; [apply orb_true_iff in H as [H|H]|].
  - apply in_value_rules in H. pose proof value_table as T. rewrite forallb_forall in T. specialize (T r H).
    do 5 (apply andb_true_iff in T as [T _]). apply andb_true_iff in T as [T T2]. apply andb_true_iff in T as [_ T1].
    split; apply prims_eqb_eq; assumption.
  - apply rule_beq_true in H. subst. pose proof other_cells as T.
    do 10 (apply andb_true_iff in T as [T _]). apply andb_true_iff in T as [T T2]. apply andb_true_iff in T as [_ T1].
    split; apply prims_eqb_eq; assumption.
  - apply rule_beq_true in H. subst. pose proof other_cells as T.
    do 8 (apply andb_true_iff in T as [T _]). apply andb_true_iff in T as [T T2]. apply andb_true_iff in T as [_ T1].
    split; apply prims_eqb_eq; assumption.
Qed.

Lemma step_trivia cfg c t :
  trivia_rule (e_rule (cur c)) = true -> rstep cfg c (trivia_event t) = Some (c, [trivia_event t]).
Proof.
  intro R. destruct (trivia_cells _ R) as [P C]. rewrite rstep_plan.
  destruct t; cbn [trivia_event ev_plan]; unfold mkplan, plan_step; cbn [p_nno p_meth p_args p_out];
    rewrite (call_current_cell cfg _ _ c _ eq_refl); [rewrite P | rewrite C]; reflexivity.
Qed.

Lemma steps_trivia cfg c ts :
  trivia_rule (e_rule (cur c)) = true -> steps cfg c (map trivia_event ts) = Some c.
Proof.
  intro R. induction ts as [|t ts IH]; [reflexivity|]. cbn [map steps]. rewrite step_trivia by exact R. exact IH.
Qed.

(* S2: a value delivered in one event *)
Lemma step_leaf cfg c e r :
  e_rule (cur c) = r -> is_value_rule r = true -> leaf_wf cfg (pos_of_rule r) e = true ->
  room (cur c) -> objects c + 1 <= max_object_count cfg ->
  exists c', rstep cfg c e = Some (c', [nn e]) /\
             view c' = (adv_entry (cur c), stack c, depth c, objects c + 1, rectypes c, regs c).
Proof.
  intros R V L Rm O. unfold leaf_wf in L. apply andb_true_iff in L as [L N].
  destruct (leaf_plan cfg _ e L) as [pl [P [P1 [P2 [P3 [P4 [P5 P6]]]]]]].
  assert (p_meth pl = MNull -> null_allowed r = true) as HN.
  { intro M. unfold null_allowed. destruct (null_ok (pos_of_rule r)); [reflexivity|]. rewrite (P4 M) in N. discriminate N. }
  rewrite rstep_plan, P. unfold plan_step. rewrite P1, (nno_ok cfg c Rm O).
  rewrite (call_current_cell cfg _ _ (nno_state c) r) by (cbn; exact R).
  rewrite (value_cell_exec cfg 5 r (p_meth pl) (p_args pl) (nno_state c) V P3 HN); [| apply leaf_cell_guards; auto | cbn; exact R].
  rewrite P2. eexists. split; [reflexivity|]. unfold view. rsimpl. unfold adv_entry. rewrite R. reflexivity.
Qed.

(* S3: container begin events *)
Definition begin_spec (e : event) : option (meth * rule * N * option N) :=
  match e with
  | EList => Some (MList, RList, DT_List, None)
  | EMap => Some (MMap, RMapKey, DT_Map, None)
  | EEdge => Some (MEdge, REdgeSource, DT_Edge, Some 3)
  | ENode => Some (MNode, RNode, DT_List, None)
  | _ => None
  end.

Lemma begin_cells r : is_value_rule r = true ->
  dispatch r MList = [PBeginList] /\ dispatch r MMap = [PBeginMap] /\ dispatch r MEdge = [PBeginEdge] /\
  dispatch r MNode = [PBeginNode] /\ dispatch r MRecord = [PBeginRecord].
Proof.
  intro H. apply in_value_rules in H. pose proof value_table as T. rewrite forallb_forall in T. specialize (T r H).
  apply andb_true_iff in T as [T T5]. apply andb_true_iff in T as [T T4]. apply andb_true_iff in T as [T T3].
  apply andb_true_iff in T as [T T2]. apply andb_true_iff in T as [T T1].
  repeat split; apply prims_eqb_eq; assumption.
Qed.

Lemma step_begin cfg c e r m rc dt exp :
  begin_spec e = Some (m, rc, dt, exp) -> e_rule (cur c) = r -> is_value_rule r = true ->
  room (cur c) -> objects c + 1 <= max_object_count cfg -> depth c + 1 <= max_container_depth cfg ->
  exists c', rstep cfg c e = Some (c', [e]) /\
             view c' = (mk_entry rc dt exp, bump (cur c) :: stack c, depth c + 1, objects c + 1, rectypes c, regs c).
Proof.
  intros B R V Rm O D. destruct (begin_cells r V) as [C1 [C2 [C3 [C4 _]]]]. rewrite rstep_plan.
  destruct e; try discriminate B; cbn [begin_spec] in B; inv_some; cbn [ev_plan]; unfold mkplan, plan_step;
    cbn [p_nno p_meth p_args p_out]; rewrite (nno_ok cfg c Rm O);
    rewrite (call_current_cell cfg _ _ (nno_state c) (e_rule (cur c))) by reflexivity;
    rewrite ?C1, ?C2, ?C3, ?C4; cbn [exec_prims exec_prim]; unfold begin_container, nno_state; rsimpl;
    (destruct (max_container_depth cfg <? depth c + 1) eqn:X; [lia|]);
    (eexists; split; [reflexivity | reflexivity]).
Qed.

Lemma step_begin_record cfg c id r n :
  e_rule (cur c) = r -> is_value_rule r = true -> validate_identifier cfg id = true -> alookup id (rectypes c) = Some n ->
  room (cur c) -> objects c + 1 <= max_object_count cfg -> depth c + 1 <= max_container_depth cfg ->
  exists c', rstep cfg c (ERecord id) = Some (c', [ERecord id]) /\
             view c' = (mk_entry RRecord DT_Record (Some n), bump (cur c) :: stack c, depth c + 1, objects c + 1, rectypes c, regs c).
Proof.
  intros R V I A Rm O D. destruct (begin_cells r V) as [_ [_ [_ [_ C]]]]. rewrite rstep_plan.
  cbn [ev_plan]. rewrite I. unfold mkplan, plan_step. cbn [p_nno p_meth p_args p_out]. rewrite (nno_ok cfg c Rm O).
  rewrite (call_current_cell cfg _ _ (nno_state c) r) by (cbn; exact R). rewrite C.
  cbn [exec_prims exec_prim with_id a_id]. unfold nno_state. rsimpl. rewrite A. unfold begin_container. rsimpl.
  destruct (max_container_depth cfg <? depth c + 1) eqn:X; [lia|]. eexists; split; reflexivity.
Qed.

(* S4: the end of a container whose parent expects a value *)
Definition closable (r : rule) : bool :=
  rule_beq r RList || rule_beq r RMapKey || rule_beq r RRecord || rule_beq r REdgeDestination.
Lemma end_cells r : closable r = true -> dispatch r MEnd = [PEndContainer true].
Proof.
  unfold closable. intro H. pose proof other_cells as T.
  do 12 (apply andb_true_iff in T as [T _]).
  apply andb_true_iff in T as [T T4]. apply andb_true_iff in T as [T T3]. apply andb_true_iff in T as [T1 T2].
  repeat (apply orb_true_iff in H as [H|H]); apply rule_beq_true in H; subst; apply prims_eqb_eq; assumption.
Qed.

Lemma step_end cfg c p st r :
  closable (e_rule (cur c)) = true -> stack c = p :: st -> e_rule p = r -> is_value_rule r = true ->
  depth c <> 0 -> match e_expected (cur c) with Some x => e_count (cur c) = x | None => True end ->
  (e_dtype (cur c) =? DT_RecordType) = false ->
  exists c', rstep cfg c EEnd = Some (c', [EEnd]) /\
             view c' = (with_rule p (next_rule r), st, depth c - 1, objects c, rectypes c, regs c).
Proof.
  intros Cl S R V D X T. rewrite rstep_plan. cbn [ev_plan]. unfold mkplan, plan_step. cbn [p_nno p_meth p_args p_out].
  rewrite (call_current_cell cfg _ _ c _ eq_refl), (end_cells _ Cl). cbn [exec_prims exec_prim].
  unfold end_container. destruct (depth c =? 0) eqn:D0; [lia|].
  assert (match e_expected (cur c) with Some x => negb (e_count (cur c) =? x) | None => false end = false) as ->.
  { destruct (e_expected (cur c)); [subst; rewrite N.eqb_refl; reflexivity | reflexivity]. }
  rewrite T. unfold end_container_like, unstack_rule. rsimpl. rewrite S. rsimpl. rewrite R.
  change (call_rule 5 cfg r MChildContainerEnded) with (fun a c => exec_prims cfg (call_rule 4 cfg) r MChildContainerEnded a (dispatch r MChildContainerEnded) c).
  cbv beta. rewrite (value_cell_exec_plain cfg 4 r MChildContainerEnded); [| exact V | tauto | exact R].
  eexists. split; [reflexivity|]. unfold view. rsimpl. reflexivity.
Qed.

(* S5: keys (map keys and record-type field names) *)
Definition change_cell (tgt : option rule) : list prim := match tgt with Some r' => [PChangeRule r'] | None => [] end.
Definition keyed (e : entry) (k : rawkey) (tgt : option rule) : entry :=
  {| e_rule := match tgt with Some r' => r' | None => e_rule e end; e_dtype := e_dtype e; e_count := e_count e + 1;
     e_expected := e_expected e; e_keys := norm_key k :: e_keys e |}.

Lemma string_types_ok t : (t =? AT_String) || (t =? AT_ResourceID) = true ->
  array_api_ok t = true /\ assert_array_type t Allow_Keyable = true.
Proof.
  intro H. apply orb_true_iff in H as [H|H]; apply N.eqb_eq in H; subst; vm_compute; split; reflexivity.
Qed.

Definition key_rule (rk : rule) (tgt : option rule) : Prop :=
  dispatch rk MKeyableObject = PNotifyKeyArg :: change_cell tgt /\
  dispatch rk MStringlikeArray = PValidateFullArrayStringlikeKeyable :: PNotifyKeyFromArrayData :: change_cell tgt /\
  dispatch rk MArray = PValidateFullArrayKeyable :: PNotifyKeyFromArrayData :: change_cell tgt.

Lemma step_key_gen cfg c e k rk tgt :
  e_rule (cur c) = rk -> key_rule rk tgt ->
  key_ok cfg e = true -> key_of e = Some k ->
  existsb (nkey_eqb (norm_key k)) (e_keys (cur c)) = false ->
  room (cur c) -> objects c + 1 <= max_object_count cfg ->
  exists c', rstep cfg c e = Some (c', [e]) /\
             view c' = (keyed (cur c) k tgt, stack c, depth c, objects c + 1, rectypes c, regs c).
Proof.
  intros R [C1 [C2 C3]] KO K Fr Rm O. subst rk. rewrite rstep_plan. unfold key_ok in KO. rewrite K in KO.
  destruct e as [| |v| |m t| |b| | |n|n|z|[z|]|bits|[bf|]|d|[d|]|s|b|s| | |id|id| | | |id|id|t cnt d|t d|mt d|ct d|ct d|t|mt|t ct|n m|d];
    cbn [key_of] in K; try discriminate K.
  all: try (inv_some; cbn [ev_plan]; try (cbv beta iota in KO; rewrite KO; cbn [negb]);
            unfold mkplan, plan_step; cbn [p_nno p_meth p_args p_out]; rewrite (nno_ok cfg c Rm O);
            rewrite (call_current_cell cfg _ _ (nno_state c) (e_rule (cur c))) by reflexivity; rewrite C1;
            cbn [exec_prims exec_prim key_args a_key]; unfold notify_key, nno_state, bump; rsimpl; rewrite Fr;
            destruct tgt; cbn [change_cell exec_prims exec_prim]; eexists; split; reflexivity).
  (* a string or a resource id, as an array or as a string-like array *)
  all: assert ((t =? AT_String) || (t =? AT_ResourceID) = true) as ST
         by (destruct (t =? AT_String); [reflexivity|]; destruct (t =? AT_ResourceID); [reflexivity | discriminate K]);
       destruct (string_types_ok t ST) as [A1 A2];
       cbn [ev_plan]; rewrite A1; unfold mkplan, plan_step; cbn [p_nno p_meth p_args p_out]; rewrite (nno_ok cfg c Rm O);
       rewrite (call_current_cell cfg _ _ (nno_state c) (e_rule (cur c))) by reflexivity; rewrite ?C2, ?C3;
       cbn [exec_prims exec_prim array_args a_arrty a_data a_count]; rewrite A2, KO; cbn [andb]; unfold key_from_array;
       (destruct (t =? AT_String) eqn:T1;
        [ inv_some; unfold notify_key, nno_state, bump; rsimpl; rewrite Fr;
          destruct tgt; cbn [change_cell exec_prims exec_prim]; eexists; split; reflexivity
        | destruct (t =? AT_ResourceID) eqn:T2; [|discriminate K]; inv_some; unfold notify_key, nno_state, bump; rsimpl; rewrite Fr;
          destruct tgt; cbn [change_cell exec_prims exec_prim]; eexists; split; reflexivity ]).
Qed.

Lemma key_cells : key_rule RMapKey (Some RMapValue) /\ key_rule RRecordType None.
Proof.
  pose proof other_cells as T. do 4 (apply andb_true_iff in T as [T _]).
  apply andb_true_iff in T as [T T6]. apply andb_true_iff in T as [T T5]. apply andb_true_iff in T as [T T4].
  apply andb_true_iff in T as [T T3]. apply andb_true_iff in T as [T T2]. apply andb_true_iff in T as [_ T1].
  unfold key_rule. repeat split; apply prims_eqb_eq; assumption.
Qed.


(* ------------------------------------------------------------------------- *)
(* Markers and references: the registries at the level of identifier sets     *)
(* ------------------------------------------------------------------------- *)
(* [RegL mkl fwl mk fw]: the alists [mkl] (markedObjects) and [fwl] (forwardLocalReferences) hold exactly the
   ids [mk] resp. [fw]; every marked type is compatible with a value-position reference and every pending mask
   is the value-position mask *)
Definition RegL (mkl fwl : list (bytes * N)) (mk fw : list bytes) : Prop :=
  (forall id, In id mk <-> In id (akeys mkl)) /\ (forall id, In id fw <-> In id (akeys fwl)) /\
  (forall id dt, alookup id mkl = Some dt -> N.land dt Allow_Any <> 0) /\
  (forall id al, alookup id fwl = Some al -> al = Allow_Any).
Definition Reg (c : rctx) (mk fw : list bytes) : Prop := RegL (marked c) (fwd c) mk fw.

Lemma Reg_regs c c' mk fw : regs c' = regs c -> Reg c mk fw -> Reg c' mk fw.
Proof. unfold regs, Reg. intros E. inversion E as [[E1 E2 E3]]. rewrite E1, E2. auto. Qed.

Lemma id_mem_in id l : id_mem id l = true <-> In id l.
Proof.
  unfold id_mem. rewrite existsb_exists. split.
  - intros [x [I E]]. apply bytes_eqb_eq in E. subst. exact I.
  - intro I. exists id. split; [exact I | apply bytes_eqb_refl].
Qed.
Lemma id_mem_false id l : id_mem id l = false <-> ~ In id l.
Proof. rewrite <- id_mem_in. destruct (id_mem id l); split; congruence. Qed.
Lemma id_remove_in id l x : In x (id_remove id l) <-> In x l /\ x <> id.
Proof.
  unfold id_remove. rewrite filter_In. split; intros [H1 H2]; split; auto.
  - intro E. subst. rewrite bytes_eqb_refl in H2. discriminate.
  - rewrite bytes_eqb_neq by exact H2. reflexivity.
Qed.

Lemma any_mask : N.land Allow_Any Allow_Any = Allow_Any /\ Allow_Any <> 0.
Proof. vm_compute. split; [reflexivity | discriminate]. Qed.

(* registering the current marker id *)
Lemma mark_object_ok cfg dt c mk fw :
  Reg c mk fw -> id_mem (marker_id c) mk = false -> refcount c + 1 <= max_local_reference_count cfg ->
  N.land dt Allow_Any <> 0 ->
  exists mkl fwl, mark_object cfg dt c = Some (set_markers c (marker_id c) mkl fwl (refcount c + 1)) /\
                  RegL mkl fwl (marker_id c :: mk) (id_remove (marker_id c) fw).
Proof.
  intros [R1 [R2 [R3 R4]]] Nm Rc Dt. unfold mark_object.
  destruct (max_local_reference_count cfg <? refcount c + 1) eqn:X; [lia|].
  apply id_mem_false in Nm.
  assert (alookup (marker_id c) (marked c) = None) as A by (apply alookup_none; intro I; apply Nm; apply R1; exact I).
  rewrite A.
  assert (forall id, In id (marker_id c :: mk) <-> In id (akeys (aset (marker_id c) dt (marked c)))) as M1.
  { intro id. rewrite akeys_aset. cbn [In]. rewrite R1. split; intros [H|H]; auto. }
  assert (forall id dt0, alookup id (aset (marker_id c) dt (marked c)) = Some dt0 -> N.land dt0 Allow_Any <> 0) as M3.
  { intros id dt0 E. rewrite alookup_aset in E. destruct (bytes_eqb id (marker_id c)); [inv_some; exact Dt | eauto]. }
  destruct (alookup (marker_id c) (fwd c)) as [al|] eqn:F.
  - rewrite (R4 _ _ F). rewrite N.land_comm. destruct (N.land dt Allow_Any =? 0) eqn:Z; [lia|].
    eexists _, _. split; [reflexivity|]. split; [exact M1|]. split; [|split; [exact M3|]].
    + intro id. rewrite id_remove_in, akeys_aremove, R2. tauto.
    + intros id al0 E. rewrite alookup_aremove in E. destruct (bytes_eqb id (marker_id c)); [discriminate | eauto].
  - eexists _, _. split; [reflexivity|]. split; [exact M1|]. split; [|split; [exact M3 | exact R4]].
    intro id. rewrite id_remove_in, R2. split; [tauto|]. intro I. split; [exact I|]. intro E. subst.
    apply alookup_none in F. contradiction.
Qed.

(* a value-position reference *)
Lemma local_reference_ok id c mk fw :
  Reg c mk fw ->
  exists fwl, local_reference id Allow_Any c =
                Some (if id_mem id mk then c else set_markers c (marker_id c) (marked c) fwl (refcount c)) /\
              RegL (marked c) (if id_mem id mk then fwd c else fwl) mk (if id_mem id mk || id_mem id fw then fw else id :: fw).
Proof.
  intros [R1 [R2 [R3 R4]]]. unfold local_reference. destruct any_mask as [L1 L2].
  destruct (id_mem id mk) eqn:Mm.
  - apply id_mem_in in Mm. apply R1 in Mm. apply alookup_in in Mm as [dt A]. rewrite A.
    destruct (N.land dt Allow_Any =? 0) eqn:Z; [apply N.eqb_eq in Z; exfalso; exact (R3 _ _ A Z)|].
    exists (fwd c). cbn [orb]. split; [reflexivity|]. repeat split; auto; apply R1 || apply R2.
  - apply id_mem_false in Mm.
    assert (alookup id (marked c) = None) as A by (apply alookup_none; intro I; apply Mm; apply R1; exact I).
    rewrite A. cbn [orb]. eexists. split; [reflexivity|].
    assert ((if (match alookup id (fwd c) with Some x => x | None => 0 end) =? 0 then Allow_Any
             else N.land (match alookup id (fwd c) with Some x => x | None => 0 end) Allow_Any) = Allow_Any) as V.
    { destruct (alookup id (fwd c)) as [x|] eqn:F; [rewrite (R4 _ _ F), L1; destruct (Allow_Any =? 0); reflexivity | reflexivity]. }
    rewrite V. split; [exact R1|]. split; [|split; [exact R3|]].
    + intro x. rewrite akeys_aset. destruct (id_mem id fw) eqn:Fm.
      * apply id_mem_in in Fm. rewrite R2. split; [tauto|]. intros [->|H]; [apply R2; exact Fm | exact H].
      * cbn [In]. rewrite R2. split; intros [H|H]; auto.
    + intros x al E. rewrite alookup_aset in E. destruct (bytes_eqb x id); [inv_some; reflexivity | eauto].
Qed.

(* ------------------------------------------------------------------------- *)
(* Marker and reference cells                                                 *)
(* ------------------------------------------------------------------------- *)
Lemma marker_cells :
  prims_eqb (dispatch RMarkedObjectAnyType MKeyableObject) [PUnstackRule; PForwardCurrent MKeyableObject; PMarkObject DtArg] &&
  prims_eqb (dispatch RMarkedObjectAnyType MNonKeyableObject) [PUnstackRule; PForwardCurrentKeyableEmptyKey; PMarkObject DtArg] &&
  prims_eqb (dispatch RMarkedObjectAnyType MNull) [PUnstackRule; PForwardCurrent MNull; PMarkObject DtNull] &&
  prims_eqb (dispatch RMarkedObjectAnyType MArray) [PAssertArrayType MaskMarkable; PUnstackRule; PForwardCurrent MArray; PMarkObject DtOfArrayType] &&
  prims_eqb (dispatch RMarkedObjectAnyType MStringlikeArray) [PAssertArrayType MaskMarkable; PUnstackRule; PForwardCurrent MStringlikeArray; PMarkObject DtOfArrayType] &&
  prims_eqb (dispatch RMarkedObjectAnyType MList) [PForwardParent MList] &&
  prims_eqb (dispatch RMarkedObjectAnyType MMap) [PForwardParent MMap] &&
  prims_eqb (dispatch RMarkedObjectAnyType MRecord) [PForwardParent MRecord] &&
  prims_eqb (dispatch RMarkedObjectAnyType MEdge) [PBeginEdge] &&
  prims_eqb (dispatch RMarkedObjectAnyType MNode) [PBeginNode] &&
  prims_eqb (dispatch RMarkedObjectAnyType MPadding) [] &&
  prims_eqb (dispatch RMarkedObjectAnyType MChildContainerEnded) [PMarkContainer; PUnstackRule; PForwardCurrent MChildContainerEnded] = true.
Proof. vm_compute. reflexivity. Qed.

Definition is_marker_begin (cell : list prim) : bool := match cell with [PBeginMarkerAnyType _] => true | _ => false end.
Lemma value_marker_table :
  forallb (fun r => is_marker_begin (dispatch r MMarker) &&
                    (rule_beq r RTopLevel ||
                     prims_eqb (dispatch r MReferenceLocal) (PLocalReferenceAnyType :: change_cell (expected_change r)))) value_rules = true.
Proof. vm_compute. reflexivity. Qed.

Lemma any_dtypes :
  N.land DT_List Allow_Any <> 0 /\ N.land DT_Map Allow_Any <> 0 /\ N.land DT_Edge Allow_Any <> 0 /\ N.land DT_Record Allow_Any <> 0 /\
  N.land DT_Null Allow_Any <> 0 /\ N.land DT_Bool Allow_Any <> 0 /\ N.land DT_Int Allow_Any <> 0 /\ N.land DT_UID Allow_Any <> 0 /\
  N.land DT_Time Allow_Any <> 0 /\ N.land DT_Float Allow_Any <> 0 /\ N.land DT_Nan Allow_Any <> 0 /\
  N.land Allow_Markable Allow_Any = Allow_Markable.
Proof. vm_compute. repeat split; discriminate. Qed.

Lemma markable_any dt : N.land dt Allow_Markable <> 0 -> N.land dt Allow_Any <> 0.
Proof.
  intros H Z. apply H. destruct any_dtypes as [_ [_ [_ [_ [_ [_ [_ [_ [_ [_ [_ E]]]]]]]]]]].
  rewrite <- E, N.land_assoc, (N.land_comm dt), <- N.land_assoc, Z, N.land_0_r. reflexivity.
Qed.

(* a marker entry carrying [id] *)
Definition is_marker_entry (e : entry) (id : bytes) : Prop :=
  e_rule e = RMarkedObjectAnyType /\ e_expected e = None /\ e_keys e = [NkString id].

(* S7: a marker where a value may start *)
Lemma step_marker cfg c id r :
  e_rule (cur c) = r -> is_value_rule r = true -> validate_identifier cfg id = true ->
  room (cur c) -> objects c + 1 <= max_object_count cfg ->
  exists c', rstep cfg c (EMarker id) = Some (c', [EMarker id]) /\
             is_marker_entry (cur c') id /\ stack c' = bump (cur c) :: stack c /\ depth c' = depth c /\
             objects c' = objects c + 1 /\ rectypes c' = rectypes c /\ regs c' = regs c /\ marker_id c' = id.
Proof.
  intros R V I Rm O. apply in_value_rules in V.
  pose proof value_marker_table as T. rewrite forallb_forall in T. specialize (T r V). apply andb_true_iff in T as [T _].
  rewrite rstep_plan. cbn [ev_plan]. rewrite I. unfold mkplan, plan_step. cbn [p_nno p_meth p_args p_out].
  rewrite (nno_ok cfg c Rm O). rewrite (call_current_cell cfg _ _ (nno_state c) r) by (cbn; exact R).
  destruct (dispatch r MMarker) as [|p l]; [discriminate T|]. destruct p; try discriminate T. destruct l; [|discriminate T].
  cbn [exec_prims exec_prim with_id a_id]. eexists. split; [reflexivity|]. unfold is_marker_entry, nno_state. rsimpl.
  repeat split; reflexivity.
Qed.

(* padding after a marker *)
Lemma step_marker_pad cfg c id :
  is_marker_entry (cur c) id -> rstep cfg c EPadding = Some (c, [EPadding]).
Proof.
  intros [R _]. rewrite rstep_plan. cbn [ev_plan]. unfold mkplan, plan_step. cbn [p_nno p_meth p_args p_out].
  rewrite (call_current_cell cfg _ _ c _ R).
  pose proof marker_cells as T. apply andb_true_iff in T as [T _]. apply andb_true_iff in T as [_ T]. apply prims_eqb_eq in T.
  rewrite T. reflexivity.
Qed.
Lemma steps_marker_pads cfg c id n : is_marker_entry (cur c) id -> steps cfg c (repeat EPadding n) = Some c.
Proof. intro M. induction n as [|n IH]; [reflexivity|]. cbn [repeat steps]. rewrite (step_marker_pad cfg c id M). exact IH. Qed.

(* S8: a reference in value position *)
Lemma step_ref cfg c id r mk fw :
  e_rule (cur c) = r -> is_value_rule r = true -> r <> RTopLevel -> validate_identifier cfg id = true ->
  room (cur c) -> objects c + 1 <= max_object_count cfg -> Reg c mk fw ->
  exists c', rstep cfg c (ERefLocal id) = Some (c', [ERefLocal id]) /\
             cur c' = adv_entry (cur c) /\ stack c' = stack c /\ depth c' = depth c /\ objects c' = objects c + 1 /\
             rectypes c' = rectypes c /\ refcount c' = refcount c /\
             Reg c' mk (if id_mem id mk || id_mem id fw then fw else id :: fw).
Proof.
  intros R V NT I Rm O Rg. pose proof V as V'. apply in_value_rules in V.
  pose proof value_marker_table as T. rewrite forallb_forall in T. specialize (T r V). apply andb_true_iff in T as [_ T].
  apply orb_true_iff in T as [T|T]; [apply rule_beq_true in T; contradiction|]. apply prims_eqb_eq in T.
  rewrite rstep_plan. cbn [ev_plan]. rewrite I. unfold mkplan, plan_step. cbn [p_nno p_meth p_args p_out].
  rewrite (nno_ok cfg c Rm O). rewrite (call_current_cell cfg _ _ (nno_state c) r) by (cbn; exact R). rewrite T.
  cbn [exec_prims exec_prim with_id a_id].
  assert (Reg (nno_state c) mk fw) as Rg1 by exact Rg.
  destruct (local_reference_ok id (nno_state c) mk fw Rg1) as [fwl [L RL]]. rewrite L.
  assert (forall c1, cur c1 = bump (cur c) ->
            exec_prims cfg (call_rule 5 cfg) r MReferenceLocal (with_id id) (change_cell (expected_change r)) c1 =
            Some (set_cur c1 (adv_entry (cur c)))) as Ch.
  { intros c1 E. unfold expected_change. destruct (rule_beq r (next_rule r)) eqn:B; cbn [change_cell exec_prims exec_prim].
    - apply rule_beq_true in B. f_equal. unfold adv_entry. rewrite R, <- B.
      replace r with (e_rule (bump (cur c))) by (cbn; exact R). rewrite with_rule_same, <- E. destruct c1; reflexivity.
    - unfold set_rule. rewrite E. unfold adv_entry. rewrite R. reflexivity. }
  destruct (id_mem id mk) eqn:Mm; cbn [orb] in RL |- *.
  - rewrite Ch by reflexivity. eexists. split; [reflexivity|]. unfold nno_state. rsimpl. do 6 (split; [reflexivity|]). exact RL.
  - rewrite Ch by reflexivity. eexists. split; [reflexivity|]. unfold nno_state. rsimpl. do 6 (split; [reflexivity|]). exact RL.
Qed.

(* ------------------------------------------------------------------------- *)
(* A marked value delivered in one event                                      *)
(* ------------------------------------------------------------------------- *)
Lemma leaf_plan2 cfg ps e pl :
  leaf_ok cfg ps e = true -> ev_plan cfg e = Some pl ->
  p_meth pl <> MChildContainerEnded /\
  (p_meth pl = MKeyableObject \/ p_meth pl = MNonKeyableObject -> N.land (a_dtype (p_args pl)) Allow_Any <> 0) /\
  (markable (VLeaf e) = true -> p_meth pl = MArray \/ p_meth pl = MStringlikeArray ->
   assert_array_type (a_arrty (p_args pl)) Allow_Markable = true).
Proof.
  destruct any_dtypes as [_ [_ [_ [_ [_ [A1 [A2 [A3 [A4 [A5 [A6 _]]]]]]]]]]].
  destruct e as [| |v| |m t| |b| | |n|n|z|[z|]|bits|[bf|]|[| | |]|[[| | |]|]|s|b|s| | |id|id| | | |id|id|t cnt d|t d|mt d|ct d|ct d|t|mt|t ct|n m|d];
    cbn [leaf_ok]; intros L P; try discriminate L; cbn [ev_plan] in P;
    repeat match goal with H : _ && _ = true |- _ => apply andb_true_iff in H as [H ?] end;
    try match goal with H : array_api_ok _ = true |- _ => rewrite H in P end;
    try match type of P with (if ?b then _ else _) = _ => destruct b end;
    unfold mkplan in P; inv_some; cbn [p_meth p_args a_dtype a_arrty key_args with_dtype no_args array_args markable];
    (split; [discriminate|]);
    (split; [intro HH; first [assumption | destruct HH as [X|X]; discriminate X]
            | intros Mk HH; first [exact Mk | destruct HH as [X|X]; discriminate X]]).
Qed.

Lemma unstack_cons c p st : stack c = p :: st -> unstack_rule c = Some (set_cur (set_stack c st) p).
Proof. unfold unstack_rule. intros ->. reflexivity. Qed.

Lemma call_rule_cell f cfg c r m a :
  e_rule (cur c) = r -> call_rule (S f) cfg (e_rule (cur c)) m a c = exec_prims cfg (call_rule f cfg) r m a (dispatch r m) c.
Proof. intros ->. reflexivity. Qed.

(* unstack the marker entry, hand the value to the parent rule, register the marker *)
Lemma marked_tail cfg f c1 p st r m' a' dt mk fw :
  stack c1 = p :: st -> e_rule p = r -> is_value_rule r = true -> In m' leaf_meths -> (m' = MNull -> null_allowed r = true) ->
  forallb (guard_holds cfg a') (dispatch r m') = true ->
  Reg c1 mk fw -> id_mem (marker_id c1) mk = false -> refcount c1 + 1 <= max_local_reference_count cfg ->
  N.land dt Allow_Any <> 0 ->
  exists c', match unstack_rule c1 with
             | Some c2 => match call_rule (S f) cfg (e_rule (cur c2)) m' a' c2 with
                          | Some c3 => match mark_object cfg dt c3 with Some c4 => Some c4 | None => None end
                          | None => None
                          end
             | None => None
             end = Some c' /\
             cur c' = with_rule p (next_rule r) /\ stack c' = st /\ depth c' = depth c1 /\ objects c' = objects c1 /\
             rectypes c' = rectypes c1 /\ refcount c' = refcount c1 + 1 /\
             Reg c' (marker_id c1 :: mk) (id_remove (marker_id c1) fw).
Proof.
  intros S R V M HN HG Rg Nm Rc Dt. rewrite (unstack_cons _ _ _ S).
  rewrite (call_rule_cell f cfg (set_cur (set_stack c1 st) p) r m' a') by exact R.
  rewrite (value_cell_exec cfg f r m' a' _ V M HN HG) by exact R. rsimpl.
  match goal with |- context [mark_object cfg dt ?c3] =>
    destruct (mark_object_ok cfg dt c3 mk fw) as [mkl [fwl [E RL]]]; [exact Rg | exact Nm | exact Rc | exact Dt |] end.
  rewrite E. eexists. split; [reflexivity|]. rsimpl. do 6 (split; [reflexivity|]). exact RL.
Qed.

Lemma step_marked_leaf cfg c e id p st r mk fw :
  is_marker_entry (cur c) id -> stack c = p :: st -> e_rule p = r -> is_value_rule r = true -> marker_id c = id ->
  leaf_wf cfg (pos_of_rule r) e = true -> markable (VLeaf e) = true ->
  objects c + 1 <= max_object_count cfg ->
  Reg c mk fw -> id_mem id mk = false -> refcount c + 1 <= max_local_reference_count cfg ->
  exists c', rstep cfg c e = Some (c', [nn e]) /\
             cur c' = with_rule p (next_rule r) /\ stack c' = st /\ depth c' = depth c /\ objects c' = objects c + 1 /\
             rectypes c' = rectypes c /\ refcount c' = refcount c + 1 /\ Reg c' (id :: mk) (id_remove id fw).
Proof.
  intros [M1 [M2 M3]] S R V Mi L0 Mk O Rg Nm Rc. unfold leaf_wf in L0. apply andb_true_iff in L0 as [L N].
  destruct (leaf_plan cfg _ e L) as [pl [P [P1 [P2 [P3 [P4 [P5 P6]]]]]]].
  destruct (leaf_plan2 cfg _ e pl L P) as [Q1 [Q2 Q3]].
  assert (p_meth pl = MNull -> null_allowed r = true) as HN.
  { intro M. unfold null_allowed. destruct (null_ok (pos_of_rule r)); [reflexivity|]. rewrite (P4 M) in N. discriminate N. }
  rewrite rstep_plan, P. unfold plan_step. rewrite P1.
  rewrite (nno_ok cfg c); [| unfold room; rewrite M2; exact I | exact O]. rewrite P2.
  rewrite (call_current_cell cfg _ _ (nno_state c) RMarkedObjectAnyType) by (cbn; exact M1).
  pose proof marker_cells as T. do 7 (apply andb_true_iff in T as [T _]).
  apply andb_true_iff in T as [T T5]. apply andb_true_iff in T as [T T4]. apply andb_true_iff in T as [T T3].
  apply andb_true_iff in T as [T1 T2]. apply prims_eqb_eq in T1, T2, T3, T4, T5.
  assert (Reg (nno_state c) mk fw) as Rg1 by exact Rg.
  assert (stack (nno_state c) = p :: st) as S1 by exact S.
  assert (id_mem (marker_id (nno_state c)) mk = false) as Nm1 by (cbn; rewrite Mi; exact Nm).
  assert (refcount (nno_state c) + 1 <= max_local_reference_count cfg) as Rc1 by exact Rc.
  destruct any_dtypes as [_ [_ [_ [_ [AN _]]]]].
  assert (forall c', (cur c' = with_rule p (next_rule r) /\ stack c' = st /\ depth c' = depth (nno_state c) /\
                      objects c' = objects (nno_state c) /\ rectypes c' = rectypes (nno_state c) /\
                      refcount c' = refcount (nno_state c) + 1 /\
                      Reg c' (marker_id (nno_state c) :: mk) (id_remove (marker_id (nno_state c)) fw)) ->
                     cur c' = with_rule p (next_rule r) /\ stack c' = st /\ depth c' = depth c /\ objects c' = objects c + 1 /\
                     rectypes c' = rectypes c /\ refcount c' = refcount c + 1 /\ Reg c' (id :: mk) (id_remove id fw)) as Fin.
  { intros c' H. cbn [nno_state marker_id set_objects set_cur depth objects rectypes refcount] in H. rewrite Mi in H. exact H. }
  assert (forall a', forallb (guard_holds cfg a') (dispatch r MKeyableObject) = true) as GK.
  { intro a'. apply leaf_cell_guards; [exact V | cbn; tauto | intro X; discriminate X | split; intro X; discriminate X]. }
  cbn [In leaf_meths] in P3. destruct P3 as [M|[M|[M|[M|[M|[M|[]]]]]]]; symmetry in M; try contradiction.
  - (* keyable *)
    rewrite M, T1. cbn [exec_prims exec_prim].
    destruct (marked_tail cfg 4 (nno_state c) p st r MKeyableObject (p_args pl) (a_dtype (p_args pl)) mk fw S1 R V) as [c' [E H]];
      try assumption; try (intro X; discriminate X); [cbn; tauto | apply GK | apply Q2; auto |].
    rewrite E. exists c'. split; [reflexivity | apply Fin; exact H].
  - (* non-keyable *)
    rewrite M, T2. cbn [exec_prims exec_prim].
    destruct (marked_tail cfg 4 (nno_state c) p st r MKeyableObject (with_key (p_args pl) (Some (RkString []))) (a_dtype (p_args pl)) mk fw S1 R V) as [c' [E H]];
      try assumption; try (intro X; discriminate X); [cbn; tauto | apply GK | apply Q2; auto |].
    rewrite E. exists c'. split; [reflexivity | apply Fin; exact H].
  - (* null *)
    rewrite M, T3. cbn [exec_prims exec_prim].
    destruct (marked_tail cfg 4 (nno_state c) p st r MNull (p_args pl) DT_Null mk fw S1 R V) as [c' [E H]];
      try assumption; try (intro X; discriminate X); [cbn; tauto | intros _; exact (HN M) | |].
    { apply leaf_cell_guards; [exact V | cbn; tauto | intros _; exact (HN M) | split; intro X; discriminate X]. }
    rewrite E. exists c'. split; [reflexivity | apply Fin; exact H].
  - (* array *)
    rewrite M, T4. cbn [exec_prims exec_prim mask_value]. pose proof (Q3 Mk (or_introl M)) as AM. rewrite AM.
    unfold assert_array_type in AM. destruct (array_dtype (a_arrty (p_args pl))) as [dt|] eqn:AD; [|discriminate].
    apply negb_true_iff in AM. apply N.eqb_neq in AM. cbv beta iota.
    destruct (marked_tail cfg 4 (nno_state c) p st r MArray (p_args pl) dt mk fw S1 R V) as [c' [E H]];
      try assumption; try (intro X; discriminate X); [cbn; tauto | | apply markable_any; exact AM |].
    { apply leaf_cell_guards; [exact V | cbn; tauto | intro X; discriminate X | split; [intros _; exact (P5 M) | intro X; discriminate X]]. }
    rewrite E. exists c'. split; [reflexivity | apply Fin; exact H].
  - (* string-like array *)
    rewrite M, T5. cbn [exec_prims exec_prim mask_value]. pose proof (Q3 Mk (or_intror M)) as AM. rewrite AM.
    unfold assert_array_type in AM. destruct (array_dtype (a_arrty (p_args pl))) as [dt|] eqn:AD; [|discriminate].
    apply negb_true_iff in AM. apply N.eqb_neq in AM. cbv beta iota.
    destruct (marked_tail cfg 4 (nno_state c) p st r MStringlikeArray (p_args pl) dt mk fw S1 R V) as [c' [E H]];
      try assumption; try (intro X; discriminate X); [cbn; tauto | | apply markable_any; exact AM |].
    { apply leaf_cell_guards; [exact V | cbn; tauto | intro X; discriminate X | split; [intro X; discriminate X | intros _; exact (P6 M)]]. }
    rewrite E. exists c'. split; [reflexivity | apply Fin; exact H].
Qed.

(* ------------------------------------------------------------------------- *)
(* A marked container                                                         *)
(* ------------------------------------------------------------------------- *)
Lemma marker_container_cells :
  dispatch RMarkedObjectAnyType MList = [PForwardParent MList] /\ dispatch RMarkedObjectAnyType MMap = [PForwardParent MMap] /\
  dispatch RMarkedObjectAnyType MRecord = [PForwardParent MRecord] /\ dispatch RMarkedObjectAnyType MEdge = [PBeginEdge] /\
  dispatch RMarkedObjectAnyType MNode = [PBeginNode] /\
  dispatch RMarkedObjectAnyType MChildContainerEnded = [PMarkContainer; PUnstackRule; PForwardCurrent MChildContainerEnded].
Proof.
  pose proof marker_cells as T. apply andb_true_iff in T as [T T6]. apply andb_true_iff in T as [T _].
  apply andb_true_iff in T as [T T5]. apply andb_true_iff in T as [T T4]. apply andb_true_iff in T as [T T3].
  apply andb_true_iff in T as [T T2]. apply andb_true_iff in T as [_ T1].
  repeat split; apply prims_eqb_eq; assumption.
Qed.

Lemma step_marked_begin cfg c e id p st r m rc dt exp :
  begin_spec e = Some (m, rc, dt, exp) -> is_marker_entry (cur c) id -> stack c = p :: st -> e_rule p = r -> is_value_rule r = true ->
  objects c + 1 <= max_object_count cfg -> depth c + 1 <= max_container_depth cfg ->
  exists c', rstep cfg c e = Some (c', [e]) /\
             view c' = (mk_entry rc dt exp, bump (cur c) :: stack c, depth c + 1, objects c + 1, rectypes c, regs c).
Proof.
  intros B [M1 [M2 M3]] S R V O D. destruct (begin_cells r V) as [C1 [C2 _]].
  destruct marker_container_cells as [K1 [K2 [_ [K4 [K5 _]]]]]. rewrite rstep_plan.
  destruct e; try discriminate B; cbn [begin_spec] in B; inv_some; cbn [ev_plan]; unfold mkplan, plan_step;
    cbn [p_nno p_meth p_args p_out]; (rewrite (nno_ok cfg c); [| unfold room; rewrite M2; exact I | exact O]);
    rewrite (call_current_cell cfg _ _ (nno_state c) RMarkedObjectAnyType) by (cbn; exact M1);
    rewrite ?K1, ?K2, ?K4, ?K5; cbn [exec_prims exec_prim];
    try (change (stack (nno_state c)) with (stack c); rewrite S, call_rule_S, ?C1, ?C2; cbn [exec_prims exec_prim]);
    unfold begin_container, nno_state; rsimpl;
    (destruct (max_container_depth cfg <? depth c + 1) eqn:X; [lia|]);
    (eexists; split; [reflexivity | first [reflexivity | rewrite <- S; reflexivity | rewrite S; reflexivity]]).
Qed.

Lemma step_marked_begin_record cfg c rid id p st r n :
  is_marker_entry (cur c) id -> stack c = p :: st -> e_rule p = r -> is_value_rule r = true ->
  validate_identifier cfg rid = true -> alookup rid (rectypes c) = Some n ->
  objects c + 1 <= max_object_count cfg -> depth c + 1 <= max_container_depth cfg ->
  exists c', rstep cfg c (ERecord rid) = Some (c', [ERecord rid]) /\
             view c' = (mk_entry RRecord DT_Record (Some n), bump (cur c) :: stack c, depth c + 1, objects c + 1, rectypes c, regs c).
Proof.
  intros [M1 [M2 M3]] S R V Vi A O D. destruct (begin_cells r V) as [_ [_ [_ [_ C]]]].
  destruct marker_container_cells as [_ [_ [K3 _]]]. rewrite rstep_plan.
  cbn [ev_plan]. rewrite Vi. unfold mkplan, plan_step. cbn [p_nno p_meth p_args p_out].
  rewrite (nno_ok cfg c); [| unfold room; rewrite M2; exact I | exact O].
  rewrite (call_current_cell cfg _ _ (nno_state c) RMarkedObjectAnyType) by (cbn; exact M1). rewrite K3.
  cbn [exec_prims exec_prim]. change (stack (nno_state c)) with (stack c). rewrite S, call_rule_S, R, C.
  cbn [exec_prims exec_prim with_id a_id]. unfold nno_state. rsimpl. rewrite A. unfold begin_container. rsimpl.
  destruct (max_container_depth cfg <? depth c + 1) eqn:X; [lia|]. eexists; split; [reflexivity | first [reflexivity | rewrite <- S; reflexivity | rewrite S; reflexivity]].
Qed.

(* the end of a marked container: the marker is registered under its own id, then the parent gets the value *)
Lemma step_end_marked cfg c me id p st r mk fw :
  closable (e_rule (cur c)) = true -> stack c = me :: p :: st -> is_marker_entry me id -> e_rule p = r -> is_value_rule r = true ->
  depth c <> 0 -> match e_expected (cur c) with Some x => e_count (cur c) = x | None => True end ->
  (e_dtype (cur c) =? DT_RecordType) = false -> N.land (e_dtype (cur c)) Allow_Any <> 0 ->
  Reg c mk fw -> id_mem id mk = false -> refcount c + 1 <= max_local_reference_count cfg ->
  exists c', rstep cfg c EEnd = Some (c', [EEnd]) /\
             cur c' = with_rule p (next_rule r) /\ stack c' = st /\ depth c' = depth c - 1 /\ objects c' = objects c /\
             rectypes c' = rectypes c /\ refcount c' = refcount c + 1 /\ Reg c' (id :: mk) (id_remove id fw).
Proof.
  intros Cl S [M1 [M2 M3]] R V D X T Dt Rg Nm Rc.
  destruct marker_container_cells as [_ [_ [_ [_ [_ K]]]]].
  rewrite rstep_plan. cbn [ev_plan]. unfold mkplan, plan_step. cbn [p_nno p_meth p_args p_out].
  rewrite (call_current_cell cfg _ _ c _ eq_refl), (end_cells _ Cl). cbn [exec_prims exec_prim].
  unfold end_container. destruct (depth c =? 0) eqn:D0; [lia|].
  assert (match e_expected (cur c) with Some x => negb (e_count (cur c) =? x) | None => false end = false) as ->.
  { destruct (e_expected (cur c)); [subst; rewrite N.eqb_refl; reflexivity | reflexivity]. }
  rewrite T. unfold end_container_like, unstack_rule. rsimpl. rewrite S. rsimpl. rewrite M1, call_rule_S, K.
  cbn [exec_prims exec_prim with_dtype a_dtype]. rsimpl. unfold entry_marker_id. rewrite M3.
  match goal with |- context [mark_object cfg ?dt ?c3] =>
    destruct (mark_object_ok cfg dt c3 mk fw) as [mkl [fwl [E RL]]]; [exact Rg | exact Nm | exact Rc | exact Dt |] end.
  rewrite E. unfold unstack_rule. rsimpl.
  match goal with |- context [call_rule 4 cfg ?rr MChildContainerEnded ?aa ?cc] =>
    change (call_rule 4 cfg rr MChildContainerEnded aa cc) with (call_rule 4 cfg (e_rule (cur cc)) MChildContainerEnded aa cc);
    rewrite (call_rule_cell 3 cfg cc r MChildContainerEnded aa) by exact R;
    rewrite (value_cell_exec_plain cfg 3 r MChildContainerEnded aa cc V) by (first [exact R | tauto])
  end.
  eexists. split; [reflexivity|]. rsimpl. do 6 (split; [reflexivity|]). exact RL.
Qed.

(* ------------------------------------------------------------------------- *)
(* Induction on trees                                                         *)
(* ------------------------------------------------------------------------- *)
Section ValInd.
  Variable P : val -> Prop.
  Hypothesis Hleaf : forall e, P (VLeaf e).
  Hypothesis HT : forall t v, P v -> P (VT t v).
  Hypothesis HList : forall items close, Forall P items -> P (VList items close).
  Hypothesis HMap : forall entries close, Forall (fun en => P (snd en)) entries -> P (VMap entries close).
  Hypothesis HNode : forall v items close, P v -> Forall P items -> P (VNode v items close).
  Hypothesis HEdge : forall s d t close, P s -> P d -> P t -> P (VEdge s d t close).
  Hypothesis HRecord : forall id fields close, Forall P fields -> P (VRecord id fields close).
  Hypothesis HMarked : forall id n v, P v -> P (VMarked id n v).
  Hypothesis HRef : forall id, P (VRef id).
  Hypothesis HChunked : forall b chs, P (VChunked b chs).

  Fixpoint val_ind' (v : val) : P v :=
    match v with
    | VLeaf e => Hleaf e
    | VT t v => HT t v (val_ind' v)
    | VList items close =>
        HList items close ((fix go (l : list val) : Forall P l :=
                              match l with [] => Forall_nil _ | x :: r => Forall_cons x (val_ind' x) (go r) end) items)
    | VMap entries close =>
        HMap entries close ((fix go (l : list (list trivia * event * val)) : Forall (fun en => P (snd en)) l :=
                               match l with [] => Forall_nil _ | x :: r => Forall_cons x (val_ind' (snd x)) (go r) end) entries)
    | VNode v items close =>
        HNode v items close (val_ind' v)
              ((fix go (l : list val) : Forall P l :=
                  match l with [] => Forall_nil _ | x :: r => Forall_cons x (val_ind' x) (go r) end) items)
    | VEdge s d t close => HEdge s d t close (val_ind' s) (val_ind' d) (val_ind' t)
    | VRecord id fields close =>
        HRecord id fields close ((fix go (l : list val) : Forall P l :=
                                    match l with [] => Forall_nil _ | x :: r => Forall_cons x (val_ind' x) (go r) end) fields)
    | VMarked id n v => HMarked id n v (val_ind' v)
    | VRef id => HRef id
    | VChunked b chs => HChunked b chs
    end.
End ValInd.

Definition core (c : rctx) := (cur c, stack c, depth c, objects c, rectypes c).

Lemma view_core c x1 x2 x3 x4 x5 x6 : view c = (x1, x2, x3, x4, x5, x6) -> core c = (x1, x2, x3, x4, x5) /\ regs c = x6.
Proof. unfold view, core. intro H. inversion H. auto. Qed.

(* the registry threading over lists *)
Definition reg_entries (entries : list (list trivia * event * val)) (st : list bytes * list bytes) :=
  reg_list (map snd entries) st.
Lemma reg_val_list items close st : reg_val (VList items close) st = reg_list items st.
Proof. cbn [reg_val]. revert st. induction items as [|x r IH]; intro st; [reflexivity|]. cbn [reg_list]. destruct (reg_val x st); [apply IH | reflexivity]. Qed.
Lemma reg_val_record id items close st : reg_val (VRecord id items close) st = reg_list items st.
Proof. cbn [reg_val]. revert st. induction items as [|x r IH]; intro st; [reflexivity|]. cbn [reg_list]. destruct (reg_val x st); [apply IH | reflexivity]. Qed.
Lemma reg_val_node v items close st :
  reg_val (VNode v items close) st = match reg_val v st with Some s => reg_list items s | None => None end.
Proof.
  cbn [reg_val]. destruct (reg_val v st) as [s|]; [|reflexivity]. revert s.
  induction items as [|x r IH]; intro s; [reflexivity|]. cbn [reg_list]. destruct (reg_val x s); [apply IH | reflexivity].
Qed.
Lemma reg_val_map entries close st : reg_val (VMap entries close) st = reg_entries entries st.
Proof.
  cbn [reg_val]. unfold reg_entries. revert st. induction entries as [|x r IH]; intro st; [reflexivity|].
  cbn [map reg_list]. destruct (reg_val (snd x) st); [apply IH | reflexivity].
Qed.

(* usage bookkeeping *)
Lemma object_usage_app a b : object_usage (a ++ b) = object_usage a + object_usage b.
Proof. apply count_if_app. Qed.
Lemma object_usage_trivia ts : object_usage (map trivia_event ts) = 0.
Proof. induction ts as [|t ts IH]; [reflexivity|]. unfold object_usage in *. cbn [map count_if]. rewrite IH. destruct t; reflexivity. Qed.
Lemma object_usage_cons e l : object_usage (e :: l) = (if counts_object e then 1 else 0) + object_usage l.
Proof. reflexivity. Qed.
Lemma marker_usage_app a b : marker_usage (a ++ b) = marker_usage a + marker_usage b.
Proof. apply count_if_app. Qed.
Lemma marker_usage_trivia ts : marker_usage (map trivia_event ts) = 0.
Proof. induction ts as [|t ts IH]; [reflexivity|]. unfold marker_usage in *. cbn [map count_if]. rewrite IH. destruct t; reflexivity. Qed.
Lemma marker_usage_cons e l : marker_usage (e :: l) = (if is_marker e then 1 else 0) + marker_usage l.
Proof. reflexivity. Qed.
Lemma usage_pads n : object_usage (repeat EPadding n) = 0 /\ marker_usage (repeat EPadding n) = 0.
Proof. induction n as [|n [I1 I2]]; [split; reflexivity|]. cbn [repeat]. rewrite object_usage_cons, marker_usage_cons, I1, I2. split; reflexivity. Qed.

(* ------------------------------------------------------------------------- *)
(* Arrays delivered in chunks                                                 *)
(* ------------------------------------------------------------------------- *)
Definition arule (sr : bool) : rule := if sr then RString else RArray.
Definition crule (sr : bool) : rule := if sr then RStringChunk else RArrayChunk.

Section ArrayRun.
  Variable cfg : rcfg.
  Notation call5 := (call_rule 5 cfg).

  Lemma rstep_chunk sr c n more :
    e_rule (cur c) = arule sr ->
    rstep cfg c (EArrayChunk n more) =
    match rule_chunk cfg call5 sr n more c with Some c' => Some (c', [EArrayChunk n more]) | None => None end.
  Proof.
    intro R. rewrite rstep_plan. cbn [ev_plan]. unfold mkplan, plan_step. cbn [p_nno p_meth p_args p_out].
    rewrite (call_current_cell cfg _ _ c _ R).
    destruct sr; cbn [arule]; [change (dispatch RString MArrayChunk) with [PStringRuleChunk] | change (dispatch RArray MArrayChunk) with [PArrayRuleChunk]];
      cbn [exec_prims exec_prim a_count a_more]; destruct (rule_chunk _ _ _ _ _ _); reflexivity.
  Qed.

  Lemma rstep_data sr c d :
    e_rule (cur c) = crule sr ->
    rstep cfg c (EArrayData d) =
    match chunk_data call5 sr d c with Some c' => Some (c', [EArrayData d]) | None => None end.
  Proof.
    intro R. rewrite rstep_plan. cbn [ev_plan]. unfold mkplan, plan_step. cbn [p_nno p_meth p_args p_out].
    rewrite (call_current_cell cfg _ _ c _ R).
    destruct sr; cbn [crule]; [change (dispatch RStringChunk MArrayData) with [PStringChunkRuleData] | change (dispatch RArrayChunk MArrayData) with [PArrayChunkRuleData]];
      cbn [exec_prims exec_prim array_args a_data]; destruct (chunk_data _ _ _ _); reflexivity.
  Qed.

  (* only chunk events at the array rules (and comments, for the arrays that are not string-like), only data
     events at the chunk rules *)
  Lemma array_rules_table :
    forallb (fun m => meth_beq m MArrayChunk || meth_beq m MComment || has_reject (dispatch RArray m)) all_meths = true /\
    only_meth RString MArrayChunk = true /\
    only_meth RArrayChunk MArrayData = true /\ only_meth RStringChunk MArrayData = true /\ dispatch RArray MComment = [].
  Proof. vm_compute. repeat split; reflexivity. Qed.

  Lemma ev_plan_array e pl :
    ev_plan cfg e = Some pl ->
    (p_meth pl = MArrayChunk -> exists n more, e = EArrayChunk n more) /\ (p_meth pl = MArrayData -> exists d, e = EArrayData d) /\
    (p_meth pl = MComment -> exists m t, e = EComment m t).
  Proof.
    destruct e as [| |v| |m t| |b| | |n|n|z|[z|]|bits|[bf|]|[| | |]|[[| | |]|]|s|b|s| | |id|id| | | |id|id|t cnt d|t d|mt d|ct d|ct d|t|mt|t ct|n m|d];
      cbn [ev_plan]; intro H;
      repeat match goal with H : (if ?b then _ else _) = Some _ |- _ => destruct b; try discriminate H end;
      unfold mkplan in H; inv_some; cbn [p_meth]; (split; [|split]); intro X; try discriminate X; eauto.
  Qed.

  Lemma arule_only sr c e c1 o :
    e_rule (cur c) = arule sr -> rstep cfg c e = Some (c1, o) ->
    (exists n more, e = EArrayChunk n more) \/ (sr = false /\ exists m t, e = EComment m t).
  Proof.
    intros R H. rewrite rstep_plan in H. destruct (ev_plan cfg e) as [pl|] eqn:P; [|discriminate].
    destruct (plan_step cfg pl c) as [c2|] eqn:S; [|discriminate].
    destruct array_rules_table as [T1 [T2 _]]. destruct (ev_plan_array _ _ P) as [P1 [_ P3]].
    destruct sr; cbn [arule] in R.
    - left. apply P1. exact (only_meth_spec _ _ _ _ _ _ T2 R S).
    - rewrite forallb_forall in T1. specialize (T1 _ (all_meths_complete (p_meth pl))).
      apply orb_true_iff in T1 as [T1|T1]; [apply orb_true_iff in T1 as [T1|T1]|].
      + left. apply P1. apply meth_beq_true. exact T1.
      + right. split; [reflexivity|]. apply P3. apply meth_beq_true. exact T1.
      + rewrite plan_step_reject in S; [discriminate | rewrite R; exact T1].
  Qed.

  Lemma crule_only sr c e c1 o :
    e_rule (cur c) = crule sr -> rstep cfg c e = Some (c1, o) -> exists d, e = EArrayData d.
  Proof.
    intros R H. rewrite rstep_plan in H. destruct (ev_plan cfg e) as [pl|] eqn:P; [|discriminate].
    destruct (plan_step cfg pl c) as [c2|] eqn:S; [|discriminate].
    destruct array_rules_table as [_ [_ [T1 [T2 _]]]].
    apply (proj1 (proj2 (ev_plan_array _ _ P))). destruct sr; cbn [crule] in R;
      [exact (only_meth_spec _ _ _ _ _ _ T2 R S) | exact (only_meth_spec _ _ _ _ _ _ T1 R S)].
  Qed.

  Lemma rstep_array_comment c m t : e_rule (cur c) = RArray -> rstep cfg c (EComment m t) = Some (c, [EComment m t]).
  Proof.
    intro R. rewrite rstep_plan. cbn [ev_plan]. unfold mkplan, plan_step. cbn [p_nno p_meth p_args p_out].
    rewrite (call_current_cell cfg _ _ c _ R). destruct array_rules_table as [_ [_ [_ [_ C]]]]. rewrite C. reflexivity.
  Qed.

  (* ---- the data events of a chunk ---- *)
  (* one data event that does not complete the chunk *)
  Lemma chunk_data_more sr d c c1 :
    chunk_data call5 sr d c = Some c1 -> chunk_actual c + blen d <> chunk_expected c ->
    chunk_actual c + blen d < chunk_expected c /\ e_rule (cur c1) = e_rule (cur c) /\
    chunk_actual c1 = chunk_actual c + blen d /\ chunk_expected c1 = chunk_expected c.
  Proof.
    unfold chunk_data. intros H NE.
    destruct (chunk_expected c <? chunk_actual c + blen d) eqn:X; [discriminate|].
    apply N.eqb_neq in NE. rewrite NE in H.
    assert (chunk_actual c + blen d < chunk_expected c) as LT by (apply N.eqb_neq in NE; lia).
    split; [exact LT|]. destruct sr.
    - destruct (stream_string_data (utf8_rem c) d) as [[[f nx] rm]|]; [|discriminate].
      destruct (validate_with (arr_validator c) f && validate_with (arr_validator c) nx); [|discriminate].
      inv_some. rsimpl. repeat split; reflexivity.
    - inv_some. rsimpl. repeat split; reflexivity.
  Qed.

  Lemma chunk_data_bound sr d c c1 :
    chunk_data call5 sr d c = Some c1 -> chunk_actual c + blen d <= chunk_expected c.
  Proof. unfold chunk_data. destruct (chunk_expected c <? chunk_actual c + blen d) eqn:X; [discriminate | lia]. Qed.

  (* running the data events = folding [chunk_data] *)
  Lemma data_run sr ds : forall c rest,
    e_rule (cur c) = crule sr -> data_completes (chunk_expected c) (chunk_actual c) ds = true ->
    steps cfg c (map EArrayData ds ++ rest) =
    match chunk_fold call5 sr ds c with Some c' => steps cfg c' rest | None => None end.
  Proof.
    induction ds as [|d r IH]; intros c rest R D; [discriminate D|].
    cbn [map app steps chunk_fold data_completes] in *. rewrite (rstep_data sr c d R).
    destruct (chunk_data call5 sr d c) as [c1|] eqn:CD; [|reflexivity].
    destruct (chunk_actual c + blen d =? chunk_expected c) eqn:E.
    - destruct r; [reflexivity | discriminate D].
    - apply N.eqb_neq in E. destruct (chunk_data_more _ _ _ _ CD E) as [LT [R1 [A1 X1]]].
      apply andb_true_iff in D as [_ D]. apply IH; [rewrite R1; exact R | rewrite A1, X1; exact D].
  Qed.

  (* an accepted run from a chunk rule begins with data events that complete the chunk *)
  Lemma data_parse sr n : forall es c cf,
    (length es <= n)%nat -> steps cfg c es = Some cf -> e_rule (cur cf) = RTerminal -> e_rule (cur c) = crule sr ->
    exists ds rest, es = map EArrayData ds ++ rest /\ data_completes (chunk_expected c) (chunk_actual c) ds = true /\
                    (length rest < length es)%nat.
  Proof.
    induction n as [|n IH]; intros es c cf L S T R.
    { destruct es; [|cbn in L; lia]. cbn in S. inv_some. rewrite R in T. destruct sr; discriminate T. }
    destruct es as [|e es'].
    { cbn in S. inv_some. rewrite R in T. destruct sr; discriminate T. }
    cbn [steps] in S. destruct (rstep cfg c e) as [[c1 o]|] eqn:RS; [|discriminate].
    destruct (crule_only _ _ _ _ _ R RS) as [d ->]. rewrite (rstep_data sr c d R) in RS.
    destruct (chunk_data call5 sr d c) as [c1'|] eqn:CD; [|discriminate]. inv_some.
    destruct (chunk_actual c + blen d =? chunk_expected c) eqn:E.
    - exists [d], es'. cbn [map app data_completes length]. rewrite E. repeat split; lia.
    - apply N.eqb_neq in E. destruct (chunk_data_more _ _ _ _ CD E) as [LT [R1 [A1 X1]]].
      cbn [length] in L. destruct (IH es' c1 cf) as [ds [rest [E1 [D1 L1]]]]; [lia | exact S | exact T | rewrite R1; exact R |].
      exists (d :: ds), rest. cbn [map app data_completes length]. apply N.eqb_neq in E. rewrite E.
      split; [rewrite E1; reflexivity|]. split; [|lia]. apply andb_true_iff. split; [apply N.ltb_lt; exact LT|].
      rewrite A1, X1 in D1. exact D1.
  Qed.

  Lemma data_completes_from ds : forall ex a, data_completes ex a ds = true -> a < ex -> completes_from ex a ds.
  Proof.
    induction ds as [|d r IH]; intros ex a D LT; [discriminate D|]. cbn [data_completes] in D.
    destruct (a + blen d =? ex) eqn:E.
    - destruct r; [|discriminate D]. apply N.eqb_eq in E. split.
      + cbn [concat]. rewrite app_nil_r. exact E.
      + intros pre suf Eq Ns. destruct pre as [|x pre]; [cbn [concat]; rewrite blen_nil; lia|].
        cbn [app] in Eq. injection Eq as _ Eq. destruct pre; [cbn in Eq; subst suf; contradiction | discriminate Eq].
    - apply andb_true_iff in D as [LT' D']. apply N.ltb_lt in LT'. destruct (IH ex (a + blen d) D' LT') as [T P]. split.
      + rewrite blen_concat_cons. lia.
      + intros pre suf Eq Ns. destruct pre as [|x pre]; [cbn [concat]; rewrite blen_nil; lia|].
        cbn [app] in Eq. injection Eq as <- Eq. rewrite blen_concat_cons. specialize (P pre suf Eq Ns). lia.
  Qed.

  Lemma plain_fold ds : forall c,
    data_completes (chunk_expected c) (chunk_actual c) ds = true ->
    chunk_fold call5 false ds c =
    end_chunk call5 false (set_array c (arr_type c) (more_chunks c) (built c) (arr_total c) (chunk_expected c) (chunk_expected c)
                                     (utf8_rem c) (arr_validator c)).
  Proof.
    induction ds as [|d r IH]; intros c D; [discriminate D|]. cbn [chunk_fold data_completes] in *.
    unfold chunk_data at 1. destruct (chunk_actual c + blen d =? chunk_expected c) eqn:E.
    - destruct r; [|discriminate D]. apply N.eqb_eq in E. rewrite E, N.ltb_irrefl.
      destruct (end_chunk _ _ _); reflexivity.
    - apply andb_true_iff in D as [LT D]. apply N.ltb_lt in LT.
      destruct (chunk_expected c <? chunk_actual c + blen d) eqn:X; [lia|].
      rewrite IH by (rsimpl; exact D). reflexivity.
  Qed.

  (* the data events of one chunk, in closed form *)
  Lemma chunk_fold_closed sr c ex ds :
    chunk_expected c = ex -> chunk_actual c = 0 -> (sr = true -> utf8_rem c = [] /\ arr_validator c = VUtf8 /\ 0 < ex) ->
    data_completes ex 0 ds = true ->
    chunk_fold call5 sr ds c =
    if (if sr then utf8_valid (concat ds) else true)
    then end_chunk call5 sr (set_array c (arr_type c) (more_chunks c) (if sr then built c ++ concat ds else built c) (arr_total c) ex ex
                                       (utf8_rem c) (arr_validator c))
    else None.
  Proof.
    intros X A H D. destruct sr.
    - destruct (H eq_refl) as [H1 [H2 H3]].
      rewrite (string_chunk_fold call5 c ex ds X A H1 H2 H3 (data_completes_from _ _ _ D H3)). rewrite H1, H2. reflexivity.
    - rewrite plain_fold by (rewrite X, A; exact D). rewrite X. reflexivity.
  Qed.

  (* ---- the chunks ---- *)
  (* the array rule is in force: type, bytes announced so far *)
  Definition AS (sr : bool) (t : arrty) (total : N) (c : rctx) : Prop :=
    e_rule (cur c) = arule sr /\ arr_type c = t /\ arr_total c = total /\ sr = is_stringlike_validated t /\
    (sr = true -> utf8_rem c = [] /\ arr_validator c = VUtf8).
  (* what the array's events leave untouched *)
  Definition Fr (c c' : rctx) : Prop :=
    stack c' = stack c /\ depth c' = depth c /\ objects c' = objects c /\ rectypes c' = rectypes c /\ regs c' = regs c /\
    e_dtype (cur c') = e_dtype (cur c).
  Lemma Fr_refl c : Fr c c. Proof. repeat split. Qed.
  Lemma Fr_trans a b c : Fr a b -> Fr b c -> Fr a c.
  Proof. unfold Fr. intros H1 H2. decompose [and] H1. decompose [and] H2. repeat split; congruence. Qed.

  Lemma rule_chunk_zero sr more c :
    rule_chunk cfg call5 sr 0 more c = if more then Some c else end_container_like call5 true c.
  Proof. unfold rule_chunk, try_end_array. cbn [N.eqb]. destruct more; [reflexivity|]. destruct (end_container_like _ _ _); reflexivity. Qed.

  Lemma rule_chunk_nonzero sr t c n more :
    n <> 0 -> arr_type c = t -> sr = is_stringlike_validated t ->
    rule_chunk cfg call5 sr n more c =
    match chunk_byte_count t n with
    | None => None
    | Some ex => if length_ok cfg ((arr_total c + ex) mod two64)
                 then Some (set_rule (set_array c t more (built c) ((arr_total c + ex) mod two64) ex 0 (utf8_rem c) (arr_validator c)) (crule sr))
                 else None
    end.
  Proof.
    intros N0 T S. unfold rule_chunk. apply N.eqb_neq in N0. rewrite N0. unfold chunk_byte_count. rewrite T, <- S.
    destruct sr; cbv zeta; unfold length_ok.
    - destruct ((max_array_size_bytes cfg <? (arr_total c + n) mod two64) && (0 <? max_array_size_bytes cfg)); reflexivity.
    - destruct (array_bits t) as [bits|]; [|reflexivity].
      destruct ((max_array_size_bytes cfg <? (arr_total c + elem_byte_count bits n) mod two64) && (0 <? max_array_size_bytes cfg)); reflexivity.
  Qed.

  Lemma steps_comments c cm : e_rule (cur c) = RArray -> forall rest, steps cfg c (map comment_event cm ++ rest) = steps cfg c rest.
  Proof.
    intros R. induction cm as [|[m t] cm IH]; intro rest; [reflexivity|]. cbn [map app]. change (comment_event (m, t)) with (EComment m t). cbn [steps].
    rewrite (rstep_array_comment c m t R). apply IH.
  Qed.

  (* a well-formed list of chunks runs to the end of the array *)
  Lemma array_run t sr chs : forall c total rest,
    AS sr t total c -> chunks_ok cfg t total chs = true ->
    exists cA, Fr c cA /\
      steps cfg c (flat_map chunk_events chs ++ rest) =
      match end_container_like call5 true cA with Some c' => steps cfg c' rest | None => None end.
  Proof.
    induction chs as [|[[[cm n] more] ds] r IH]; intros c total rest A W; [discriminate W|].
    destruct A as [R [T [Tt [S U]]]]. cbn [chunks_ok] in W. rewrite <- S in W.
    apply andb_true_iff in W as [Wc W]. cbn [flat_map chunk_events]. rewrite <- !app_assoc.
    assert (steps cfg c (map comment_event cm ++ (EArrayChunk n more :: map EArrayData ds) ++ flat_map chunk_events r ++ rest) =
            steps cfg c ((EArrayChunk n more :: map EArrayData ds) ++ flat_map chunk_events r ++ rest)) as ->.
    { destruct sr; [destruct cm; [reflexivity | discriminate Wc] | apply steps_comments; exact R]. }
    cbn [app steps]. rewrite (rstep_chunk sr c n more R).
    destruct (n =? 0) eqn:N0.
    - apply N.eqb_eq in N0. subst n. rewrite rule_chunk_zero. destruct ds; [|discriminate W]. cbn [map app].
      destruct more.
      + apply (IH c total rest); [exact (conj R (conj T (conj Tt (conj S U)))) | exact W].
      + destruct r; [|discriminate W]. exists c. split; [apply Fr_refl|]. cbn [flat_map app].
        destruct (end_container_like call5 true c); reflexivity.
    - apply N.eqb_neq in N0. rewrite (rule_chunk_nonzero sr t c n more N0 T S).
      destruct (chunk_byte_count t n) as [ex|] eqn:CB; [|discriminate W].
      apply andb_true_iff in W as [W Wt]. apply andb_true_iff in W as [W Wd]. apply andb_true_iff in W as [Wl Wc2].
      rewrite Tt. rewrite Wl.
      cbv beta iota. match goal with |- context [steps cfg ?cc (map EArrayData ds ++ _)] => set (c1 := cc) end.
      assert (sr = true -> 0 < ex) as EX.
      { intro X. unfold chunk_byte_count in CB. rewrite <- S, X in CB. inv_some. lia. }
      rewrite (data_run sr ds c1 _ eq_refl) by exact Wc2.
      rewrite (chunk_fold_closed sr c1 ex ds eq_refl eq_refl) by (first [exact Wc2 | intro X; destruct (U X) as [U1 U2]; repeat split; [exact U1 | exact U2 | exact (EX X)]]).
      rewrite Wd. rewrite end_chunk_spec by (intro X; exact (proj1 (U X))).
      unfold c1. rsimpl. destruct more.
      + match goal with |- context [steps cfg ?c3 (flat_map chunk_events r ++ rest)] =>
          destruct (IH c3 ((total + ex) mod two64) rest) as [cA [F E]] end; [|exact Wt|].
        { unfold AS. split; [reflexivity|]. split; [reflexivity|]. split; [reflexivity|]. split; [exact S|]. intro X. exact (U X). }
        exists cA. split; [|exact E]. refine (Fr_trans _ _ _ _ F). unfold Fr. rsimpl. repeat split; reflexivity.
      + destruct r; [|discriminate Wt]. eexists. split; [|cbn [flat_map app]; reflexivity].
        unfold Fr. rsimpl. repeat split; reflexivity.
  Qed.

  (* an accepted run from the array rule begins with a well-formed list of chunks *)
  Lemma array_parse t sr n : forall es c cf total,
    (length es <= n)%nat -> steps cfg c es = Some cf -> e_rule (cur cf) = RTerminal -> AS sr t total c ->
    exists chs rest, es = flat_map chunk_events chs ++ rest /\ chunks_ok cfg t total chs = true /\ (length rest < length es)%nat.
  Proof.
    induction n as [|n IH]; intros es c cf total L St Tm A; pose proof A as [R [T [Tt [S U]]]].
    { destruct es; [|cbn in L; lia]. cbn in St. injection St as <-. rewrite R in Tm. destruct sr; discriminate Tm. }
    destruct es as [|e es'].
    { cbn in St. injection St as <-. rewrite R in Tm. destruct sr; discriminate Tm. }
    cbn [length] in L. pose proof St as St0. cbn [steps] in St. destruct (rstep cfg c e) as [[c1 o]|] eqn:RS; [|discriminate].
    destruct (arule_only _ _ _ _ _ R RS) as [[n0 [more ->]] | [-> [m [tx ->]]]].
    2:{ (* a comment *)
      rewrite (rstep_array_comment c m tx R) in RS. injection RS as <- _.
      destruct (IH es' c cf total) as [chs [rest [E [W Lr]]]]; [lia | exact St | exact Tm | exact A |].
      destruct chs as [|[[[cm n1] more1] ds1] r]; [discriminate W|].
      exists ((((m, tx) :: cm, n1, more1, ds1)) :: r), rest. cbn [flat_map chunk_events map app comment_event fst snd length] in *.
      split; [rewrite E; reflexivity|]. split; [|lia]. cbn [chunks_ok] in *. rewrite <- S in *. exact W. }
    rewrite (rstep_chunk sr c n0 more R) in RS.
    destruct (n0 =? 0) eqn:N0.
    - apply N.eqb_eq in N0. subst n0. rewrite rule_chunk_zero in RS. destruct more.
      + injection RS as <- _.
        destruct (IH es' c cf total) as [chs [rest [E [W Lr]]]]; [lia | exact St | exact Tm | exact A |].
        exists (([], 0, true, []) :: chs), rest. cbn [flat_map chunk_events map app length].
        split; [rewrite E; reflexivity|]. split; [|lia]. cbn [chunks_ok N.eqb]. rewrite W. destruct (is_stringlike_validated t); reflexivity.
      + exists [([], 0, false, [])], es'. cbn [flat_map chunk_events map app length chunks_ok N.eqb].
        split; [reflexivity|]. split; [destruct (is_stringlike_validated t); reflexivity | lia].
    - apply N.eqb_neq in N0. rewrite (rule_chunk_nonzero sr t c n0 more N0 T S) in RS.
      destruct (chunk_byte_count t n0) as [ex|] eqn:CB; [|discriminate RS]. rewrite Tt in RS.
      destruct (length_ok cfg ((total + ex) mod two64)) eqn:Wl; [|discriminate RS].
      injection RS as <- _.
      match type of St with steps cfg ?cc _ = _ => set (c1 := cc) in * end.
      destruct (data_parse sr (length es') es' c1 cf (le_n _) St Tm eq_refl) as [ds [rest1 [E1 [D1 L1]]]].
      change (chunk_expected c1) with ex in D1. change (chunk_actual c1) with 0 in D1.
      assert (sr = true -> 0 < ex) as EX.
      { intro X. unfold chunk_byte_count in CB. rewrite <- S, X in CB. inv_some. lia. }
      rewrite E1 in St. rewrite (data_run sr ds c1 _ eq_refl) in St by exact D1.
      rewrite (chunk_fold_closed sr c1 ex ds eq_refl eq_refl) in St
        by (first [exact D1 | intro X; destruct (U X) as [U1 U2]; repeat split; [exact U1 | exact U2 | exact (EX X)]]).
      destruct (if sr then utf8_valid (concat ds) else true) eqn:Wd; [|discriminate St].
      rewrite end_chunk_spec in St by (intro X; exact (proj1 (U X))).
      unfold c1 in St. rsimpl. destruct more.
      + match type of St with steps cfg ?c3 rest1 = _ =>
          destruct (IH rest1 c3 cf ((total + ex) mod two64)) as [chs [rest [E [W Lr]]]] end; [lia | exact St | exact Tm | |].
        { unfold AS. split; [reflexivity|]. split; [reflexivity|]. split; [reflexivity|]. split; [exact S|]. intro X. exact (U X). }
        exists (([], n0, true, ds) :: chs), rest. cbn [flat_map chunk_events map app length].
        split; [rewrite E1, E, <- app_assoc; reflexivity|]. split; [|lia].
        cbn [chunks_ok]. apply N.eqb_neq in N0. rewrite N0, CB, Wl, D1, W. rewrite <- S, Wd. destruct sr; reflexivity.
      + exists [([], n0, false, ds)], rest1. cbn [flat_map chunk_events map app length]. rewrite app_nil_r.
        split; [rewrite E1; reflexivity|]. split; [|lia].
        cbn [chunks_ok]. apply N.eqb_neq in N0. rewrite N0, CB, Wl, D1. rewrite <- S, Wd. destruct sr; reflexivity.
  Qed.

  (* ---- the end of the array: the entry below takes the value ---- *)
  Lemma end_like_plain c p st :
    stack c = p :: st -> is_value_rule (e_rule p) = true ->
    end_container_like call5 true c = Some (set_cur (set_stack c st) (with_rule p (next_rule (e_rule p)))).
  Proof.
    intros S V. unfold end_container_like. rewrite (unstack_cons _ _ _ S).
    rewrite (call_rule_cell 4 cfg (set_cur (set_stack c st) p) (e_rule p)) by reflexivity.
    rewrite (value_cell_exec_plain cfg 4 (e_rule p) MChildContainerEnded _ _ V) by (first [reflexivity | tauto]). reflexivity.
  Qed.

  (* ---- the begin event ---- *)
  Definition abegin_state (t : arrty) (dt : N) (c0 : rctx) : rctx :=
    if is_stringlike_validated t then begin_array t RString dt VUtf8 c0 else begin_array t RArray dt VNothing c0.

  Lemma abegin_plan b :
    is_array_begin b = true ->
    ev_plan cfg b = match chunked_type b with Some t => mkplan (Some true) MArrayBegin (array_args t 0 []) b | None => None end.
  Proof.
    destruct b; try discriminate; intros _; cbn [ev_plan chunked_type];
      first [destruct (array_api_ok _); reflexivity | destruct (utf8_valid _ && media_type_valid _); reflexivity
            | destruct (custom_api_ok _ && custom_type_ok _); reflexivity].
  Qed.

  Lemma abegin_cells :
    forallb (fun r => prims_eqb (dispatch r MArrayBegin)
                        (match pos_of_rule r with
                         | PSrc => [PAssertArrayType MaskNonNull; PBeginArrayAnyType]
                         | PDesc => [PAssertArrayType MaskAny; PBeginArrayAnyType]
                         | _ => [PBeginArrayAnyType]
                         end)) value_rules = true.
  Proof. vm_compute. reflexivity. Qed.

  Lemma abegin_exec call r t c0 :
    is_value_rule r = true ->
    exec_prims cfg call r MArrayBegin (array_args t 0 []) (dispatch r MArrayBegin) c0 =
    if arr_guard (pos_of_rule r) t then match array_dtype t with Some dt => Some (abegin_state t dt c0) | None => None end else None.
  Proof.
    intro V. apply in_value_rules in V. pose proof abegin_cells as T. rewrite forallb_forall in T. specialize (T r V).
    apply prims_eqb_eq in T. rewrite T. unfold abegin_state.
    destruct (pos_of_rule r); cbn [exec_prims exec_prim arr_guard array_args a_arrty mask_value]; unfold begin_array_any;
      try (destruct (assert_array_type t _); [|reflexivity]);
      (destruct (array_dtype t); [|reflexivity]); destruct (is_stringlike_validated t); reflexivity.
  Qed.

  Lemma abegin_AS t dt c0 : AS (is_stringlike_validated t) t 0 (abegin_state t dt c0).
  Proof.
    unfold AS, abegin_state. destruct (is_stringlike_validated t); (do 4 (split; [reflexivity|])); intro X; [split; reflexivity | discriminate X].
  Qed.

  Lemma chunk_usage chs : object_usage (flat_map chunk_events chs) = 0 /\ marker_usage (flat_map chunk_events chs) = 0.
  Proof.
    induction chs as [|[[[cm n] more] ds] r [I1 I2]]; [split; reflexivity|]. cbn [flat_map chunk_events].
    rewrite !object_usage_app, !marker_usage_app, object_usage_cons, marker_usage_cons, I1, I2. cbn [counts_object is_marker].
    assert (object_usage (map comment_event cm) = 0 /\ marker_usage (map comment_event cm) = 0) as [-> ->]
      by (clear; induction cm as [|x cm [J1 J2]]; [split; reflexivity | cbn [map]; rewrite object_usage_cons, marker_usage_cons, J1, J2; split; reflexivity]).
    assert (object_usage (map EArrayData ds) = 0 /\ marker_usage (map EArrayData ds) = 0) as [-> ->]
      by (clear; induction ds as [|x ds [J1 J2]]; [split; reflexivity | cbn [map]; rewrite object_usage_cons, marker_usage_cons, J1, J2; split; reflexivity]).
    split; reflexivity.
  Qed.

  (* a well-formed chunked array where a value may start *)
  Lemma chunked_steps c b chs :
    is_value_rule (e_rule (cur c)) = true -> chunked_ok cfg (pos_of_rule (e_rule (cur c))) b chs = true ->
    room (cur c) -> objects c + 1 <= max_object_count cfg ->
    exists c', steps cfg c (b :: flat_map chunk_events chs) = Some c' /\
               core c' = (adv_entry (cur c), stack c, depth c, objects c + 1, rectypes c) /\ regs c' = regs c.
  Proof.
    intros V W Rm O. unfold chunked_ok in W. destruct (chunked_type b) as [t|] eqn:CT; [|discriminate W].
    apply andb_true_iff in W as [W Wc]. apply andb_true_iff in W as [Wd Wg].
    destruct (array_dtype t) as [dt|] eqn:AD; [|discriminate Wd].
    assert (is_array_begin b = true) as AB by (destruct b; try discriminate CT; reflexivity).
    cbn [steps]. rewrite rstep_plan, (abegin_plan b AB), CT. unfold mkplan, plan_step. cbn [p_nno p_meth p_args p_out].
    rewrite (nno_ok cfg c Rm O). rewrite (call_current_cell cfg _ _ (nno_state c) (e_rule (cur c))) by reflexivity.
    rewrite (abegin_exec _ _ t _ V), Wg, AD.
    destruct (array_run t _ chs (abegin_state t dt (nno_state c)) 0 [] (abegin_AS t dt _) Wc) as [cA [F E]].
    rewrite app_nil_r in E. rewrite E. destruct F as [F1 [F2 [F3 [F4 [F5 F6]]]]].
    assert (stack (abegin_state t dt (nno_state c)) = bump (cur c) :: stack c) as S1 by (unfold abegin_state; destruct (is_stringlike_validated t); reflexivity).
    rewrite (end_like_plain cA (bump (cur c)) (stack c)) by (first [rewrite F1; exact S1 | exact V]).
    eexists. split; [reflexivity|]. unfold core. rsimpl.
    assert (forall x, depth (abegin_state t dt x) = depth x /\ objects (abegin_state t dt x) = objects x /\
                      rectypes (abegin_state t dt x) = rectypes x /\ regs (abegin_state t dt x) = regs x) as Q
      by (intro x; unfold abegin_state; destruct (is_stringlike_validated t); repeat split; reflexivity).
    destruct (Q (nno_state c)) as [Q1 [Q2 [Q3 Q4]]]. split; [|unfold regs in *; rsimpl; rewrite F5; exact Q4].
    rewrite F2, F3, F4, Q1, Q2, Q3. reflexivity.
  Qed.

  (* ... and under a marker: [me] is the marker's entry, [p] the entry that expects the value *)
  Lemma end_like_marked c me id p st :
    stack c = me :: p :: st -> is_marker_entry me id -> is_value_rule (e_rule p) = true ->
    end_container_like call5 true c =
    match mark_object cfg (e_dtype (cur c)) (set_markers (set_cur (set_stack c (p :: st)) me) id (marked c) (fwd c) (refcount c)) with
    | Some c4 => Some (set_cur (set_stack c4 st) (with_rule p (next_rule (e_rule p))))
    | None => None
    end.
  Proof.
    intros S [M1 [M2 M3]] V. destruct marker_container_cells as [_ [_ [_ [_ [_ K]]]]].
    unfold end_container_like, unstack_rule. rewrite S. rsimpl. rewrite M1, call_rule_S, K.
    cbn [exec_prims exec_prim with_dtype a_dtype]. rsimpl. unfold entry_marker_id. rewrite M3.
    destruct (mark_object cfg (e_dtype (cur c)) _) as [c4|] eqn:MO; [|reflexivity].
    assert (stack c4 = p :: st /\ forall e, set_cur c4 e = set_cur c4 e) as [S4 _].
    { unfold mark_object in MO. repeat match type of MO with (if ?b then _ else _) = _ => destruct b; try discriminate MO
                                       | match ?x with _ => _ end = _ => destruct x; try discriminate MO end; inv_some; split; reflexivity. }
    unfold unstack_rule. rewrite S4.
    match goal with |- context [call_rule 4 cfg ?rr MChildContainerEnded ?aa ?cc] =>
      change (call_rule 4 cfg rr MChildContainerEnded aa cc) with (call_rule 4 cfg (e_rule (cur cc)) MChildContainerEnded aa cc);
      rewrite (call_rule_cell 3 cfg cc (e_rule p) MChildContainerEnded aa) by reflexivity;
      rewrite (value_cell_exec_plain cfg 3 (e_rule p) MChildContainerEnded aa cc V) by (first [reflexivity | tauto])
    end.
    reflexivity.
  Qed.

  Lemma abegin_marker_cell : dispatch RMarkedObjectAnyType MArrayBegin = [PAssertArrayType MaskMarkable; PForwardParent MArrayBegin].
  Proof. reflexivity. Qed.

  Lemma abegin_state_fields t dt x :
    stack (abegin_state t dt x) = cur x :: stack x /\ depth (abegin_state t dt x) = depth x /\ objects (abegin_state t dt x) = objects x /\
    rectypes (abegin_state t dt x) = rectypes x /\ regs (abegin_state t dt x) = regs x /\ e_dtype (cur (abegin_state t dt x)) = dt.
  Proof. unfold abegin_state; destruct (is_stringlike_validated t); repeat split; reflexivity. Qed.

  (* a well-formed chunked array right after a marker *)
  Lemma chunked_steps_marked c b chs id p st mk fw :
    is_marker_entry (cur c) id -> stack c = p :: st -> is_value_rule (e_rule p) = true ->
    chunked_ok cfg (pos_of_rule (e_rule p)) b chs = true -> markable (VChunked b chs) = true ->
    objects c + 1 <= max_object_count cfg ->
    Reg c mk fw -> id_mem id mk = false -> refcount c + 1 <= max_local_reference_count cfg ->
    exists c', steps cfg c (b :: flat_map chunk_events chs) = Some c' /\
               core c' = (with_rule p (next_rule (e_rule p)), st, depth c, objects c + 1, rectypes c) /\
               Reg c' (id :: mk) (id_remove id fw) /\ refcount c' = refcount c + 1.
  Proof.
    intros ME S V W Mk O Rg Nm Rc. pose proof ME as [M1 [M2 M3]].
    unfold chunked_ok in W. cbn [markable] in Mk. destruct (chunked_type b) as [t|] eqn:CT; [|discriminate W].
    apply andb_true_iff in W as [W Wc]. apply andb_true_iff in W as [Wd Wg].
    destruct (array_dtype t) as [dt|] eqn:AD; [|discriminate Wd].
    assert (is_array_begin b = true) as AB by (destruct b; try discriminate CT; reflexivity).
    cbn [steps]. rewrite rstep_plan, (abegin_plan b AB), CT. unfold mkplan, plan_step. cbn [p_nno p_meth p_args p_out].
    rewrite (nno_ok cfg c); [| unfold room; rewrite M2; exact I | exact O].
    rewrite (call_current_cell cfg _ _ (nno_state c) RMarkedObjectAnyType) by (cbn; exact M1).
    rewrite abegin_marker_cell. cbn [exec_prims exec_prim array_args a_arrty mask_value]. rewrite Mk.
    change (stack (nno_state c)) with (stack c). rewrite S, call_rule_S, (abegin_exec _ _ t _ V), Wg, AD.
    destruct (array_run t _ chs (abegin_state t dt (nno_state c)) 0 [] (abegin_AS t dt _) Wc) as [cA [F E]].
    rewrite app_nil_r in E. rewrite E. destruct F as [F1 [F2 [F3 [F4 [F5 F6]]]]].
    destruct (abegin_state_fields t dt (nno_state c)) as [Q0 [Q1 [Q2 [Q3 [Q4 Q5]]]]].
    rewrite (end_like_marked cA (bump (cur c)) id p st) by
      (first [rewrite F1, Q0; change (stack (nno_state c)) with (stack c); rewrite S; reflexivity | exact V | repeat split; assumption]).
    assert (N.land dt Allow_Any <> 0) as Dt.
    { apply markable_any. unfold assert_array_type in Mk. rewrite AD in Mk. apply negb_true_iff in Mk. apply N.eqb_neq in Mk. exact Mk. }
    assert (regs cA = regs c) as RG by (rewrite F5, Q4; reflexivity).
    unfold regs in RG. inversion RG as [[RG1 RG2 RG3]].
    match goal with |- context [mark_object cfg ?d ?c3] =>
      destruct (mark_object_ok cfg d c3 mk fw) as [mkl [fwl [EM RL]]] end.
    { unfold Reg. rsimpl. rewrite RG1, RG2. exact Rg. } { rsimpl. exact Nm. } { rsimpl. rewrite RG3. exact Rc. } { rewrite F6, Q5. exact Dt. }
    rewrite EM. eexists. split; [reflexivity|]. unfold core. rsimpl. split; [|split; [exact RL | rewrite RG3; reflexivity]].
    rewrite F2, F3, F4, Q1, Q2, Q3. reflexivity.
  Qed.
End ArrayRun.

(* what a value does to the context, where a value may start ... *)
Definition val_complete (cfg : rcfg) (v : val) : Prop :=
  forall c nnull mk fw mk' fw',
    wf_val cfg (rectypes c) nnull v = true ->
    is_value_rule (e_rule (cur c)) = true ->
    nnull = pos_of_rule (e_rule (cur c)) ->
    (e_rule (cur c) = RTopLevel -> top_ok v = true) ->
    room (cur c) ->
    objects c + object_usage (flatten v) <= max_object_count cfg ->
    depth c + height v <= max_container_depth cfg ->
    Reg c mk fw -> reg_val v (mk, fw) = Some (mk', fw') ->
    refcount c + marker_usage (flatten v) <= max_local_reference_count cfg ->
    exists c', steps cfg c (flatten v) = Some c' /\
               core c' = (adv_entry (cur c), stack c, depth c, objects c + object_usage (flatten v), rectypes c) /\
               Reg c' mk' fw' /\ refcount c' = refcount c + marker_usage (flatten v).

(* ... and right after a marker (the marker entry is in force, the parent entry [p] expects the value) *)
Definition marked_complete (cfg : rcfg) (v : val) : Prop :=
  forall c id p st nnull mk fw mk' fw',
    markable v = true -> wf_val cfg (rectypes c) nnull v = true ->
    is_marker_entry (cur c) id -> stack c = p :: st -> is_value_rule (e_rule p) = true -> marker_id c = id ->
    nnull = pos_of_rule (e_rule p) ->
    objects c + object_usage (flatten v) <= max_object_count cfg ->
    depth c + height v <= max_container_depth cfg ->
    Reg c mk fw -> reg_val v (mk, fw) = Some (mk', fw') -> id_mem id mk' = false ->
    refcount c + marker_usage (flatten v) + 1 <= max_local_reference_count cfg ->
    exists c', steps cfg c (flatten v) = Some c' /\
               core c' = (with_rule p (next_rule (e_rule p)), st, depth c, objects c + object_usage (flatten v), rectypes c) /\
               Reg c' (id :: mk') (id_remove id fw') /\ refcount c' = refcount c + marker_usage (flatten v) + 1.

(* the context after some children of a container: everything as before except the counters *)
Definition same_upto (c c' : rctx) (nobj k : N) : Prop :=
  stack c' = stack c /\ depth c' = depth c /\ objects c' = objects c + nobj /\ rectypes c' = rectypes c /\
  e_rule (cur c') = e_rule (cur c) /\ e_dtype (cur c') = e_dtype (cur c) /\ e_count (cur c') = e_count (cur c) + k /\
  e_expected (cur c') = e_expected (cur c) /\ e_keys (cur c') = e_keys (cur c).

Lemma same_upto_refl c : same_upto c c 0 0.
Proof. unfold same_upto. repeat split; lia. Qed.
Lemma same_upto_trans c1 c2 c3 n1 k1 n2 k2 :
  same_upto c1 c2 n1 k1 -> same_upto c2 c3 n2 k2 -> same_upto c1 c3 (n1 + n2) (k1 + k2).
Proof. unfold same_upto. intros H1 H2. decompose [and] H1. decompose [and] H2. repeat split; try congruence; lia. Qed.

(* children of a list / record: the rule stays *)
Lemma items_complete cfg items :
  Forall (val_complete cfg) items ->
  forall c mk fw mk' fw', is_value_rule (e_rule (cur c)) = true -> next_rule (e_rule (cur c)) = e_rule (cur c) ->
    pos_of_rule (e_rule (cur c)) = PPlain ->
    forallb (wf_val cfg (rectypes c) PPlain) items = true ->
    match e_expected (cur c) with Some x => e_count (cur c) + N.of_nat (length items) <= x | None => True end ->
    objects c + object_usage (flat_map flatten items) <= max_object_count cfg ->
    depth c + list_max (map height items) <= max_container_depth cfg ->
    Reg c mk fw -> reg_list items (mk, fw) = Some (mk', fw') ->
    refcount c + marker_usage (flat_map flatten items) <= max_local_reference_count cfg ->
    exists c', steps cfg c (flat_map flatten items) = Some c' /\
               same_upto c c' (object_usage (flat_map flatten items)) (N.of_nat (length items)) /\
               Reg c' mk' fw' /\ refcount c' = refcount c + marker_usage (flat_map flatten items).
Proof.
  induction 1 as [|v items Hv Hitems IH]; intros c mk fw mk' fw' V Nx NA W Rm O D Rg Rl Rc.
  - cbn in Rl. inv_some. exists c. split; [reflexivity|]. split; [apply same_upto_refl|]. split; [exact Rg | cbn; lia].
  - cbn [forallb flat_map map list_max fold_right length reg_list] in *. apply andb_true_iff in W as [W1 W2].
    rewrite object_usage_app in O. rewrite marker_usage_app in Rc.
    destruct (reg_val v (mk, fw)) as [[mk1 fw1]|] eqn:R1; [|discriminate].
    assert (e_rule (cur c) <> RTopLevel) as NT by (intro X; rewrite X in Nx; discriminate Nx).
    destruct (Hv c PPlain mk fw mk1 fw1 W1 V) as [c1 [S1 [V1 [Rg1 Rc1]]]]; try assumption.
    { symmetry. exact NA. } { intro X. contradiction. }
    { unfold room. destruct (e_expected (cur c)); [lia | exact I]. }
    { lia. } { fold (list_max (map height items)) in D. lia. } { lia. }
    unfold core in V1. inversion V1 as [[E1 E2 E3 E4 E5]]. clear V1.
    assert (same_upto c c1 (object_usage (flatten v)) 1) as U1.
    { unfold same_upto. rewrite E1. unfold adv_entry. cbn. rewrite Nx. repeat split; auto. }
    destruct (IH c1 mk1 fw1 mk' fw') as [c2 [S2 [U2 [Rg2 Rc2]]]]; try assumption.
    + rewrite E1. cbn. rewrite Nx. exact V.
    + rewrite E1. cbn. rewrite !Nx. reflexivity.
    + rewrite E1. cbn. rewrite Nx. exact NA.
    + rewrite E5. exact W2.
    + rewrite E1. cbn. destruct (e_expected (cur c)); [lia | exact I].
    + rewrite E4. lia.
    + rewrite E3. fold (list_max (map height items)) in D. lia.
    + rewrite Rc1. lia.
    + exists c2. split; [rewrite steps_app, S1; exact S2|].
      rewrite object_usage_app, marker_usage_app. replace (N.of_nat (S (length items))) with (1 + N.of_nat (length items)) by lia.
      split; [eapply same_upto_trans; eauto|]. split; [exact Rg2 | rewrite Rc2, Rc1; lia].
Qed.

(* entries of a map *)
Definition map_upto (c c' : rctx) (nobj : N) : Prop :=
  stack c' = stack c /\ depth c' = depth c /\ objects c' = objects c + nobj /\ rectypes c' = rectypes c /\
  e_rule (cur c') = RMapKey /\ e_dtype (cur c') = e_dtype (cur c) /\ e_expected (cur c') = e_expected (cur c).

Definition entry_events (en : list trivia * event * val) : list event :=
  let '(tv, k, v) := en in map trivia_event tv ++ k :: flatten v.

Lemma nkey_eqb_sym a b : nkey_eqb a b = nkey_eqb b a.
Proof.
  destruct (nkey_eqb a b) eqn:E1, (nkey_eqb b a) eqn:E2; try reflexivity.
  - apply nkey_eqb_eq in E1. subst. assert (nkey_eqb b b = true) by (apply nkey_eqb_eq; reflexivity). congruence.
  - apply nkey_eqb_eq in E2. subst. assert (nkey_eqb a a = true) by (apply nkey_eqb_eq; reflexivity). congruence.
Qed.

Lemma key_ok_key_of cfg k : key_ok cfg k = true -> exists rk, key_of k = Some rk.
Proof. unfold key_ok. destruct (key_of k); [eauto | discriminate]. Qed.

Lemma key_event_object k rk : key_of k = Some rk -> counts_object k = true /\ is_marker k = false.
Proof. destruct k; cbn; try discriminate; auto. Qed.

Lemma entries_complete cfg entries :
  Forall (fun en => val_complete cfg (snd en)) entries ->
  forall c mk fw mk' fw', e_rule (cur c) = RMapKey -> e_expected (cur c) = None ->
    forallb (fun en => let '(_, k, v) := en in key_ok cfg k && wf_val cfg (rectypes c) PPlain v) entries = true ->
    nkeys_distinct (map (fun en => let '(_, k, _) := en in nkey_of k) entries) = true ->
    (forall tv k v nk, In (tv, k, v) entries -> nkey_of k = Some nk -> existsb (nkey_eqb nk) (e_keys (cur c)) = false) ->
    objects c + object_usage (flat_map entry_events entries) <= max_object_count cfg ->
    depth c + list_max (map (fun en => let '(_, _, v) := en in height v) entries) <= max_container_depth cfg ->
    Reg c mk fw -> reg_entries entries (mk, fw) = Some (mk', fw') ->
    refcount c + marker_usage (flat_map entry_events entries) <= max_local_reference_count cfg ->
    exists c', steps cfg c (flat_map entry_events entries) = Some c' /\
               map_upto c c' (object_usage (flat_map entry_events entries)) /\
               Reg c' mk' fw' /\ refcount c' = refcount c + marker_usage (flat_map entry_events entries).
Proof.
  induction 1 as [|[[tv k] v] entries Hv Hent IH]; intros c mk fw mk' fw' R X W Dk Fr O D Rg Rl Rc.
  - cbn in Rl. inv_some. exists c. split; [reflexivity|]. split; [unfold map_upto; cbn; repeat split; auto; lia|]. split; [exact Rg | cbn; lia].
  - unfold reg_entries in Rl.
    cbn [forallb flat_map map list_max fold_right entry_events nkeys_distinct snd reg_list] in *.
    apply andb_true_iff in W as [W1 W2]. apply andb_true_iff in W1 as [Wk Wv].
    destruct (key_ok_key_of _ _ Wk) as [rk K]. destruct (key_event_object _ _ K) as [Ko Km].
    assert (nkey_of k = Some (norm_key rk)) as NK by (unfold nkey_of; rewrite K; reflexivity).
    rewrite NK in Dk. apply andb_true_iff in Dk as [Dk1 Dk2]. apply negb_true_iff in Dk1.
    destruct (reg_val v (mk, fw)) as [[mk1 fw1]|] eqn:R1; [|discriminate].
    rewrite !object_usage_app, object_usage_trivia, object_usage_cons, Ko in O.
    rewrite !marker_usage_app, marker_usage_trivia, marker_usage_cons, Km in Rc.
    (* trivia *)
    rewrite <- app_assoc, steps_app, steps_trivia by (rewrite R; reflexivity).
    (* key *)
    destruct key_cells as [KM _].
    destruct (step_key_gen cfg c k rk RMapKey (Some RMapValue) R KM Wk K) as [c1 [S1 V1]].
    { eapply Fr; [left; reflexivity | exact NK]. } { unfold room. rewrite X. exact I. } { lia. }
    cbn [app steps]. rewrite S1. apply view_core in V1 as [V1 G1]. unfold core in V1. inversion V1 as [[E1 E2 E3 E4 E5]]. clear V1.
    unfold regs in G1. inversion G1 as [[G11 G12 G13]].
    (* value *)
    destruct (Hv c1 PPlain mk fw mk1 fw1) as [c2 [S2 [V2 [Rg2 Rc2]]]].
    { rewrite E5. exact Wv. } { rewrite E1. reflexivity. } { rewrite E1. reflexivity. } { rewrite E1. cbn. discriminate. }
    { unfold room. rewrite E1. cbn. rewrite X. exact I. } { rewrite E4. lia. }
    { rewrite E3. fold (list_max (map (fun en => let '(_, _, v) := en in height v) entries)) in D. lia. }
    { eapply Reg_regs; [exact G1 | exact Rg]. } { exact R1. } { rewrite G13. lia. }
    unfold core in V2. inversion V2 as [[F1 F2 F3 F4 F5]]. clear V2.
    (* the rest *)
    destruct (IH c2 mk1 fw1 mk' fw') as [c3 [S3 [U3 [Rg3 Rc3]]]]; try assumption.
    + rewrite F1, E1. reflexivity.
    + rewrite F1, E1. cbn. exact X.
    + rewrite F5, E5. exact W2.
    + intros tv' k' v' nk' I' NK'. rewrite F1, E1. cbn [adv_entry with_rule bump keyed e_keys existsb].
      apply orb_false_iff. split.
      * rewrite nkey_eqb_sym. clear -Dk1 I' NK'.
        induction entries as [|[[a b] d] entries IHe]; [destruct I'|]. cbn [map existsb] in Dk1.
        apply orb_false_iff in Dk1 as [D1 D2]. destruct I' as [I'|I'].
        -- inversion I'; subst. rewrite NK' in D1. exact D1.
        -- apply IHe; assumption.
      * eapply Fr; [right; exact I' | exact NK'].
    + rewrite F4, E4. lia.
    + rewrite F3, E3. fold (list_max (map (fun en => let '(_, _, v) := en in height v) entries)) in D. lia.
    + rewrite Rc2, G13. lia.
    + exists c3. split; [rewrite steps_app, S2; exact S3|].
      unfold map_upto in *. destruct U3 as [U1 [U2 [U3 [U4 [U6 [U7 U8]]]]]].
      rewrite object_usage_app, object_usage_trivia, object_usage_cons, object_usage_app, Ko.
      rewrite marker_usage_app, marker_usage_trivia, marker_usage_cons, marker_usage_app, Km.
      rewrite F1, E1 in U7, U8. cbn in U7, U8.
      split; [repeat split; try congruence; rewrite U3, F4, E4; lia|]. split; [exact Rg3 | rewrite Rc3, Rc2, G13; lia].
Qed.

Lemma leaf_counts cfg ps e : leaf_ok cfg ps e = true -> counts_object e = true /\ is_marker e = false.
Proof. destruct e; cbn; try discriminate; auto. Qed.

Lemma value_rule_trivia r : is_value_rule r = true -> trivia_rule r = true.
Proof. unfold trivia_rule. intros ->. reflexivity. Qed.

(* closing a container: trivia, then the end event *)
Lemma finish_container cfg c c2 close :
  is_value_rule (e_rule (cur c)) = true ->
  stack c2 = bump (cur c) :: stack c -> depth c2 = depth c + 1 ->
  closable (e_rule (cur c2)) = true -> trivia_rule (e_rule (cur c2)) = true ->
  match e_expected (cur c2) with Some x => e_count (cur c2) = x | None => True end ->
  (e_dtype (cur c2) =? DT_RecordType) = false ->
  exists c3, steps cfg c2 (map trivia_event close ++ [EEnd]) = Some c3 /\
             core c3 = (adv_entry (cur c), stack c, depth c, objects c2, rectypes c2) /\ regs c3 = regs c2.
Proof.
  intros V S D Cl Tr X T. rewrite steps_app, steps_trivia by exact Tr.
  destruct (step_end cfg c2 (bump (cur c)) (stack c) (e_rule (cur c)) Cl S eq_refl V) as [c3 [S3 V3]]; try assumption; [lia|].
  exists c3. cbn [steps]. rewrite S3. split; [reflexivity|]. apply view_core in V3 as [V3 G3]. split; [|exact G3].
  rewrite V3. unfold adv_entry. repeat f_equal. lia.
Qed.

Lemma finish_marked cfg c2 me id p st close mk fw :
  stack c2 = me :: p :: st -> is_marker_entry me id -> is_value_rule (e_rule p) = true -> depth c2 <> 0 ->
  closable (e_rule (cur c2)) = true -> trivia_rule (e_rule (cur c2)) = true ->
  match e_expected (cur c2) with Some x => e_count (cur c2) = x | None => True end ->
  (e_dtype (cur c2) =? DT_RecordType) = false -> N.land (e_dtype (cur c2)) Allow_Any <> 0 ->
  Reg c2 mk fw -> id_mem id mk = false -> refcount c2 + 1 <= max_local_reference_count cfg ->
  exists c3, steps cfg c2 (map trivia_event close ++ [EEnd]) = Some c3 /\
             core c3 = (with_rule p (next_rule (e_rule p)), st, depth c2 - 1, objects c2, rectypes c2) /\
             Reg c3 (id :: mk) (id_remove id fw) /\ refcount c3 = refcount c2 + 1.
Proof.
  intros S M V D Cl Tr X T Dt Rg Nm Rc. rewrite steps_app, steps_trivia by exact Tr.
  destruct (step_end_marked cfg c2 me id p st (e_rule p) mk fw Cl S M eq_refl V D X T Dt Rg Nm Rc)
    as [c3 [S3 [H1 [H2 [H3 [H4 [H5 [H6 H7]]]]]]]].
  exists c3. cbn [steps]. rewrite S3. split; [reflexivity|]. unfold core. rewrite H1, H2, H3, H4, H5. auto.
Qed.

Lemma dtypes_not_rectype :
  (DT_List =? DT_RecordType) = false /\ (DT_Map =? DT_RecordType) = false /\ (DT_Edge =? DT_RecordType) = false /\
  (DT_Record =? DT_RecordType) = false.
Proof. vm_compute. repeat split; reflexivity. Qed.

(* A container in both positions: the begin event, the body, the closing trivia and the end event. *)
Lemma container_modes cfg v be rc dt exp body close hb :
  flatten v = be :: body ++ map trivia_event close ++ [EEnd] ->
  counts_object be = true -> is_marker be = false -> height v = 1 + hb -> markable v = true ->
  (dt =? DT_RecordType) = false -> N.land dt Allow_Any <> 0 ->
  (forall c nnull, wf_val cfg (rectypes c) nnull v = true -> is_value_rule (e_rule (cur c)) = true -> room (cur c) ->
     objects c + 1 <= max_object_count cfg -> depth c + 1 <= max_container_depth cfg ->
     exists c1, rstep cfg c be = Some (c1, [be]) /\
                view c1 = (mk_entry rc dt exp, bump (cur c) :: stack c, depth c + 1, objects c + 1, rectypes c, regs c)) ->
  (forall c nnull id p st, wf_val cfg (rectypes c) nnull v = true -> is_marker_entry (cur c) id -> stack c = p :: st ->
     is_value_rule (e_rule p) = true ->
     objects c + 1 <= max_object_count cfg -> depth c + 1 <= max_container_depth cfg ->
     exists c1, rstep cfg c be = Some (c1, [be]) /\
                view c1 = (mk_entry rc dt exp, bump (cur c) :: stack c, depth c + 1, objects c + 1, rectypes c, regs c)) ->
  (forall c1 nnull mk fw mk' fw', wf_val cfg (rectypes c1) nnull v = true -> cur c1 = mk_entry rc dt exp ->
     objects c1 + object_usage body <= max_object_count cfg -> depth c1 + hb <= max_container_depth cfg ->
     Reg c1 mk fw -> reg_val v (mk, fw) = Some (mk', fw') ->
     refcount c1 + marker_usage body <= max_local_reference_count cfg ->
     exists c2, steps cfg c1 body = Some c2 /\ stack c2 = stack c1 /\ depth c2 = depth c1 /\
                objects c2 = objects c1 + object_usage body /\ rectypes c2 = rectypes c1 /\
                closable (e_rule (cur c2)) = true /\ trivia_rule (e_rule (cur c2)) = true /\
                match e_expected (cur c2) with Some x => e_count (cur c2) = x | None => True end /\
                e_dtype (cur c2) = dt /\ Reg c2 mk' fw' /\ refcount c2 = refcount c1 + marker_usage body) ->
  val_complete cfg v /\ marked_complete cfg v.
Proof.
  intros Fl Co Nm Hh Mk Dr Da BeginD BeginM Body.
  assert (object_usage (flatten v) = 1 + object_usage body) as OU.
  { rewrite Fl, object_usage_cons, Co, !object_usage_app, object_usage_trivia. change (object_usage [EEnd]) with 0. lia. }
  assert (marker_usage (flatten v) = marker_usage body) as MU.
  { rewrite Fl, marker_usage_cons, Nm, !marker_usage_app, marker_usage_trivia. change (marker_usage [EEnd]) with 0. lia. }
  split.
  - intros c nnull mk fw mk' fw' W V NN TO Rm O D Rg Rl Rc. rewrite OU in *. rewrite MU in *. rewrite Hh in D. rewrite Fl.
    destruct (BeginD c nnull W V Rm) as [c1 [S1 V1]]; [clear -O; lia | clear -D; lia |].
    apply view_core in V1 as [V1 G1]. unfold core in V1. inversion V1 as [[E1 E2 E3 E4 E5]]. clear V1.
    pose proof G1 as G1'. unfold regs in G1'. inversion G1' as [[G11 G12 G13]].
    destruct (Body c1 nnull mk fw mk' fw') as [c2 [S2 [B1 [B2 [B3 [B4 [B5 [B6 [B7 [B8 [B9 B10]]]]]]]]]]]; try assumption.
    { rewrite E5. exact W. } { rewrite E4. clear -O. lia. } { rewrite E3. clear -D. lia. }
    { eapply Reg_regs; [exact G1 | exact Rg]. } { rewrite G13. exact Rc. }
    destruct (finish_container cfg c c2 close V) as [c3 [S3 [V3 G3]]]; try assumption; try congruence.
    exists c3. split; [cbn [steps]; rewrite S1, steps_app, S2; exact S3|].
    unfold regs in G3. inversion G3 as [[G31 G32 G33]].
    split; [rewrite V3, B3, E4, B4, E5; match goal with |- (_, _, ?d1, ?o1, _) = (_, _, ?d2, ?o2, _) => replace o1 with o2 by (clear; lia); replace d1 with d2 by (clear; lia); reflexivity end|].
    split; [eapply Reg_regs; [exact G3 | exact B9] | rewrite G33, B10, G13; reflexivity].
  - intros c id p st nnull mk fw mk' fw' _ W M S V Mi NN O D Rg Rl Ni Rc. rewrite OU in *. rewrite MU in *. rewrite Hh in D. rewrite Fl.
    destruct (BeginM c nnull id p st W M S V) as [c1 [S1 V1]]; [clear -O; lia | clear -D; lia |].
    apply view_core in V1 as [V1 G1]. unfold core in V1. inversion V1 as [[E1 E2 E3 E4 E5]]. clear V1.
    pose proof G1 as G1'. unfold regs in G1'. inversion G1' as [[G11 G12 G13]].
    destruct (Body c1 nnull mk fw mk' fw') as [c2 [S2 [B1 [B2 [B3 [B4 [B5 [B6 [B7 [B8 [B9 B10]]]]]]]]]]]; try assumption.
    { rewrite E5. exact W. } { rewrite E4. clear -O. lia. } { rewrite E3. clear -D. lia. }
    { eapply Reg_regs; [exact G1 | exact Rg]. } { rewrite G13. clear -Rc. lia. }
    destruct (finish_marked cfg c2 (bump (cur c)) id p st close mk' fw') as [c3 [S3 [V3 [Rg3 Rc3]]]]; try assumption.
    { rewrite B1, E2, S. reflexivity. }
    { rewrite B2, E3. clear. lia. } { rewrite B8. exact Dr. } { rewrite B8. exact Da. }
    { rewrite B10, G13. clear -Rc. lia. }
    exists c3. split; [cbn [steps]; rewrite S1, steps_app, S2; exact S3|].
    split; [rewrite V3, B2, E3, B3, E4, B4, E5; match goal with |- (_, _, ?d1, ?o1, _) = (_, _, ?d2, ?o2, _) => replace o1 with o2 by (clear; lia); replace d1 with d2 by (clear; lia); reflexivity end|].
    split; [exact Rg3 | rewrite Rc3, B10, G13; clear; lia].
Qed.

Lemma Forall_fst {A} (P Q : A -> Prop) l : Forall (fun x => P x /\ Q x) l -> Forall P l.
Proof. apply Forall_impl. tauto. Qed.

Lemma any_container_dtypes :
  N.land DT_List Allow_Any <> 0 /\ N.land DT_Map Allow_Any <> 0 /\ N.land DT_Edge Allow_Any <> 0 /\ N.land DT_Record Allow_Any <> 0.
Proof. destruct any_dtypes as [A1 [A2 [A3 [A4 _]]]]. auto. Qed.

Ltac side E :=
  first [ assumption | rewrite E; reflexivity | rewrite E; cbn; discriminate | rewrite E; exact I
        | unfold room; rewrite E; cbn; first [exact I | clear; lia] | rewrite E; cbn; clear; lia
        | intros; rewrite E; reflexivity ].

Theorem value_complete cfg : forall v, val_complete cfg v /\ marked_complete cfg v.
Proof.
  apply val_ind'.
  - (* leaf *)
    intro e. split.
    + intros c nnull mk fw mk' fw' W V NN TO Rm O D Rg Rl Rc. cbn [wf_val flatten reg_val] in *. inv_some.
      try subst nnull. pose proof W as W0. unfold leaf_wf in W0. apply andb_true_iff in W0 as [L Nl]. destruct (leaf_counts _ _ _ L) as [Lc Lm].
      rewrite object_usage_cons, Lc in O |- *. rewrite marker_usage_cons, Lm in Rc |- *.
      change (object_usage []) with 0 in *. change (marker_usage []) with 0 in *.
      change (if true then 1 else 0) with 1 in *. change (if false then 1 else 0) with 0 in *.
      destruct (step_leaf cfg c e _ eq_refl V W) as [c' [S V']]; try assumption; try (clear -O; lia).
      * apply view_core in V' as [V' G']. unfold regs in G'. inversion G' as [[G1 G2 G3]].
        exists c'. cbn [steps]. rewrite S. split; [reflexivity|]. split; [rewrite V'; repeat f_equal; clear; lia|].
        split; [eapply Reg_regs; [exact G' | exact Rg] | rewrite G3; clear; lia].
    + intros c id p st nnull mk fw mk' fw' Mk W M S V Mi NN O D Rg Rl Ni Rc. cbn [wf_val flatten reg_val] in *. injection Rl as <- <-.
      try subst nnull. pose proof W as W0. unfold leaf_wf in W0. apply andb_true_iff in W0 as [L Nl]. destruct (leaf_counts _ _ _ L) as [Lc Lm].
      rewrite object_usage_cons, Lc in O |- *. rewrite marker_usage_cons, Lm in Rc |- *.
      change (object_usage []) with 0 in *. change (marker_usage []) with 0 in *.
      change (if true then 1 else 0) with 1 in *. change (if false then 1 else 0) with 0 in *.
      destruct (step_marked_leaf cfg c e id p st (e_rule p) mk fw M S eq_refl V Mi W Mk) as [c' [S' [H1 [H2 [H3 [H4 [H5 [H6 H7]]]]]]]];
        try assumption; try (clear -O; lia); try (clear -Rc; lia).
      * exists c'. cbn [steps]. rewrite S'. split; [reflexivity|]. split; [unfold core; rewrite H1, H2, H3, H4, H5; repeat f_equal; clear; lia|].
        split; [exact H7 | rewrite H6; clear; lia].
  - (* trivia *)
    intros t v [IH _]. split; [|intros c id p st nnull mk fw mk' fw' Mk; discriminate Mk].
    intros c nnull mk fw mk' fw' W V NN TO Rm O D Rg Rl Rc. cbn [wf_val flatten height reg_val top_ok] in *.
    assert (counts_object (trivia_event t) = false /\ is_marker (trivia_event t) = false) as [Ct Mt] by (destruct t; split; reflexivity).
    rewrite object_usage_cons, Ct in O |- *. rewrite marker_usage_cons, Mt in Rc |- *.
    change (if false then 1 else 0) with 0 in *.
    cbn [steps]. rewrite step_trivia by (apply value_rule_trivia; exact V).
    destruct (IH c nnull mk fw mk' fw' W V NN TO Rm) as [c' [S [V' [Rg' Rc']]]]; try assumption; try (clear -O; lia); try (clear -Rc; lia).
    exists c'. split; [exact S|]. split; [rewrite V'; repeat f_equal|]. split; [exact Rg' | rewrite Rc'; clear; lia].
  - (* list *)
    intros items close IH. apply Forall_fst in IH.
    apply (container_modes cfg _ EList RList DT_List None (flat_map flatten items) close (list_max (map height items)));
      try reflexivity; try apply dtypes_not_rectype; try apply any_container_dtypes.
    + intros c nnull W V Rm O D. eapply step_begin; eauto. reflexivity.
    + intros c nnull id p st W M S V O D. eapply step_marked_begin; eauto. reflexivity.
    + intros c1 nnull mk fw mk' fw' W E O D Rg Rl Rc. cbn [wf_val] in W. rewrite reg_val_list in Rl.
      destruct (items_complete cfg items IH c1 mk fw mk' fw') as [c2 [S2 [[U1 [U2 [U3 [U4 [U5 [U6 [U7 [U8 U9]]]]]]]] [Rg2 Rc2]]]];
        try solve [side E].
      exists c2. split; [exact S2|]. repeat (split; [first [assumption | rewrite U5, E; reflexivity | rewrite U8, E; exact I | rewrite U6, E; reflexivity]|]). exact Rc2.
  - (* map *)
    intros entries close IH. assert (Forall (fun en => val_complete cfg (snd en)) entries) as IH' by (revert IH; apply Forall_impl; tauto).
    apply (container_modes cfg _ EMap RMapKey DT_Map None (flat_map entry_events entries) close
             (list_max (map (fun en => let '(_, _, v) := en in height v) entries)));
      try reflexivity; try apply dtypes_not_rectype; try apply any_container_dtypes.
    + intros c nnull W V Rm O D. eapply step_begin; eauto. reflexivity.
    + intros c nnull id p st W M S V O D. eapply step_marked_begin; eauto. reflexivity.
    + intros c1 nnull mk fw mk' fw' W E O D Rg Rl Rc. cbn [wf_val] in W. apply andb_true_iff in W as [W1 W2]. rewrite reg_val_map in Rl.
      destruct (entries_complete cfg entries IH' c1 mk fw mk' fw') as [c2 [S2 [[U1 [U2 [U3 [U4 [U5 [U6 U7]]]]]] [Rg2 Rc2]]]];
        try solve [side E].
      exists c2. split; [exact S2|]. repeat (split; [first [assumption | rewrite U5; reflexivity | rewrite U7, E; exact I | rewrite U6, E; reflexivity]|]). exact Rc2.
  - (* node *)
    intros v items close [IHv _] IH. apply Forall_fst in IH.
    apply (container_modes cfg _ ENode RNode DT_List None (flatten v ++ flat_map flatten items) close
             (N.max (height v) (list_max (map height items))));
      try reflexivity; try apply dtypes_not_rectype; try apply any_container_dtypes.
    + cbn [flatten]. rewrite <- app_assoc. reflexivity.
    + intros c nnull W V Rm O D. eapply step_begin; eauto. reflexivity.
    + intros c nnull id p st W M S V O D. eapply step_marked_begin; eauto. reflexivity.
    + intros c1 nnull mk fw mk' fw' W E O D Rg Rl Rc. cbn [wf_val] in W. apply andb_true_iff in W as [W1 W2]. rewrite reg_val_node in Rl.
      destruct (reg_val v (mk, fw)) as [[mk1 fw1]|] eqn:R1; [|discriminate].
      rewrite object_usage_app in O |- *. rewrite marker_usage_app in Rc |- *.
      assert (depth c1 + height v <= max_container_depth cfg /\ depth c1 + list_max (map height items) <= max_container_depth cfg) as [D1 D2]
        by (clear -D; lia). clear D.
      destruct (IHv c1 PDesc mk fw mk1 fw1 W1) as [c2 [S2 [V2 [Rg2 Rc2]]]]; try solve [side E]; try solve [clear -O; lia]; try solve [clear -Rc; lia].
      unfold core in V2. inversion V2 as [[F1 F2 F3 F4 F5]]. clear V2.
      assert (cur c2 = adv_entry (mk_entry RNode DT_List None)) as F1' by (rewrite F1, E; reflexivity).
      destruct (items_complete cfg items IH c2 mk1 fw1 mk' fw') as [c3 [S3 [[U1 [U2 [U3 [U4 [U5 [U6 [U7 [U8 U9]]]]]]]] [Rg3 Rc3]]]];
        try solve [side F1']; try solve [rewrite F5; exact W2]; try solve [rewrite F1, E; exact I];
        try solve [rewrite F4; clear -O; lia]; try solve [rewrite F3; exact D2]; try solve [rewrite Rc2; clear -Rc; lia].
      exists c3. split; [rewrite steps_app, S2; exact S3|].
      split; [congruence|]. split; [congruence|]. split; [rewrite U3, F4; clear; lia|]. split; [congruence|].
      split; [rewrite U5, F1, E; reflexivity|]. split; [rewrite U5, F1, E; reflexivity|]. split; [rewrite U8, F1, E; exact I|].
      split; [rewrite U6, F1, E; reflexivity|]. split; [exact Rg3 | rewrite Rc3, Rc2; clear; lia].
  - (* edge *)
    intros s d t close [IHs _] [IHd _] [IHt _].
    apply (container_modes cfg _ EEdge REdgeSource DT_Edge (Some 3) (flatten s ++ flatten d ++ flatten t) close
             (N.max (height s) (N.max (height d) (height t))));
      try reflexivity; try apply dtypes_not_rectype; try apply any_container_dtypes.
    + cbn [flatten]. rewrite <- !app_assoc. reflexivity.
    + intros c nnull W V Rm O D. eapply step_begin; eauto. reflexivity.
    + intros c nnull id p st W M S V O D. eapply step_marked_begin; eauto. reflexivity.
    + intros c1 nnull mk fw mk' fw' W E O D Rg Rl Rc. cbn [wf_val reg_val] in W, Rl.
      apply andb_true_iff in W as [W W3]. apply andb_true_iff in W as [W1 W2].
      destruct (reg_val s (mk, fw)) as [[mk1 fw1]|] eqn:R1; [|discriminate].
      destruct (reg_val d (mk1, fw1)) as [[mk2 fw2]|] eqn:R2; [|discriminate].
      rewrite !object_usage_app in O |- *. rewrite !marker_usage_app in Rc |- *.
      assert (depth c1 + height s <= max_container_depth cfg /\ depth c1 + height d <= max_container_depth cfg /\
              depth c1 + height t <= max_container_depth cfg) as [D1 [D2 D3]] by (clear -D; lia). clear D.
      destruct (IHs c1 PSrc mk fw mk1 fw1 W1) as [c2 [S2 [V2 [Rg2 Rc2]]]]; try solve [side E]; try solve [clear -O; lia]; try solve [clear -Rc; lia].
      unfold core in V2. inversion V2 as [[F1 F2 F3 F4 F5]]. clear V2.
      assert (cur c2 = adv_entry (mk_entry REdgeSource DT_Edge (Some 3))) as F1' by (rewrite F1, E; reflexivity).
      destruct (IHd c2 PDesc mk1 fw1 mk2 fw2) as [c3 [S3 [V3 [Rg3 Rc3]]]]; try solve [side F1']; try solve [rewrite F5; exact W2];
        try solve [rewrite F4; clear -O; lia]; try solve [rewrite F3; exact D2]; try solve [rewrite Rc2; clear -Rc; lia].
      unfold core in V3. inversion V3 as [[G1 G2 G3 G4 G5]]. clear V3.
      assert (cur c3 = adv_entry (adv_entry (mk_entry REdgeSource DT_Edge (Some 3)))) as G1' by (rewrite G1, F1, E; reflexivity).
      destruct (IHt c3 PDst mk2 fw2 mk' fw') as [c4 [S4 [V4 [Rg4 Rc4]]]]; try solve [side G1']; try solve [rewrite G5, F5; exact W3];
        try solve [rewrite G4, F4; clear -O; lia]; try solve [rewrite G3, F3; exact D3]; try solve [rewrite Rc3, Rc2; clear -Rc; lia].
      unfold core in V4. inversion V4 as [[H1 H2 H3 H4 H5]]. clear V4.
      exists c4. split; [rewrite steps_app, S2, steps_app, S3; exact S4|].
      split; [congruence|]. split; [congruence|]. split; [rewrite H4, G4, F4; clear; lia|]. split; [congruence|].
      split; [rewrite H1, G1, F1, E; reflexivity|]. split; [rewrite H1, G1, F1, E; reflexivity|]. split; [rewrite H1, G1, F1, E; reflexivity|].
      split; [rewrite H1, G1, F1, E; reflexivity|]. split; [exact Rg4 | rewrite Rc4, Rc3, Rc2; clear; lia].
  - (* record *)
    intros id fields close IH. apply Forall_fst in IH.
    apply (container_modes cfg _ (ERecord id) RRecord DT_Record (Some (N.of_nat (length fields))) (flat_map flatten fields) close
             (list_max (map height fields)));
      try reflexivity; try apply dtypes_not_rectype; try apply any_container_dtypes.
    + intros c nnull W V Rm O D. cbn [wf_val] in W. apply andb_true_iff in W as [W W3]. apply andb_true_iff in W as [W1 W2].
      destruct (alookup id (rectypes c)) as [n|] eqn:A; [|discriminate]. apply N.eqb_eq in W2. rewrite W2.
      eapply step_begin_record; eauto.
    + intros c nnull mid p st W M S V O D. cbn [wf_val] in W. apply andb_true_iff in W as [W W3]. apply andb_true_iff in W as [W1 W2].
      destruct (alookup id (rectypes c)) as [n|] eqn:A; [|discriminate]. apply N.eqb_eq in W2. rewrite W2.
      eapply step_marked_begin_record; eauto.
    + intros c1 nnull mk fw mk' fw' W E O D Rg Rl Rc. cbn [wf_val] in W. apply andb_true_iff in W as [W W3]. rewrite reg_val_record in Rl.
      destruct (items_complete cfg fields IH c1 mk fw mk' fw') as [c2 [S2 [[U1 [U2 [U3 [U4 [U5 [U6 [U7 [U8 U9]]]]]]]] [Rg2 Rc2]]]];
        try solve [side E].
      exists c2. split; [exact S2|].
      repeat (split; [first [assumption | rewrite U5, E; reflexivity | rewrite U6, E; reflexivity | rewrite U8, U7, E; cbn; clear; lia]|]). exact Rc2.
  - (* marker *)
    intros id n v [_ IH]. split; [|intros c mid p st nnull mk fw mk' fw' Mk; discriminate Mk].
    intros c nnull mk fw mk' fw' W V NN TO Rm O D Rg Rl Rc. cbn [wf_val flatten height reg_val] in *.
    apply andb_true_iff in W as [W W3]. apply andb_true_iff in W as [W1 W2].
    destruct (reg_val v (mk, fw)) as [[mk1 fw1]|] eqn:R1; [|discriminate].
    destruct (id_mem id mk1) eqn:Mm; [discriminate|]. inv_some.
    destruct (usage_pads n) as [Po Pm].
    rewrite object_usage_cons, object_usage_app, Po in O |- *. rewrite marker_usage_cons, marker_usage_app, Pm in Rc |- *.
    cbn [counts_object is_marker] in O, Rc |- *. change (if true then 1 else 0) with 1 in *.
    destruct (step_marker cfg c id _ eq_refl V W1 Rm) as [c1 [S1 [M1 [E2 [E3 [E4 [E5 [G1 Mi]]]]]]]]; [clear -O; lia|].
    pose proof G1 as G1'. unfold regs in G1'. inversion G1' as [[G11 G12 G13]].
    destruct (IH c1 id (bump (cur c)) (stack c) (pos_of_rule (e_rule (cur c))) mk fw mk1 fw1 W2) as [c2 [S2 [V2 [Rg2 Rc2]]]]; try assumption; try reflexivity.
    { rewrite E5. exact W3. } { rewrite E4. clear -O. lia. } { rewrite E3. exact D. }
    { eapply Reg_regs; [exact G1 | exact Rg]. } { rewrite G13. clear -Rc. lia. }
    exists c2. split; [cbn [steps]; rewrite S1, steps_app, (steps_marker_pads cfg c1 id n M1); exact S2|].
    split; [rewrite V2, E3, E4, E5; unfold adv_entry; cbn [bump e_rule];
            match goal with |- (_, _, _, ?o1, _) = (_, _, _, ?o2, _) => replace o1 with o2 by (clear; lia); reflexivity end|].
    split; [exact Rg2 | rewrite Rc2, G13; clear; lia].
  - (* reference *)
    intro id. split; [|intros c mid p st nnull mk fw mk' fw' Mk; discriminate Mk].
    intros c nnull mk fw mk' fw' W V NN TO Rm O D Rg Rl Rc. cbn [wf_val flatten height reg_val top_ok] in *.
    rewrite object_usage_cons in O |- *. rewrite marker_usage_cons in Rc |- *. cbn [counts_object is_marker] in O, Rc |- *.
    change (object_usage []) with 0 in *. change (marker_usage []) with 0 in *.
    change (if true then 1 else 0) with 1 in *. change (if false then 1 else 0) with 0 in *.
    destruct (step_ref cfg c id _ mk fw eq_refl V) as [c' [S [H1 [H2 [H3 [H4 [H5 [H6 H7]]]]]]]]; try assumption.
    { intro X. specialize (TO X). discriminate TO. }
    exists c'. cbn [steps]. rewrite S. split; [reflexivity|].
    split; [unfold core; rewrite H1, H2, H3, H4, H5; repeat f_equal; clear; lia|].
    split; [|rewrite H6; clear; lia].
    destruct (id_mem id mk || id_mem id fw); inv_some; exact H7.
  - (* an array delivered in chunks *)
    intros b chs. split.
    + intros c nnull mk fw mk' fw' W V NN TO Rm O D Rg Rl Rc. cbn [wf_val flatten reg_val] in *. inv_some. try subst nnull.
      destruct (chunk_usage chs) as [Uo Um].
      assert (counts_object b = true /\ is_marker b = false) as [Cb Mb].
      { unfold chunked_ok in W. destruct b; try discriminate W; split; reflexivity. }
      rewrite object_usage_cons, Cb, Uo in O |- *. rewrite marker_usage_cons, Mb, Um in Rc |- *.
      destruct (chunked_steps cfg c b chs V W Rm) as [c' [S [V' G']]]; [clear -O; lia|].
      unfold regs in G'. inversion G' as [[G1 G2 G3]].
      exists c'. split; [exact S|]. split; [rewrite V'; repeat f_equal; clear; lia|].
      split; [eapply Reg_regs; [exact G' | exact Rg] | rewrite G3; clear; lia].
    + intros c id p st nnull mk fw mk' fw' Mk W M S V Mi NN O D Rg Rl Ni Rc. cbn [wf_val flatten reg_val] in *. injection Rl as <- <-.
      try subst nnull. destruct (chunk_usage chs) as [Uo Um].
      assert (counts_object b = true /\ is_marker b = false) as [Cb Mb].
      { unfold chunked_ok in W. destruct b; try discriminate W; split; reflexivity. }
      rewrite object_usage_cons, Cb, Uo in O |- *. rewrite marker_usage_cons, Mb, Um in Rc |- *.
      destruct (chunked_steps_marked cfg c b chs id p st mk fw M S V W Mk) as [c' [S' [V' [Rg' Rc']]]];
        try assumption; try (clear -O; lia); try (clear -Rc; lia).
      exists c'. split; [exact S'|]. split; [rewrite V'; repeat f_equal; clear; lia|].
      split; [exact Rg' | rewrite Rc'; clear; lia].
Qed.
(* ------------------------------------------------------------------------- *)
(* Record types and the document frame                                        *)
(* ------------------------------------------------------------------------- *)
(* the pending record-type name is written by BeginRecordType only *)
Definition rtn_free_p (p : prim) : bool :=
  match p with PBeginRecordType | PForwardCurrent MRecordType | PForwardParent MRecordType => false | _ => true end.

Lemma call_rule_rectype_name cfg f r m a c c' :
  call_rule f cfg r m a c = Some c' -> m <> MRecordType -> rectype_name c' = rectype_name c.
Proof.
  apply (call_rule_ind_gen cfg (fun _ m _ c c' => m <> MRecordType -> rectype_name c' = rectype_name c)).
  intros call Hcall r0 m0 a0 c0 c0' H Hm.
  assert (table_forall (fun _ m cell => has_reject cell || match m with MRecordType => true | _ => forallb rtn_free_p cell end) = true) as T
    by (vm_compute; reflexivity).
  pose proof (table_forall_spec _ T r0 m0) as T0. cbn beta in T0. apply orb_true_iff in T0 as [T0|T0].
  { rewrite exec_prims_reject in H by exact T0. discriminate. }
  assert (forallb rtn_free_p (dispatch r0 m0) = true) as T1 by (destruct m0; try exact T0; congruence).
  clear T T0. revert c0 H. induction (dispatch r0 m0) as [|p ps IH]; intros c0 H; cbn [exec_prims forallb] in *.
  - inv_some. reflexivity.
  - apply andb_true_iff in T1 as [Tp Tps]. destruct (exec_prim cfg call r0 m0 a0 p c0) as [c1|] eqn:E; [|discriminate].
    rewrite (IH Tps c1 H). clear IH H Tps.
    prim_cases p E; rsimpl; try reflexivity; try discriminate Tp;
      match goal with
      | H : call _ ?mm _ _ = Some _ |- _ => apply Hcall in H; [exact H | first [discriminate | destruct mm; try discriminate; discriminate Tp]]
      end.
Qed.

Lemma rstep_rectype_name cfg c e c' o :
  rstep cfg c e = Some (c', o) -> (forall id, e <> ERecordType id) -> rectype_name c' = rectype_name c.
Proof.
  rewrite rstep_plan. destruct (ev_plan cfg e) as [pl|] eqn:P; [|discriminate].
  destruct (plan_step cfg pl c) as [c2|] eqn:S; [|discriminate]. intros H Ne; inv_some.
  assert (p_meth pl <> MRecordType) as M.
  { intro M. revert P M.
    destruct e as [| |v| |m t| |b| | |n|n|z|[z|]|bits|[bf|]|[| | |]|[[| | |]|]|s|b|s| | |id|id| | | |id|id|t cnt d|t d|mt d|ct d|ct d|t|mt|t ct|n m|d];
      cbn [ev_plan]; intros P M;
      repeat match goal with H : (if ?b then _ else _) = Some _ |- _ => destruct b; try discriminate H end;
      unfold mkplan in P; inv_some; try discriminate M. exact (Ne id eq_refl). }
  unfold plan_step, call_current in S. destruct (p_nno pl) as [real|].
  - destruct (notify_new_object cfg real c) as [c1|] eqn:N; [|discriminate].
    rewrite (call_rule_rectype_name _ _ _ _ _ _ _ S M). unfold notify_new_object in N. inv_some. reflexivity.
  - exact (call_rule_rectype_name _ _ _ _ _ _ _ S M).
Qed.

(* the field names of a record type *)
Lemma key_not_rectype k rk : key_of k = Some rk -> forall id, k <> ERecordType id.
Proof. intros K id ->. discriminate K. Qed.

Definition field_events (f : list trivia * event) : list event := map trivia_event (fst f) ++ [snd f].

Lemma fields_complete cfg fields : forall c,
  e_rule (cur c) = RRecordType -> e_expected (cur c) = None ->
  forallb (fun f => key_ok cfg (snd f)) fields = true -> nkeys_distinct (map (fun f => nkey_of (snd f)) fields) = true ->
  (forall f nk, In f fields -> nkey_of (snd f) = Some nk -> existsb (nkey_eqb nk) (e_keys (cur c)) = false) ->
  objects c + N.of_nat (length fields) <= max_object_count cfg ->
  exists c', steps cfg c (flat_map field_events fields) = Some c' /\
    stack c' = stack c /\ depth c' = depth c /\ objects c' = objects c + N.of_nat (length fields) /\
    rectypes c' = rectypes c /\ regs c' = regs c /\ rectype_name c' = rectype_name c /\
    e_rule (cur c') = RRecordType /\ e_dtype (cur c') = e_dtype (cur c) /\ e_expected (cur c') = None /\
    e_count (cur c') = e_count (cur c) + N.of_nat (length fields).
Proof.
  induction fields as [|[tv k] fields IH]; intros c R X W Dk Fr O.
  - exists c. split; [reflexivity|]. cbn. repeat split; auto; lia.
  - cbn [forallb map nkeys_distinct length fst snd] in *. apply andb_true_iff in W as [Wk W].
    destruct (key_ok_key_of _ _ Wk) as [rk K].
    assert (nkey_of k = Some (norm_key rk)) as NK by (unfold nkey_of; rewrite K; reflexivity).
    rewrite NK in Dk. apply andb_true_iff in Dk as [Dk1 Dk2]. apply negb_true_iff in Dk1.
    destruct key_cells as [_ KR].
    change (flat_map field_events ((tv, k) :: fields)) with ((map trivia_event tv ++ [k]) ++ flat_map field_events fields).
    rewrite <- app_assoc, steps_app, steps_trivia by (rewrite R; reflexivity).
    destruct (step_key_gen cfg c k rk RRecordType None R KR Wk K) as [c1 [S1 V1]].
    { eapply (Fr (tv, k)); [left; reflexivity | exact NK]. } { unfold room. rewrite X. exact I. } { lia. }
    pose proof (rstep_rectype_name _ _ _ _ _ S1 (key_not_rectype _ _ K)) as RN.
    unfold view in V1. inversion V1 as [[E1 E2 E3 E4 E5 E6]]. clear V1.
    destruct (IH c1) as [c2 [S2 [U1 [U2 [U3 [U4 [U5 [U6 [U7 [U8 [U9 U10]]]]]]]]]]].
    + rewrite E1. cbn. exact R.
    + rewrite E1. cbn. exact X.
    + exact W.
    + exact Dk2.
    + intros f' nk' I' NK'. rewrite E1. cbn [keyed e_keys existsb]. apply orb_false_iff. split.
      * rewrite nkey_eqb_sym. clear -Dk1 I' NK'.
        induction fields as [|b fields IHe]; [destruct I'|]. cbn [map existsb] in Dk1.
        apply orb_false_iff in Dk1 as [D1 D2]. destruct I' as [I'|I'].
        -- subst. rewrite NK' in D1. exact D1.
        -- apply IHe; assumption.
      * eapply Fr; [right; exact I' | exact NK'].
    + rewrite E4. lia.
    + exists c2. split; [cbn [app steps]; rewrite S1; exact S2|]. rewrite E1 in U8, U10. cbn in U8, U10.
      unfold regs in *. repeat split; try congruence; lia.
Qed.

(* the state between the top-level items *)
Definition TopS (c : rctx) (rts : list (bytes * N)) (nobj : N) : Prop :=
  e_rule (cur c) = RTopLevel /\ e_expected (cur c) = None /\ e_count (cur c) = 0 /\ stack c = [] /\ depth c = 0 /\ regs c = ([], [], 0) /\
  rectypes c = rts /\ objects c = nobj.

Lemma frame_cells :
  dispatch RRecordType MEnd = [PEndContainer false] /\ dispatch RTopLevel MRecordType = [PBeginRecordType] /\
  dispatch RBeginDocument MBeginDocument = [PChangeRule RVersion] /\
  dispatch RVersion MVersion = [PCheckVersion; PChangeRule RTopLevel] /\
  dispatch REndDocument MEndDocument = [PEndDocument].
Proof.
  pose proof other_cells as T.
  apply andb_true_iff in T as [T T5]. apply andb_true_iff in T as [T T4]. apply andb_true_iff in T as [T T3].
  apply andb_true_iff in T as [T T2]. do 8 (apply andb_true_iff in T as [T _]). apply andb_true_iff in T as [_ T1].
  repeat split; apply prims_eqb_eq; assumption.
Qed.

Lemma rectype_complete cfg c rts nobj id fields close :
  TopS c rts nobj ->
  validate_identifier cfg id = true -> forallb (fun f => key_ok cfg (snd f)) fields = true ->
  nkeys_distinct (map (fun f => nkey_of (snd f)) fields) = true ->
  alookup id rts = None ->
  nobj + 1 + N.of_nat (length fields) <= max_object_count cfg -> 1 <= max_container_depth cfg ->
  exists c', steps cfg c (flatten_top (TopRecType id fields close)) = Some c' /\
             TopS c' (aset id (N.of_nat (length fields)) rts) (nobj + 1 + N.of_nat (length fields)).
Proof.
  intros [T1 [T2 [T3 [T4 [T5 [T6 [T7 T8]]]]]]] Vi Wk Dk A O D. cbn [flatten_top].
  change (fun f : list trivia * event => map trivia_event (fst f) ++ [snd f]) with field_events.
  destruct frame_cells as [C1 [C2 _]].
  (* the record type event *)
  assert (exists c1, rstep cfg c (ERecordType id) = Some (c1, [ERecordType id]) /\
            cur c1 = mk_entry RRecordType DT_RecordType None /\ stack c1 = [cur c] /\ depth c1 = 1 /\
            objects c1 = nobj + 1 /\ rectypes c1 = rts /\ regs c1 = ([], [], 0) /\ rectype_name c1 = id) as [c1 [S1 [E1 [E2 [E3 [E4 [E5 [E6 E7]]]]]]]].
  { rewrite rstep_plan. cbn [ev_plan]. rewrite Vi. unfold mkplan, plan_step. cbn [p_nno p_meth p_args p_out].
    unfold notify_new_object. rewrite T2. destruct (max_object_count cfg <? objects c + 1) eqn:X; [lia|].
    match goal with |- context [call_current cfg ?m ?a ?c0] => rewrite (call_current_cell cfg m a c0 RTopLevel) by (cbn; exact T1) end.
    rewrite C2. cbn [exec_prims exec_prim]. rsimpl. rewrite T4. unfold begin_container. rsimpl. rewrite T5.
    destruct (max_container_depth cfg <? 0 + 1) eqn:Y; [lia|]. eexists. split; [reflexivity|]. rsimpl. cbn [with_id a_id].
    repeat split; try assumption; try lia. rewrite T4. destruct (cur c); cbn in *. subst. reflexivity. }
  (* the fields *)
  destruct (fields_complete cfg fields c1) as [c2 [S2 [U1 [U2 [U3 [U4 [U5 [U6 [U7 [U8 [U9 U10]]]]]]]]]]]; try (rewrite E1; reflexivity); try assumption.
  { rewrite E4. lia. }
  (* trivia and the end *)
  assert (exists c3, rstep cfg c2 EEnd = Some (c3, [EEnd]) /\ TopS c3 (aset id (N.of_nat (length fields)) rts) (nobj + 1 + N.of_nat (length fields))) as [c3 [S3 T']].
  { rewrite rstep_plan. cbn [ev_plan]. unfold mkplan, plan_step. cbn [p_nno p_meth p_args p_out].
    rewrite (call_current_cell cfg _ _ c2 RRecordType U7), C1. cbn [exec_prims exec_prim]. unfold end_container.
    rewrite U2, E3. cbn [N.eqb]. rewrite U9, U8, E1. cbn [mk_entry e_dtype]. rewrite N.eqb_refl, U6, E7, U4, E5, A.
    unfold end_container_like, unstack_rule. rsimpl. rewrite U1, E2. eexists. split; [reflexivity|].
    unfold TopS. rsimpl. rewrite U10, E1, U3, E4. cbn [mk_entry e_count].
    repeat split; auto; try (rewrite U2, E3; reflexivity); exact (eq_trans U5 E6). }
  exists c3. split.
  - cbn [steps]. rewrite S1, steps_app, S2, steps_app, steps_trivia by (rewrite U7; reflexivity). cbn [steps]. rewrite S3. reflexivity.
  - exact T'.
Qed.

Definition has_rectype (pre : list top_item) : bool :=
  existsb (fun it => match it with TopRecType _ _ _ => true | _ => false end) pre.

Lemma pre_complete cfg pre : forall c rts rts' nobj,
  TopS c rts nobj -> declare cfg rts pre = Some rts' ->
  nobj + object_usage (flat_map flatten_top pre) <= max_object_count cfg ->
  (if has_rectype pre then 1 else 0) <= max_container_depth cfg ->
  exists c', steps cfg c (flat_map flatten_top pre) = Some c' /\
             TopS c' rts' (nobj + object_usage (flat_map flatten_top pre)).
Proof.
  induction pre as [|it pre IH]; intros c rts rts' nobj T Dc O D.
  - cbn in *. inv_some. exists c. split; [reflexivity|]. replace (nobj + 0) with nobj by lia. exact T.
  - cbn [flat_map] in *. rewrite object_usage_app in O |- *. destruct it as [t|id fields close]; cbn [declare] in Dc.
    + cbn [flatten_top] in *. assert (object_usage [trivia_event t] = 0) as Z by (destruct t; reflexivity). rewrite Z in O |- *.
      cbn [app steps]. rewrite step_trivia by (destruct T as [T1 _]; rewrite T1; reflexivity).
      destruct (IH c rts rts' nobj T Dc) as [c' [S T']]; [lia | cbn [has_rectype existsb] in D; exact D |].
      exists c'. split; [exact S|]. replace (nobj + (0 + object_usage (flat_map flatten_top pre))) with (nobj + object_usage (flat_map flatten_top pre)) by lia. exact T'.
    + destruct (validate_identifier cfg id && forallb (fun f => key_ok cfg (snd f)) fields &&
                nkeys_distinct (map (fun f => nkey_of (snd f)) fields) &&
                match alookup id rts with None => true | Some _ => false end) eqn:Ck; [|discriminate].
      apply andb_true_iff in Ck as [Ck C4]. apply andb_true_iff in Ck as [Ck C3]. apply andb_true_iff in Ck as [C1 C2].
      destruct (alookup id rts) eqn:A; [discriminate|].
      assert (object_usage (flatten_top (TopRecType id fields close)) = 1 + N.of_nat (length fields)) as Z.
      { cbn [flatten_top]. rewrite object_usage_cons, !object_usage_app, object_usage_trivia. cbn [counts_object].
        change (object_usage [EEnd]) with 0. clear -C2. induction fields as [|[tv k] fields IHf]; [reflexivity|].
        cbn [forallb length flat_map fst snd] in *. apply andb_true_iff in C2 as [Ck C2].
        rewrite !object_usage_app, object_usage_trivia, object_usage_cons. change (object_usage []) with 0.
        destruct (key_ok_key_of _ _ Ck) as [rk K]. rewrite (proj1 (key_event_object _ _ K)). specialize (IHf C2). lia. }
      rewrite Z in O |- *.
      assert (1 <= max_container_depth cfg) as D1 by (cbn in D; exact D).
      destruct (rectype_complete cfg c rts nobj id fields close T C1 C2 C3 A) as [c1 [S1 T1]]; [lia | exact D1 |].
      destruct (IH c1 _ rts' _ T1 Dc) as [c' [S T']]; [lia | destruct (has_rectype pre); lia |].
      exists c'. split; [rewrite steps_app, S1; exact S|].
      replace (nobj + (1 + N.of_nat (length fields) + object_usage (flat_map flatten_top pre)))
        with (nobj + 1 + N.of_nat (length fields) + object_usage (flat_map flatten_top pre)) by lia. exact T'.
Qed.

(* C10 (c): every well-formed document of the fragment, within the object, depth and marker limits, is accepted *)
Theorem wf_doc_accepted cfg d :
  wf_doc cfg d = true ->
  object_usage (flatten_doc cfg d) <= max_object_count cfg -> doc_height d <= max_container_depth cfg ->
  marker_usage (flatten_doc cfg d) <= max_local_reference_count cfg ->
  accepts_document cfg (flatten_doc cfg d) = true.
Proof.
  intros W O D M. unfold wf_doc in W. destruct (declare cfg [] (d_pre d)) as [rts|] eqn:Dc; [|discriminate].
  apply andb_true_iff in W as [W Wr]. apply andb_true_iff in W as [W Wt].
  destruct (reg_val (d_top d) ([], [])) as [[mk' fw']|] eqn:Rl; [|discriminate]. destruct fw'; [|discriminate]. clear Wr.
  apply accepts_document_steps. unfold flatten_doc in *.
  destruct frame_cells as [_ [_ [C1 [C2 C3]]]].
  (* begin, version *)
  assert (exists c0, steps cfg init_rctx [EBeginDoc; EVersion (expected_version cfg)] = Some c0 /\ TopS c0 [] 0) as [c0 [S0 T0]].
  { cbn [steps]. rewrite rstep_plan. cbn [ev_plan]. unfold mkplan, plan_step. cbn [p_nno p_meth p_args p_out].
    rewrite (call_current_cell cfg _ _ init_rctx RBeginDocument eq_refl), C1. cbn [exec_prims exec_prim].
    rewrite rstep_plan. cbn [ev_plan]. unfold mkplan, plan_step. cbn [p_nno p_meth p_args p_out].
    match goal with |- context [call_current cfg ?m ?a ?c0] => rewrite (call_current_cell cfg m a c0 RVersion eq_refl) end.
    rewrite C2. cbn [exec_prims exec_prim a_version]. rewrite N.eqb_refl.
    eexists. split; [reflexivity|]. unfold TopS. cbn. repeat split. }
  rewrite object_usage_cons, object_usage_cons, !object_usage_app in O. cbn [counts_object] in O.
  rewrite marker_usage_cons, marker_usage_cons, !marker_usage_app in M. cbn [is_marker] in M.
  change (object_usage [EEndDoc]) with 0 in O. unfold doc_height in D. fold (has_rectype (d_pre d)) in D.
  destruct (pre_complete cfg (d_pre d) c0 [] rts 0 T0 Dc) as [c1 [S1 T1]]; [lia | destruct (has_rectype (d_pre d)); lia |].
  destruct T1 as [T1 [T2 [T3 [T4 [T5 [T6 [T7 T8]]]]]]].
  unfold regs in T6. inversion T6 as [[T61 T62 T63]].
  (* the top-level value *)
  destruct (proj1 (value_complete cfg (d_top d)) c1 PPlain [] [] mk' []) as [c2 [S2 [V2 [Rg2 Rc2]]]];
    try assumption; try solve [rewrite T7; exact W]; try solve [rewrite T1; reflexivity]; try solve [rewrite T1; cbn; discriminate];
    try solve [intros _; exact Wt]; try solve [unfold room; rewrite T2; exact I]; try solve [rewrite T8; lia]; try solve [rewrite T5; lia];
    try solve [rewrite T63; lia];
    try solve [unfold Reg, RegL; rewrite T62, T61; cbn; repeat split; try tauto; intros; discriminate].
  unfold core in V2. inversion V2 as [[E1 E2 E3 E4 E5]]. clear V2.
  assert (fwd c2 = []) as F2.
  { destruct Rg2 as [_ [R2 _]]. destruct (fwd c2) as [|[k x] l]; [reflexivity|]. exfalso. apply (R2 k). left. reflexivity. }
  (* end of document *)
  assert (exists c3, rstep cfg c2 EEndDoc = Some (c3, [EEndDoc]) /\ e_rule (cur c3) = RTerminal) as [c3 [S3 T']].
  { rewrite rstep_plan. cbn [ev_plan]. unfold mkplan, plan_step. cbn [p_nno p_meth p_args p_out].
    assert (e_rule (cur c2) = REndDocument) as R by (rewrite E1; cbn; rewrite T1; reflexivity).
    rewrite (call_current_cell cfg _ _ c2 REndDocument R), C3. cbn [exec_prims exec_prim]. rewrite F2.
    eexists. split; reflexivity. }
  exists c3. split; [|exact T'].
  change (EBeginDoc :: EVersion (expected_version cfg) :: flat_map flatten_top (d_pre d) ++ flatten (d_top d) ++ [EEndDoc])
    with ([EBeginDoc; EVersion (expected_version cfg)] ++ flat_map flatten_top (d_pre d) ++ flatten (d_top d) ++ [EEndDoc]).
  rewrite steps_app, S0, steps_app, S1, steps_app, S2. cbn [steps]. rewrite S3. reflexivity.
Qed.
