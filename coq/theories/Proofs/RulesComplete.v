(* C10 (c): every well-formed document tree of the fragment is accepted. *)
From CE Require Import Model.Rules Model.RulesSpec Proofs.RulesPassthrough Proofs.RulesKeys Proofs.RulesInvariants Proofs.RulesStructure Proofs.RulesLimits Proofs.RulesMarkers Proofs.RulesDocument.
From Coq Require Import ZifyN ZifyNat ZifyBool.
Open Scope N_scope.

Scheme Equality for prim.
Definition prims_eqb : list prim -> list prim -> bool := list_eqb prim_beq.
Lemma prims_eqb_eq a b : prims_eqb a b = true -> a = b.
Proof. apply list_eqb_eq. intros x y. split; [apply internal_prim_dec_bl | apply internal_prim_dec_lb]. Qed.

(* ------------------------------------------------------------------------- *)
(* The cells the fragment goes through                                        *)
(* ------------------------------------------------------------------------- *)
(* rules in force where a value may start, and the rule in force after the value *)
Definition value_rules : list rule :=
  [RTopLevel; RList; RMapValue; RRecord; REdgeSource; REdgeDescription; REdgeDestination; RNode].
Definition is_value_rule (r : rule) : bool := existsb (rule_beq r) value_rules.
Definition next_rule (r : rule) : rule :=
  match r with
  | RTopLevel => REndDocument | RMapValue => RMapKey | REdgeSource => REdgeDescription
  | REdgeDescription => REdgeDestination | RNode => RList | r => r
  end.
Definition null_allowed (r : rule) : bool := match r with REdgeSource | REdgeDestination => false | _ => true end.

(* A cell made of argument checks followed by at most one rule change. *)
Definition is_guard (p : prim) : bool :=
  match p with
  | PValidateFullArrayAnyType | PValidateFullArrayStringlike | PAssertArrayType MaskAny | PAssertArrayType MaskNonNull => true
  | _ => false
  end.
Fixpoint guarded_change (cell : list prim) : option (option rule) :=
  match cell with
  | [] => Some None
  | [PChangeRule r'] => Some (Some r')
  | p :: rest => if is_guard p then guarded_change rest else None
  end.
Definition guard_holds (cfg : rcfg) (a : args) (p : prim) : bool :=
  match p with
  | PValidateFullArrayAnyType => validate_full_array_any cfg (a_arrty a) (a_count a) (a_data a)
  | PValidateFullArrayStringlike => validate_full_array_stringlike cfg (a_arrty a) (a_data a)
  | PAssertArrayType mk => assert_array_type (a_arrty a) (mask_value mk)
  | _ => true
  end.
Definition has_stringlike_validator (cell : list prim) : bool :=
  existsb (fun p => match p with PValidateFullArrayStringlike => true | _ => false end) cell.
Definition has_any_validator (cell : list prim) : bool :=
  existsb (fun p => match p with PValidateFullArrayAnyType => true | _ => false end) cell.

Lemma guarded_change_exec cfg call self m a cell : forall tgt c,
  guarded_change cell = Some tgt -> forallb (guard_holds cfg a) cell = true ->
  exec_prims cfg call self m a cell c = Some (match tgt with Some r' => set_rule c r' | None => c end).
Proof.
  induction cell as [|p rest IH]; intros tgt c G H; cbn [guarded_change] in G.
  - inv_some. reflexivity.
  - cbn [forallb] in H. apply andb_true_iff in H as [Hp Hr].
    destruct p; cbn [is_guard] in G; try discriminate G;
      try (destruct rest; [inv_some; reflexivity | discriminate G]);
      cbn [exec_prims exec_prim]; cbn [guard_holds] in Hp; try rewrite Hp; try (apply IH; assumption).
    all: destruct m0; try discriminate G; apply IH; assumption.
Qed.

Definition expected_change (r : rule) : option rule := if rule_beq r (next_rule r) then None else Some (next_rule r).
Definition leaf_meths : list meth := [MKeyableObject; MNonKeyableObject; MNull; MArray; MStringlikeArray; MChildContainerEnded].

Lemma value_table :
  forallb (fun r =>
    forallb (fun m =>
      match m with MNull => negb (null_allowed r) | _ => false end ||
      (match guarded_change (dispatch r m) with Some t => match t, expected_change r with
                                                           | Some x, Some y => rule_beq x y | None, None => true | _, _ => false end
                                           | None => false end &&
       match m with
       | MArray => negb (has_stringlike_validator (dispatch r m))
       | MStringlikeArray => negb (has_any_validator (dispatch r m))
       | _ => forallb (fun p => negb (is_guard p)) (dispatch r m)
       end)) leaf_meths &&
    prims_eqb (dispatch r MPadding) [] && prims_eqb (dispatch r MComment) [] &&
    prims_eqb (dispatch r MList) [PBeginList] && prims_eqb (dispatch r MMap) [PBeginMap] &&
    prims_eqb (dispatch r MEdge) [PBeginEdge] && prims_eqb (dispatch r MNode) [PBeginNode] &&
    prims_eqb (dispatch r MRecord) [PBeginRecord]) value_rules = true.
Proof. vm_compute. reflexivity. Qed.

Lemma other_cells :
  prims_eqb (dispatch RList MEnd) [PEndContainer true] && prims_eqb (dispatch RMapKey MEnd) [PEndContainer true] &&
  prims_eqb (dispatch RRecord MEnd) [PEndContainer true] && prims_eqb (dispatch REdgeDestination MEnd) [PEndContainer true] &&
  prims_eqb (dispatch RRecordType MEnd) [PEndContainer false] &&
  prims_eqb (dispatch RMapKey MPadding) [] && prims_eqb (dispatch RMapKey MComment) [] &&
  prims_eqb (dispatch RRecordType MPadding) [] && prims_eqb (dispatch RRecordType MComment) [] &&
  prims_eqb (dispatch RMapKey MKeyableObject) [PNotifyKeyArg; PChangeRule RMapValue] &&
  prims_eqb (dispatch RMapKey MStringlikeArray) [PValidateFullArrayStringlikeKeyable; PNotifyKeyFromArrayData; PChangeRule RMapValue] &&
  prims_eqb (dispatch RRecordType MKeyableObject) [PNotifyKeyArg] &&
  prims_eqb (dispatch RRecordType MStringlikeArray) [PValidateFullArrayStringlikeKeyable; PNotifyKeyFromArrayData] &&
  prims_eqb (dispatch RTopLevel MRecordType) [PBeginRecordType] &&
  prims_eqb (dispatch RBeginDocument MBeginDocument) [PChangeRule RVersion] &&
  prims_eqb (dispatch RVersion MVersion) [PCheckVersion; PChangeRule RTopLevel] &&
  prims_eqb (dispatch REndDocument MEndDocument) [PEndDocument] = true.
Proof. vm_compute. reflexivity. Qed.

(* ------------------------------------------------------------------------- *)
(* Single steps                                                               *)
(* ------------------------------------------------------------------------- *)
(* the part of the context the fragment depends on *)
Definition view (c : rctx) := (cur c, stack c, depth c, objects c, rectypes c, fwd c).

Definition bump (e : entry) : entry :=
  {| e_rule := e_rule e; e_dtype := e_dtype e; e_count := e_count e + 1; e_expected := e_expected e; e_keys := e_keys e |}.
Definition with_rule (e : entry) (r : rule) : entry :=
  {| e_rule := r; e_dtype := e_dtype e; e_count := e_count e; e_expected := e_expected e; e_keys := e_keys e |}.
Definition adv_entry (e : entry) : entry := with_rule (bump e) (next_rule (e_rule e)).
Definition room (e : entry) : Prop := match e_expected e with Some x => e_count e + 1 <= x | None => True end.
Definition nno_state (c : rctx) : rctx := set_objects (set_cur c (bump (cur c))) (objects c + 1).

Lemma nno_ok cfg c :
  room (cur c) -> objects c + 1 <= max_object_count cfg -> notify_new_object cfg true c = Some (nno_state c).
Proof.
  unfold notify_new_object, room, nno_state, bump. intros R O.
  destruct (e_expected (cur c)) as [x|]; cbn [andb].
  - destruct (x <? e_count (cur c) + 1) eqn:X; [lia|]. destruct (max_object_count cfg <? objects c + 1) eqn:Y; [lia | reflexivity].
  - destruct (max_object_count cfg <? objects c + 1) eqn:Y; [lia | reflexivity].
Qed.

Lemma call_current_cell cfg m a c r :
  e_rule (cur c) = r -> call_current cfg m a c = exec_prims cfg (call_rule 5 cfg) r m a (dispatch r m) c.
Proof. intros <-. reflexivity. Qed.

Lemma in_value_rules r : is_value_rule r = true -> In r value_rules.
Proof.
  unfold is_value_rule. intro H. apply existsb_exists in H as [x [I E]]. apply rule_beq_true in E. subst. exact I.
Qed.

Lemma with_rule_same e : with_rule e (e_rule e) = e.
Proof. destruct e; reflexivity. Qed.

(* the rule-change cells *)
Lemma value_cell_exec cfg f r m a c :
  is_value_rule r = true -> In m leaf_meths -> (m = MNull -> null_allowed r = true) ->
  (m = MArray -> validate_full_array_any cfg (a_arrty a) (a_count a) (a_data a) = true /\
                 assert_array_type (a_arrty a) Allow_NonNull = true /\ assert_array_type (a_arrty a) Allow_Any = true) ->
  (m = MStringlikeArray -> validate_full_array_stringlike cfg (a_arrty a) (a_data a) = true /\
                 assert_array_type (a_arrty a) Allow_NonNull = true /\ assert_array_type (a_arrty a) Allow_Any = true) ->
  e_rule (cur c) = r ->
  exec_prims cfg (call_rule f cfg) r m a (dispatch r m) c = Some (set_cur c (with_rule (cur c) (next_rule r))).
Proof.
  intros V M HN HA HS R. apply in_value_rules in V.
  pose proof value_table as T. rewrite forallb_forall in T. specialize (T r V).
  do 7 (apply andb_true_iff in T as [T _]). rewrite forallb_forall in T. specialize (T m M).
  apply orb_true_iff in T as [T|T].
  { destruct m; try discriminate T. rewrite HN in T by reflexivity. discriminate. }
  apply andb_true_iff in T as [T1 T2].
  destruct (guarded_change (dispatch r m)) as [tgt|] eqn:G; [|discriminate].
  rewrite (guarded_change_exec cfg _ r m a _ tgt c G).
  - f_equal. unfold expected_change in T1. destruct (rule_beq r (next_rule r)) eqn:B.
    + apply rule_beq_true in B. destruct tgt; [discriminate|]. rewrite <- B, <- R, with_rule_same. destruct c; reflexivity.
    + destruct tgt as [x|]; [|discriminate]. apply rule_beq_true in T1. subst x. reflexivity.
  - apply forallb_forall. intros p Hp.
    assert (is_guard p = true -> guard_holds cfg a p = true) as X.
    { intro Gp. destruct p; try discriminate Gp; cbn [guard_holds].
      - (* ValidateAny *)
        destruct m; cbn in M; try (exfalso; intuition congruence);
          try (rewrite forallb_forall in T2; specialize (T2 _ Hp); discriminate T2).
        + apply HA; reflexivity.
        + exfalso. unfold has_any_validator in T2. apply negb_true_iff in T2.
          assert (existsb (fun p => match p with PValidateFullArrayAnyType => true | _ => false end) (dispatch r MStringlikeArray) = true) as Y
            by (apply existsb_exists; eexists; split; [exact Hp | reflexivity]). congruence.
      - (* ValidateStringlike *)
        destruct m; cbn in M; try (exfalso; intuition congruence);
          try (rewrite forallb_forall in T2; specialize (T2 _ Hp); discriminate T2).
        + exfalso. unfold has_stringlike_validator in T2. apply negb_true_iff in T2.
          assert (existsb (fun p => match p with PValidateFullArrayStringlike => true | _ => false end) (dispatch r MArray) = true) as Y
            by (apply existsb_exists; eexists; split; [exact Hp | reflexivity]). congruence.
        + apply HS; reflexivity.
      - (* Assert *)
        destruct m0; try discriminate Gp; cbn [mask_value];
          (destruct m; cbn in M; try (exfalso; intuition congruence);
           try (rewrite forallb_forall in T2; specialize (T2 _ Hp); discriminate T2);
           [apply HA; reflexivity | apply HS; reflexivity]). }
    destruct (is_guard p) eqn:Gp; [auto|].
    (* not a guard: the final rule change *)
    clear -G Hp Gp. revert tgt G. induction (dispatch r m) as [|q rest IH]; intros tgt G; [destruct Hp|].
    destruct Hp as [->|Hp].
    + destruct p; try discriminate Gp; try reflexivity; cbn [guarded_change] in G; try (destruct rest; discriminate G).
      rewrite Gp in G. discriminate G.
    + cbn [guarded_change] in G. destruct q; cbn [is_guard] in G; try discriminate G;
        try (destruct rest; [destruct Hp | discriminate G]); try (exact (IH Hp _ G)).
      all: destruct m0; try discriminate G; exact (IH Hp _ G).
Qed.

(* a leaf event: its plan *)
Lemma leaf_plan cfg e :
  leaf_ok cfg e = true ->
  exists pl, ev_plan cfg e = Some pl /\ p_nno pl = Some true /\ p_out pl = nn e /\
    In (p_meth pl) leaf_meths /\
    (p_meth pl = MNull -> is_null_event e = true) /\
    (p_meth pl = MArray -> validate_full_array_any cfg (a_arrty (p_args pl)) (a_count (p_args pl)) (a_data (p_args pl)) = true /\
                 assert_array_type (a_arrty (p_args pl)) Allow_NonNull = true /\ assert_array_type (a_arrty (p_args pl)) Allow_Any = true) /\
    (p_meth pl = MStringlikeArray -> validate_full_array_stringlike cfg (a_arrty (p_args pl)) (a_data (p_args pl)) = true /\
                 assert_array_type (a_arrty (p_args pl)) Allow_NonNull = true /\ assert_array_type (a_arrty (p_args pl)) Allow_Any = true).
Proof.
  destruct e as [| |v| |m t| |b| | |n|n|z|[z|]|bits|[bf|]|[| | |]|[[| | |]|]|s|b|s| | |id|id| | | |id|id|t cnt d|t d|mt d|ct d|ct d|t|mt|t ct|n m|d];
    cbn [leaf_ok]; intro L; try discriminate L; cbn [ev_plan nn];
    repeat match goal with H : _ && _ = true |- _ => apply andb_true_iff in H as [H ?] end;
    try match goal with H : array_api_ok _ = true |- _ => rewrite H end;
    try match goal with |- context [if ?b then _ else _] => destruct b end;
    unfold mkplan; eexists; (split; [reflexivity|]); cbn [p_nno p_meth p_args p_out a_arrty a_count a_data array_args];
    (split; [reflexivity|]); (split; [reflexivity|]);
    (split; [cbn; tauto|]); repeat split; try discriminate; try reflexivity; try assumption.
Qed.

Lemma nno_state_view c : view (nno_state c) = (bump (cur c), stack c, depth c, objects c + 1, rectypes c, fwd c).
Proof. reflexivity. Qed.

(* S1: padding and comments *)
Definition trivia_rule (r : rule) : bool := is_value_rule r || rule_beq r RMapKey || rule_beq r RRecordType.
Lemma trivia_cells r : trivia_rule r = true -> dispatch r MPadding = [] /\ dispatch r MComment = [].
Proof.
  unfold trivia_rule. intro H. apply orb_true_iff in H as [H|H]; [apply orb_true_iff in H as [H|H]|].
  - apply in_value_rules in H. pose proof value_table as T. rewrite forallb_forall in T. specialize (T r H).
    do 5 (apply andb_true_iff in T as [T _]). apply andb_true_iff in T as [T T2]. apply andb_true_iff in T as [_ T1].
    split; apply prims_eqb_eq; assumption.
  - apply rule_beq_true in H. subst. pose proof other_cells as T.
    do 10 (apply andb_true_iff in T as [T _]). apply andb_true_iff in T as [T T2]. apply andb_true_iff in T as [_ T1].
    split; apply prims_eqb_eq; assumption.
  - apply rule_beq_true in H. subst. pose proof other_cells as T.
    do 8 (apply andb_true_iff in T as [T _]). apply andb_true_iff in T as [T T2]. apply andb_true_iff in T as [_ T1].
    split; apply prims_eqb_eq; assumption.
Qed.

Lemma step_trivia cfg c t :
  trivia_rule (e_rule (cur c)) = true -> rstep cfg c (trivia_event t) = Some (c, [trivia_event t]).
Proof.
  intro R. destruct (trivia_cells _ R) as [P C]. rewrite rstep_plan.
  destruct t; cbn [trivia_event ev_plan]; unfold mkplan, plan_step; cbn [p_nno p_meth p_args p_out];
    rewrite (call_current_cell cfg _ _ c _ eq_refl); [rewrite P | rewrite C]; reflexivity.
Qed.

Lemma steps_trivia cfg c ts :
  trivia_rule (e_rule (cur c)) = true -> steps cfg c (map trivia_event ts) = Some c.
Proof.
  intro R. induction ts as [|t ts IH]; [reflexivity|]. cbn [map steps]. rewrite step_trivia by exact R. exact IH.
Qed.

(* S2: a value delivered in one event *)
Lemma step_leaf cfg c e r :
  e_rule (cur c) = r -> is_value_rule r = true -> leaf_ok cfg e = true ->
  (null_allowed r = false -> is_null_event e = false) ->
  room (cur c) -> objects c + 1 <= max_object_count cfg ->
  exists c', rstep cfg c e = Some (c', [nn e]) /\
             view c' = (adv_entry (cur c), stack c, depth c, objects c + 1, rectypes c, fwd c).
Proof.
  intros R V L N Rm O. destruct (leaf_plan cfg e L) as [pl [P [P1 [P2 [P3 [P4 [P5 P6]]]]]]].
  rewrite rstep_plan, P. unfold plan_step. rewrite P1, (nno_ok cfg c Rm O).
  rewrite (call_current_cell cfg _ _ (nno_state c) r) by (cbn; exact R).
  rewrite (value_cell_exec cfg 5 r (p_meth pl) (p_args pl) (nno_state c) V P3); auto.
  - rewrite P2. eexists. split; [reflexivity|]. unfold view. rsimpl. unfold adv_entry. rewrite R. reflexivity.
  - intro M. destruct (null_allowed r) eqn:NA; [reflexivity|]. rewrite (N eq_refl) in P4. specialize (P4 M). discriminate.
Qed.

(* S3: container begin events *)
Definition begin_spec (e : event) : option (meth * rule * N * option N) :=
  match e with
  | EList => Some (MList, RList, DT_List, None)
  | EMap => Some (MMap, RMapKey, DT_Map, None)
  | EEdge => Some (MEdge, REdgeSource, DT_Edge, Some 3)
  | ENode => Some (MNode, RNode, DT_List, None)
  | _ => None
  end.

Lemma begin_cells r : is_value_rule r = true ->
  dispatch r MList = [PBeginList] /\ dispatch r MMap = [PBeginMap] /\ dispatch r MEdge = [PBeginEdge] /\
  dispatch r MNode = [PBeginNode] /\ dispatch r MRecord = [PBeginRecord].
Proof.
  intro H. apply in_value_rules in H. pose proof value_table as T. rewrite forallb_forall in T. specialize (T r H).
  apply andb_true_iff in T as [T T5]. apply andb_true_iff in T as [T T4]. apply andb_true_iff in T as [T T3].
  apply andb_true_iff in T as [T T2]. apply andb_true_iff in T as [T T1].
  repeat split; apply prims_eqb_eq; assumption.
Qed.

Lemma step_begin cfg c e r m rc dt exp :
  begin_spec e = Some (m, rc, dt, exp) -> e_rule (cur c) = r -> is_value_rule r = true ->
  room (cur c) -> objects c + 1 <= max_object_count cfg -> depth c + 1 <= max_container_depth cfg ->
  exists c', rstep cfg c e = Some (c', [e]) /\
             view c' = (mk_entry rc dt exp, bump (cur c) :: stack c, depth c + 1, objects c + 1, rectypes c, fwd c).
Proof.
  intros B R V Rm O D. destruct (begin_cells r V) as [C1 [C2 [C3 [C4 _]]]]. rewrite rstep_plan.
  destruct e; try discriminate B; cbn [begin_spec] in B; inv_some; cbn [ev_plan]; unfold mkplan, plan_step;
    cbn [p_nno p_meth p_args p_out]; rewrite (nno_ok cfg c Rm O);
    rewrite (call_current_cell cfg _ _ (nno_state c) (e_rule (cur c))) by reflexivity;
    rewrite ?C1, ?C2, ?C3, ?C4; cbn [exec_prims exec_prim]; unfold begin_container, nno_state; rsimpl;
    (destruct (max_container_depth cfg <? depth c + 1) eqn:X; [lia|]);
    (eexists; split; [reflexivity | reflexivity]).
Qed.

Lemma step_begin_record cfg c id r n :
  e_rule (cur c) = r -> is_value_rule r = true -> validate_identifier cfg id = true -> alookup id (rectypes c) = Some n ->
  room (cur c) -> objects c + 1 <= max_object_count cfg -> depth c + 1 <= max_container_depth cfg ->
  exists c', rstep cfg c (ERecord id) = Some (c', [ERecord id]) /\
             view c' = (mk_entry RRecord DT_Record (Some n), bump (cur c) :: stack c, depth c + 1, objects c + 1, rectypes c, fwd c).
Proof.
  intros R V I A Rm O D. destruct (begin_cells r V) as [_ [_ [_ [_ C]]]]. rewrite rstep_plan.
  cbn [ev_plan]. rewrite I. unfold mkplan, plan_step. cbn [p_nno p_meth p_args p_out]. rewrite (nno_ok cfg c Rm O).
  rewrite (call_current_cell cfg _ _ (nno_state c) r) by (cbn; exact R). rewrite C.
  cbn [exec_prims exec_prim with_id a_id]. unfold nno_state. rsimpl. rewrite A. unfold begin_container. rsimpl.
  destruct (max_container_depth cfg <? depth c + 1) eqn:X; [lia|]. eexists; split; reflexivity.
Qed.

(* S4: the end of a container whose parent expects a value *)
Definition closable (r : rule) : bool :=
  rule_beq r RList || rule_beq r RMapKey || rule_beq r RRecord || rule_beq r REdgeDestination.
Lemma end_cells r : closable r = true -> dispatch r MEnd = [PEndContainer true].
Proof.
  unfold closable. intro H. pose proof other_cells as T.
  do 12 (apply andb_true_iff in T as [T _]).
  apply andb_true_iff in T as [T T4]. apply andb_true_iff in T as [T T3]. apply andb_true_iff in T as [T1 T2].
  repeat (apply orb_true_iff in H as [H|H]); apply rule_beq_true in H; subst; apply prims_eqb_eq; assumption.
Qed.

Lemma step_end cfg c p st r :
  closable (e_rule (cur c)) = true -> stack c = p :: st -> e_rule p = r -> is_value_rule r = true ->
  depth c <> 0 -> match e_expected (cur c) with Some x => e_count (cur c) = x | None => True end ->
  (e_dtype (cur c) =? DT_RecordType) = false ->
  exists c', rstep cfg c EEnd = Some (c', [EEnd]) /\
             view c' = (with_rule p (next_rule r), st, depth c - 1, objects c, rectypes c, fwd c).
Proof.
  intros Cl S R V D X T. rewrite rstep_plan. cbn [ev_plan]. unfold mkplan, plan_step. cbn [p_nno p_meth p_args p_out].
  rewrite (call_current_cell cfg _ _ c _ eq_refl), (end_cells _ Cl). cbn [exec_prims exec_prim].
  unfold end_container. destruct (depth c =? 0) eqn:D0; [lia|].
  assert (match e_expected (cur c) with Some x => negb (e_count (cur c) =? x) | None => false end = false) as ->.
  { destruct (e_expected (cur c)); [subst; rewrite N.eqb_refl; reflexivity | reflexivity]. }
  rewrite T. unfold end_container_like, unstack_rule. rsimpl. rewrite S. rsimpl. rewrite R.
  change (call_rule 5 cfg r MChildContainerEnded) with (fun a c => exec_prims cfg (call_rule 4 cfg) r MChildContainerEnded a (dispatch r MChildContainerEnded) c).
  cbv beta. rewrite (value_cell_exec cfg 4 r MChildContainerEnded); auto; try discriminate; [|cbn; tauto].
  eexists. split; [reflexivity|]. unfold view. rsimpl. reflexivity.
Qed.

(* S5: keys (map keys and record-type field names) *)
Definition change_cell (tgt : option rule) : list prim := match tgt with Some r' => [PChangeRule r'] | None => [] end.
Definition keyed (e : entry) (k : rawkey) (tgt : option rule) : entry :=
  {| e_rule := match tgt with Some r' => r' | None => e_rule e end; e_dtype := e_dtype e; e_count := e_count e + 1;
     e_expected := e_expected e; e_keys := norm_key k :: e_keys e |}.

Lemma string_types_ok t : (t =? AT_String) || (t =? AT_ResourceID) = true ->
  array_api_ok t = true /\ assert_array_type t Allow_Keyable = true.
Proof.
  intro H. apply orb_true_iff in H as [H|H]; apply N.eqb_eq in H; subst; vm_compute; split; reflexivity.
Qed.

Lemma step_key_gen cfg c e k rk tgt :
  e_rule (cur c) = rk ->
  dispatch rk MKeyableObject = PNotifyKeyArg :: change_cell tgt ->
  dispatch rk MStringlikeArray = PValidateFullArrayStringlikeKeyable :: PNotifyKeyFromArrayData :: change_cell tgt ->
  key_ok cfg e = true -> key_of e = Some k ->
  existsb (nkey_eqb (norm_key k)) (e_keys (cur c)) = false ->
  room (cur c) -> objects c + 1 <= max_object_count cfg ->
  exists c', rstep cfg c e = Some (c', [e]) /\
             view c' = (keyed (cur c) k tgt, stack c, depth c, objects c + 1, rectypes c, fwd c).
Proof.
  intros R C1 C2 KO K Fr Rm O. subst rk. rewrite rstep_plan. unfold key_ok in KO. rewrite K in KO.
  destruct e as [| |v| |m t| |b| | |n|n|z|[z|]|bits|[bf|]|d|[d|]|s|b|s| | |id|id| | | |id|id|t cnt d|t d|mt d|ct d|ct d|t|mt|t ct|n m|d];
    cbn [key_of] in K; try discriminate K.
  all: try (inv_some; cbn [ev_plan]; unfold mkplan, plan_step; cbn [p_nno p_meth p_args p_out]; rewrite (nno_ok cfg c Rm O);
            rewrite (call_current_cell cfg _ _ (nno_state c) (e_rule (cur c))) by reflexivity; rewrite C1;
            cbn [exec_prims exec_prim key_args a_key]; unfold notify_key, nno_state, bump; rsimpl; rewrite Fr;
            destruct tgt; cbn [change_cell exec_prims exec_prim]; eexists; split; reflexivity).
  (* a string or a resource id *)
  assert ((t =? AT_String) || (t =? AT_ResourceID) = true) as ST.
  { destruct (t =? AT_String); [reflexivity|]. destruct (t =? AT_ResourceID); [reflexivity | discriminate K]. }
  destruct (string_types_ok t ST) as [A1 A2].
  cbn [ev_plan]. rewrite A1. unfold mkplan, plan_step. cbn [p_nno p_meth p_args p_out]. rewrite (nno_ok cfg c Rm O).
  rewrite (call_current_cell cfg _ _ (nno_state c) (e_rule (cur c))) by reflexivity. rewrite C2.
  cbn [exec_prims exec_prim array_args a_arrty a_data]. rewrite A2, KO. cbn [andb]. unfold key_from_array.
  destruct (t =? AT_String) eqn:T1.
  - inv_some. unfold notify_key, nno_state, bump; rsimpl. rewrite Fr.
    destruct tgt; cbn [change_cell exec_prims exec_prim]; eexists; split; reflexivity.
  - destruct (t =? AT_ResourceID) eqn:T2; [|discriminate K]. inv_some. unfold notify_key, nno_state, bump; rsimpl. rewrite Fr.
    destruct tgt; cbn [change_cell exec_prims exec_prim]; eexists; split; reflexivity.
Qed.

Lemma key_cells :
  dispatch RMapKey MKeyableObject = PNotifyKeyArg :: change_cell (Some RMapValue) /\
  dispatch RMapKey MStringlikeArray = PValidateFullArrayStringlikeKeyable :: PNotifyKeyFromArrayData :: change_cell (Some RMapValue) /\
  dispatch RRecordType MKeyableObject = PNotifyKeyArg :: change_cell None /\
  dispatch RRecordType MStringlikeArray = PValidateFullArrayStringlikeKeyable :: PNotifyKeyFromArrayData :: change_cell None.
Proof.
  pose proof other_cells as T. do 4 (apply andb_true_iff in T as [T _]).
  apply andb_true_iff in T as [T T4]. apply andb_true_iff in T as [T T3]. apply andb_true_iff in T as [T T2]. apply andb_true_iff in T as [_ T1].
  repeat split; apply prims_eqb_eq; assumption.
Qed.

(* ------------------------------------------------------------------------- *)
(* Induction on trees                                                         *)
(* ------------------------------------------------------------------------- *)
Section ValInd.
  Variable P : val -> Prop.
  Hypothesis Hleaf : forall e, P (VLeaf e).
  Hypothesis HT : forall t v, P v -> P (VT t v).
  Hypothesis HList : forall items close, Forall P items -> P (VList items close).
  Hypothesis HMap : forall entries close, Forall (fun en => P (snd en)) entries -> P (VMap entries close).
  Hypothesis HNode : forall v items close, P v -> Forall P items -> P (VNode v items close).
  Hypothesis HEdge : forall s d t close, P s -> P d -> P t -> P (VEdge s d t close).
  Hypothesis HRecord : forall id fields close, Forall P fields -> P (VRecord id fields close).

  Fixpoint val_ind' (v : val) : P v :=
    match v with
    | VLeaf e => Hleaf e
    | VT t v => HT t v (val_ind' v)
    | VList items close =>
        HList items close ((fix go (l : list val) : Forall P l :=
                              match l with [] => Forall_nil _ | x :: r => Forall_cons x (val_ind' x) (go r) end) items)
    | VMap entries close =>
        HMap entries close ((fix go (l : list (list trivia * event * val)) : Forall (fun en => P (snd en)) l :=
                               match l with [] => Forall_nil _ | x :: r => Forall_cons x (val_ind' (snd x)) (go r) end) entries)
    | VNode v items close =>
        HNode v items close (val_ind' v)
              ((fix go (l : list val) : Forall P l :=
                  match l with [] => Forall_nil _ | x :: r => Forall_cons x (val_ind' x) (go r) end) items)
    | VEdge s d t close => HEdge s d t close (val_ind' s) (val_ind' d) (val_ind' t)
    | VRecord id fields close =>
        HRecord id fields close ((fix go (l : list val) : Forall P l :=
                                    match l with [] => Forall_nil _ | x :: r => Forall_cons x (val_ind' x) (go r) end) fields)
    end.
End ValInd.

(* what a value does to the context *)
Definition val_complete (cfg : rcfg) (v : val) : Prop :=
  forall c nnull, wf_val cfg (rectypes c) nnull v = true ->
    is_value_rule (e_rule (cur c)) = true ->
    (null_allowed (e_rule (cur c)) = false -> nnull = true) ->
    room (cur c) ->
    objects c + object_usage (flatten v) <= max_object_count cfg ->
    depth c + height v <= max_container_depth cfg ->
    exists c', steps cfg c (flatten v) = Some c' /\
               view c' = (adv_entry (cur c), stack c, depth c, objects c + object_usage (flatten v), rectypes c, fwd c).

(* the context after some children of a container: everything as before except the counters *)
Definition same_upto (c c' : rctx) (nobj k : N) : Prop :=
  stack c' = stack c /\ depth c' = depth c /\ objects c' = objects c + nobj /\ rectypes c' = rectypes c /\ fwd c' = fwd c /\
  e_rule (cur c') = e_rule (cur c) /\ e_dtype (cur c') = e_dtype (cur c) /\ e_count (cur c') = e_count (cur c) + k /\
  e_expected (cur c') = e_expected (cur c) /\ e_keys (cur c') = e_keys (cur c).

Lemma same_upto_refl c : same_upto c c 0 0.
Proof. unfold same_upto. repeat split; lia. Qed.
Lemma same_upto_trans c1 c2 c3 n1 k1 n2 k2 :
  same_upto c1 c2 n1 k1 -> same_upto c2 c3 n2 k2 -> same_upto c1 c3 (n1 + n2) (k1 + k2).
Proof. unfold same_upto. intros H1 H2. decompose [and] H1. decompose [and] H2. repeat split; try congruence; lia. Qed.

Lemma object_usage_app a b : object_usage (a ++ b) = object_usage a + object_usage b.
Proof. apply count_if_app. Qed.
Lemma object_usage_trivia ts : object_usage (map trivia_event ts) = 0.
Proof. induction ts as [|t ts IH]; [reflexivity|]. unfold object_usage in *. cbn [map count_if]. rewrite IH. destruct t; reflexivity. Qed.

(* children of a list / record: the rule stays *)
Lemma items_complete cfg items :
  Forall (val_complete cfg) items ->
  forall c, is_value_rule (e_rule (cur c)) = true -> next_rule (e_rule (cur c)) = e_rule (cur c) ->
    null_allowed (e_rule (cur c)) = true ->
    forallb (wf_val cfg (rectypes c) false) items = true ->
    match e_expected (cur c) with Some x => e_count (cur c) + N.of_nat (length items) <= x | None => True end ->
    objects c + object_usage (flat_map flatten items) <= max_object_count cfg ->
    depth c + list_max (map height items) <= max_container_depth cfg ->
    exists c', steps cfg c (flat_map flatten items) = Some c' /\
               same_upto c c' (object_usage (flat_map flatten items)) (N.of_nat (length items)).
Proof.
  induction 1 as [|v items Hv Hitems IH]; intros c V Nx NA W Rm O D.
  - exists c. split; [reflexivity | apply same_upto_refl].
  - cbn [forallb flat_map map list_max fold_right length] in *. apply andb_true_iff in W as [W1 W2].
    rewrite object_usage_app in O.
    destruct (Hv c false W1 V) as [c1 [S1 V1]].
    { rewrite NA. discriminate. }
    { unfold room. destruct (e_expected (cur c)); [lia | exact I]. }
    { lia. } { fold (list_max (map height items)) in D. lia. }
    unfold view in V1. inversion V1 as [[E1 E2 E3 E4 E5 E6]]. clear V1.
    assert (same_upto c c1 (object_usage (flatten v)) 1) as U1.
    { unfold same_upto. rewrite E1. unfold adv_entry. cbn. rewrite Nx. repeat split; auto. }
    destruct (IH c1) as [c2 [S2 U2]].
    + rewrite E1. cbn. rewrite Nx. exact V.
    + rewrite E1. cbn. rewrite !Nx. reflexivity.
    + rewrite E1. cbn. rewrite Nx. exact NA.
    + rewrite E5. exact W2.
    + rewrite E1. cbn. destruct (e_expected (cur c)); [lia | exact I].
    + rewrite E4. lia.
    + rewrite E3. fold (list_max (map height items)) in D. lia.
    + exists c2. split; [rewrite steps_app, S1; exact S2|].
      rewrite object_usage_app. replace (N.of_nat (S (length items))) with (1 + N.of_nat (length items)) by lia.
      eapply same_upto_trans; eauto.
Qed.

Lemma object_usage_cons e l : object_usage (e :: l) = (if counts_object e then 1 else 0) + object_usage l.
Proof. reflexivity. Qed.

(* entries of a map *)
Definition map_upto (c c' : rctx) (nobj : N) : Prop :=
  stack c' = stack c /\ depth c' = depth c /\ objects c' = objects c + nobj /\ rectypes c' = rectypes c /\ fwd c' = fwd c /\
  e_rule (cur c') = RMapKey /\ e_dtype (cur c') = e_dtype (cur c) /\ e_expected (cur c') = e_expected (cur c).

Definition entry_events (en : list trivia * event * val) : list event :=
  let '(tv, k, v) := en in map trivia_event tv ++ k :: flatten v.

Lemma nkey_eqb_sym a b : nkey_eqb a b = nkey_eqb b a.
Proof.
  destruct (nkey_eqb a b) eqn:E1, (nkey_eqb b a) eqn:E2; try reflexivity.
  - apply nkey_eqb_eq in E1. subst. assert (nkey_eqb b b = true) by (apply nkey_eqb_eq; reflexivity). congruence.
  - apply nkey_eqb_eq in E2. subst. assert (nkey_eqb a a = true) by (apply nkey_eqb_eq; reflexivity). congruence.
Qed.

Lemma key_ok_key_of cfg k : key_ok cfg k = true -> exists rk, key_of k = Some rk.
Proof. unfold key_ok. destruct (key_of k); [eauto | discriminate]. Qed.

Lemma key_event_object k rk : key_of k = Some rk -> counts_object k = true.
Proof. destruct k; cbn; try discriminate; reflexivity. Qed.

Lemma entries_complete cfg entries :
  Forall (fun en => val_complete cfg (snd en)) entries ->
  forall c, e_rule (cur c) = RMapKey -> e_expected (cur c) = None ->
    forallb (fun en => let '(_, k, v) := en in key_ok cfg k && wf_val cfg (rectypes c) false v) entries = true ->
    nkeys_distinct (map (fun en => let '(_, k, _) := en in nkey_of k) entries) = true ->
    (forall tv k v nk, In (tv, k, v) entries -> nkey_of k = Some nk -> existsb (nkey_eqb nk) (e_keys (cur c)) = false) ->
    objects c + object_usage (flat_map entry_events entries) <= max_object_count cfg ->
    depth c + list_max (map (fun en => let '(_, _, v) := en in height v) entries) <= max_container_depth cfg ->
    exists c', steps cfg c (flat_map entry_events entries) = Some c' /\
               map_upto c c' (object_usage (flat_map entry_events entries)).
Proof.
  induction 1 as [|[[tv k] v] entries Hv Hent IH]; intros c R X W Dk Fr O D.
  - exists c. split; [reflexivity|]. unfold map_upto. cbn. repeat split; auto; lia.
  - cbn [forallb flat_map map list_max fold_right entry_events nkeys_distinct snd] in *.
    apply andb_true_iff in W as [W1 W2]. apply andb_true_iff in W1 as [Wk Wv].
    destruct (key_ok_key_of _ _ Wk) as [rk K].
    assert (nkey_of k = Some (norm_key rk)) as NK by (unfold nkey_of; rewrite K; reflexivity).
    rewrite NK in Dk. apply andb_true_iff in Dk as [Dk1 Dk2]. apply negb_true_iff in Dk1.
    rewrite !object_usage_app, object_usage_trivia in O. change (k :: flatten v) with ([k] ++ flatten v) in O.
    rewrite object_usage_app in O. unfold object_usage at 1 in O. cbn [count_if] in O. rewrite (key_event_object _ _ K) in O.
    (* trivia *)
    rewrite <- app_assoc, steps_app, steps_trivia by (rewrite R; reflexivity).
    (* key *)
    destruct key_cells as [C1 [C2 _]].
    destruct (step_key_gen cfg c k rk RMapKey (Some RMapValue) R C1 C2 Wk K) as [c1 [S1 V1]].
    { eapply Fr; [left; reflexivity | exact NK]. } { unfold room. rewrite X. exact I. } { lia. }
    cbn [app steps]. rewrite S1. unfold view in V1. inversion V1 as [[E1 E2 E3 E4 E5 E6]]. clear V1.
    (* value *)
    destruct (Hv c1 false) as [c2 [S2 V2]].
    { rewrite E5. exact Wv. } { rewrite E1. reflexivity. } { rewrite E1. cbn. discriminate. }
    { unfold room. rewrite E1. cbn. rewrite X. exact I. } { rewrite E4. lia. }
    { rewrite E3. fold (list_max (map (fun en => let '(_, _, v) := en in height v) entries)) in D. lia. }
    unfold view in V2. inversion V2 as [[F1 F2 F3 F4 F5 F6]]. clear V2.
    (* the rest *)
    destruct (IH c2) as [c3 [S3 U3]].
    + rewrite F1, E1. reflexivity.
    + rewrite F1, E1. cbn. exact X.
    + rewrite F5, E5. exact W2.
    + exact Dk2.
    + intros tv' k' v' nk' I' NK'. rewrite F1, E1. cbn [adv_entry with_rule bump keyed e_keys existsb].
      apply orb_false_iff. split.
      * rewrite nkey_eqb_sym. clear -Dk1 I' NK'.
        induction entries as [|[[a b] d] entries IHe]; [destruct I'|]. cbn [map existsb] in Dk1.
        apply orb_false_iff in Dk1 as [D1 D2]. destruct I' as [I'|I'].
        -- inversion I'; subst. rewrite NK' in D1. exact D1.
        -- apply IHe; assumption.
      * eapply Fr; [right; exact I' | exact NK'].
    + rewrite F4, E4. lia.
    + rewrite F3, E3. fold (list_max (map (fun en => let '(_, _, v) := en in height v) entries)) in D. lia.
    + exists c3. split.
      * rewrite steps_app, S2. exact S3.
      * unfold map_upto in *. destruct U3 as [U1 [U2 [U3 [U4 [U5 [U6 [U7 U8]]]]]]]. 
        rewrite object_usage_app, object_usage_trivia, object_usage_cons, object_usage_app, (key_event_object _ _ K).
        rewrite F1, E1 in U7, U8. cbn in U7, U8.
        repeat split; try congruence. rewrite U3, F4, E4. lia.
Qed.

Lemma leaf_counts cfg e : leaf_ok cfg e = true -> counts_object e = true.
Proof. destruct e; cbn; try discriminate; reflexivity. Qed.

Lemma value_rule_trivia r : is_value_rule r = true -> trivia_rule r = true.
Proof. unfold trivia_rule. intros ->. reflexivity. Qed.

(* closing a container: trivia, then the end event *)
Lemma finish_container cfg c c2 close :
  is_value_rule (e_rule (cur c)) = true ->
  stack c2 = bump (cur c) :: stack c -> depth c2 = depth c + 1 ->
  closable (e_rule (cur c2)) = true -> trivia_rule (e_rule (cur c2)) = true ->
  match e_expected (cur c2) with Some x => e_count (cur c2) = x | None => True end ->
  (e_dtype (cur c2) =? DT_RecordType) = false ->
  exists c3, steps cfg c2 (map trivia_event close ++ [EEnd]) = Some c3 /\
             view c3 = (adv_entry (cur c), stack c, depth c, objects c2, rectypes c2, fwd c2).
Proof.
  intros V S D Cl Tr X T. rewrite steps_app, steps_trivia by exact Tr.
  destruct (step_end cfg c2 (bump (cur c)) (stack c) (e_rule (cur c)) Cl S eq_refl V) as [c3 [S3 V3]]; try assumption; [lia|].
  exists c3. cbn [steps]. rewrite S3. split; [reflexivity|]. rewrite V3. unfold adv_entry. repeat f_equal. lia.
Qed.

Lemma dtypes_not_rectype :
  (DT_List =? DT_RecordType) = false /\ (DT_Map =? DT_RecordType) = false /\ (DT_Edge =? DT_RecordType) = false /\
  (DT_Record =? DT_RecordType) = false.
Proof. vm_compute. repeat split; reflexivity. Qed.

Theorem value_complete cfg : forall v, val_complete cfg v.
Proof.
  apply val_ind'; unfold val_complete.
  - (* leaf *)
    intros e c nnull W V NN Rm O D. cbn [wf_val flatten] in *. apply andb_true_iff in W as [L Nl].
    unfold object_usage in O |- *. cbn [count_if] in O |- *. rewrite (leaf_counts _ _ L) in O |- *. cbv iota in O |- *.
    destruct (step_leaf cfg c e _ eq_refl V L) as [c' [S V']]; try assumption.
    + intro NA. rewrite (NN NA) in Nl. cbn in Nl. apply negb_true_iff in Nl. exact Nl.
    + exists c'. cbn [steps]. rewrite S. split; [reflexivity|]. rewrite V'. repeat f_equal; lia.
  - (* trivia *)
    intros t v IH c nnull W V NN Rm O D. cbn [wf_val flatten height] in *.
    rewrite object_usage_cons in O |- *. assert (counts_object (trivia_event t) = false) as Ct by (destruct t; reflexivity).
    rewrite Ct in O |- *. cbn [steps]. rewrite step_trivia by (apply value_rule_trivia; exact V).
    destruct (IH c nnull W V NN Rm) as [c' [S V']]; [lia | exact D |]. exists c'. split; [exact S|]. rewrite V'. repeat f_equal.
  - (* list *)
    intros items close IH c nnull W V NN Rm O D. cbn [wf_val flatten height] in *.
    rewrite object_usage_cons, !object_usage_app, object_usage_trivia in O |- *. cbn [counts_object] in O |- *.
    change (object_usage [EEnd]) with 0 in O |- *.
    destruct (step_begin cfg c EList _ _ _ _ _ eq_refl eq_refl V Rm) as [c1 [S1 V1]]; [clear -O; lia | first [clear -D; lia | clear -D1; lia] |].
    unfold view in V1. inversion V1 as [[E1 E2 E3 E4 E5 E6]]. clear V1.
    assert (is_value_rule (e_rule (cur c1)) = true) as P1 by (rewrite E1; reflexivity).
    assert (next_rule (e_rule (cur c1)) = e_rule (cur c1)) as P2 by (rewrite E1; reflexivity).
    assert (null_allowed (e_rule (cur c1)) = true) as P3 by (rewrite E1; reflexivity).
    assert (forallb (wf_val cfg (rectypes c1) false) items = true) as P4 by (rewrite E5; exact W).
    assert (match e_expected (cur c1) with Some x => e_count (cur c1) + N.of_nat (length items) <= x | None => True end) as P5
      by (rewrite E1; exact I).
    destruct (items_complete cfg items IH c1 P1 P2 P3 P4 P5) as [c2 [S2 U2]]; [rewrite E4; clear -O; lia | rewrite E3; first [clear -D; lia | clear -D1; lia] |].
    destruct U2 as [U1 [U2 [U3 [U4 [U5 [U6 [U7 [U8 [U9 U10]]]]]]]]].
    assert (closable (e_rule (cur c2)) = true) as Q1 by (rewrite U6, E1; reflexivity).
    assert (trivia_rule (e_rule (cur c2)) = true) as Q2 by (rewrite U6, E1; reflexivity).
    assert (match e_expected (cur c2) with Some x => e_count (cur c2) = x | None => True end) as Q3 by (rewrite U9, E1; exact I).
    assert ((e_dtype (cur c2) =? DT_RecordType) = false) as Q4 by (rewrite U7, E1; apply dtypes_not_rectype).
    destruct (finish_container cfg c c2 close V) as [c3 [S3 V3]]; try assumption; try congruence.
    exists c3. split; [cbn [steps]; rewrite S1, steps_app, S2; exact S3|]. rewrite V3, U4, E5, U5, E6, U3, E4. match goal with |- (_, _, _, ?o1, _, _) = (_, _, _, ?o2, _, _) => replace o1 with o2 by (clear; lia); reflexivity end.
  - (* map *)
    intros entries close IH c nnull W V NN Rm O D. cbn [wf_val flatten height] in *.
    apply andb_true_iff in W as [W1 W2].
    change (flat_map (fun en : list trivia * event * val => let '(tv, k, v) := en in map trivia_event tv ++ k :: flatten v) entries)
      with (flat_map entry_events entries) in *.
    rewrite object_usage_cons, !object_usage_app, object_usage_trivia in O |- *. cbn [counts_object] in O |- *.
    change (object_usage [EEnd]) with 0 in O |- *.
    destruct (step_begin cfg c EMap _ _ _ _ _ eq_refl eq_refl V Rm) as [c1 [S1 V1]]; [clear -O; lia | first [clear -D; lia | clear -D1; lia] |].
    unfold view in V1. inversion V1 as [[E1 E2 E3 E4 E5 E6]]. clear V1.
    assert (e_rule (cur c1) = RMapKey) as P1 by (rewrite E1; reflexivity).
    assert (e_expected (cur c1) = None) as P2 by (rewrite E1; reflexivity).
    assert (forallb (fun en => let '(_, k, v) := en in key_ok cfg k && wf_val cfg (rectypes c1) false v) entries = true) as P3
      by (rewrite E5; exact W1).
    assert (forall tv k v nk, In (tv, k, v) entries -> nkey_of k = Some nk -> existsb (nkey_eqb nk) (e_keys (cur c1)) = false) as P4
      by (intros; rewrite E1; reflexivity).
    destruct (entries_complete cfg entries IH c1 P1 P2 P3 W2 P4) as [c2 [S2 U2]]; [rewrite E4; clear -O; lia | rewrite E3; first [clear -D; lia | clear -D1; lia] |].
    destruct U2 as [U1 [U2 [U3 [U4 [U5 [U6 [U7 U8]]]]]]].
    assert (closable (e_rule (cur c2)) = true) as Q1 by (rewrite U6; reflexivity).
    assert (trivia_rule (e_rule (cur c2)) = true) as Q2 by (rewrite U6; reflexivity).
    assert (match e_expected (cur c2) with Some x => e_count (cur c2) = x | None => True end) as Q3 by (rewrite U8, E1; exact I).
    assert ((e_dtype (cur c2) =? DT_RecordType) = false) as Q4 by (rewrite U7, E1; apply dtypes_not_rectype).
    destruct (finish_container cfg c c2 close V) as [c3 [S3 V3]]; try assumption; try congruence.
    exists c3. split; [cbn [steps]; rewrite S1, steps_app, S2; exact S3|]. rewrite V3, U4, E5, U5, E6, U3, E4. match goal with |- (_, _, _, ?o1, _, _) = (_, _, _, ?o2, _, _) => replace o1 with o2 by (clear; lia); reflexivity end.
  - (* node *)
    intros v items close IHv IH c nnull W V NN Rm O D. cbn [wf_val flatten height] in *.
    apply andb_true_iff in W as [W1 W2].
    rewrite object_usage_cons, !object_usage_app, object_usage_trivia in O |- *. cbn [counts_object] in O |- *.
    change (object_usage [EEnd]) with 0 in O |- *.
    assert (depth c + 1 + height v <= max_container_depth cfg /\
            depth c + 1 + list_max (map height items) <= max_container_depth cfg) as [D1 D2] by (clear -D; lia).
    clear D.
    destruct (step_begin cfg c ENode _ _ _ _ _ eq_refl eq_refl V Rm) as [c1 [S1 V1]]; [clear -O; lia | first [clear -D; lia | clear -D1; lia] |].
    unfold view in V1. inversion V1 as [[E1 E2 E3 E4 E5 E6]]. clear V1.
    assert (wf_val cfg (rectypes c1) false v = true) as A1 by (rewrite E5; exact W1).
    assert (is_value_rule (e_rule (cur c1)) = true) as A2 by (rewrite E1; reflexivity).
    assert (null_allowed (e_rule (cur c1)) = false -> false = true) as A3 by (rewrite E1; cbn; discriminate).
    assert (room (cur c1)) as A4 by (rewrite E1; exact I).
    destruct (IHv c1 false A1 A2 A3 A4) as [c2 [S2 V2]]; [rewrite E4; clear -O; lia | rewrite E3; first [clear -D; lia | clear -D1; lia] |].
    unfold view in V2. inversion V2 as [[F1 F2 F3 F4 F5 F6]]. clear V2.
    assert (is_value_rule (e_rule (cur c2)) = true) as P1 by (rewrite F1, E1; reflexivity).
    assert (next_rule (e_rule (cur c2)) = e_rule (cur c2)) as P2 by (rewrite F1, E1; reflexivity).
    assert (null_allowed (e_rule (cur c2)) = true) as P3 by (rewrite F1, E1; reflexivity).
    assert (forallb (wf_val cfg (rectypes c2) false) items = true) as P4 by (rewrite F5, E5; exact W2).
    assert (match e_expected (cur c2) with Some x => e_count (cur c2) + N.of_nat (length items) <= x | None => True end) as P5
      by (rewrite F1, E1; exact I).
    destruct (items_complete cfg items IH c2 P1 P2 P3 P4 P5) as [c3 [S3 U3]]; [rewrite F4, E4; clear -O; lia | rewrite F3, E3; clear -D2; lia |].
    destruct U3 as [U1 [U2 [U3 [U4 [U5 [U6 [U7 [U8 [U9 U10]]]]]]]]].
    assert (closable (e_rule (cur c3)) = true) as Q1 by (rewrite U6, F1, E1; reflexivity).
    assert (trivia_rule (e_rule (cur c3)) = true) as Q2 by (rewrite U6, F1, E1; reflexivity).
    assert (match e_expected (cur c3) with Some x => e_count (cur c3) = x | None => True end) as Q3 by (rewrite U9, F1, E1; exact I).
    assert ((e_dtype (cur c3) =? DT_RecordType) = false) as Q4 by (rewrite U7, F1, E1; apply dtypes_not_rectype).
    destruct (finish_container cfg c c3 close V) as [c4 [S4 V4]]; try assumption; try congruence.
    exists c4. split; [cbn [steps]; rewrite S1, steps_app, S2, steps_app, S3; exact S4|]. rewrite V4, U4, F5, E5, U5, F6, E6, U3, F4, E4. match goal with |- (_, _, _, ?o1, _, _) = (_, _, _, ?o2, _, _) => replace o1 with o2 by (clear; lia); reflexivity end.
  - (* edge *)
    intros s d t close IHs IHd IHt c nnull W V NN Rm O D. cbn [wf_val flatten height] in *.
    apply andb_true_iff in W as [W W3]. apply andb_true_iff in W as [W1 W2].
    rewrite object_usage_cons, !object_usage_app, object_usage_trivia in O |- *. cbn [counts_object] in O |- *.
    change (object_usage [EEnd]) with 0 in O |- *.
    assert (depth c + 1 + height s <= max_container_depth cfg /\ depth c + 1 + height d <= max_container_depth cfg /\
            depth c + 1 + height t <= max_container_depth cfg) as [D1 [D2 D3]] by (clear -D; lia).
    clear D.
    destruct (step_begin cfg c EEdge _ _ _ _ _ eq_refl eq_refl V Rm) as [c1 [S1 V1]]; [clear -O; lia | first [clear -D; lia | clear -D1; lia] |].
    unfold view in V1. inversion V1 as [[E1 E2 E3 E4 E5 E6]]. clear V1.
    assert (wf_val cfg (rectypes c1) true s = true) as A1 by (rewrite E5; exact W1).
    assert (is_value_rule (e_rule (cur c1)) = true) as A2 by (rewrite E1; reflexivity).
    assert (null_allowed (e_rule (cur c1)) = false -> true = true) as A3 by reflexivity.
    assert (room (cur c1)) as A4 by (unfold room; rewrite E1; cbn; clear; lia).
    destruct (IHs c1 true A1 A2 A3 A4) as [c2 [S2 V2]]; [rewrite E4; clear -O; lia | rewrite E3; first [clear -D; lia | clear -D1; lia] |].
    unfold view in V2. inversion V2 as [[F1 F2 F3 F4 F5 F6]]. clear V2.
    assert (wf_val cfg (rectypes c2) false d = true) as B1 by (rewrite F5, E5; exact W2).
    assert (is_value_rule (e_rule (cur c2)) = true) as B2 by (rewrite F1, E1; reflexivity).
    assert (null_allowed (e_rule (cur c2)) = false -> false = true) as B3 by (rewrite F1, E1; cbn; discriminate).
    assert (room (cur c2)) as B4 by (unfold room; rewrite F1, E1; cbn; clear; lia).
    destruct (IHd c2 false B1 B2 B3 B4) as [c3 [S3 V3]]; [rewrite F4, E4; clear -O; lia | rewrite F3, E3; clear -D2; lia |].
    unfold view in V3. inversion V3 as [[G1 G2 G3 G4 G5 G6]]. clear V3.
    assert (wf_val cfg (rectypes c3) true t = true) as C1 by (rewrite G5, F5, E5; exact W3).
    assert (is_value_rule (e_rule (cur c3)) = true) as C2 by (rewrite G1, F1, E1; reflexivity).
    assert (null_allowed (e_rule (cur c3)) = false -> true = true) as C3 by reflexivity.
    assert (room (cur c3)) as C4 by (unfold room; rewrite G1, F1, E1; cbn; clear; lia).
    destruct (IHt c3 true C1 C2 C3 C4) as [c4 [S4 V4]]; [rewrite G4, F4, E4; clear -O; lia | rewrite G3, F3, E3; clear -D3; lia |].
    unfold view in V4. inversion V4 as [[H1 H2 H3 H4 H5 H6]]. clear V4.
    assert (closable (e_rule (cur c4)) = true) as Q1 by (rewrite H1, G1, F1, E1; reflexivity).
    assert (trivia_rule (e_rule (cur c4)) = true) as Q2 by (rewrite H1, G1, F1, E1; reflexivity).
    assert (match e_expected (cur c4) with Some x => e_count (cur c4) = x | None => True end) as Q3
      by (rewrite H1, G1, F1, E1; reflexivity).
    assert ((e_dtype (cur c4) =? DT_RecordType) = false) as Q4 by (rewrite H1, G1, F1, E1; apply dtypes_not_rectype).
    destruct (finish_container cfg c c4 close V) as [c5 [S5 V5]]; try assumption; try congruence.
    exists c5. split; [cbn [steps]; rewrite S1, steps_app, S2, steps_app, S3, steps_app, S4; exact S5|].
    rewrite V5, H5, G5, F5, E5, H6, G6, F6, E6, H4, G4, F4, E4. match goal with |- (_, _, _, ?o1, _, _) = (_, _, _, ?o2, _, _) => replace o1 with o2 by (clear; lia); reflexivity end.
  - (* record *)
    intros id fields close IH c nnull W V NN Rm O D. cbn [wf_val flatten height] in *.
    apply andb_true_iff in W as [W W3]. apply andb_true_iff in W as [W1 W2].
    destruct (alookup id (rectypes c)) as [n|] eqn:A; [|discriminate]. apply N.eqb_eq in W2.
    rewrite object_usage_cons, !object_usage_app, object_usage_trivia in O |- *. cbn [counts_object] in O |- *.
    change (object_usage [EEnd]) with 0 in O |- *.
    destruct (step_begin_record cfg c id _ n eq_refl V W1 A Rm) as [c1 [S1 V1]]; [clear -O; lia | clear -D; lia |].
    unfold view in V1. inversion V1 as [[E1 E2 E3 E4 E5 E6]]. clear V1.
    assert (is_value_rule (e_rule (cur c1)) = true) as P1 by (rewrite E1; reflexivity).
    assert (next_rule (e_rule (cur c1)) = e_rule (cur c1)) as P2 by (rewrite E1; reflexivity).
    assert (null_allowed (e_rule (cur c1)) = true) as P3 by (rewrite E1; reflexivity).
    assert (forallb (wf_val cfg (rectypes c1) false) fields = true) as P4 by (rewrite E5; exact W3).
    assert (match e_expected (cur c1) with Some x => e_count (cur c1) + N.of_nat (length fields) <= x | None => True end) as P5
      by (rewrite E1; cbn; clear -W2; lia).
    destruct (items_complete cfg fields IH c1 P1 P2 P3 P4 P5) as [c2 [S2 U2]]; [rewrite E4; clear -O; lia | rewrite E3; clear -D; lia |].
    destruct U2 as [U1 [U2 [U3 [U4 [U5 [U6 [U7 [U8 [U9 U10]]]]]]]]].
    assert (closable (e_rule (cur c2)) = true) as Q1 by (rewrite U6, E1; reflexivity).
    assert (trivia_rule (e_rule (cur c2)) = true) as Q2 by (rewrite U6, E1; reflexivity).
    assert (match e_expected (cur c2) with Some x => e_count (cur c2) = x | None => True end) as Q3
      by (rewrite U9, U8, E1; cbn; clear -W2; lia).
    assert ((e_dtype (cur c2) =? DT_RecordType) = false) as Q4 by (rewrite U7, E1; apply dtypes_not_rectype).
    destruct (finish_container cfg c c2 close V) as [c3 [S3 V3]]; try assumption; try congruence.
    exists c3. split; [cbn [steps]; rewrite S1, steps_app, S2; exact S3|]. rewrite V3, U4, E5, U5, E6, U3, E4. match goal with |- (_, _, _, ?o1, _, _) = (_, _, _, ?o2, _, _) => replace o1 with o2 by (clear; lia); reflexivity end.
Qed.

(* ------------------------------------------------------------------------- *)
(* Record types and the document frame                                        *)
(* ------------------------------------------------------------------------- *)
(* the pending record-type name is written by BeginRecordType only *)
Definition rtn_free_p (p : prim) : bool :=
  match p with PBeginRecordType | PForwardCurrent MRecordType | PForwardParent MRecordType => false | _ => true end.

Lemma call_rule_rectype_name cfg f r m a c c' :
  call_rule f cfg r m a c = Some c' -> m <> MRecordType -> rectype_name c' = rectype_name c.
Proof.
  apply (call_rule_ind_gen cfg (fun _ m _ c c' => m <> MRecordType -> rectype_name c' = rectype_name c)).
  intros call Hcall r0 m0 a0 c0 c0' H Hm.
  assert (table_forall (fun _ m cell => has_reject cell || match m with MRecordType => true | _ => forallb rtn_free_p cell end) = true) as T
    by (vm_compute; reflexivity).
  pose proof (table_forall_spec _ T r0 m0) as T0. cbn beta in T0. apply orb_true_iff in T0 as [T0|T0].
  { rewrite exec_prims_reject in H by exact T0. discriminate. }
  assert (forallb rtn_free_p (dispatch r0 m0) = true) as T1 by (destruct m0; try exact T0; congruence).
  clear T T0. revert c0 H. induction (dispatch r0 m0) as [|p ps IH]; intros c0 H; cbn [exec_prims forallb] in *.
  - inv_some. reflexivity.
  - apply andb_true_iff in T1 as [Tp Tps]. destruct (exec_prim cfg call r0 m0 a0 p c0) as [c1|] eqn:E; [|discriminate].
    rewrite (IH Tps c1 H). clear IH H Tps.
    prim_cases p E; rsimpl; try reflexivity; try discriminate Tp;
      match goal with
      | H : call _ ?mm _ _ = Some _ |- _ => apply Hcall in H; [exact H | first [discriminate | destruct mm; try discriminate; discriminate Tp]]
      end.
Qed.

Lemma rstep_rectype_name cfg c e c' o :
  rstep cfg c e = Some (c', o) -> (forall id, e <> ERecordType id) -> rectype_name c' = rectype_name c.
Proof.
  rewrite rstep_plan. destruct (ev_plan cfg e) as [pl|] eqn:P; [|discriminate].
  destruct (plan_step cfg pl c) as [c2|] eqn:S; [|discriminate]. intros H Ne; inv_some.
  assert (p_meth pl <> MRecordType) as M.
  { intro M. revert P M.
    destruct e as [| |v| |m t| |b| | |n|n|z|[z|]|bits|[bf|]|[| | |]|[[| | |]|]|s|b|s| | |id|id| | | |id|id|t cnt d|t d|mt d|ct d|ct d|t|mt|t ct|n m|d];
      cbn [ev_plan]; intros P M;
      repeat match goal with H : (if ?b then _ else _) = Some _ |- _ => destruct b; try discriminate H end;
      unfold mkplan in P; inv_some; try discriminate M. exact (Ne id eq_refl). }
  unfold plan_step, call_current in S. destruct (p_nno pl) as [real|].
  - destruct (notify_new_object cfg real c) as [c1|] eqn:N; [|discriminate].
    rewrite (call_rule_rectype_name _ _ _ _ _ _ _ S M). unfold notify_new_object in N. inv_some. reflexivity.
  - exact (call_rule_rectype_name _ _ _ _ _ _ _ S M).
Qed.

(* the field names of a record type *)
Lemma key_not_rectype k rk : key_of k = Some rk -> forall id, k <> ERecordType id.
Proof. intros K id ->. discriminate K. Qed.

Lemma fields_complete cfg fields : forall c,
  e_rule (cur c) = RRecordType -> e_expected (cur c) = None ->
  forallb (key_ok cfg) fields = true -> nkeys_distinct (map nkey_of fields) = true ->
  (forall k nk, In k fields -> nkey_of k = Some nk -> existsb (nkey_eqb nk) (e_keys (cur c)) = false) ->
  objects c + N.of_nat (length fields) <= max_object_count cfg ->
  exists c', steps cfg c fields = Some c' /\
    stack c' = stack c /\ depth c' = depth c /\ objects c' = objects c + N.of_nat (length fields) /\
    rectypes c' = rectypes c /\ fwd c' = fwd c /\ rectype_name c' = rectype_name c /\
    e_rule (cur c') = RRecordType /\ e_dtype (cur c') = e_dtype (cur c) /\ e_expected (cur c') = None /\
    e_count (cur c') = e_count (cur c) + N.of_nat (length fields).
Proof.
  induction fields as [|k fields IH]; intros c R X W Dk Fr O.
  - exists c. split; [reflexivity|]. cbn. repeat split; auto; lia.
  - cbn [forallb map nkeys_distinct length] in *. apply andb_true_iff in W as [Wk W].
    destruct (key_ok_key_of _ _ Wk) as [rk K].
    assert (nkey_of k = Some (norm_key rk)) as NK by (unfold nkey_of; rewrite K; reflexivity).
    rewrite NK in Dk. apply andb_true_iff in Dk as [Dk1 Dk2]. apply negb_true_iff in Dk1.
    destruct key_cells as [_ [_ [C1 C2]]].
    destruct (step_key_gen cfg c k rk RRecordType None R C1 C2 Wk K) as [c1 [S1 V1]].
    { eapply Fr; [left; reflexivity | exact NK]. } { unfold room. rewrite X. exact I. } { lia. }
    pose proof (rstep_rectype_name _ _ _ _ _ S1 (key_not_rectype _ _ K)) as RN.
    unfold view in V1. inversion V1 as [[E1 E2 E3 E4 E5 E6]]. clear V1.
    destruct (IH c1) as [c2 [S2 [U1 [U2 [U3 [U4 [U5 [U6 [U7 [U8 [U9 U10]]]]]]]]]]].
    + rewrite E1. cbn. exact R.
    + rewrite E1. cbn. exact X.
    + exact W.
    + exact Dk2.
    + intros k' nk' I' NK'. rewrite E1. cbn [keyed e_keys existsb]. apply orb_false_iff. split.
      * rewrite nkey_eqb_sym. clear -Dk1 I' NK'.
        induction fields as [|b fields IHe]; [destruct I'|]. cbn [map existsb] in Dk1.
        apply orb_false_iff in Dk1 as [D1 D2]. destruct I' as [I'|I'].
        -- subst. rewrite NK' in D1. exact D1.
        -- apply IHe; assumption.
      * eapply Fr; [right; exact I' | exact NK'].
    + rewrite E4. lia.
    + exists c2. split; [cbn [steps]; rewrite S1; exact S2|]. rewrite E1 in U8, U10. cbn in U8, U10.
      repeat split; try congruence; lia.
Qed.

(* the state between the top-level items *)
Definition TopS (c : rctx) (rts : list (bytes * N)) (nobj : N) : Prop :=
  e_rule (cur c) = RTopLevel /\ e_expected (cur c) = None /\ e_count (cur c) = 0 /\ stack c = [] /\ depth c = 0 /\ fwd c = [] /\
  rectypes c = rts /\ objects c = nobj.

Lemma frame_cells :
  dispatch RRecordType MEnd = [PEndContainer false] /\ dispatch RTopLevel MRecordType = [PBeginRecordType] /\
  dispatch RBeginDocument MBeginDocument = [PChangeRule RVersion] /\
  dispatch RVersion MVersion = [PCheckVersion; PChangeRule RTopLevel] /\
  dispatch REndDocument MEndDocument = [PEndDocument].
Proof.
  pose proof other_cells as T.
  apply andb_true_iff in T as [T T5]. apply andb_true_iff in T as [T T4]. apply andb_true_iff in T as [T T3].
  apply andb_true_iff in T as [T T2]. do 8 (apply andb_true_iff in T as [T _]). apply andb_true_iff in T as [_ T1].
  repeat split; apply prims_eqb_eq; assumption.
Qed.

Lemma rectype_complete cfg c rts nobj id fields close :
  TopS c rts nobj ->
  validate_identifier cfg id = true -> forallb (key_ok cfg) fields = true -> nkeys_distinct (map nkey_of fields) = true ->
  alookup id rts = None ->
  nobj + 1 + N.of_nat (length fields) <= max_object_count cfg -> 1 <= max_container_depth cfg ->
  exists c', steps cfg c (flatten_top (TopRecType id fields close)) = Some c' /\
             TopS c' (aset id (N.of_nat (length fields)) rts) (nobj + 1 + N.of_nat (length fields)).
Proof.
  intros [T1 [T2 [T3 [T4 [T5 [T6 [T7 T8]]]]]]] Vi Wk Dk A O D. cbn [flatten_top].
  destruct frame_cells as [C1 [C2 _]].
  (* the record type event *)
  assert (exists c1, rstep cfg c (ERecordType id) = Some (c1, [ERecordType id]) /\
            cur c1 = mk_entry RRecordType DT_RecordType None /\ stack c1 = [cur c] /\ depth c1 = 1 /\
            objects c1 = nobj + 1 /\ rectypes c1 = rts /\ fwd c1 = [] /\ rectype_name c1 = id) as [c1 [S1 [E1 [E2 [E3 [E4 [E5 [E6 E7]]]]]]]].
  { rewrite rstep_plan. cbn [ev_plan]. rewrite Vi. unfold mkplan, plan_step. cbn [p_nno p_meth p_args p_out].
    unfold notify_new_object. rewrite T2. destruct (max_object_count cfg <? objects c + 1) eqn:X; [lia|].
    match goal with |- context [call_current cfg ?m ?a ?c0] => rewrite (call_current_cell cfg m a c0 RTopLevel) by (cbn; exact T1) end.
    rewrite C2. cbn [exec_prims exec_prim]. rsimpl. rewrite T4. unfold begin_container. rsimpl. rewrite T5.
    destruct (max_container_depth cfg <? 0 + 1) eqn:Y; [lia|]. eexists. split; [reflexivity|]. rsimpl. cbn [with_id a_id].
    repeat split; try assumption; try lia. rewrite T4. destruct (cur c); cbn in *. subst. reflexivity. }
  (* the fields *)
  destruct (fields_complete cfg fields c1) as [c2 [S2 [U1 [U2 [U3 [U4 [U5 [U6 [U7 [U8 [U9 U10]]]]]]]]]]]; try (rewrite E1; reflexivity); try assumption.
  { rewrite E4. lia. }
  (* trivia and the end *)
  assert (exists c3, rstep cfg c2 EEnd = Some (c3, [EEnd]) /\ TopS c3 (aset id (N.of_nat (length fields)) rts) (nobj + 1 + N.of_nat (length fields))) as [c3 [S3 T']].
  { rewrite rstep_plan. cbn [ev_plan]. unfold mkplan, plan_step. cbn [p_nno p_meth p_args p_out].
    rewrite (call_current_cell cfg _ _ c2 RRecordType U7), C1. cbn [exec_prims exec_prim]. unfold end_container.
    rewrite U2, E3. cbn [N.eqb]. rewrite U9, U8, E1. cbn [mk_entry e_dtype]. rewrite N.eqb_refl, U6, E7, U4, E5, A.
    unfold end_container_like, unstack_rule. rsimpl. rewrite U1, E2. eexists. split; [reflexivity|].
    unfold TopS. rsimpl. rewrite U10, E1, U5, E6, U3, E4. cbn [mk_entry e_count]. repeat split; auto. rewrite U2, E3. reflexivity. }
  exists c3. split.
  - cbn [steps]. rewrite S1, steps_app, S2, steps_app, steps_trivia by (rewrite U7; reflexivity). cbn [steps]. rewrite S3. reflexivity.
  - exact T'.
Qed.

Definition has_rectype (pre : list top_item) : bool :=
  existsb (fun it => match it with TopRecType _ _ _ => true | _ => false end) pre.

Lemma pre_complete cfg pre : forall c rts rts' nobj,
  TopS c rts nobj -> declare cfg rts pre = Some rts' ->
  nobj + object_usage (flat_map flatten_top pre) <= max_object_count cfg ->
  (if has_rectype pre then 1 else 0) <= max_container_depth cfg ->
  exists c', steps cfg c (flat_map flatten_top pre) = Some c' /\
             TopS c' rts' (nobj + object_usage (flat_map flatten_top pre)).
Proof.
  induction pre as [|it pre IH]; intros c rts rts' nobj T Dc O D.
  - cbn in *. inv_some. exists c. split; [reflexivity|]. replace (nobj + 0) with nobj by lia. exact T.
  - cbn [flat_map] in *. rewrite object_usage_app in O |- *. destruct it as [t|id fields close]; cbn [declare] in Dc.
    + cbn [flatten_top] in *. assert (object_usage [trivia_event t] = 0) as Z by (destruct t; reflexivity). rewrite Z in O |- *.
      cbn [app steps]. rewrite step_trivia by (destruct T as [T1 _]; rewrite T1; reflexivity).
      destruct (IH c rts rts' nobj T Dc) as [c' [S T']]; [lia | cbn [has_rectype existsb] in D; exact D |].
      exists c'. split; [exact S|]. replace (nobj + (0 + object_usage (flat_map flatten_top pre))) with (nobj + object_usage (flat_map flatten_top pre)) by lia. exact T'.
    + destruct (validate_identifier cfg id && forallb (key_ok cfg) fields && nkeys_distinct (map nkey_of fields) &&
                match alookup id rts with None => true | Some _ => false end) eqn:Ck; [|discriminate].
      apply andb_true_iff in Ck as [Ck C4]. apply andb_true_iff in Ck as [Ck C3]. apply andb_true_iff in Ck as [C1 C2].
      destruct (alookup id rts) eqn:A; [discriminate|].
      assert (object_usage (flatten_top (TopRecType id fields close)) = 1 + N.of_nat (length fields)) as Z.
      { cbn [flatten_top]. rewrite object_usage_cons, !object_usage_app, object_usage_trivia. cbn [counts_object].
        change (object_usage [EEnd]) with 0. clear -C2. induction fields as [|k fields IHf]; [reflexivity|].
        cbn [forallb length] in *. apply andb_true_iff in C2 as [Ck C2]. rewrite object_usage_cons.
        destruct (key_ok_key_of _ _ Ck) as [rk K]. rewrite (key_event_object _ _ K). specialize (IHf C2). lia. }
      rewrite Z in O |- *.
      assert (1 <= max_container_depth cfg) as D1 by (cbn in D; exact D).
      destruct (rectype_complete cfg c rts nobj id fields close T C1 C2 C3 A) as [c1 [S1 T1]]; [lia | exact D1 |].
      destruct (IH c1 _ rts' _ T1 Dc) as [c' [S T']]; [lia | destruct (has_rectype pre); lia |].
      exists c'. split; [rewrite steps_app, S1; exact S|].
      replace (nobj + (1 + N.of_nat (length fields) + object_usage (flat_map flatten_top pre)))
        with (nobj + 1 + N.of_nat (length fields) + object_usage (flat_map flatten_top pre)) by lia. exact T'.
Qed.

(* C10 (c): every well-formed document of the fragment, within the object and depth limits, is accepted *)
Theorem wf_doc_accepted cfg d :
  wf_doc cfg d = true ->
  object_usage (flatten_doc cfg d) <= max_object_count cfg -> doc_height d <= max_container_depth cfg ->
  accepts_document cfg (flatten_doc cfg d) = true.
Proof.
  intros W O D. unfold wf_doc in W. destruct (declare cfg [] (d_pre d)) as [rts|] eqn:Dc; [|discriminate].
  apply accepts_document_steps. unfold flatten_doc in *.
  destruct frame_cells as [_ [_ [C1 [C2 C3]]]].
  (* begin, version *)
  assert (exists c0, steps cfg init_rctx [EBeginDoc; EVersion (expected_version cfg)] = Some c0 /\ TopS c0 [] 0) as [c0 [S0 T0]].
  { cbn [steps]. rewrite rstep_plan. cbn [ev_plan]. unfold mkplan, plan_step. cbn [p_nno p_meth p_args p_out].
    rewrite (call_current_cell cfg _ _ init_rctx RBeginDocument eq_refl), C1. cbn [exec_prims exec_prim].
    rewrite rstep_plan. cbn [ev_plan]. unfold mkplan, plan_step. cbn [p_nno p_meth p_args p_out].
    match goal with |- context [call_current cfg ?m ?a ?c0] => rewrite (call_current_cell cfg m a c0 RVersion eq_refl) end.
    rewrite C2. cbn [exec_prims exec_prim a_version]. rewrite N.eqb_refl.
    eexists. split; [reflexivity|]. unfold TopS. cbn. repeat split. }
  rewrite object_usage_cons, object_usage_cons, !object_usage_app in O. cbn [counts_object] in O.
  change (object_usage [EEndDoc]) with 0 in O. unfold doc_height in D. fold (has_rectype (d_pre d)) in D.
  destruct (pre_complete cfg (d_pre d) c0 [] rts 0 T0 Dc) as [c1 [S1 T1]]; [lia | destruct (has_rectype (d_pre d)); lia |].
  destruct T1 as [T1 [T2 [T3 [T4 [T5 [T6 [T7 T8]]]]]]].
  (* the top-level value *)
  destruct (value_complete cfg (d_top d) c1 false) as [c2 [S2 V2]].
  { rewrite T7. exact W. } { rewrite T1. reflexivity. } { rewrite T1. cbn. discriminate. } { unfold room. rewrite T2. exact I. }
  { rewrite T8. lia. } { rewrite T5. lia. }
  unfold view in V2. inversion V2 as [[E1 E2 E3 E4 E5 E6]]. clear V2.
  (* end of document *)
  assert (exists c3, rstep cfg c2 EEndDoc = Some (c3, [EEndDoc]) /\ e_rule (cur c3) = RTerminal) as [c3 [S3 T']].
  { rewrite rstep_plan. cbn [ev_plan]. unfold mkplan, plan_step. cbn [p_nno p_meth p_args p_out].
    assert (e_rule (cur c2) = REndDocument) as R by (rewrite E1; cbn; rewrite T1; reflexivity).
    rewrite (call_current_cell cfg _ _ c2 REndDocument R), C3. cbn [exec_prims exec_prim]. rewrite E6, T6.
    eexists. split; reflexivity. }
  exists c3. split; [|exact T'].
  change (EBeginDoc :: EVersion (expected_version cfg) :: flat_map flatten_top (d_pre d) ++ flatten (d_top d) ++ [EEndDoc])
    with ([EBeginDoc; EVersion (expected_version cfg)] ++ flat_map flatten_top (d_pre d) ++ flatten (d_top d) ++ [EEndDoc]).
  rewrite steps_app, S0, steps_app, S1, steps_app, S2. cbn [steps]. rewrite S3. reflexivity.
Qed.
