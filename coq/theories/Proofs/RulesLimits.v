(* C14: the configured limits are enforced exactly. *)
From CE Require Import Model.Rules Model.RulesSpec Proofs.RulesInvariants Proofs.RulesStructure.
From Coq Require Import ZifyN ZifyNat ZifyBool.
Open Scope N_scope.

(* ------------------------------------------------------------------------- *)
(* Necessity: an accepted list stays within every limit                       *)
(* ------------------------------------------------------------------------- *)
Lemma call_rule_depth_bound cfg f r m a c c' :
  call_rule f cfg r m a c = Some c' -> depth c <= max_container_depth cfg -> depth c' <= max_container_depth cfg.
Proof.
  intro H.
  refine (call_rule_R cfg (fun c c' => depth c <= max_container_depth cfg -> depth c' <= max_container_depth cfg)
            (fun _ => True) (fun _ => true) _ _ _ _ f r m a c c' I H);
    [ auto | intros x y z H1 H2 H3; auto | | vm_compute; reflexivity ].
  intros call Hcall self m0 a0 p c0 c0' _ _ E.
  prim_cases p E; intro B; rsimpl; try assumption; try lia;
    match goal with H : call _ _ _ _ = Some _ |- _ => apply (Hcall _ _ _ _ _ I H); rsimpl; lia end.
Qed.

Lemma rstep_depth_bound cfg c e c' o :
  rstep cfg c e = Some (c', o) -> depth c <= max_container_depth cfg -> depth c' <= max_container_depth cfg.
Proof.
  rewrite rstep_plan. destruct (ev_plan cfg e) as [pl|]; [|discriminate].
  destruct (plan_step cfg pl c) as [c2|] eqn:S; [|discriminate]. intro H; inv_some.
  unfold plan_step, call_current in S. destruct (p_nno pl) as [real|].
  - destruct (notify_new_object cfg real c) as [c1|] eqn:N; [|discriminate]. apply nno_fields in N.
    intro B. eapply call_rule_depth_bound; eauto. destruct N as [_ [_ [N _]]]. lia.
  - eapply call_rule_depth_bound; eauto.
Qed.

Lemma rstep_objects_bound cfg c e c' o :
  rstep cfg c e = Some (c', o) -> objects c <= max_object_count cfg -> objects c' <= max_object_count cfg.
Proof.
  rewrite rstep_plan. destruct (ev_plan cfg e) as [pl|]; [|discriminate].
  destruct (plan_step cfg pl c) as [c2|] eqn:S; [|discriminate]. intro H; inv_some.
  unfold plan_step, call_current in S. destruct (p_nno pl) as [real|].
  - destruct (notify_new_object cfg real c) as [c1|] eqn:N; [|discriminate]. apply nno_fields in N.
    apply call_rule_objects in S. lia.
  - apply call_rule_objects in S. lia.
Qed.

Lemma steps_bounds cfg es : forall c c',
  steps cfg c es = Some c' ->
  objects c <= max_object_count cfg -> depth c <= max_container_depth cfg ->
  objects c' <= max_object_count cfg /\ depth c' <= max_container_depth cfg.
Proof.
  induction es as [|e es IH]; intros c c' H Bo Bd; cbn [steps] in H.
  - inv_some. auto.
  - destruct (rstep cfg c e) as [[c1 o]|] eqn:R; [|discriminate].
    apply IH in H; auto; [eapply rstep_objects_bound | eapply rstep_depth_bound]; eauto.
Qed.

(* depth_scan is the maximum of the running depth over all prefixes *)
Lemma depth_scan_ge d es : (d <= depth_scan d es)%Z.
Proof. destruct es; cbn [depth_scan]; lia. Qed.

Lemma depth_scan_le d es M :
  (depth_scan d es <= M)%Z <-> (forall p q, es = p ++ q -> d + depth_after p <= M)%Z.
Proof.
  revert d; induction es as [|e es IH]; intro d; cbn [depth_scan].
  - split.
    + intros H p q E. symmetry in E. apply app_eq_nil in E as [-> _]. cbn. lia.
    + intro H. specialize (H [] [] eq_refl). cbn in H. lia.
  - rewrite Z.max_lub_iff, IH. split.
    + intros [H1 H2] [|x p] q E; [cbn; lia|]. cbn [app] in E. inversion E; subst.
      specialize (H2 p q eq_refl). unfold depth_after in *. cbn [fold_right]. lia.
    + intro H. split.
      * specialize (H [] (e :: es) eq_refl). cbn in H. lia.
      * intros p q E. specialize (H (e :: p) q). cbn [app] in H. rewrite E in H. specialize (H eq_refl).
        unfold depth_after in *. cbn [fold_right] in H. lia.
Qed.

Theorem accepts_objects_within cfg es : accepts cfg es = true -> object_usage es <= max_object_count cfg.
Proof.
  rewrite accepts_steps. intros [c H].
  pose proof (steps_counters _ _ _ _ H) as [C _]. apply steps_bounds in H as [B _]; cbn in *; lia.
Qed.

Theorem accepts_depth_within cfg es : accepts cfg es = true -> depth_usage es <= max_container_depth cfg.
Proof.
  intro A. unfold depth_usage.
  assert (depth_scan 0 es <= Z.of_N (max_container_depth cfg))%Z as X; [|lia].
  apply depth_scan_le. intros p q E. subst es. apply accepts_app in A. apply accepts_steps in A as [c H].
  pose proof (steps_counters _ _ _ _ H) as [_ C]. apply steps_bounds in H as [_ B]; cbn in *; lia.
Qed.

(* identifiers *)
Lemma ev_plan_ident cfg e pl id :
  ev_plan cfg e = Some pl -> event_ident e = Some id -> validate_identifier cfg id = true.
Proof.
  destruct e; cbn [event_ident]; try discriminate; intros H E; inv_some; cbn [ev_plan] in H;
    destruct (validate_identifier cfg id); [reflexivity | discriminate | reflexivity | discriminate | reflexivity | discriminate | reflexivity | discriminate].
Qed.

Lemma validate_identifier_len cfg id : validate_identifier cfg id = true -> blen id <= max_identifier_length cfg.
Proof. unfold validate_identifier. rewrite !andb_true_iff. intros [[_ H] _]. lia. Qed.

Lemma steps_events_planned cfg es : forall c c', steps cfg c es = Some c' -> Forall (fun e => ev_plan cfg e <> None) es.
Proof.
  induction es as [|e es IH]; intros c c' H; cbn [steps] in H; constructor.
  - rewrite rstep_plan in H. destruct (ev_plan cfg e); [discriminate | discriminate].
  - destruct (rstep cfg c e) as [[c1 o]|]; [eauto | discriminate].
Qed.

Theorem accepts_idents_within cfg es : accepts cfg es = true -> ident_usage es <= max_identifier_length cfg.
Proof.
  rewrite accepts_steps. intros [c H]. apply steps_events_planned in H.
  induction H as [|e es He Hes IH]; cbn; [lia|]. fold (ident_usage es).
  destruct (event_ident e) as [id|] eqn:E; [|exact IH].
  destruct (ev_plan cfg e) as [pl|] eqn:P; [|congruence].
  pose proof (validate_identifier_len _ _ (ev_plan_ident _ _ _ _ P E)). lia.
Qed.

(* ---- arrays delivered whole ---- *)
(* Every accepted OnArray / OnStringlikeArray call has passed one of the full-array validators
   (directly or in the method it forwards to), hence the length check. *)
Definition is_arr_meth (m : meth) : bool := match m with MArray | MStringlikeArray => true | _ => false end.
Definition validates_len (p : prim) : bool :=
  match p with
  | PValidateFullArrayAnyType | PValidateFullArrayStringlike | PValidateFullArrayKeyable | PValidateFullArrayStringlikeKeyable => true
  | PForwardCurrent m' | PForwardParent m' => is_arr_meth m'
  | _ => false
  end.

Lemma exec_prims_in cfg call self m a ps : forall c c' p,
  exec_prims cfg call self m a ps c = Some c' -> In p ps -> exists c1 c2, exec_prim cfg call self m a p c1 = Some c2.
Proof.
  induction ps as [|q ps IH]; intros c c' p H Hin; [destruct Hin|].
  cbn [exec_prims] in H. destruct (exec_prim cfg call self m a q c) as [c1|] eqn:E; [|discriminate].
  destruct Hin as [->|Hin]; [eauto | eapply IH; eauto].
Qed.

Lemma validate_any_len cfg t n d : validate_full_array_any cfg t n d = true -> length_ok cfg (blen d) = true.
Proof.
  unfold validate_full_array_any. destruct (is_stringlike_validated t); [|destruct (array_bits t); [|discriminate]];
    rewrite andb_true_iff; tauto.
Qed.
Lemma validate_stringlike_len cfg t d : validate_full_array_stringlike cfg t d = true -> length_ok cfg (blen d) = true.
Proof.
  unfold validate_full_array_stringlike. destruct (is_stringlike_validated t); [rewrite andb_true_iff; tauto | auto].
Qed.

Lemma call_rule_array_len cfg f r m a c c' :
  call_rule f cfg r m a c = Some c' -> is_arr_meth m = true -> length_ok cfg (blen (a_data a)) = true.
Proof.
  apply (call_rule_ind_gen cfg (fun _ m a _ _ => is_arr_meth m = true -> length_ok cfg (blen (a_data a)) = true)).
  intros call Hcall r0 m0 a0 c0 c0' H Hm.
  assert (table_forall (fun _ m cell => has_reject cell || negb (is_arr_meth m) || existsb validates_len cell) = true) as T
    by (vm_compute; reflexivity).
  pose proof (table_forall_spec _ T r0 m0) as T0. cbn beta in T0. rewrite Hm in T0. cbn [negb orb] in T0.
  rewrite orb_false_r in T0. apply orb_true_iff in T0 as [T0|T0].
  - rewrite exec_prims_reject in H by exact T0. discriminate.
  - apply existsb_exists in T0 as [p [Hin Hp]]. destruct (exec_prims_in _ _ _ _ _ _ _ _ _ H Hin) as [c1 [c2 E]].
    destruct p; try discriminate Hp; cbn [exec_prim validates_len] in E, Hp; inv_some;
      repeat match goal with H : _ && _ = true |- _ => apply andb_true_iff in H as [? ?] end;
      eauto using validate_any_len, validate_stringlike_len.
Qed.

Lemma ev_plan_whole_array cfg e pl n :
  ev_plan cfg e = Some pl -> whole_array_bytes e = Some n ->
  is_arr_meth (p_meth pl) = true /\ blen (a_data (p_args pl)) = n.
Proof.
  destruct e; cbn [whole_array_bytes]; try discriminate; intros H E; inv_some; cbn [ev_plan] in H;
    repeat match goal with H : (if ?b then _ else _) = Some _ |- _ => destruct b; try discriminate H end;
    unfold mkplan in H; inv_some; cbn; auto.
Qed.

Lemma rstep_whole_array cfg c e c' o n :
  rstep cfg c e = Some (c', o) -> whole_array_bytes e = Some n -> length_ok cfg n = true.
Proof.
  rewrite rstep_plan. destruct (ev_plan cfg e) as [pl|] eqn:P; [|discriminate].
  destruct (plan_step cfg pl c) as [c2|] eqn:S; [|discriminate]. intros _ E.
  destruct (ev_plan_whole_array _ _ _ _ P E) as [M L]. subst n.
  unfold plan_step, call_current in S. destruct (p_nno pl) as [real|].
  - destruct (notify_new_object cfg real c) as [c1|]; [|discriminate]. eapply call_rule_array_len; eauto.
  - eapply call_rule_array_len; eauto.
Qed.

Lemma length_ok_max cfg a b : length_ok cfg a = true -> length_ok cfg b = true -> length_ok cfg (N.max a b) = true.
Proof. unfold length_ok. lia. Qed.

Theorem accepts_whole_arrays_within cfg es :
  accepts cfg es = true -> length_ok cfg (whole_array_usage es) = true.
Proof.
  rewrite accepts_steps. intros [c H]. revert H. generalize init_rctx.
  induction es as [|e es IH]; intros c0 H; cbn [steps] in H.
  - unfold length_ok. cbn. lia.
  - destruct (rstep cfg c0 e) as [[c1 o]|] eqn:R; [|discriminate]. apply IH in H.
    unfold whole_array_usage in *. cbn [fold_right]. destruct (whole_array_bytes e) as [n|] eqn:W; [|exact H].
    apply length_ok_max; [eapply rstep_whole_array; eauto | exact H].
Qed.

(* ------------------------------------------------------------------------- *)
(* Sufficiency: within the limits, nothing is rejected because of a limit     *)
(* ------------------------------------------------------------------------- *)
(* Methods / statements that leave the container depth and the running array size alone. *)
Definition neutral_m (m : meth) : bool :=
  match m with
  | MList | MMap | MRecordType | MRecord | MEdge | MNode | MEnd | MArrayBegin | MArrayChunk => false
  | _ => true
  end.
Definition neutral_p (p : prim) : bool :=
  match p with
  | PBeginList | PBeginMap | PBeginRecordType | PBeginRecord | PBeginEdge | PBeginNode | PEndContainer _
  | PBeginArrayAnyType | PBeginArrayKeyable | PArrayRuleChunk | PStringRuleChunk => false
  | PForwardCurrent m' | PForwardParent m' => neutral_m m'
  | _ => true
  end.
Definition count_nn (cell : list prim) : nat := length (filter (fun p => negb (neutral_p p)) cell).

(* every cell changes depth / array size in at most one statement; cells of neutral methods in none *)
Lemma table_shape :
  table_forall (fun _ m cell => has_reject cell || (if neutral_m m then forallb neutral_p cell else (count_nn cell <=? 1)%nat)) = true.
Proof. vm_compute. reflexivity. Qed.

Lemma exec_prim_neutral cfg call :
  (forall r m a c c', call r m a c = Some c' -> neutral_m m = true -> depth c' = depth c /\ arr_total c' = arr_total c) ->
  forall self m a p c c', neutral_p p = true -> exec_prim cfg call self m a p c = Some c' ->
  depth c' = depth c /\ arr_total c' = arr_total c.
Proof.
  intros Hcall self m a p c c' Hp E.
  prim_cases p E; try discriminate Hp; cbn [neutral_p] in Hp; rsimpl; try (split; reflexivity);
    match goal with H : call _ _ _ _ = Some _ |- _ => apply Hcall in H; [rsimpl; exact H | first [exact Hp | reflexivity]] end.
Qed.

Lemma exec_prims_neutral cfg call :
  (forall r m a c c', call r m a c = Some c' -> neutral_m m = true -> depth c' = depth c /\ arr_total c' = arr_total c) ->
  forall self m a ps c c', forallb neutral_p ps = true -> exec_prims cfg call self m a ps c = Some c' ->
  depth c' = depth c /\ arr_total c' = arr_total c.
Proof.
  intros Hcall self m a ps; induction ps as [|p ps IH]; intros c c' Hn H; cbn [exec_prims forallb] in *.
  - inv_some. auto.
  - apply andb_true_iff in Hn as [Hp Hn]. destruct (exec_prim cfg call self m a p c) as [c1|] eqn:E; [|discriminate].
    apply (exec_prim_neutral cfg call Hcall) in E as [E1 E2]; [|exact Hp]. apply IH in H as [H1 H2]; [|exact Hn].
    split; congruence.
Qed.

Lemma call_rule_neutral cfg f r m a c c' :
  call_rule f cfg r m a c = Some c' -> neutral_m m = true -> depth c' = depth c /\ arr_total c' = arr_total c.
Proof.
  apply (call_rule_ind_gen cfg (fun _ m _ c c' => neutral_m m = true -> depth c' = depth c /\ arr_total c' = arr_total c)).
  intros call Hcall r0 m0 a0 c0 c0' H Hm.
  pose proof (table_forall_spec _ table_shape r0 m0) as T. cbn beta in T. rewrite Hm in T. apply orb_true_iff in T as [T|T].
  - rewrite exec_prims_reject in H by exact T. discriminate.
  - eapply exec_prims_neutral; eauto.
Qed.

(* the count of registered markers never decreases *)
Lemma call_rule_refcount_mono cfg f r m a c c' : call_rule f cfg r m a c = Some c' -> refcount c <= refcount c'.
Proof.
  intro H.
  refine (call_rule_R cfg (fun c c' => refcount c <= refcount c') (fun _ => True) (fun _ => true) _ _ _ _ f r m a c c' I H);
    [ intros; lia | intros; lia | | vm_compute; reflexivity ].
  intros call Hcall self m0 a0 p c0 c0' _ _ E.
  prim_cases p E; rsimpl; try lia;
    match goal with H : call _ _ _ _ = Some _ |- _ => apply (Hcall _ _ _ _ _ I) in H; rsimpl; lia end.
Qed.

Lemma exec_prims_refcount_mono cfg f self m a ps : forall c c',
  exec_prims cfg (call_rule f cfg) self m a ps c = Some c' -> refcount c <= refcount c'.
Proof.
  induction ps as [|p ps IH]; intros c c' H; cbn [exec_prims] in H; [inv_some; lia|].
  destruct (exec_prim cfg (call_rule f cfg) self m a p c) as [c1|] eqn:E; [|discriminate].
  apply IH in H. enough (refcount c <= refcount c1) by lia. clear H.
  prim_cases p E; rsimpl; try lia;
    match goal with H : call_rule _ _ _ _ _ _ = Some _ |- _ => apply call_rule_refcount_mono in H; rsimpl; lia end.
Qed.

Definition limv (cfg : rcfg) (c : rctx) : Prop :=
  depth c <= max_container_depth cfg /\ (0 < max_array_size_bytes cfg -> arr_total c <= max_array_size_bytes cfg).
Definition limr (cfg : rcfg) (c : rctx) : Prop := refcount c <= max_local_reference_count cfg.
(* only the whole-array methods check the data length *)
Definition ga (cfg : rcfg) (m : meth) (a : args) : Prop := is_arr_meth m = true -> length_ok cfg (blen (a_data a)) = true.
Definition gok (m : meth) (p : prim) : bool :=
  match p with
  | PValidateFullArrayAnyType | PValidateFullArrayStringlike | PValidateFullArrayKeyable | PValidateFullArrayStringlikeKeyable => is_arr_meth m
  | PForwardCurrent m' | PForwardParent m' => negb (is_arr_meth m') || is_arr_meth m
  | _ => true
  end.
Lemma table_gok : table_forall (fun _ m cell => has_reject cell || forallb (gok m) cell) = true.
Proof. vm_compute. reflexivity. Qed.

Lemma length_ok_0 cfg : length_ok cfg 0 = true.
Proof. unfold length_ok. lia. Qed.

Section Sim.
  Variables cfg cfg' : rcfg.
  Hypothesis Hle : cfg_le cfg cfg'.

  Lemma validate_any_sim t n d :
    validate_full_array_any cfg' t n d = true -> length_ok cfg (blen d) = true -> validate_full_array_any cfg t n d = true.
  Proof.
    unfold validate_full_array_any. intros H L. destruct (is_stringlike_validated t).
    - apply andb_true_iff in H as [_ H]. rewrite L, H. reflexivity.
    - destruct (array_bits t); [|discriminate]. apply andb_true_iff in H as [H _]. rewrite L, H. reflexivity.
  Qed.
  Lemma validate_stringlike_sim t d :
    validate_full_array_stringlike cfg' t d = true -> length_ok cfg (blen d) = true -> validate_full_array_stringlike cfg t d = true.
  Proof.
    unfold validate_full_array_stringlike. intros H L. destruct (is_stringlike_validated t); [|exact L].
    apply andb_true_iff in H as [_ H]. rewrite L, H. reflexivity.
  Qed.

  Section Prim.
    Variables call call' : rule -> meth -> args -> rctx -> option rctx.
    Hypothesis Hc : forall r m a c c', call' r m a c = Some c' -> ga cfg m a -> limv cfg c -> limv cfg c' -> limr cfg c' ->
                                       call r m a c = Some c'.

    Lemma exec_prim_sim self m a p c c' :
      exec_prim cfg' call' self m a p c = Some c' -> gok m p = true -> ga cfg m a -> limv cfg c -> limv cfg c' -> limr cfg c' ->
      exec_prim cfg call self m a p c = Some c'.
    Proof.
      intros E Gk Ga Lc Lc' Lr. destruct Hle as [Ho [Hd [Ha [Hi [Hr Hv]]]]]. unfold limv, limr, ga in *.
      destruct p; cbn [exec_prim] in E |- *; cbn [gok] in Gk;
        unfold key_from_array, chunk_data, end_chunk, rule_chunk, try_end_array, end_container, end_container_like,
               begin_container, unstack_rule, local_reference, mark_object, begin_array_any, notify_key in E |- *;
        inv_some; rsimpl;
        repeat match goal with
        | H : _ && _ = true |- _ => apply andb_true_iff in H as [? ?]
        | H : assert_array_type _ _ = true |- _ => rewrite H; clear H
        | H : validate_full_array_any cfg' _ _ _ = true |- _ => apply validate_any_sim in H; [rewrite H; clear H | exact (Ga Gk)]
        | H : validate_full_array_stringlike cfg' _ _ = true |- _ => apply validate_stringlike_sim in H; [rewrite H; clear H | exact (Ga Gk)]
        | H : call' ?r0 ?m0 ?a0 ?c1 = Some ?c2 |- _ =>
            let X := fresh "X" in
            assert (call r0 m0 a0 c1 = Some c2) as X
              by (apply Hc; [exact H
                            | cbn [a_data with_dtype no_args with_key];
                              let Z := fresh "Z" in intro Z; first [discriminate Z | apply Ga; rewrite Z in Gk; exact Gk]
                            | rsimpl; lia | assumption | exact Lr]);
            rewrite X; clear X H
        end;
        cbn [andb]; try reflexivity;
        repeat match goal with
        | |- context [if ?b then _ else _] => destruct b eqn:?; try lia
        end; try reflexivity; try congruence.
    Qed.
  End Prim.

  Lemma limv_eq c1 c2 : depth c1 = depth c2 -> arr_total c1 = arr_total c2 -> limv cfg c2 -> limv cfg c1.
  Proof. unfold limv. intros -> ->. auto. Qed.

  Lemma exec_prims_sim f :
    (forall r m a c c', call_rule f cfg' r m a c = Some c' -> ga cfg m a -> limv cfg c -> limv cfg c' -> limr cfg c' ->
                        call_rule f cfg r m a c = Some c') ->
    forall self m a ps c c', (count_nn ps <= 1)%nat -> forallb (gok m) ps = true ->
      exec_prims cfg' (call_rule f cfg') self m a ps c = Some c' -> ga cfg m a -> limv cfg c -> limv cfg c' -> limr cfg c' ->
      exec_prims cfg (call_rule f cfg) self m a ps c = Some c'.
  Proof.
    intros Hc self m a ps; induction ps as [|p ps IH]; intros c c' Hn Hg H Ga Lc Lc' Lr; cbn [exec_prims] in H |- *; [exact H|].
    cbn [forallb] in Hg. apply andb_true_iff in Hg as [Gp Gps].
    destruct (exec_prim cfg' (call_rule f cfg') self m a p c) as [c1|] eqn:E; [|discriminate].
    assert (limr cfg c1) as Lr1.
    { unfold limr in *. pose proof (exec_prims_refcount_mono _ _ _ _ _ _ _ _ H). lia. }
    assert (limv cfg c1) as Lc1.
    { unfold count_nn in Hn. cbn [filter] in Hn. destruct (neutral_p p) eqn:Np; cbn [negb] in Hn.
      - destruct (exec_prim_neutral cfg' _ (call_rule_neutral cfg' f) _ _ _ _ _ _ Np E) as [E1 E2].
        eapply limv_eq; eauto.
      - cbn [length] in Hn. assert (forallb neutral_p ps = true) as Nps.
        { apply forallb_forall. intros q Hq. destruct (neutral_p q) eqn:Nq; [reflexivity|]. exfalso.
          assert (In q (filter (fun p => negb (neutral_p p)) ps)) as X by (apply filter_In; rewrite Nq; auto).
          destruct (filter (fun p => negb (neutral_p p)) ps); [destruct X | cbn in Hn; lia]. }
        destruct (exec_prims_neutral cfg' _ (call_rule_neutral cfg' f) _ _ _ _ _ _ Nps H) as [E1 E2].
        eapply limv_eq; [symmetry; exact E1 | symmetry; exact E2 | exact Lc']. }
    rewrite (exec_prim_sim _ _ Hc _ _ _ _ _ _ E Gp Ga Lc Lc1 Lr1). apply IH; auto.
    unfold count_nn in *. cbn [filter] in Hn. destruct (negb (neutral_p p)); cbn [length] in Hn; lia.
  Qed.

  Lemma call_rule_sim f : forall r m a c c',
    call_rule f cfg' r m a c = Some c' -> ga cfg m a -> limv cfg c -> limv cfg c' -> limr cfg c' ->
    call_rule f cfg r m a c = Some c'.
  Proof.
    induction f as [|f IH]; intros r m a c c' H Ga Lc Lc' Lr; cbn [call_rule] in H |- *; [discriminate|].
    pose proof (table_forall_spec _ table_shape r m) as T. cbn beta in T. apply orb_true_iff in T as [T|T].
    - rewrite exec_prims_reject in H by exact T. discriminate.
    - pose proof (table_forall_spec _ table_gok r m) as T2. cbn beta in T2. apply orb_true_iff in T2 as [T2|T2];
        [rewrite exec_prims_reject in H by exact T2; discriminate|].
      apply (exec_prims_sim f IH); auto. destruct (neutral_m m); [|apply Nat.leb_le; exact T].
      unfold count_nn. assert (filter (fun p => negb (neutral_p p)) (dispatch r m) = []) as ->; [|cbn; lia].
      clear -T. induction (dispatch r m) as [|p ps IHp]; [reflexivity|]. cbn [forallb filter] in *.
      apply andb_true_iff in T as [T1 T2]. rewrite T1. cbn [negb]. auto.
  Qed.

  (* one event *)
  Definition ev_guard (e : event) : Prop :=
    (forall id, event_ident e = Some id -> blen id <= max_identifier_length cfg) /\
    (forall n, whole_array_bytes e = Some n -> length_ok cfg n = true).

  Lemma validate_identifier_sim id :
    validate_identifier cfg' id = true -> blen id <= max_identifier_length cfg -> validate_identifier cfg id = true.
  Proof.
    unfold validate_identifier. rewrite !andb_true_iff. intros [[H1 H2] H3] L. repeat split; try assumption. lia.
  Qed.

  Lemma ev_plan_sim e pl : ev_plan cfg' e = Some pl -> ev_guard e -> ev_plan cfg e = Some pl /\ ga cfg (p_meth pl) (p_args pl).
  Proof.
    intros H [G1 G2]. unfold ga.
    destruct e as [| |v| |m t| |b| | |n|n|z|[z|]|bits|[bf|]|[| | |]|[[| | |]|]|s|b|s| | |id|id| | | |id|id|t cnt d|t d|mt d|ct d|ct d|t|mt|t ct|n m|d];
      cbn [ev_plan] in H |- *;
      repeat match goal with H : (if ?b then _ else _) = Some _ |- _ => destruct b eqn:?; try discriminate H end;
      unfold mkplan in H; inv_some; cbn [p_meth p_args a_data with_dtype no_args key_args array_args with_id is_arr_meth];
      try (split; [reflexivity | intro Z; discriminate Z]);
      try (split; [reflexivity | intros _; apply G2; reflexivity]);
      (rewrite validate_identifier_sim; [split; [reflexivity | intro Z; discriminate Z] | assumption | apply G1; reflexivity]).
  Qed.

  Lemma plan_step_sim pl c c' :
    plan_step cfg' pl c = Some c' -> ga cfg (p_meth pl) (p_args pl) -> objects c' <= max_object_count cfg ->
    limv cfg c -> limv cfg c' -> limr cfg c' -> plan_step cfg pl c = Some c'.
  Proof.
    unfold plan_step, call_current. intros H Ga Lo Lc Lc' Lr. destruct (p_nno pl) as [real|].
    - destruct (notify_new_object cfg' real c) as [c1|] eqn:N; [|discriminate].
      pose proof (call_rule_objects _ _ _ _ _ _ _ H) as O. pose proof (nno_fields _ _ _ _ N) as F.
      assert (notify_new_object cfg real c = Some c1) as ->.
      { unfold notify_new_object in N |- *. inv_some. rsimpl.
        destruct (max_object_count cfg <? objects c + 1) eqn:X; [lia | reflexivity]. }
      apply call_rule_sim; auto. destruct F as [_ [_ [F1 [_ [_ [_ [_ [_ [_ [_ [_ [F2 _]]]]]]]]]]]].
      eapply limv_eq; eauto.
    - apply call_rule_sim; auto.
  Qed.

  Lemma rstep_sim c e x :
    rstep cfg' c e = Some x -> ev_guard e -> objects (fst x) <= max_object_count cfg ->
    limv cfg c -> limv cfg (fst x) -> limr cfg (fst x) -> rstep cfg c e = Some x.
  Proof.
    rewrite !rstep_plan. destruct (ev_plan cfg' e) as [pl|] eqn:P; [|discriminate].
    destruct (plan_step cfg' pl c) as [c2|] eqn:S; [|discriminate]. intros H G Lo Lc Lc' Lr. inv_some. cbn [fst] in *.
    destruct (ev_plan_sim _ _ P G) as [-> Ga]. rewrite (plan_step_sim _ _ _ S Ga Lo Lc Lc' Lr). reflexivity.
  Qed.

  (* a run: it suffices that every state the generous run passes through is within the limits *)
  Definition good (c : rctx) : Prop := objects c <= max_object_count cfg /\ limv cfg c /\ limr cfg c.

  Lemma steps_sim es : forall c c',
    steps cfg' c es = Some c' -> Forall ev_guard es -> limv cfg c ->
    (forall p q c1, es = p ++ q -> p <> [] -> steps cfg' c p = Some c1 -> good c1) ->
    steps cfg c es = Some c'.
  Proof.
    induction es as [|e es IH]; intros c c' H G Lc Hgood; cbn [steps] in H |- *; [exact H|].
    destruct (rstep cfg' c e) as [[c1 o]|] eqn:R; [|discriminate].
    inversion G as [|? ? Ge Ges]; subst.
    destruct (Hgood [e] es c1 eq_refl) as [Go [Gv Gr]]; [discriminate | cbn [steps]; rewrite R; reflexivity |].
    rewrite (rstep_sim _ _ _ R Ge Go Lc Gv Gr). apply IH; auto.
    intros p q c2 E Np Hs. apply (Hgood (e :: p) q c2); [cbn; congruence | discriminate |].
    cbn [steps]. rewrite R. exact Hs.
  Qed.
End Sim.

(* ---- without chunk events the running array size stays 0 ---- *)
Definition chunk_free_p (p : prim) : bool :=
  match p with
  | PArrayRuleChunk | PStringRuleChunk | PForwardCurrent MArrayChunk | PForwardParent MArrayChunk => false
  | _ => true
  end.

Lemma call_rule_arr_total0 cfg f r m a c c' :
  call_rule f cfg r m a c = Some c' -> m <> MArrayChunk -> arr_total c = 0 -> arr_total c' = 0.
Proof.
  apply (call_rule_ind_gen cfg (fun _ m _ c c' => m <> MArrayChunk -> arr_total c = 0 -> arr_total c' = 0)).
  intros call Hcall r0 m0 a0 c0 c0' H Hm.
  assert (table_forall (fun _ m cell => has_reject cell || match m with MArrayChunk => true | _ => forallb chunk_free_p cell end) = true) as T
    by (vm_compute; reflexivity).
  pose proof (table_forall_spec _ T r0 m0) as T0. cbn beta in T0. apply orb_true_iff in T0 as [T0|T0].
  { rewrite exec_prims_reject in H by exact T0. discriminate. }
  assert (forallb chunk_free_p (dispatch r0 m0) = true) as T1 by (destruct m0; try exact T0; congruence).
  clear T T0. revert c0 H. induction (dispatch r0 m0) as [|p ps IH]; intros c0 H Z; cbn [exec_prims forallb] in *.
  - inv_some. exact Z.
  - apply andb_true_iff in T1 as [Tp Tps]. destruct (exec_prim cfg call r0 m0 a0 p c0) as [c1|] eqn:E; [|discriminate].
    apply (IH Tps c1 H). clear IH H Tps.
    prim_cases p E; rsimpl; try assumption; try reflexivity; try discriminate Tp;
      match goal with
      | H : call _ ?mm _ _ = Some _ |- _ => apply Hcall in H; [exact H | first [discriminate | destruct mm; try discriminate; discriminate Tp] | rsimpl; assumption]
      end.
Qed.

Lemma ev_plan_not_chunk cfg e pl : ev_plan cfg e = Some pl -> is_chunk_event e = false -> p_meth pl <> MArrayChunk.
Proof.
  destruct e as [| |v| |m t| |b| | |n|n|z|[z|]|bits|[bf|]|[| | |]|[[| | |]|]|s|b|s| | |id|id| | | |id|id|t cnt d|t d|mt d|ct d|ct d|t|mt|t ct|n m|d];
    cbn [ev_plan is_chunk_event]; intros H N; try discriminate N;
    repeat match goal with H : (if ?b then _ else _) = Some _ |- _ => destruct b; try discriminate H end;
    unfold mkplan in H; inv_some; cbn; discriminate.
Qed.

Lemma steps_arr_total0 cfg es : forall c c', steps cfg c es = Some c' -> no_chunks es = true -> arr_total c = 0 -> arr_total c' = 0.
Proof.
  induction es as [|e es IH]; intros c c' H N Z; cbn [steps no_chunks forallb] in *; [inv_some; exact Z|].
  apply andb_true_iff in N as [Ne Nes]. destruct (rstep cfg c e) as [[c1 o]|] eqn:R; [|discriminate].
  apply (IH c1 c' H Nes). clear IH H.
  rewrite rstep_plan in R. destruct (ev_plan cfg e) as [pl|] eqn:P; [|discriminate].
  destruct (plan_step cfg pl c) as [c2|] eqn:S; [|discriminate]. inv_some.
  pose proof (ev_plan_not_chunk _ _ _ P) as M. unfold plan_step, call_current in S.
  destruct (is_chunk_event e); [discriminate|]. specialize (M eq_refl). destruct (p_nno pl) as [real|].
  - destruct (notify_new_object cfg real c) as [c0|] eqn:NN; [|discriminate]. apply nno_fields in NN.
    eapply call_rule_arr_total0; eauto. destruct NN as [_ [_ [_ [_ [_ [_ [_ [_ [_ [_ [_ [NN _]]]]]]]]]]]]. congruence.
  - eapply call_rule_arr_total0; eauto.
Qed.

(* ---- usages of prefixes ---- *)
Lemma count_if_app {A} (f : A -> bool) l1 l2 : count_if f (l1 ++ l2) = count_if f l1 + count_if f l2.
Proof. induction l1 as [|x l IH]; cbn [app count_if]; [reflexivity | rewrite IH; lia]. Qed.

Lemma ident_usage_in es e id : In e es -> event_ident e = Some id -> blen id <= ident_usage es.
Proof.
  induction es as [|x es IH]; intros H E; [destruct H|]; destruct H as [->|H]; unfold ident_usage in *; cbn [fold_right].
  - rewrite E. lia.
  - specialize (IH H E). destruct (event_ident x); lia.
Qed.
Lemma whole_array_usage_in es e n : In e es -> whole_array_bytes e = Some n -> n <= whole_array_usage es.
Proof.
  induction es as [|x es IH]; intros H E; [destruct H|]; destruct H as [->|H]; unfold whole_array_usage in *; cbn [fold_right].
  - rewrite E. lia.
  - specialize (IH H E). destruct (whole_array_bytes x); lia.
Qed.
Lemma length_ok_le_n cfg a b : a <= b -> length_ok cfg b = true -> length_ok cfg a = true.
Proof. unfold length_ok. lia. Qed.

(* ------------------------------------------------------------------------- *)
(* C14: the main statements                                                   *)
(* ------------------------------------------------------------------------- *)
Lemma steps_sufficient cfg cfg' es c :
  cfg_le cfg cfg' -> steps cfg' init_rctx es = Some c -> within_limits cfg es -> chunk_side cfg es ->
  steps cfg init_rctx es = Some c.
Proof.
  intros Hle H [Wo [Wd [Wa [Wi Wm]]]] Side.
  apply (steps_sim cfg cfg' Hle es init_rctx c H).
  - apply Forall_forall. intros e Hin. unfold ev_guard. split.
    + intros id E. pose proof (ident_usage_in _ _ _ Hin E). lia.
    + intros n E. eapply length_ok_le_n; [eapply whole_array_usage_in; eauto | exact Wa].
  - unfold limv. cbn. split; lia.
  - intros p q c1 E _ Hp. subst es. unfold good, limv, limr.
    pose proof (steps_counters _ _ _ _ Hp) as [C1 C2]. cbn in C1, C2.
    pose proof (steps_refcount_le_markers _ _ _ Hp) as C3.
    unfold object_usage, marker_usage in *. rewrite count_if_app in *.
    assert (depth_scan 0 (p ++ q) <= Z.of_N (max_container_depth cfg))%Z as D by (unfold depth_usage in Wd; lia).
    rewrite depth_scan_le in D. specialize (D p q eq_refl).
    repeat split; try lia.
    intro Pos. destruct Side as [Z|N]; [lia|].
    unfold no_chunks in N. rewrite forallb_app in N. apply andb_true_iff in N as [N _].
    rewrite (steps_arr_total0 _ _ _ _ Hp N eq_refl). lia.
Qed.

(* Sufficiency: a list accepted under more generous limits and within the limits of [cfg] is
   accepted under [cfg] - no rejection is caused by a limit that is not exceeded. *)
Theorem limits_sufficient cfg cfg' es :
  cfg_le cfg cfg' -> accepts cfg' es = true -> within_limits cfg es -> chunk_side cfg es -> accepts cfg es = true.
Proof.
  rewrite !accepts_steps. intros Hle [c H] W S. exists c. eapply steps_sufficient; eauto.
Qed.

Theorem limits_sufficient_document cfg cfg' es :
  cfg_le cfg cfg' -> accepts_document cfg' es = true -> within_limits cfg es -> chunk_side cfg es ->
  accepts_document cfg es = true.
Proof.
  rewrite !accepts_document_steps. intros Hle [c [H T]] W S. exists c. split; [eapply steps_sufficient; eauto | exact T].
Qed.

(* Necessity: an accepted list is within the object, depth, whole-array and identifier limits. *)
Theorem limits_necessary cfg es :
  accepts cfg es = true ->
  object_usage es <= max_object_count cfg /\ depth_usage es <= max_container_depth cfg /\
  length_ok cfg (whole_array_usage es) = true /\ ident_usage es <= max_identifier_length cfg.
Proof.
  intro A. repeat split.
  - apply accepts_objects_within; exact A.
  - apply accepts_depth_within; exact A.
  - apply accepts_whole_arrays_within; exact A.
  - apply accepts_idents_within; exact A.
Qed.

(* Exactness for the object, depth, identifier and (whole-)array limits, given that the marker limit
   is not the binding one. *)
Theorem limits_exact cfg es :
  marker_usage es <= max_local_reference_count cfg -> chunk_side cfg es ->
  (accepts cfg es = true <->
   (exists cfg', cfg_le cfg cfg' /\ accepts cfg' es = true) /\
   object_usage es <= max_object_count cfg /\ depth_usage es <= max_container_depth cfg /\
   length_ok cfg (whole_array_usage es) = true /\ ident_usage es <= max_identifier_length cfg).
Proof.
  intros M S. split.
  - intro A. split; [exists cfg; split; [apply cfg_le_refl | exact A] | apply limits_necessary; exact A].
  - intros [[cfg' [Hle A]] [Wo [Wd [Wa Wi]]]]. eapply limits_sufficient; eauto. unfold within_limits. auto.
Qed.

(* Off-by-one exactness: with the object, depth and identifier limits set to exactly the measured usage the
   list is still accepted (and by [limits_necessary] with any of them one lower it is not). *)
Theorem limits_tight cfg es :
  accepts cfg es = true -> marker_usage es <= max_local_reference_count cfg -> chunk_side cfg es ->
  accepts (usage_cfg cfg es) es = true.
Proof.
  intros A M S. destruct (limits_necessary _ _ A) as [No [Nd [Na Ni]]].
  apply (limits_sufficient (usage_cfg cfg es) cfg es); auto.
  - unfold cfg_le, usage_cfg; cbn. repeat split; try lia.
  - unfold within_limits, usage_cfg; cbn. repeat split; try lia. exact Na.
Qed.

(* ------------------------------------------------------------------------- *)
(* The marker limit                                                           *)
(* ------------------------------------------------------------------------- *)
(* the number of registered markers is checked against the limit at every registration *)
Lemma call_rule_refcount_bound cfg f r m a c c' :
  call_rule f cfg r m a c = Some c' -> refcount c <= max_local_reference_count cfg -> refcount c' <= max_local_reference_count cfg.
Proof.
  intro H.
  refine (call_rule_R cfg (fun c c' => refcount c <= max_local_reference_count cfg -> refcount c' <= max_local_reference_count cfg)
            (fun _ => True) (fun _ => true) _ _ _ _ f r m a c c' I H);
    [ auto | intros x y z H1 H2 H3; auto | | vm_compute; reflexivity ].
  intros call Hcall self m0 a0 p c0 c0' _ _ E.
  prim_cases p E; intro B; rsimpl; try assumption; try lia;
    match goal with H : call _ _ _ _ = Some _ |- _ => apply (Hcall _ _ _ _ _ I H); rsimpl; lia end.
Qed.

Lemma steps_refcount_bound cfg es : forall c c',
  steps cfg c es = Some c' -> refcount c <= max_local_reference_count cfg -> refcount c' <= max_local_reference_count cfg.
Proof.
  induction es as [|e es IH]; intros c c' H B; cbn [steps] in H; [inv_some; exact B|].
  destruct (rstep cfg c e) as [[c1 o]|] eqn:R; [|discriminate]. apply (IH _ _ H). clear IH H.
  rewrite rstep_plan in R. destruct (ev_plan cfg e) as [pl|]; [|discriminate].
  destruct (plan_step cfg pl c) as [c2|] eqn:S; [|discriminate]. inv_some.
  unfold plan_step, call_current in S. destruct (p_nno pl) as [real|].
  - destruct (notify_new_object cfg real c) as [c0|] eqn:N; [|discriminate]. apply nno_fields in N.
    eapply call_rule_refcount_bound; eauto. destruct N as [_ [_ [_ [_ [_ [_ [_ [_ [N _]]]]]]]]]. lia.
  - eapply call_rule_refcount_bound; eauto.
Qed.

(* Necessity of the marker limit: in a complete document every marker is registered, and the number of
   registered markers never exceeds the limit. *)
Theorem document_markers_within cfg es :
  accepts_document cfg es = true -> marker_usage es <= max_local_reference_count cfg.
Proof.
  rewrite accepts_document_steps. intros [c [H T]].
  assert (refcount c = marker_usage es) as <-.
  { apply (document_markers_registered cfg es c); [apply state_after_steps; exact H | rewrite T; reflexivity]. }
  apply (steps_refcount_bound _ _ _ _ H). cbn. lia.
Qed.
