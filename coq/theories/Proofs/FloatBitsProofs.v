(* Proofs about the bit-level float width model (Model/FloatBits.v):
   widening float32/bfloat16 -> float64 and the exact narrowing are mutually
   inverse on ALL bit patterns, the chosen width is minimal, and widening
   preserves the real value. *)
From CE Require Import Model.FloatBits.
From Coq Require Import Zify ZifyN ZifyBool QArith.
Local Open Scope N_scope.

(* lia extended with division/modulo by literals *)
Ltac dlia := zify; Z.to_euclidean_division_equations; lia.

Ltac consts :=
  unfold p2_16, p2_22, p2_23, p2_29, p2_31, p2_32, p2_52, p2_63, p2_64,
         f64_quiet_nan_bits, f64_signaling_nan_bits in *.

Ltac bounds :=
  change (2 ^ 16) with 65536 in *;
  change (2 ^ 32) with 4294967296 in *;
  change (2 ^ 64) with 18446744073709551616 in *.

(* ------------------------------------------------------------------ *)
(** * Fields of assembled / disassembled patterns *)

Lemma f32_fields s e m :
  s < 2 -> e < 256 -> m < p2_23 ->
  f32_sign (f32_make s e m) = s /\ f32_expo (f32_make s e m) = e /\ f32_mant (f32_make s e m) = m.
Proof. unfold f32_sign, f32_expo, f32_mant, f32_make; consts; intros Hs He Hm. repeat split; dlia. Qed.

Lemma f64_fields s e m :
  s < 2 -> e < 2048 -> m < p2_52 ->
  f64_sign (f64_make s e m) = s /\ f64_expo (f64_make s e m) = e /\ f64_mant (f64_make s e m) = m.
Proof. unfold f64_sign, f64_expo, f64_mant, f64_make; consts; intros Hs He Hm. repeat split; dlia. Qed.

Lemma f32_decompose w :
  w < 2 ^ 32 ->
  f32_sign w < 2 /\ f32_expo w < 256 /\ f32_mant w < p2_23 /\
  w = f32_make (f32_sign w) (f32_expo w) (f32_mant w).
Proof. bounds; unfold f32_sign, f32_expo, f32_mant, f32_make; consts; intros Hw. repeat split; dlia. Qed.

Lemma f64_decompose b :
  b < 2 ^ 64 ->
  f64_sign b < 2 /\ f64_expo b < 2048 /\ f64_mant b < p2_52 /\
  b = f64_make (f64_sign b) (f64_expo b) (f64_mant b).
Proof. bounds; unfold f64_sign, f64_expo, f64_mant, f64_make; consts; intros Hb. repeat split; dlia. Qed.

Lemma f32_make_lt s e m : s < 2 -> e < 256 -> m < p2_23 -> f32_make s e m < 2 ^ 32.
Proof. bounds; unfold f32_make; consts; lia. Qed.

Lemma f64_make_lt s e m : s < 2 -> e < 2048 -> m < p2_52 -> f64_make s e m < 2 ^ 64.
Proof. bounds; unfold f64_make; consts; lia. Qed.

(* ------------------------------------------------------------------ *)
(** * Powers of two around the leading bit of a subnormal mantissa *)

Lemma pow_split l : l <= 52 -> 2 ^ l * 2 ^ (52 - l) = p2_52.
Proof.
  intros Hl. rewrite <- N.pow_add_r. replace (l + (52 - l)) with 52 by lia. reflexivity.
Qed.

Lemma pow2_pos l : 0 < 2 ^ l.
Proof. apply N.neq_0_lt_0, N.pow_nonzero. discriminate. Qed.

Lemma pow_le_22 l : l <= 22 -> 2 ^ l <= p2_22.
Proof. intros Hl. change p2_22 with (2 ^ 22). apply N.pow_le_mono_r; [discriminate | exact Hl]. Qed.

(* l = floor(log2 m) for a non-zero 23-bit m *)
Lemma log2_mant m :
  m <> 0 -> m < p2_23 ->
  N.log2 m <= 22 /\ 2 ^ N.log2 m <= m < 2 * 2 ^ N.log2 m.
Proof.
  intros Hm0 Hm.
  assert (H0 : 0 < m) by lia.
  destruct (N.log2_spec m H0) as [Hlo Hhi].
  rewrite N.pow_succ_r' in Hhi.
  split; [|split; assumption].
  assert (Hl : N.log2 m < 23) by (apply N.log2_lt_pow2; [exact H0 | exact Hm]).
  lia.
Qed.

Lemma log2_lead l r : r < 2 ^ l -> N.log2 (2 ^ l + r) = l.
Proof.
  intros Hr. apply N.log2_unique.
  - apply N.le_0_l.
  - rewrite N.pow_succ_r'. lia.
Qed.

(* (p + r) with r < p, p * q = 2^52 : the widened mantissa r*q fits in 52 bits *)
Lemma mul_lt_52 p q r : p * q = p2_52 -> r < p -> r * q < p2_52.
Proof.
  intros Hpq Hr. rewrite <- Hpq.
  assert (Hq : q <> 0) by (intro E; subst q; rewrite N.mul_0_r in Hpq; discriminate).
  apply N.mul_lt_mono_pos_r; lia.
Qed.

Lemma div_lt_52 p q m : p * q = p2_52 -> m < p2_52 -> m / q < p.
Proof.
  intros Hpq Hm.
  assert (Hq : q <> 0) by (intro E; subst q; rewrite N.mul_0_r in Hpq; discriminate).
  apply N.div_lt_upper_bound; [exact Hq|]. rewrite N.mul_comm, Hpq. exact Hm.
Qed.

(* ------------------------------------------------------------------ *)
(** * Widening / narrowing on assembled patterns *)

Lemma quiet_bit_make s e m :
  s < 2 -> e < 256 -> m < p2_23 ->
  f32_quiet_bit (f32_make s e m) = (p2_22 <=? m).
Proof.
  intros Hs He Hm. unfold f32_quiet_bit. rewrite N.testbit_eqb.
  change (2 ^ 22) with 4194304. unfold f32_make; consts.
  destruct (N.leb_spec 4194304 m) as [H|H];
    [apply N.eqb_eq | apply N.eqb_neq]; dlia.
Qed.

Lemma f32_widen_make s e m :
  s < 2 -> e < 256 -> m < p2_23 ->
  f32_widen (f32_make s e m) =
    if e =? 255 then
      if m =? 0 then f64_make s 2047 0
      else if p2_22 <=? m then f64_quiet_nan_bits else f64_signaling_nan_bits
    else if e =? 0 then
      if m =? 0 then f64_make s 0 0
      else f64_make s (N.log2 m + 874) ((m - 2 ^ N.log2 m) * 2 ^ (52 - N.log2 m))
    else f64_make s (e + 896) (m * p2_29).
Proof.
  intros Hs He Hm. unfold f32_widen; cbv zeta.
  rewrite (quiet_bit_make s e m Hs He Hm).
  destruct (f32_fields s e m Hs He Hm) as (-> & -> & ->). reflexivity.
Qed.

Lemma f64_narrow32_make s e m :
  s < 2 -> e < 2048 -> m < p2_52 ->
  f64_narrow32 (f64_make s e m) =
    if e =? 2047 then
      if m =? 0 then Some (f32_make s 255 0) else None
    else if e =? 0 then
      if m =? 0 then Some (f32_make s 0 0) else None
    else if (897 <=? e) && (e <=? 1150) then
      if m mod p2_29 =? 0 then Some (f32_make s (e - 896) (m / p2_29)) else None
    else if (874 <=? e) && (e <=? 896) then
      if m mod 2 ^ (52 - (e - 874)) =? 0
      then Some (f32_make s 0 (2 ^ (e - 874) + m / 2 ^ (52 - (e - 874)))) else None
    else None.
Proof.
  intros Hs He Hm. unfold f64_narrow32; cbv zeta.
  destruct (f64_fields s e m Hs He Hm) as (-> & -> & ->). reflexivity.
Qed.

(* Round trips on assembled patterns (s, e, m generic, bounded). *)
Lemma narrow32_widen_make s e m :
  s < 2 -> e < 256 -> m < p2_23 ->
  f32_is_nan (f32_make s e m) = false ->
  f64_narrow32 (f32_widen (f32_make s e m)) = Some (f32_make s e m).
Proof.
  intros Hs He Hm Hnan.
  unfold f32_is_nan in Hnan.
  destruct (f32_fields s e m Hs He Hm) as (_ & Ee & Em). rewrite Ee, Em in Hnan.
  rewrite (f32_widen_make s e m Hs He Hm).
  destruct (N.eqb_spec e 255) as [E255|N255].
  - (* infinity *)
    destruct (N.eqb_spec m 0) as [Em0|Nm0]; [|discriminate Hnan].
    subst e m. rewrite f64_narrow32_make by (consts; lia). reflexivity.
  - destruct (N.eqb_spec e 0) as [E0|N0].
    + destruct (N.eqb_spec m 0) as [Em0|Nm0].
      * (* zero *)
        subst e m. rewrite f64_narrow32_make by (consts; lia). reflexivity.
      * (* subnormal float32 -> normal float64 *)
        subst e.
        destruct (log2_mant m Nm0 Hm) as (Hl & Hlo & Hhi).
        set (l := N.log2 m) in *.
        assert (Hpq : 2 ^ l * 2 ^ (52 - l) = p2_52) by (apply pow_split; lia).
        set (p := 2 ^ l) in *. set (q := 2 ^ (52 - l)) in *.
        assert (Hq : q <> 0) by (intro E; rewrite E, N.mul_0_r in Hpq; discriminate).
        assert (HM : (m - p) * q < p2_52) by (apply (mul_lt_52 p q); [exact Hpq | lia]).
        rewrite f64_narrow32_make by (consts; lia).
        replace (l + 874 =? 2047) with false by (symmetry; apply N.eqb_neq; lia).
        replace (l + 874 =? 0) with false by (symmetry; apply N.eqb_neq; lia).
        replace ((897 <=? l + 874) && (l + 874 <=? 1150)) with false
          by (symmetry; apply andb_false_iff; left; apply N.leb_gt; lia).
        replace ((874 <=? l + 874) && (l + 874 <=? 896)) with true
          by (symmetry; apply andb_true_iff; split; apply N.leb_le; lia).
        replace (l + 874 - 874) with l by lia. fold p q.
        rewrite N.mod_mul by exact Hq. rewrite N.eqb_refl.
        rewrite N.div_mul by exact Hq.
        replace (p + (m - p)) with m by lia. reflexivity.
    + (* normal *)
      assert (HM : m * p2_29 < p2_52) by (consts; lia).
      rewrite f64_narrow32_make by (consts; lia).
      replace (e + 896 =? 2047) with false by (symmetry; apply N.eqb_neq; lia).
      replace (e + 896 =? 0) with false by (symmetry; apply N.eqb_neq; lia).
      replace ((897 <=? e + 896) && (e + 896 <=? 1150)) with true
        by (symmetry; apply andb_true_iff; split; apply N.leb_le; lia).
      assert (Hp : p2_29 <> 0) by discriminate.
      rewrite N.mod_mul by exact Hp. rewrite N.eqb_refl.
      rewrite N.div_mul by exact Hp.
      replace (e + 896 - 896) with e by lia. reflexivity.
Qed.

Lemma widen_narrow32_make s e m w :
  s < 2 -> e < 2048 -> m < p2_52 ->
  f64_narrow32 (f64_make s e m) = Some w ->
  f32_widen w = f64_make s e m /\ w < 2 ^ 32 /\ f32_is_nan w = false.
Proof.
  intros Hs He Hm.
  rewrite (f64_narrow32_make s e m Hs He Hm).
  (* every branch produces w = f32_make s e' m' with known bounds *)
  assert (Hgen : forall e' m', e' < 256 -> m' < p2_23 -> (e' = 255 -> m' = 0) ->
            f32_widen (f32_make s e' m') = f64_make s e m ->
            f32_widen (f32_make s e' m') = f64_make s e m /\
            f32_make s e' m' < 2 ^ 32 /\ f32_is_nan (f32_make s e' m') = false).
  { intros e' m' He' Hm' Hinf Hw. split; [exact Hw|]. split; [apply f32_make_lt; assumption|].
    unfold f32_is_nan. destruct (f32_fields s e' m' Hs He' Hm') as (_ & -> & ->).
    destruct (N.eqb_spec e' 255) as [E|E]; [|reflexivity].
    rewrite (Hinf E). reflexivity. }
  destruct (N.eqb_spec e 2047) as [E2047|N2047].
  { destruct (N.eqb_spec m 0) as [Em0|Nm0]; [|discriminate].
    intros [= <-]. subst e m. apply Hgen; try (consts; lia).
    rewrite f32_widen_make by (consts; lia). reflexivity. }
  destruct (N.eqb_spec e 0) as [E0|N0].
  { destruct (N.eqb_spec m 0) as [Em0|Nm0]; [|discriminate].
    intros [= <-]. subst e m. apply Hgen; try (consts; lia).
    rewrite f32_widen_make by (consts; lia). reflexivity. }
  destruct ((897 <=? e) && (e <=? 1150)) eqn:Hnorm.
  { (* float32 normal range *)
    apply andb_true_iff in Hnorm as [H1 H2]. apply N.leb_le in H1, H2.
    destruct (N.eqb_spec (m mod p2_29) 0) as [Emod|Nmod]; [|discriminate].
    intros [= <-].
    assert (Hm' : m / p2_29 < p2_23) by (consts; dlia).
    apply Hgen; try lia.
    rewrite f32_widen_make by lia.
    replace (e - 896 =? 255) with false by (symmetry; apply N.eqb_neq; lia).
    replace (e - 896 =? 0) with false by (symmetry; apply N.eqb_neq; lia).
    replace (e - 896 + 896) with e by lia.
    replace (m / p2_29 * p2_29) with m by (consts; dlia). reflexivity. }
  destruct ((874 <=? e) && (e <=? 896)) eqn:Hsub; [|discriminate].
  (* float32 subnormal range *)
  apply andb_true_iff in Hsub as [H1 H2]. apply N.leb_le in H1, H2.
  set (l := e - 874) in *.
  assert (Hl : l <= 22) by lia.
  assert (Hpq : 2 ^ l * 2 ^ (52 - l) = p2_52) by (apply pow_split; lia).
  assert (Hp22 : 2 ^ l <= p2_22) by (apply pow_le_22; exact Hl).
  assert (Hlead : forall r, r < 2 ^ l -> N.log2 (2 ^ l + r) = l) by (intros r; apply log2_lead).
  set (p := 2 ^ l) in *. set (q := 2 ^ (52 - l)) in *.
  assert (Hq : q <> 0) by (intro E; rewrite E, N.mul_0_r in Hpq; discriminate).
  destruct (N.eqb_spec (m mod q) 0) as [Emod|Nmod]; [|discriminate].
  intros [= <-].
  assert (Hr : m / q < p) by (apply (div_lt_52 p q); assumption).
  assert (Hm' : p + m / q < p2_23) by (consts; lia).
  assert (Hp0 : 0 < p) by apply pow2_pos.
  apply Hgen; try lia.
  rewrite f32_widen_make by lia.
  change (0 =? 255) with false. change (0 =? 0) with true. cbv iota.
  replace (p + m / q =? 0) with false by (symmetry; apply N.eqb_neq; lia).
  rewrite (Hlead (m / q) Hr). fold p q.
  replace (p + m / q - p) with (m / q) by lia.
  replace (l + 874) with e by lia.
  replace (m / q * q) with m; [reflexivity|].
  rewrite (N.div_mod m q Hq) at 1. rewrite Emod. lia.
Qed.

(* ------------------------------------------------------------------ *)
(** * Main round-trip theorems, float32 *)

Theorem narrow32_widen w :
  w < 2 ^ 32 -> f32_is_nan w = false -> f64_narrow32 (f32_widen w) = Some w.
Proof.
  intros Hw Hnan. destruct (f32_decompose w Hw) as (Hs & He & Hm & E).
  rewrite E in Hnan |- *. apply narrow32_widen_make; assumption.
Qed.

Theorem widen_narrow32 b w :
  b < 2 ^ 64 -> f64_narrow32 b = Some w ->
  f32_widen w = b /\ w < 2 ^ 32 /\ f32_is_nan w = false.
Proof.
  intros Hb Hn. destruct (f64_decompose b Hb) as (Hs & He & Hm & E).
  rewrite E in Hn |- *. apply widen_narrow32_make; assumption.
Qed.

Theorem f32_widen_injective w1 w2 :
  w1 < 2 ^ 32 -> w2 < 2 ^ 32 -> f32_is_nan w1 = false -> f32_is_nan w2 = false ->
  f32_widen w1 = f32_widen w2 -> w1 = w2.
Proof.
  intros H1 H2 N1 N2 E.
  pose proof (narrow32_widen w1 H1 N1) as A. pose proof (narrow32_widen w2 H2 N2) as B.
  rewrite E in A. rewrite A in B. injection B; auto.
Qed.

(* ------------------------------------------------------------------ *)
(** * Range and classification of widened patterns *)

Theorem f32_widen_lt w : w < 2 ^ 32 -> f32_widen w < 2 ^ 64.
Proof.
  intros Hw. destruct (f32_decompose w Hw) as (Hs & He & Hm & E).
  rewrite E. set (s := f32_sign w) in *. set (e := f32_expo w) in *. set (m := f32_mant w) in *.
  rewrite f32_widen_make by assumption.
  destruct (N.eqb_spec e 255) as [E255|N255].
  - destruct (N.eqb_spec m 0); [apply f64_make_lt; consts; lia|].
    destruct (p2_22 <=? m); reflexivity.
  - destruct (N.eqb_spec e 0) as [E0|N0].
    + destruct (N.eqb_spec m 0) as [Em0|Nm0]; [apply f64_make_lt; consts; lia|].
      destruct (log2_mant m Nm0 Hm) as (Hl & Hlo & Hhi).
      apply f64_make_lt; [exact Hs | lia |].
      apply (mul_lt_52 (2 ^ N.log2 m)); [apply pow_split; lia | lia].
    + apply f64_make_lt; consts; lia.
Qed.

(* fields of the widened pattern, by case *)
Lemma f32_widen_fields w :
  w < 2 ^ 32 -> f32_is_nan w = false ->
  f64_sign (f32_widen w) = f32_sign w /\
  (f32_expo w = 255 -> f64_expo (f32_widen w) = 2047 /\ f64_mant (f32_widen w) = 0) /\
  (f32_expo w = 0 -> f32_mant w = 0 -> f64_expo (f32_widen w) = 0 /\ f64_mant (f32_widen w) = 0) /\
  (f32_expo w = 0 -> f32_mant w <> 0 ->
     f64_expo (f32_widen w) = N.log2 (f32_mant w) + 874 /\
     f64_mant (f32_widen w) = (f32_mant w - 2 ^ N.log2 (f32_mant w)) * 2 ^ (52 - N.log2 (f32_mant w))) /\
  (f32_expo w <> 0 -> f32_expo w <> 255 ->
     f64_expo (f32_widen w) = f32_expo w + 896 /\ f64_mant (f32_widen w) = f32_mant w * p2_29).
Proof.
  intros Hw Hnan. destruct (f32_decompose w Hw) as (Hs & He & Hm & E).
  unfold f32_is_nan in Hnan.
  set (s := f32_sign w) in *. set (e := f32_expo w) in *. set (m := f32_mant w) in *.
  rewrite E. rewrite f32_widen_make by assumption.
  destruct (N.eqb_spec e 255) as [E255|N255].
  - destruct (N.eqb_spec m 0) as [Em0|Nm0]; [|discriminate Hnan].
    destruct (f64_fields s 2047 0) as (A & B & C); [consts; lia | consts; lia | consts; lia |].
    lia.
  - destruct (N.eqb_spec e 0) as [E0|N0].
    + destruct (N.eqb_spec m 0) as [Em0|Nm0].
      * destruct (f64_fields s 0 0) as (A & B & C); [consts; lia | consts; lia | consts; lia |].
        lia.
      * destruct (log2_mant m Nm0 Hm) as (Hl & Hlo & Hhi).
        destruct (f64_fields s (N.log2 m + 874) ((m - 2 ^ N.log2 m) * 2 ^ (52 - N.log2 m)))
          as (A & B & C); [exact Hs | lia | |].
        { apply (mul_lt_52 (2 ^ N.log2 m)); [apply pow_split; lia | lia]. }
        lia.
    + destruct (f64_fields s (e + 896) (m * p2_29)) as (A & B & C); [consts; lia | consts; lia | consts; lia |].
      lia.
Qed.

Theorem widen_is_nan w : w < 2 ^ 32 -> f64_is_nan (f32_widen w) = f32_is_nan w.
Proof.
  intros Hw. destruct (f32_is_nan w) eqn:Hnan.
  - (* NaN -> canonical NaN constant *)
    destruct (f32_decompose w Hw) as (Hs & He & Hm & E).
    unfold f32_is_nan in Hnan.
    set (s := f32_sign w) in *. set (e := f32_expo w) in *. set (m := f32_mant w) in *.
    rewrite E. rewrite f32_widen_make by assumption.
    apply andb_true_iff in Hnan as [He255 Hm0]. rewrite He255.
    apply negb_true_iff in Hm0. rewrite Hm0.
    destruct (p2_22 <=? m); reflexivity.
  - destruct (f32_widen_fields w Hw Hnan) as (_ & Hinf & Hz & Hsub & Hnorm).
    unfold f32_is_nan in Hnan. unfold f64_is_nan.
    destruct (N.eqb_spec (f32_expo w) 255) as [E255|N255].
    + destruct (Hinf E255) as [-> ->]. reflexivity.
    + destruct (N.eq_dec (f32_expo w) 0) as [E0|N0].
      * destruct (N.eq_dec (f32_mant w) 0) as [Em0|Nm0].
        -- destruct (Hz E0 Em0) as [-> ->]. reflexivity.
        -- destruct (Hsub E0 Nm0) as [-> _].
           destruct (f32_decompose w Hw) as (_ & _ & Hm & _).
           destruct (log2_mant _ Nm0 Hm) as (Hl & _).
           replace (N.log2 (f32_mant w) + 874 =? 2047) with false
             by (symmetry; apply N.eqb_neq; lia). reflexivity.
      * destruct (Hnorm N0 N255) as [-> _].
        destruct (f32_decompose w Hw) as (_ & He & _ & _).
        replace (f32_expo w + 896 =? 2047) with false by (symmetry; apply N.eqb_neq; lia).
        reflexivity.
Qed.

Theorem widen_is_inf w : w < 2 ^ 32 -> f64_is_inf (f32_widen w) = f32_is_inf w.
Proof.
  intros Hw. destruct (f32_is_nan w) eqn:Hnan.
  - pose proof (widen_is_nan w Hw) as H. rewrite Hnan in H.
    unfold f64_is_nan in H. unfold f64_is_inf, f32_is_inf. unfold f32_is_nan in Hnan.
    apply andb_true_iff in H as [-> H]. apply andb_true_iff in Hnan as [-> Hnan].
    apply negb_true_iff in H, Hnan. rewrite H, Hnan. reflexivity.
  - destruct (f32_widen_fields w Hw Hnan) as (_ & Hinf & Hz & Hsub & Hnorm).
    unfold f32_is_nan in Hnan. unfold f64_is_inf, f32_is_inf.
    destruct (f32_decompose w Hw) as (_ & He & Hm & _).
    destruct (N.eqb_spec (f32_expo w) 255) as [E255|N255].
    + destruct (Hinf E255) as [-> ->].
      destruct (N.eqb_spec (f32_mant w) 0); [reflexivity | discriminate Hnan].
    + destruct (N.eq_dec (f32_expo w) 0) as [E0|N0].
      * destruct (N.eq_dec (f32_mant w) 0) as [Em0|Nm0].
        -- destruct (Hz E0 Em0) as [-> ->]. reflexivity.
        -- destruct (Hsub E0 Nm0) as [-> _].
           destruct (log2_mant _ Nm0 Hm) as (Hl & _).
           replace (N.log2 (f32_mant w) + 874 =? 2047) with false
             by (symmetry; apply N.eqb_neq; lia). reflexivity.
      * destruct (Hnorm N0 N255) as [-> _].
        replace (f32_expo w + 896 =? 2047) with false by (symmetry; apply N.eqb_neq; lia).
        reflexivity.
Qed.

Theorem widen_is_zero w : w < 2 ^ 32 -> f64_is_zero (f32_widen w) = f32_is_zero w.
Proof.
  intros Hw. destruct (f32_is_nan w) eqn:Hnan.
  - pose proof (widen_is_nan w Hw) as H. rewrite Hnan in H.
    unfold f64_is_nan in H. unfold f64_is_zero, f32_is_zero. unfold f32_is_nan in Hnan.
    apply andb_true_iff in H as [H _]. apply andb_true_iff in Hnan as [Hnan _].
    apply N.eqb_eq in H, Hnan. rewrite H, Hnan. reflexivity.
  - destruct (f32_widen_fields w Hw Hnan) as (_ & Hinf & Hz & Hsub & Hnorm).
    unfold f64_is_zero, f32_is_zero.
    destruct (f32_decompose w Hw) as (_ & He & Hm & _).
    destruct (N.eq_dec (f32_expo w) 255) as [E255|N255].
    + destruct (Hinf E255) as [-> ->]. rewrite E255. reflexivity.
    + destruct (N.eq_dec (f32_expo w) 0) as [E0|N0].
      * destruct (N.eq_dec (f32_mant w) 0) as [Em0|Nm0].
        -- destruct (Hz E0 Em0) as [-> ->]. rewrite E0, Em0. reflexivity.
        -- destruct (Hsub E0 Nm0) as [-> _]. rewrite E0.
           replace (N.log2 (f32_mant w) + 874 =? 0) with false
             by (symmetry; apply N.eqb_neq; lia).
           replace (f32_mant w =? 0) with false by (symmetry; apply N.eqb_neq; lia).
           reflexivity.
      * destruct (Hnorm N0 N255) as [-> _].
        replace (f32_expo w + 896 =? 0) with false by (symmetry; apply N.eqb_neq; lia).
        replace (f32_expo w =? 0) with false by (symmetry; apply N.eqb_neq; lia).
        reflexivity.
Qed.

(* NaN: quiet/signalling status survives (decoder.go patches the signalling case) *)
Theorem widen_nan_canonical w :
  w < 2 ^ 32 -> f32_is_nan w = true ->
  f32_widen w = (if f32_quiet_bit w then f64_quiet_nan_bits else f64_signaling_nan_bits) /\
  f64_quiet_bit (f32_widen w) = f32_quiet_bit w.
Proof.
  intros Hw Hnan. unfold f32_widen; cbv zeta. unfold f32_is_nan in Hnan.
  apply andb_true_iff in Hnan as [-> Hm0]. apply negb_true_iff in Hm0. rewrite Hm0.
  split; [reflexivity|]. destruct (f32_quiet_bit w); reflexivity.
Qed.

Theorem narrow32_nan b : f64_is_nan b = true -> f64_narrow32 b = None.
Proof.
  unfold f64_is_nan, f64_narrow32; cbv zeta. intros H.
  apply andb_true_iff in H as [-> H]. apply negb_true_iff in H. rewrite H. reflexivity.
Qed.

(* ------------------------------------------------------------------ *)
(** * bfloat16 *)

Theorem narrow16_widen h :
  h < 2 ^ 16 -> bf16_is_nan h = false -> f64_narrow16 (bf16_widen h) = Some h.
Proof.
  intros Hh Hnan. unfold f64_narrow16, bf16_widen, bf16_is_nan in *.
  assert (Hw : h * 65536 < 2 ^ 32) by (bounds; lia).
  rewrite (narrow32_widen _ Hw Hnan).
  rewrite N.mod_mul by discriminate. rewrite N.eqb_refl.
  rewrite N.div_mul by discriminate. reflexivity.
Qed.

Theorem widen_narrow16 b h :
  b < 2 ^ 64 -> f64_narrow16 b = Some h ->
  bf16_widen h = b /\ h < 2 ^ 16 /\ bf16_is_nan h = false.
Proof.
  intros Hb. unfold f64_narrow16, bf16_widen, bf16_is_nan.
  destruct (f64_narrow32 b) as [w|] eqn:Hn; [|discriminate].
  destruct (widen_narrow32 b w Hb Hn) as (Hwid & Hw & Hnan).
  destruct (N.eqb_spec (w mod 65536) 0) as [Emod|Nmod]; [|discriminate].
  intros [= <-].
  assert (Ew : w / 65536 * 65536 = w) by dlia.
  rewrite Ew. repeat split; try assumption. bounds. dlia.
Qed.

Theorem bf16_widen_injective h1 h2 :
  h1 < 2 ^ 16 -> h2 < 2 ^ 16 -> bf16_is_nan h1 = false -> bf16_is_nan h2 = false ->
  bf16_widen h1 = bf16_widen h2 -> h1 = h2.
Proof.
  intros H1 H2 N1 N2 E.
  pose proof (narrow16_widen h1 H1 N1) as A. pose proof (narrow16_widen h2 H2 N2) as B.
  rewrite E in A. rewrite A in B. injection B; auto.
Qed.

(* narrowing to 16 bits = narrowing to 32 bits with the low half zero *)
Theorem narrow16_spec b h :
  f64_narrow16 b = Some h <-> exists w, f64_narrow32 b = Some w /\ w mod 65536 = 0 /\ h = w / 65536.
Proof.
  unfold f64_narrow16. destruct (f64_narrow32 b) as [w|].
  - destruct (N.eqb_spec (w mod 65536) 0) as [E|E]; split.
    + intros [= <-]. exists w. auto.
    + intros (w' & [= <-] & _ & ->). reflexivity.
    + discriminate.
    + intros (w' & [= <-] & E' & _). contradiction.
  - split; [discriminate | intros (w' & H & _); discriminate].
Qed.

(* ------------------------------------------------------------------ *)
(** * Width selection *)

Definition repr16 (b : N) : Prop :=
  exists h, h < 2 ^ 16 /\ bf16_is_nan h = false /\ bf16_widen h = b.
Definition repr32 (b : N) : Prop :=
  exists w, w < 2 ^ 32 /\ f32_is_nan w = false /\ f32_widen w = b.

Lemma narrow16_iff b : b < 2 ^ 64 -> ((exists h, f64_narrow16 b = Some h) <-> repr16 b).
Proof.
  intros Hb. split.
  - intros [h Hn]. destruct (widen_narrow16 b h Hb Hn) as (A & B & C). exists h. auto.
  - intros (h & Hh & Hnan & <-). exists h. apply narrow16_widen; assumption.
Qed.

Lemma narrow32_iff b : b < 2 ^ 64 -> ((exists w, f64_narrow32 b = Some w) <-> repr32 b).
Proof.
  intros Hb. split.
  - intros [w Hn]. destruct (widen_narrow32 b w Hb Hn) as (A & B & C). exists w. auto.
  - intros (w & Hw & Hnan & <-). exists w. apply narrow32_widen; assumption.
Qed.

Lemma repr16_repr32 b : repr16 b -> repr32 b.
Proof.
  intros (h & Hh & Hnan & E). exists (h * 65536). unfold bf16_is_nan, bf16_widen in *.
  repeat split; try assumption. bounds. lia.
Qed.

Theorem float_width_W16 b :
  b < 2 ^ 64 ->
  (float_width b = W16 <->
   exists h, h < 2 ^ 16 /\ bf16_is_nan h = false /\ bf16_widen h = b).
Proof.
  intros Hb. fold (repr16 b). rewrite <- (narrow16_iff b Hb). unfold float_width.
  destruct (f64_narrow16 b) as [h|].
  - split; [intros _; exists h; reflexivity | reflexivity].
  - split.
    + destruct (f64_narrow32 b); discriminate.
    + intros [h H]; discriminate.
Qed.

Theorem float_width_W32 b :
  b < 2 ^ 64 ->
  (float_width b = W32 <->
   (~ exists h, h < 2 ^ 16 /\ bf16_is_nan h = false /\ bf16_widen h = b) /\
   exists w, w < 2 ^ 32 /\ f32_is_nan w = false /\ f32_widen w = b).
Proof.
  intros Hb. fold (repr16 b) (repr32 b).
  rewrite <- (narrow16_iff b Hb), <- (narrow32_iff b Hb). unfold float_width.
  destruct (f64_narrow16 b) as [h|].
  - split; [discriminate|]. intros [H _]. exfalso. apply H. exists h. reflexivity.
  - destruct (f64_narrow32 b) as [w|].
    + split; [|reflexivity]. intros _. split; [intros [h H]; discriminate | exists w; reflexivity].
    + split; [discriminate|]. intros [_ [w H]]. discriminate.
Qed.

Theorem float_width_W64 b :
  b < 2 ^ 64 ->
  (float_width b = W64 <->
   ~ exists w, w < 2 ^ 32 /\ f32_is_nan w = false /\ f32_widen w = b).
Proof.
  intros Hb. fold (repr32 b).
  rewrite <- (narrow32_iff b Hb). unfold float_width.
  destruct (f64_narrow16 b) as [h|] eqn:H16.
  - split; [discriminate|]. intros H. exfalso. apply H.
    apply narrow16_spec in H16 as (w & Hw & _). exists w. exact Hw.
  - destruct (f64_narrow32 b) as [w|].
    + split; [discriminate|]. intros H. exfalso. apply H. exists w. reflexivity.
    + split; [|reflexivity]. intros _ [w H]. discriminate.
Qed.

(* the three statements together: the chosen width is the narrowest exact one *)
Theorem float_width_minimal b :
  b < 2 ^ 64 ->
  match float_width b with
  | W16 => repr16 b
  | W32 => ~ repr16 b /\ repr32 b
  | W64 => ~ repr16 b /\ ~ repr32 b
  end.
Proof.
  intros Hb. destruct (float_width b) eqn:E.
  - apply (float_width_W16 b Hb). exact E.
  - apply (float_width_W32 b Hb). exact E.
  - apply (float_width_W64 b Hb) in E. split; [|exact E].
    intros H. apply E. apply repr16_repr32. exact H.
Qed.

(* encoder payload decodes back to the very same float64 bit pattern,
   for every pattern (NaNs travel verbatim as W64) *)
Theorem float_roundtrip b :
  b < 2 ^ 64 -> float_decode (fst (float_encode b)) (snd (float_encode b)) = b.
Proof.
  intros Hb. unfold float_encode.
  destruct (f64_narrow16 b) as [h|] eqn:H16.
  - apply (widen_narrow16 b h Hb H16).
  - destruct (f64_narrow32 b) as [w|] eqn:H32.
    + apply (widen_narrow32 b w Hb H32).
    + reflexivity.
Qed.

Theorem float_encode_width b : fst (float_encode b) = float_width b.
Proof.
  unfold float_encode, float_width.
  destruct (f64_narrow16 b); [reflexivity|]. destruct (f64_narrow32 b); reflexivity.
Qed.

(* ------------------------------------------------------------------ *)
(** * Real-value semantics *)

Theorem f32_widen_sign w :
  w < 2 ^ 32 -> f32_is_nan w = false -> f64_sign (f32_widen w) = f32_sign w.
Proof. intros Hw Hnan. apply (f32_widen_fields w Hw Hnan). Qed.

(* normal float32 -> same value *)
Theorem f32_widen_mag_normal w :
  w < 2 ^ 32 -> f32_expo w <> 0 -> f32_expo w <> 255 ->
  f32_mag w = Some ((p2_23 + f32_mant w) * 2 ^ (f32_expo w - 1)) /\
  f64_mag (f32_widen w) = Some ((p2_23 + f32_mant w) * 2 ^ (f32_expo w - 1) * 2 ^ 925).
Proof.
  intros Hw N0 N255.
  assert (Hnan : f32_is_nan w = false).
  { unfold f32_is_nan. replace (f32_expo w =? 255) with false by (symmetry; apply N.eqb_neq; lia).
    reflexivity. }
  destruct (f32_widen_fields w Hw Hnan) as (_ & _ & _ & _ & Hnorm).
  destruct (Hnorm N0 N255) as [Ee Em].
  destruct (f32_decompose w Hw) as (_ & He & Hm & _).
  unfold f32_mag, f64_mag; cbv zeta. rewrite Ee, Em.
  set (e := f32_expo w) in *. set (m := f32_mant w) in *.
  replace (e =? 255) with false by (symmetry; apply N.eqb_neq; lia).
  replace (e =? 0) with false by (symmetry; apply N.eqb_neq; lia).
  replace (e + 896 =? 2047) with false by (symmetry; apply N.eqb_neq; lia).
  replace (e + 896 =? 0) with false by (symmetry; apply N.eqb_neq; lia).
  split; [reflexivity|]. f_equal.
  replace (e + 896 - 1) with ((e - 1) + 896) by lia.
  rewrite N.pow_add_r.
  replace (2 ^ 925) with (p2_29 * 2 ^ 896) by (vm_compute; reflexivity).
  replace (p2_52 + m * p2_29) with ((p2_23 + m) * p2_29) by (consts; lia).
  generalize (2 ^ (e - 1)) (2 ^ 896) p2_29 (p2_23 + m). intros A B C D. lia.
Qed.

(* subnormal float32 (normalised to a NORMAL float64) -> same value *)
Theorem f32_widen_mag_subnormal w :
  w < 2 ^ 32 -> f32_expo w = 0 -> f32_mant w <> 0 ->
  f32_mag w = Some (f32_mant w) /\
  f64_mag (f32_widen w) = Some (f32_mant w * 2 ^ 925) /\
  f64_expo (f32_widen w) <> 0.
Proof.
  intros Hw E0 Nm0.
  assert (Hnan : f32_is_nan w = false) by (unfold f32_is_nan; rewrite E0; reflexivity).
  destruct (f32_widen_fields w Hw Hnan) as (_ & _ & _ & Hsub & _).
  destruct (Hsub E0 Nm0) as [Ee Em].
  destruct (f32_decompose w Hw) as (_ & _ & Hm & _).
  destruct (log2_mant _ Nm0 Hm) as (Hl & Hlo & Hhi).
  unfold f32_mag, f64_mag; cbv zeta. rewrite Ee, Em, E0.
  set (m := f32_mant w) in *. set (l := N.log2 m) in *.
  replace (l + 874 =? 2047) with false by (symmetry; apply N.eqb_neq; lia).
  replace (l + 874 =? 0) with false by (symmetry; apply N.eqb_neq; lia).
  split; [reflexivity|]. split; [|lia]. f_equal.
  assert (Hpq : 2 ^ l * 2 ^ (52 - l) = p2_52) by (apply pow_split; lia).
  assert (Hq2 : 2 ^ (52 - l) * 2 ^ (l + 874 - 1) = 2 ^ 925).
  { rewrite <- N.pow_add_r. f_equal. lia. }
  rewrite <- Hpq.
  revert Hq2 Hlo. generalize (2 ^ 925) (2 ^ (l + 874 - 1)) (2 ^ (52 - l)) (2 ^ l).
  intros T A Q P Hq2 Hlo. rewrite <- Hq2.
  replace (P * Q + (m - P) * Q) with (m * Q) by nia. lia.
Qed.

(* all patterns at once *)
Theorem f32_widen_mag w :
  w < 2 ^ 32 ->
  f64_mag (f32_widen w) = option_map (fun x => x * 2 ^ 925) (f32_mag w).
Proof.
  intros Hw.
  destruct (f32_decompose w Hw) as (_ & He & Hm & _).
  destruct (N.eq_dec (f32_expo w) 255) as [E255|N255].
  - (* inf / NaN: no value on either side *)
    assert (H : f64_expo (f32_widen w) = 2047).
    { destruct (f32_is_nan w) eqn:Hnan.
      - pose proof (widen_is_nan w Hw) as H. rewrite Hnan in H. unfold f64_is_nan in H.
        apply andb_true_iff in H as [H _]. apply N.eqb_eq in H. exact H.
      - apply (f32_widen_fields w Hw Hnan). exact E255. }
    unfold f64_mag, f32_mag; cbv zeta. rewrite H, E255. reflexivity.
  - destruct (N.eq_dec (f32_expo w) 0) as [E0|N0].
    + destruct (N.eq_dec (f32_mant w) 0) as [Em0|Nm0].
      * assert (Hnan : f32_is_nan w = false) by (unfold f32_is_nan; rewrite E0; reflexivity).
        destruct (f32_widen_fields w Hw Hnan) as (_ & _ & Hz & _).
        destruct (Hz E0 Em0) as [Ee Em].
        unfold f64_mag, f32_mag; cbv zeta. rewrite Ee, Em, E0, Em0. reflexivity.
      * destruct (f32_widen_mag_subnormal w Hw E0 Nm0) as (-> & -> & _). reflexivity.
    + destruct (f32_widen_mag_normal w Hw N0 N255) as (-> & ->). reflexivity.
Qed.

(* The (sign, magnitude) pair determines the float64 pattern: a finite real
   value has exactly one float64 representation (up to the sign of zero,
   which the sign field records). *)
Lemma Some_inj {A} (a b : A) : Some a = Some b -> a = b.
Proof. intros H. congruence. Qed.

Lemma log2_normal_mag m k : m < p2_52 -> N.log2 ((p2_52 + m) * 2 ^ k) = 52 + k.
Proof.
  intros Hm. apply N.log2_unique; [apply N.le_0_l|].
  rewrite N.pow_succ_r', N.pow_add_r. change (2 ^ 52) with p2_52.
  pose proof (pow2_pos k) as Hk. revert Hk. generalize (2 ^ k). intros K HK.
  split.
  - apply N.mul_le_mono_r. lia.
  - rewrite N.mul_assoc. apply N.mul_lt_mono_pos_r; [exact HK | lia].
Qed.

Theorem f64_mag_injective b1 b2 x :
  b1 < 2 ^ 64 -> b2 < 2 ^ 64 -> f64_sign b1 = f64_sign b2 ->
  f64_mag b1 = Some x -> f64_mag b2 = Some x -> b1 = b2.
Proof.
  intros H1 H2 Hs.
  destruct (f64_decompose b1 H1) as (_ & He1 & Hm1 & E1).
  destruct (f64_decompose b2 H2) as (_ & He2 & Hm2 & E2).
  unfold f64_mag; cbv zeta.
  set (e1 := f64_expo b1) in *. set (m1 := f64_mant b1) in *.
  set (e2 := f64_expo b2) in *. set (m2 := f64_mant b2) in *.
  clearbody e1 m1 e2 m2.
  intros A B.
  assert (Hbig : forall m k, p2_52 <= (p2_52 + m) * 2 ^ k).
  { intros m k. pose proof (pow2_pos k) as Hk. revert Hk. generalize (2 ^ k). intros K HK. nia. }
  assert (Hem : e1 = e2 /\ m1 = m2).
  { destruct (N.eqb_spec e1 2047); [discriminate A|].
    destruct (N.eqb_spec e2 2047); [discriminate B|].
    destruct (N.eqb_spec e1 0) as [Z1|Z1]; destruct (N.eqb_spec e2 0) as [Z2|Z2];
      apply Some_inj in A; apply Some_inj in B.
    - split; lia.
    - pose proof (Hbig m2 (e2 - 1)). lia.
    - pose proof (Hbig m1 (e1 - 1)). lia.
    - assert (L : 52 + (e1 - 1) = 52 + (e2 - 1)).
      { rewrite <- (log2_normal_mag m1 (e1 - 1) Hm1), <- (log2_normal_mag m2 (e2 - 1) Hm2).
        rewrite A, B. reflexivity. }
      assert (Ee : e1 = e2) by lia. split; [exact Ee|].
      rewrite <- B, Ee in A.
      apply N.mul_cancel_r in A; [lia|]. apply N.pow_nonzero. discriminate. }
  destruct Hem as [Ee Em]. rewrite E1, E2, Hs, Ee, Em. reflexivity.
Qed.

(* Semantic reading of [repr32]: a finite float64 [b] narrows exactly to float32
   iff some finite float32 pattern has the same sign and the same real magnitude
   (x / 2^1074 = y / 2^149, i.e. x = y * 2^925). *)
Theorem repr32_semantic b x :
  b < 2 ^ 64 -> f64_mag b = Some x ->
  (repr32 b <->
   exists w y, w < 2 ^ 32 /\ f32_sign w = f64_sign b /\ f32_mag w = Some y /\ x = y * 2 ^ 925).
Proof.
  intros Hb Hx. split.
  - intros (w & Hw & Hnan & E). subst b.
    pose proof (f32_widen_mag w Hw) as M. rewrite Hx in M.
    destruct (f32_mag w) as [y|] eqn:Hy; [|discriminate M]. injection M as M.
    exists w, y. repeat split; try assumption.
    symmetry. apply f32_widen_sign; assumption.
  - intros (w & y & Hw & Hs & Hy & E).
    assert (Hnan : f32_is_nan w = false).
    { unfold f32_is_nan. unfold f32_mag in Hy; cbv zeta in Hy.
      destruct (f32_expo w =? 255); [discriminate Hy | reflexivity]. }
    exists w. repeat split; try assumption.
    apply (f64_mag_injective _ _ x); try assumption.
    + apply f32_widen_lt. exact Hw.
    + rewrite <- Hs. apply f32_widen_sign; assumption.
    + rewrite (f32_widen_mag w Hw), Hy, E. reflexivity.
Qed.

(* rational values: value32 w == value64 (widen w) *)
Definition oQeq (a b : option Q) : Prop :=
  match a, b with
  | Some x, Some y => Qeq x y
  | None, None => True
  | _, _ => False
  end.

Theorem f32_widen_value w :
  w < 2 ^ 32 -> f32_is_nan w = false ->
  oQeq (f32_value w) (f64_value (f32_widen w)).
Proof.
  intros Hw Hnan. unfold f32_value, f64_value.
  rewrite (f32_widen_mag w Hw), (f32_widen_sign w Hw Hnan).
  destruct (f32_mag w) as [x|]; [|exact I].
  cbn [option_map oQeq]. unfold Qeq. cbn [Qnum Qden].
  assert (Hpow : (Z.pos (2 ^ 1074) = Z.pos (2 ^ 149) * Z.of_N (2 ^ 925))%Z)
    by (vm_compute; reflexivity).
  rewrite Hpow. unfold signed.
  destruct (f32_sign w =? 0); rewrite N2Z.inj_mul; ring.
Qed.

(* ------------------------------------------------------------------ *)
(** * Non-vacuity examples *)

Example ex_widen_values :
  f32_widen 0x3F800000 = 0x3FF0000000000000 /\
  f32_widen 0x00000001 = 0x36A0000000000000 /\
  f32_widen 0x007FFFFF = 0x380FFFFFC0000000 /\
  f32_widen 0x00800000 = 0x3810000000000000 /\
  f32_widen 0x80000000 = 0x8000000000000000 /\
  f32_widen 0x7F800000 = 0x7FF0000000000000 /\
  f32_widen 0xFF800000 = 0xFFF0000000000000 /\
  f32_widen 0x7F7FFFFF = 0x47EFFFFFE0000000 /\
  f32_widen 0x7FC00001 = f64_quiet_nan_bits /\
  f32_widen 0xFFA00001 = f64_signaling_nan_bits /\
  bf16_widen 0x3FC0 = 0x3FF8000000000000.
Proof. vm_compute. repeat split. Qed.

Example ex_narrow :
  f64_narrow32 0x36A0000000000000 = Some 1 /\           (* smallest float32 subnormal *)
  f64_narrow32 0x3690000000000000 = None /\             (* half of it *)
  f64_narrow32 0x380FFFFFC0000000 = Some 0x007FFFFF /\  (* largest subnormal *)
  f64_narrow32 0x380FFFFFE0000000 = None /\             (* one more mantissa bit *)
  f64_narrow32 0x47EFFFFFE0000000 = Some 0x7F7FFFFF /\  (* max float32 *)
  f64_narrow32 0x47F0000000000000 = None /\             (* 2^128 *)
  f64_narrow32 0x7FF8000000000000 = None /\             (* NaN *)
  f64_narrow16 0x3FF8000000000000 = Some 0x3FC0 /\      (* 1.5 *)
  f64_narrow16 0x3FF0002000000000 = None.
Proof. vm_compute. repeat split. Qed.

Example ex_float_width :
  float_width 0x3FF8000000000000 = W16 /\    (* 1.5 *)
  float_width 0x3FF0002000000000 = W32 /\    (* 1 + 2^-23 *)
  float_width 0x36A0000000000000 = W32 /\    (* 2^-149 *)
  float_width 0x3FF0000000000001 = W64 /\    (* 1 + 2^-52 *)
  float_width 0x3FB999999999999A = W64.      (* 0.1 *)
Proof. vm_compute. repeat split. Qed.

Example ex_value :
  oQeq (f32_value 0x00000003) (Some (3 # (2 ^ 149))) /\
  oQeq (f64_value (f32_widen 0x00000003)) (Some (3 # (2 ^ 149))) /\
  oQeq (f64_value 0xBFF8000000000000) (Some (- 3 # 2)).
Proof. vm_compute. repeat split. Qed.

Print Assumptions narrow32_widen.
Print Assumptions widen_narrow32.
Print Assumptions narrow16_widen.
Print Assumptions widen_narrow16.
Print Assumptions f32_widen_injective.
Print Assumptions bf16_widen_injective.
Print Assumptions float_width_W16.
Print Assumptions float_width_W32.
Print Assumptions float_width_W64.
Print Assumptions float_width_minimal.
Print Assumptions float_roundtrip.
Print Assumptions widen_is_nan.
Print Assumptions widen_is_inf.
Print Assumptions widen_is_zero.
Print Assumptions widen_nan_canonical.
Print Assumptions f32_widen_lt.
Print Assumptions f32_widen_mag.
Print Assumptions f32_widen_mag_normal.
Print Assumptions f32_widen_mag_subnormal.
Print Assumptions f32_widen_value.
Print Assumptions f64_mag_injective.
Print Assumptions repr32_semantic.
