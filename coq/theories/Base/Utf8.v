(* UTF-8 as Go's unicode/utf8 sees it: utf8.Valid, utf8.DecodeRune. *)
From CE Require Export Base.Prelude.
Open Scope N_scope.

Definition is_cont (b : N) : bool := (128 <=? b) && (b <=? 191).

(* Decode one rune at the head of [s]: Some (code point, size) when the head is
   a well-formed, shortest-form, non-surrogate encoding; None otherwise
   (DecodeRune then returns (RuneError, 1)). *)
Definition decode_rune (s : bytes) : option (N * nat) :=
  match s with
  | [] => None
  | b0 :: r =>
    if b0 <? 128 then Some (b0, 1%nat)
    else if b0 <? 194 then None                                 (* 80..C1: continuation or overlong *)
    else if b0 <? 224 then                                      (* C2..DF *)
      match r with
      | b1 :: _ => if is_cont b1 then Some ((b0 - 192) * 64 + (b1 - 128), 2%nat) else None
      | _ => None
      end
    else if b0 <? 240 then                                      (* E0..EF *)
      match r with
      | b1 :: b2 :: _ =>
        let lo := if b0 =? 224 then 160 else 128 in
        let hi := if b0 =? 237 then 159 else 191 in
        if (lo <=? b1) && (b1 <=? hi) && is_cont b2
        then Some ((b0 - 224) * 4096 + (b1 - 128) * 64 + (b2 - 128), 3%nat) else None
      | _ => None
      end
    else if b0 <? 245 then                                      (* F0..F4 *)
      match r with
      | b1 :: b2 :: b3 :: _ =>
        let lo := if b0 =? 240 then 144 else 128 in
        let hi := if b0 =? 244 then 143 else 191 in
        if (lo <=? b1) && (b1 <=? hi) && is_cont b2 && is_cont b3
        then Some ((b0 - 240) * 262144 + (b1 - 128) * 4096 + (b2 - 128) * 64 + (b3 - 128), 4%nat) else None
      | _ => None
      end
    else None
  end.

(* utf8.Valid, by fuel = length (each step consumes at least one byte). *)
Fixpoint utf8_valid_fuel (fuel : nat) (s : bytes) : bool :=
  match s with
  | [] => true
  | _ =>
    match fuel with
    | O => false
    | S f =>
      match decode_rune s with
      | Some (_, n) => utf8_valid_fuel f (skipn n s)
      | None => false
      end
    end
  end.
Definition utf8_valid (s : bytes) : bool := utf8_valid_fuel (length s) s.

(* Code points of a byte string the way `for len(str) > 0 { r, size := utf8.DecodeRune(str) ... }`
   enumerates them: invalid bytes yield U+FFFD and advance by one. *)
Fixpoint runes_fuel (fuel : nat) (s : bytes) : list N :=
  match s with
  | [] => []
  | _ =>
    match fuel with
    | O => []
    | S f =>
      match decode_rune s with
      | Some (r, n) => r :: runes_fuel f (skipn n s)
      | None => 65533 :: runes_fuel f (skipn 1 s)
      end
    end
  end.
Definition runes (s : bytes) : list N := runes_fuel (length s) s.
