(* Shared vocabulary: bytes as N, outcomes, and the mismatch collector used by
   the generated case files of the correspondence check. *)
From Coq Require Export List NArith ZArith Bool Lia.
Export ListNotations.

Definition byte := N.
Definition bytes := list N.

(* Outcome of running an entry point or a pipeline (DESIGN section 3). *)
Inductive outcome (A : Type) : Type :=
| Ok (a : A)
| Err
| Panic
| Hang.
Arguments Ok {A} a.
Arguments Err {A}.
Arguments Panic {A}.
Arguments Hang {A}.

Definition outcome_bind {A B} (o : outcome A) (f : A -> outcome B) : outcome B :=
  match o with Ok a => f a | Err => Err | Panic => Panic | Hang => Hang end.

(* Indices (from 0) of the cases on which [chk] is false. *)
Fixpoint mismatches_from {A} (chk : A -> bool) (i : N) (l : list A) : list N :=
  match l with
  | [] => []
  | x :: r => if chk x then mismatches_from chk (N.succ i) r
              else i :: mismatches_from chk (N.succ i) r
  end.
Definition mismatches {A} (chk : A -> bool) (l : list A) : list N := mismatches_from chk 0%N l.

Fixpoint list_eqb {A} (eqb : A -> A -> bool) (a b : list A) : bool :=
  match a, b with
  | [], [] => true
  | x :: a', y :: b' => eqb x y && list_eqb eqb a' b'
  | _, _ => false
  end.

Definition bytes_eqb : bytes -> bytes -> bool := list_eqb N.eqb.

Lemma list_eqb_eq {A} (eqb : A -> A -> bool) :
  (forall x y, eqb x y = true <-> x = y) ->
  forall a b, list_eqb eqb a b = true <-> a = b.
Proof.
  intros H a; induction a as [|x a IH]; intros [|y b]; simpl; split; intro E;
    try reflexivity; try discriminate.
  - apply andb_true_iff in E as [E1 E2]. apply H in E1. apply IH in E2. congruence.
  - inversion E; subst. apply andb_true_iff; split; [apply H | apply IH]; reflexivity.
Qed.

Lemma bytes_eqb_eq a b : bytes_eqb a b = true <-> a = b.
Proof. apply list_eqb_eq. intros; apply N.eqb_eq. Qed.

Definition option_eqb {A} (eqb : A -> A -> bool) (a b : option A) : bool :=
  match a, b with
  | Some x, Some y => eqb x y
  | None, None => true
  | _, _ => false
  end.

(* [N.seq]-like enumeration used by finite sweeps. *)
Fixpoint nseq (start : N) (len : nat) : list N :=
  match len with O => [] | S k => start :: nseq (N.succ start) k end.

Lemma nseq_In start len x : In x (nseq start len) <-> (start <= x < start + N.of_nat len)%N.
Proof.
  revert start; induction len as [|k IH]; intro start; simpl.
  - split; [tauto | lia].
  - rewrite IH. lia.
Qed.
