(* Unsigned LEB128 as implemented by github.com/kstenerud/go-uleb128 v1.1.0
   (uleb.go) on 64-bit words:
     - uleb_encode      = EncodeUint64ToBytes (extended to every natural number),
     - uleb_decode      = the mathematical decoder (any length, non-minimal accepted),
     - uleb_decode_u64  = DecodeWithByteBuffer restricted to the results it reports
                          as uint64 (asBigInt == nil); the CBE reader rejects the
                          big.Int results.
   Definitions and their lemmas. *)
From CE Require Export Base.Prelude.
From CE Require Export Base.LE.
From Coq Require Import ZifyN ZifyNat ZifyBool.

Local Open Scope N_scope.

#[local] Arguments N.pow : simpl never.
#[local] Arguments N.div : simpl never.
#[local] Arguments N.modulo : simpl never.
#[local] Arguments N.mul : simpl never.
#[local] Arguments N.add : simpl never.
#[local] Arguments N.ltb : simpl never.

(* ------------------------------------------------------------------ *)
(* Encoder                                                              *)
(* ------------------------------------------------------------------ *)

(* Groups of 7 bits, least significant first, 0x80 set on all but the last.
   [fuel] only has to be at least the number of groups; we use the bit size. *)
Fixpoint uleb_encode_fuel (fuel : nat) (v : N) : bytes :=
  match fuel with
  | O => [v mod 128]
  | S f => if v <? 128 then [v]
           else (v mod 128 + 128) :: uleb_encode_fuel f (v / 128)
  end.

Definition uleb_encode (v : N) : bytes := uleb_encode_fuel (N.to_nat (N.size v)) v.

Lemma div128_lt_pow2 v (f : nat) : v < 2 ^ N.of_nat (S f) -> v / 128 < 2 ^ N.of_nat f.
Proof.
  intro H. rewrite Nat2N.inj_succ, N.pow_succ_r' in H.
  remember (2 ^ N.of_nat f) as p eqn:Ep.
  apply N.div_lt_upper_bound; [discriminate|]. lia.
Qed.

Lemma uleb_encode_fuel_irrel (f1 f2 : nat) v :
  v < 2 ^ N.of_nat f1 -> v < 2 ^ N.of_nat f2 ->
  uleb_encode_fuel f1 v = uleb_encode_fuel f2 v.
Proof.
  revert f2 v; induction f1 as [|g1 IH]; intros f2 v H1 H2.
  - change (N.of_nat 0) with 0 in H1. rewrite N.pow_0_r in H1.
    assert (v = 0) by lia. subst v.
    destruct f2; reflexivity.
  - destruct f2 as [|g2].
    + change (N.of_nat 0) with 0 in H2. rewrite N.pow_0_r in H2.
      assert (v = 0) by lia. subst v. reflexivity.
    + cbn [uleb_encode_fuel]. destruct (v <? 128); [reflexivity|].
      f_equal. apply IH; apply div128_lt_pow2; assumption.
Qed.

(* The defining equation (this is the loop of EncodeUint64ToBytes). *)
Lemma uleb_encode_eq v :
  uleb_encode v =
  if v <? 128 then [v] else (v mod 128 + 128) :: uleb_encode (v / 128).
Proof.
  unfold uleb_encode at 1.
  pose proof (N.size_gt v) as Hs.
  destruct (N.to_nat (N.size v)) as [|f] eqn:Ef.
  - assert (E0 : N.size v = 0) by lia. rewrite E0, N.pow_0_r in Hs.
    assert (v = 0) by lia. subst v. reflexivity.
  - cbn [uleb_encode_fuel]. destruct (v <? 128); [reflexivity|].
    f_equal. unfold uleb_encode. apply uleb_encode_fuel_irrel.
    + apply div128_lt_pow2. rewrite <- Ef, N2Nat.id. exact Hs.
    + rewrite N2Nat.id. apply N.size_gt.
Qed.

Lemma uleb_encode_small v : v < 128 -> uleb_encode v = [v].
Proof.
  intro H. rewrite uleb_encode_eq.
  destruct (N.ltb_spec v 128) as [_|C]; [reflexivity | lia].
Qed.

Lemma uleb_encode_big v :
  128 <= v -> uleb_encode v = (v mod 128 + 128) :: uleb_encode (v / 128).
Proof.
  intro H. rewrite uleb_encode_eq.
  destruct (N.ltb_spec v 128) as [C|_]; [lia | reflexivity].
Qed.

(* Induction principle following the encoder. *)
Lemma uleb_ind (P : N -> Prop) :
  (forall v, v < 128 -> P v) ->
  (forall v, 128 <= v -> P (v / 128) -> P v) ->
  forall v, P v.
Proof.
  intros Hs Hb v.
  induction v as [v IH] using (well_founded_induction N.lt_wf_0).
  destruct (N.lt_ge_cases v 128) as [C|C].
  - apply Hs. exact C.
  - apply Hb; [exact C|]. apply IH.
    apply N.div_lt; lia.
Qed.

(* ------------------------------------------------------------------ *)
(* Decoders                                                             *)
(* ------------------------------------------------------------------ *)

(* Mathematical decoder: value and remaining bytes; [None] when the input ends
   before a byte without continuation bit. *)
Fixpoint uleb_decode (b : bytes) : option (N * bytes) :=
  match b with
  | [] => None
  | x :: r =>
      if x <? 128 then Some (x, r)
      else match uleb_decode r with
           | Some (v, rest) => Some (x mod 128 + 128 * v, rest)
           | None => None
           end
  end.

(* Number of bytes the decoder consumes (up to and including the first byte
   without continuation bit; the whole input when there is none). *)
Fixpoint uleb_span (b : bytes) : nat :=
  match b with
  | [] => O
  | x :: r => if x <? 128 then 1%nat else S (uleb_span r)
  end.

Definition two64 : N := 18446744073709551616.

(* What DecodeWithByteBuffer reports through asUint (asBigInt == nil):
   - at most 9 bytes: no 64-bit word has been completed, the value always fits;
   - 10..18 bytes: exactly one word completed; asUint iff the partial next word
     is 0, i.e. iff the value is < 2^64;
   - 19 bytes or more: a second word is completed, always a big.Int. *)
Definition uleb_decode_u64 (b : bytes) : option (N * bytes) :=
  match uleb_decode b with
  | Some (v, rest) =>
      let n := uleb_span b in
      if (n <=? 9)%nat || ((n <=? 18)%nat && (v <? two64)) then Some (v, rest) else None
  | None => None
  end.

(* ------------------------------------------------------------------ *)
(* Shape of the encoding                                                *)
(* ------------------------------------------------------------------ *)

Lemma uleb_encode_wf v : bytes_wf (uleb_encode v).
Proof.
  induction v as [v Hv|v Hv IH] using uleb_ind.
  - rewrite uleb_encode_small by exact Hv.
    apply bytes_wf_cons. split; [lia | apply bytes_wf_nil].
  - rewrite uleb_encode_big by exact Hv.
    apply bytes_wf_cons. split; [|exact IH].
    pose proof (N.mod_lt v 128 ltac:(discriminate)). lia.
Qed.

Lemma uleb_encode_nonempty v : uleb_encode v <> [].
Proof.
  rewrite uleb_encode_eq. destruct (v <? 128); discriminate.
Qed.

(* Last byte < 128, all others >= 128. *)
Lemma uleb_encode_shape v :
  exists pre l, uleb_encode v = pre ++ [l] /\ l < 128 /\ Forall (fun x => 128 <= x) pre.
Proof.
  induction v as [v Hv|v Hv IH] using uleb_ind.
  - exists [], v. rewrite uleb_encode_small by exact Hv.
    split; [reflexivity|]. split; [exact Hv | constructor].
  - destruct IH as (pre & l & E & Hl & Hpre).
    exists ((v mod 128 + 128) :: pre), l.
    rewrite uleb_encode_big by exact Hv. rewrite E.
    split; [reflexivity|]. split; [exact Hl|].
    constructor; [lia | exact Hpre].
Qed.

Lemma uleb_encode_last v : last (uleb_encode v) 0 < 128.
Proof.
  destruct (uleb_encode_shape v) as (pre & l & E & Hl & _).
  rewrite E, last_last. exact Hl.
Qed.

Lemma uleb_encode_init v : Forall (fun x => 128 <= x) (removelast (uleb_encode v)).
Proof.
  destruct (uleb_encode_shape v) as (pre & l & E & _ & Hpre).
  rewrite E, removelast_last. exact Hpre.
Qed.

(* ------------------------------------------------------------------ *)
(* Length of the encoding                                               *)
(* ------------------------------------------------------------------ *)

(* Least k >= 1 with v < 128^k. *)
Definition uleb_len (v : N) : nat :=
  match v with
  | 0 => 1%nat
  | Npos _ => S (N.to_nat (N.log2 v / 7))
  end.

Lemma pow128_pow2 (k : N) : 128 ^ k = 2 ^ (7 * k).
Proof. change 128 with (2 ^ 7). rewrite <- N.pow_mul_r. reflexivity. Qed.

Lemma uleb_len_pos v : (1 <= uleb_len v)%nat.
Proof. destruct v; cbn [uleb_len]; lia. Qed.

Lemma uleb_len_spec v : v < 128 ^ N.of_nat (uleb_len v).
Proof.
  destruct v as [|p]; cbn [uleb_len].
  - change (N.of_nat 1) with 1. rewrite N.pow_1_r. lia.
  - set (v := N.pos p).
    assert (Hv : 0 < v) by (unfold v; lia).
    destruct (N.log2_spec v Hv) as [_ Hhi].
    eapply N.lt_le_trans; [exact Hhi|].
    rewrite pow128_pow2.
    apply N.pow_le_mono_r; [discriminate|].
    rewrite Nat2N.inj_succ, N2Nat.id.
    pose proof (N.div_mod (N.log2 v) 7 ltac:(discriminate)) as D.
    pose proof (N.mod_lt (N.log2 v) 7 ltac:(discriminate)) as M.
    lia.
Qed.

Lemma uleb_len_least v (k : nat) :
  (0 < k < uleb_len v)%nat -> 128 ^ N.of_nat k <= v.
Proof.
  destruct v as [|p]; cbn [uleb_len]; intro Hk.
  - lia.
  - set (v := N.pos p) in *.
    assert (Hv : 0 < v) by (unfold v; lia).
    destruct (N.log2_spec v Hv) as [Hlo _].
    eapply N.le_trans; [|exact Hlo].
    rewrite pow128_pow2.
    apply N.pow_le_mono_r; [discriminate|].
    pose proof (N.div_mod (N.log2 v) 7 ltac:(discriminate)) as D.
    pose proof (N.mod_lt (N.log2 v) 7 ltac:(discriminate)) as M.
    assert (Hk' : N.of_nat k <= N.log2 v / 7) by lia.
    lia.
Qed.

Lemma uleb_len_unique v (k : nat) :
  (1 <= k)%nat ->
  v < 128 ^ N.of_nat k ->
  (forall j : nat, (0 < j < k)%nat -> 128 ^ N.of_nat j <= v) ->
  k = uleb_len v.
Proof.
  intros Hk Hlt Hleast.
  pose proof (uleb_len_pos v) as Hp.
  destruct (Nat.lt_trichotomy k (uleb_len v)) as [H|[H|H]].
  - pose proof (uleb_len_least v k ltac:(lia)). lia.
  - exact H.
  - pose proof (Hleast (uleb_len v) ltac:(lia)). pose proof (uleb_len_spec v). lia.
Qed.

Lemma uleb_len_small v : v < 128 -> uleb_len v = 1%nat.
Proof.
  intro H. symmetry. apply uleb_len_unique.
  - lia.
  - change (N.of_nat 1) with 1. rewrite N.pow_1_r. exact H.
  - intros j Hj. lia.
Qed.

Lemma uleb_len_big v : 128 <= v -> uleb_len v = S (uleb_len (v / 128)).
Proof.
  intro H. symmetry.
  set (w := v / 128).
  pose proof (N.div_mod v 128 ltac:(discriminate)) as D. fold w in D.
  pose proof (N.mod_lt v 128 ltac:(discriminate)) as M.
  apply uleb_len_unique.
  - lia.
  - rewrite Nat2N.inj_succ, N.pow_succ_r'.
    pose proof (uleb_len_spec w) as S.
    remember (128 ^ N.of_nat (uleb_len w)) as p eqn:Ep. lia.
  - intros j Hj. destruct j as [|j]; [lia|].
    rewrite Nat2N.inj_succ, N.pow_succ_r'.
    destruct j as [|j].
    + change (N.of_nat 0) with 0. rewrite N.pow_0_r. lia.
    + pose proof (uleb_len_least w (S j) ltac:(lia)) as L.
      remember (128 ^ N.of_nat (S j)) as p eqn:Ep. lia.
Qed.

Lemma uleb_encode_length v : length (uleb_encode v) = uleb_len v.
Proof.
  induction v as [v Hv|v Hv IH] using uleb_ind.
  - rewrite uleb_encode_small, uleb_len_small by exact Hv. reflexivity.
  - rewrite uleb_encode_big, uleb_len_big by exact Hv.
    cbn [length]. rewrite IH. reflexivity.
Qed.

(* The two characterising facts, directly on the encoder. *)
Lemma uleb_encode_length_spec v : v < 128 ^ N.of_nat (length (uleb_encode v)).
Proof. rewrite uleb_encode_length. apply uleb_len_spec. Qed.

Lemma uleb_encode_length_least v (k : nat) :
  (0 < k < length (uleb_encode v))%nat -> 128 ^ N.of_nat k <= v.
Proof. rewrite uleb_encode_length. apply uleb_len_least. Qed.

Lemma uleb_encode_length_1 v : v < 128 -> length (uleb_encode v) = 1%nat.
Proof. intro H. rewrite uleb_encode_length. apply uleb_len_small. exact H. Qed.

Lemma uleb_len_le v (n : nat) : (1 <= n)%nat -> v < 128 ^ N.of_nat n -> (uleb_len v <= n)%nat.
Proof.
  intros Hn H. destruct (Nat.le_gt_cases (uleb_len v) n) as [L|L]; [exact L|].
  pose proof (uleb_len_least v n ltac:(lia)). lia.
Qed.

(* A uint64 needs at most 10 bytes (MaxBufferWriteBytes). *)
Lemma uleb_encode_length_u64 v : v < two64 -> (length (uleb_encode v) <= 10)%nat.
Proof.
  intro H. rewrite uleb_encode_length. apply uleb_len_le; [lia|].
  eapply N.lt_le_trans; [exact H|]. vm_compute. discriminate.
Qed.

(* ------------------------------------------------------------------ *)
(* Round trips                                                          *)
(* ------------------------------------------------------------------ *)

Lemma uleb_decode_encode v rest : uleb_decode (uleb_encode v ++ rest) = Some (v, rest).
Proof.
  induction v as [v Hv|v Hv IH] using uleb_ind.
  - rewrite uleb_encode_small by exact Hv. cbn [app uleb_decode].
    destruct (N.ltb_spec v 128) as [_|C]; [reflexivity | lia].
  - rewrite uleb_encode_big by exact Hv. cbn [app uleb_decode].
    pose proof (N.mod_lt v 128 ltac:(discriminate)) as M.
    destruct (N.ltb_spec (v mod 128 + 128) 128) as [C|_]; [lia|].
    rewrite IH. f_equal. f_equal.
    rewrite N.add_mod by discriminate.
    rewrite N.mod_same, N.add_0_r, N.mod_mod, N.mod_mod by discriminate.
    pose proof (N.div_mod v 128 ltac:(discriminate)) as D. lia.
Qed.

Lemma uleb_span_encode v rest : uleb_span (uleb_encode v ++ rest) = length (uleb_encode v).
Proof.
  induction v as [v Hv|v Hv IH] using uleb_ind.
  - rewrite uleb_encode_small by exact Hv. cbn [app uleb_span length].
    destruct (N.ltb_spec v 128) as [_|C]; [reflexivity | lia].
  - rewrite uleb_encode_big by exact Hv. cbn [app uleb_span length].
    destruct (N.ltb_spec (v mod 128 + 128) 128) as [C|_]; [lia|].
    rewrite IH. reflexivity.
Qed.

Lemma uleb_decode_u64_encode v rest :
  v < two64 -> uleb_decode_u64 (uleb_encode v ++ rest) = Some (v, rest).
Proof.
  intro H. unfold uleb_decode_u64.
  rewrite uleb_decode_encode, uleb_span_encode.
  pose proof (uleb_encode_length_u64 v H) as L.
  cbv zeta.
  destruct (N.ltb_spec v two64) as [_|C]; [|lia].
  replace (length (uleb_encode v) <=? 18)%nat with true
    by (symmetry; apply Nat.leb_le; lia).
  rewrite orb_true_r. reflexivity.
Qed.

(* ------------------------------------------------------------------ *)
(* General facts about the decoders                                     *)
(* ------------------------------------------------------------------ *)

(* The decoder consumes exactly [uleb_span b] bytes. *)
Lemma uleb_decode_span b v rest :
  uleb_decode b = Some (v, rest) ->
  b = firstn (uleb_span b) b ++ rest /\ (1 <= uleb_span b)%nat /\
  length b = (uleb_span b + length rest)%nat.
Proof.
  revert v rest; induction b as [|x r IH]; intros v rest E; cbn [uleb_decode uleb_span] in *.
  - discriminate.
  - destruct (x <? 128).
    + inversion E; subst. cbn [firstn app length]. repeat split; lia.
    + destruct (uleb_decode r) as [[w rest']|] eqn:Er; [|discriminate].
      inversion E; subst. destruct (IH w rest eq_refl) as (E1 & E2 & E3).
      cbn [firstn app length]. rewrite <- E1. repeat split; lia.
Qed.

(* On well-formed bytes the decoded value is below 128^(bytes consumed). *)
Lemma uleb_decode_bound b v rest :
  uleb_decode b = Some (v, rest) -> v < 128 ^ N.of_nat (uleb_span b).
Proof.
  revert v rest; induction b as [|x r IH]; intros v rest E; cbn [uleb_decode uleb_span] in *.
  - discriminate.
  - destruct (N.ltb_spec x 128) as [C|C].
    + inversion E; subst. change (N.of_nat 1) with 1. rewrite N.pow_1_r. exact C.
    + destruct (uleb_decode r) as [[w rest']|] eqn:Er; [|discriminate].
      inversion E; subst. specialize (IH w rest eq_refl).
      rewrite Nat2N.inj_succ, N.pow_succ_r'.
      pose proof (N.mod_lt x 128 ltac:(discriminate)) as M.
      remember (128 ^ N.of_nat (uleb_span r)) as p eqn:Ep. lia.
Qed.

(* With at most 9 bytes consumed the value always fits in 63 bits, which is why
   the first disjunct of [uleb_decode_u64] needs no range test. *)
Lemma uleb_decode_9_fits b v rest :
  uleb_decode b = Some (v, rest) -> (uleb_span b <= 9)%nat -> v < two64.
Proof.
  intros E L. pose proof (uleb_decode_bound b v rest E) as B.
  eapply N.lt_trans; [exact B|].
  eapply N.le_lt_trans.
  - apply N.pow_le_mono_r with (c := 9); [discriminate | lia].
  - vm_compute. reflexivity.
Qed.

Lemma uleb_decode_u64_sound b v rest :
  uleb_decode_u64 b = Some (v, rest) ->
  uleb_decode b = Some (v, rest) /\ v < two64 /\ (uleb_span b <= 18)%nat.
Proof.
  unfold uleb_decode_u64. intro E.
  destruct (uleb_decode b) as [[w r]|] eqn:Ed; [|discriminate].
  cbv zeta in E.
  destruct (Nat.leb_spec (uleb_span b) 9) as [L9|L9]; cbn [orb] in E.
  - inversion E; subst. split; [reflexivity|]. split; [|lia].
    eapply uleb_decode_9_fits; [exact Ed | exact L9].
  - destruct (Nat.leb_spec (uleb_span b) 18) as [L18|L18]; cbn [andb] in E; [|discriminate].
    destruct (N.ltb_spec w two64) as [C|C]; [|discriminate].
    inversion E; subst. split; [reflexivity|]. split; [exact C | exact L18].
Qed.

Lemma uleb_decode_u64_complete b v rest :
  uleb_decode b = Some (v, rest) -> v < two64 -> (uleb_span b <= 18)%nat ->
  uleb_decode_u64 b = Some (v, rest).
Proof.
  intros E C L. unfold uleb_decode_u64. rewrite E. cbv zeta.
  destruct (N.ltb_spec v two64) as [_|C']; [|lia].
  replace (uleb_span b <=? 18)%nat with true by (symmetry; apply Nat.leb_le; exact L).
  rewrite orb_true_r. reflexivity.
Qed.

(* ------------------------------------------------------------------ *)
(* Examples                                                             *)
(* ------------------------------------------------------------------ *)

Example uleb_encode_0 : uleb_encode 0 = [0].
Proof. vm_compute. reflexivity. Qed.
Example uleb_encode_127 : uleb_encode 127 = [127].
Proof. vm_compute. reflexivity. Qed.
Example uleb_encode_128 : uleb_encode 128 = [128; 1].
Proof. vm_compute. reflexivity. Qed.
Example uleb_encode_624485 : uleb_encode 624485 = [229; 142; 38].   (* 0xE5 0x8E 0x26 *)
Proof. vm_compute. reflexivity. Qed.
Example uleb_encode_max64_len : length (uleb_encode (two64 - 1)) = 10%nat.
Proof. vm_compute. reflexivity. Qed.
Example uleb_encode_max64 :
  uleb_encode (two64 - 1) = [255; 255; 255; 255; 255; 255; 255; 255; 255; 1].
Proof. vm_compute. reflexivity. Qed.
Example uleb_encode_2pow64_len : length (uleb_encode two64) = 10%nat.
Proof. vm_compute. reflexivity. Qed.
Example uleb_encode_huge_len : length (uleb_encode (2 ^ 700)) = 101%nat.
Proof. vm_compute. reflexivity. Qed.
Example uleb_decode_nonminimal : uleb_decode [128; 0] = Some (0, []).
Proof. vm_compute. reflexivity. Qed.
Example uleb_decode_rest : uleb_decode [229; 142; 38; 7; 8] = Some (624485, [7; 8]).
Proof. vm_compute. reflexivity. Qed.
Example uleb_decode_truncated : uleb_decode [128; 128] = None.
Proof. vm_compute. reflexivity. Qed.
Example uleb_decode_empty : uleb_decode [] = None.
Proof. vm_compute. reflexivity. Qed.
Example uleb_decode_u64_max :
  uleb_decode_u64 (uleb_encode (two64 - 1) ++ [9]) = Some (two64 - 1, [9]).
Proof. vm_compute. reflexivity. Qed.
(* 10 bytes, value 2^64: a big.Int for the Go library, rejected here. *)
Example uleb_decode_u64_2pow64 :
  uleb_decode (uleb_encode two64) = Some (two64, []) /\ uleb_decode_u64 (uleb_encode two64) = None.
Proof. vm_compute. split; reflexivity. Qed.
(* 18 bytes, non-minimal encoding of 1: still the uint64 path. *)
Example uleb_decode_u64_18 :
  uleb_decode_u64 (129 :: repeat 128 16 ++ [0]) = Some (1, []).
Proof. vm_compute. reflexivity. Qed.
(* 19 bytes, non-minimal encoding of 1: two words, big.Int path, rejected. *)
Example uleb_decode_u64_19 :
  uleb_decode (129 :: repeat 128 17 ++ [0]) = Some (1, []) /\
  uleb_decode_u64 (129 :: repeat 128 17 ++ [0]) = None.
Proof. vm_compute. split; reflexivity. Qed.
(* Non-vacuity of the u64 round trip hypothesis. *)
Example uleb_u64_hyp_ex : two64 - 1 < two64.
Proof. vm_compute. reflexivity. Qed.
