(* Fixed-width little-endian byte fields, and the minimal byte length of a
   natural number (CBE "variable length" integers use exactly that many bytes).
   Definitions and their lemmas; everything is stated for arbitrary widths. *)
From CE Require Export Base.Prelude.
From Coq Require Import ZifyN ZifyNat ZifyBool.

Local Open Scope N_scope.

#[local] Arguments N.pow : simpl never.
#[local] Arguments N.div : simpl never.
#[local] Arguments N.modulo : simpl never.
#[local] Arguments N.mul : simpl never.
#[local] Arguments N.add : simpl never.

(* ------------------------------------------------------------------ *)
(* Well-formed byte strings                                             *)
(* ------------------------------------------------------------------ *)

Definition bytes_wf (b : bytes) : Prop := Forall (fun x => x < 256) b.
Definition bytes_wfb (b : bytes) : bool := forallb (fun x => x <? 256) b.

Lemma bytes_wfb_wf b : bytes_wfb b = true <-> bytes_wf b.
Proof.
  unfold bytes_wfb, bytes_wf. rewrite forallb_forall, Forall_forall.
  split; intros H x Hx; apply N.ltb_lt; apply H; exact Hx.
Qed.

Lemma bytes_wf_nil : bytes_wf [].
Proof. constructor. Qed.

Lemma bytes_wf_cons x b : bytes_wf (x :: b) <-> x < 256 /\ bytes_wf b.
Proof.
  unfold bytes_wf. split.
  - intro H. inversion H; subst. split; assumption.
  - intros [H1 H2]. constructor; assumption.
Qed.

Lemma bytes_wf_app a b : bytes_wf (a ++ b) <-> bytes_wf a /\ bytes_wf b.
Proof. unfold bytes_wf. apply Forall_app. Qed.

(* ------------------------------------------------------------------ *)
(* Encoding and decoding                                                *)
(* ------------------------------------------------------------------ *)

(* [n] bytes, least significant first, of [v mod 256^n]. *)
Fixpoint le_encode (n : nat) (v : N) : bytes :=
  match n with
  | O => []
  | S k => (v mod 256) :: le_encode k (v / 256)
  end.

(* sum of b_i * 256^i *)
Fixpoint le_decode (b : bytes) : N :=
  match b with
  | [] => 0
  | x :: r => x + 256 * le_decode r
  end.

Lemma pow256_succ (k : nat) : 256 ^ N.of_nat (S k) = 256 * 256 ^ N.of_nat k.
Proof. rewrite Nat2N.inj_succ. apply N.pow_succ_r'. Qed.

Lemma pow256_pos (k : N) : 0 < 256 ^ k.
Proof. apply N.neq_0_lt_0. apply N.pow_nonzero. discriminate. Qed.

Lemma le_encode_length n v : length (le_encode n v) = n.
Proof.
  revert v; induction n as [|k IH]; intro v; cbn [le_encode length].
  - reflexivity.
  - rewrite IH. reflexivity.
Qed.

Lemma le_encode_wf n v : bytes_wf (le_encode n v).
Proof.
  revert v; induction n as [|k IH]; intro v; cbn [le_encode].
  - apply bytes_wf_nil.
  - apply bytes_wf_cons. split; [|apply IH].
    apply N.mod_lt. discriminate.
Qed.

Lemma le_decode_encode n v : le_decode (le_encode n v) = v mod 256 ^ N.of_nat n.
Proof.
  revert v; induction n as [|k IH]; intro v; cbn [le_encode le_decode].
  - change (N.of_nat 0) with 0. rewrite N.pow_0_r, N.mod_1_r. reflexivity.
  - rewrite IH, pow256_succ.
    rewrite N.mod_mul_r; [reflexivity | discriminate |].
    apply N.pow_nonzero. discriminate.
Qed.

Lemma le_decode_encode_small n v :
  v < 256 ^ N.of_nat n -> le_decode (le_encode n v) = v.
Proof. intro H. rewrite le_decode_encode. apply N.mod_small. exact H. Qed.

Lemma le_encode_decode b : bytes_wf b -> le_encode (length b) (le_decode b) = b.
Proof.
  induction b as [|x r IH]; intro W; cbn [length le_encode le_decode].
  - reflexivity.
  - apply bytes_wf_cons in W as [Hx Hr].
    assert (E1 : (x + 256 * le_decode r) mod 256 = x).
    { rewrite (N.mul_comm 256), N.mod_add by discriminate.
      apply N.mod_small. exact Hx. }
    assert (E2 : (x + 256 * le_decode r) / 256 = le_decode r).
    { rewrite (N.mul_comm 256), N.div_add by discriminate.
      rewrite (N.div_small x 256) by exact Hx. apply N.add_0_l. }
    rewrite E1, E2, (IH Hr). reflexivity.
Qed.

Lemma le_decode_lt b : bytes_wf b -> le_decode b < 256 ^ N.of_nat (length b).
Proof.
  induction b as [|x r IH]; intro W; cbn [length le_decode].
  - change (N.of_nat 0) with 0. rewrite N.pow_0_r. lia.
  - apply bytes_wf_cons in W as [Hx Hr]. specialize (IH Hr).
    rewrite pow256_succ.
    remember (256 ^ N.of_nat (length r)) as p eqn:Ep.
    remember (le_decode r) as d eqn:Ed.
    lia.
Qed.

Lemma le_decode_app a b :
  le_decode (a ++ b) = le_decode a + 256 ^ N.of_nat (length a) * le_decode b.
Proof.
  induction a as [|x r IH]; cbn [app length le_decode].
  - change (N.of_nat 0) with 0. rewrite N.pow_0_r. lia.
  - rewrite IH, pow256_succ. ring.
Qed.

Lemma le_encode_inj n v1 v2 :
  v1 < 256 ^ N.of_nat n -> v2 < 256 ^ N.of_nat n ->
  le_encode n v1 = le_encode n v2 -> v1 = v2.
Proof.
  intros H1 H2 E.
  rewrite <- (le_decode_encode_small n v1 H1), <- (le_decode_encode_small n v2 H2), E.
  reflexivity.
Qed.

(* Only the residue modulo 256^n matters. *)
Lemma le_encode_mod n v : le_encode n (v mod 256 ^ N.of_nat n) = le_encode n v.
Proof.
  rewrite <- le_decode_encode.
  rewrite <- (le_encode_length n v) at 1.
  apply le_encode_decode. apply le_encode_wf.
Qed.

Lemma le_encode_app n m v :
  le_encode (n + m) v = le_encode n v ++ le_encode m (v / 256 ^ N.of_nat n).
Proof.
  revert v; induction n as [|k IH]; intro v.
  - cbn [Nat.add le_encode app]. change (N.of_nat 0) with 0.
    rewrite N.pow_0_r, N.div_1_r. reflexivity.
  - change (S k + m)%nat with (S (k + m)). cbn [le_encode app].
    rewrite IH, pow256_succ. rewrite N.div_div; [reflexivity | discriminate |].
    apply N.pow_nonzero. discriminate.
Qed.

(* Decoding is injective on well-formed strings of the same length. *)
Lemma le_decode_inj a b :
  bytes_wf a -> bytes_wf b -> length a = length b ->
  le_decode a = le_decode b -> a = b.
Proof.
  intros Wa Wb L E.
  rewrite <- (le_encode_decode a Wa), <- (le_encode_decode b Wb), L, E.
  reflexivity.
Qed.

(* ------------------------------------------------------------------ *)
(* Minimal byte length                                                  *)
(* ------------------------------------------------------------------ *)

(* Least k with v < 256^k; 0 for v = 0. *)
Definition min_le_len (v : N) : nat :=
  match v with
  | 0 => O
  | Npos _ => S (N.to_nat (N.log2 v / 8))
  end.

Lemma pow256_pow2 (k : N) : 256 ^ k = 2 ^ (8 * k).
Proof. change 256 with (2 ^ 8). rewrite <- N.pow_mul_r. reflexivity. Qed.

Lemma min_le_len_spec v : v < 256 ^ N.of_nat (min_le_len v).
Proof.
  destruct v as [|p]; cbn [min_le_len].
  - change (N.of_nat 0) with 0. rewrite N.pow_0_r. lia.
  - set (v := N.pos p).
    assert (Hv : 0 < v) by (unfold v; lia).
    destruct (N.log2_spec v Hv) as [_ Hhi].
    eapply N.lt_le_trans; [exact Hhi|].
    rewrite pow256_pow2.
    apply N.pow_le_mono_r; [discriminate|].
    rewrite Nat2N.inj_succ, N2Nat.id.
    pose proof (N.div_mod (N.log2 v) 8 ltac:(discriminate)) as D.
    pose proof (N.mod_lt (N.log2 v) 8 ltac:(discriminate)) as M.
    lia.
Qed.

Lemma min_le_len_least v (k : nat) :
  (k < min_le_len v)%nat -> 256 ^ N.of_nat k <= v.
Proof.
  destruct v as [|p]; cbn [min_le_len]; intro Hk.
  - lia.
  - set (v := N.pos p) in *.
    assert (Hv : 0 < v) by (unfold v; lia).
    destruct (N.log2_spec v Hv) as [Hlo _].
    eapply N.le_trans; [|exact Hlo].
    rewrite pow256_pow2.
    apply N.pow_le_mono_r; [discriminate|].
    pose proof (N.div_mod (N.log2 v) 8 ltac:(discriminate)) as D.
    pose proof (N.mod_lt (N.log2 v) 8 ltac:(discriminate)) as M.
    assert (Hk' : N.of_nat k <= N.log2 v / 8) by lia.
    lia.
Qed.

(* [min_le_len] is characterised by the two lemmas above. *)
Lemma min_le_len_unique v (k : nat) :
  v < 256 ^ N.of_nat k ->
  (forall j : nat, (j < k)%nat -> 256 ^ N.of_nat j <= v) ->
  k = min_le_len v.
Proof.
  intros Hlt Hleast.
  destruct (Nat.lt_trichotomy k (min_le_len v)) as [H|[H|H]].
  - pose proof (min_le_len_least v k H). lia.
  - exact H.
  - pose proof (Hleast _ H). pose proof (min_le_len_spec v). lia.
Qed.

Lemma min_le_len_0 : min_le_len 0 = O.
Proof. reflexivity. Qed.

Lemma min_le_len_pos v : 0 < v -> (1 <= min_le_len v)%nat.
Proof. destruct v; cbn [min_le_len]; lia. Qed.

(* Encoding with the minimal length loses nothing, and the top byte is non-zero. *)
Lemma le_decode_encode_min v : le_decode (le_encode (min_le_len v) v) = v.
Proof. apply le_decode_encode_small. apply min_le_len_spec. Qed.

Lemma min_le_len_le v (n : nat) : v < 256 ^ N.of_nat n -> (min_le_len v <= n)%nat.
Proof.
  intro H. destruct (Nat.le_gt_cases (min_le_len v) n) as [L|L]; [exact L|].
  pose proof (min_le_len_least v n L). lia.
Qed.

(* ------------------------------------------------------------------ *)
(* Examples (non-vacuity)                                               *)
(* ------------------------------------------------------------------ *)

Example le_encode_ex1 : le_encode 4 305419896 = [120; 86; 52; 18].   (* 0x12345678 *)
Proof. vm_compute. reflexivity. Qed.
Example le_encode_ex2 : le_encode 2 305419896 = [120; 86].           (* truncation *)
Proof. vm_compute. reflexivity. Qed.
Example le_decode_ex1 : le_decode [120; 86; 52; 18] = 305419896.
Proof. vm_compute. reflexivity. Qed.
Example bytes_wfb_ex1 : bytes_wfb [120; 86; 52; 18] = true.
Proof. vm_compute. reflexivity. Qed.
Example bytes_wfb_ex2 : bytes_wfb [120; 256] = false.
Proof. vm_compute. reflexivity. Qed.
Example min_le_len_ex :
  map min_le_len [0; 1; 255; 256; 65535; 65536; 18446744073709551615; 18446744073709551616]
  = [0; 1; 1; 2; 2; 3; 8; 9]%nat.
Proof. vm_compute. reflexivity. Qed.
Example le_encode_min_ex : le_encode (min_le_len 65536) 65536 = [0; 0; 1].
Proof. vm_compute. reflexivity. Qed.
