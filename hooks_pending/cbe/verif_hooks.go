//go:build verif
// +build verif

package cbe

import "github.com/kstenerud/go-concise-encoding/ce/events"

// Verification hooks (build tag "verif"): read-only views of the unexported
// constants and tables of the CBE codec, for the external verification harness.
// Add-only file; nothing here is used by the library itself.

// VerifTypeCode is one named cbeType* constant.
type VerifTypeCode struct {
	Name  string
	Value uint16
}

// VerifTypeCodes lists every cbeType* constant of common.go (plane 1, plane 7f and the EOF marker).
func VerifTypeCodes() []VerifTypeCode {
	return []VerifTypeCode{
		{"cbeTypeUID", uint16(cbeTypeUID)},
		{"cbeTypePosInt", uint16(cbeTypePosInt)},
		{"cbeTypeNegInt", uint16(cbeTypeNegInt)},
		{"cbeTypePosInt8", uint16(cbeTypePosInt8)},
		{"cbeTypeNegInt8", uint16(cbeTypeNegInt8)},
		{"cbeTypePosInt16", uint16(cbeTypePosInt16)},
		{"cbeTypeNegInt16", uint16(cbeTypeNegInt16)},
		{"cbeTypePosInt32", uint16(cbeTypePosInt32)},
		{"cbeTypeNegInt32", uint16(cbeTypeNegInt32)},
		{"cbeTypePosInt64", uint16(cbeTypePosInt64)},
		{"cbeTypeNegInt64", uint16(cbeTypeNegInt64)},
		{"cbeTypeFloat16", uint16(cbeTypeFloat16)},
		{"cbeTypeFloat32", uint16(cbeTypeFloat32)},
		{"cbeTypeFloat64", uint16(cbeTypeFloat64)},
		{"cbeTypeReserved73", uint16(cbeTypeReserved73)},
		{"cbeTypeReserved74", uint16(cbeTypeReserved74)},
		{"cbeTypeReserved75", uint16(cbeTypeReserved75)},
		{"cbeTypeDecimal", uint16(cbeTypeDecimal)},
		{"cbeTypeLocalReference", uint16(cbeTypeLocalReference)},
		{"cbeTypeFalse", uint16(cbeTypeFalse)},
		{"cbeTypeTrue", uint16(cbeTypeTrue)},
		{"cbeTypeDate", uint16(cbeTypeDate)},
		{"cbeTypeTime", uint16(cbeTypeTime)},
		{"cbeTypeTimestamp", uint16(cbeTypeTimestamp)},
		{"cbeTypeNull", uint16(cbeTypeNull)},
		{"cbeTypeReserved7e", uint16(cbeTypeReserved7e)},
		{"cbeTypePlane7f", uint16(cbeTypePlane7f)},
		{"cbeTypeString0", uint16(cbeTypeString0)},
		{"cbeTypeString1", uint16(cbeTypeString1)},
		{"cbeTypeString2", uint16(cbeTypeString2)},
		{"cbeTypeString3", uint16(cbeTypeString3)},
		{"cbeTypeString4", uint16(cbeTypeString4)},
		{"cbeTypeString5", uint16(cbeTypeString5)},
		{"cbeTypeString6", uint16(cbeTypeString6)},
		{"cbeTypeString7", uint16(cbeTypeString7)},
		{"cbeTypeString8", uint16(cbeTypeString8)},
		{"cbeTypeString9", uint16(cbeTypeString9)},
		{"cbeTypeString10", uint16(cbeTypeString10)},
		{"cbeTypeString11", uint16(cbeTypeString11)},
		{"cbeTypeString12", uint16(cbeTypeString12)},
		{"cbeTypeString13", uint16(cbeTypeString13)},
		{"cbeTypeString14", uint16(cbeTypeString14)},
		{"cbeTypeString15", uint16(cbeTypeString15)},
		{"cbeTypeString", uint16(cbeTypeString)},
		{"cbeTypeRID", uint16(cbeTypeRID)},
		{"cbeTypeCustomType", uint16(cbeTypeCustomType)},
		{"cbeTypeArrayUint8", uint16(cbeTypeArrayUint8)},
		{"cbeTypeArrayBit", uint16(cbeTypeArrayBit)},
		{"cbeTypePadding", uint16(cbeTypePadding)},
		{"cbeTypeRecord", uint16(cbeTypeRecord)},
		{"cbeTypeEdge", uint16(cbeTypeEdge)},
		{"cbeTypeNode", uint16(cbeTypeNode)},
		{"cbeTypeMap", uint16(cbeTypeMap)},
		{"cbeTypeList", uint16(cbeTypeList)},
		{"cbeTypeEndContainer", uint16(cbeTypeEndContainer)},
		{"cbeTypeShortArrayUID", uint16(cbeTypeShortArrayUID)},
		{"cbeTypeShortArrayInt8", uint16(cbeTypeShortArrayInt8)},
		{"cbeTypeShortArrayUint16", uint16(cbeTypeShortArrayUint16)},
		{"cbeTypeShortArrayInt16", uint16(cbeTypeShortArrayInt16)},
		{"cbeTypeShortArrayUint32", uint16(cbeTypeShortArrayUint32)},
		{"cbeTypeShortArrayInt32", uint16(cbeTypeShortArrayInt32)},
		{"cbeTypeShortArrayUint64", uint16(cbeTypeShortArrayUint64)},
		{"cbeTypeShortArrayInt64", uint16(cbeTypeShortArrayInt64)},
		{"cbeTypeShortArrayFloat16", uint16(cbeTypeShortArrayFloat16)},
		{"cbeTypeShortArrayFloat32", uint16(cbeTypeShortArrayFloat32)},
		{"cbeTypeShortArrayFloat64", uint16(cbeTypeShortArrayFloat64)},
		{"cbeTypeArrayUID", uint16(cbeTypeArrayUID)},
		{"cbeTypeArrayInt8", uint16(cbeTypeArrayInt8)},
		{"cbeTypeArrayUint16", uint16(cbeTypeArrayUint16)},
		{"cbeTypeArrayInt16", uint16(cbeTypeArrayInt16)},
		{"cbeTypeArrayUint32", uint16(cbeTypeArrayUint32)},
		{"cbeTypeArrayInt32", uint16(cbeTypeArrayInt32)},
		{"cbeTypeArrayUint64", uint16(cbeTypeArrayUint64)},
		{"cbeTypeArrayInt64", uint16(cbeTypeArrayInt64)},
		{"cbeTypeArrayFloat16", uint16(cbeTypeArrayFloat16)},
		{"cbeTypeArrayFloat32", uint16(cbeTypeArrayFloat32)},
		{"cbeTypeArrayFloat64", uint16(cbeTypeArrayFloat64)},
		{"cbeTypeMarker", uint16(cbeTypeMarker)},
		{"cbeTypeRecordType", uint16(cbeTypeRecordType)},
		{"cbeTypeRemoteReference", uint16(cbeTypeRemoteReference)},
		{"cbeTypeMedia", uint16(cbeTypeMedia)},
		{"cbeTypeEOF", uint16(cbeTypeEOF)},
	}
}

const (
	VerifSmallIntMin            = cbeSmallIntMin
	VerifSmallIntMax            = cbeSmallIntMax
	VerifMaxSmallArrayLength    = maxSmallArrayLength
	VerifMaxSmallStringLength   = maxSmallStringLength
	VerifMaxBigIntBitCount      = maxBigIntBitCount
	VerifDecoderStartBufferSize = decoderStartBufferSize
	VerifWriterStartBufferSize  = writerStartBufferSize
)

// VerifFitsIn runs the encoder's integer form predicates on one magnitude:
// small int, uint8, uint16, uint32, uint48 (in that order, as tested by OnPositiveInt).
func VerifFitsIn(value uint64) [5]bool {
	return [5]bool{fitsInSmallint(value), fitsInUint8(value), fitsInUint16(value), fitsInUint32(value), fitsInUint48(value)}
}

// VerifIsPlane7fArray: the isPlane7fArray table (index = events.ArrayType).
func VerifIsPlane7fArray() []bool { return append([]bool{}, isPlane7fArray...) }

// VerifArrayTypeToCBEType: the arrayTypeToCBEType table (index = events.ArrayType).
func VerifArrayTypeToCBEType() []uint16 {
	out := make([]uint16, len(arrayTypeToCBEType))
	for i, v := range arrayTypeToCBEType {
		out[i] = uint16(v)
	}
	return out
}

// VerifPlane7fTypeToArrayType: the cbePlane7fTypeToArrayType table (index = second byte after 0x7f).
func VerifPlane7fTypeToArrayType() []events.ArrayType {
	return append([]events.ArrayType{}, cbePlane7fTypeToArrayType[:]...)
}

// VerifArrayInfo is one row of the encoder's arrayInfo table.
type VerifArrayInfo struct {
	ShortArrayType       uint16
	HasSmallArraySupport bool
	IsPlane7f            bool
}

// VerifArrayInfoTable: the arrayInfo table (index = events.ArrayType).
func VerifArrayInfoTable() []VerifArrayInfo {
	out := make([]VerifArrayInfo, len(arrayInfo))
	for i, v := range arrayInfo {
		out[i] = VerifArrayInfo{uint16(v.shortArrayType), v.hasSmallArraySupport, v.isPlane7f}
	}
	return out
}
