//go:build verif
// +build verif

package cte

// Verification hooks (build tag "verif"): expose the per-kind fmt-verb and
// header tables of the CTE array encoder (encoder_array.go), indexed by
// configuration.CTENumericFormat.

// VerifArrayFormatTables returns copies of arrayFormats* and arrayHeaders*,
// keyed by the variable name.
func VerifArrayFormatTables() map[string][]string {
	cp := func(s []string) []string { return append([]string{}, s...) }
	return map[string][]string{
		"arrayFormatsGeneral": cp(arrayFormatsGeneral),
		"arrayFormats8":       cp(arrayFormats8),
		"arrayFormats16":      cp(arrayFormats16),
		"arrayFormats32":      cp(arrayFormats32),
		"arrayFormats64":      cp(arrayFormats64),
		"arrayHeadersUint8":   cp(arrayHeadersUint8),
		"arrayHeadersUint16":  cp(arrayHeadersUint16),
		"arrayHeadersUint32":  cp(arrayHeadersUint32),
		"arrayHeadersUint64":  cp(arrayHeadersUint64),
		"arrayHeadersInt8":    cp(arrayHeadersInt8),
		"arrayHeadersInt16":   cp(arrayHeadersInt16),
		"arrayHeadersInt32":   cp(arrayHeadersInt32),
		"arrayHeadersInt64":   cp(arrayHeadersInt64),
		"arrayHeadersFloat16": cp(arrayHeadersFloat16),
		"arrayHeadersFloat32": cp(arrayHeadersFloat32),
		"arrayHeadersFloat64": cp(arrayHeadersFloat64),
	}
}
