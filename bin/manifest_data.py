# Data for MANIFEST.json (bin/mkmanifest).
HOOK_COMMITS = ["5824e64", "d74c24e"]
NOTES = ("Every check: rebuilds the Go harness with -tags verif against /repo's working tree, regenerates coq/theories/Gen, "
         "rebuilds Props/<id>.vo (full .vo), audits Print Assumptions, runs the implementation and the Coq model on the same inputs, "
         "evaluates the property oracle on the implementation, applies known_findings.json. VERIF_SEED seeds the single PRNG.")
COMMON_NOTE = ("Trusted: Coq 8.16.1 kernel + vm_compute; no axioms declared (Print Assumptions output is recorded in the evidence); "
               "the Go harness and bin/check; theorems are about Gallina models, tied to the code by regenerated tables and a differential run on every check. ")
CLAIMED = {
 "C27": dict(
   text="Theorems (all first bytes, all version numbers, arbitrary format-specific entry points): both universal dispatchers equal the specific entry point of the detected format; both formats accept exactly versions 0 and 1; marshalers announce version 0. The dispatch tables and the version constant are regenerated from the code on every run, so a changed dispatcher breaks the proof; the version maps are hand-modelled and compared with both decoders on every run.",
   note=COMMON_NOTE + "The format-specific entry points are abstract functions in the theorem (section variables); the search stage compares universal and specific entry points on real documents.",
   technique="Coq proof (finite sweep over 256 first bytes lifted by forallb_forall; case analysis on version) + regenerated tables + differential run"),

 "C11": dict(
   text="Theorems for all inputs: the streaming UTF-8 validator (partial character carried between data events) accepts a list of data events iff their concatenation is valid UTF-8; per chunk and per whole array (any number of chunks, any division into data events, incl. empty events and splits inside characters) the validator's verdict and resulting state are a function of the chunk lengths, more-flags and concatenated bytes only: accepted iff sizes match, the total is within the limit and every chunk of a validated string-like type is valid UTF-8 (hence ends on a character boundary); overshoot is rejected. The dispatch matrix is translated from the rule method bodies on every run; the context primitives are hand-modelled and compared with the implementation on every run (random + split-pair inputs).",
   note=COMMON_NOTE + "Array theorems are parametric in the parent-rule callback; side conditions (chunk_shape: data completes exactly at the last event of a chunk, non-wrapping byte counts) are stated in Props/C11.v; too-little data / data after the end is rejected by the rule table, covered by the correspondence run and the exhaustive alphabet exploration, not by a theorem.",
   technique="Coq proof by induction over data events and chunks (UTF-8 decomposition lemmas) + source-translated dispatch table + differential run"),
 "C12": dict(
   text="Theorems: NotifyKey's normalisation maps two keys (any event form: unsigned, negative-integer, signed, big integer, uid, time, string, resource id, bool) to the same stored key iff they denote the same value; hence a key is rejected exactly when the current container already holds a key with the same value and is otherwise added. Model tied by the translated dispatch table and a differential run over maps/record types built from families of colliding and non-colliding spellings, plus crafted CBE documents using every binary encoding of an integer.",
   note=COMMON_NOTE + "The statement 'every accepted map has pairwise distinct keys' at whole-document level additionally needs the reachability invariant that a container's key set holds exactly the keys notified since it began; that invariant is exercised by the correspondence run (model state vs implementation verdicts) but not yet proved as a theorem.",
   technique="Coq proof (case analysis on key forms, lia on integer ranges) + differential run"),
 "C15": dict(
   text="Theorems for all event lists and configurations: the events handed to the next receiver are exactly map nn of the accepted prefix (each accepted event once, in order, same arguments; nn rewrites only nil big numbers to null and NaN-valued float/decimal/big-decimal events to NaN events of the same kind) — both when everything is accepted and when some event is rejected.",
   note=COMMON_NOTE + "The receiver layer (rules_event_rcv.go) is hand-modelled; every check compares the model's forwarded events with a recording receiver behind rules.NewRules on generated valid streams, mutants and nil/NaN carriers.",
   technique="Coq proof by case analysis on the event and induction on the stream + differential run"),
 "C18": dict(
   text="Theorem: for every heap of big-number cells, every visit order with arbitrary sharing (by pointer or by value) and both encoders, marshaling leaves every cell unchanged (C18_full), with the exact bytes written; the model follows cbe/encoder.go OnBigInt/OnPositiveInt/OnNegativeInt with explicit 64-bit wrap-around and the CTE big-integer writer. A deep before/after snapshot oracle runs over random value trees and 88 boundary big numbers in 16 shapes through 8 entry points.",
   note=COMMON_NOTE + "big.Float and apd.Decimal cells are modelled as read-only on the strength of reading the library code; the snapshot oracle checks it empirically. Non-big-number Go types are covered by the oracle only.",
   technique="Coq proof (case analysis on integer ranges) + differential run + snapshot oracle"),
 "C26": dict(
   text="Theorems for all slice lengths and element patterns and every width: bytes_to_slice . slice_to_bytes = id on in-range elements; slice_to_bytes . bytes_to_slice = the longest whole-element prefix (= id when the length is a multiple of the width); explicit little-endian byte order; length facts; which code path runs (the inverted endianness probe selects the byte-wise fallbacks on little-endian hosts); ties to the iterator's and builders' own byte loops incl. the float32 signalling-NaN deviation. Model compared with all 9 public helper pairs on lengths 0..33, boundary and NaN patterns.",
   note=COMMON_NOTE + "The unsafe fast path (dead code on this host) is modelled only as 'big-endian host output'; unexported Float16/UUID helpers are recorded but outside the property. Two open known findings (float32 signalling NaNs in the iterator and array-builder paths).",
   technique="Coq proof by induction over element lists using the LE library + differential run"),

 "C21": dict(
   text="Theorems for all struct descriptions: the two snake-case regexes equal two one-pass underscore insertions plus lower-casing; field extraction with nested re-sorting equals one stable sort of the declaration-order flattening; marshaling emits exactly the kept fields, each once, in tag order with declaration order among equal orders, under the configured/tagged name; emitted keys find their fields again (case/underscore-insensitive lookup, exact lookup); an unknown key with an edge-free value is skipped without disturbing the other fields. The full property is refuted on the faithful model by three named witnesses (embedded non-struct / pointer-to-struct fields, unknown key with an edge value, non-string keys), which are open known findings; the partial theorem excludes exactly these.",
   note=COMMON_NOTE + "reflect.StructTag.Get and the builders/iterators of the field types are outside the model (values are opaque tokens); Go's unicode.ToLower enters through the hypothesis lower_idempotent, checked against the real table on every run; Go map iteration order is abstracted as a candidate set.",
   technique="Coq proof (induction over field lists, sorting lemmas, scanner equivalence) + differential run + oracle over a zoo of struct types"),
}
NOT_CLAIMED = {}
