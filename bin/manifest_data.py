# Data for MANIFEST.json (bin/mkmanifest).
HOOK_COMMITS = ["5824e64"]
NOTES = ("Every check: rebuilds the Go harness with -tags verif against /repo's working tree, regenerates coq/theories/Gen, "
         "rebuilds Props/<id>.vo (full .vo), audits Print Assumptions, runs the implementation and the Coq model on the same inputs, "
         "evaluates the property oracle on the implementation, applies known_findings.json. VERIF_SEED seeds the single PRNG.")
COMMON_NOTE = ("Trusted: Coq 8.16.1 kernel + vm_compute; no axioms declared (Print Assumptions output is recorded in the evidence); "
               "the Go harness and bin/check; theorems are about Gallina models, tied to the code by regenerated tables and a differential run on every check. ")
CLAIMED = {
 "C27": dict(
   text="Theorems (all first bytes, all version numbers, arbitrary format-specific entry points): both universal dispatchers equal the specific entry point of the detected format; both formats accept exactly versions 0 and 1; marshalers announce version 0. The dispatch tables and the version constant are regenerated from the code on every run, so a changed dispatcher breaks the proof; the version maps are hand-modelled and compared with both decoders on every run.",
   note=COMMON_NOTE + "The format-specific entry points are abstract functions in the theorem (section variables); the search stage compares universal and specific entry points on real documents.",
   technique="Coq proof (finite sweep over 256 first bytes lifted by forallb_forall; case analysis on version) + regenerated tables + differential run"),
}
NOT_CLAIMED = {}
