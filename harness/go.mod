module verifharness

go 1.14

require (
	github.com/antlr/antlr4/runtime/Go/antlr/v4 v4.0.0-20221202181307-76fa05c21b12
	github.com/cockroachdb/apd/v2 v2.0.2
	github.com/kstenerud/go-compact-float v1.6.1
	github.com/kstenerud/go-compact-time v1.8.3
	github.com/kstenerud/go-concise-encoding v0.0.0
	github.com/kstenerud/go-describe v1.2.15
	github.com/kstenerud/go-duplicates v1.1.1
	github.com/kstenerud/go-uleb128 v1.1.0
)

replace github.com/kstenerud/go-concise-encoding => /repo
